/-
  C02 without side conditions on names: the semantic counterparts of `assembled_refutes`,
  `outline_sound`, `direction_sound`, `assembled_outline_sound` and `external_outline_sound`, in which
  "no emitted problem has a countermodel" is used through `valid_family` / `valid_single`
  (`rename_conflicting_symbols` does not matter for validity) instead of the hypothesis that the renaming
  is the identity.
-/
import AnthemModel.Proofs.RenameValid
import AnthemModel.Proofs.ExternalOutlineTask
namespace Anthem
open Asp

/-- the generic reading at the level of the parts (no emitted problem, hence no renaming involved):
    an interpretation refutes the parts of a requested direction iff it is a difference witness -/
theorem assembled_semref (t : ExternalTask) (left ugAss : List SAnn) (ΓR : Theory)
    (J : Interp) (ρ : Asg) (SR : Prop)
    (hStR : (∀ a ∈ rightSide t ΓR, sat J a.formula ρ) ↔ SR) :
    ((((t.direction = .universal ∨ t.direction = .forward) ∧
        SemRef J ρ [(assembledGen t left ugAss ΓR).stable, (assembledGen t left ugAss ΓR).fwdPremises, [],
          (assembledGen t left ugAss ΓR).fwdConclusions]) ∨
      ((t.direction = .universal ∨ t.direction = .backward) ∧
        SemRef J ρ [(assembledGen t left ugAss ΓR).stable, (assembledGen t left ugAss ΓR).bwdPremises, [],
          (assembledGen t left ugAss ΓR).bwdConclusions])) ↔
      (∀ a ∈ ugAss, sat J a.formula ρ) ∧
      (∀ a ∈ left, lStable a = true → sat J a.formula ρ) ∧
      (∀ a ∈ rightSide t ΓR, a.role = .assumption → sat J a.formula ρ) ∧
      (((t.direction = .universal ∨ t.direction = .forward) ∧
          (∀ a ∈ left, lFwdPrem a = true → sat J a.formula ρ) ∧ ¬ SR) ∨
       ((t.direction = .universal ∨ t.direction = .backward) ∧ SR ∧
          ∃ a ∈ left, lBwdConc a = true ∧ ¬ sat J a.formula ρ))) := by
  have huR := rightSide_univ t ΓR
  -- conjectures of a filtered side
  have hconj : ∀ (l : List SAnn) (p : SAnn → Bool), (∀ c ∈ (l.filter p).flatMap (conjOf t.breakEq), c.role = .conjecture →
      sat J c.formula ρ) ↔ ∀ a ∈ l, p a = true → sat J a.formula ρ := by
    intro l p
    simp only [List.mem_flatMap, List.mem_filter, forall_exists_index, and_imp]
    constructor
    · intro hh a ha hp
      refine ((conjOf_sem J ρ t.breakEq a).2).mp fun c hc => ?_
      exact hh c a ha hp hc ((conjOf_sem J ρ t.breakEq a).1 c hc)
    · intro hh c a ha hs hc _
      exact ((conjOf_sem J ρ t.breakEq a).2).mpr (hh a ha hs) c hc
  have hnoconj : ∀ (l : List AnnF), (∀ a ∈ l, a.role = .axiom) →
      (∀ a ∈ l, a.role = .conjecture → sat J a.formula ρ) := by
    intro l hl a ha hr
    rw [hl a ha] at hr; cases hr
  have hnoax : ∀ (l : List SAnn) (p : SAnn → Bool), ∀ c ∈ (l.filter p).flatMap (conjOf t.breakEq), c.role = .axiom →
      sat J c.formula ρ := by
    intro l p c hc hr
    simp only [List.mem_flatMap] at hc
    obtain ⟨a, _, hc⟩ := hc
    rw [(conjOf_sem J ρ t.breakEq a).1 c hc] at hr; cases hr
  have haxmap : ∀ (l : List SAnn), (∀ a ∈ l.map (·.toProblem .axiom), a.role = .axiom → sat J a.formula ρ) ↔
      ∀ a ∈ l, sat J a.formula ρ := by
    intro l
    simp [SAnn.toProblem]
  have haxroles : ∀ (l : List SAnn), ∀ a ∈ l.map (·.toProblem .axiom), a.role = .axiom := by
    intro l a ha
    obtain ⟨a0, _, rfl⟩ := List.mem_map.mp ha
    rfl
  have hfiltP : ∀ (l : List SAnn) (p : SAnn → Bool),
      ((∀ a ∈ l.filter p, sat J a.formula ρ) ↔ ∀ a ∈ l, p a = true → sat J a.formula ρ) := by
    intro l p
    simp only [List.mem_filter, and_imp]
  have hisA : ∀ a : SAnn, isAss a = true ↔ a.role = .assumption := fun a => by simp [isAss]
  have hisS : ∀ a : SAnn, isSpec a = true ↔ a.role = .spec := fun a => by simp [isSpec]
  have hsplitR := side_allTrue J ρ (rightSide t ΓR) huR
  have hstable : (∀ a ∈ (assembledGen t left ugAss ΓR).stable, a.role = .axiom → sat J a.formula ρ) ↔
      (∀ a ∈ ugAss, sat J a.formula ρ) ∧
      (∀ a ∈ left, lStable a = true → sat J a.formula ρ) ∧
      (∀ a ∈ rightSide t ΓR, a.role = .assumption → sat J a.formula ρ) := by
    unfold assembledGen
    simp only [List.forall_mem_append, haxmap, hfiltP, and_assoc, hisA]
  have hstableC : ∀ a ∈ (assembledGen t left ugAss ΓR).stable, a.role = .conjecture → sat J a.formula ρ := by
    apply hnoconj
    unfold assembledGen
    simp only [List.forall_mem_append]
    exact ⟨⟨haxroles _, haxroles _⟩, haxroles _⟩
  have hRspec : (∀ a ∈ rightSide t ΓR, isSpec a = true → sat J a.formula ρ) ↔
      ∀ a ∈ rightSide t ΓR, a.role = .spec → sat J a.formula ρ :=
    forall_congr' fun a => imp_congr_right fun _ => by rw [hisS a]
  have famF : SemRef J ρ [(assembledGen t left ugAss ΓR).stable,
        (assembledGen t left ugAss ΓR).fwdPremises, [], (assembledGen t left ugAss ΓR).fwdConclusions] ↔
      (∀ a ∈ ugAss, sat J a.formula ρ) ∧
      (∀ a ∈ left, lStable a = true → sat J a.formula ρ) ∧
      (∀ a ∈ rightSide t ΓR, a.role = .assumption → sat J a.formula ρ) ∧
      (∀ a ∈ left, lFwdPrem a = true → sat J a.formula ρ) ∧
      ¬ SR := by
    unfold SemRef
    simp only [List.forall_mem_cons, List.not_mem_nil, false_imp_iff, implies_true, and_true, true_and]
    rw [hstable]
    have h1 : (∀ a ∈ (assembledGen t left ugAss ΓR).fwdPremises, a.role = .axiom → sat J a.formula ρ) ↔
        ∀ a ∈ left, lFwdPrem a = true → sat J a.formula ρ := by
      unfold assembledGen
      simp only [haxmap, hfiltP]
    have h2 : ∀ a ∈ (assembledGen t left ugAss ΓR).fwdConclusions, a.role = .axiom → sat J a.formula ρ :=
      hnoax (rightSide t ΓR) isSpec
    have h3 : ∀ a ∈ (assembledGen t left ugAss ΓR).fwdPremises, a.role = .conjecture → sat J a.formula ρ :=
      hnoconj _ (haxroles _)
    have h4 : (∀ a ∈ (assembledGen t left ugAss ΓR).fwdConclusions, a.role = .conjecture → sat J a.formula ρ) ↔
        ∀ a ∈ rightSide t ΓR, a.role = .spec → sat J a.formula ρ := (hconj (rightSide t ΓR) isSpec).trans hRspec
    rw [h1, h4]
    rw [← hStR, hsplitR]
    constructor
    · rintro ⟨⟨⟨hu, hla, hra⟩, hls, _⟩, hn⟩
      exact ⟨hu, hla, hra, hls, fun hall => hn ⟨hstableC, h3, hall.2⟩⟩
    · rintro ⟨hu, hla, hra, hls, hn⟩
      exact ⟨⟨⟨hu, hla, hra⟩, hls, h2⟩, fun hall => hn ⟨hra, hall.2.2⟩⟩
  have famB : SemRef J ρ [(assembledGen t left ugAss ΓR).stable,
        (assembledGen t left ugAss ΓR).bwdPremises, [], (assembledGen t left ugAss ΓR).bwdConclusions] ↔
      (∀ a ∈ ugAss, sat J a.formula ρ) ∧
      (∀ a ∈ left, lStable a = true → sat J a.formula ρ) ∧
      (∀ a ∈ rightSide t ΓR, a.role = .assumption → sat J a.formula ρ) ∧
      SR ∧
      ∃ a ∈ left, lBwdConc a = true ∧ ¬ sat J a.formula ρ := by
    unfold SemRef
    simp only [List.forall_mem_cons, List.not_mem_nil, false_imp_iff, implies_true, and_true, true_and]
    rw [hstable]
    have h1 : (∀ a ∈ (assembledGen t left ugAss ΓR).bwdPremises, a.role = .axiom → sat J a.formula ρ) ↔
        ∀ a ∈ rightSide t ΓR, a.role = .spec → sat J a.formula ρ := by
      unfold assembledGen
      simp only [haxmap, hfiltP]
      exact hRspec
    have h2 : ∀ a ∈ (assembledGen t left ugAss ΓR).bwdConclusions, a.role = .axiom → sat J a.formula ρ :=
      hnoax left lBwdConc
    have h3 : ∀ a ∈ (assembledGen t left ugAss ΓR).bwdPremises, a.role = .conjecture → sat J a.formula ρ :=
      hnoconj _ (haxroles _)
    have h4 : (∀ a ∈ (assembledGen t left ugAss ΓR).bwdConclusions, a.role = .conjecture → sat J a.formula ρ) ↔
        ∀ a ∈ left, lBwdConc a = true → sat J a.formula ρ := hconj left lBwdConc
    rw [h1, h4]
    rw [← hStR, hsplitR]
    constructor
    · rintro ⟨⟨⟨hu, hla, hra⟩, hrs, _⟩, hn⟩
      refine ⟨hu, hla, hra, ⟨hra, hrs⟩, ?_⟩
      refine Classical.byContradiction fun hne => hn ⟨hstableC, h3, fun a ha hp => ?_⟩
      exact Classical.byContradiction fun hs => hne ⟨a, ha, hp, hs⟩
    · rintro ⟨hu, hla, hra, ⟨_, hrs⟩, ⟨a, ha, hp, hs⟩⟩
      exact ⟨⟨⟨hu, hla, hra⟩, hrs, h2⟩, fun hall => hs (hall.2.2 a ha hp)⟩
  constructor
  · rintro (⟨hd, hs⟩ | ⟨hd, hs⟩)
    · obtain ⟨hu, h1, h2, h3, h4⟩ := famF.mp hs
      exact ⟨hu, h1, h2, Or.inl ⟨hd, h3, h4⟩⟩
    · obtain ⟨hu, h1, h2, h3, h4⟩ := famB.mp hs
      exact ⟨hu, h1, h2, Or.inr ⟨hd, h3, h4⟩⟩
  · rintro ⟨hu, h1, h2, ⟨hd, h3, h4⟩ | ⟨hd, h3, h4⟩⟩
    · exact Or.inl ⟨hd, famF.mpr ⟨hu, h1, h2, h3, h4⟩⟩
    · exact Or.inr ⟨hd, famB.mpr ⟨hu, h1, h2, h3, h4⟩⟩


namespace Outline

/-- **Soundness of an outline, from validity alone**: if no outline problem has a countermodel, every
    interpretation that satisfies the axioms of the direction satisfies every lemma the outline makes
    available as an axiom. -/
theorem outline_sound_valid (dirName : String) (axioms0 : List AnnF) (lemmas : List GeneralLemma)
    (hsound : ∀ l ∈ lemmas, GLSound l) (hroles : ∀ l ∈ lemmas, ∀ c ∈ l.conjectures, c.role = .conjecture)
    (hvalid : ∀ P ∈ outlineProblems dirName axioms0 lemmas, ∀ J ρ, ¬ Refutes J ρ P)
    (J : Interp) (ρ : Asg) (hax : ∀ a ∈ axioms0, sat J a.formula ρ) :
    ∀ l ∈ lemmas, ∀ c ∈ l.consequences, sat J c.formula ρ := by
  have step : ∀ (pre : List GeneralLemma) (l : GeneralLemma) (post : List GeneralLemma), lemmas = pre ++ l :: post →
      (∀ c ∈ pre.flatMap (·.consequences), sat J c.formula ρ) → ∀ c ∈ l.conjectures, sat J c.formula ρ := by
    intro pre l post hsplit hpre c hc
    obtain ⟨j, hj⟩ := (mem_indexFrom (k := 0)).mp hc
    have hmem : mkProblem (dirName ++ "_outline_" ++ toString pre.length ++ "_" ++ toString j)
        [axioms0 ++ (lemmas.take pre.length).flatMap (·.consequences), [c]] ∈ outlineProblems dirName axioms0 lemmas := by
      rw [outline_sequencing]
      simp only [List.mem_flatMap, List.mem_map, Prod.exists]
      have hk := indexFrom_mem_split pre l post 0
      simp only [Nat.add_zero] at hk
      rw [← hsplit] at hk
      exact ⟨pre.length, l, hk, j, c, hj, rfl⟩
    have htake : lemmas.take pre.length = pre := by rw [hsplit]; exact List.take_left' rfl
    rw [htake] at hmem
    have hnr := valid_single _ _ (hvalid _ hmem) J ρ
    unfold SemRef at hnr
    simp only [List.forall_mem_cons, List.not_mem_nil, false_imp_iff, implies_true, and_true, List.forall_mem_append] at hnr
    have hX : ((∀ a ∈ axioms0, a.role = .axiom → sat J a.formula ρ) ∧
        ∀ a ∈ pre.flatMap (·.consequences), a.role = .axiom → sat J a.formula ρ) ∧ (c.role = .axiom → sat J c.formula ρ) := by
      refine ⟨⟨fun a ha _ => hax a ha, fun a ha _ => hpre a ha⟩, fun hr => ?_⟩
      rw [hroles l (by rw [hsplit]; simp) c hc] at hr; cases hr
    have hY := Classical.not_not.mp (fun hn => hnr ⟨hX, hn⟩)
    exact hY.2 (hroles l (by rw [hsplit]; simp) c hc)
  have main : ∀ (post pre : List GeneralLemma), lemmas = pre ++ post →
      (∀ c ∈ pre.flatMap (·.consequences), sat J c.formula ρ) → ∀ l ∈ post, ∀ c ∈ l.consequences, sat J c.formula ρ := by
    intro post
    induction post with
    | nil => intro _ _ _ l hl; cases hl
    | cons l post ih =>
      intro pre hsplit hpre l' hl' c hc
      have hl : ∀ c ∈ l.consequences, sat J c.formula ρ :=
        hsound l (by rw [hsplit]; simp) J ρ (step pre l post hsplit hpre)
      rcases List.mem_cons.mp hl' with rfl | hl'
      · exact hl c hc
      · refine ih (pre ++ [l]) (by rw [hsplit]; simp) ?_ l' hl' c hc
        intro c' hc'
        simp only [List.flatMap_append, List.flatMap_cons, List.flatMap_nil, List.append_nil, List.mem_append] at hc'
        rcases hc' with hc' | hc'
        · exact hpre c' hc'
        · exact hl c' hc'
  exact main lemmas [] rfl (fun c hc => by cases hc)

/-- one direction, from validity alone: if neither the outline problems nor the final problems (which
    use the lemmas as axioms) have a countermodel, no interpretation refutes the parts without the lemmas -/
theorem direction_sound_sem (base : List Pred) (name dirName : String) (stable prem : List AnnF) (concSrc defs : List SAnn)
    (brk : Bool) (lemmas : List GeneralLemma) (dec : Decomposition)
    (hroles : ∀ a ∈ stable ++ prem, a.role = .axiom)
    (hpredsAx : ∀ a ∈ stable ++ prem, ∀ q ∈ a.formula.preds, q ∈ base)
    (hpredsC : ∀ a ∈ concSrc, ∀ q ∈ a.formula.preds, q ∈ base)
    (hext : DefsExt base defs) (hgood : ∀ l ∈ lemmas, GLGood l)
    (hvalidO : ∀ P ∈ outlineProblems dirName (stable ++ prem ++ defs.map (·.toProblem .axiom)) lemmas,
      ∀ J ρ, ¬ Refutes J ρ P)
    (hvalidF : ∀ P ∈ (mkProblem name [stable, prem, lemmas.flatMap (·.consequences), concSrc.flatMap (conjOf brk)]).decompose dec,
      ∀ J ρ, ¬ Refutes J ρ P) :
    ∀ J ρ, ¬ SemRef J ρ [stable, prem, [], concSrc.flatMap (conjOf brk)] := by
  intro J ρ hsem
  obtain ⟨hax, hncj⟩ := hsem
  simp only [List.forall_mem_cons, List.not_mem_nil, false_imp_iff, implies_true, and_true, true_and] at hax hncj
  obtain ⟨P', hagree, hdefs⟩ := hext J
  have hconc : ∀ (I : Interp), (∀ c ∈ concSrc.flatMap (conjOf brk), c.role = .conjecture → sat I c.formula ρ) ↔
      ∀ a ∈ concSrc, sat I a.formula ρ := by
    intro I
    simp only [List.mem_flatMap, forall_exists_index, and_imp]
    constructor
    · intro hh a ha
      refine ((conjOf_sem I ρ brk a).2).mp fun c hc => ?_
      exact hh c a ha hc ((conjOf_sem I ρ brk a).1 c hc)
    · intro hh c a ha hc _
      exact ((conjOf_sem I ρ brk a).2).mpr (hh a ha) c hc
  have hconcRole : ∀ c ∈ concSrc.flatMap (conjOf brk), c.role = .conjecture := by
    intro c hc
    simp only [List.mem_flatMap] at hc
    obtain ⟨a, _, hc⟩ := hc
    exact (conjOf_sem J ρ brk a).1 c hc
  have hsrc : (∀ a ∈ concSrc, sat ⟨P', J.fc⟩ a.formula ρ) ↔ ∀ a ∈ concSrc, sat J a.formula ρ :=
    forall_congr' fun a => forall_congr' fun ha => sat_agree_base base J P' hagree a.formula (hpredsC a ha) ρ
  have haxJ' : ∀ a ∈ stable ++ prem, sat ⟨P', J.fc⟩ a.formula ρ := by
    intro a ha
    rw [sat_agree_base base J P' hagree a.formula (hpredsAx a ha) ρ]
    rcases List.mem_append.mp ha with h1 | h1
    · exact hax.1 a h1 (hroles a ha)
    · exact hax.2.1 a h1 (hroles a ha)
  have hax0 : ∀ a ∈ stable ++ prem ++ defs.map (·.toProblem .axiom), sat ⟨P', J.fc⟩ a.formula ρ := by
    intro a ha
    rcases List.mem_append.mp ha with h1 | h1
    · exact haxJ' a h1
    · obtain ⟨d, hd, rfl⟩ := List.mem_map.mp h1
      exact hdefs d hd ρ
  have hlem := outline_sound_valid dirName _ lemmas (fun l hl => (hgood l hl).1) (fun l hl => (hgood l hl).2.1) hvalidO
    ⟨P', J.fc⟩ ρ hax0
  refine valid_family name _ dec hvalidF ⟨P', J.fc⟩ ρ ⟨?_, ?_⟩
  · simp only [List.forall_mem_cons, List.not_mem_nil, false_imp_iff, implies_true, and_true]
    refine ⟨fun a ha _ => haxJ' a (List.mem_append.mpr (Or.inl ha)),
      fun a ha _ => haxJ' a (List.mem_append.mpr (Or.inr ha)), ?_, ?_⟩
    · intro a ha _
      simp only [List.mem_flatMap] at ha
      obtain ⟨l, hl, ha⟩ := ha
      exact hlem l hl a ha
    · intro c hc hr
      rw [hconcRole c hc] at hr
      cases hr
  · simp only [List.forall_mem_cons, List.not_mem_nil, false_imp_iff, implies_true, and_true]
    intro hall
    apply hncj
    refine ⟨?_, ?_, (hconc J).mpr (hsrc.mp ((hconc _).mp hall.2.2.2))⟩
    · intro a ha hr
      rw [hroles a (List.mem_append.mpr (Or.inl ha))] at hr
      cases hr
    · intro a ha hr
      rw [hroles a (List.mem_append.mpr (Or.inr ha))] at hr
      cases hr

/-- **An accepted outline does not change what is claimed - no side condition.** If none of the emitted
    problems has a countermodel, then in each requested direction no interpretation refutes the parts
    assembled without the outline. -/
theorem assembled_outline_sound_sem (t : ExternalTask) (left ugAss : List SAnn) (ΓR : Theory) (po : ProofOutline)
    (base : List Pred) (hgood : POGood po)
    (hdefs : DefsExt base po.forwardDefinitions ∧ DefsExt base po.backwardDefinitions)
    (hbase : ∀ a ∈ ugAss ++ left ++ rightSide t ΓR, ∀ q ∈ a.formula.preds, q ∈ base)
    (hvalid : ∀ P ∈ assembledProblems (assembledGen t left ugAss ΓR) po t.decomposition t.direction,
      ∀ J ρ, ¬ Refutes J ρ P) :
    ((t.direction = .universal ∨ t.direction = .forward) → ∀ J ρ,
      ¬ SemRef J ρ [(assembledGen t left ugAss ΓR).stable, (assembledGen t left ugAss ΓR).fwdPremises, [],
        (assembledGen t left ugAss ΓR).fwdConclusions]) ∧
    ((t.direction = .universal ∨ t.direction = .backward) → ∀ J ρ,
      ¬ SemRef J ρ [(assembledGen t left ugAss ΓR).stable, (assembledGen t left ugAss ΓR).bwdPremises, [],
        (assembledGen t left ugAss ΓR).bwdConclusions]) := by
  have hU : ∀ a ∈ ugAss, ∀ q ∈ a.formula.preds, q ∈ base := fun a ha => hbase a (by simp [ha])
  have hL : ∀ a ∈ left, ∀ q ∈ a.formula.preds, q ∈ base := fun a ha => hbase a (by simp [ha])
  have hR : ∀ a ∈ rightSide t ΓR, ∀ q ∈ a.formula.preds, q ∈ base := fun a ha => hbase a (by simp [ha])
  have haxroles : ∀ (l : List SAnn), ∀ a ∈ l.map (·.toProblem .axiom), a.role = .axiom := by
    intro l a ha
    obtain ⟨a0, _, rfl⟩ := List.mem_map.mp ha
    rfl
  have haxpreds : ∀ (l : List SAnn), (∀ a ∈ l, ∀ q ∈ a.formula.preds, q ∈ base) →
      ∀ a ∈ l.map (·.toProblem .axiom), ∀ q ∈ a.formula.preds, q ∈ base := by
    intro l hl a ha
    obtain ⟨a0, ha0, rfl⟩ := List.mem_map.mp ha
    exact hl a0 ha0
  have hfilt : ∀ (l : List SAnn) (p : SAnn → Bool), (∀ a ∈ l, ∀ q ∈ a.formula.preds, q ∈ base) →
      ∀ a ∈ l.filter p, ∀ q ∈ a.formula.preds, q ∈ base := fun l p hl a ha => hl a (List.mem_filter.mp ha).1
  have hstableR : ∀ a ∈ (assembledGen t left ugAss ΓR).stable, a.role = .axiom := by
    unfold assembledGen
    simp only [List.forall_mem_append]
    exact ⟨⟨haxroles _, haxroles _⟩, haxroles _⟩
  have hstableP : ∀ a ∈ (assembledGen t left ugAss ΓR).stable, ∀ q ∈ a.formula.preds, q ∈ base := by
    unfold assembledGen
    simp only [List.forall_mem_append]
    exact ⟨⟨haxpreds _ hU, haxpreds _ (hfilt _ _ hL)⟩, haxpreds _ (hfilt _ _ hR)⟩
  unfold assembledProblems at hvalid
  simp only [List.mem_append] at hvalid
  refine ⟨fun hd => ?_, fun hd => ?_⟩
  · have hvF : ∀ Q, Q ∈ outlineProblems "forward" ((assembledGen t left ugAss ΓR).stable ++ (assembledGen t left ugAss ΓR).fwdPremises ++
          po.forwardDefinitions.map (·.toProblem .axiom)) po.forwardLemmas ++
        (mkProblem "forward_problem" [(assembledGen t left ugAss ΓR).stable, (assembledGen t left ugAss ΓR).fwdPremises,
          po.forwardLemmas.flatMap (·.consequences), (assembledGen t left ugAss ΓR).fwdConclusions]).decompose t.decomposition →
        ∀ J ρ, ¬ Refutes J ρ Q := by
      intro Q hQ
      refine hvalid Q (Or.inl ?_)
      rw [if_pos hd]; exact hQ
    refine direction_sound_sem base "forward_problem" "forward" _ _ ((rightSide t ΓR).filter isSpec) po.forwardDefinitions
      t.breakEq po.forwardLemmas t.decomposition ?_ ?_ (hfilt _ _ hR) hdefs.1 hgood.1
      (fun Q hQ => hvF Q (List.mem_append.mpr (Or.inl hQ))) (fun Q hQ => hvF Q (List.mem_append.mpr (Or.inr hQ)))
    · intro a ha
      rcases List.mem_append.mp ha with h1 | h1
      · exact hstableR a h1
      · exact haxroles _ a h1
    · intro a ha
      rcases List.mem_append.mp ha with h1 | h1
      · exact hstableP a h1
      · exact haxpreds _ (hfilt _ _ hL) a h1
  · have hvB : ∀ Q, Q ∈ outlineProblems "backward" ((assembledGen t left ugAss ΓR).stable ++ (assembledGen t left ugAss ΓR).bwdPremises ++
          po.backwardDefinitions.map (·.toProblem .axiom)) po.backwardLemmas ++
        (mkProblem "backward_problem" [(assembledGen t left ugAss ΓR).stable, (assembledGen t left ugAss ΓR).bwdPremises,
          po.backwardLemmas.flatMap (·.consequences), (assembledGen t left ugAss ΓR).bwdConclusions]).decompose t.decomposition →
        ∀ J ρ, ¬ Refutes J ρ Q := by
      intro Q hQ
      refine hvalid Q (Or.inr ?_)
      rw [if_pos hd]; exact hQ
    refine direction_sound_sem base "backward_problem" "backward" _ _ (left.filter lBwdConc) po.backwardDefinitions
      t.breakEq po.backwardLemmas t.decomposition ?_ ?_ (hfilt _ _ hL) hdefs.2 hgood.2
      (fun Q hQ => hvB Q (List.mem_append.mpr (Or.inl hQ))) (fun Q hQ => hvB Q (List.mem_append.mpr (Or.inr hQ)))
    · intro a ha
      rcases List.mem_append.mp ha with h1 | h1
      · exact hstableR a h1
      · exact haxroles _ a h1
    · intro a ha
      rcases List.mem_append.mp ha with h1 | h1
      · exact hstableP a h1
      · exact haxpreds _ (hfilt _ _ hR) a h1

/-- **C02, soundness for every accepted task, with no side condition**: if none of the emitted problems
    (outline problems and final problems) has a countermodel, then no interpretation that satisfies the
    user-guide assumptions witnesses a difference between the two sides in a requested direction. -/
theorem external_outline_sound_valid (t : ExternalTask) (hbyp : t.bypassTightness = false) (fuel : Nat) (ps : List Problem)
    (h : externalProblems t fuel = .ok ps) :
    ∃ (left : List SAnn) (ΓR : Theory),
      (match t.specification with
        | .inl PL => ∃ ΓL, theoryTranslate t t.phMap fuel PL = .ok ΓL ∧ left = controlTranslate t.userGuide.publicPreds ΓL
        | .inr S => left = S.map (SAnn.replacePlaceholders t.phMap)) ∧
      theoryTranslate t t.phMap fuel t.program = .ok ΓR ∧
      ((∀ P ∈ ps, ∀ J ρ, ¬ Refutes J ρ P) →
        ∀ (J : Interp) (ρ : Asg),
          ¬ ((∀ a ∈ t.ugAss, sat J a.formula ρ) ∧
            (∀ a ∈ left, lStable a = true → sat J a.formula ρ) ∧
            (∀ a ∈ rightSide t ΓR, a.role = .assumption → sat J a.formula ρ) ∧
            (((t.direction = .universal ∨ t.direction = .forward) ∧
                (∀ a ∈ left, lFwdPrem a = true → sat J a.formula ρ) ∧
                ¬ (Stable (t.program.substSym (phNu t.phMap J.fc)) t.userGuide.inputs
                  (restrictTo (ext t.program.preds t.userGuide.inputs)
                    (renamedInterp t.clashMap J.pred)) J.fc ∧
                  OutputsEmpty t t.program (renamedInterp t.clashMap J.pred))) ∨
             ((t.direction = .universal ∨ t.direction = .backward) ∧
                (Stable (t.program.substSym (phNu t.phMap J.fc)) t.userGuide.inputs
                  (restrictTo (ext t.program.preds t.userGuide.inputs)
                    (renamedInterp t.clashMap J.pred)) J.fc ∧
                  OutputsEmpty t t.program (renamedInterp t.clashMap J.pred)) ∧
                ∃ a ∈ left, lBwdConc a = true ∧ ¬ sat J a.formula ρ)))) := by
  obtain ⟨hpre, left, ΓR, po, hroles, hleft, hR, hPO, hps⟩ := externalProblems_outline t fuel ps h
  refine ⟨left, ΓR, hleft, hR, fun hvalid J ρ hwit => ?_⟩
  have hbase : ∀ a ∈ t.ugAss ++ left ++ rightSide t ΓR, ∀ q ∈ a.formula.preds, q ∈ takenOf t left ΓR := by
    intro a ha q hq
    unfold takenOf
    rw [mem_foldl_ext, mem_foldl_ext]
    simp only [List.mem_append] at ha
    rcases ha with (ha | ha) | ha
    · exact Or.inl (Or.inl (ugAss_preds t hpre a ha q hq))
    · exact Or.inl (Or.inr ⟨a, ha, hq⟩)
    · exact Or.inr ⟨a, ha, hq⟩
  obtain ⟨hF, hB⟩ := assembled_outline_sound_sem t left t.ugAss ΓR po (takenOf t left ΓR)
    (proofOutlineFrom_good _ _ _ po hPO) (proofOutlineFrom_defsExt _ _ _ po hPO) hbase (by rw [← hps]; exact hvalid)
  have hsem := (assembled_semref t left t.ugAss ΓR J ρ _ (rightSide_stable_ph t hbyp hpre fuel ΓR hR J ρ)).mpr hwit
  rcases hsem with ⟨hd, hs⟩ | ⟨hd, hs⟩
  · exact hF hd J ρ hs
  · exact hB hd J ρ hs

end Outline

end Anthem
