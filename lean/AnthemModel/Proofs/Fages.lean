/-
  C04, reference level: for a tight program the stable models (with input predicates) are exactly
  the supported classical models. "Supported" is the reference-semantics form of the completed
  definitions: every true atom of a non-input predicate is produced by a rule whose body is true.
-/
import AnthemModel.Proofs.Graph
import AnthemModel.Proofs.TauStarRules
namespace Anthem
open Asp C11

/-- every true atom of a non-input predicate has a rule that produces it -/
def Supported (P : Program) (ins : List Pred) (T : PredI) (fc : FcI) : Prop :=
  ∀ (q : String) (ds : List Dom), T q ds → (⟨q, ds.length⟩ : Pred) ∉ ins →
    ∃ r ∈ P, ∃ a : Asp.Atom, (r.head = .basic a ∨ r.head = .choice a) ∧ a.pred = q ∧
      ∃ σ : Subst, valsList σ a.args ds ∧ bodySat ⟨T, T, fc⟩ .there σ r.body

theorem bodyAtomSat_mono (H T : PredI) (fc : FcI) (hsub : ∀ q a, H q a → T q a) (σ : Subst) (f : BodyAtom)
    (h : bodyAtomSat ⟨H, T, fc⟩ .here σ f) : bodyAtomSat ⟨T, T, fc⟩ .there σ f := by
  cases f with
  | lit l =>
    obtain ⟨s, a⟩ := l
    rw [bodyAtomSat_lit] at h ⊢
    obtain ⟨ds, hv, hs⟩ := h
    refine ⟨ds, hv, ?_⟩
    cases s
    · exact hsub _ _ hs
    · exact hs
    · exact hs
  | cmp rel l r => exact h

theorem bodySat_mono (H T : PredI) (fc : FcI) (hsub : ∀ q a, H q a → T q a) (σ : Subst) (b : List BodyAtom)
    (h : bodySat ⟨H, T, fc⟩ .here σ b) : bodySat ⟨T, T, fc⟩ .there σ b :=
  fun f hf => bodyAtomSat_mono H T fc hsub σ f (h f hf)

/-- **stable ⇒ supported model** (no tightness needed) -/
theorem stable_supported (P : Program) (ins : List Pred) (T : PredI) (fc : FcI) (h : Stable P ins T fc) :
    progSat ⟨T, T, fc⟩ .there P ∧ Supported P ins T fc := by
  refine ⟨h.1, ?_⟩
  intro q ds hT hni
  refine Classical.byContradiction fun hno => ?_
  -- remove the unsupported atom
  let H : PredI := fun q' ds' => T q' ds' ∧ ¬ (q' = q ∧ ds' = ds)
  have hsub : ∀ q' a, H q' a → T q' a := fun _ _ h => h.1
  have hins : ∀ q' a, (⟨q', a.length⟩ : Pred) ∈ ins → (H q' a ↔ T q' a) := by
    intro q' a hin
    refine ⟨fun h => h.1, fun h => ⟨h, ?_⟩⟩
    rintro ⟨rfl, rfl⟩
    exact hni hin
  have hmodel : progSat ⟨H, T, fc⟩ .here P := by
    intro r hr σ
    have hthere := (h.1 r hr σ).2
    refine ⟨fun hb => ?_, hthere⟩
    have hbT := bodySat_mono H T fc hsub σ r.body hb
    have hhT := hthere hbT
    cases hh : r.head with
    | falsity => rw [hh] at hhT; exact hhT
    | basic a =>
      rw [hh] at hhT
      intro ds' hv
      refine ⟨hhT ds' hv, ?_⟩
      rintro ⟨hq, rfl⟩
      exact hno ⟨r, hr, a, Or.inl hh, hq, σ, hv, hbT⟩
    | choice a =>
      rw [hh] at hhT
      intro ds' hv
      by_cases hT' : T a.pred ds'
      · left
        refine ⟨hT', ?_⟩
        rintro ⟨hq, rfl⟩
        exact hno ⟨r, hr, a, Or.inr hh, hq, σ, hv, hbT⟩
      · exact Or.inr hT'
  have := h.2 H hsub hins hmodel q ds hT
  exact this.2 ⟨rfl, rfl⟩

theorem edge_of_pos_literal (P : Program) (r : Rule) (hr : r ∈ P) (a b : Asp.Atom)
    (hh : r.head = .basic a ∨ r.head = .choice a) (hb : BodyAtom.lit ⟨.pos, b⟩ ∈ r.body) :
    (a.predicate, b.predicate) ∈ positiveEdges P := by
  unfold positiveEdges
  simp only [List.mem_flatMap]
  refine ⟨r, hr, ?_⟩
  have hp : r.head.predicate = some a.predicate := by rcases hh with h | h <;> rw [h] <;> rfl
  rw [hp]
  simp only [List.mem_map, Prod.mk.injEq, true_and, exists_eq_right]
  exact mem_bodyPosPreds.mpr ⟨_, hb, by simp [BodyAtom.posPreds]⟩

/-- **tight ∧ supported model ⇒ stable** (Fages' theorem for mini-gringo programs with inputs) -/
theorem supported_stable (P : Program) (htight : isTight P = true) (ins : List Pred) (T : PredI) (fc : FcI)
    (hmodel : progSat ⟨T, T, fc⟩ .there P) (hsupp : Supported P ins T fc) : Stable P ins T fc := by
  refine ⟨hmodel, ?_⟩
  intro H hsub hins hH
  have hac := (isTight_iff P).mp htight
  have htgt := positiveEdges_tgt P
  -- induction on the rank of the predicate
  suffices hs : ∀ (n : Nat) (q : String) (ds : List Dom),
      rank P.preds (positiveEdges P) ⟨q, ds.length⟩ = n → T q ds → H q ds from
    fun q ds hT => hs _ q ds rfl hT
  intro n
  induction n using Nat.strongRecOn with
  | _ n ih =>
    intro q ds hn hT
    by_cases hin : (⟨q, ds.length⟩ : Pred) ∈ ins
    · exact (hins q ds hin).mpr hT
    · obtain ⟨r, hr, a, hh, hq, σ, hv, hb⟩ := hsupp q ds hT hin
      have hlen : ds.length = a.args.length := valsList_length hv
      have hpred : a.predicate = ⟨q, ds.length⟩ := by simp [Asp.Atom.predicate, hq, hlen]
      -- the body holds at `here` as well: positive literals by the induction hypothesis
      have hbH : bodySat ⟨H, T, fc⟩ .here σ r.body := by
        intro f hf
        have hfT := hb f hf
        cases f with
        | cmp rel l rr => exact hfT
        | lit l =>
          obtain ⟨s, b⟩ := l
          rw [bodyAtomSat_lit] at hfT ⊢
          obtain ⟨ds', hv', hs'⟩ := hfT
          refine ⟨ds', hv', ?_⟩
          cases s with
          | neg => exact hs'
          | negneg => exact hs'
          | pos =>
            have hedge := edge_of_pos_literal P r hr a b hh hf
            have hlt := rank_lt P.preds (positiveEdges P) htgt hac (Path.step hedge)
            have hlen' : ds'.length = b.args.length := valsList_length hv'
            have hbp : b.predicate = ⟨b.pred, ds'.length⟩ := by simp [Asp.Atom.predicate, hlen']
            rw [hpred, hbp] at hlt
            exact ih _ (by omega) b.pred ds' rfl hs'
      have hrule := (hH r hr σ).1 hbH
      rcases hh with hh | hh
      · rw [hh] at hrule
        have := hrule ds hv
        rw [hq] at this; exact this
      · rw [hh] at hrule
        rcases hrule ds hv with h1 | h1
        · rw [hq] at h1; exact h1
        · rw [hq] at h1; exact absurd hT h1

/-- **C04 at the level of the reference semantics.** -/
theorem tight_stable_iff_supported (P : Program) (htight : isTight P = true) (ins : List Pred)
    (T : PredI) (fc : FcI) :
    Stable P ins T fc ↔ progSat ⟨T, T, fc⟩ .there P ∧ Supported P ins T fc :=
  ⟨stable_supported P ins T fc, fun h => supported_stable P htight ins T fc h.1 h.2⟩

end Anthem
