/-
  Round trip for atoms, comparisons (with guard chains) and atomic formulas of the target
  language.
-/
import AnthemModel.Proofs.FolGTermRT
namespace Anthem.Fol
open Anthem.Asp (isWs skip stripPrefix isIdChar isNonzeroDigit SymName NoId StopsAt Solid StartsSolid
  takeWhile_append_stop noId_cons skip_cons_solid skip_of_startsSolid skip_space stripPrefix_head_ne)

/-! ## printers -/

def gargsTailL : List GTerm → List Char
  | [] => []
  | t :: ts => ',' :: ' ' :: (GTerm.printL t ++ gargsTailL ts)

def gargsL : List GTerm → List Char
  | [] => []
  | t :: ts => GTerm.printL t ++ gargsTailL ts

def Atom.printL (a : Atom) : List Char :=
  if a.args.isEmpty then a.pred.toList else a.pred.toList ++ '(' :: (gargsL a.args ++ [')'])

def Rel.printL : Rel → List Char
  | .eq => ['='] | .ne => ['!', '='] | .ge => ['>', '='] | .le => ['<', '='] | .gt => ['>'] | .lt => ['<']

def guardsPrintL : List Guard → List Char
  | [] => []
  | g :: gs => ' ' :: (Rel.printL g.rel ++ ' ' :: (GTerm.printL g.term ++ guardsPrintL gs))

def AtomicF.printL : AtomicF → List Char
  | .tru => ['#', 't', 'r', 'u', 'e']
  | .fls => ['#', 'f', 'a', 'l', 's', 'e']
  | .atom a => Atom.printL a
  | .cmp t gs => GTerm.printL t ++ guardsPrintL gs

theorem intercalate_gargs (ts : List GTerm) :
    (", ".intercalate (ts.map GTerm.print)).toList = gargsL ts := by
  cases ts with
  | nil => rfl
  | cons t ts =>
    induction ts generalizing t with
    | nil => simp [gargsL, gargsTailL, GTerm.print_toList]
    | cons t' ts ih =>
      simp only [List.map_cons, String.intercalate_cons_cons, String.toList_append, GTerm.print_toList]
      have := ih t'
      simp only [List.map_cons] at this
      rw [this]
      simp only [gargsL, gargsTailL, List.append_assoc]
      rfl

theorem Rel.print_toList (r : Rel) : r.print.toList = Rel.printL r := by cases r <;> rfl

theorem guards_toList (gs : List Guard) :
    (String.join (gs.map fun g => " " ++ g.rel.print ++ " " ++ g.term.print)).toList = guardsPrintL gs := by
  induction gs with
  | nil => rfl
  | cons g gs ih =>
    simp only [List.map_cons, String.join_cons, String.toList_append, ih, guardsPrintL, Rel.print_toList,
      GTerm.print_toList, List.append_assoc]
    rfl

theorem AtomicF.print_toList (a : AtomicF) : a.print.toList = AtomicF.printL a := by
  cases a with
  | tru => rfl
  | fls => rfl
  | atom a =>
    simp only [AtomicF.print, AtomicF.printL, Atom.printL]
    split
    · rfl
    · simp only [String.toList_append, intercalate_gargs]
      simp
  | cmp t gs => simp only [AtomicF.print, AtomicF.printL, String.toList_append, GTerm.print_toList, guards_toList]

def Atom.WF (a : Atom) : Prop := SymName a.pred.toList ∧ ∀ t ∈ a.args, GTerm.WF t

def AtomicF.WF : AtomicF → Prop
  | .tru | .fls => True
  | .atom a => Atom.WF a
  | .cmp t gs => GTerm.WF t ∧ gs ≠ [] ∧ ∀ g ∈ gs, GTerm.WF g.term

/-! ## argument lists -/

theorem gfollow_comma (r : List Char) : GFollow (',' :: r) :=
  ⟨⟨',', r, rfl, by decide⟩, fun r' e => by injection e with e1 _; exact absurd e1 (by decide),
   Or.inl (by rw [skip_cons_solid r ⟨by decide, by decide⟩]; rfl)⟩

theorem gfollow_paren (r : List Char) : GFollow (')' :: r) :=
  ⟨⟨')', r, rfl, by decide⟩, fun r' e => by injection e with e1 _; exact absurd e1 (by decide),
   Or.inl (by rw [skip_cons_solid r ⟨by decide, by decide⟩]; rfl)⟩

theorem gargsTail_follow (ts : List GTerm) (rest : List Char) : GFollow (gargsTailL ts ++ ')' :: rest) := by
  cases ts with
  | nil => exact gfollow_paren rest
  | cons t ts => exact gfollow_comma _

theorem gtermArgs_printL : ∀ (ts : List GTerm), (∀ t ∈ ts, GTerm.WF t) → ∀ (rest : List Char) (f : Nat),
    (gargsTailL ts ++ ')' :: rest).length < f →
    gtermArgs f (gargsTailL ts ++ ')' :: rest) = (ts, ')' :: rest) := by
  intro ts
  induction ts with
  | nil =>
    intro _ rest f hf
    obtain ⟨f0, rfl⟩ : ∃ f0, f = f0 + 1 := ⟨f - 1, by omega⟩
    simp [gargsTailL, gtermArgs, skip_cons_solid rest (show Solid ')' from ⟨by decide, by decide⟩)]
  | cons t ts ih =>
    intro hwf rest f hf
    obtain ⟨f0, rfl⟩ : ∃ f0, f = f0 + 1 := ⟨f - 1, by omega⟩
    have ht := hwf t List.mem_cons_self
    have hsk : skip (' ' :: (GTerm.printL t ++ (gargsTailL ts ++ ')' :: rest))) = GTerm.printL t ++ (gargsTailL ts ++ ')' :: rest) := by
      rw [skip_space]
      exact skip_of_startsSolid ((GTerm.printL_startsSolid t ht).append _)
    have hterm := gtermL_printL t ht _ (gargsTail_follow ts rest)
    simp only [gargsTailL, List.cons_append, List.append_assoc, List.length_cons, List.length_append] at hf ⊢
    simp only [gtermArgs, skip_cons_solid _ (show Solid ',' from ⟨by decide, by decide⟩), hsk, hterm]
    rw [ih (fun u hu => hwf u (List.mem_cons_of_mem _ hu)) rest f0
      (by simp only [List.length_append, List.length_cons]; omega)]

/-! ## atoms -/

/-- what may follow an atom: a non-identifier character and, after white space, no `(` -/
def AtomFollowF (rest : List Char) : Prop := NoIdNE rest ∧ ∀ r, skip rest ≠ '(' :: r

theorem atomL_printL (a : Atom) (ha : Atom.WF a) (rest : List Char) (hr : AtomFollowF rest) :
    atomL (Atom.printL a ++ rest) = some (a, rest) := by
  obtain ⟨pred, args⟩ := a
  obtain ⟨hs, hargs⟩ := ha
  simp only at hs hargs
  cases args with
  | nil =>
    simp only [Atom.printL, List.isEmpty_nil, if_true]
    simp only [atomL, lexSymConst_append pred.toList rest hs hr.1, String.ofList_toList]
    split
    · rename_i r1 heq; exact absurd heq (hr.2 r1)
    · rfl
  | cons t ts =>
    have ht := hargs t List.mem_cons_self
    have e : Atom.printL ⟨pred, t :: ts⟩ ++ rest = pred.toList ++ '(' :: (GTerm.printL t ++ (gargsTailL ts ++ ')' :: rest)) := by
      simp [Atom.printL, gargsL]
    rw [e]
    have hlex := lexSymConst_append pred.toList ('(' :: (GTerm.printL t ++ (gargsTailL ts ++ ')' :: rest))) hs
      ⟨'(', _, rfl, by decide⟩
    have hsk : skip (GTerm.printL t ++ (gargsTailL ts ++ ')' :: rest)) = GTerm.printL t ++ (gargsTailL ts ++ ')' :: rest) :=
      skip_of_startsSolid ((GTerm.printL_startsSolid t ht).append _)
    have hterm := gtermL_printL t ht _ (gargsTail_follow ts rest)
    have hrest := gtermArgs_printL ts (fun u hu => hargs u (List.mem_cons_of_mem _ hu)) rest
      ((gargsTailL ts ++ ')' :: rest).length + 1) (by omega)
    simp only [atomL, hlex, skip_cons_solid _ (show Solid '(' from ⟨by decide, by decide⟩), hsk, hterm, hrest,
      skip_cons_solid rest (show Solid ')' from ⟨by decide, by decide⟩), String.ofList_toList]

/-! ## comparisons -/

theorem lexRelation_print (rel : Rel) (Y : List Char) :
    lexRelation (Rel.printL rel ++ ' ' :: Y) = some (rel, ' ' :: Y) := by
  cases rel <;> rfl

theorem skip_relation (rel : Rel) (Y : List Char) : skip (Rel.printL rel ++ Y) = Rel.printL rel ++ Y := by
  cases rel <;> exact skip_cons_solid _ ⟨by decide, by decide⟩

/-- a further guard follows: a general term may end here -/
theorem gfollow_guard (g : Guard) (Y : List Char) :
    GFollow (' ' :: (Rel.printL g.rel ++ ' ' :: Y)) := by
  refine ⟨⟨' ', _, rfl, by decide⟩, fun r' e => by injection e with e1 _; exact absurd e1 (by decide), Or.inl ?_⟩
  rw [skip_space, skip_relation]
  cases g.rel <;> rfl

/-- the guard chain, in front of text at which the guard loop stops -/
theorem guardsL_printL : ∀ (gs : List Guard), (∀ g ∈ gs, GTerm.WF g.term) → ∀ (rest : List Char),
    GFollow rest → (∀ f, guardsL f rest = ([], rest)) → ∀ (f : Nat), (guardsPrintL gs ++ rest).length < f →
    guardsL f (guardsPrintL gs ++ rest) = (gs, rest) := by
  intro gs
  induction gs with
  | nil => intro _ rest _ hstop f _; exact hstop f
  | cons g gs ih =>
    intro hwf rest hr hstop f hf
    obtain ⟨f0, rfl⟩ : ∃ f0, f = f0 + 1 := ⟨f - 1, by omega⟩
    have hg := hwf g List.mem_cons_self
    have hfollow : GFollow (guardsPrintL gs ++ rest) := by
      cases gs with
      | nil => exact hr
      | cons g' gs' =>
        have := gfollow_guard g' (GTerm.printL g'.term ++ (guardsPrintL gs' ++ rest))
        simpa [guardsPrintL, List.append_assoc] using this
    have hterm := gtermL_printL g.term hg _ hfollow
    have hsk : skip (' ' :: (GTerm.printL g.term ++ (guardsPrintL gs ++ rest))) = GTerm.printL g.term ++ (guardsPrintL gs ++ rest) := by
      rw [skip_space]; exact skip_of_startsSolid ((GTerm.printL_startsSolid g.term hg).append _)
    have e : guardsPrintL (g :: gs) ++ rest = ' ' :: (Rel.printL g.rel ++ ' ' :: (GTerm.printL g.term ++ (guardsPrintL gs ++ rest))) := by
      simp [guardsPrintL, List.append_assoc]
    rw [e] at hf ⊢
    simp only [List.length_cons, List.length_append] at hf
    simp only [guardsL, skip_space, skip_relation, lexRelation_print, hsk, hterm]
    rw [ih (fun u hu => hwf u (List.mem_cons_of_mem _ hu)) rest hr hstop f0
      (by simp only [List.length_append]; omega)]

theorem comparisonL_printL (t : GTerm) (gs : List Guard) (hw : AtomicF.WF (.cmp t gs)) (rest : List Char)
    (hr : GFollow rest) (hstop : ∀ f, guardsL f rest = ([], rest)) :
    comparisonL (AtomicF.printL (.cmp t gs) ++ rest) = some (.cmp t gs, rest) := by
  obtain ⟨ht, hne, hgs⟩ := hw
  simp only [AtomicF.printL, List.append_assoc]
  cases gs with
  | nil => exact absurd rfl hne
  | cons g gs =>
    have hterm := gtermL_printL t ht _ (by
      have := gfollow_guard g (GTerm.printL g.term ++ (guardsPrintL gs ++ rest))
      simpa [guardsPrintL, List.append_assoc] using this)
    have hg := guardsL_printL (g :: gs) hgs rest hr hstop ((guardsPrintL (g :: gs) ++ rest).length + 1) (by omega)
    have e : guardsPrintL (g :: gs) ++ rest = ' ' :: (Rel.printL g.rel ++ ' ' :: (GTerm.printL g.term ++ (guardsPrintL gs ++ rest))) := by
      simp [guardsPrintL, List.append_assoc]
    rw [← e] at hterm
    simp only [comparisonL, hterm, hg]

/-! ## atomic formulas -/

theorem ITerm.printL_head_ne_hash : ∀ (t : ITerm), ITerm.WF t → ∀ X : List Char, ∃ c r, ITerm.printL t ++ X = c :: r ∧ c ≠ '#' := by
  intro t ht X
  obtain ⟨c, r, e, hs⟩ := (ITerm.printL_startsSolid t ht).append X
  refine ⟨c, r, e, ?_⟩
  intro ec; subst ec
  -- a printed integer term starts with a digit, `-`, `(` or an identifier character
  clear hs
  induction t generalizing X r with
  | num n =>
    obtain ⟨c', r', hcr, hc⟩ := Asp.intL_head n
    simp only [ITerm.printL, hcr, List.cons_append, List.cons.injEq] at e
    rcases hc with hc | hc
    · rw [e.1] at hc; revert hc; decide
    · rw [e.1] at hc; revert hc; decide
  | fc c =>
    obtain ⟨ch, w, ew, _⟩ := symName_head ht
    have hid := SymName.all_id ht ch (by rw [ew]; exact List.mem_cons_self)
    simp only [ITerm.printL, ew, List.cons_append, List.cons.injEq] at e
    rw [e.1] at hid; revert hid; decide
  | var v =>
    obtain ⟨ch, w, ew, _⟩ := uvName_head ht
    have hid := UVName.all_id ht ch (by rw [ew]; exact List.mem_cons_self)
    simp only [ITerm.printL, ew, List.cons_append, List.cons.injEq] at e
    rw [e.1] at hid; revert hid; decide
  | neg a _ =>
    simp only [ITerm.printL, List.cons_append, List.cons.injEq] at e
    exact absurd e.1 (by decide)
  | bin op l r' ihl _ =>
    simp only [ITerm.printL, List.append_assoc] at e
    by_cases hb : (ITerm.bin op l r').prec < l.prec
    · simp only [hb, Asp.parenLL, decide_true, if_true, List.cons_append, List.cons.injEq] at e
      exact absurd e.1 (by decide)
    · simp only [hb, Asp.parenLL, decide_false, Bool.false_eq_true, if_false] at e
      exact ihl ht.1 _ _ e

theorem hash_words_none (t : GTerm) (ht : GTerm.WF t) (X : List Char) :
    stripPrefix "#true".toList (GTerm.printL t ++ X) = none ∧ stripPrefix "#false".toList (GTerm.printL t ++ X) = none := by
  have key : ∀ (c : Char) (r : List Char), c ≠ '#' →
      stripPrefix "#true".toList (c :: r) = none ∧ stripPrefix "#false".toList (c :: r) = none := by
    intro c r h
    exact ⟨stripPrefix_head_ne _ _ (Ne.symm h), stripPrefix_head_ne _ _ (Ne.symm h)⟩
  have name : ∀ (l : List Char), (∀ x ∈ l, isIdChar x = true) → l ≠ [] → ∀ Y : List Char,
      stripPrefix "#true".toList (l ++ Y) = none ∧ stripPrefix "#false".toList (l ++ Y) = none := by
    intro l hl hne Y
    cases l with
    | nil => exact absurd rfl hne
    | cons c w =>
      have := hl c List.mem_cons_self
      exact key c _ (by intro e; subst e; revert this; decide)
  cases t with
  | inf => exact ⟨by simp [GTerm.printL, stripPrefix], by simp [GTerm.printL, stripPrefix]⟩
  | sup => exact ⟨by simp [GTerm.printL, stripPrefix], by simp [GTerm.printL, stripPrefix]⟩
  | fc c =>
    simp only [GTerm.printL, List.append_assoc]
    exact name _ (SymName.all_id ht) (SymName.ne_nil ht) _
  | var v => exact name _ (UVName.all_id ht) (UVName.ne_nil ht) _
  | int it =>
    obtain ⟨c, r, e, hc⟩ := ITerm.printL_head_ne_hash it ht X
    simp only [GTerm.printL, e]
    exact key c r hc
  | symb st =>
    cases st with
    | sym s => exact name _ (SymName.all_id ht) (SymName.ne_nil ht) _
    | fc c =>
      simp only [GTerm.printL, STerm.printL, List.append_assoc]
      exact name _ (SymName.all_id ht) (SymName.ne_nil ht) _
    | var v =>
      simp only [GTerm.printL, STerm.printL, List.append_assoc]
      exact name _ (UVName.all_id ht) (UVName.ne_nil ht) _

/-- what follows an atomic formula: a general term and an atom may end here, and the guard loop
    finds no further guard -/
def AtomicFollow (rest : List Char) : Prop :=
  GFollow rest ∧ AtomFollowF rest ∧ (∀ f, guardsL f rest = ([], rest)) ∧ lexVariable (skip rest) = none

theorem guardsL_paren_open (f : Nat) (X : List Char) : guardsL f ('(' :: X) = ([], '(' :: X) := by
  cases f with
  | zero => rfl
  | succ f => simp [guardsL, skip_cons_solid X (show Solid '(' from ⟨by decide, by decide⟩), lexRelation]

theorem gfollow_paren_open (X : List Char) : GFollow ('(' :: X) :=
  ⟨⟨'(', X, rfl, by decide⟩, fun r' e => by injection e with e1 _; exact absurd e1 (by decide),
   Or.inl (by rw [skip_cons_solid X ⟨by decide, by decide⟩]; rfl)⟩

theorem atomicL_printL (a : AtomicF) (ha : AtomicF.WF a) (rest : List Char) (hr : AtomicFollow rest) :
    atomicL (AtomicF.printL a ++ rest) = some (a, rest) := by
  obtain ⟨hg, haf, hstop, _⟩ := hr
  cases a with
  | tru => simp [AtomicF.printL, atomicL, stripPrefix]
  | fls => simp [AtomicF.printL, atomicL, stripPrefix]
  | cmp t gs =>
    have hcmp := comparisonL_printL t gs ha rest hg hstop
    obtain ⟨h1, h2⟩ := hash_words_none t ha.1 (guardsPrintL gs ++ rest)
    simp only [AtomicF.printL, List.append_assoc] at hcmp ⊢
    simp only [atomicL, h1, h2, hcmp]
  | atom at' =>
    obtain ⟨pred, args⟩ := at'
    have hs : SymName pred.toList := ha.1
    have hat := atomL_printL ⟨pred, args⟩ ha rest haf
    -- the text starts with the predicate symbol: no `#true`/`#false`, and no comparison
    have hX : ∃ X, Atom.printL ⟨pred, args⟩ ++ rest = pred.toList ++ X ∧ GFollow X ∧ ∀ f, guardsL f X = ([], X) := by
      cases args with
      | nil => exact ⟨rest, by simp [Atom.printL], hg, hstop⟩
      | cons t ts =>
        exact ⟨'(' :: (gargsL (t :: ts) ++ ')' :: rest), by simp [Atom.printL], gfollow_paren_open _,
          fun f => guardsL_paren_open f _⟩
    obtain ⟨X, eX, hgX, hstopX⟩ := hX
    obtain ⟨h1, h2⟩ := hash_words_none (.symb (.sym pred)) hs X
    have hterm := gtermL_printL (.symb (.sym pred)) hs X hgX
    simp only [GTerm.printL, STerm.printL] at h1 h2 hterm
    have hcmp : comparisonL (pred.toList ++ X) = none := by
      simp only [comparisonL, hterm, hstopX]
    simp only [AtomicF.printL]
    rw [eX] at hat ⊢
    simp only [atomicL, h1, h2, hcmp, hat]

end Anthem.Fol
