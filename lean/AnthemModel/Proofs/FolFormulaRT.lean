/-
  Formula level of the target-language round trip, part 3: the formula parser on printed text.
  `formulaL` reads `print F` back as `F`, for every safe formula `F`, whatever follows it
  (a closing parenthesis, a full stop, or a connective and its right operand).
-/
import AnthemModel.Proofs.FolWrongAlt
namespace Anthem.Fol
open Anthem.Asp (isWs skip skipAux stripPrefix isIdChar isNonzeroDigit SymName NoId StopsAt Solid StartsSolid
  takeWhile_append_stop noId_cons skip_cons_solid skip_of_startsSolid skip_space stripPrefix_head_ne parenLL
  parenLL_startsSolid)

/-! ## unfolding the mutual block one step -/

def fseqT (f : Nat) (cs : List Char) : Option (List FTok × List Char) :=
  match foperand f cs with
  | some (ts, r) => some (ts ++ (ftailT f r).1, (ftailT f r).2)
  | none => none

theorem formulaL_succ (f : Nat) (cs : List Char) :
    formulaL (f + 1) cs = match fseqT f cs with
      | some (ts, r') => (match fpratt ts with | some g => some (g, r') | none => none)
      | none => none := by
  simp only [formulaL, fseqT]
  cases foperand f cs with
  | none => rfl
  | some p => rfl

theorem ftailT_succ (f : Nat) (cs : List Char) :
    ftailT (f + 1) cs = match lexConn (skip cs) with
      | some (c, r) => (match fseqT f (skip r) with
        | some (ts, r'') => (.op c :: ts, r'')
        | none => ([], cs))
      | none => ([], cs) := by
  simp only [ftailT, fseqT]
  cases lexConn (skip cs) with
  | none => rfl
  | some x =>
    obtain ⟨c, r⟩ := x
    simp only
    cases foperand f (skip r) with
    | none => rfl
    | some y => simp

theorem ftailT_stop (f : Nat) (rest : List Char) (h : lexConn (skip rest) = none) : ftailT f rest = ([], rest) := by
  cases f with
  | zero => rfl
  | succ f => rw [ftailT_succ, h]

theorem prefixesL_none (n : Nat) (first : Bool) (cs : List Char)
    (h : prefixL (if first then cs else skip cs) = none) : prefixesL n first cs = ([], cs) := by
  cases n with
  | zero => rfl
  | succ n => simp [prefixesL, h]

theorem prefixesL_succ_some (n : Nat) (first : Bool) (cs r : List Char) (t : FTok)
    (h : prefixL (if first then cs else skip cs) = some (t, r)) :
    prefixesL (n + 1) first cs = (t :: (prefixesL n false r).1, (prefixesL n false r).2) := by
  simp [prefixesL, h]

/-- the result of `formulaL` is not a formula that ends right in front of `)` -/
def NotClosedF (o : Option (Formula × List Char)) : Prop :=
  o = none ∨ ∃ g r2, o = some (g, r2) ∧ ∀ r3, skip r2 ≠ ')' :: r3

theorem foperand_paren (f : Nat) (cs : List Char) (pres : List FTok) (r0 r1 r2 r3 : List Char) (g : Formula)
    (hp : prefixesL (cs.length + 1) true cs = (pres, r0)) (hr : skip r0 = '(' :: r1)
    (h1 : formulaL f (skip r1) = some (g, r2)) (h2 : skip r2 = ')' :: r3) :
    foperand (f + 1) cs = some (pres ++ [.prim g], r3) := by
  simp only [foperand, hp, hr, h1, h2]

theorem foperand_atomic (f : Nat) (cs : List Char) (pres : List FTok) (r0 r' : List Char) (a : AtomicF)
    (hp : prefixesL (cs.length + 1) true cs = (pres, r0))
    (hparen : ∀ r1, skip r0 = '(' :: r1 → NotClosedF (formulaL f (skip r1)))
    (ha : atomicL (skip r0) = some (a, r')) :
    foperand (f + 1) cs = some (pres ++ [.prim (.atomic a)], r') := by
  by_cases hc : ∃ r1, skip r0 = '(' :: r1
  · obtain ⟨r1, e⟩ := hc
    rw [e] at ha
    rcases hparen r1 e with h | ⟨g, r2, h, h2⟩
    · simp only [foperand, hp, e, h, ha]
    · simp only [foperand, hp, e, h, ha]
      done
  · simp only [foperand, hp, ha]
    split
    · rename_i x heq
      split at heq
      · rename_i r1 h1; exact absurd ⟨r1, h1⟩ hc
      · cases heq
    · rfl

theorem foperand_none (f : Nat) (cs : List Char) (r0 : List Char) (pres : List FTok)
    (hp : prefixesL (cs.length + 1) true cs = (pres, r0))
    (hparen : ∀ r1, skip r0 = '(' :: r1 → NotClosedF (formulaL f (skip r1)))
    (ha : atomicL (skip r0) = none) :
    foperand (f + 1) cs = none := by
  by_cases hc : ∃ r1, skip r0 = '(' :: r1
  · obtain ⟨r1, e⟩ := hc
    rw [e] at ha
    rcases hparen r1 e with h | ⟨g, r2, h, h2⟩
    · simp only [foperand, hp, e, h, ha]
    · simp only [foperand, hp, e, h, ha]
      done
  · simp only [foperand, hp, ha]
    split
    · rename_i x heq
      split at heq
      · rename_i r1 h1; exact absurd ⟨r1, h1⟩ hc
      · cases heq
    · rfl

/-! ## the formula parser on the text of an integer term -/

theorem fpratt_single (g : Formula) : fpratt [.prim g] = some g := by
  simp [fpratt, fprattExpr, fprattLoop]

theorem digit_not_lower {c : Char} (h : c.isDigit = true) : c.isLower = false := by
  simp only [Char.isDigit, Bool.and_eq_true, decide_eq_true_eq] at h
  simp only [Char.isLower, Bool.and_eq_false_iff, decide_eq_false_iff_not]
  left
  intro h'
  have h1 : c.val ≥ 97 := h'
  have h2 : c.val ≤ 57 := h.2
  exact absurd (Nat.le_trans h1 h2) (by decide)

/-- a text on which neither a prefix, nor `(`, nor an atomic formula starts is no formula -/
theorem formulaL_none_of (W : List Char) (hs : skip W = W) (hp : prefixL W = none) (hparen : ∀ r, W ≠ '(' :: r)
    (ha : atomicL W = none) : ∀ f, formulaL f W = none := by
  intro f
  cases f with
  | zero => rfl
  | succ f =>
    rw [formulaL_succ]
    cases f with
    | zero => rfl
    | succ f =>
      have h0 := prefixesL_none (W.length + 1) true W (by simpa using hp)
      have := foperand_none f W W [] h0 (fun r1 e => by rw [hs] at e; exact absurd e (hparen r1)) (by rw [hs]; exact ha)
      simp only [fseqT, this]

theorem atomL_none_of_symConst (cs : List Char) (h : lexSymConst cs = none) : atomL cs = none := by
  simp [atomL, h]

/-- `formulaL` on the text of an integer term that starts no comparison: either no formula, or
    one that stops in front of something other than `)` (the `c` of `c$i`) -/
theorem formulaL_iterm_text : ∀ (T : ITerm), ITerm.Safe T → ∀ (X : List Char),
    comparisonL (ITerm.printL T ++ X) = none → ∀ f, NotClosedF (formulaL f (ITerm.printL T ++ X)) := by
  intro T
  induction T with
  | num n =>
    intro hT X hcmp f
    have hw : ITerm.WF (.num n) := trivial
    obtain ⟨h1, h2⟩ := hash_words_none (.int (.num n)) hw X
    simp only [GTerm.printL] at h1 h2
    have hs := skip_of_startsSolid ((ITerm.printL_startsSolid _ hw).append X)
    have hp := prefixL_iterm (.num n) hT X
    obtain ⟨c, r, hcr, hc⟩ := Asp.intL_head n
    have e : ITerm.printL (.num n) ++ X = c :: (r ++ X) := by
      show (toString n).toList ++ X = _
      rw [hcr]; rfl
    rw [e] at h1 h2 hs hp hcmp ⊢
    have hl : c.isLower = false ∧ c ≠ '_' ∧ c ≠ '(' := by
      rcases hc with hc | rfl
      · exact ⟨digit_not_lower hc, by intro e; subst e; revert hc; decide, by intro e; subst e; revert hc; decide⟩
      · exact ⟨by decide, by decide, by decide⟩
    left
    refine formulaL_none_of _ hs hp (fun r1 e1 => ?_) ?_ f
    · injection e1 with e1 _; exact absurd e1 hl.2.2
    · simp only [atomicL, h1, h2, hcmp, atomL_none_of_symConst _ (lexSymConst_none_of_head c _ hl.1 hl.2.1)]
  | fc c =>
    intro hT X hcmp f
    have hw : ITerm.WF (.fc c) := hT
    obtain ⟨h1, h2⟩ := hash_words_none (.int (.fc c)) hw X
    simp only [GTerm.printL] at h1 h2
    have hs := skip_of_startsSolid ((ITerm.printL_startsSolid _ hw).append X)
    have hp := prefixL_iterm (.fc c) hT X
    have hparen := name_not_paren (SymName.all_id hT) (SymName.ne_nil hT) ('$' :: 'i' :: X)
    simp only [ITerm.printL, List.append_assoc, List.cons_append, List.nil_append] at h1 h2 hs hp hcmp ⊢
    have hat : atomL (c.toList ++ '$' :: 'i' :: X) = some (⟨c, []⟩, '$' :: 'i' :: X) := by
      simp only [atomL, lexSymConst_append c.toList ('$' :: 'i' :: X) hT ⟨'$', _, rfl, by decide⟩,
        String.ofList_toList, skip_cons_solid ('i' :: X) (show Solid '$' from ⟨by decide, by decide⟩)]
      rfl
    have hatomic : atomicL (c.toList ++ '$' :: 'i' :: X) = some (.atom ⟨c, []⟩, '$' :: 'i' :: X) := by
      simp only [atomicL, h1, h2, hcmp, hat]
    cases f with
    | zero => left; rfl
    | succ f =>
      rw [formulaL_succ]
      cases f with
      | zero => left; rfl
      | succ f =>
        have h0 := prefixesL_none ((c.toList ++ '$' :: 'i' :: X).length + 1) true _ (by simpa using hp)
        have hop := foperand_atomic f _ [] _ _ _ h0
          (fun r1 e => by rw [hs] at e; exact absurd e (hparen r1)) (by rw [hs]; exact hatomic)
        have hsd : skip ('$' :: 'i' :: X) = '$' :: 'i' :: X := skip_cons_solid _ ⟨by decide, by decide⟩
        have htl := ftailT_stop (f + 1) ('$' :: 'i' :: X) (by rw [hsd]; rfl)
        right
        refine ⟨.atomic (.atom ⟨c, []⟩), '$' :: 'i' :: X, ?_, ?_⟩
        · simp only [fseqT, hop, htl, List.nil_append, List.append_nil, fpratt_single]
        · intro r3; rw [hsd]; intro e; injection e with e1 _; exact absurd e1 (by decide)
  | var v =>
    intro hT X hcmp f
    have hw : ITerm.WF (.var v) := hT
    obtain ⟨h1, h2⟩ := hash_words_none (.int (.var v)) hw X
    simp only [GTerm.printL] at h1 h2
    have hs := skip_of_startsSolid ((ITerm.printL_startsSolid _ hw).append X)
    have hp := prefixL_iterm (.var v) hT X
    have hparen := name_not_paren (UVName.all_id hT) (UVName.ne_nil hT) ('$' :: 'i' :: X)
    simp only [ITerm.printL, List.append_assoc, List.cons_append, List.nil_append] at h1 h2 hs hp hcmp ⊢
    left
    refine formulaL_none_of _ hs hp hparen ?_ f
    simp only [atomicL, h1, h2, hcmp, atomL_none_of_symConst _ (lexSymConst_uvName v.toList _ hT)]
  | neg a _ =>
    intro hT X hcmp f
    have hw : ITerm.WF (.neg a) := ITerm.Safe.wf hT
    obtain ⟨h1, h2⟩ := hash_words_none (.int (.neg a)) hw X
    simp only [GTerm.printL] at h1 h2
    have hs := skip_of_startsSolid ((ITerm.printL_startsSolid _ hw).append X)
    have hp := prefixL_iterm (.neg a) hT X
    simp only [ITerm.printL, List.cons_append] at h1 h2 hs hp hcmp ⊢
    left
    refine formulaL_none_of _ hs hp (fun r1 e1 => ?_) ?_ f
    · injection e1 with e1 _; exact absurd e1 (by decide)
    · simp only [atomicL, h1, h2, hcmp, atomL_none_of_symConst _ (lexSymConst_none_of_head '-' _ (by decide) (by decide))]
  | bin op l r ihl _ =>
    intro hT X hcmp f
    have hw : ITerm.WF (.bin op l r) := ITerm.Safe.wf hT
    obtain ⟨h1, h2⟩ := hash_words_none (.int (.bin op l r)) hw X
    simp only [GTerm.printL] at h1 h2
    have hs := skip_of_startsSolid ((ITerm.printL_startsSolid _ hw).append X)
    have hp := prefixL_iterm (.bin op l r) hT X
    by_cases hb : (ITerm.bin op l r).prec < l.prec
    · -- `(l) op r`: the parenthesised alternative reads `l` as a formula, and fails
      have e : ITerm.printL (.bin op l r) ++ X = '(' :: (ITerm.printL l ++ ')' :: (IOp.printL op ++
          (parenLL ((ITerm.bin op l r).prec < r.prec || (ITerm.bin op l r).prec = r.prec) (ITerm.printL r) ++ X))) := by
        simp [ITerm.printL, hb, parenLL]
      rw [e] at h1 h2 hs hp hcmp ⊢
      generalize IOp.printL op ++
          (parenLL ((ITerm.bin op l r).prec < r.prec || (ITerm.bin op l r).prec = r.prec) (ITerm.printL r) ++ X) = Z
        at *
      have hcmp' : comparisonL (ITerm.printL l ++ ')' :: Z) = none := by
        have hg := gtermL_printL (.int l) (ITerm.Safe.wf hT.1) (')' :: Z) (gfollow_paren Z)
        simp only [GTerm.printL] at hg
        simp only [comparisonL, hg, (atomicFollow_close Z).2.2]
      have hsl := skip_of_startsSolid ((ITerm.printL_startsSolid l (ITerm.Safe.wf hT.1)).append (')' :: Z))
      have hat : atomicL ('(' :: (ITerm.printL l ++ ')' :: Z)) = none := by
        simp only [atomicL, h1, h2, hcmp, atomL_none_of_symConst _ (lexSymConst_none_of_head '(' _ (by decide) (by decide))]
      cases f with
      | zero => left; rfl
      | succ f =>
        rw [formulaL_succ]
        cases f with
        | zero => left; rfl
        | succ f =>
          have h0 := prefixesL_none (('(' :: (ITerm.printL l ++ ')' :: Z)).length + 1) true _ (by simpa using hp)
          have := foperand_none f _ _ [] h0 (fun r1 e1 => by
            rw [hs] at e1; injection e1 with _ e1; subst e1
            rw [hsl]; exact ihl hT.1 (')' :: Z) hcmp' f) (by rw [hs]; exact hat)
          left
          simp only [fseqT, this]
    · have e : ITerm.printL (.bin op l r) ++ X = ITerm.printL l ++ (IOp.printL op ++
          (parenLL ((ITerm.bin op l r).prec < r.prec || (ITerm.bin op l r).prec = r.prec) (ITerm.printL r) ++ X)) := by
        simp [ITerm.printL, hb, parenLL]
      rw [e] at hcmp ⊢
      exact ihl hT.1 _ hcmp f

/-- an integer term whose text starts with `(` starts with a parenthesised integer term -/
theorem iterm_paren_decomp : ∀ (T : ITerm), ITerm.Safe T → ∀ (G r1 : List Char), ITerm.printL T ++ G = '(' :: r1 →
    ∃ l1 Z, ITerm.Safe l1 ∧ r1 = ITerm.printL l1 ++ ')' :: Z := by
  intro T
  induction T with
  | num n =>
    intro _ G r1 e
    obtain ⟨c, r, hcr, hc⟩ := Asp.intL_head n
    simp only [ITerm.printL, hcr, List.cons_append, List.cons.injEq] at e
    rcases hc with hc | hc <;> (rw [e.1] at hc; exact absurd hc (by decide))
  | fc c => intro hT G r1 e; exact absurd e (by
      simp only [ITerm.printL, List.append_assoc]
      exact name_not_paren (SymName.all_id hT) (SymName.ne_nil hT) _ r1)
  | var v => intro hT G r1 e; exact absurd e (by
      simp only [ITerm.printL, List.append_assoc]
      exact name_not_paren (UVName.all_id hT) (UVName.ne_nil hT) _ r1)
  | neg a _ =>
    intro _ G r1 e
    simp only [ITerm.printL, List.cons_append, List.cons.injEq] at e
    exact absurd e.1 (by decide)
  | bin op l r ihl _ =>
    intro hT G r1 e
    by_cases hb : (ITerm.bin op l r).prec < l.prec
    · refine ⟨l, IOp.printL op ++
          (parenLL ((ITerm.bin op l r).prec < r.prec || (ITerm.bin op l r).prec = r.prec) (ITerm.printL r) ++ G), hT.1, ?_⟩
      simp only [ITerm.printL, hb, parenLL, decide_true, if_true, List.cons_append, List.append_assoc, List.cons.injEq,
        true_and, List.nil_append] at e
      exact e.symm
    · simp only [ITerm.printL, hb, parenLL, decide_false, Bool.false_eq_true, if_false, List.append_assoc] at e
      exact ihl hT.1 _ r1 e

/-! ## the chain of prefixes in front of a primary -/

def fsize : Formula → Nat
  | .atomic _ => 1
  | .not f => fsize f + 1
  | .quant _ _ f => fsize f + 1
  | .bin _ l r => fsize l + fsize r + 1

/-- the prefix tokens the printer writes without parentheses in between -/
def chain : Formula → List FTok
  | .not g => .pneg :: (if parenPrefix g then [] else chain g)
  | .quant q vs g => .pquant q vs :: (if quantBodyParen g then [] else chain g)
  | _ => []

/-- what follows the chain: (is it parenthesised?, the formula) -/
def core : Formula → Bool × Formula
  | .not g => if parenPrefix g then (true, g) else core g
  | .quant _ _ g => if quantBodyParen g then (true, g) else core g
  | f => (false, f)

theorem parenPrefix_bin (c : Conn) (l r : Formula) : parenPrefix (.bin c l r) = true := by cases c <;> rfl

theorem parenPrefix_of_quantBody {g : Formula} (h : quantBodyParen g = false) : parenPrefix g = false := by
  cases g with
  | atomic a => rfl
  | not g => exact h
  | quant q vs g => exact h
  | bin c l r => exact h

theorem fflat_chain_core : ∀ (F : Formula), parenPrefix F = false → fflat F = chain F ++ [.prim (core F).2] := by
  intro F
  induction F with
  | atomic a => intro _; rfl
  | not g ih =>
    intro _
    by_cases hp : parenPrefix g = true
    · simp [fflat, chain, core, hp]
    · have hp' : parenPrefix g = false := by simpa using hp
      simp [fflat, chain, core, hp', ih hp']
  | quant q vs g ih =>
    intro _
    by_cases hq : quantBodyParen g = true
    · by_cases hp : parenPrefix g = true
      · simp [fflat, chain, core, hp, hq]
      · have hp' : parenPrefix g = false := by simpa using hp
        cases g with
        | atomic a => simp [fflat, chain, core, hp', hq]
        | not g' => rw [show quantBodyParen (.not g') = parenPrefix (.not g') from rfl, hp'] at hq; cases hq
        | quant q' vs' g' => rw [show quantBodyParen (.quant q' vs' g') = parenPrefix (.quant q' vs' g') from rfl, hp'] at hq; cases hq
        | bin c l r => rw [parenPrefix_bin] at hp'; cases hp'
    · have hq' : quantBodyParen g = false := by simpa using hq
      have hp' := parenPrefix_of_quantBody hq'
      simp [fflat, chain, core, hp', hq', ih hp']
  | bin c l r _ _ => intro h; rw [parenPrefix_bin] at h; cases h

theorem core_cases : ∀ (F : Formula), parenPrefix F = false →
    ((core F).1 = true ∧ fsize (core F).2 < fsize F) ∨ ((core F).1 = false ∧ ∃ a, (core F).2 = .atomic a) := by
  intro F
  induction F with
  | atomic a => intro _; exact Or.inr ⟨rfl, a, rfl⟩
  | not g ih =>
    intro _
    by_cases hp : parenPrefix g = true
    · left; simp [core, hp, fsize]
    · have hp' : parenPrefix g = false := by simpa using hp
      rcases ih hp' with ⟨h1, h2⟩ | h
      · left; simp only [core, hp', Bool.false_eq_true, if_false, fsize]; exact ⟨h1, by omega⟩
      · right; simpa only [core, hp', Bool.false_eq_true, if_false] using h
  | quant q vs g ih =>
    intro _
    by_cases hq : quantBodyParen g = true
    · left; simp [core, hq, fsize]
    · have hq' : quantBodyParen g = false := by simpa using hq
      rcases ih (parenPrefix_of_quantBody hq') with ⟨h1, h2⟩ | h
      · left; simp only [core, hq', Bool.false_eq_true, if_false, fsize]; exact ⟨h1, by omega⟩
      · right; simpa only [core, hq', Bool.false_eq_true, if_false] using h
  | bin c l r _ _ => intro h; rw [parenPrefix_bin] at h; cases h

theorem core_safe : ∀ (F : Formula), Formula.Safe F → Formula.Safe (core F).2 := by
  intro F
  induction F with
  | atomic a => intro h; exact h
  | not g ih =>
    intro h
    by_cases hp : parenPrefix g = true
    · have h' : Formula.Safe g := h
      simpa [core, hp] using h'
    · have hp' : parenPrefix g = false := by simpa using hp
      simpa [core, hp'] using ih h
  | quant q vs g ih =>
    intro h
    by_cases hq : quantBodyParen g = true
    · simpa [core, hq] using h.2.2
    · have hq' : quantBodyParen g = false := by simpa using hq
      simpa [core, hq'] using ih h.2.2
  | bin c l r _ _ => intro h; exact h

theorem lexVariable_none_of_uvar (cs : List Char) (h : lexUVar cs = none) : lexVariable cs = none := by
  simp [lexVariable, lexIntVar, lexSymVar, lexGenVar, h]

/-- the body of a quantifier printed without parentheses does not start like a variable -/
theorem body_no_variable (g : Formula) (hg : Formula.Safe g) (hq : quantBodyParen g = false) (rest : List Char) :
    lexVariable (Formula.printL g ++ rest) = none := by
  apply lexVariable_none_of_uvar
  cases g with
  | atomic a =>
    obtain ⟨c, r, e, _⟩ := AtomicF.printL_startsSolid a hg
    simp only [quantBodyParen, e, startsWithVarL, List.head?_cons, Bool.or_eq_false_iff, decide_eq_false_iff_not] at hq
    simp only [Formula.printL, e, List.cons_append]
    exact lexUVar_none_of_head c _ hq.2 hq.1
  | not g' => exact lexUVar_none_of_head 'n' _ (by decide) (by decide)
  | quant q vs g' => cases q <;> exact lexUVar_none_of_head _ _ (by decide) (by decide)
  | bin c l r => rw [show quantBodyParen (.bin c l r) = parenPrefix (.bin c l r) from rfl, parenPrefix_bin] at hq; cases hq

theorem prefixL_paren (r : List Char) : prefixL ('(' :: r) = none :=
  prefixL_head '(' r (by decide) (by decide) (by decide)

theorem qword_length (q : Quant) : (qwordL q).length = 6 := by cases q <;> rfl

/-- `prefix*` on the text of a formula that is not a binary one reads exactly the chain -/
theorem prefixes_printL : ∀ (F : Formula), parenPrefix F = false → Formula.Safe F → ∀ (rest : List Char), NoId rest →
    lexVariable (skip rest) = none → ∀ (first : Bool) (cs : List Char) (n : Nat),
      (if first then cs else skip cs) = Formula.printL F ++ rest → (Formula.printL F ++ rest).length ≤ cs.length →
      cs.length < n →
      ∃ cs', prefixesL n first cs = (chain F, cs') ∧
        skip cs' = parenLL (core F).1 (Formula.printL (core F).2) ++ rest ∧ cs'.length ≤ cs.length := by
  intro F
  induction F with
  | atomic a =>
    intro _ hF rest hr hv first cs n hcs _ _
    have hp := prefixL_atomic a hF rest hr hv
    refine ⟨cs, prefixesL_none n first cs (by rw [hcs]; exact hp), ?_, Nat.le_refl _⟩
    have hsol := skip_of_startsSolid ((AtomicF.printL_startsSolid a hF).append rest)
    cases first with
    | true => simp only [if_true] at hcs; rw [hcs]; exact hsol
    | false => simpa [core, parenLL] using hcs
  | not g ih =>
    intro _ hF rest hr hv first cs n hcs hlen hn
    cases n with
    | zero => omega
    | succ n0 =>
      have htxt : Formula.printL (.not g) ++ rest =
          'n' :: 'o' :: 't' :: ' ' :: (parenLL (parenPrefix g) (Formula.printL g) ++ rest) := by
        simp [Formula.printL]
      rw [htxt] at hcs hlen
      have hstep := prefixesL_succ_some n0 first cs (' ' :: (parenLL (parenPrefix g) (Formula.printL g) ++ rest)) .pneg
        (by rw [hcs]; exact prefixL_not _)
      simp only [List.length_cons] at hlen
      by_cases hp : parenPrefix g = true
      · have e : parenLL (parenPrefix g) (Formula.printL g) ++ rest = '(' :: (Formula.printL g ++ ')' :: rest) := by
          simp [hp, parenLL]
        rw [e] at hstep hlen
        have hnone := prefixesL_none n0 false (' ' :: '(' :: (Formula.printL g ++ ')' :: rest))
          (by simp only [Bool.false_eq_true, if_false, skip_space]
              rw [skip_cons_solid _ ⟨by decide, by decide⟩]; exact prefixL_paren _)
        refine ⟨' ' :: '(' :: (Formula.printL g ++ ')' :: rest), ?_, ?_, ?_⟩
        · rw [hstep, hnone]; simp [chain, hp]
        · simp only [skip_space, core, hp, if_true]
          rw [skip_cons_solid _ ⟨by decide, by decide⟩]; simp [parenLL]
        · simp only [List.length_cons] at hlen ⊢; omega
      · have hp' : parenPrefix g = false := by simpa using hp
        have e : parenLL (parenPrefix g) (Formula.printL g) ++ rest = Formula.printL g ++ rest := by
          simp [hp', parenLL]
        rw [e] at hstep hlen
        have hsol := skip_of_startsSolid ((Formula.printL_startsSolid g hF).append rest)
        obtain ⟨cs', h1, h2, h3⟩ := ih hp' hF rest hr hv false (' ' :: (Formula.printL g ++ rest)) n0
          (by simp only [Bool.false_eq_true, if_false, skip_space]; exact hsol)
          (by simp only [List.length_cons]; omega) (by simp only [List.length_cons]; omega)
        refine ⟨cs', ?_, ?_, ?_⟩
        · rw [hstep, h1]; simp [chain, hp']
        · simpa only [core, hp', Bool.false_eq_true, if_false] using h2
        · simp only [List.length_cons] at h3; omega
  | quant q vs g ih =>
    intro _ hF rest hr hv first cs n hcs hlen hn
    cases n with
    | zero => omega
    | succ n0 =>
      have htxt : Formula.printL (.quant q vs g) ++ rest =
          qwordL q ++ (varsL vs ++ ' ' :: (parenLL (quantBodyParen g) (Formula.printL g) ++ rest)) := by
        simp [Formula.printL]
      rw [htxt] at hcs hlen
      by_cases hq : quantBodyParen g = true
      · have e : parenLL (quantBodyParen g) (Formula.printL g) ++ rest = '(' :: (Formula.printL g ++ ')' :: rest) := by
          simp [hq, parenLL]
        rw [e] at hcs hlen
        simp only [List.length_append, List.length_cons, qword_length] at hlen
        have hB : lexVariable (skip (' ' :: '(' :: (Formula.printL g ++ ')' :: rest))) = none := by
          rw [skip_space, skip_cons_solid _ ⟨by decide, by decide⟩]
          exact lexVariable_none_of_uvar _ (lexUVar_none_of_head '(' _ (by decide) (by decide))
        have hstep := prefixesL_succ_some n0 first cs _ _ (by rw [hcs]; exact prefixL_quant q vs hF.1 hF.2.1 _ hB)
        have hnone := prefixesL_none n0 false (' ' :: '(' :: (Formula.printL g ++ ')' :: rest))
          (by simp only [Bool.false_eq_true, if_false, skip_space]
              rw [skip_cons_solid _ ⟨by decide, by decide⟩]; exact prefixL_paren _)
        refine ⟨' ' :: '(' :: (Formula.printL g ++ ')' :: rest), ?_, ?_, ?_⟩
        · rw [hstep, hnone]; simp [chain, hq]
        · simp only [skip_space, core, hq, if_true]
          rw [skip_cons_solid _ ⟨by decide, by decide⟩]; simp [parenLL]
        · simp only [List.length_cons, List.length_append] at hlen ⊢; omega
      · have hq' : quantBodyParen g = false := by simpa using hq
        have e : parenLL (quantBodyParen g) (Formula.printL g) ++ rest = Formula.printL g ++ rest := by
          simp [hq', parenLL]
        rw [e] at hcs hlen
        simp only [List.length_append, List.length_cons, qword_length] at hlen
        have hsol := skip_of_startsSolid ((Formula.printL_startsSolid g hF.2.2).append rest)
        have hB : lexVariable (skip (' ' :: (Formula.printL g ++ rest))) = none := by
          rw [skip_space, hsol]; exact body_no_variable g hF.2.2 hq' rest
        have hstep := prefixesL_succ_some n0 first cs _ _ (by rw [hcs]; exact prefixL_quant q vs hF.1 hF.2.1 _ hB)
        obtain ⟨cs', h1, h2, h3⟩ := ih (parenPrefix_of_quantBody hq') hF.2.2 rest hr hv false (' ' :: (Formula.printL g ++ rest)) n0
          (by simp only [Bool.false_eq_true, if_false, skip_space]; exact hsol)
          (by simp only [List.length_cons]; omega) (by simp only [List.length_cons, List.length_append]; omega)
        refine ⟨cs', ?_, ?_, ?_⟩
        · rw [hstep, h1]; simp [chain, hq']
        · simpa only [core, hq', Bool.false_eq_true, if_false] using h2
        · simp only [List.length_cons, List.length_append] at h3; omega
  | bin c l r _ _ => intro h; rw [parenPrefix_bin] at h; cases h

/-! ## the sequence of operands and connectives -/

theorem skipAux_length_le (b : Bool) (cs : List Char) : (skipAux b cs).length ≤ cs.length := by
  induction cs generalizing b with
  | nil => cases b <;> simp [skipAux]
  | cons c cs ih =>
    cases b with
    | true =>
      simp only [skipAux]
      split
      · exact Nat.le_trans (ih false) (by simp)
      · exact Nat.le_trans (ih true) (by simp)
    | false =>
      simp only [skipAux]
      split
      · exact Nat.le_trans (ih false) (by simp)
      · split
        · exact Nat.le_trans (ih true) (by simp)
        · exact Nat.le_refl _

theorem skip_length_le (cs : List Char) : (skip cs).length ≤ cs.length := skipAux_length_le false cs

/-- `operand (connective operand)*` on the text of `F` yields the token list of `F` -/
def FSeqOK (F : Formula) : Prop :=
  ∀ (rest : List Char) (toks' : List FTok) (r' : List Char), AtomicFollow rest →
    (∀ f, 2 * rest.length < f → ftailT f rest = (toks', r')) →
    ∀ f, 2 * (Formula.printL F ++ rest).length < f →
      fseqT f (Formula.printL F ++ rest) = some (fflat F ++ toks', r')

theorem formulaL_of_fseqOK {F : Formula} (hT : FSeqOK F) (rest : List Char) (hr : AtomicFollow rest)
    (hstop : lexConn (skip rest) = none) (f : Nat) (hf : 2 * (Formula.printL F ++ rest).length < f) :
    formulaL (f + 1) (Formula.printL F ++ rest) = some (F, rest) := by
  rw [formulaL_succ, hT rest [] rest hr (fun f' _ => ftailT_stop f' rest hstop) f hf]
  simp only [List.append_nil, fpratt_flat_eq]

theorem lexConn_close (rest : List Char) : lexConn (skip (')' :: rest)) = none := by
  rw [skip_cons_solid rest ⟨by decide, by decide⟩]; rfl

theorem fseq_paren {X : Formula} (hT : FSeqOK X) (hX : Formula.Safe X) (rest : List Char) (toks' : List FTok)
    (r' : List Char) (htail : ∀ f, 2 * rest.length < f → ftailT f rest = (toks', r'))
    (f : Nat) (hf : 2 * ('(' :: (Formula.printL X ++ ')' :: rest)).length < f) :
    fseqT f ('(' :: (Formula.printL X ++ ')' :: rest)) = some (FTok.prim X :: toks', r') := by
  simp only [List.length_cons, List.length_append] at hf
  obtain ⟨f1, rfl⟩ : ∃ f1, f = f1 + 1 + 1 := ⟨f - 2, by omega⟩
  have hs : skip ('(' :: (Formula.printL X ++ ')' :: rest)) = '(' :: (Formula.printL X ++ ')' :: rest) :=
    skip_cons_solid _ ⟨by decide, by decide⟩
  have hsX := skip_of_startsSolid ((Formula.printL_startsSolid X hX).append (')' :: rest))
  have h0 := prefixesL_none (('(' :: (Formula.printL X ++ ')' :: rest)).length + 1) true _
    (by simpa using prefixL_paren (Formula.printL X ++ ')' :: rest))
  have h1 := formulaL_of_fseqOK hT (')' :: rest) (atomicFollow_close rest) (lexConn_close rest) f1
    (by simp only [List.length_cons, List.length_append]; omega)
  have hop := foperand_paren (f1 + 1) _ [] _ _ _ rest X h0 hs (by rw [hsX]; exact h1)
    (skip_cons_solid rest ⟨by decide, by decide⟩)
  simp only [fseqT, hop, htail (f1 + 1 + 1) (by omega), List.nil_append, List.singleton_append]

def fflatArg (b : Bool) (X : Formula) : List FTok := if b then [.prim X] else fflat X

theorem fseq_arg {X : Formula} (hT : FSeqOK X) (hX : Formula.Safe X) (b : Bool) (rest : List Char) (toks' : List FTok)
    (r' : List Char) (hr : AtomicFollow rest) (htail : ∀ f, 2 * rest.length < f → ftailT f rest = (toks', r'))
    (f : Nat) (hf : 2 * (parenLL b (Formula.printL X) ++ rest).length < f) :
    fseqT f (parenLL b (Formula.printL X) ++ rest) = some (fflatArg b X ++ toks', r') := by
  cases b with
  | true =>
    have e : parenLL true (Formula.printL X) ++ rest = '(' :: (Formula.printL X ++ ')' :: rest) := by simp [parenLL]
    rw [e] at hf ⊢
    simpa [fflatArg] using fseq_paren hT hX rest toks' r' htail f hf
  | false =>
    have e : parenLL false (Formula.printL X) ++ rest = Formula.printL X ++ rest := by simp [parenLL]
    rw [e] at hf ⊢
    simpa [fflatArg] using hT rest toks' r' hr htail f hf

theorem conn_lex (c : Conn) (Y : List Char) (hY : StartsSolid Y) :
    ∃ r, lexConn (skip (Conn.printL c ++ Y)) = some (c, r) ∧ skip r = Y := by
  have hsY := skip_of_startsSolid hY
  rw [skip_conn]
  cases c <;> refine ⟨' ' :: Y, ?_, by rw [skip_space]; exact hsY⟩ <;> simp [Conn.printL, lexConn, stripPrefix]

theorem Conn.printL_length (c : Conn) : 4 ≤ (Conn.printL c).length := by cases c <;> decide

theorem comparisonL_before_close (l : ITerm) (hl : ITerm.WF l) (Z : List Char) :
    comparisonL (ITerm.printL l ++ ')' :: Z) = none := by
  have hg := gtermL_printL (.int l) hl (')' :: Z) (gfollow_paren Z)
  simp only [GTerm.printL] at hg
  simp only [comparisonL, hg, (atomicFollow_close Z).2.2]

/-- an atomic formula whose text starts with `(` is a comparison starting with a parenthesised
    integer term; the formula parser does not read that parenthesis as a formula -/
theorem atomic_paren_notclosed (a : AtomicF) (ha : AtomicF.Safe a) (rest r1 : List Char)
    (e : AtomicF.printL a ++ rest = '(' :: r1) : ∀ f, NotClosedF (formulaL f (skip r1)) := by
  have hash : ∀ (w Y : List Char), ('#' :: w) ++ Y ≠ '(' :: r1 := by
    intro w Y e'; injection e' with e1 _; exact absurd e1 (by decide)
  cases a with
  | tru => exact absurd e (hash _ _)
  | fls => exact absurd e (hash _ _)
  | atom at' =>
    exfalso
    obtain ⟨pred, args⟩ := at'
    have hn := name_not_paren (SymName.all_id ha.1.1) (SymName.ne_nil ha.1.1)
    cases args with
    | nil => exact hn rest r1 (by simpa [AtomicF.printL, Atom.printL] using e)
    | cons t ts => exact hn _ r1 (by simpa [AtomicF.printL, Atom.printL] using e)
  | cmp t gs =>
    simp only [AtomicF.printL, List.append_assoc] at e
    cases t with
    | inf => exact absurd e (hash _ _)
    | sup => exact absurd e (hash _ _)
    | fc c =>
      simp only [GTerm.printL, List.append_assoc] at e
      exact absurd e (name_not_paren (SymName.all_id ha.1.1) (SymName.ne_nil ha.1.1) _ r1)
    | var v => exact absurd e (name_not_paren (UVName.all_id ha.1.1) (UVName.ne_nil ha.1.1) _ r1)
    | symb s =>
      cases s with
      | sym s => exact absurd e (name_not_paren (SymName.all_id ha.1.1) (SymName.ne_nil ha.1.1) _ r1)
      | fc c =>
        simp only [GTerm.printL, STerm.printL, List.append_assoc] at e
        exact absurd e (name_not_paren (SymName.all_id ha.1.1) (SymName.ne_nil ha.1.1) _ r1)
      | var v =>
        simp only [GTerm.printL, STerm.printL, List.append_assoc] at e
        exact absurd e (name_not_paren (UVName.all_id ha.1.1) (UVName.ne_nil ha.1.1) _ r1)
    | int it =>
      intro f
      obtain ⟨l1, Z, hl1, rfl⟩ := iterm_paren_decomp it ha.1.1 _ r1 e
      rw [skip_of_startsSolid ((ITerm.printL_startsSolid l1 (ITerm.Safe.wf hl1)).append _)]
      exact formulaL_iterm_text l1 hl1 (')' :: Z) (comparisonL_before_close l1 (ITerm.Safe.wf hl1) Z) f

/-- a formula that is not a binary one: the chain of prefixes, then a parenthesised formula or
    an atomic formula -/
theorem fseq_prefix_type (F : Formula) (hpp : parenPrefix F = false) (hF : Formula.Safe F)
    (ihc : (core F).1 = true → FSeqOK (core F).2) : FSeqOK F := by
  intro rest toks' r' hr htail f hf
  obtain ⟨cs', h1, h2, h3⟩ := prefixes_printL F hpp hF rest hr.1.1.noId hr.2.2.2 true (Formula.printL F ++ rest)
    ((Formula.printL F ++ rest).length + 1) rfl (Nat.le_refl _) (Nat.lt_succ_self _)
  have hG := core_safe F hF
  have hsk := skip_length_le cs'
  rw [fflat_chain_core F hpp]
  rcases core_cases F hpp with ⟨hc1, _⟩ | ⟨hc0, a, ha⟩
  · rw [hc1] at h2
    have e : parenLL true (Formula.printL (core F).2) ++ rest = '(' :: (Formula.printL (core F).2 ++ ')' :: rest) := by
      simp [parenLL]
    rw [e] at h2
    rw [h2] at hsk
    simp only [List.length_cons, List.length_append] at hsk
    obtain ⟨f1, rfl⟩ : ∃ f1, f = f1 + 1 + 1 := ⟨f - 2, by omega⟩
    have hsG := skip_of_startsSolid ((Formula.printL_startsSolid _ hG).append (')' :: rest))
    have hin := formulaL_of_fseqOK (ihc hc1) (')' :: rest) (atomicFollow_close rest) (lexConn_close rest) f1
      (by simp only [List.length_cons, List.length_append]; omega)
    have hop := foperand_paren (f1 + 1) _ (chain F) cs' _ _ rest (core F).2 h1 h2 (by rw [hsG]; exact hin)
      (skip_cons_solid rest ⟨by decide, by decide⟩)
    simp only [fseqT, hop, htail (f1 + 1 + 1) (by omega), List.append_assoc]
  · rw [hc0, ha] at h2
    rw [ha] at hG
    have e : parenLL false (Formula.printL (.atomic a)) ++ rest = AtomicF.printL a ++ rest := by simp [parenLL, Formula.printL]
    rw [e] at h2
    obtain ⟨f0, rfl⟩ : ∃ f0, f = f0 + 1 := ⟨f - 1, by omega⟩
    have hat := atomicL_printL a (AtomicF.Safe.wf hG) rest hr
    have hop := foperand_atomic f0 _ (chain F) cs' rest a h1
      (fun r1 e1 => by rw [h2] at e1; exact atomic_paren_notclosed a hG rest r1 e1 f0) (by rw [h2]; exact hat)
    have hlen : rest.length ≤ (Formula.printL F ++ rest).length := by simp
    simp only [fseqT, hop, htail (f0 + 1) (by omega), List.append_assoc, ha]

theorem atomicFollow_nameFollow {rest : List Char} (h : AtomicFollow rest) : NameFollow rest := ⟨h.1.1, h.1.2.1⟩

theorem fseq_bin (c : Conn) (l r : Formula) (hl : Formula.Safe l) (hr : Formula.Safe r)
    (ihl : FSeqOK l) (ihr : FSeqOK r) : FSeqOK (.bin c l r) := by
  intro rest toks' r' hrest htail f hf
  have htxt : Formula.printL (.bin c l r) ++ rest =
      parenLL (parenLeft c l r) (Formula.printL l) ++ (Conn.printL c ++ (parenLL (parenRight c l r) (Formula.printL r) ++ rest)) := by
    simp [Formula.printL]
  rw [htxt] at hf ⊢
  have hcl := Conn.printL_length c
  simp only [List.length_append] at hf
  have hR : ∀ f, 2 * (parenLL (parenRight c l r) (Formula.printL r) ++ rest).length < f →
      fseqT f (parenLL (parenRight c l r) (Formula.printL r) ++ rest) = some (fflatArg (parenRight c l r) r ++ toks', r') :=
    fun f hf' => fseq_arg ihr hr _ rest toks' r' hrest htail f hf'
  have hYsolid : StartsSolid (parenLL (parenRight c l r) (Formula.printL r) ++ rest) :=
    (parenLL_startsSolid _ (Formula.printL_startsSolid r hr)).append rest
  have hT : ∀ f, 2 * (Conn.printL c ++ (parenLL (parenRight c l r) (Formula.printL r) ++ rest)).length < f →
      ftailT f (Conn.printL c ++ (parenLL (parenRight c l r) (Formula.printL r) ++ rest)) =
        (.op c :: (fflatArg (parenRight c l r) r ++ toks'), r') := by
    intro f hf'
    simp only [List.length_append] at hf'
    obtain ⟨f0, rfl⟩ : ∃ f0, f = f0 + 1 := ⟨f - 1, by omega⟩
    obtain ⟨rr, h1, h2⟩ := conn_lex c _ hYsolid
    rw [ftailT_succ, h1]
    simp only [h2, hR f0 (by simp only [List.length_append]; omega)]
  have hfol : AtomicFollow (Conn.printL c ++ (parenLL (parenRight c l r) (Formula.printL r) ++ rest)) :=
    atomicFollow_conn c _ (fun hc => by subst hc; exact rimpSafe_arg l r hr rest (atomicFollow_nameFollow hrest))
  have := fseq_arg ihl hl (parenLeft c l r) _ _ r' hfol hT f (by simp only [List.length_append]; omega)
  rw [this]
  simp [fflat, fflatArg, List.append_assoc]

theorem fseqOK_aux : ∀ (n : Nat) (F : Formula), fsize F ≤ n → Formula.Safe F → FSeqOK F := by
  intro n
  induction n with
  | zero => intro F h; cases F <;> simp [fsize] at h
  | succ n ih =>
    intro F hn hF
    cases F with
    | atomic a => exact fseq_prefix_type _ rfl hF (fun h => by cases h)
    | not g =>
      refine fseq_prefix_type _ rfl hF (fun h => ?_)
      rcases core_cases (.not g) rfl with ⟨_, h2⟩ | ⟨h0, _⟩
      · exact ih _ (by omega) (core_safe _ hF)
      · rw [h] at h0; cases h0
    | quant q vs g =>
      refine fseq_prefix_type _ rfl hF (fun h => ?_)
      rcases core_cases (.quant q vs g) rfl with ⟨_, h2⟩ | ⟨h0, _⟩
      · exact ih _ (by omega) (core_safe _ hF)
      · rw [h] at h0; cases h0
    | bin c l r =>
      simp only [fsize] at hn
      exact fseq_bin c l r hF.1 hF.2 (ih l (by omega) hF.1) (ih r (by omega) hF.2)

theorem fseqOK (F : Formula) (hF : Formula.Safe F) : FSeqOK F := fseqOK_aux (fsize F) F (Nat.le_refl _) hF

/-- **the formula parser inverts the formula printer**: on the text of a safe formula followed by
    something at which an atomic formula may end and no connective starts (`)`, `.`), `formulaL`
    returns exactly that formula and the rest -/
theorem formulaL_printL (F : Formula) (hF : Formula.Safe F) (rest : List Char) (hr : AtomicFollow rest)
    (hstop : lexConn (skip rest) = none) (f : Nat) (hf : 2 * (Formula.printL F ++ rest).length < f) :
    formulaL (f + 1) (Formula.printL F ++ rest) = some (F, rest) :=
  formulaL_of_fseqOK (fseqOK F hF) rest hr hstop f hf

end Anthem.Fol
