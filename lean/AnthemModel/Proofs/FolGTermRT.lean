/-
  Round trip for general terms of the target language: the ordered choice
  `general_function_constant | integer_term | symbolic_term | general_variable | infimum | supremum`
  picks the alternative the term was printed from.
-/
import AnthemModel.Proofs.FolITermRT
namespace Anthem.Fol
open Anthem.Asp (isWs skip stripPrefix isIdChar isNonzeroDigit SymName NoId StopsAt Solid StartsSolid
  takeWhile_append_stop noId_cons skip_cons_solid skip_of_startsSolid lower_idChar lower_solid upper_solid
  parenLL parenLL_startsSolid lexInteger lexInteger_append intL_head digit_solid stripPrefix_head_ne)

/-! ## printers -/

def STerm.printL : STerm → List Char
  | .sym s => s.toList
  | .fc c => c.toList ++ ['$', 's']
  | .var v => v.toList ++ ['$', 's']

def GTerm.printL : GTerm → List Char
  | .inf => ['#', 'i', 'n', 'f']
  | .sup => ['#', 's', 'u', 'p']
  | .fc c => c.toList ++ ['$', 'g']
  | .var v => v.toList
  | .int t => ITerm.printL t
  | .symb t => STerm.printL t

theorem STerm.print_toList (t : STerm) : t.print.toList = STerm.printL t := by
  cases t <;> simp [STerm.print, STerm.printL, String.toList_append]

theorem GTerm.print_toList (t : GTerm) : t.print.toList = GTerm.printL t := by
  cases t with
  | inf => rfl
  | sup => rfl
  | fc c => simp [GTerm.print, GTerm.printL, String.toList_append]
  | var v => simp [GTerm.print, GTerm.printL]
  | int t => simp [GTerm.print, GTerm.printL, ITerm.print_toList]
  | symb t => simp [GTerm.print, GTerm.printL, STerm.print_toList]

def STerm.WF : STerm → Prop
  | .sym s => SymName s.toList
  | .fc c => SymName c.toList
  | .var v => UVName v.toList

def GTerm.WF : GTerm → Prop
  | .inf | .sup => True
  | .fc c => SymName c.toList
  | .var v => UVName v.toList
  | .int t => ITerm.WF t
  | .symb t => STerm.WF t

/-- what follows a general term in printed text: a non-identifier character other than `$`, and
    nothing that continues an integer term -/
def GFollow (rest : List Char) : Prop := NoIdNE rest ∧ (∀ r, rest ≠ '$' :: r) ∧ ITailStop rest

/-! ## failing alternatives -/

theorem ioperand_fail (f : Nat) (cs : List Char) (hs : skip cs = cs) (hn : lexNegative cs = none)
    (h0 : lexNumeral cs = none) (h1 : lexFnConst lexSortI cs = none) (hv : lexIntVar cs = none)
    (hp : ∀ r, cs ≠ '(' :: r) : ioperand (f + 1) cs = none := by
  simp only [ioperand, lexNegs_none (cs.length + 1) true cs (by simpa using hn), hs, h0, h1, hv]
  try (split
       · rename_i r1 heq; exact absurd heq (hp r1)
       · rfl)

theorem itermL_fail (cs : List Char) (hs : skip cs = cs) (hn : lexNegative cs = none)
    (h0 : lexNumeral cs = none) (h1 : lexFnConst lexSortI cs = none) (hv : lexIntVar cs = none)
    (hp : ∀ r, cs ≠ '(' :: r) : ∀ f, itermL f cs = none := by
  intro f
  cases f with
  | zero => rfl
  | succ f =>
    rw [itermL_succ]
    cases f with
    | zero => rfl
    | succ f => simp only [iseqT, ioperand_fail f cs hs hn h0 h1 hv hp]

/-- the text of an integer term never starts like `c$g` -/
theorem lexFnConstG_iterm : ∀ (t : ITerm), ITerm.WF t → ∀ rest : List Char,
    lexFnConst lexSortG (ITerm.printL t ++ rest) = none := by
  intro t
  induction t with
  | num n =>
    intro _ rest
    obtain ⟨c, r, hcr, hc⟩ := intL_head n
    simp only [ITerm.printL, hcr, List.cons_append]
    refine lexFnConst_none_of_symConst _ _ (lexSymConst_none_of_head c _ ?_ ?_)
    · rcases hc with hc | rfl
      · simp only [Char.isDigit, Bool.and_eq_true, decide_eq_true_eq] at hc
        simp only [Char.isLower, Bool.and_eq_false_iff, decide_eq_false_iff_not]
        left; intro h
        have h1 : c.val ≥ 97 := h
        have h2 : c.val ≤ 57 := hc.2
        exact absurd (Nat.le_trans h1 h2) (by decide)
      · decide
    · rcases hc with hc | rfl
      · intro e; subst e; revert hc; decide
      · decide
  | fc c =>
    intro ht rest
    have e : ITerm.printL (.fc c) ++ rest = c.toList ++ '$' :: 'i' :: rest := by simp [ITerm.printL]
    rw [e]
    exact lexFnConst_miss_sort lexSortG 'i' c.toList rest ht (lexSortWord_miss 'g' "eneral" 'i' rest (by decide))
  | var v =>
    intro ht rest
    simp only [ITerm.printL, List.append_assoc]
    exact lexFnConst_none_of_symConst _ _ (lexSymConst_uvName v.toList _ ht)
  | neg a _ =>
    intro _ rest
    exact lexFnConst_none_of_symConst _ _ (lexSymConst_none_of_head '-' _ (by decide) (by decide))
  | bin op l r ihl _ =>
    intro ht rest
    simp only [ITerm.printL, List.append_assoc]
    by_cases hb : (ITerm.bin op l r).prec < l.prec
    · simp only [hb, parenLL, decide_true, if_true, List.cons_append]
      exact lexFnConst_none_of_symConst _ _ (lexSymConst_none_of_head '(' _ (by decide) (by decide))
    · simp only [hb, parenLL, decide_false, Bool.false_eq_true, if_false]
      exact ihl ht.1 _

/-! ## the six alternatives -/

theorem name_head_solid_not_minus {l : List Char} (hid : ∀ x ∈ l, isIdChar x = true) (hs : StartsSolid l)
    (rest : List Char) : lexNegative (l ++ rest) = none := by
  obtain ⟨c, r, e, hsol⟩ := hs
  rw [e]
  have hc : isIdChar c = true := hid c (by rw [e]; exact List.mem_cons_self)
  exact lexNegative_of_head _ hsol (by intro e'; subst e'; revert hc; decide)

theorem UVName.all_id {l : List Char} (h : UVName l) : ∀ x ∈ l, isIdChar x = true := by
  rcases h with ⟨c, w, rfl, hc, hw⟩ | ⟨c, w, rfl, hc, hw⟩
  · intro x hx
    rcases List.mem_cons.mp hx with rfl | hx
    · exact upper_idChar hc
    · exact hw x hx
  · intro x hx
    rcases List.mem_cons.mp hx with rfl | hx
    · decide
    · rcases List.mem_cons.mp hx with rfl | hx
      · exact upper_idChar hc
      · exact hw x hx

theorem name_not_paren {l : List Char} (hid : ∀ x ∈ l, isIdChar x = true) (hne : l ≠ []) (rest : List Char) :
    ∀ r, l ++ rest ≠ '(' :: r := by
  intro r e
  cases l with
  | nil => exact hne rfl
  | cons c w =>
    simp only [List.cons_append, List.cons.injEq] at e
    have := hid c List.mem_cons_self
    rw [e.1] at this
    revert this; decide

theorem SymName.ne_nil {l : List Char} (h : SymName l) : l ≠ [] := by
  rcases h with ⟨c, w, rfl, _, _⟩ | ⟨c, w, rfl, _, _⟩ <;> simp

theorem UVName.ne_nil {l : List Char} (h : UVName l) : l ≠ [] := by
  rcases h with ⟨c, w, rfl, _, _⟩ | ⟨c, w, rfl, _, _⟩ <;> simp

theorem lexNumeral_name {l : List Char} (h : SymName l ∨ UVName l) (rest : List Char) : lexNumeral (l ++ rest) = none := by
  rcases h with h | h
  · obtain ⟨ch, w, ew, h1, h2, h3⟩ := symName_head h
    rw [ew]; exact lexInteger_none_of_head ch _ h1 h2 h3
  · obtain ⟨ch, w, ew, h1, h2, h3⟩ := uvName_head h
    rw [ew]; exact lexInteger_none_of_head ch _ h1 h2 h3

/-- **Parsing the printed text of a general term returns the term.** -/
theorem gtermL_printL (g : GTerm) (hg : GTerm.WF g) (rest : List Char) (hr : GFollow rest) :
    gtermL (GTerm.printL g ++ rest) = some (g, rest) := by
  obtain ⟨hne, hdollar, hstop⟩ := hr
  have hnoid := hne.noId
  cases g with
  | fc c =>
    have e : GTerm.printL (.fc c) ++ rest = c.toList ++ '$' :: 'g' :: rest := by simp [GTerm.printL]
    rw [e]
    simp only [gtermL, lexFnConst_hit lexSortG 'g' c.toList rest hg (lexSortG_hit rest hnoid), String.ofList_toList]
  | int t =>
    have h1 := lexFnConstG_iterm t hg rest
    have h2 := itermL_printL t hg rest hnoid hstop (2 * (ITerm.printL t ++ rest).length + 1) (by omega)
    simp only [GTerm.printL, gtermL, h1, h2]
  | symb st =>
    cases st with
    | sym s =>
      have hs : SymName s.toList := hg
      have e : GTerm.printL (.symb (.sym s)) ++ rest = s.toList ++ rest := rfl
      rw [e]
      have a1 : lexFnConst lexSortG (s.toList ++ rest) = none := lexFnConst_plain _ _ _ hs hne hdollar
      have a2 : ∀ f, itermL f (s.toList ++ rest) = none :=
        itermL_fail _ (skip_of_startsSolid (hs.startsSolid.append rest))
          (name_head_solid_not_minus hs.idChars hs.startsSolid rest) (lexNumeral_name (Or.inl hs) rest)
          (lexFnConst_plain _ _ _ hs hne hdollar) (lexIntVar_none_of_uvar _ (lexUVar_symName _ _ hs))
          (name_not_paren hs.idChars (SymName.ne_nil hs) rest)
      have a3 : lexFnConst lexSortS (s.toList ++ rest) = none := lexFnConst_plain _ _ _ hs hne hdollar
      simp only [gtermL, a1, a2, stermL, a3, lexSymConst_append s.toList rest hs hne, String.ofList_toList]
    | fc c =>
      have hs : SymName c.toList := hg
      have e : GTerm.printL (.symb (.fc c)) ++ rest = c.toList ++ '$' :: 's' :: rest := by simp [GTerm.printL, STerm.printL]
      rw [e]
      have a1 : lexFnConst lexSortG (c.toList ++ '$' :: 's' :: rest) = none :=
        lexFnConst_miss_sort lexSortG 's' c.toList rest hs (lexSortWord_miss 'g' "eneral" 's' rest (by decide))
      have a2 : ∀ f, itermL f (c.toList ++ '$' :: 's' :: rest) = none :=
        itermL_fail _ (skip_of_startsSolid (hs.startsSolid.append _))
          (name_head_solid_not_minus hs.idChars hs.startsSolid _) (lexNumeral_name (Or.inl hs) _)
          (lexFnConst_miss_sort lexSortI 's' c.toList rest hs (lexSortWord_miss 'i' "nteger" 's' rest (by decide)))
          (lexIntVar_none_of_uvar _ (lexUVar_symName _ _ hs))
          (name_not_paren hs.idChars (SymName.ne_nil hs) _)
      simp only [gtermL, a1, a2, stermL, lexFnConst_hit lexSortS 's' c.toList rest hs (lexSortS_hit rest hnoid),
        String.ofList_toList]
    | var v =>
      have hs : UVName v.toList := hg
      have e : GTerm.printL (.symb (.var v)) ++ rest = v.toList ++ '$' :: 's' :: rest := by simp [GTerm.printL, STerm.printL]
      rw [e]
      have hsym : lexSymConst (v.toList ++ '$' :: 's' :: rest) = none := lexSymConst_uvName _ _ hs
      have huv := lexUVar_append v.toList ('$' :: 's' :: rest) hs (noId_cons _ (by decide))
      have a1 : lexFnConst lexSortG (v.toList ++ '$' :: 's' :: rest) = none := lexFnConst_none_of_symConst _ _ hsym
      have hiv : lexIntVar (v.toList ++ '$' :: 's' :: rest) = none := by
        have s1 : lexSortI ('s' :: rest) = none := lexSortWord_miss 'i' "nteger" 's' rest (by decide)
        have s2 : lexSort ('s' :: rest) = some (.symbol, rest) := by
          have g0 : lexSortG ('s' :: rest) = none := lexSortWord_miss 'g' "eneral" 's' rest (by decide)
          simp only [lexSort, g0, s1, lexSortS_hit rest hnoid]
        simp [lexIntVar, huv, s1, s2]
      have a2 : ∀ f, itermL f (v.toList ++ '$' :: 's' :: rest) = none :=
        itermL_fail _ (skip_of_startsSolid ((UVName.startsSolid hs).append _))
          (name_head_solid_not_minus hs.all_id (UVName.startsSolid hs) _) (lexNumeral_name (Or.inr hs) _)
          (lexFnConst_none_of_symConst _ _ hsym) hiv (name_not_paren hs.all_id hs.ne_nil _)
      have a3 : lexFnConst lexSortS (v.toList ++ '$' :: 's' :: rest) = none := lexFnConst_none_of_symConst _ _ hsym
      have a4 : lexSymVar (v.toList ++ '$' :: 's' :: rest) = some (v.toList, rest) := by
        simp [lexSymVar, huv, lexSortS_hit rest hnoid]
      simp only [gtermL, a1, a2, stermL, a3, hsym, a4, String.ofList_toList]
  | var v =>
    have hs : UVName v.toList := hg
    have e : GTerm.printL (.var v) ++ rest = v.toList ++ rest := rfl
    rw [e]
    have hsym : lexSymConst (v.toList ++ rest) = none := lexSymConst_uvName _ _ hs
    have huv := lexUVar_append v.toList rest hs hnoid
    have hnd : ∀ (α : Type) (a b : α) (x : List Char), (match (some (x, rest) : Option (List Char × List Char)) with
        | some (_, '$' :: _) => a | _ => b) = b := by
      intro α a b x
      split
      · rename_i y r heq
        injection heq with heq; injection heq with _ e2
        exact absurd e2 (hdollar r)
      · rfl
    have hiv : lexIntVar (v.toList ++ rest) = none := by
      unfold lexIntVar; rw [huv]
      split
      · rename_i x r heq
        injection heq with heq; injection heq with _ e2
        exact absurd e2 (hdollar r)
      · rfl
    have hsv : lexSymVar (v.toList ++ rest) = none := by
      unfold lexSymVar; rw [huv]
      split
      · rename_i x r heq
        injection heq with heq; injection heq with _ e2
        exact absurd e2 (hdollar r)
      · rfl
    have hgv : lexGenVar (v.toList ++ rest) = some (v.toList, rest) := by
      unfold lexGenVar; rw [huv]
      split
      · rename_i x r heq
        injection heq with heq; injection heq with _ e2
        exact absurd e2 (hdollar r)
      · rename_i x r _ heq
        injection heq with heq; injection heq with e1 e2
        subst e1; subst e2; rfl
      · rename_i heq; cases heq
    have a1 : lexFnConst lexSortG (v.toList ++ rest) = none := lexFnConst_none_of_symConst _ _ hsym
    have a2 : ∀ f, itermL f (v.toList ++ rest) = none :=
      itermL_fail _ (skip_of_startsSolid ((UVName.startsSolid hs).append _))
        (name_head_solid_not_minus hs.all_id (UVName.startsSolid hs) _) (lexNumeral_name (Or.inr hs) _)
        (lexFnConst_none_of_symConst _ _ hsym) hiv (name_not_paren hs.all_id hs.ne_nil _)
    have a3 : lexFnConst lexSortS (v.toList ++ rest) = none := lexFnConst_none_of_symConst _ _ hsym
    simp only [gtermL, a1, a2, stermL, a3, hsym, hsv, hgv, String.ofList_toList]
  | inf =>
    have hsym : ∀ X, lexSymConst ('#' :: X) = none := fun X => lexSymConst_none_of_head '#' X (by decide) (by decide)
    have huv : ∀ X, lexUVar ('#' :: X) = none := fun X => lexUVar_none_of_head '#' X (by decide) (by decide)
    have a2 : ∀ f, itermL f ('#' :: 'i' :: 'n' :: 'f' :: rest) = none :=
      itermL_fail _ (skip_cons_solid _ ⟨by decide, by decide⟩) (lexNegative_of_head _ ⟨by decide, by decide⟩ (by decide))
        (by simp [lexNumeral, lexInteger, isNonzeroDigit]) (lexFnConst_none_of_symConst _ _ (hsym _))
        (lexIntVar_none_of_uvar _ (huv _)) (fun r e => by injection e with e1 _; exact absurd e1 (by decide))
    simp only [GTerm.printL, List.cons_append, List.nil_append, gtermL, lexFnConst_none_of_symConst _ _ (hsym _), a2, stermL, hsym,
      lexSymVar, lexGenVar, huv]
    simp [stripPrefix]
  | sup =>
    have hsym : ∀ X, lexSymConst ('#' :: X) = none := fun X => lexSymConst_none_of_head '#' X (by decide) (by decide)
    have huv : ∀ X, lexUVar ('#' :: X) = none := fun X => lexUVar_none_of_head '#' X (by decide) (by decide)
    have a2 : ∀ f, itermL f ('#' :: 's' :: 'u' :: 'p' :: rest) = none :=
      itermL_fail _ (skip_cons_solid _ ⟨by decide, by decide⟩) (lexNegative_of_head _ ⟨by decide, by decide⟩ (by decide))
        (by simp [lexNumeral, lexInteger, isNonzeroDigit]) (lexFnConst_none_of_symConst _ _ (hsym _))
        (lexIntVar_none_of_uvar _ (huv _)) (fun r e => by injection e with e1 _; exact absurd e1 (by decide))
    simp only [GTerm.printL, List.cons_append, List.nil_append, gtermL, lexFnConst_none_of_symConst _ _ (hsym _), a2, stermL, hsym,
      lexSymVar, lexGenVar, huv]
    simp [stripPrefix]

theorem GTerm.printL_startsSolid (g : GTerm) (hg : GTerm.WF g) : StartsSolid (GTerm.printL g) := by
  cases g with
  | inf => exact ⟨'#', _, rfl, by decide, by decide⟩
  | sup => exact ⟨'#', _, rfl, by decide, by decide⟩
  | fc c => exact (SymName.startsSolid hg).append _
  | var v => exact UVName.startsSolid hg
  | int t => exact ITerm.printL_startsSolid t hg
  | symb st =>
    cases st with
    | sym s => exact SymName.startsSolid hg
    | fc c => exact (SymName.startsSolid hg).append _
    | var v => exact (UVName.startsSolid hg).append _

end Anthem.Fol
