/-
  Round trip for integer terms of the target language at the character level (the analogue of
  Proofs/AspTermRT for `integer_term`).
-/
import AnthemModel.Proofs.FolLex
import AnthemModel.Proofs.FolPrattInv
import AnthemModel.Proofs.AspTermRT
namespace Anthem.Fol
open Anthem.Asp (isWs skip stripPrefix isIdChar isNonzeroDigit SymName NoId StopsAt Solid StartsSolid
  takeWhile_append_stop noId_cons skip_cons_solid skip_of_startsSolid lower_idChar lower_solid upper_solid
  parenLL parenIf_toList parenLL_startsSolid lexInteger lexInteger_append intL_head intL_nonneg intL_neg
  digit_solid upper_not_nzdigit lower_not_nzdigit skip_space)

/-! ## printers -/

def IOp.printL : IOp → List Char
  | .add => [' ', '+', ' ']
  | .sub => [' ', '-', ' ']
  | .mul => [' ', '*', ' ']

def ITerm.printL : ITerm → List Char
  | .num n => (toString n).toList
  | .fc c => c.toList ++ ['$', 'i']
  | .var v => v.toList ++ ['$', 'i']
  | .neg a => '-' :: parenLL (0 < a.prec) (ITerm.printL a)
  | .bin op l r =>
    parenLL ((ITerm.bin op l r).prec < l.prec) (ITerm.printL l) ++ IOp.printL op ++
      parenLL ((ITerm.bin op l r).prec < r.prec || (ITerm.bin op l r).prec = r.prec) (ITerm.printL r)

theorem IOp.print_toList (o : IOp) : o.print.toList = IOp.printL o := by cases o <;> rfl

theorem ITerm.print_toList : ∀ t : ITerm, t.print.toList = ITerm.printL t
  | .num n => by simp [ITerm.print, ITerm.printL]
  | .fc c => by simp [ITerm.print, ITerm.printL, String.toList_append]
  | .var v => by simp [ITerm.print, ITerm.printL, String.toList_append]
  | .neg a => by
    simp only [ITerm.print, ITerm.printL, String.toList_append, parenIf_toList, ITerm.print_toList a]
    rfl
  | .bin op l r => by
    simp only [ITerm.print, ITerm.printL, String.toList_append, parenIf_toList, ITerm.print_toList l,
      ITerm.print_toList r, IOp.print_toList]

def ITerm.WF : ITerm → Prop
  | .num _ => True
  | .fc c => SymName c.toList
  | .var v => UVName v.toList
  | .neg a => ITerm.WF a
  | .bin _ l r => ITerm.WF l ∧ ITerm.WF r

/-! ## shapes -/

theorem UVName.startsSolid {l : List Char} (h : UVName l) : StartsSolid l := by
  rcases h with ⟨c, w, rfl, hc, _⟩ | ⟨c, w, rfl, _, _⟩
  · exact ⟨c, w, rfl, upper_solid hc⟩
  · exact ⟨'_', c :: w, rfl, by decide, by decide⟩

theorem ITerm.printL_startsSolid : ∀ t : ITerm, ITerm.WF t → StartsSolid (ITerm.printL t)
  | .num n, _ => by
    obtain ⟨c, r, hcr, hc⟩ := intL_head n
    refine ⟨c, r, hcr, ?_⟩
    rcases hc with hc | rfl
    · exact digit_solid hc
    · exact ⟨by decide, by decide⟩
  | .fc c, h => (SymName.startsSolid h).append _
  | .var v, h => (UVName.startsSolid h).append _
  | .neg a, _ => ⟨'-', _, rfl, by decide, by decide⟩
  | .bin op l r, h => by
    simp only [ITerm.printL, List.append_assoc]
    exact (parenLL_startsSolid _ (ITerm.printL_startsSolid l h.1)).append _

/-- the first character of a name is no non-zero digit -/
theorem symName_head {l : List Char} (h : SymName l) : ∃ c r, l = c :: r ∧ isNonzeroDigit c = false ∧ c ≠ '-' ∧ c ≠ '0' := by
  rcases h with ⟨c, w, rfl, hc, _⟩ | ⟨c, w, rfl, _, _⟩
  · exact ⟨c, w, rfl, lower_not_nzdigit hc, by intro e; subst e; revert hc; decide, by intro e; subst e; revert hc; decide⟩
  · exact ⟨'_', _, rfl, by decide, by decide, by decide⟩

theorem uvName_head {l : List Char} (h : UVName l) : ∃ c r, l = c :: r ∧ isNonzeroDigit c = false ∧ c ≠ '-' ∧ c ≠ '0' := by
  rcases h with ⟨c, w, rfl, hc, _⟩ | ⟨c, w, rfl, _, _⟩
  · exact ⟨c, w, rfl, upper_not_nzdigit hc, by intro e; subst e; revert hc; decide, by intro e; subst e; revert hc; decide⟩
  · exact ⟨'_', _, rfl, by decide, by decide, by decide⟩

theorem lexInteger_none_of_head (c : Char) (r : List Char) (h1 : isNonzeroDigit c = false) (h2 : c ≠ '-') (h3 : c ≠ '0') :
    lexInteger (c :: r) = none := by
  unfold lexInteger
  split
  · rename_i heq; injection heq with e _; exact absurd e h3
  · rename_i heq; injection heq with e _; exact absurd e h2
  · rename_i c' r' _ _ heq
    injection heq with e1 _
    subst e1; simp [h1]
  · rename_i heq; cases heq

theorem lexInteger_minus_printL (a : ITerm) (ha : ITerm.WF a) (hp : ¬ 0 < a.prec) (rest : List Char) :
    lexInteger ('-' :: (ITerm.printL a ++ rest)) = none := by
  have key : ∀ (c : Char) (r : List Char), isNonzeroDigit c = false → lexInteger ('-' :: c :: r) = none := by
    intro c r h; simp [lexInteger, h]
  cases a with
  | num n =>
    cases n with
    | ofNat m =>
      cases m with
      | zero => simp only [ITerm.printL]; rw [intL_nonneg]; exact key '0' _ (by decide)
      | succ m => simp [ITerm.prec] at hp; omega
    | negSucc m => simp only [ITerm.printL]; rw [intL_neg]; exact key '-' _ (by decide)
  | fc c =>
    obtain ⟨ch, r, e, h1, _, _⟩ := symName_head ha
    simp only [ITerm.printL, e, List.cons_append]; exact key ch _ h1
  | var v =>
    obtain ⟨ch, r, e, h1, _, _⟩ := uvName_head ha
    simp only [ITerm.printL, e, List.cons_append]; exact key ch _ h1
  | neg b => exact key '-' _ (by decide)
  | bin op l r => rw [ibin_prec] at hp; have := IOp.bp_le op; omega

/-! ## the pieces of the integer-term parser -/

def iseqT (f : Nat) (cs : List Char) : Option (List ITok × List Char) :=
  match ioperand f cs with
  | some (ts, r) => some (ts ++ (itailT f r).1, (itailT f r).2)
  | none => none

theorem itermL_succ (f : Nat) (cs : List Char) :
    itermL (f + 1) cs = match iseqT f cs with
      | some (ts, r') => (match ipratt ts with | some t => some (t, r') | none => none)
      | none => none := by
  simp only [itermL, iseqT]
  cases ioperand f cs with
  | none => rfl
  | some x => rfl

theorem itailT_succ (f : Nat) (cs : List Char) :
    itailT (f + 1) cs = match lexIOp (skip cs) with
      | some (o, r) => (match iseqT f (skip r) with
        | some (ts, r'') => (.op o :: ts, r'')
        | none => ([], cs))
      | none => ([], cs) := by
  simp only [itailT, iseqT]
  cases lexIOp (skip cs) with
  | none => rfl
  | some x =>
    obtain ⟨o, r⟩ := x
    simp only
    cases ioperand f (skip r) with
    | none => rfl
    | some y => rfl

theorem lexNegative_of_numeral {cs : List Char} {x : Int × List Char} (h : lexNumeral cs = some x) :
    lexNegative cs = none := by simp [lexNegative, h]

theorem lexNegative_of_head {c : Char} (r : List Char) (hs : Solid c) (hne : c ≠ '-') :
    lexNegative (c :: r) = none := by
  unfold lexNegative
  cases lexNumeral (c :: r) with
  | some _ => rfl
  | none =>
    simp only [skip_cons_solid r hs]
    split
    · rename_i heq; injection heq with e _; exact absurd e hne
    · rfl

theorem lexNegative_minus (X : List Char) (h : lexNumeral ('-' :: X) = none) : lexNegative ('-' :: X) = some X := by
  simp [lexNegative, h, skip_cons_solid X (show Solid '-' from ⟨by decide, by decide⟩)]

theorem lexNegs_none (n : Nat) (first : Bool) (cs : List Char)
    (h : lexNegative (if first then cs else skip cs) = none) : lexNegs n first cs = ([], cs) := by
  cases n with
  | zero => rfl
  | succ n => simp [lexNegs, h]

theorem lexNegs_first {cs : List Char} (h : skip cs = cs) (n : Nat) : lexNegs n true cs = lexNegs n false cs := by
  cases n with
  | zero => rfl
  | succ n => simp [lexNegs, h]

theorem lexNegs_succ_some (n : Nat) (first : Bool) (cs r : List Char)
    (h : lexNegative (if first then cs else skip cs) = some r) :
    lexNegs (n + 1) first cs = (.neg :: (lexNegs n false r).1, (lexNegs n false r).2) := by
  simp [lexNegs, h]

theorem ioperand_num (f : Nat) (cs : List Char) (hs : skip cs = cs) (hn : lexNegative cs = none)
    {n : Int} {r' : List Char} (h : lexNumeral cs = some (n, r')) :
    ioperand (f + 1) cs = some ([.prim (.num n)], r') := by
  simp only [ioperand, lexNegs_none (cs.length + 1) true cs (by simpa using hn), hs, List.nil_append, h]

theorem ioperand_fc (f : Nat) (cs : List Char) (hs : skip cs = cs) (hn : lexNegative cs = none)
    {c r' : List Char} (h0 : lexNumeral cs = none) (h : lexFnConst lexSortI cs = some (c, r')) :
    ioperand (f + 1) cs = some ([.prim (.fc (String.ofList c))], r') := by
  simp only [ioperand, lexNegs_none (cs.length + 1) true cs (by simpa using hn), hs, List.nil_append, h0, h]

theorem ioperand_var (f : Nat) (cs : List Char) (hs : skip cs = cs) (hn : lexNegative cs = none)
    {x r' : List Char} (h0 : lexNumeral cs = none) (h1 : lexFnConst lexSortI cs = none)
    (h : lexIntVar cs = some (x, r')) :
    ioperand (f + 1) cs = some ([.prim (.var (String.ofList x))], r') := by
  simp only [ioperand, lexNegs_none (cs.length + 1) true cs (by simpa using hn), hs, List.nil_append, h0, h1, h]

theorem lexNumeral_paren (r : List Char) : lexNumeral ('(' :: r) = none := by
  simp [lexNumeral, lexInteger, isNonzeroDigit]

theorem lexFnConst_paren (sl : List Char → Option (List Char)) (r : List Char) : lexFnConst sl ('(' :: r) = none :=
  lexFnConst_none_of_symConst sl _ (lexSymConst_none_of_head '(' r (by decide) (by decide))

theorem lexIntVar_none_of_uvar (cs : List Char) (h : lexUVar cs = none) : lexIntVar cs = none := by
  simp [lexIntVar, h]

theorem ioperand_paren (f : Nat) (r1 r2 r3 : List Char) (t : ITerm)
    (h1 : itermL f (skip r1) = some (t, r2)) (h2 : skip r2 = ')' :: r3) :
    ioperand (f + 1) ('(' :: r1) = some ([.prim t], r3) := by
  have hs : skip ('(' :: r1) = '(' :: r1 := skip_cons_solid r1 ⟨by decide, by decide⟩
  have hn : lexNegative ('(' :: r1) = none := lexNegative_of_head r1 ⟨by decide, by decide⟩ (by decide)
  have hv : lexIntVar ('(' :: r1) = none := lexIntVar_none_of_uvar _ (lexUVar_none_of_head '(' r1 (by decide) (by decide))
  simp only [ioperand, lexNegs_none (('(' :: r1).length + 1) true ('(' :: r1) (by simpa using hn), hs,
    List.nil_append, lexNumeral_paren, lexFnConst_paren, hv, h1, h2]

theorem ioperand_minus (f : Nat) (X : List Char) (hX : skip X = X) (hi : lexNumeral ('-' :: X) = none) :
    ioperand (f + 1) ('-' :: X) = (ioperand (f + 1) X).map (fun p => (.neg :: p.1, p.2)) := by
  have h1 : lexNegs (('-' :: X).length + 1) true ('-' :: X) =
      (.neg :: (lexNegs (X.length + 1) true X).1, (lexNegs (X.length + 1) true X).2) := by
    rw [lexNegs_first hX]
    exact lexNegs_succ_some _ true _ X (by simpa using lexNegative_minus X hi)
  simp only [ioperand, h1, List.cons_append]
  cases lexNumeral (skip (lexNegs (X.length + 1) true X).2) with
  | some x => rfl
  | none =>
    simp only
    cases lexFnConst lexSortI (skip (lexNegs (X.length + 1) true X).2) with
    | some x => rfl
    | none =>
      simp only
      cases lexIntVar (skip (lexNegs (X.length + 1) true X).2) with
      | some x => rfl
      | none =>
        simp only
        split
        · rename_i r1 _
          cases itermL f (skip r1) with
          | none => rfl
          | some y =>
            simp only
            split <;> rfl
        · rfl

theorem iseqT_minus (f : Nat) (X : List Char) (hX : skip X = X) (hi : lexNumeral ('-' :: X) = none) :
    iseqT (f + 1) ('-' :: X) = (iseqT (f + 1) X).map (fun p => (.neg :: p.1, p.2)) := by
  simp only [iseqT, ioperand_minus f X hX hi]
  cases ioperand (f + 1) X with
  | none => rfl
  | some x => rfl

/-- an operand never starts with `>` (what follows the `-` of `->`) -/
theorem ioperand_gt (f : Nat) (r : List Char) : ioperand f ('>' :: r) = none := by
  cases f with
  | zero => rfl
  | succ f =>
    have hs : skip ('>' :: r) = '>' :: r := skip_cons_solid r ⟨by decide, by decide⟩
    have hn : lexNegative ('>' :: r) = none := lexNegative_of_head r ⟨by decide, by decide⟩ (by decide)
    have h0 : lexNumeral ('>' :: r) = none := by simp [lexNumeral, lexInteger, isNonzeroDigit]
    have h1 : lexFnConst lexSortI ('>' :: r) = none :=
      lexFnConst_none_of_symConst _ _ (lexSymConst_none_of_head '>' r (by decide) (by decide))
    have hv : lexIntVar ('>' :: r) = none := lexIntVar_none_of_uvar _ (lexUVar_none_of_head '>' r (by decide) (by decide))
    simp only [ioperand, lexNegs_none (('>' :: r).length + 1) true ('>' :: r) (by simpa using hn), hs, h0, h1, hv]
    rfl

/-- what may follow a complete integer term: no arithmetic operator - or the `-` of `->` -/
def ITailStop (rest : List Char) : Prop :=
  lexIOp (skip rest) = none ∨ ∃ r, skip rest = '-' :: '>' :: r

theorem itailT_stop (f : Nat) (rest : List Char) (h : ITailStop rest) : itailT f rest = ([], rest) := by
  cases f with
  | zero => rfl
  | succ f =>
    rw [itailT_succ]
    rcases h with h | ⟨r, h⟩
    · rw [h]
    · rw [h]
      simp only [lexIOp, iseqT, skip_cons_solid r (show Solid '>' from ⟨by decide, by decide⟩), ioperand_gt]

/-! ## the main induction -/

def ISeqOK (t : ITerm) : Prop :=
  ∀ (rest : List Char) (toks' : List ITok) (r' : List Char), NoId rest →
    (∀ f, 2 * rest.length < f → itailT f rest = (toks', r')) →
    ∀ f, 2 * (ITerm.printL t ++ rest).length < f → iseqT f (ITerm.printL t ++ rest) = some (iflat t ++ toks', r')

theorem paren_close_stop (rest : List Char) : ITailStop (')' :: rest) := by
  left; rw [skip_cons_solid rest ⟨by decide, by decide⟩]; rfl

theorem itermL_of_iseqOK {t : ITerm} (hT : ISeqOK t) (rest : List Char) (f : Nat)
    (hf : 2 * (ITerm.printL t ++ ')' :: rest).length < f) :
    itermL (f + 1) (ITerm.printL t ++ ')' :: rest) = some (t, ')' :: rest) := by
  rw [itermL_succ, hT (')' :: rest) [] (')' :: rest) (noId_cons rest (by decide))
    (fun f' _ => itailT_stop f' _ (paren_close_stop rest)) f hf]
  simp only [List.append_nil, ipratt_flat_eq]

theorem iseq_paren {t : ITerm} (hT : ISeqOK t) (ht : ITerm.WF t) (rest : List Char) (toks' : List ITok) (r' : List Char)
    (htail : ∀ f, 2 * rest.length < f → itailT f rest = (toks', r'))
    (f : Nat) (hf : 2 * ('(' :: (ITerm.printL t ++ ')' :: rest)).length < f) :
    iseqT f ('(' :: (ITerm.printL t ++ ')' :: rest)) = some (ITok.prim t :: toks', r') := by
  simp only [List.length_cons, List.length_append] at hf
  obtain ⟨f1, rfl⟩ : ∃ f1, f = f1 + 2 := ⟨f - 2, by omega⟩
  have hs : skip (ITerm.printL t ++ ')' :: rest) = ITerm.printL t ++ ')' :: rest :=
    skip_of_startsSolid ((ITerm.printL_startsSolid t ht).append _)
  have h1 : itermL (f1 + 1) (skip (ITerm.printL t ++ ')' :: rest)) = some (t, ')' :: rest) := by
    rw [hs]
    exact itermL_of_iseqOK hT rest f1 (by simp only [List.length_append, List.length_cons]; omega)
  have hop := ioperand_paren (f1 + 1) (ITerm.printL t ++ ')' :: rest) (')' :: rest) rest t h1
    (skip_cons_solid rest ⟨by decide, by decide⟩)
  simp only [iseqT, hop, htail (f1 + 1 + 1) (by omega)]
  rfl

def iargL (b : Bool) (t : ITerm) : List Char := parenLL b (ITerm.printL t)
def iflatArg (b : Bool) (t : ITerm) : List ITok := if b then [.prim t] else iflat t

theorem iargL_startsSolid (b : Bool) (t : ITerm) (ht : ITerm.WF t) : StartsSolid (iargL b t) :=
  parenLL_startsSolid b (ITerm.printL_startsSolid t ht)

theorem iseq_arg {t : ITerm} (hT : ISeqOK t) (ht : ITerm.WF t) (b : Bool) (rest : List Char) (toks' : List ITok)
    (r' : List Char) (hr : NoId rest) (htail : ∀ f, 2 * rest.length < f → itailT f rest = (toks', r'))
    (f : Nat) (hf : 2 * (iargL b t ++ rest).length < f) :
    iseqT f (iargL b t ++ rest) = some (iflatArg b t ++ toks', r') := by
  cases b with
  | false => exact hT rest toks' r' hr htail f hf
  | true =>
    have e : iargL true t ++ rest = '(' :: (ITerm.printL t ++ ')' :: rest) := by
      simp [iargL, parenLL]
    rw [e] at hf ⊢
    rw [iseq_paren hT ht rest toks' r' htail f hf]
    rfl

theorem iop_lex (op : IOp) (Y : List Char) (hY : StartsSolid Y) :
    ∃ r, lexIOp (skip (IOp.printL op ++ Y)) = some (op, r) ∧ skip r = Y ∧ r.length ≤ Y.length + 1 := by
  have hsY := skip_of_startsSolid hY
  cases op with
  | add =>
    refine ⟨' ' :: Y, ?_, by rw [skip_space, hsY], by simp⟩
    show lexIOp (skip (' ' :: '+' :: ' ' :: Y)) = _
    rw [skip_space, skip_cons_solid _ ⟨by decide, by decide⟩]; rfl
  | sub =>
    refine ⟨' ' :: Y, ?_, by rw [skip_space, hsY], by simp⟩
    show lexIOp (skip (' ' :: '-' :: ' ' :: Y)) = _
    rw [skip_space, skip_cons_solid _ ⟨by decide, by decide⟩]; rfl
  | mul =>
    refine ⟨' ' :: Y, ?_, by rw [skip_space, hsY], by simp⟩
    show lexIOp (skip (' ' :: '*' :: ' ' :: Y)) = _
    rw [skip_space, skip_cons_solid _ ⟨by decide, by decide⟩]; rfl

theorem IOp.printL_noId (op : IOp) (Y : List Char) : NoId (IOp.printL op ++ Y) := by
  cases op <;> exact noId_cons (c := ' ') _ (by decide)

theorem IOp.printL_length (op : IOp) : 2 ≤ (IOp.printL op).length := by cases op <;> decide

/-- `c$i` / `X$i` in front of a non-identifier character -/
theorem sorted_i_noId (rest : List Char) (hr : NoId rest) : lexSortI ('i' :: rest) = some rest := lexSortI_hit rest hr

theorem iseqOK : ∀ t : ITerm, ITerm.WF t → ISeqOK t := by
  intro t
  induction t with
  | num n =>
    intro _ rest toks' r' hr htail f hf
    obtain ⟨f0, rfl⟩ : ∃ f0, f = f0 + 1 := ⟨f - 1, by omega⟩
    have hsolid := (ITerm.printL_startsSolid (.num n) trivial).append rest
    have hlex : lexNumeral ((toString n).toList ++ rest) = some (n, rest) := lexInteger_append n rest hr.digit
    have hop := ioperand_num f0 ((toString n).toList ++ rest) (skip_of_startsSolid hsolid)
      (lexNegative_of_numeral hlex) hlex
    simp only [ITerm.printL, iseqT, hop, htail (f0 + 1) (by simp only [ITerm.printL, List.length_append] at hf; omega)]
    rfl
  | fc c =>
    intro ht rest toks' r' hr htail f hf
    obtain ⟨f0, rfl⟩ : ∃ f0, f = f0 + 1 := ⟨f - 1, by omega⟩
    have e : ITerm.printL (.fc c) ++ rest = c.toList ++ '$' :: 'i' :: rest := by simp [ITerm.printL]
    rw [e] at hf ⊢
    have hsolid := (SymName.startsSolid ht).append ('$' :: 'i' :: rest)
    obtain ⟨ch, w, ew, h1, h2, h3⟩ := symName_head ht
    have h0 : lexNumeral (c.toList ++ '$' :: 'i' :: rest) = none := by
      rw [ew]; exact lexInteger_none_of_head ch _ h1 h2 h3
    have hn : lexNegative (c.toList ++ '$' :: 'i' :: rest) = none := by
      obtain ⟨c0, r0, e0, hs0⟩ := hsolid
      rw [e0]
      refine lexNegative_of_head _ hs0 ?_
      rw [ew] at e0; simp only [List.cons_append, List.cons.injEq] at e0
      rw [← e0.1]; exact h2
    have hfc := lexFnConst_hit lexSortI 'i' c.toList rest ht (lexSortI_hit rest hr)
    have hop := ioperand_fc f0 _ (skip_of_startsSolid hsolid) hn h0 hfc
    simp only [iseqT, hop, htail (f0 + 1) (by simp only [List.length_append, List.length_cons] at hf; omega),
      String.ofList_toList]
    rfl
  | var v =>
    intro ht rest toks' r' hr htail f hf
    obtain ⟨f0, rfl⟩ : ∃ f0, f = f0 + 1 := ⟨f - 1, by omega⟩
    have e : ITerm.printL (.var v) ++ rest = v.toList ++ '$' :: 'i' :: rest := by simp [ITerm.printL]
    rw [e] at hf ⊢
    have hsolid := (UVName.startsSolid ht).append ('$' :: 'i' :: rest)
    obtain ⟨ch, w, ew, h1, h2, h3⟩ := uvName_head ht
    have h0 : lexNumeral (v.toList ++ '$' :: 'i' :: rest) = none := by
      rw [ew]; exact lexInteger_none_of_head ch _ h1 h2 h3
    have hn : lexNegative (v.toList ++ '$' :: 'i' :: rest) = none := by
      obtain ⟨c0, r0, e0, hs0⟩ := hsolid
      rw [e0]
      refine lexNegative_of_head _ hs0 ?_
      rw [ew] at e0; simp only [List.cons_append, List.cons.injEq] at e0
      rw [← e0.1]; exact h2
    have h1' : lexFnConst lexSortI (v.toList ++ '$' :: 'i' :: rest) = none :=
      lexFnConst_none_of_symConst _ _ (lexSymConst_uvName v.toList _ ht)
    have hv : lexIntVar (v.toList ++ '$' :: 'i' :: rest) = some (v.toList, rest) := by
      simp [lexIntVar, lexUVar_append v.toList ('$' :: 'i' :: rest) ht (noId_cons _ (by decide)), lexSortI_hit rest hr]
    have hop := ioperand_var f0 _ (skip_of_startsSolid hsolid) hn h0 h1' hv
    simp only [iseqT, hop, htail (f0 + 1) (by simp only [List.length_append, List.length_cons] at hf; omega),
      String.ofList_toList]
    rfl
  | neg a iha =>
    intro ht rest toks' r' hr htail f hf
    have hTa := iha ht
    obtain ⟨f0, rfl⟩ : ∃ f0, f = f0 + 1 := ⟨f - 1, by omega⟩
    simp only [ITerm.printL, List.cons_append, List.length_cons] at hf ⊢
    by_cases hp : 0 < a.prec
    · have e : parenLL (decide (0 < a.prec)) (ITerm.printL a) ++ rest = '(' :: (ITerm.printL a ++ ')' :: rest) := by
        simp [hp, parenLL]
      rw [e] at hf ⊢
      rw [iseqT_minus f0 _ (skip_cons_solid _ ⟨by decide, by decide⟩) (by simp [lexNumeral, lexInteger, isNonzeroDigit]),
        iseq_paren hTa ht rest toks' r' htail (f0 + 1) (by omega)]
      simp [iflat, hp]
    · have e : parenLL (decide (0 < a.prec)) (ITerm.printL a) ++ rest = ITerm.printL a ++ rest := by
        simp [hp, parenLL]
      rw [e] at hf ⊢
      rw [iseqT_minus f0 _ (skip_of_startsSolid ((ITerm.printL_startsSolid a ht).append rest))
          (lexInteger_minus_printL a ht hp rest),
        hTa rest toks' r' hr htail (f0 + 1) (by omega)]
      simp [iflat, hp]
  | bin op l r ihl ihr =>
    intro ht rest toks' r' hr htail f hf
    have hTl := ihl ht.1
    have hTr := ihr ht.2
    have hright := iseq_arg hTr ht.2 ((ITerm.bin op l r).prec < r.prec || (ITerm.bin op l r).prec = r.prec)
      rest toks' r' hr htail
    have htail_l : ∀ f, 2 * (IOp.printL op ++ (iargL ((ITerm.bin op l r).prec < r.prec || (ITerm.bin op l r).prec = r.prec) r ++ rest)).length < f →
        itailT f (IOp.printL op ++ (iargL ((ITerm.bin op l r).prec < r.prec || (ITerm.bin op l r).prec = r.prec) r ++ rest)) =
          (.op op :: (iflatArg ((ITerm.bin op l r).prec < r.prec || (ITerm.bin op l r).prec = r.prec) r ++ toks'), r') := by
      intro f hf2
      obtain ⟨f0, rfl⟩ : ∃ f0, f = f0 + 1 := ⟨f - 1, by omega⟩
      obtain ⟨rr, h1, h2, h3⟩ := iop_lex op _ ((iargL_startsSolid _ r ht.2).append rest)
      have hlen := IOp.printL_length op
      simp only [List.length_append] at hf2 h3
      rw [itailT_succ, h1]
      simp only [h2]
      rw [hright f0 (by simp only [List.length_append]; omega)]
    have hleft := iseq_arg hTl ht.1 ((ITerm.bin op l r).prec < l.prec) _ _ r' (IOp.printL_noId op _) htail_l f
      (by simpa [ITerm.printL, iargL, List.append_assoc] using hf)
    have e : ITerm.printL (.bin op l r) ++ rest =
        iargL ((ITerm.bin op l r).prec < l.prec) l ++ (IOp.printL op ++
          (iargL ((ITerm.bin op l r).prec < r.prec || (ITerm.bin op l r).prec = r.prec) r ++ rest)) := by
      simp [ITerm.printL, iargL, List.append_assoc]
    rw [e, hleft]
    simp [iflat, iflatArg, List.append_assoc]

/-- **Parsing the printed text of an integer term returns the term.** -/
theorem itermL_printL (t : ITerm) (ht : ITerm.WF t) (rest : List Char) (hr : NoId rest)
    (hb : ITailStop rest) (f : Nat) (hf : 2 * (ITerm.printL t ++ rest).length < f) :
    itermL (f + 1) (ITerm.printL t ++ rest) = some (t, rest) := by
  rw [itermL_succ, iseqOK t ht rest [] rest hr (fun f' _ => itailT_stop f' rest hb) f hf]
  simp only [List.append_nil, ipratt_flat_eq]

end Anthem.Fol
