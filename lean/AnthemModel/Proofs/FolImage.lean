/-
  The image of the target-language parser, part 1: every tree the parser returns has names of
  the grammar's lexical shape, a guard in every comparison and a variable in every quantifier.
-/
import AnthemModel.Proofs.FolTheoryRT
import AnthemModel.Proofs.AspImage
namespace Anthem.Fol
open Anthem.Asp (isWs skip skipAux stripPrefix isIdChar SymName NoId Solid StartsSolid takeWhile_all)

/-- names have the grammar's shape, comparisons have a guard, quantifiers a variable -/
def Formula.WF : Formula → Prop
  | .atomic a => AtomicF.WF a
  | .not f => Formula.WF f
  | .quant _ vs f => vs ≠ [] ∧ (∀ v ∈ vs, Var.WF v) ∧ Formula.WF f
  | .bin _ l r => Formula.WF l ∧ Formula.WF r

/-! ## lexers -/

theorem lexSymConst_shape {cs l r : List Char} (h : lexSymConst cs = some (l, r)) : SymName l := by
  unfold lexSymConst at h
  split at h
  · cases h
  · split at h
    · rename_i c r' _
      split at h
      · rename_i hc
        injection h with h; injection h with h1 _
        subst h1
        exact Or.inr ⟨c, _, rfl, hc, takeWhile_all _ _⟩
      · cases h
    · rename_i c r' _ _
      split at h
      · rename_i hc
        injection h with h; injection h with h1 _
        subst h1
        exact Or.inl ⟨c, _, rfl, hc, takeWhile_all _ _⟩
      · cases h
    · cases h

theorem lexUVar_shape {cs l r : List Char} (h : lexUVar cs = some (l, r)) : UVName l := by
  unfold lexUVar at h
  split at h
  · rename_i c r'
    split at h
    · rename_i hc
      injection h with h; injection h with h1 _
      subst h1
      exact Or.inr ⟨c, _, rfl, hc, takeWhile_all _ _⟩
    · cases h
  · rename_i c r' _
    split at h
    · rename_i hc
      injection h with h; injection h with h1 _
      subst h1
      exact Or.inl ⟨c, _, rfl, hc, takeWhile_all _ _⟩
    · cases h
  · cases h

theorem lexFnConst_shape {sl : List Char → Option (List Char)} {cs l r : List Char}
    (h : lexFnConst sl cs = some (l, r)) : SymName l := by
  unfold lexFnConst at h
  split at h
  · rename_i s r' hs
    split at h
    · injection h with h; injection h with h1 _; subst h1; exact lexSymConst_shape hs
    · cases h
  · cases h

theorem lexIntVar_shape {cs l r : List Char} (h : lexIntVar cs = some (l, r)) : UVName l := by
  unfold lexIntVar at h
  split at h
  · rename_i x r' hx
    split at h
    · injection h with h; injection h with h1 _; subst h1; exact lexUVar_shape hx
    · split at h
      · cases h
      · injection h with h; injection h with h1 _; subst h1; exact lexUVar_shape hx
  · cases h

theorem lexSymVar_shape {cs l r : List Char} (h : lexSymVar cs = some (l, r)) : UVName l := by
  unfold lexSymVar at h
  split at h
  · rename_i x r' hx
    split at h
    · injection h with h; injection h with h1 _; subst h1; exact lexUVar_shape hx
    · cases h
  · cases h

theorem lexGenVar_shape {cs l r : List Char} (h : lexGenVar cs = some (l, r)) : UVName l := by
  unfold lexGenVar at h
  split at h
  · rename_i x r' hx
    split at h
    · injection h with h; injection h with h1 _; subst h1; exact lexUVar_shape hx
    · injection h with h; injection h with h1 _; subst h1; exact lexUVar_shape hx
  · rename_i x r' _ hx
    injection h with h; injection h with h1 _; subst h1; exact lexUVar_shape hx
  · cases h

theorem lexVariable_shape {cs : List Char} {v : Var} {r : List Char} (h : lexVariable cs = some (v, r)) : Var.WF v := by
  unfold lexVariable at h
  split at h
  · rename_i x r' hx
    injection h with h; injection h with h1 _; subst h1
    simp only [Var.WF, String.toList_ofList]; exact lexIntVar_shape hx
  · split at h
    · rename_i x r' hx
      injection h with h; injection h with h1 _; subst h1
      simp only [Var.WF, String.toList_ofList]; exact lexSymVar_shape hx
    · split at h
      · rename_i x r' hx
        injection h with h; injection h with h1 _; subst h1
        simp only [Var.WF, String.toList_ofList]; exact lexGenVar_shape hx
      · cases h

/-! ## the Pratt parser for integer terms keeps shapes -/

def ITokShaped (ts : List ITok) : Prop := ∀ t, ITok.prim t ∈ ts → ITerm.WF t

theorem ITokShaped.tail {a : ITok} {ts : List ITok} (h : ITokShaped (a :: ts)) : ITokShaped ts :=
  fun t ht => h t (List.mem_cons_of_mem _ ht)

theorem ITokShaped.append {a b : List ITok} (ha : ITokShaped a) (hb : ITokShaped b) : ITokShaped (a ++ b) := by
  intro t ht
  rcases List.mem_append.mp ht with h | h
  · exact ha t h
  · exact hb t h

theorem ipratt_shape : ∀ (f : Nat),
    (∀ rbp toks t r, ITokShaped toks → iprattExpr f rbp toks = some (t, r) → ITerm.WF t ∧ ITokShaped r) ∧
    (∀ rbp lhs toks t r, ITerm.WF lhs → ITokShaped toks → iprattLoop f rbp lhs toks = some (t, r) →
      ITerm.WF t ∧ ITokShaped r) := by
  intro f
  induction f with
  | zero => exact ⟨fun _ _ _ _ _ h => by simp [iprattExpr] at h, fun _ _ _ _ _ _ _ h => by simp [iprattLoop] at h⟩
  | succ f ih =>
    obtain ⟨ihE, ihL⟩ := ih
    refine ⟨?_, ?_⟩
    · intro rbp toks t r hts h
      simp only [iprattExpr] at h
      split at h
      · rename_i r0
        split at h
        · rename_i a r' ha
          obtain ⟨sa, sr⟩ := ihE 39 r0 a r' hts.tail ha
          exact ihL rbp (.neg a) r' t r sa sr h
        · cases h
      · rename_i t0 r0
        exact ihL rbp t0 r0 t r (hts t0 List.mem_cons_self) hts.tail h
      · cases h
    · intro rbp lhs toks t r hl hts h
      simp only [iprattLoop] at h
      split at h
      · injection h with h; injection h with h1 h2; subst h1; subst h2
        exact ⟨hl, fun _ hx => by cases hx⟩
      · rename_i o r0
        split at h
        · split at h
          · rename_i rhs r' hr
            obtain ⟨sr, st⟩ := ihE (IOp.bp o) r0 rhs r' hts.tail hr
            exact ihL rbp (.bin o lhs rhs) r' t r ⟨hl, sr⟩ st h
          · cases h
        · injection h with h; injection h with h1 h2; subst h1; subst h2
          exact ⟨hl, hts⟩
      · rename_i r0
        split at h
        · cases h
        · injection h with h; injection h with h1 h2; subst h1; subst h2
          exact ⟨hl, hts⟩
      · cases h

theorem ipratt_shaped {toks : List ITok} {t : ITerm} (hts : ITokShaped toks) (h : ipratt toks = some t) : ITerm.WF t := by
  unfold ipratt at h
  split at h
  · rename_i t' heq
    injection h with h; subst h
    exact ((ipratt_shape _).1 0 toks _ [] hts heq).1
  · cases h

theorem lexNegs_shaped : ∀ (n : Nat) (first : Bool) (cs : List Char), ITokShaped (lexNegs n first cs).1 := by
  intro n
  induction n with
  | zero => intro _ _ t ht; simp [lexNegs] at ht
  | succ n ih =>
    intro first cs t ht
    simp only [lexNegs] at ht
    split at ht
    · rename_i r _
      simp only [List.mem_cons, reduceCtorEq, false_or] at ht
      exact ih false r t ht
    · simp at ht

theorem iterm_shape : ∀ (f : Nat),
    (∀ cs ts r, ioperand f cs = some (ts, r) → ITokShaped ts) ∧
    (∀ cs, ITokShaped (itailT f cs).1) ∧
    (∀ cs t r, itermL f cs = some (t, r) → ITerm.WF t) := by
  intro f
  induction f with
  | zero =>
    exact ⟨fun _ _ _ h => by simp [ioperand] at h, fun _ t ht => by simp [itailT] at ht,
      fun _ _ _ h => by simp [itermL] at h⟩
  | succ f ih =>
    obtain ⟨ihO, ihT, ihL⟩ := ih
    have single : ∀ (negs : List ITok) (t : ITerm), ITokShaped negs → ITerm.WF t → ITokShaped (negs ++ [ITok.prim t]) := by
      intro negs t hn ht
      refine hn.append ?_
      intro u hu
      simp only [List.mem_singleton, ITok.prim.injEq] at hu
      subst hu; exact ht
    refine ⟨?_, ?_, ?_⟩
    · intro cs ts r h
      simp only [ioperand] at h
      have hn := lexNegs_shaped (cs.length + 1) true cs
      split at h
      · rename_i n r' _
        injection h with h; injection h with h1 _; subst h1
        exact single _ _ hn trivial
      · split at h
        · rename_i c r' hc
          injection h with h; injection h with h1 _; subst h1
          refine single _ _ hn ?_
          simp only [ITerm.WF, String.toList_ofList]
          exact lexFnConst_shape hc
        · split at h
          · rename_i x r' hx
            injection h with h; injection h with h1 _; subst h1
            refine single _ _ hn ?_
            simp only [ITerm.WF, String.toList_ofList]
            exact lexIntVar_shape hx
          · split at h
            · rename_i r1 _
              split at h
              · rename_i t r2 ht
                split at h
                · injection h with h; injection h with h1 _; subst h1
                  exact single _ _ hn (ihL _ _ _ ht)
                · cases h
              · cases h
            · cases h
    · intro cs
      simp only [itailT]
      split
      · rename_i o r _
        split
        · rename_i ts r' hop
          intro t ht
          simp only [List.cons_append, List.mem_cons, reduceCtorEq, false_or] at ht
          exact ((ihO _ _ _ hop).append (ihT r')) t ht
        · intro t ht; simp at ht
      · intro t ht; simp at ht
    · intro cs t r h
      simp only [itermL] at h
      split at h
      · rename_i ts r' hop
        split at h
        · rename_i t' hp
          injection h with h; injection h with h1 _; subst h1
          exact ipratt_shaped ((ihO _ _ _ hop).append (ihT r')) hp
        · cases h
      · cases h

theorem itermL_shape {f : Nat} {cs : List Char} {t : ITerm} {r : List Char} (h : itermL f cs = some (t, r)) :
    ITerm.WF t := (iterm_shape f).2.2 cs t r h

/-! ## general terms, atoms, atomic formulas -/

theorem stermL_shape {cs : List Char} {t : STerm} {r : List Char} (h : stermL cs = some (t, r)) : STerm.WF t := by
  unfold stermL at h
  split at h
  · rename_i c r' hc
    injection h with h; injection h with h1 _; subst h1
    simp only [STerm.WF, String.toList_ofList]; exact lexFnConst_shape hc
  · split at h
    · rename_i c r' hc
      injection h with h; injection h with h1 _; subst h1
      simp only [STerm.WF, String.toList_ofList]; exact lexSymConst_shape hc
    · split at h
      · rename_i x r' hx
        injection h with h; injection h with h1 _; subst h1
        simp only [STerm.WF, String.toList_ofList]; exact lexSymVar_shape hx
      · cases h

theorem gtermL_shape {cs : List Char} {t : GTerm} {r : List Char} (h : gtermL cs = some (t, r)) : GTerm.WF t := by
  unfold gtermL at h
  split at h
  · rename_i c r' hc
    injection h with h; injection h with h1 _; subst h1
    simp only [GTerm.WF, String.toList_ofList]; exact lexFnConst_shape hc
  · split at h
    · rename_i t' r' ht
      injection h with h; injection h with h1 _; subst h1
      exact itermL_shape ht
    · split at h
      · rename_i t' r' ht
        injection h with h; injection h with h1 _; subst h1
        exact stermL_shape ht
      · split at h
        · rename_i x r' hx
          injection h with h; injection h with h1 _; subst h1
          simp only [GTerm.WF, String.toList_ofList]; exact lexGenVar_shape hx
        · split at h
          · injection h with h; injection h with h1 _; subst h1; trivial
          · split at h
            · injection h with h; injection h with h1 _; subst h1; trivial
            · cases h

theorem gtermArgs_shape : ∀ (f : Nat) (cs : List Char), ∀ t ∈ (gtermArgs f cs).1, GTerm.WF t := by
  intro f
  induction f with
  | zero => intro cs t ht; simp [gtermArgs] at ht
  | succ f ih =>
    intro cs t ht
    simp only [gtermArgs] at ht
    split at ht
    · rename_i r _
      split at ht
      · rename_i t' r' hterm
        rcases List.mem_cons.mp ht with rfl | ht
        · exact gtermL_shape hterm
        · exact ih r' t ht
      · simp at ht
    · simp at ht

theorem atomL_shape {cs : List Char} {a : Atom} {r : List Char} (h : atomL cs = some (a, r)) : Atom.WF a := by
  unfold atomL at h
  split at h
  · cases h
  · rename_i s r0 hs
    have hsym : SymName (String.ofList s).toList := by rw [String.toList_ofList]; exact lexSymConst_shape hs
    have plain : Atom.WF ⟨String.ofList s, []⟩ := ⟨hsym, fun t ht => by cases ht⟩
    simp only at h
    split at h
    · rename_i r1 _
      split at h
      · rename_i t r2 ht
        split at h
        · injection h with h; injection h with h1 _; subst h1
          refine ⟨hsym, fun u hu => ?_⟩
          rcases List.mem_cons.mp hu with rfl | hu
          · exact gtermL_shape ht
          · exact gtermArgs_shape _ _ u hu
        · injection h with h; injection h with h1 _; subst h1; exact plain
      · split at h
        · injection h with h; injection h with h1 _; subst h1; exact plain
        · injection h with h; injection h with h1 _; subst h1; exact plain
    · injection h with h; injection h with h1 _; subst h1; exact plain

theorem guardsL_shape : ∀ (f : Nat) (cs : List Char), ∀ g ∈ (guardsL f cs).1, GTerm.WF g.term := by
  intro f
  induction f with
  | zero => intro cs g hg; simp [guardsL] at hg
  | succ f ih =>
    intro cs g hg
    simp only [guardsL] at hg
    split at hg
    · rename_i rel r _
      split at hg
      · rename_i t r' ht
        rcases List.mem_cons.mp hg with rfl | hg
        · exact gtermL_shape ht
        · exact ih r' g hg
      · simp at hg
    · simp at hg

theorem comparisonL_shape {cs : List Char} {a : AtomicF} {r : List Char} (h : comparisonL cs = some (a, r)) :
    AtomicF.WF a := by
  unfold comparisonL at h
  split at h
  · rename_i t r0 ht
    split at h
    · cases h
    · rename_i gs r' hne heq
      injection h with h; injection h with h1 _; subst h1
      refine ⟨gtermL_shape ht, ?_, ?_⟩
      · intro e; subst e; exact hne rfl
      · intro g hg
        have := guardsL_shape (r0.length + 1) r0 g
        rw [heq] at this
        exact this hg
  · cases h

theorem atomicL_shape {cs : List Char} {a : AtomicF} {r : List Char} (h : atomicL cs = some (a, r)) : AtomicF.WF a := by
  unfold atomicL at h
  split at h
  · injection h with h; injection h with h1 _; subst h1; trivial
  · split at h
    · injection h with h; injection h with h1 _; subst h1; trivial
    · split at h
      · rename_i x hx
        injection h with h; subst h
        exact comparisonL_shape hx
      · split at h
        · rename_i a' r' ha
          injection h with h; injection h with h1 _; subst h1
          exact atomL_shape ha
        · cases h

/-! ## formulas -/

def FTok.Ok : FTok → Prop
  | .prim g => Formula.WF g
  | .pquant _ vs => vs ≠ [] ∧ ∀ v ∈ vs, Var.WF v
  | _ => True

def FTokShaped (ts : List FTok) : Prop := ∀ t ∈ ts, FTok.Ok t

theorem FTokShaped.tail {a : FTok} {ts : List FTok} (h : FTokShaped (a :: ts)) : FTokShaped ts :=
  fun t ht => h t (List.mem_cons_of_mem _ ht)

theorem FTokShaped.append {a b : List FTok} (ha : FTokShaped a) (hb : FTokShaped b) : FTokShaped (a ++ b) := by
  intro t ht
  rcases List.mem_append.mp ht with h | h
  · exact ha t h
  · exact hb t h

theorem FTokShaped.cons {a : FTok} {ts : List FTok} (ha : FTok.Ok a) (h : FTokShaped ts) : FTokShaped (a :: ts) := by
  intro t ht
  rcases List.mem_cons.mp ht with rfl | ht
  · exact ha
  · exact h t ht

theorem fpratt_shape : ∀ (f : Nat),
    (∀ rbp toks t r, FTokShaped toks → fprattExpr f rbp toks = some (t, r) → Formula.WF t ∧ FTokShaped r) ∧
    (∀ rbp lhs toks t r, Formula.WF lhs → FTokShaped toks → fprattLoop f rbp lhs toks = some (t, r) →
      Formula.WF t ∧ FTokShaped r) := by
  intro f
  induction f with
  | zero => exact ⟨fun _ _ _ _ _ h => by simp [fprattExpr] at h, fun _ _ _ _ _ _ _ h => by simp [fprattLoop] at h⟩
  | succ f ih =>
    obtain ⟨ihE, ihL⟩ := ih
    refine ⟨?_, ?_⟩
    · intro rbp toks t r hts h
      simp only [fprattExpr] at h
      split at h
      · rename_i r0
        split at h
        · rename_i a r' ha
          obtain ⟨sa, sr⟩ := ihE 49 r0 a r' hts.tail ha
          exact ihL rbp (.not a) r' t r sa sr h
        · cases h
      · rename_i q vs r0
        split at h
        · rename_i a r' ha
          obtain ⟨sa, sr⟩ := ihE 49 r0 a r' hts.tail ha
          have hq : FTok.Ok (.pquant q vs) := hts _ List.mem_cons_self
          exact ihL rbp (.quant q vs a) r' t r ⟨hq.1, hq.2, sa⟩ sr h
        · cases h
      · rename_i t0 r0
        exact ihL rbp t0 r0 t r (hts (.prim t0) List.mem_cons_self) hts.tail h
      · cases h
    · intro rbp lhs toks t r hl hts h
      simp only [fprattLoop] at h
      split at h
      · injection h with h; injection h with h1 h2; subst h1; subst h2
        exact ⟨hl, fun _ hx => by cases hx⟩
      · rename_i c r0
        split at h
        · split at h
          · rename_i rhs r' hr
            obtain ⟨sr, st⟩ := ihE (Conn.rbp c) r0 rhs r' hts.tail hr
            exact ihL rbp (.bin c lhs rhs) r' t r ⟨hl, sr⟩ st h
          · cases h
        · injection h with h; injection h with h1 h2; subst h1; subst h2
          exact ⟨hl, hts⟩
      · rename_i r0
        split at h
        · cases h
        · injection h with h; injection h with h1 h2; subst h1; subst h2
          exact ⟨hl, hts⟩
      · rename_i q vs r0
        split at h
        · cases h
        · injection h with h; injection h with h1 h2; subst h1; subst h2
          exact ⟨hl, hts⟩
      · cases h

theorem fpratt_shaped {toks : List FTok} {t : Formula} (hts : FTokShaped toks) (h : fpratt toks = some t) : Formula.WF t := by
  unfold fpratt at h
  split at h
  · rename_i t' heq
    injection h with h; subst h
    exact ((fpratt_shape _).1 0 toks _ [] hts heq).1
  · cases h

theorem variablesL_shape : ∀ (f : Nat) (cs : List Char), ∀ v ∈ (variablesL f cs).1, Var.WF v := by
  intro f
  induction f with
  | zero => intro cs v hv; simp [variablesL] at hv
  | succ f ih =>
    intro cs v hv
    simp only [variablesL] at hv
    split at hv
    · rename_i v' r hv'
      rcases List.mem_cons.mp hv with rfl | hv
      · exact lexVariable_shape hv'
      · exact ih r v hv
    · simp at hv

theorem quant_shape (q : Quant) (r : List Char) {t : FTok} {r' : List Char}
    (h : (match variablesL (r.length + 1) r with
      | ([], _) => none
      | (vs, r') => some (FTok.pquant q vs, r')) = some (t, r')) : FTok.Ok t := by
  split at h
  · cases h
  · rename_i vs r'' hne heq
    injection h with h; injection h with h1 _; subst h1
    refine ⟨fun e => ?_, fun v hv => ?_⟩
    · subst e; exact hne rfl
    · have := variablesL_shape (r.length + 1) r v
      rw [heq] at this
      exact this hv

theorem prefixL_shape {cs : List Char} {t : FTok} {r : List Char} (h : prefixL cs = some (t, r)) : FTok.Ok t := by
  unfold prefixL at h
  simp only at h
  split at h
  · rename_i x hx
    injection h with h; subst h
    split at hx
    · rename_i r1 _
      split at hx
      · exact quant_shape .all r1 hx
      · cases hx
    · split at hx
      · rename_i r1 _
        split at hx
        · exact quant_shape .ex r1 hx
        · cases hx
      · cases hx
  · split at h
    · split at h
      · injection h with h; injection h with h1 _; subst h1; trivial
      · cases h
    · cases h

theorem prefixesL_shape : ∀ (n : Nat) (first : Bool) (cs : List Char), FTokShaped (prefixesL n first cs).1 := by
  intro n
  induction n with
  | zero => intro _ _ t ht; simp [prefixesL] at ht
  | succ n ih =>
    intro first cs
    simp only [prefixesL]
    split
    · rename_i t r hp
      exact FTokShaped.cons (prefixL_shape hp) (ih false r)
    · intro t ht; simp at ht

theorem formula_shape : ∀ (f : Nat),
    (∀ cs ts r, foperand f cs = some (ts, r) → FTokShaped ts) ∧
    (∀ cs, FTokShaped (ftailT f cs).1) ∧
    (∀ cs t r, formulaL f cs = some (t, r) → Formula.WF t) := by
  intro f
  induction f with
  | zero =>
    exact ⟨fun _ _ _ h => by simp [foperand] at h, fun _ t ht => by simp [ftailT] at ht,
      fun _ _ _ h => by simp [formulaL] at h⟩
  | succ f ih =>
    obtain ⟨ihO, ihT, ihL⟩ := ih
    have single : ∀ (pres : List FTok) (g : Formula), FTokShaped pres → Formula.WF g → FTokShaped (pres ++ [FTok.prim g]) := by
      intro pres g hn hg
      refine hn.append ?_
      intro u hu
      simp only [List.mem_singleton] at hu
      subst hu; exact hg
    refine ⟨?_, ?_, ?_⟩
    · intro cs ts r h
      simp only [foperand] at h
      have hn := prefixesL_shape (cs.length + 1) true cs
      split at h
      · rename_i x hx
        injection h with h; subst h
        split at hx
        · rename_i r1 _
          split at hx
          · rename_i g r2 hg
            split at hx
            · injection hx with hx; injection hx with h1 _; subst h1
              exact single _ _ hn (ihL _ _ _ hg)
            · cases hx
          · cases hx
        · cases hx
      · split at h
        · rename_i a r' ha
          injection h with h; injection h with h1 _; subst h1
          exact single _ _ hn (atomicL_shape ha)
        · cases h
    · intro cs
      simp only [ftailT]
      split
      · rename_i c r _
        split
        · rename_i ts r' hop
          intro t ht
          simp only [List.cons_append, List.mem_cons] at ht
          rcases ht with rfl | ht
          · trivial
          · exact ((ihO _ _ _ hop).append (ihT r')) t ht
        · intro t ht; simp at ht
      · intro t ht; simp at ht
    · intro cs t r h
      simp only [formulaL] at h
      split at h
      · rename_i ts r' hop
        split at h
        · rename_i t' hp
          injection h with h; injection h with h1 _; subst h1
          exact fpratt_shaped ((ihO _ _ _ hop).append (ihT r')) hp
        · cases h
      · cases h

theorem formulaL_shape {f : Nat} {cs : List Char} {t : Formula} {r : List Char} (h : formulaL f cs = some (t, r)) :
    Formula.WF t := (formula_shape f).2.2 cs t r h

theorem formulasDot_shape : ∀ (f : Nat) (cs : List Char), ∀ g ∈ (formulasDot f cs).1, Formula.WF g := by
  intro f
  induction f with
  | zero => intro cs g hg; simp [formulasDot] at hg
  | succ f ih =>
    intro cs g hg
    simp only [formulasDot] at hg
    split at hg
    · rename_i g' r hg'
      split at hg
      · rename_i r' _
        rcases List.mem_cons.mp hg with rfl | hg
        · exact formulaL_shape hg'
        · exact ih r' g hg
      · simp at hg
    · simp at hg

/-- every formula of a theory the parser accepts has well-shaped names, a guard in every comparison
    and a variable in every quantifier -/
theorem parseTheory_shaped {text : String} {t : Theory} (h : parseTheory text = some t) : ∀ g ∈ t, Formula.WF g := by
  unfold parseTheory at h
  simp only at h
  split at h
  · injection h with h; subst h
    exact formulasDot_shape _ _
  · cases h

end Anthem.Fol
