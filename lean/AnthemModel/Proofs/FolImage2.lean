/-
  The image of the target-language parser, part 2: what is left of the input after each lexer
  (lengths, decompositions), `prefix*` stops only where no prefix starts, white-space skipping is
  idempotent.
-/
import AnthemModel.Proofs.FolImage
namespace Anthem.Fol
open Anthem.Asp (isWs skip skipAux stripPrefix isIdChar SymName NoId Solid StartsSolid takeWhile_all
  skip_of_startsSolid)

/-! ## skipping -/

theorem skipAux_result (b : Bool) (cs : List Char) : skipAux b cs = [] ∨ StartsSolid (skipAux b cs) := by
  induction cs generalizing b with
  | nil => left; cases b <;> rfl
  | cons c cs ih =>
    cases b with
    | true =>
      simp only [skipAux]
      split
      · exact ih false
      · exact ih true
    | false =>
      simp only [skipAux]
      split
      · exact ih false
      · rename_i hws
        split
        · exact ih true
        · rename_i hp
          right
          exact ⟨c, cs, rfl, by simpa using hws, hp⟩

theorem skip_idem (cs : List Char) : skip (skip cs) = skip cs := by
  rcases skipAux_result false cs with h | h
  · show skip (skipAux false cs) = skipAux false cs
    rw [h]; rfl
  · exact skip_of_startsSolid h

/-! ## lengths -/

theorem stripPrefix_length : ∀ (p cs r : List Char), stripPrefix p cs = some r → cs.length = p.length + r.length := by
  intro p
  induction p with
  | nil => intro cs r h; simp [stripPrefix] at h; subst h; simp
  | cons a p ih =>
    intro cs r h
    cases cs with
    | nil => simp [stripPrefix] at h
    | cons c cs =>
      simp only [stripPrefix] at h
      split at h
      · have := ih cs r h
        simp only [List.length_cons]; omega
      · cases h

theorem dropWhile_length_le (p : Char → Bool) (l : List Char) : (l.dropWhile p).length ≤ l.length := by
  induction l with
  | nil => simp
  | cons a l ih =>
    simp only [List.dropWhile]
    split
    · simp only [List.length_cons]; omega
    · exact Nat.le_refl _

theorem lexUVar_length {cs x r : List Char} (h : lexUVar cs = some (x, r)) : r.length < cs.length := by
  unfold lexUVar at h
  split at h
  · rename_i c r'
    split at h
    · injection h with h; injection h with _ h2; subst h2
      have := dropWhile_length_le isIdChar r'
      simp only [List.length_cons]; omega
    · cases h
  · rename_i c r' _
    split at h
    · injection h with h; injection h with _ h2; subst h2
      have := dropWhile_length_le isIdChar r'
      simp only [List.length_cons]; omega
    · cases h
  · cases h

theorem lexSortWord_length {first : Char} {more : String} {cs r : List Char}
    (h : lexSortWord first more cs = some r) : r.length < cs.length := by
  unfold lexSortWord at h
  split at h
  · rename_i c r'
    split at h
    · split at h
      · rename_i r'' hs
        injection h with h; subst h
        have := stripPrefix_length _ _ _ hs
        simp only [List.length_cons]; omega
      · injection h with h; subst h; simp
    · cases h
  · cases h

theorem lexIntVar_length {cs x r : List Char} (h : lexIntVar cs = some (x, r)) : r.length < cs.length := by
  unfold lexIntVar at h
  split at h
  · rename_i x' r' hx
    have hl := lexUVar_length hx
    simp only [List.length_cons] at hl
    split at h
    · rename_i r'' hs
      injection h with h; injection h with _ h2; subst h2
      have := lexSortWord_length hs
      omega
    · split at h
      · cases h
      · injection h with h; injection h with _ h2; subst h2; omega
  · cases h

theorem lexSymVar_length {cs x r : List Char} (h : lexSymVar cs = some (x, r)) : r.length < cs.length := by
  unfold lexSymVar at h
  split at h
  · rename_i x' r' hx
    have hl := lexUVar_length hx
    simp only [List.length_cons] at hl
    split at h
    · rename_i r'' hs
      injection h with h; injection h with _ h2; subst h2
      have := lexSortWord_length hs
      omega
    · cases h
  · cases h

theorem lexGenVar_length {cs x r : List Char} (h : lexGenVar cs = some (x, r)) : r.length < cs.length := by
  unfold lexGenVar at h
  split at h
  · rename_i x' r' hx
    have hl := lexUVar_length hx
    simp only [List.length_cons] at hl
    split at h
    · rename_i r'' hs
      injection h with h; injection h with _ h2; subst h2
      have := lexSortWord_length hs
      omega
    · injection h with h; injection h with _ h2; subst h2
      simp only [List.length_cons]; omega
  · rename_i x' r' _ hx
    injection h with h; injection h with _ h2; subst h2
    exact lexUVar_length hx
  · cases h

theorem lexVariable_length {cs : List Char} {v : Var} {r : List Char} (h : lexVariable cs = some (v, r)) :
    r.length < cs.length := by
  unfold lexVariable at h
  split at h
  · rename_i x r' hx
    injection h with h; injection h with _ h2; subst h2; exact lexIntVar_length hx
  · split at h
    · rename_i x r' hx
      injection h with h; injection h with _ h2; subst h2; exact lexSymVar_length hx
    · split at h
      · rename_i x r' hx
        injection h with h; injection h with _ h2; subst h2; exact lexGenVar_length hx
      · cases h

theorem variablesL_length : ∀ (f : Nat) (cs : List Char), (variablesL f cs).2.length ≤ cs.length := by
  intro f
  induction f with
  | zero => intro cs; simp [variablesL]
  | succ f ih =>
    intro cs
    simp only [variablesL]
    split
    · rename_i v r hv
      have h1 := lexVariable_length hv
      have h2 := skip_length_le cs
      have h3 := ih r
      simp only
      omega
    · exact Nat.le_refl _

theorem quant_length (q : Quant) (r : List Char) {t : FTok} {r' : List Char}
    (h : (match variablesL (r.length + 1) r with
      | ([], _) => none
      | (vs, r') => some (FTok.pquant q vs, r')) = some (t, r')) : r'.length ≤ r.length := by
  split at h
  · cases h
  · rename_i vs r'' _ heq
    injection h with h; injection h with _ h2; subst h2
    have := variablesL_length (r.length + 1) r
    rw [heq] at this
    exact this

theorem prefixL_length {cs : List Char} {t : FTok} {r : List Char} (h : prefixL cs = some (t, r)) : r.length < cs.length := by
  unfold prefixL at h
  simp only at h
  split at h
  · rename_i x hx
    injection h with h; subst h
    split at hx
    · rename_i r1 hs
      have hl := stripPrefix_length _ _ _ hs
      have : "forall".toList.length = 6 := rfl
      split at hx
      · have := quant_length .all r1 hx; omega
      · cases hx
    · split at hx
      · rename_i r1 hs
        have hl := stripPrefix_length _ _ _ hs
        have : "exists".toList.length = 6 := rfl
        split at hx
        · have := quant_length .ex r1 hx; omega
        · cases hx
      · cases hx
  · split at h
    · rename_i r1 hs
      have hl := stripPrefix_length _ _ _ hs
      have : "not".toList.length = 3 := rfl
      split at h
      · injection h with h; injection h with _ h2; subst h2; omega
      · cases h
    · cases h

/-- `prefix*` stops only where no further prefix starts -/
theorem prefixesL_stop : ∀ (n : Nat) (first : Bool) (cs : List Char), cs.length < n → (first = true → skip cs = cs) →
    prefixL (skip (prefixesL n first cs).2) = none := by
  intro n
  induction n with
  | zero => intro _ cs h; omega
  | succ n ih =>
    intro first cs hn hfirst
    simp only [prefixesL]
    split
    · rename_i t r hp
      have hl := prefixL_length hp
      have hx : (if first = true then cs else skip cs).length ≤ cs.length := by
        cases first
        · exact skip_length_le cs
        · exact Nat.le_refl _
      exact ih false r (by omega) (fun e => by cases e)
    · rename_i hp
      cases first with
      | true => simp only [if_true] at hp; rw [hfirst rfl]; exact hp
      | false => simpa using hp

/-! ## decompositions -/

theorem takeWhile_append_dropWhile (p : Char → Bool) (l : List Char) : l.takeWhile p ++ l.dropWhile p = l :=
  List.takeWhile_append_dropWhile

theorem dropWhile_head (p : Char → Bool) (l : List Char) : ∀ c r, l.dropWhile p = c :: r → p c = false := by
  induction l with
  | nil => intro c r h; simp at h
  | cons a l ih =>
    intro c r h
    simp only [List.dropWhile] at h
    split at h
    · exact ih c r h
    · rename_i ha
      injection h with h1 _; subst h1; simpa using ha

/-- a symbolic constant is a prefix of the input, and what follows cannot continue it -/
theorem lexSymConst_eq {cs l r : List Char} (h : lexSymConst cs = some (l, r)) : cs = l ++ r ∧ NoId r := by
  unfold lexSymConst at h
  split at h
  · cases h
  · split at h
    · rename_i c r' _
      split at h
      · injection h with h; injection h with h1 h2; subst h1; subst h2
        exact ⟨by simp [List.takeWhile_append_dropWhile], fun c' r'' e => dropWhile_head _ _ c' r'' e⟩
      · cases h
    · rename_i c r' _ _
      split at h
      · injection h with h; injection h with h1 h2; subst h1; subst h2
        exact ⟨by simp [List.takeWhile_append_dropWhile], fun c' r'' e => dropWhile_head _ _ c' r'' e⟩
      · cases h
    · cases h

/-- the connective loop either stops at once or starts with a connective -/
theorem ftailT_cases (f : Nat) (cs : List Char) :
    ftailT f cs = ([], cs) ∨ ∃ c r, lexConn (skip cs) = some (c, r) := by
  cases f with
  | zero => left; rfl
  | succ f =>
    rw [ftailT_succ]
    cases h : lexConn (skip cs) with
    | none => left; rfl
    | some x => right; exact ⟨x.1, x.2, rfl⟩

theorem lexConn_dollar (r : List Char) : lexConn (skip ('$' :: r)) = none := by
  rw [Asp.skip_cons_solid r ⟨by decide, by decide⟩]; rfl

end Anthem.Fol
