/-
  The image of the target-language parser, part 3: no atomic formula of an accepted text starts
  with the name `not` (the parser reads a negation there), hence every accepted formula is safe
  and the round-trip theorems apply to everything the parser accepts.
-/
import AnthemModel.Proofs.FolImage2
import AnthemModel.Proofs.FolUgRT
namespace Anthem.Fol
open Anthem.Asp (isWs skip skipAux stripPrefix isIdChar SymName NoId Solid StartsSolid takeWhile_all
  skip_of_startsSolid skip_cons_solid)

def NoDollar (r : List Char) : Prop := ∀ x, r ≠ '$' :: x

theorem skip_dollar (x : List Char) : skip ('$' :: x) = '$' :: x := skip_cons_solid x ⟨by decide, by decide⟩

/-! ## where no prefix starts, no name `not` starts -/

theorem prefixL_none_not {cs r : List Char} (h : prefixL cs = none) (hs : stripPrefix "not".toList cs = some r) :
    notWordNext r = false := by
  unfold prefixL at h
  simp only at h
  split at h
  · cases h
  · rw [hs] at h
    simp only at h
    split at h
    · cases h
    · rename_i hn; simpa using hn

theorem stripPrefix_self (l X : List Char) : stripPrefix l (l ++ X) = some X := by
  induction l with
  | nil => rfl
  | cons a l ih => simp [stripPrefix, ih]

/-- the symbolic constant `not` can only be lexed, where no prefix starts, in front of `$` -/
theorem not_name_dollar {W s r : List Char} (hp : prefixL W = none) (hl : lexSymConst W = some (s, r))
    (hs : s = ['n', 'o', 't']) : ∃ x, r = '$' :: x := by
  obtain ⟨e, hno⟩ := lexSymConst_eq hl
  subst hs
  have hstrip : stripPrefix "not".toList W = some r := by rw [e]; exact stripPrefix_self _ _
  have hn := prefixL_none_not hp hstrip
  cases r with
  | nil => simp [notWordNext] at hn
  | cons c r' =>
    have hc := hno c r' rfl
    simp only [notWordNext, hc, Bool.false_or, Bool.not_eq_false', beq_iff_eq] at hn
    exact ⟨r', by rw [hn]⟩

theorem ofList_not {s : List Char} (h : (String.ofList s).toList = ['n', 'o', 't']) : s = ['n', 'o', 't'] := by
  rwa [String.toList_ofList] at h

theorem atomL_notFirst {W : List Char} {a : Atom} {r : List Char} (hp : prefixL W = none)
    (h : atomL W = some (a, r)) (hr : NoDollar r) : a.pred.toList ≠ ['n', 'o', 't'] := by
  intro hnot
  unfold atomL at h
  split at h
  · cases h
  · rename_i s r0 hs
    simp only at h
    have key : a.pred = String.ofList s → False := by
      intro e
      rw [e] at hnot
      obtain ⟨x, hx⟩ := not_name_dollar hp hs (ofList_not hnot)
      subst hx
      rw [skip_dollar] at h
      -- the text after the name starts with `$`: no argument list, and the rest starts with `$`
      split at h
      · rename_i r1 heq; injection heq with e1 _; exact absurd e1 (by decide)
      · injection h with h; injection h with _ h2
        exact hr x h2.symm
    split at h
    · split at h
      · split at h
        · injection h with h; injection h with h1 _; exact key (by rw [← h1])
        · injection h with h; injection h with h1 _; exact key (by rw [← h1])
      · split at h
        · injection h with h; injection h with h1 _; exact key (by rw [← h1])
        · injection h with h; injection h with h1 _; exact key (by rw [← h1])
    · injection h with h; injection h with h1 _; exact key (by rw [← h1])

theorem lexRelation_dollar (x : List Char) : lexRelation (skip ('$' :: x)) = none := by
  rw [skip_dollar]; rfl

theorem gtermL_sym {W : List Char} {s : String} {r : List Char} (h : gtermL W = some (.symb (.sym s), r)) :
    ∃ n, lexSymConst W = some (n, r) ∧ s = String.ofList n := by
  unfold gtermL at h
  split at h
  · injection h with h; injection h with h1 _; cases h1
  · split at h
    · injection h with h; injection h with h1 _; cases h1
    · split at h
      · rename_i t' r' ht
        injection h with h; injection h with h1 h2
        injection h1 with h1
        subst h1; subst h2
        unfold stermL at ht
        split at ht
        · injection ht with ht; injection ht with h1 _; cases h1
        · split at ht
          · rename_i c r'' hc
            injection ht with ht; injection ht with h1 h2
            injection h1 with h1
            subst h2
            exact ⟨c, hc, h1.symm⟩
          · split at ht
            · injection ht with ht; injection ht with h1 _; cases h1
            · cases ht
      · split at h
        · injection h with h; injection h with h1 _; cases h1
        · split at h
          · injection h with h; injection h with h1 _; cases h1
          · split at h
            · injection h with h; injection h with h1 _; cases h1
            · cases h

theorem comparisonL_notFirst {W : List Char} {a : AtomicF} {r : List Char} (hp : prefixL W = none)
    (h : comparisonL W = some (a, r)) : AtomicF.NotFirst a := by
  unfold comparisonL at h
  split at h
  · rename_i t r0 ht
    split at h
    · cases h
    · rename_i gs r' hne heq
      injection h with h; injection h with h1 _; subst h1
      cases t with
      | symb st =>
        cases st with
        | sym s =>
          intro hnot
          obtain ⟨n, hn, e⟩ := gtermL_sym ht
          subst e
          obtain ⟨x, hx⟩ := not_name_dollar hp hn (ofList_not hnot)
          subst hx
          have : guardsL (('$' :: x).length + 1) ('$' :: x) = ([], '$' :: x) := by
            simp [guardsL, lexRelation_dollar]
          rw [this] at heq
          injection heq with e1 _
          subst e1
          exact hne rfl
        | fc c => trivial
        | var v => trivial
      | inf => trivial
      | sup => trivial
      | fc c => trivial
      | var v => trivial
      | int it => trivial
  · cases h

theorem atomicL_safe {W : List Char} {a : AtomicF} {r : List Char} (hp : prefixL W = none)
    (h : atomicL W = some (a, r)) (hr : NoDollar r) : AtomicF.Safe a := by
  refine ⟨atomicL_shape h, ?_⟩
  unfold atomicL at h
  split at h
  · injection h with h; injection h with h1 _; subst h1; trivial
  · split at h
    · injection h with h; injection h with h1 _; subst h1; trivial
    · split at h
      · rename_i x hx
        injection h with h; subst h
        exact comparisonL_notFirst hp hx
      · split at h
        · rename_i a' r' ha
          injection h with h; injection h with h1 h2; subst h1; subst h2
          exact atomL_notFirst hp ha hr
        · cases h

/-! ## formulas -/

def FTok.Img : FTok → Prop
  | .prim g => Formula.Safe g
  | .pquant _ vs => vs ≠ [] ∧ ∀ v ∈ vs, Var.WF v
  | _ => True

def FTokImg (ts : List FTok) : Prop := ∀ t ∈ ts, FTok.Img t

theorem FTokImg.tail {a : FTok} {ts : List FTok} (h : FTokImg (a :: ts)) : FTokImg ts :=
  fun t ht => h t (List.mem_cons_of_mem _ ht)

theorem FTokImg.append {a b : List FTok} (ha : FTokImg a) (hb : FTokImg b) : FTokImg (a ++ b) := by
  intro t ht
  rcases List.mem_append.mp ht with h | h
  · exact ha t h
  · exact hb t h

theorem FTokImg.cons {a : FTok} {ts : List FTok} (ha : FTok.Img a) (h : FTokImg ts) : FTokImg (a :: ts) := by
  intro t ht
  rcases List.mem_cons.mp ht with rfl | ht
  · exact ha
  · exact h t ht

theorem fpratt_img : ∀ (f : Nat),
    (∀ rbp toks t r, FTokImg toks → fprattExpr f rbp toks = some (t, r) → Formula.Safe t ∧ FTokImg r) ∧
    (∀ rbp lhs toks t r, Formula.Safe lhs → FTokImg toks → fprattLoop f rbp lhs toks = some (t, r) →
      Formula.Safe t ∧ FTokImg r) := by
  intro f
  induction f with
  | zero => exact ⟨fun _ _ _ _ _ h => by simp [fprattExpr] at h, fun _ _ _ _ _ _ _ h => by simp [fprattLoop] at h⟩
  | succ f ih =>
    obtain ⟨ihE, ihL⟩ := ih
    refine ⟨?_, ?_⟩
    · intro rbp toks t r hts h
      simp only [fprattExpr] at h
      split at h
      · rename_i r0
        split at h
        · rename_i a r' ha
          obtain ⟨sa, sr⟩ := ihE 49 r0 a r' hts.tail ha
          exact ihL rbp (.not a) r' t r sa sr h
        · cases h
      · rename_i q vs r0
        split at h
        · rename_i a r' ha
          obtain ⟨sa, sr⟩ := ihE 49 r0 a r' hts.tail ha
          have hq : FTok.Img (.pquant q vs) := hts _ List.mem_cons_self
          exact ihL rbp (.quant q vs a) r' t r ⟨hq.1, hq.2, sa⟩ sr h
        · cases h
      · rename_i t0 r0
        exact ihL rbp t0 r0 t r (hts (.prim t0) List.mem_cons_self) hts.tail h
      · cases h
    · intro rbp lhs toks t r hl hts h
      simp only [fprattLoop] at h
      split at h
      · injection h with h; injection h with h1 h2; subst h1; subst h2
        exact ⟨hl, fun _ hx => by cases hx⟩
      · rename_i c r0
        split at h
        · split at h
          · rename_i rhs r' hr
            obtain ⟨sr, st⟩ := ihE (Conn.rbp c) r0 rhs r' hts.tail hr
            exact ihL rbp (.bin c lhs rhs) r' t r ⟨hl, sr⟩ st h
          · cases h
        · injection h with h; injection h with h1 h2; subst h1; subst h2
          exact ⟨hl, hts⟩
      · rename_i r0
        split at h
        · cases h
        · injection h with h; injection h with h1 h2; subst h1; subst h2
          exact ⟨hl, hts⟩
      · rename_i q vs r0
        split at h
        · cases h
        · injection h with h; injection h with h1 h2; subst h1; subst h2
          exact ⟨hl, hts⟩
      · cases h

theorem fpratt_safe {toks : List FTok} {t : Formula} (hts : FTokImg toks) (h : fpratt toks = some t) : Formula.Safe t := by
  unfold fpratt at h
  split at h
  · rename_i t' heq
    injection h with h; subst h
    exact ((fpratt_img _).1 0 toks _ [] hts heq).1
  · cases h

theorem quant_img (q : Quant) (r : List Char) {t : FTok} {r' : List Char}
    (h : (match variablesL (r.length + 1) r with
      | ([], _) => none
      | (vs, r') => some (FTok.pquant q vs, r')) = some (t, r')) : FTok.Img t := by
  split at h
  · cases h
  · rename_i vs r'' hne heq
    injection h with h; injection h with h1 _; subst h1
    refine ⟨fun e => ?_, fun v hv => ?_⟩
    · subst e; exact hne rfl
    · have := variablesL_shape (r.length + 1) r v
      rw [heq] at this
      exact this hv

theorem prefixL_img {cs : List Char} {t : FTok} {r : List Char} (h : prefixL cs = some (t, r)) : FTok.Img t := by
  unfold prefixL at h
  simp only at h
  split at h
  · rename_i x hx
    injection h with h; subst h
    split at hx
    · rename_i r1 _
      split at hx
      · exact quant_img .all r1 hx
      · cases hx
    · split at hx
      · rename_i r1 _
        split at hx
        · exact quant_img .ex r1 hx
        · cases hx
      · cases hx
  · split at h
    · split at h
      · injection h with h; injection h with h1 _; subst h1; trivial
      · cases h
    · cases h

theorem prefixesL_img : ∀ (n : Nat) (first : Bool) (cs : List Char), FTokImg (prefixesL n first cs).1 := by
  intro n
  induction n with
  | zero => intro _ _ t ht; simp [prefixesL] at ht
  | succ n ih =>
    intro first cs
    simp only [prefixesL]
    split
    · rename_i t r hp
      exact FTokImg.cons (prefixL_img hp) (ih false r)
    · intro t ht; simp at ht

theorem noDollar_of_skip {r : List Char} {c : Char} {r' : List Char} (h : skip r = c :: r') (hc : c ≠ '$') : NoDollar r := by
  intro x e
  subst e
  rw [skip_dollar] at h
  injection h with h1 _
  exact hc h1.symm

theorem noDollar_of_conn {r : List Char} {x : Conn × List Char} (h : lexConn (skip r) = some x) : NoDollar r := by
  intro y e
  subst e
  rw [lexConn_dollar] at h
  cases h

theorem formula_img : ∀ (f : Nat),
    (∀ cs ts r, skip cs = cs → foperand f cs = some (ts, r) → NoDollar r → FTokImg ts) ∧
    (∀ cs, NoDollar (ftailT f cs).2 → FTokImg (ftailT f cs).1) ∧
    (∀ cs t r, skip cs = cs → formulaL f cs = some (t, r) → NoDollar r → Formula.Safe t) := by
  intro f
  induction f with
  | zero =>
    exact ⟨fun _ _ _ _ h => by simp [foperand] at h, fun _ _ t ht => by simp [ftailT] at ht,
      fun _ _ _ _ h => by simp [formulaL] at h⟩
  | succ f ih =>
    obtain ⟨ihO, ihT, ihL⟩ := ih
    have single : ∀ (pres : List FTok) (g : Formula), FTokImg pres → Formula.Safe g → FTokImg (pres ++ [FTok.prim g]) := by
      intro pres g hn hg
      refine hn.append ?_
      intro u hu
      simp only [List.mem_singleton] at hu
      subst hu; exact hg
    -- the operand/tail pair that `formulaL` and `ftailT` both use
    have pair : ∀ (cs : List Char) (ts : List FTok) (r1 : List Char), skip cs = cs → foperand f cs = some (ts, r1) →
        NoDollar (ftailT f r1).2 → FTokImg (ts ++ (ftailT f r1).1) := by
      intro cs ts r1 hcs hop hnd
      have hr1 : NoDollar r1 := by
        rcases ftailT_cases f r1 with h | ⟨c, r, h⟩
        · rw [h] at hnd; exact hnd
        · exact noDollar_of_conn h
      exact (ihO cs ts r1 hcs hop hr1).append (ihT r1 hnd)
    refine ⟨?_, ?_, ?_⟩
    · intro cs ts r hcs h hr
      simp only [foperand] at h
      have hn := prefixesL_img (cs.length + 1) true cs
      have hstop := prefixesL_stop (cs.length + 1) true cs (Nat.lt_succ_self _) (fun _ => hcs)
      split at h
      · rename_i x hx
        injection h with h; subst h
        split at hx
        · rename_i r1 _
          split at hx
          · rename_i g r2 hg
            split at hx
            · rename_i r3 h3
              injection hx with hx; injection hx with h1 _; subst h1
              exact single _ _ hn (ihL _ _ _ (skip_idem r1) hg (noDollar_of_skip h3 (by decide)))
            · cases hx
          · cases hx
        · cases hx
      · split at h
        · rename_i a r' ha
          injection h with h; injection h with h1 h2; subst h1; subst h2
          exact single _ _ hn (atomicL_safe hstop ha hr)
        · cases h
    · intro cs hnd
      rw [ftailT_succ] at hnd ⊢
      cases hc : lexConn (skip cs) with
      | none => intro t ht; simp [hc] at ht
      | some x =>
        obtain ⟨c, r1⟩ := x
        simp only [hc, fseqT] at hnd ⊢
        cases hop : foperand f (skip r1) with
        | none => intro t ht; simp [hop] at ht
        | some y =>
          obtain ⟨ts, r'⟩ := y
          simp only [hop] at hnd ⊢
          exact FTokImg.cons trivial (pair (skip r1) ts r' (skip_idem r1) hop hnd)
    · intro cs t r hcs h hr
      rw [formulaL_succ] at h
      simp only [fseqT] at h
      cases hop : foperand f cs with
      | none => simp [hop] at h
      | some y =>
        obtain ⟨ts, r1⟩ := y
        simp only [hop] at h
        split at h
        · rename_i g hp
          injection h with h; injection h with h1 h2; subst h1
          exact fpratt_safe (pair cs ts r1 hcs hop (by rw [h2]; exact hr)) hp
        · cases h

theorem formulaL_safe {f : Nat} {cs : List Char} {t : Formula} {r : List Char} (hcs : skip cs = cs)
    (h : formulaL f cs = some (t, r)) (hr : NoDollar r) : Formula.Safe t := (formula_img f).2.2 cs t r hcs h hr

/-- a formula read at the top level and followed by a full stop is safe -/
theorem formulaTop_safe {cs : List Char} {t : Formula} {r r' : List Char} (h : formulaTop (skip cs) = some (t, r))
    (hdot : skip r = '.' :: r') : Formula.Safe t :=
  formulaL_safe (skip_idem cs) h (noDollar_of_skip hdot (by decide))

theorem formulasDot_safe : ∀ (f : Nat) (cs : List Char), ∀ g ∈ (formulasDot f cs).1, Formula.Safe g := by
  intro f
  induction f with
  | zero => intro cs g hg; simp [formulasDot] at hg
  | succ f ih =>
    intro cs g hg
    simp only [formulasDot] at hg
    split at hg
    · rename_i g' r hg'
      split at hg
      · rename_i r' hdot
        rcases List.mem_cons.mp hg with rfl | hg
        · exact formulaTop_safe hg' hdot
        · exact ih r' g hg
      · simp at hg
    · simp at hg

/-- **the image of the theory parser is safe** -/
theorem parseTheory_safe {text : String} {t : Theory} (h : parseTheory text = some t) : Theory.Safe t := by
  unfold parseTheory at h
  simp only at h
  split at h
  · injection h with h; subst h
    exact formulasDot_safe _ _
  · cases h

/-- **C15 for theories, no hypothesis**: for every text the parser accepts as a theory, the printed
    tree is accepted and parses to the identical tree. -/
theorem accepted_theory_roundtrip {text : String} {t : Theory} (h : parseTheory text = some t) :
    parseTheory (printTheory t) = some t :=
  parseTheory_printTheory t (parseTheory_safe h)

/-! ## specifications and user guides -/

theorem nameOptL_img (r1 : List Char) : (nameOptL r1).1 = "" ∨ SymName (nameOptL r1).1.toList := by
  unfold nameOptL
  split
  · split
    · rename_i n b hn
      split
      · right; simp only [String.toList_ofList]; exact lexSymConst_shape hn
      · left; rfl
    · left; rfl
  · left; rfl

theorem annotatedL_safe {cs : List Char} {a : SAnn} {r r' : List Char} (h : annotatedL cs = some (a, r))
    (hdot : skip r = '.' :: r') : SAnn.Safe a := by
  unfold annotatedL at h
  split at h
  · cases h
  · rename_i role r0 _
    simp only at h
    split at h
    · rename_i r3 _
      split at h
      · rename_i f r4 hf
        injection h with h; injection h with h1 h2; subst h1; subst h2
        exact ⟨nameOptL_img _, formulaTop_safe hf hdot⟩
      · cases h
    · cases h

theorem annotatedDot_safe : ∀ (f : Nat) (cs : List Char), ∀ a ∈ (annotatedDot f cs).1, SAnn.Safe a := by
  intro f
  induction f with
  | zero => intro cs a ha; simp [annotatedDot] at ha
  | succ f ih =>
    intro cs a ha
    simp only [annotatedDot] at ha
    split at ha
    · rename_i a' r ha'
      split at ha
      · rename_i r' hdot
        rcases List.mem_cons.mp ha with rfl | ha
        · exact annotatedL_safe ha' hdot
        · exact ih r' a ha
      · simp at ha
    · simp at ha

theorem parseSpecification_safe {text : String} {s : Specification} (h : parseSpecification text = some s) :
    Specification.Safe s := by
  unfold parseSpecification at h
  simp only at h
  split at h
  · injection h with h; subst h
    exact annotatedDot_safe _ _
  · cases h

/-- **C15 for specifications, no hypothesis** -/
theorem accepted_specification_roundtrip {text : String} {s : Specification} (h : parseSpecification text = some s) :
    parseSpecification (printSpecification s) = some s :=
  parseSpecification_printSpecification s (parseSpecification_safe h)

theorem predicateL_shape {cs : List Char} {p : Pred} {r : List Char} (h : predicateL cs = some (p, r)) :
    SymName p.symbol.toList := by
  unfold predicateL at h
  split at h
  · rename_i s r0 hs
    split at h
    · split at h
      · injection h with h; injection h with h1 _; subst h1
        simp only [String.toList_ofList]; exact lexSymConst_shape hs
      · cases h
    · cases h
  · cases h

theorem ugEntryL_safe {cs : List Char} {e : UGEntry} {r r' : List Char} (h : ugEntryL cs = some (e, r))
    (hdot : skip r = '.' :: r') : UGEntry.Safe e := by
  unfold ugEntryL at h
  simp only at h
  split at h
  · rename_i x hx
    injection h with h; subst h
    split at hx
    · rename_i r0 _
      cases hp : predicateL r0 with
      | none => simp [hp] at hx
      | some y =>
        simp only [hp, Option.map_some] at hx
        injection hx with hx; injection hx with h1 _; subst h1
        exact predicateL_shape hp
    · cases hx
  · split at h
    · rename_i x hx
      injection h with h; subst h
      split at hx
      · rename_i r0 _
        cases hp : predicateL r0 with
        | none => simp [hp] at hx
        | some y =>
          simp only [hp, Option.map_some] at hx
          injection hx with hx; injection hx with h1 _; subst h1
          exact predicateL_shape hp
      · cases hx
    · split at h
      · rename_i x hx
        injection h with h; subst h
        split at hx
        · rename_i r0 _
          split at hx
          · rename_i n r1 hn
            have hs : SymName (String.ofList n).toList := by rw [String.toList_ofList]; exact lexSymConst_shape hn
            split at hx
            · split at hx
              · injection hx with hx; injection hx with h1 _; subst h1; exact hs
              · injection hx with hx; injection hx with h1 _; subst h1; exact hs
            · injection hx with hx; injection hx with h1 _; subst h1; exact hs
          · cases hx
        · cases hx
      · cases ha : annotatedL cs with
        | none => simp [ha] at h
        | some y =>
          simp only [ha, Option.map_some] at h
          injection h with h; injection h with h1 h2; subst h1; subst h2
          exact annotatedL_safe ha hdot

theorem ugEntriesDot_safe : ∀ (f : Nat) (cs : List Char), ∀ e ∈ (ugEntriesDot f cs).1, UGEntry.Safe e := by
  intro f
  induction f with
  | zero => intro cs e he; simp [ugEntriesDot] at he
  | succ f ih =>
    intro cs e he
    simp only [ugEntriesDot] at he
    split at he
    · rename_i e' r he'
      split at he
      · rename_i r' hdot
        rcases List.mem_cons.mp he with rfl | he
        · exact ugEntryL_safe he' hdot
        · exact ih r' e he
      · simp at he
    · simp at he

theorem parseUserGuide_safe {text : String} {u : UserGuide} (h : parseUserGuide text = some u) : UserGuide.Safe u := by
  unfold parseUserGuide at h
  simp only at h
  split at h
  · injection h with h; subst h
    exact ugEntriesDot_safe _ _
  · cases h

/-- **C15 for user guides, no hypothesis** -/
theorem accepted_user_guide_roundtrip {text : String} {u : UserGuide} (h : parseUserGuide text = some u) :
    parseUserGuide (printUserGuide u) = some u :=
  parseUserGuide_printUserGuide u (parseUserGuide_safe h)

end Anthem.Fol
