/-
  Lexical facts for the target-language round trip (C15): what the lexers of Model/FolParse do on a
  printed name / sorted name followed by a character that cannot continue it.
-/
import AnthemModel.Model.FolParse
import AnthemModel.Proofs.AspLex
namespace Anthem.Fol
open Anthem.Asp (isWs skip stripPrefix isIdChar isNonzeroDigit SymName NoId StopsAt Solid StartsSolid
  takeWhile_append_stop noId_cons skip_cons_solid skip_of_startsSolid lower_idChar lower_solid upper_solid)

/-- the characters of an unsorted variable: `_? [A-Z] [A-Za-z0-9_]*` -/
def UVName (l : List Char) : Prop :=
  (∃ c w, l = c :: w ∧ c.isUpper = true ∧ ∀ x ∈ w, isIdChar x = true) ∨
  (∃ c w, l = '_' :: c :: w ∧ c.isUpper = true ∧ ∀ x ∈ w, isIdChar x = true)

/-- a non-identifier character follows (so the text does not end here) -/
def NoIdNE (rest : List Char) : Prop := ∃ c r, rest = c :: r ∧ isIdChar c = false

theorem NoIdNE.noId {rest : List Char} (h : NoIdNE rest) : NoId rest := by
  obtain ⟨c, r, rfl, hc⟩ := h
  exact noId_cons r hc

theorem upper_idChar {c : Char} (h : c.isUpper = true) : isIdChar c = true := by
  simp [isIdChar, Char.isAlphanum, Char.isAlpha, h]

theorem SymName.all_id {l : List Char} (h : SymName l) : ∀ x ∈ l, isIdChar x = true := h.idChars

/-- a name followed by a non-identifier character is never one of the keywords -/
theorem isKeyword_name (l rest : List Char) (hl : ∀ x ∈ l, isIdChar x = true) (hr : NoIdNE rest) :
    isKeyword (l ++ rest) = false := by
  obtain ⟨c, r, rfl, hc⟩ := hr
  have key : ∀ (k : List Char), (∀ x ∈ k, isIdChar x = true) → l ++ c :: r ≠ k := by
    intro k hk e
    have : c ∈ l ++ c :: r := by simp
    rw [e] at this
    rw [hk c this] at hc
    cases hc
  simp only [isKeyword, Bool.or_eq_false_iff, decide_eq_false_iff_not]
  refine ⟨⟨⟨⟨?_, ?_⟩, ?_⟩, ?_⟩, ?_⟩ <;> (apply key; decide)

theorem lexSymConst_append (l rest : List Char) (h : SymName l) (hr : NoIdNE rest) :
    lexSymConst (l ++ rest) = some (l, rest) := by
  unfold lexSymConst
  rw [isKeyword_name l rest h.idChars hr]
  simp only [Bool.false_eq_true, if_false]
  have hn := hr.noId
  rcases h with ⟨c, w, rfl, hc, hw⟩ | ⟨c, w, rfl, hc, hw⟩
  · obtain ⟨t1, t2⟩ := takeWhile_append_stop (p := isIdChar) hw hn
    have hcu : c ≠ '_' := by intro e; subst e; revert hc; decide
    simp only [List.cons_append]
    split
    · rename_i heq; injection heq with e _; exact absurd e hcu
    · rename_i c' r' _ heq
      injection heq with e1 e2
      subst e1; subst e2
      simp [hc, t1, t2]
    · rename_i heq; cases heq
  · obtain ⟨t1, t2⟩ := takeWhile_append_stop (p := isIdChar) hw hn
    simp [hc, t1, t2]

theorem lexUVar_append (l rest : List Char) (h : UVName l) (hr : NoId rest) :
    lexUVar (l ++ rest) = some (l, rest) := by
  unfold lexUVar
  rcases h with ⟨c, w, rfl, hc, hw⟩ | ⟨c, w, rfl, hc, hw⟩
  · obtain ⟨t1, t2⟩ := takeWhile_append_stop (p := isIdChar) hw hr
    have hcu : c ≠ '_' := by intro e; subst e; revert hc; decide
    simp only [List.cons_append]
    split
    · rename_i heq; injection heq with e _; exact absurd e hcu
    · rename_i c' r' _ heq
      injection heq with e1 e2
      subst e1; subst e2
      simp [hc, t1, t2]
    · rename_i heq; cases heq
  · obtain ⟨t1, t2⟩ := takeWhile_append_stop (p := isIdChar) hw hr
    simp [hc, t1, t2]

theorem lexSymConst_none_of_head (c : Char) (r : List Char) (h1 : c.isLower = false) (h2 : c ≠ '_') :
    lexSymConst (c :: r) = none := by
  unfold lexSymConst
  split
  · rfl
  · split
    · rename_i heq; injection heq with e _; exact absurd e h2
    · rename_i c' r' _ heq
      injection heq with e1 _
      subst e1; simp [h1]
    · rename_i heq; cases heq

theorem lexUVar_none_of_head (c : Char) (r : List Char) (h1 : c.isUpper = false) (h2 : c ≠ '_') :
    lexUVar (c :: r) = none := by
  unfold lexUVar
  split
  · rename_i heq; injection heq with e _; exact absurd e h2
  · rename_i c' r' _ heq
    injection heq with e1 _
    subst e1; simp [h1]
  · rename_i heq; cases heq

theorem upper_not_lower {c : Char} (h : c.isUpper = true) : c.isLower = false := by
  simp only [Char.isUpper, Bool.and_eq_true, decide_eq_true_eq] at h
  simp only [Char.isLower, Bool.and_eq_false_iff, decide_eq_false_iff_not]
  left
  intro h'
  have h1 : c.val ≥ 97 := h'
  have h2 : c.val ≤ 90 := h.2
  exact absurd (Nat.le_trans h1 h2) (by decide)

theorem lower_not_upper {c : Char} (h : c.isLower = true) : c.isUpper = false := by
  cases hu : c.isUpper with
  | false => rfl
  | true => have := upper_not_lower hu; rw [h] at this; cases this

/-- a constant name is no variable -/
theorem lexUVar_symName (l rest : List Char) (h : SymName l) : lexUVar (l ++ rest) = none := by
  rcases h with ⟨c, w, rfl, hc, _⟩ | ⟨c, w, rfl, hc, _⟩
  · exact lexUVar_none_of_head c _ (lower_not_upper hc) (by intro e; subst e; revert hc; decide)
  · simp [lexUVar, lower_not_upper hc]

/-- a variable name is no constant -/
theorem lexSymConst_uvName (l rest : List Char) (h : UVName l) : lexSymConst (l ++ rest) = none := by
  rcases h with ⟨c, w, rfl, hc, _⟩ | ⟨c, w, rfl, hc, _⟩
  · exact lexSymConst_none_of_head c _ (upper_not_lower hc) (by intro e; subst e; revert hc; decide)
  · unfold lexSymConst
    split
    · rfl
    · simp [upper_not_lower hc]

/-! ## sort suffixes -/

theorem lexSortWord_hit (first : Char) (more : String) (rest : List Char)
    (hm : ∃ m ms, more.toList = m :: ms ∧ isIdChar m = true) (hr : NoId rest) :
    lexSortWord first more (first :: rest) = some rest := by
  obtain ⟨m, ms, hmm, hid⟩ := hm
  have : stripPrefix more.toList rest = none := by
    rw [hmm]
    cases rest with
    | nil => rfl
    | cons c r =>
      have hc : isIdChar c = false := hr c r rfl
      have : m ≠ c := by intro e; subst e; rw [hid] at hc; cases hc
      simp [stripPrefix, this]
  simp [lexSortWord, this]

theorem lexSortWord_miss (first : Char) (more : String) (c : Char) (r : List Char) (h : c ≠ first) :
    lexSortWord first more (c :: r) = none := by
  simp [lexSortWord, h]

theorem lexSortI_hit (rest : List Char) (hr : NoId rest) : lexSortI ('i' :: rest) = some rest :=
  lexSortWord_hit 'i' "nteger" rest ⟨'n', _, rfl, by decide⟩ hr
theorem lexSortS_hit (rest : List Char) (hr : NoId rest) : lexSortS ('s' :: rest) = some rest :=
  lexSortWord_hit 's' "ymbol" rest ⟨'y', _, rfl, by decide⟩ hr
theorem lexSortG_hit (rest : List Char) (hr : NoId rest) : lexSortG ('g' :: rest) = some rest :=
  lexSortWord_hit 'g' "eneral" rest ⟨'e', _, rfl, by decide⟩ hr

/-! ## sorted constants and variables, as printed (`c$i`, `X$s`, …) -/

theorem lexFnConst_hit (sortLex : List Char → Option (List Char)) (s : Char) (l rest : List Char) (h : SymName l)
    (hs : sortLex (s :: rest) = some rest) : lexFnConst sortLex (l ++ '$' :: s :: rest) = some (l, rest) := by
  simp [lexFnConst, lexSymConst_append l ('$' :: s :: rest) h ⟨'$', _, rfl, by decide⟩, hs]

theorem lexFnConst_miss_sort (sortLex : List Char → Option (List Char)) (s : Char) (l rest : List Char) (h : SymName l)
    (hs : sortLex (s :: rest) = none) : lexFnConst sortLex (l ++ '$' :: s :: rest) = none := by
  simp [lexFnConst, lexSymConst_append l ('$' :: s :: rest) h ⟨'$', _, rfl, by decide⟩, hs]

/-- a constant not followed by `$` is no function constant -/
theorem lexFnConst_plain (sortLex : List Char → Option (List Char)) (l rest : List Char) (h : SymName l)
    (hr : NoIdNE rest) (hd : ∀ r, rest ≠ '$' :: r) : lexFnConst sortLex (l ++ rest) = none := by
  simp only [lexFnConst, lexSymConst_append l rest h hr]
  split
  · rename_i s r heq
    injection heq with heq; injection heq with _ e2
    exact absurd e2 (hd r)
  · rfl

theorem lexFnConst_none_of_symConst (sortLex : List Char → Option (List Char)) (cs : List Char)
    (h : lexSymConst cs = none) : lexFnConst sortLex cs = none := by
  simp [lexFnConst, h]

end Anthem.Fol
