/-
  The two Pratt parsers of the target language invert the printers' parenthesisation
  (pair level): integer terms (`ipratt (iflat t) = some t`) and formulas
  (`fpratt (fflat f) = some f`), for all nestings. `iflat`/`fflat` are the pair sequences of the
  printed text: an operand that the printer parenthesises is one primary pair.
-/
import AnthemModel.Model.FolParse
import AnthemModel.Model.Print
namespace Anthem.Fol

/-! ## integer terms -/

def iflat : ITerm → List ITok
  | .num n => [.prim (.num n)]
  | .fc c => [.prim (.fc c)]
  | .var x => [.prim (.var x)]
  | .neg a => .neg :: (if 0 < a.prec then [.prim a] else iflat a)
  | .bin op l r =>
    (if (ITerm.bin op l r).prec < l.prec then [.prim l] else iflat l) ++ [.op op] ++
      (if ((ITerm.bin op l r).prec < r.prec || (ITerm.bin op l r).prec = r.prec) then [.prim r] else iflat r)

def ibpTop : ITerm → Nat
  | .bin op _ _ => IOp.bp op
  | _ => 100

def IRestOK (bound : Nat) (rest : List ITok) : Prop :=
  rest = [] ∨ ∃ o r', rest = .op o :: r' ∧ IOp.bp o ≤ bound

theorem IOp.bp_le (o : IOp) : IOp.bp o ≤ 30 := by cases o <;> simp [IOp.bp]
theorem IOp.bp_ge (o : IOp) : 20 ≤ IOp.bp o := by cases o <;> simp [IOp.bp]

theorem ibin_prec (op : IOp) (l r : ITerm) : (ITerm.bin op l r).prec = 5 - IOp.bp op / 10 := by
  cases op <;> simp [ITerm.prec, IOp.bp]

theorem ileft_unparen (op : IOp) (l r : ITerm) (h : ¬ (ITerm.bin op l r).prec < l.prec) : IOp.bp op ≤ ibpTop l := by
  cases l with
  | bin op' l' r' =>
    rw [ibin_prec, ibin_prec] at h
    simp only [ibpTop]
    cases op <;> cases op' <;> simp [IOp.bp] at h ⊢
  | num _ | fc _ | var _ | neg _ => have := IOp.bp_le op; simp only [ibpTop]; omega

theorem iright_unparen (op : IOp) (l r : ITerm)
    (h : ¬ ((ITerm.bin op l r).prec < r.prec || (ITerm.bin op l r).prec = r.prec) = true) : IOp.bp op < ibpTop r := by
  cases r with
  | bin op' l' r' =>
    rw [ibin_prec, ibin_prec] at h
    simp only [ibpTop]
    cases op <;> cases op' <;> simp [IOp.bp] at h ⊢
  | num _ | fc _ | var _ | neg _ => have := IOp.bp_le op; simp only [ibpTop]; omega

theorem ineg_unparen (a : ITerm) (h : ¬ 0 < a.prec) : ibpTop a = 100 := by
  cases a with
  | bin op l r => rw [ibin_prec] at h; have := IOp.bp_le op; omega
  | num _ | fc _ | var _ | neg _ => rfl

theorem iloop_stop (fuel rbp : Nat) (lhs : ITerm) (rest : List ITok) (hf : 0 < fuel)
    (h : IRestOK rbp rest) : iprattLoop fuel rbp lhs rest = some (lhs, rest) := by
  obtain ⟨f, rfl⟩ : ∃ f, fuel = f + 1 := ⟨fuel - 1, by omega⟩
  rcases h with rfl | ⟨o, r', rfl, ho⟩
  · simp [iprattLoop]
  · have : ¬ rbp < IOp.bp o := by omega
    simp [iprattLoop, this]

theorem ipratt_flat : ∀ (t : ITerm) (rbp : Nat) (rest : List ITok) (fuel : Nat),
    rbp < ibpTop t → IRestOK (ibpTop t) rest → 2 * (iflat t ++ rest).length < fuel →
    ∃ fuel', 2 * rest.length < fuel' ∧ iprattExpr fuel rbp (iflat t ++ rest) = iprattLoop fuel' rbp t rest := by
  intro t
  have leaf : ∀ (t : ITerm), iflat t = [.prim t] → ∀ (rbp : Nat) (rest : List ITok) (fuel : Nat),
      2 * (iflat t ++ rest).length < fuel →
      ∃ fuel', 2 * rest.length < fuel' ∧ iprattExpr fuel rbp (iflat t ++ rest) = iprattLoop fuel' rbp t rest := by
    intro t ht rbp rest fuel hf
    obtain ⟨f, rfl⟩ : ∃ f, fuel = f + 1 := ⟨fuel - 1, by omega⟩
    rw [ht] at hf ⊢
    simp only [List.cons_append, List.nil_append, List.length_cons] at hf ⊢
    exact ⟨f, by omega, by simp [iprattExpr]⟩
  induction t with
  | num n => intro rbp rest fuel _ _ hf; exact leaf _ rfl rbp rest fuel hf
  | fc c => intro rbp rest fuel _ _ hf; exact leaf _ rfl rbp rest fuel hf
  | var x => intro rbp rest fuel _ _ hf; exact leaf _ rfl rbp rest fuel hf
  | neg a iha =>
    intro rbp rest fuel _ hrest hf
    obtain ⟨f, rfl⟩ : ∃ f, fuel = f + 1 := ⟨fuel - 1, by omega⟩
    simp only [iflat, List.cons_append, List.length_cons] at hf ⊢
    have hstop : ∀ f', 0 < f' → iprattLoop f' 39 a rest = some (a, rest) := by
      intro f' hf'
      refine iloop_stop f' 39 a rest hf' ?_
      rcases hrest with rfl | ⟨o, r', rfl, _⟩
      · exact Or.inl rfl
      · exact Or.inr ⟨o, r', rfl, by have := IOp.bp_le o; omega⟩
    by_cases hp : 0 < a.prec
    · simp only [hp, if_true, List.cons_append, List.nil_append, List.length_cons] at hf ⊢
      obtain ⟨f2, rfl⟩ : ∃ f2, f = f2 + 1 := ⟨f - 1, by omega⟩
      refine ⟨f2 + 1, by omega, ?_⟩
      simp only [iprattExpr]
      rw [hstop f2 (by omega)]
    · simp only [hp, if_false] at hf ⊢
      have hb := ineg_unparen a hp
      obtain ⟨f', hf', he⟩ := iha 39 rest f (by omega)
        (by
          rcases hrest with rfl | ⟨o, r', rfl, _⟩
          · exact Or.inl rfl
          · exact Or.inr ⟨o, r', rfl, by have := IOp.bp_le o; omega⟩) (by omega)
      refine ⟨f, by simp only [List.length_append] at hf; omega, ?_⟩
      simp only [iprattExpr]
      rw [he, hstop f' (by omega)]
  | bin op l r ihl ihr =>
    intro rbp rest fuel hrbp hrest hf
    simp only [ibpTop] at hrbp hrest
    have hright : ∀ f, 2 * ((if ((ITerm.bin op l r).prec < r.prec || (ITerm.bin op l r).prec = r.prec) then [ITok.prim r] else iflat r) ++ rest).length < f →
        iprattExpr f (IOp.bp op) ((if ((ITerm.bin op l r).prec < r.prec || (ITerm.bin op l r).prec = r.prec) then [ITok.prim r] else iflat r) ++ rest) = some (r, rest) := by
      intro f hf2
      have hstop : ∀ f', 0 < f' → iprattLoop f' (IOp.bp op) r rest = some (r, rest) :=
        fun f' hf' => iloop_stop f' (IOp.bp op) r rest hf' hrest
      by_cases hp : ((ITerm.bin op l r).prec < r.prec || (ITerm.bin op l r).prec = r.prec) = true
      · simp only [hp, if_true, List.cons_append, List.nil_append, List.length_cons] at hf2 ⊢
        obtain ⟨f2, rfl⟩ : ∃ f2, f = f2 + 1 := ⟨f - 1, by omega⟩
        simp only [iprattExpr]
        exact hstop f2 (by omega)
      · simp only [hp, Bool.false_eq_true, if_false] at hf2 ⊢
        have hb := iright_unparen op l r hp
        obtain ⟨f', hf', he⟩ := ihr (IOp.bp op) rest f hb
          (by
            rcases hrest with rfl | ⟨o, r', rfl, ho⟩
            · exact Or.inl rfl
            · exact Or.inr ⟨o, r', rfl, by omega⟩) hf2
        rw [he]; exact hstop f' (by omega)
    have hcont : ∀ f, 2 * (ITok.op op :: ((if ((ITerm.bin op l r).prec < r.prec || (ITerm.bin op l r).prec = r.prec) then [ITok.prim r] else iflat r) ++ rest)).length < f →
        ∃ f', 2 * rest.length < f' ∧
          iprattLoop f rbp l (ITok.op op :: ((if ((ITerm.bin op l r).prec < r.prec || (ITerm.bin op l r).prec = r.prec) then [ITok.prim r] else iflat r) ++ rest)) =
            iprattLoop f' rbp (.bin op l r) rest := by
      intro f hf2
      obtain ⟨f2, rfl⟩ : ∃ f2, f = f2 + 1 := ⟨f - 1, by omega⟩
      simp only [List.length_cons] at hf2
      refine ⟨f2, by simp only [List.length_append] at hf2; omega, ?_⟩
      simp only [iprattLoop, hrbp, if_true]
      rw [hright f2 (by omega)]
    simp only [iflat, List.append_assoc, List.cons_append, List.nil_append] at hf ⊢
    by_cases hp : (ITerm.bin op l r).prec < l.prec
    · simp only [hp, if_true, List.cons_append, List.nil_append, List.length_cons] at hf ⊢
      obtain ⟨f, rfl⟩ : ∃ f, fuel = f + 1 := ⟨fuel - 1, by omega⟩
      obtain ⟨f', hf', he⟩ := hcont f (by simp only [List.length_cons]; omega)
      exact ⟨f', hf', by simp only [iprattExpr]; exact he⟩
    · simp only [hp, if_false] at hf ⊢
      have hb := ileft_unparen op l r hp
      obtain ⟨f1, hf1, he1⟩ := ihl rbp (ITok.op op :: ((if ((ITerm.bin op l r).prec < r.prec || (ITerm.bin op l r).prec = r.prec) then [ITok.prim r] else iflat r) ++ rest)) fuel
        (by omega) (Or.inr ⟨op, _, rfl, hb⟩) hf
      obtain ⟨f', hf', he⟩ := hcont f1 hf1
      exact ⟨f', hf', by rw [he1, he]⟩

/-- **The integer-term Pratt parser returns the printed term.** -/
theorem ipratt_flat_eq (t : ITerm) : ipratt (iflat t) = some t := by
  unfold ipratt
  have h0 : 0 < ibpTop t := by
    cases t with
    | bin op _ _ => have := IOp.bp_ge op; simp only [ibpTop]; omega
    | num _ | fc _ | var _ | neg _ => simp [ibpTop]
  obtain ⟨f', hf', he⟩ := ipratt_flat t 0 [] (2 * (iflat t).length + 2) h0 (Or.inl rfl) (by simp)
  rw [List.append_nil] at he
  rw [he, iloop_stop f' 0 t [] (by omega) (Or.inl rfl)]

/-! ## formulas -/

/-- the printer parenthesises an operand of a prefix operator -/
def parenPrefix (f : Formula) : Bool := f.mandatory || decide (1 < f.prec)

def parenLeft (c : Conn) (l r : Formula) : Bool :=
  l.mandatory || decide ((Formula.bin c l r).prec < l.prec) || (decide ((Formula.bin c l r).prec = l.prec) && l.rightAssoc)

def parenRight (c : Conn) (l r : Formula) : Bool :=
  (decide (c = .rimp) && r.beginsWithComparison) || r.mandatory || decide ((Formula.bin c l r).prec < r.prec) ||
    (decide ((Formula.bin c l r).prec = r.prec) && !(Formula.bin c l r).rightAssoc)

def fflat : Formula → List FTok
  | .atomic a => [.prim (.atomic a)]
  | .not f => .pneg :: (if parenPrefix f then [.prim f] else fflat f)
  | .quant q vs f => .pquant q vs :: (if parenPrefix f then [.prim f] else fflat f)
  | .bin c l r =>
    (if parenLeft c l r then [.prim l] else fflat l) ++ [.op c] ++ (if parenRight c l r then [.prim r] else fflat r)

def fbpTop : Formula → Nat
  | .bin c _ _ => Conn.bp c
  | _ => 100

/-- the strongest operator that may follow the formula when it is an unparenthesised operand -/
def restBound : Formula → Nat
  | .bin .and _ _ => 40
  | .bin .or _ _ => 30
  | .bin _ _ _ => 19
  | _ => 100

def FRestOK (bound : Nat) (rest : List FTok) : Prop :=
  rest = [] ∨ ∃ o r', rest = .op o :: r' ∧ Conn.bp o ≤ bound

theorem Conn.bp_le (c : Conn) : Conn.bp c ≤ 40 := by cases c <;> simp [Conn.bp]
theorem Conn.bp_ge (c : Conn) : 20 ≤ Conn.bp c := by cases c <;> simp [Conn.bp]
theorem Conn.rbp_le (c : Conn) : Conn.rbp c ≤ Conn.bp c := by cases c <;> simp [Conn.bp, Conn.rbp]

theorem prefix_unparen (f : Formula) (h : parenPrefix f = false) : fbpTop f = 100 ∧ restBound f = 100 := by
  cases f with
  | bin c l r => cases c <;> simp [parenPrefix, Formula.mandatory, Formula.prec] at h
  | atomic _ | not _ | quant _ _ _ => exact ⟨rfl, rfl⟩

theorem left_unparenF (c : Conn) (l r : Formula) (h : parenLeft c l r = false) :
    Conn.bp c ≤ fbpTop l ∧ Conn.bp c ≤ restBound l := by
  cases l with
  | bin c' l' r' =>
    cases c <;> cases c' <;>
      simp [parenLeft, Formula.mandatory, Formula.prec, Formula.rightAssoc, fbpTop, restBound, Conn.bp] at h ⊢
  | atomic _ | not _ | quant _ _ _ => have := Conn.bp_le c; simp only [fbpTop, restBound]; omega

theorem right_unparenF (c : Conn) (l r : Formula) (h : parenRight c l r = false) :
    Conn.rbp c < fbpTop r ∧ restBound (.bin c l r) ≤ restBound r := by
  cases r with
  | bin c' l' r' =>
    cases c <;> cases c' <;>
      simp [parenRight, Formula.mandatory, Formula.prec, Formula.rightAssoc, fbpTop, restBound, Conn.bp, Conn.rbp] at h ⊢
  | atomic _ | not _ | quant _ _ _ =>
    have := Conn.rbp_le c; have := Conn.bp_le c
    refine ⟨by simp only [fbpTop]; omega, ?_⟩
    cases c <;> simp [restBound]

/-- after the right operand of `c`, an operator allowed after the whole formula does not bind
    tighter than the right binding power used for that operand -/
theorem rest_stops (c : Conn) (l r : Formula) (o : Conn) (h : Conn.bp o ≤ restBound (.bin c l r)) :
    ¬ Conn.rbp c < Conn.bp o := by
  cases c <;> simp [restBound, Conn.rbp] at h ⊢ <;> omega

theorem floop_stop (fuel rbp : Nat) (lhs : Formula) (rest : List FTok) (hf : 0 < fuel)
    (h : rest = [] ∨ ∃ o r', rest = .op o :: r' ∧ ¬ rbp < Conn.bp o) :
    fprattLoop fuel rbp lhs rest = some (lhs, rest) := by
  obtain ⟨f, rfl⟩ : ∃ f, fuel = f + 1 := ⟨fuel - 1, by omega⟩
  rcases h with rfl | ⟨o, r', rfl, ho⟩
  · simp [fprattLoop]
  · simp [fprattLoop, ho]

theorem fpratt_flat : ∀ (g : Formula) (rbp : Nat) (rest : List FTok) (fuel : Nat),
    rbp < fbpTop g → FRestOK (restBound g) rest → 2 * (fflat g ++ rest).length < fuel →
    ∃ fuel', 2 * rest.length < fuel' ∧ fprattExpr fuel rbp (fflat g ++ rest) = fprattLoop fuel' rbp g rest := by
  intro g
  induction g with
  | atomic a =>
    intro rbp rest fuel _ _ hf
    obtain ⟨f, rfl⟩ : ∃ f, fuel = f + 1 := ⟨fuel - 1, by omega⟩
    simp only [fflat, List.cons_append, List.nil_append, List.length_cons] at hf ⊢
    exact ⟨f, by omega, by simp [fprattExpr]⟩
  | not a iha =>
    intro rbp rest fuel _ hrest hf
    obtain ⟨f, rfl⟩ : ∃ f, fuel = f + 1 := ⟨fuel - 1, by omega⟩
    simp only [fflat, List.cons_append, List.length_cons] at hf ⊢
    have hstop : ∀ f', 0 < f' → fprattLoop f' 49 a rest = some (a, rest) := by
      intro f' hf'
      refine floop_stop f' 49 a rest hf' ?_
      rcases hrest with rfl | ⟨o, r', rfl, _⟩
      · exact Or.inl rfl
      · exact Or.inr ⟨o, r', rfl, by have := Conn.bp_le o; omega⟩
    by_cases hp : parenPrefix a = true
    · simp only [hp, if_true, List.cons_append, List.nil_append, List.length_cons] at hf ⊢
      obtain ⟨f2, rfl⟩ : ∃ f2, f = f2 + 1 := ⟨f - 1, by omega⟩
      refine ⟨f2 + 1, by omega, ?_⟩
      simp only [fprattExpr]
      rw [hstop f2 (by omega)]
    · have hp' : parenPrefix a = false := by simpa using hp
      simp only [hp', Bool.false_eq_true, if_false] at hf ⊢
      obtain ⟨hb1, hb2⟩ := prefix_unparen a hp'
      obtain ⟨f', hf', he⟩ := iha 49 rest f (by omega)
        (by
          rcases hrest with rfl | ⟨o, r', rfl, _⟩
          · exact Or.inl rfl
          · exact Or.inr ⟨o, r', rfl, by have := Conn.bp_le o; omega⟩) (by omega)
      refine ⟨f, by simp only [List.length_append] at hf; omega, ?_⟩
      simp only [fprattExpr]
      rw [he, hstop f' (by omega)]
  | quant q vs a iha =>
    intro rbp rest fuel _ hrest hf
    obtain ⟨f, rfl⟩ : ∃ f, fuel = f + 1 := ⟨fuel - 1, by omega⟩
    simp only [fflat, List.cons_append, List.length_cons] at hf ⊢
    have hstop : ∀ f', 0 < f' → fprattLoop f' 49 a rest = some (a, rest) := by
      intro f' hf'
      refine floop_stop f' 49 a rest hf' ?_
      rcases hrest with rfl | ⟨o, r', rfl, _⟩
      · exact Or.inl rfl
      · exact Or.inr ⟨o, r', rfl, by have := Conn.bp_le o; omega⟩
    by_cases hp : parenPrefix a = true
    · simp only [hp, if_true, List.cons_append, List.nil_append, List.length_cons] at hf ⊢
      obtain ⟨f2, rfl⟩ : ∃ f2, f = f2 + 1 := ⟨f - 1, by omega⟩
      refine ⟨f2 + 1, by omega, ?_⟩
      simp only [fprattExpr]
      rw [hstop f2 (by omega)]
    · have hp' : parenPrefix a = false := by simpa using hp
      simp only [hp', Bool.false_eq_true, if_false] at hf ⊢
      obtain ⟨hb1, hb2⟩ := prefix_unparen a hp'
      obtain ⟨f', hf', he⟩ := iha 49 rest f (by omega)
        (by
          rcases hrest with rfl | ⟨o, r', rfl, _⟩
          · exact Or.inl rfl
          · exact Or.inr ⟨o, r', rfl, by have := Conn.bp_le o; omega⟩) (by omega)
      refine ⟨f, by simp only [List.length_append] at hf; omega, ?_⟩
      simp only [fprattExpr]
      rw [he, hstop f' (by omega)]
  | bin c l r ihl ihr =>
    intro rbp rest fuel hrbp hrest hf
    simp only [fbpTop] at hrbp
    have hstopR : ∀ f', 0 < f' → fprattLoop f' (Conn.rbp c) r rest = some (r, rest) := by
      intro f' hf'
      refine floop_stop f' (Conn.rbp c) r rest hf' ?_
      rcases hrest with rfl | ⟨o, r', rfl, ho⟩
      · exact Or.inl rfl
      · exact Or.inr ⟨o, r', rfl, rest_stops c l r o ho⟩
    have hright : ∀ f, 2 * ((if parenRight c l r then [FTok.prim r] else fflat r) ++ rest).length < f →
        fprattExpr f (Conn.rbp c) ((if parenRight c l r then [FTok.prim r] else fflat r) ++ rest) = some (r, rest) := by
      intro f hf2
      by_cases hp : parenRight c l r = true
      · simp only [hp, if_true, List.cons_append, List.nil_append, List.length_cons] at hf2 ⊢
        obtain ⟨f2, rfl⟩ : ∃ f2, f = f2 + 1 := ⟨f - 1, by omega⟩
        simp only [fprattExpr]
        exact hstopR f2 (by omega)
      · have hp' : parenRight c l r = false := by simpa using hp
        simp only [hp', Bool.false_eq_true, if_false] at hf2 ⊢
        obtain ⟨hb1, hb2⟩ := right_unparenF c l r hp'
        obtain ⟨f', hf', he⟩ := ihr (Conn.rbp c) rest f hb1
          (by
            rcases hrest with rfl | ⟨o, r', rfl, ho⟩
            · exact Or.inl rfl
            · exact Or.inr ⟨o, r', rfl, by omega⟩) hf2
        rw [he]; exact hstopR f' (by omega)
    have hcont : ∀ f, 2 * (FTok.op c :: ((if parenRight c l r then [FTok.prim r] else fflat r) ++ rest)).length < f →
        ∃ f', 2 * rest.length < f' ∧
          fprattLoop f rbp l (FTok.op c :: ((if parenRight c l r then [FTok.prim r] else fflat r) ++ rest)) =
            fprattLoop f' rbp (.bin c l r) rest := by
      intro f hf2
      obtain ⟨f2, rfl⟩ : ∃ f2, f = f2 + 1 := ⟨f - 1, by omega⟩
      simp only [List.length_cons] at hf2
      refine ⟨f2, by simp only [List.length_append] at hf2; omega, ?_⟩
      simp only [fprattLoop, hrbp, if_true]
      rw [hright f2 (by omega)]
    simp only [fflat, List.append_assoc, List.cons_append, List.nil_append] at hf ⊢
    by_cases hp : parenLeft c l r = true
    · simp only [hp, if_true, List.cons_append, List.nil_append, List.length_cons] at hf ⊢
      obtain ⟨f, rfl⟩ : ∃ f, fuel = f + 1 := ⟨fuel - 1, by omega⟩
      obtain ⟨f', hf', he⟩ := hcont f (by simp only [List.length_cons]; omega)
      exact ⟨f', hf', by simp only [fprattExpr]; exact he⟩
    · have hp' : parenLeft c l r = false := by simpa using hp
      simp only [hp', Bool.false_eq_true, if_false] at hf ⊢
      obtain ⟨hb1, hb2⟩ := left_unparenF c l r hp'
      obtain ⟨f1, hf1, he1⟩ := ihl rbp (FTok.op c :: ((if parenRight c l r then [FTok.prim r] else fflat r) ++ rest)) fuel
        (by omega) (Or.inr ⟨c, _, rfl, hb2⟩) hf
      obtain ⟨f', hf', he⟩ := hcont f1 hf1
      exact ⟨f', hf', by rw [he1, he]⟩

/-- **The formula Pratt parser returns the printed formula**: every nesting of the five
    connectives, negation and quantifiers, with the printer's parentheses (mandatory around
    `<->`, `->`, `<-` operands, by precedence and associativity elsewhere). -/
theorem fpratt_flat_eq (g : Formula) : fpratt (fflat g) = some g := by
  unfold fpratt
  have h0 : 0 < fbpTop g := by
    cases g with
    | bin c _ _ => have := Conn.bp_ge c; simp only [fbpTop]; omega
    | atomic _ | not _ | quant _ _ _ => simp [fbpTop]
  obtain ⟨f', hf', he⟩ := fpratt_flat g 0 [] (2 * (fflat g).length + 2) h0 (Or.inl rfl) (by simp)
  rw [List.append_nil] at he
  rw [he, floop_stop f' 0 g [] (by omega) (Or.inl rfl)]

end Anthem.Fol
