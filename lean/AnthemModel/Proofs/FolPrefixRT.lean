/-
  Formula level of the target-language round trip, part 1: the character-list printer of
  formulas, and what the prefix lexers (`not`, `forall`/`exists` with their variable lists) do on
  printed text.
-/
import AnthemModel.Proofs.FolAtomRT
namespace Anthem.Fol
open Anthem.Asp (isWs skip stripPrefix isIdChar isNonzeroDigit SymName NoId StopsAt Solid StartsSolid
  takeWhile_append_stop noId_cons skip_cons_solid skip_of_startsSolid skip_space stripPrefix_head_ne parenLL parenIf_toList
  parenLL_startsSolid)

/-! ## printers -/

def Var.printL (v : Var) : List Char :=
  match v.sort with
  | .general => v.name.toList
  | .integer => v.name.toList ++ ['$', 'i']
  | .symbol => v.name.toList ++ ['$', 's']

def varsL : List Var → List Char
  | [] => []
  | v :: vs => ' ' :: (Var.printL v ++ varsL vs)

def Conn.printL : Conn → List Char
  | .iff => [' ', '<', '-', '>', ' ']
  | .imp => [' ', '-', '>', ' ']
  | .rimp => [' ', '<', '-', ' ']
  | .and => [' ', 'a', 'n', 'd', ' ']
  | .or => [' ', 'o', 'r', ' ']

def qwordL : Quant → List Char
  | .all => ['f', 'o', 'r', 'a', 'l', 'l']
  | .ex => ['e', 'x', 'i', 's', 't', 's']

def startsWithVarL (l : List Char) : Bool :=
  match l.head? with
  | some c => c = '_' || c.isUpper
  | none => false

/-- parentheses around the body of a quantifier -/
def quantBodyParen : Formula → Bool
  | .atomic a => startsWithVarL (AtomicF.printL a)
  | f => parenPrefix f

def Formula.printL : Formula → List Char
  | .atomic a => AtomicF.printL a
  | .not f => 'n' :: 'o' :: 't' :: ' ' :: parenLL (parenPrefix f) (Formula.printL f)
  | .quant q vs f => qwordL q ++ (varsL vs ++ ' ' :: parenLL (quantBodyParen f) (Formula.printL f))
  | .bin c l r =>
    parenLL (parenLeft c l r) (Formula.printL l) ++ (Conn.printL c ++ parenLL (parenRight c l r) (Formula.printL r))

theorem Var.print_toList (v : Var) : v.print.toList = Var.printL v := by
  obtain ⟨n, s⟩ := v
  cases s <;> simp [Var.print, Var.display, Var.printL, String.toList_append]

theorem vars_toList (vs : List Var) : (String.join (vs.map fun v => " " ++ v.print)).toList = varsL vs := by
  induction vs with
  | nil => rfl
  | cons v vs ih =>
    simp only [List.map_cons, String.join_cons, String.toList_append, ih, varsL, Var.print_toList]
    rfl

theorem Conn.print_toList (c : Conn) : c.print.toList = Conn.printL c := by cases c <;> rfl

theorem startsWithVariable_eq (s : String) : startsWithVariable s = startsWithVarL s.toList := rfl

/-- the text in front of a quantifier body -/
def qop (q : Quant) (vs : List Var) : String :=
  (match q with | .all => "forall" | .ex => "exists") ++ String.join (vs.map fun v => " " ++ v.print) ++ " "

def qbody (f : Formula) : String :=
  match f with
  | .atomic _ => if startsWithVariable f.print then "(" ++ f.print ++ ")" else f.print
  | _ => parenIf (f.mandatory || 1 < f.prec) f.print

theorem qop_toList (q : Quant) (vs : List Var) : (qop q vs).toList = qwordL q ++ (varsL vs ++ [' ']) := by
  simp only [qop, String.toList_append, vars_toList, List.append_assoc]
  cases q <;> rfl

theorem quant_print_eq (q : Quant) (vs : List Var) (f : Formula) :
    Formula.print (.quant q vs f) = qop q vs ++ qbody f := by
  cases f with
  | atomic a =>
    by_cases h : startsWithVariable a.print = true
    · simp only [Formula.print, qop, qbody, h, if_true, String.append_assoc]
      cases q <;> rfl
    · simp only [Formula.print, qop, qbody, h, Bool.false_eq_true, if_false, String.append_assoc]
      cases q <;> rfl
  | not g => rfl
  | quant q' vs' g => rfl
  | bin c l r => rfl

theorem qbody_toList (f : Formula) : (qbody f).toList = parenLL (quantBodyParen f) f.print.toList := by
  cases f with
  | atomic a =>
    simp only [qbody, quantBodyParen, startsWithVariable_eq, Formula.print, ← AtomicF.print_toList]
    by_cases h : startsWithVarL a.print.toList = true
    · simp [h, parenLL, String.toList_append]
    · have h0 : startsWithVarL a.print.toList = false := by simpa using h
      simp [h0, parenLL]
  | not g => simp only [qbody, quantBodyParen, parenPrefix, parenIf_toList]
  | quant q' vs' g => simp only [qbody, quantBodyParen, parenPrefix, parenIf_toList]
  | bin c l r => simp only [qbody, quantBodyParen, parenPrefix, parenIf_toList]

theorem quant_print_toList (q : Quant) (vs : List Var) (f : Formula) (ih : f.print.toList = Formula.printL f) :
    (Formula.print (.quant q vs f)).toList =
      qwordL q ++ (varsL vs ++ ' ' :: parenLL (quantBodyParen f) (Formula.printL f)) := by
  rw [quant_print_eq, String.toList_append, qop_toList, qbody_toList, ih]
  simp [List.append_assoc]

theorem Formula.print_toList : ∀ f : Formula, f.print.toList = Formula.printL f
  | .atomic a => by simp [Formula.print, Formula.printL, AtomicF.print_toList]
  | .not f => by
    simp only [Formula.print, Formula.printL, String.toList_append, parenIf_toList, Formula.print_toList f, parenPrefix]
    rfl
  | .quant q vs f => by
    rw [quant_print_toList q vs f (Formula.print_toList f)]
    rfl
  | .bin c l r => by
    simp only [Formula.print, Formula.printL, String.toList_append, parenIf_toList, Formula.print_toList l,
      Formula.print_toList r, Conn.print_toList, parenLeft, parenRight, List.append_assoc]

/-! ## names that cannot be mistaken for a prefix keyword -/

/-- a keyword matched at the start of `name ++ X` is a prefix of the name -/
theorem stripPrefix_name : ∀ (kw l X r : List Char), (∀ x ∈ kw, isIdChar x = true) → NoId X →
    stripPrefix kw (l ++ X) = some r → ∃ l', l = kw ++ l' ∧ r = l' ++ X := by
  intro kw
  induction kw with
  | nil => intro l X r _ _ h; simp [stripPrefix] at h; exact ⟨l, rfl, h.symm⟩
  | cons k ks ih =>
    intro l X r hk hX h
    cases l with
    | nil =>
      cases X with
      | nil => simp [stripPrefix] at h
      | cons c X' =>
        simp only [List.nil_append, stripPrefix] at h
        split at h
        · rename_i e
          have := hX c X' rfl
          rw [← e, hk k List.mem_cons_self] at this
          cases this
        · cases h
    | cons c l2 =>
      simp only [List.cons_append, stripPrefix] at h
      split at h
      · rename_i e
        obtain ⟨l', e1, e2⟩ := ih l2 X r (fun x hx => hk x (List.mem_cons_of_mem _ hx)) hX h
        exact ⟨l', by rw [e, e1]; rfl, e2⟩
      · cases h

theorem notIdNext_cons_id {c : Char} (r : List Char) (h : isIdChar c = true) : notIdNext (c :: r) = false := by
  simp [notIdNext, h]

/-- the three keyword tests on a name that is none of the keywords -/
theorem keyword_miss (kw l X : List Char) (hk : ∀ x ∈ kw, isIdChar x = true) (hl : ∀ x ∈ l, isIdChar x = true)
    (hne : l ≠ kw) (hX : NoId X) :
    stripPrefix kw (l ++ X) = none ∨ ∃ r, stripPrefix kw (l ++ X) = some r ∧ notIdNext r = false := by
  cases h : stripPrefix kw (l ++ X) with
  | none => exact Or.inl rfl
  | some r =>
    right
    obtain ⟨l', e1, e2⟩ := stripPrefix_name kw l X r hk hX h
    refine ⟨r, rfl, ?_⟩
    cases l' with
    | nil => exact absurd (by simpa using e1) hne
    | cons c l'' =>
      rw [e2]
      exact notIdNext_cons_id _ (hl c (by rw [e1]; simp))

theorem notWordNext_of_notIdNext {r : List Char} (h : notIdNext r = false) : notWordNext r = false := by
  cases r with
  | nil => simp [notIdNext] at h
  | cons c r' =>
    simp only [notIdNext, Bool.not_eq_false'] at h
    simp [notWordNext, h]

theorem variablesL_none (n : Nat) (r : List Char) (h : lexVariable (skip r) = none) : variablesL n r = ([], r) := by
  cases n with
  | zero => rfl
  | succ n => simp [variablesL, h]

/-- a quantifier keyword is not matched, or continues as an identifier, or is followed by no variable -/
def QuantMiss (kw : List Char) (cs : List Char) : Prop :=
  stripPrefix kw cs = none ∨ ∃ r, stripPrefix kw cs = some r ∧ (notIdNext r = false ∨ ∀ n, variablesL n r = ([], r))

theorem prefixL_of_misses (cs : List Char) (h1 : QuantMiss "forall".toList cs) (h2 : QuantMiss "exists".toList cs)
    (h3 : stripPrefix "not".toList cs = none ∨ ∃ r, stripPrefix "not".toList cs = some r ∧ notWordNext r = false) :
    prefixL cs = none := by
  unfold prefixL
  rcases h1 with h1 | ⟨r1, h1, n1 | n1⟩ <;> rcases h2 with h2 | ⟨r2, h2, n2 | n2⟩ <;> rcases h3 with h3 | ⟨r3, h3, n3⟩ <;>
    simp only [*, Bool.false_eq_true, if_false, ite_self]

/-- a name at the start of the text is not taken for a prefix keyword: it is none of them, or it is
    `forall` / `exists` followed by no variable, or it is `not` followed by `$` -/
theorem prefixL_name (l X : List Char) (hs : SymName l) (hnot : l ≠ ['n', 'o', 't'] ∨ ∃ r, X = '$' :: r)
    (hX : NoId X) (hv : lexVariable (skip X) = none) : prefixL (l ++ X) = none := by
  have quant : ∀ kw : List Char, (∀ x ∈ kw, isIdChar x = true) → QuantMiss kw (l ++ X) := by
    intro kw hk
    by_cases e : l = kw
    · right
      refine ⟨X, ?_, Or.inr (fun n => variablesL_none n X hv)⟩
      subst e
      clear hs hnot
      induction l with
      | nil => rfl
      | cons a l ih => simp [stripPrefix, ih (fun x hx => hk x (List.mem_cons_of_mem _ hx))]
    · rcases keyword_miss kw l X hk hs.idChars e hX with h | ⟨r, h1, h2⟩
      · exact Or.inl h
      · exact Or.inr ⟨r, h1, Or.inl h2⟩
  refine prefixL_of_misses _ (quant _ (by decide)) (quant _ (by decide)) ?_
  by_cases e : l = ['n', 'o', 't']
  · rcases hnot with hnot | ⟨r, rfl⟩
    · exact absurd e hnot
    · right
      refine ⟨'$' :: r, by subst e; rfl, by simp [notWordNext, isIdChar]⟩
  · rcases keyword_miss "not".toList l X (by decide) hs.idChars e hX with h | ⟨r, h1, h2⟩
    · exact Or.inl h
    · exact Or.inr ⟨r, h1, notWordNext_of_notIdNext h2⟩

/-- text that does not start with one of `f`, `e`, `n` has no prefix operator in front -/
theorem prefixL_head (c : Char) (r : List Char) (h1 : c ≠ 'f') (h2 : c ≠ 'e') (h3 : c ≠ 'n') : prefixL (c :: r) = none :=
  prefixL_of_misses _ (Or.inl (stripPrefix_head_ne _ _ (Ne.symm h1))) (Or.inl (stripPrefix_head_ne _ _ (Ne.symm h2)))
    (Or.inl (stripPrefix_head_ne _ _ (Ne.symm h3)))

theorem prefixL_not (X : List Char) : prefixL ('n' :: 'o' :: 't' :: ' ' :: X) = some (.pneg, ' ' :: X) := by
  simp [prefixL, stripPrefix, notWordNext, isIdChar]

/-! ## variable lists -/

def Var.WF (v : Var) : Prop := UVName v.name.toList

theorem lexVariable_printL (v : Var) (hv : Var.WF v) (Y : List Char) :
    lexVariable (Var.printL v ++ ' ' :: Y) = some (v, ' ' :: Y) := by
  obtain ⟨n, s⟩ := v
  have hs : UVName n.toList := hv
  have hY : NoId (' ' :: Y) := noId_cons Y (by decide)
  cases s with
  | general =>
    have huv := lexUVar_append n.toList (' ' :: Y) hs hY
    simp [Var.printL, lexVariable, lexIntVar, lexSymVar, lexGenVar, huv]
  | integer =>
    have e : Var.printL ⟨n, .integer⟩ ++ ' ' :: Y = n.toList ++ '$' :: 'i' :: ' ' :: Y := by simp [Var.printL]
    rw [e]
    have huv := lexUVar_append n.toList ('$' :: 'i' :: ' ' :: Y) hs (noId_cons _ (by decide))
    simp [lexVariable, lexIntVar, huv, lexSortI_hit (' ' :: Y) hY]
  | symbol =>
    have e : Var.printL ⟨n, .symbol⟩ ++ ' ' :: Y = n.toList ++ '$' :: 's' :: ' ' :: Y := by simp [Var.printL]
    rw [e]
    have huv := lexUVar_append n.toList ('$' :: 's' :: ' ' :: Y) hs (noId_cons _ (by decide))
    have s1 : lexSortI ('s' :: ' ' :: Y) = none := lexSortWord_miss 'i' "nteger" 's' _ (by decide)
    have g0 : lexSortG ('s' :: ' ' :: Y) = none := lexSortWord_miss 'g' "eneral" 's' _ (by decide)
    have s2 : lexSort ('s' :: ' ' :: Y) = some (.symbol, ' ' :: Y) := by
      simp only [lexSort, g0, s1, lexSortS_hit (' ' :: Y) hY]
    simp [lexVariable, lexIntVar, lexSymVar, huv, s1, s2, lexSortS_hit (' ' :: Y) hY]

theorem Var.printL_startsSolid (v : Var) (hv : Var.WF v) : StartsSolid (Var.printL v) := by
  obtain ⟨n, s⟩ := v
  have hs : UVName n.toList := hv
  cases s with
  | general => exact UVName.startsSolid hs
  | integer => exact (UVName.startsSolid hs).append _
  | symbol => exact (UVName.startsSolid hs).append _

/-- the variables of a quantifier, in front of a body that does not start like a variable -/
theorem variablesL_printL : ∀ (vs : List Var), (∀ v ∈ vs, Var.WF v) → ∀ (B : List Char),
    lexVariable (skip (' ' :: B)) = none → ∀ (n : Nat), (varsL vs ++ ' ' :: B).length < n →
    variablesL n (varsL vs ++ ' ' :: B) = (vs, ' ' :: B) := by
  intro vs
  induction vs with
  | nil =>
    intro _ B hB n hn
    obtain ⟨n0, rfl⟩ : ∃ n0, n = n0 + 1 := ⟨n - 1, by omega⟩
    simp only [varsL, List.nil_append, variablesL, hB]
  | cons v vs ih =>
    intro hwf B hB n hn
    obtain ⟨n0, rfl⟩ : ∃ n0, n = n0 + 1 := ⟨n - 1, by omega⟩
    have hv := hwf v List.mem_cons_self
    have e : varsL (v :: vs) ++ ' ' :: B = ' ' :: (Var.printL v ++ (varsL vs ++ ' ' :: B)) := by
      simp [varsL, List.append_assoc]
    rw [e] at hn ⊢
    have hnext : ∃ Y, varsL vs ++ ' ' :: B = ' ' :: Y := by
      cases vs with
      | nil => exact ⟨B, rfl⟩
      | cons v' vs' => exact ⟨_, rfl⟩
    obtain ⟨Y, hY⟩ := hnext
    have hsk : skip (' ' :: (Var.printL v ++ (varsL vs ++ ' ' :: B))) = Var.printL v ++ (varsL vs ++ ' ' :: B) := by
      rw [skip_space]; exact skip_of_startsSolid ((Var.printL_startsSolid v hv).append _)
    have hlex : lexVariable (Var.printL v ++ (varsL vs ++ ' ' :: B)) = some (v, varsL vs ++ ' ' :: B) := by
      rw [hY]; exact lexVariable_printL v hv Y
    simp only [List.length_cons, List.length_append] at hn
    simp only [variablesL, hsk, hlex]
    rw [ih (fun u hu => hwf u (List.mem_cons_of_mem _ hu)) B hB n0 (by simp only [List.length_append, List.length_cons]; omega)]

theorem qword_strip (q : Quant) (X : List Char) :
    (match q with
      | .all => stripPrefix "forall".toList (qwordL q ++ X) = some X
      | .ex => stripPrefix "forall".toList (qwordL q ++ X) = none ∧ stripPrefix "exists".toList (qwordL q ++ X) = some X) := by
  cases q <;> simp [qwordL, stripPrefix]

/-- the quantifier prefix of a printed quantified formula -/
theorem prefixL_quant (q : Quant) (vs : List Var) (hvs : vs ≠ []) (hwf : ∀ v ∈ vs, Var.WF v) (B : List Char)
    (hB : lexVariable (skip (' ' :: B)) = none) :
    prefixL (qwordL q ++ (varsL vs ++ ' ' :: B)) = some (.pquant q vs, ' ' :: B) := by
  have hvars := variablesL_printL vs hwf B hB ((varsL vs ++ ' ' :: B).length + 1) (by omega)
  have hnext : notIdNext (varsL vs ++ ' ' :: B) = true := by
    cases vs with
    | nil => exact absurd rfl hvs
    | cons v vs' => simp [varsL, notIdNext, isIdChar]
  cases vs with
  | nil => exact absurd rfl hvs
  | cons v vs' =>
    cases q with
    | all =>
      have h1 : stripPrefix "forall".toList (qwordL .all ++ (varsL (v :: vs') ++ ' ' :: B)) = some (varsL (v :: vs') ++ ' ' :: B) := by
        simp [qwordL, stripPrefix]
      simp only [prefixL, h1, hnext, if_true, hvars]
    | ex =>
      have h0 : stripPrefix "forall".toList (qwordL .ex ++ (varsL (v :: vs') ++ ' ' :: B)) = none := by
        simp [qwordL, stripPrefix]
      have h1 : stripPrefix "exists".toList (qwordL .ex ++ (varsL (v :: vs') ++ ' ' :: B)) = some (varsL (v :: vs') ++ ' ' :: B) := by
        simp [qwordL, stripPrefix]
      simp only [prefixL, h0, h1, hnext, if_true, hvars]

end Anthem.Fol
