/-
  Specification level of the target-language round trip: annotated formulas
  (`role(direction)[name]: formula`) and `parseSpecification (printSpecification s) = some s`.
-/
import AnthemModel.Proofs.FolTheoryRT
namespace Anthem.Fol
open Anthem.Asp (isWs skip skipAux stripPrefix isIdChar SymName NoId Solid StartsSolid
  skip_cons_solid skip_of_startsSolid skip_space skip_newline parenLL)

def roleL (r : SRole) : List Char := r.print.toList

def dirL : Direction → List Char
  | .universal => []
  | .forward => "(forward)".toList
  | .backward => "(backward)".toList

def nameL (n : String) : List Char := if n.isEmpty then [] else '[' :: (n.toList ++ [']'])

def SAnn.printL (a : SAnn) : List Char :=
  roleL a.role ++ (dirL a.direction ++ (nameL a.name ++ ':' :: ' ' :: Formula.printL a.formula))

theorem dir_toList (d : Direction) :
    (match d with | .universal => "" | .forward => "(forward)" | .backward => "(backward)").toList = dirL d := by
  cases d
  · show "".toList = []
    simp
  · rfl
  · rfl

theorem name_toList (n : String) : (if n.isEmpty then "" else "[" ++ n ++ "]").toList = nameL n := by
  unfold nameL
  split <;> simp [String.toList_append]

theorem colon_toList : ": ".toList = [':', ' '] := by simp

theorem SAnn.print_toList (a : SAnn) : a.print.toList = SAnn.printL a := by
  simp only [SAnn.print, SAnn.printL, String.toList_append, Formula.print_toList, roleL, List.append_assoc,
      name_toList, colon_toList, List.cons_append, List.nil_append]
  congr 1
  cases hd : a.direction
  · show "".toList ++ _ = [] ++ _
    simp
  · rfl
  · rfl

/-- the name is absent or a symbolic constant; the formula is safe -/
def SAnn.Safe (a : SAnn) : Prop := (a.name = "" ∨ SymName a.name.toList) ∧ Formula.Safe a.formula

theorem lexRole_print (r : SRole) (X : List Char) : lexRole (roleL r ++ X) = some (r, X) := by
  cases r <;> simp [roleL, SRole.print, lexRole, stripPrefix]

theorem formulaTop_printL (F : Formula) (hF : Formula.Safe F) (rest : List Char) (hr : AtomicFollow rest)
    (hstop : lexConn (skip rest) = none) : formulaTop (Formula.printL F ++ rest) = some (F, rest) :=
  formulaL_printL F hF rest hr hstop (2 * (Formula.printL F ++ rest).length + 1) (by omega)

/-- what follows the direction: `[name]` or `:` -/
def AfterDir (X : List Char) : Prop := (∃ Y, X = '[' :: Y) ∨ (∃ Y, X = ':' :: Y)

theorem dirOptL_print (d : Direction) (X : List Char) (hX : AfterDir X) : dirOptL (dirL d ++ X) = (d, X) := by
  cases d with
  | universal =>
    rcases hX with ⟨Y, rfl⟩ | ⟨Y, rfl⟩
    · have hs := skip_cons_solid Y (show Solid '[' from ⟨by decide, by decide⟩)
      show dirOptL ('[' :: Y) = _
      unfold dirOptL
      rw [hs]
      split
      · rename_i a heq; injection heq with h1 _; exact absurd h1 (by decide)
      · rfl
    · have hs := skip_cons_solid Y (show Solid ':' from ⟨by decide, by decide⟩)
      show dirOptL (':' :: Y) = _
      unfold dirOptL
      rw [hs]
      rfl
  | forward =>
    have e : dirL .forward ++ X = '(' :: 'f' :: 'o' :: 'r' :: 'w' :: 'a' :: 'r' :: 'd' :: ')' :: X := rfl
    rw [e]
    simp only [dirOptL, skip_cons_solid _ (show Solid '(' from ⟨by decide, by decide⟩),
      skip_cons_solid _ (show Solid 'f' from ⟨by decide, by decide⟩)]
    have : lexDirection ('f' :: 'o' :: 'r' :: 'w' :: 'a' :: 'r' :: 'd' :: ')' :: X) = some (.forward, ')' :: X) := by
      simp [lexDirection, stripPrefix]
    simp only [this, skip_cons_solid X (show Solid ')' from ⟨by decide, by decide⟩)]
  | backward =>
    have e : dirL .backward ++ X = '(' :: 'b' :: 'a' :: 'c' :: 'k' :: 'w' :: 'a' :: 'r' :: 'd' :: ')' :: X := rfl
    rw [e]
    simp only [dirOptL, skip_cons_solid _ (show Solid '(' from ⟨by decide, by decide⟩),
      skip_cons_solid _ (show Solid 'b' from ⟨by decide, by decide⟩)]
    have : lexDirection ('b' :: 'a' :: 'c' :: 'k' :: 'w' :: 'a' :: 'r' :: 'd' :: ')' :: X) = some (.backward, ')' :: X) := by
      simp [lexDirection, stripPrefix]
    simp only [this, skip_cons_solid X (show Solid ')' from ⟨by decide, by decide⟩)]

theorem symName_startsSolid {l : List Char} (h : SymName l) : StartsSolid l := by
  rcases h with ⟨c, w, h, hc, _⟩ | ⟨c, w, h, _, _⟩
  · exact ⟨c, w, h, Asp.lower_solid hc⟩
  · exact ⟨'_', c :: w, h, by decide, by decide⟩

theorem nameOptL_print (n : String) (hn : n = "" ∨ SymName n.toList) (Y : List Char) :
    nameOptL (nameL n ++ ':' :: Y) = (n, ':' :: Y) := by
  rcases hn with hempty | hsym
  · have hnl : nameL n = [] := by
      have : n.isEmpty = true := String.isEmpty_iff.mpr hempty
      simp only [nameL, this, if_true]
    rw [hnl, hempty]
    simp only [List.nil_append, nameOptL, skip_cons_solid Y (show Solid ':' from ⟨by decide, by decide⟩)]
    rfl
  · have hne : n.isEmpty = false := by
      rw [String.isEmpty_eq_false_iff]; intro e; subst e
      rcases hsym with ⟨c, w, h, _⟩ | ⟨c, w, h, _⟩ <;> cases h
    have hnl : nameL n ++ ':' :: Y = '[' :: (n.toList ++ ']' :: ':' :: Y) := by simp [nameL, hne]
    rw [hnl]
    simp only [nameOptL, skip_cons_solid _ (show Solid '[' from ⟨by decide, by decide⟩),
      skip_of_startsSolid ((symName_startsSolid hsym).append _),
      lexSymConst_append _ _ hsym ⟨']', ':' :: Y, rfl, by decide⟩,
      skip_cons_solid _ (show Solid ']' from ⟨by decide, by decide⟩), String.ofList_toList]

theorem nameL_afterDir (n : String) (Y : List Char) : AfterDir (nameL n ++ ':' :: Y) := by
  unfold nameL
  split
  · right; exact ⟨Y, rfl⟩
  · left; exact ⟨_, rfl⟩

theorem annotatedL_printL (a : SAnn) (ha : SAnn.Safe a) (rest : List Char) (hr : AtomicFollow rest)
    (hstop : lexConn (skip rest) = none) : annotatedL (SAnn.printL a ++ rest) = some (a, rest) := by
  have htop := formulaTop_printL a.formula ha.2 rest hr hstop
  have hsF := skip_of_startsSolid ((Formula.printL_startsSolid a.formula ha.2).append rest)
  have e : SAnn.printL a ++ rest =
      roleL a.role ++ (dirL a.direction ++ (nameL a.name ++ ':' :: (' ' :: (Formula.printL a.formula ++ rest)))) := by
    simp [SAnn.printL]
  rw [e]
  simp only [annotatedL, lexRole_print, dirOptL_print _ _ (nameL_afterDir _ _), nameOptL_print _ ha.1,
    skip_cons_solid _ (show Solid ':' from ⟨by decide, by decide⟩), skip_space, hsF, htop]

/-! ## specifications -/

def specL : List SAnn → List Char
  | [] => []
  | a :: as => SAnn.printL a ++ '.' :: '\n' :: specL as

theorem printSpecification_toList (s : Specification) : (printSpecification s).toList = specL s := by
  induction s with
  | nil => rfl
  | cons a as ih =>
    simp only [printSpecification, List.map_cons, String.join_cons, String.toList_append, SAnn.print_toList] at ih ⊢
    rw [ih]
    simp [specL]

def Specification.Safe (s : Specification) : Prop := ∀ a ∈ s, SAnn.Safe a

theorem roleL_startsSolid (r : SRole) : StartsSolid (roleL r) := by
  cases r <;> exact ⟨_, _, rfl, by decide, by decide⟩

theorem SAnn.printL_startsSolid (a : SAnn) : StartsSolid (SAnn.printL a) :=
  (roleL_startsSolid a.role).append _

theorem skip_specL (s : List SAnn) : skip (specL s) = specL s := by
  cases s with
  | nil => rfl
  | cons a as => exact skip_of_startsSolid ((SAnn.printL_startsSolid a).append _)

theorem specL_length (s : List SAnn) : s.length ≤ (specL s).length := by
  induction s with
  | nil => simp
  | cons a as ih => simp only [specL, List.length_cons, List.length_append]; omega

theorem lexRole_nil : lexRole [] = none := by simp [lexRole, stripPrefix]

theorem annotatedL_nil : annotatedL [] = none := by simp [annotatedL, lexRole_nil]

theorem annotatedDot_print : ∀ (s : List SAnn), (∀ a ∈ s, SAnn.Safe a) → ∀ (cs : List Char) (n : Nat),
    skip cs = specL s → s.length < n → ∃ tail, annotatedDot n cs = (s, tail) ∧ skip tail = [] := by
  intro s
  induction s with
  | nil =>
    intro _ cs n hcs hn
    obtain ⟨n0, rfl⟩ : ∃ n0, n = n0 + 1 := ⟨n - 1, by omega⟩
    refine ⟨cs, ?_, hcs⟩
    simp only [annotatedDot, hcs, specL, annotatedL_nil]
  | cons a as ih =>
    intro hs cs n hcs hn
    simp only [List.length_cons] at hn
    obtain ⟨n0, rfl⟩ : ∃ n0, n = n0 + 1 := ⟨n - 1, by omega⟩
    have ha := hs a List.mem_cons_self
    have htop := annotatedL_printL a ha ('.' :: '\n' :: specL as) (atomicFollow_dot _) (lexConn_dot _)
    obtain ⟨tail, h1, h2⟩ := ih (fun b hb => hs b (List.mem_cons_of_mem _ hb)) ('\n' :: specL as) n0
      (by rw [skip_newline]; exact skip_specL as) (by omega)
    refine ⟨tail, ?_, h2⟩
    simp only [annotatedDot, hcs, specL, htop, skip_cons_solid ('\n' :: specL as) (show Solid '.' from ⟨by decide, by decide⟩), h1]

/-- **Round trip.** Parsing the printed text of a specification of safe annotated formulas returns it. -/
theorem parseSpecification_printSpecification (s : Specification) (hs : Specification.Safe s) :
    parseSpecification (printSpecification s) = some s := by
  have hlen : s.length < (printSpecification s).length + 1 := by
    have := specL_length s
    rw [← printSpecification_toList, String.length_toList] at this
    omega
  obtain ⟨tail, h1, h2⟩ := annotatedDot_print s hs (printSpecification s).toList ((printSpecification s).length + 1)
    (by rw [printSpecification_toList]; exact skip_specL s) hlen
  simp only [parseSpecification, h1, h2]

end Anthem.Fol
