/-
  Theory level of the target-language round trip: `parseTheory (printTheory t) = some t` for
  every theory of safe formulas.
-/
import AnthemModel.Proofs.FolFormulaRT
namespace Anthem.Fol
open Anthem.Asp (isWs skip skipAux stripPrefix isIdChar SymName NoId Solid StartsSolid
  skip_cons_solid skip_of_startsSolid skip_space skip_newline parenLL)

def theoryL : List Formula → List Char
  | [] => []
  | F :: fs => Formula.printL F ++ '.' :: '\n' :: theoryL fs

theorem printTheory_toList (t : Theory) : (printTheory t).toList = theoryL t := by
  induction t with
  | nil => rfl
  | cons F fs ih =>
    simp only [printTheory, List.map_cons, String.join_cons, String.toList_append, Formula.print_toList] at ih ⊢
    rw [ih]
    simp [theoryL]

/-- every formula of the theory is safe -/
def Theory.Safe (t : Theory) : Prop := ∀ F ∈ t, Formula.Safe F

theorem skip_theoryL (fs : List Formula) (h : ∀ F ∈ fs, Formula.Safe F) : skip (theoryL fs) = theoryL fs := by
  cases fs with
  | nil => rfl
  | cons F fs => exact skip_of_startsSolid ((Formula.printL_startsSolid F (h F List.mem_cons_self)).append _)

theorem theoryL_length (fs : List Formula) : fs.length ≤ (theoryL fs).length := by
  induction fs with
  | nil => simp
  | cons F fs ih => simp only [theoryL, List.length_cons, List.length_append]; omega

theorem formulaTop_nil : formulaTop [] = none := by
  simp [formulaTop, formulaL, foperand, prefixesL, prefixL, stripPrefix, atomicL, comparisonL, gtermL, atomL, lexSymConst,
    lexFnConst, itermL, ioperand, lexNegs, lexNegative, lexNumeral, Asp.lexInteger, lexIntVar, lexUVar, stermL, lexSymVar, lexGenVar]

theorem lexConn_dot (rest : List Char) : lexConn (skip ('.' :: rest)) = none := by
  rw [skip_cons_solid rest ⟨by decide, by decide⟩]; rfl

theorem formulasDot_print : ∀ (fs : List Formula), (∀ F ∈ fs, Formula.Safe F) → ∀ (cs : List Char) (n : Nat),
    skip cs = theoryL fs → fs.length < n → ∃ tail, formulasDot n cs = (fs, tail) ∧ skip tail = [] := by
  intro fs
  induction fs with
  | nil =>
    intro _ cs n hcs hn
    obtain ⟨n0, rfl⟩ : ∃ n0, n = n0 + 1 := ⟨n - 1, by omega⟩
    refine ⟨cs, ?_, hcs⟩
    simp only [formulasDot, hcs, theoryL, formulaTop_nil]
  | cons F fs ih =>
    intro hs cs n hcs hn
    simp only [List.length_cons] at hn
    obtain ⟨n0, rfl⟩ : ∃ n0, n = n0 + 1 := ⟨n - 1, by omega⟩
    have hF := hs F List.mem_cons_self
    have htop : formulaTop (Formula.printL F ++ '.' :: '\n' :: theoryL fs) = some (F, '.' :: '\n' :: theoryL fs) := by
      have := formulaL_printL F hF ('.' :: '\n' :: theoryL fs) (atomicFollow_dot _) (lexConn_dot _)
        (2 * (Formula.printL F ++ '.' :: '\n' :: theoryL fs).length + 1) (by omega)
      exact this
    obtain ⟨tail, h1, h2⟩ := ih (fun G hG => hs G (List.mem_cons_of_mem _ hG)) ('\n' :: theoryL fs) n0
      (by rw [skip_newline]; exact skip_theoryL fs (fun G hG => hs G (List.mem_cons_of_mem _ hG))) (by omega)
    refine ⟨tail, ?_, h2⟩
    simp only [formulasDot, hcs, theoryL, htop, skip_cons_solid ('\n' :: theoryL fs) (show Solid '.' from ⟨by decide, by decide⟩), h1]

/-- **Round trip.** Parsing the printed text of a theory of safe formulas returns the theory. -/
theorem parseTheory_printTheory (t : Theory) (ht : Theory.Safe t) : parseTheory (printTheory t) = some t := by
  have hlen : t.length < (printTheory t).length + 1 := by
    have := theoryL_length t
    rw [← printTheory_toList, String.length_toList] at this
    omega
  obtain ⟨tail, h1, h2⟩ := formulasDot_print t ht (printTheory t).toList ((printTheory t).length + 1)
    (by rw [printTheory_toList]; exact skip_theoryL t ht) hlen
  simp only [parseTheory, h1, h2]

end Anthem.Fol
