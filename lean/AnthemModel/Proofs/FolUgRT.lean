/-
  User-guide level of the target-language round trip: input / output predicates, placeholder
  declarations, annotated formulas.
-/
import AnthemModel.Proofs.FolSpecRT
namespace Anthem.Fol
open Anthem.Asp (isWs skip skipAux stripPrefix isIdChar isNonzeroDigit SymName NoId StopsAt Solid StartsSolid
  skip_cons_solid skip_of_startsSolid skip_space skip_newline parenLL takeWhile_append_stop toDigits_head_nonzero
  toDigits_all_digit nonzeroDigit_ne_zero)

def arityL (n : Nat) : List Char := Nat.toDigits 10 n

theorem arity_toList (n : Nat) : (toString n).toList = arityL n := by
  simp [arityL, Nat.toList_repr]

theorem lexArity_print (n : Nat) (rest : List Char) (hr : StopsAt Char.isDigit rest) :
    lexArity (arityL n ++ rest) = some (n, rest) := by
  unfold arityL
  by_cases hn : n = 0
  · subst hn
    simp [Nat.toDigits_zero, lexArity]
  · obtain ⟨c, ds, hcd, hc⟩ := toDigits_head_nonzero n (by omega)
    obtain ⟨h0, _, _⟩ := nonzeroDigit_ne_zero hc
    have hds : ∀ x ∈ ds, x.isDigit = true := fun x hx =>
      toDigits_all_digit n x (by rw [hcd]; exact List.mem_cons_of_mem _ hx)
    obtain ⟨t1, t2⟩ := takeWhile_append_stop (p := Char.isDigit) hds hr
    have hval : Nat.ofDigitChars 10 (c :: ds) 0 = n := by rw [← hcd]; exact Nat.ofDigitChars_ten_toDigits
    rw [hcd]
    simp only [List.cons_append]
    unfold lexArity
    split
    · rename_i heq; injection heq with e _; exact absurd e h0
    · rename_i c' r' _ heq
      injection heq with e1 e2
      subst e1; subst e2
      simp only [hc, if_true, t1, t2, hval]
    · rename_i heq; cases heq

theorem arityL_startsSolid (n : Nat) : StartsSolid (arityL n) := by
  unfold arityL
  cases h : Nat.toDigits 10 n with
  | nil => exact absurd h Nat.toDigits_ne_nil
  | cons c r =>
    exact ⟨c, r, rfl, Asp.digit_solid (toDigits_all_digit n c (by rw [h]; exact List.mem_cons_self))⟩

def predL (p : Pred) : List Char := p.symbol.toList ++ '/' :: arityL p.arity

theorem predicateL_print (p : Pred) (hp : SymName p.symbol.toList) (rest : List Char) (hr : StopsAt Char.isDigit rest) :
    predicateL (predL p ++ rest) = some (p, rest) := by
  have e : predL p ++ rest = p.symbol.toList ++ '/' :: (arityL p.arity ++ rest) := by simp [predL]
  rw [e]
  simp only [predicateL, lexSymConst_append _ _ hp ⟨'/', _, rfl, by decide⟩,
    skip_cons_solid _ (show Solid '/' from ⟨by decide, by decide⟩),
    skip_of_startsSolid ((arityL_startsSolid p.arity).append rest), lexArity_print _ _ hr, String.ofList_toList]

theorem stopsAt_dot (r : List Char) : StopsAt Char.isDigit ('.' :: r) := by
  intro c r' e; injection e with e1 _; subst e1; decide

/-- `kw: ` in front of a solid text -/
theorem keywordColon_print (kw : String) (X : List Char) (hX : StartsSolid X) :
    keywordColon kw (kw.toList ++ ':' :: ' ' :: X) = some X := by
  have hs : stripPrefix kw.toList (kw.toList ++ ':' :: ' ' :: X) = some (':' :: ' ' :: X) := by
    generalize kw.toList = l
    induction l with
    | nil => rfl
    | cons a l ih => simp [stripPrefix, ih]
  simp only [keywordColon, hs, skip_cons_solid _ (show Solid ':' from ⟨by decide, by decide⟩), skip_space,
    skip_of_startsSolid hX]

theorem keywordColon_miss (kw : String) (k c : Char) (ks r : List Char) (hk : kw.toList = k :: ks) (h : k ≠ c) :
    keywordColon kw (c :: r) = none := by
  simp [keywordColon, hk, stripPrefix, h]

def srtL : Srt → List Char
  | .general => ['g']
  | .integer => ['i']
  | .symbol => ['s']

theorem lexSort_print (s : Srt) (rest : List Char) (hr : NoId rest) : lexSort (srtL s ++ rest) = some (s, rest) := by
  cases s with
  | general => simp only [srtL, List.cons_append, List.nil_append, lexSort, lexSortG_hit rest hr]
  | integer =>
    simp only [srtL, List.cons_append, List.nil_append, lexSort, lexSortI_hit rest hr]
    have : lexSortG ('i' :: rest) = none := lexSortWord_miss _ _ _ _ (by decide)
    simp only [this]
  | symbol =>
    simp only [srtL, List.cons_append, List.nil_append, lexSort, lexSortS_hit rest hr]
    have h1 : lexSortG ('s' :: rest) = none := lexSortWord_miss _ _ _ _ (by decide)
    have h2 : lexSortI ('s' :: rest) = none := lexSortWord_miss _ _ _ _ (by decide)
    simp only [h1, h2]

/-! ## entries -/

def UGEntry.printL : UGEntry → List Char
  | .input p => "input".toList ++ ':' :: ' ' :: predL p
  | .output p => "output".toList ++ ':' :: ' ' :: predL p
  | .placeholder n s => "input".toList ++ ':' :: ' ' :: (n.toList ++ ' ' :: '-' :: '>' :: ' ' :: srtL s)
  | .formula a => SAnn.printL a

theorem srt_toList (s : Srt) : (match s with | .general => "g" | .integer => "i" | .symbol => "s").toList = srtL s := by
  cases s <;> rfl

theorem UGEntry.print_toList (e : UGEntry) : e.print.toList = UGEntry.printL e := by
  cases e with
  | input p => simp [UGEntry.print, UGEntry.printL, String.toList_append, predL, arity_toList, arityL]
  | output p => simp [UGEntry.print, UGEntry.printL, String.toList_append, predL, arity_toList, arityL]
  | placeholder n s => cases s <;> simp [UGEntry.print, UGEntry.printL, String.toList_append, srtL]
  | formula a => simp [UGEntry.print, UGEntry.printL, SAnn.print_toList]

def UGEntry.Safe : UGEntry → Prop
  | .input p => SymName p.symbol.toList
  | .output p => SymName p.symbol.toList
  | .placeholder n _ => SymName n.toList
  | .formula a => SAnn.Safe a

theorem predL_startsSolid (p : Pred) (hp : SymName p.symbol.toList) : StartsSolid (predL p) :=
  (symName_startsSolid hp).append _

theorem stripPrefix_self_append (l X : List Char) : stripPrefix l (l ++ X) = some X := by
  induction l with
  | nil => rfl
  | cons a l ih => simp [stripPrefix, ih]

theorem ugEntryL_printL (e : UGEntry) (he : UGEntry.Safe e) (Z : List Char) :
    ugEntryL (UGEntry.printL e ++ '.' :: Z) = some (e, '.' :: Z) := by
  cases e with
  | input p =>
    have e1 : UGEntry.printL (.input p) ++ '.' :: Z = "input".toList ++ ':' :: ' ' :: (predL p ++ '.' :: Z) := by
      simp [UGEntry.printL]
    rw [e1]
    simp only [ugEntryL, keywordColon_print "input" _ ((predL_startsSolid p he).append _),
      predicateL_print p he _ (stopsAt_dot Z), Option.map_some]
  | output p =>
    have e1 : UGEntry.printL (.output p) ++ '.' :: Z = "output".toList ++ ':' :: ' ' :: (predL p ++ '.' :: Z) := by
      simp [UGEntry.printL]
    rw [e1]
    have hmiss : keywordColon "input" ("output".toList ++ ':' :: ' ' :: (predL p ++ '.' :: Z)) = none :=
      keywordColon_miss "input" 'i' 'o' _ _ rfl (by decide)
    simp only [ugEntryL, hmiss, keywordColon_print "output" _ ((predL_startsSolid p he).append _),
      predicateL_print p he _ (stopsAt_dot Z), Option.map_some]
  | placeholder n s =>
    have e1 : UGEntry.printL (.placeholder n s) ++ '.' :: Z =
        "input".toList ++ ':' :: ' ' :: (n.toList ++ ' ' :: '-' :: '>' :: ' ' :: (srtL s ++ '.' :: Z)) := by
      simp [UGEntry.printL]
    rw [e1]
    have hsol : StartsSolid (n.toList ++ ' ' :: '-' :: '>' :: ' ' :: (srtL s ++ '.' :: Z)) := (symName_startsSolid he).append _
    have hkw := keywordColon_print "input" _ hsol
    have hmiss : keywordColon "output" ("input".toList ++ ':' :: ' ' :: (n.toList ++ ' ' :: '-' :: '>' :: ' ' :: (srtL s ++ '.' :: Z))) = none :=
      keywordColon_miss "output" 'o' 'i' _ _ rfl (by decide)
    have hlex := lexSymConst_append n.toList (' ' :: '-' :: '>' :: ' ' :: (srtL s ++ '.' :: Z)) he ⟨' ', _, rfl, by decide⟩
    have hpred : predicateL (n.toList ++ ' ' :: '-' :: '>' :: ' ' :: (srtL s ++ '.' :: Z)) = none := by
      simp only [predicateL, hlex, skip_space, skip_cons_solid _ (show Solid '-' from ⟨by decide, by decide⟩)]
      rfl
    have hsrt : StartsSolid (srtL s ++ '.' :: Z) := by cases s <;> exact ⟨_, _, rfl, by decide, by decide⟩
    have harrow : stripPrefix "->".toList (skip ('-' :: '>' :: ' ' :: (srtL s ++ '.' :: Z))) = some (' ' :: (srtL s ++ '.' :: Z)) := by
      rw [skip_cons_solid _ (show Solid '-' from ⟨by decide, by decide⟩)]
      simp [stripPrefix]
    simp only [ugEntryL, hkw, hmiss, hpred, Option.map_none, hlex, harrow, skip_space, skip_of_startsSolid hsrt,
      lexSort_print s ('.' :: Z) (Asp.noId_cons Z (by decide)), String.ofList_toList]
  | formula a =>
    have hr : ∀ kw : String, ∀ k ks, kw.toList = k :: ks → (k = 'i' ∨ k = 'o') → (∀ x ∈ ks, True) →
        True := fun _ _ _ _ _ _ => trivial
    have htxt : UGEntry.printL (.formula a) ++ '.' :: Z = roleL a.role ++ (dirL a.direction ++ (nameL a.name ++ ':' :: ' ' :: Formula.printL a.formula) ++ '.' :: Z) := by
      simp [UGEntry.printL, SAnn.printL]
    have hin : keywordColon "input" (UGEntry.printL (.formula a) ++ '.' :: Z) = none := by
      rw [htxt]
      cases a.role <;> simp [keywordColon, roleL, SRole.print, stripPrefix]
    have hout : keywordColon "output" (UGEntry.printL (.formula a) ++ '.' :: Z) = none := by
      rw [htxt]
      cases a.role <;> simp [keywordColon, roleL, SRole.print, stripPrefix]
    have hann := annotatedL_printL a he ('.' :: Z) (atomicFollow_dot Z) (lexConn_dot Z)
    simp only [UGEntry.printL] at hin hout ⊢
    simp only [ugEntryL, hin, hout, hann, Option.map_some]

/-! ## user guides -/

def ugL : List UGEntry → List Char
  | [] => []
  | e :: es => UGEntry.printL e ++ '.' :: '\n' :: ugL es

theorem printUserGuide_toList (u : UserGuide) : (printUserGuide u).toList = ugL u := by
  induction u with
  | nil => rfl
  | cons e es ih =>
    simp only [printUserGuide, List.map_cons, String.join_cons, String.toList_append, UGEntry.print_toList] at ih ⊢
    rw [ih]
    simp [ugL]

def UserGuide.Safe (u : UserGuide) : Prop := ∀ e ∈ u, UGEntry.Safe e

theorem UGEntry.printL_startsSolid (e : UGEntry) : StartsSolid (UGEntry.printL e) := by
  cases e with
  | input p => exact ⟨'i', _, rfl, by decide, by decide⟩
  | output p => exact ⟨'o', _, rfl, by decide, by decide⟩
  | placeholder n s => exact ⟨'i', _, rfl, by decide, by decide⟩
  | formula a => exact SAnn.printL_startsSolid a

theorem skip_ugL (u : List UGEntry) : skip (ugL u) = ugL u := by
  cases u with
  | nil => rfl
  | cons e es => exact skip_of_startsSolid ((UGEntry.printL_startsSolid e).append _)

theorem ugL_length (u : List UGEntry) : u.length ≤ (ugL u).length := by
  induction u with
  | nil => simp
  | cons e es ih => simp only [ugL, List.length_cons, List.length_append]; omega

theorem ugEntryL_nil : ugEntryL [] = none := by
  simp [ugEntryL, keywordColon, stripPrefix, annotatedL_nil]

theorem ugEntriesDot_print : ∀ (u : List UGEntry), (∀ e ∈ u, UGEntry.Safe e) → ∀ (cs : List Char) (n : Nat),
    skip cs = ugL u → u.length < n → ∃ tail, ugEntriesDot n cs = (u, tail) ∧ skip tail = [] := by
  intro u
  induction u with
  | nil =>
    intro _ cs n hcs hn
    obtain ⟨n0, rfl⟩ : ∃ n0, n = n0 + 1 := ⟨n - 1, by omega⟩
    refine ⟨cs, ?_, hcs⟩
    simp only [ugEntriesDot, hcs, ugL, ugEntryL_nil]
  | cons e es ih =>
    intro hs cs n hcs hn
    simp only [List.length_cons] at hn
    obtain ⟨n0, rfl⟩ : ∃ n0, n = n0 + 1 := ⟨n - 1, by omega⟩
    have he := hs e List.mem_cons_self
    have htop := ugEntryL_printL e he ('\n' :: ugL es)
    obtain ⟨tail, h1, h2⟩ := ih (fun b hb => hs b (List.mem_cons_of_mem _ hb)) ('\n' :: ugL es) n0
      (by rw [skip_newline]; exact skip_ugL es) (by omega)
    refine ⟨tail, ?_, h2⟩
    simp only [ugEntriesDot, hcs, ugL, htop, skip_cons_solid ('\n' :: ugL es) (show Solid '.' from ⟨by decide, by decide⟩), h1]

/-- **Round trip.** Parsing the printed text of a user guide of safe entries returns it. -/
theorem parseUserGuide_printUserGuide (u : UserGuide) (hu : UserGuide.Safe u) :
    parseUserGuide (printUserGuide u) = some u := by
  have hlen : u.length < (printUserGuide u).length + 1 := by
    have := ugL_length u
    rw [← printUserGuide_toList, String.length_toList] at this
    omega
  obtain ⟨tail, h1, h2⟩ := ugEntriesDot_print u hu (printUserGuide u).toList ((printUserGuide u).length + 1)
    (by rw [printUserGuide_toList]; exact skip_ugL u) hlen
  simp only [parseUserGuide, h1, h2]

end Anthem.Fol
