/-
  User-guide level of the target-language round trip: input / output predicates, placeholder
  declarations, annotated formulas.
-/
import AnthemModel.Proofs.FolSpecRT
namespace Anthem.Fol
open Anthem.Asp (isWs skip skipAux stripPrefix isIdChar isNonzeroDigit SymName NoId StopsAt Solid StartsSolid
  skip_cons_solid skip_of_startsSolid skip_space skip_newline parenLL takeWhile_append_stop toDigits_head_nonzero
  toDigits_all_digit nonzeroDigit_ne_zero)

def arityL (n : Nat) : List Char := Nat.toDigits 10 n

theorem arity_toList (n : Nat) : (toString n).toList = arityL n := by
  simp [arityL, Nat.toList_repr]

theorem lexArity_print (n : Nat) (rest : List Char) (hr : StopsAt Char.isDigit rest) :
    lexArity (arityL n ++ rest) = some (n, rest) := by
  unfold arityL
  by_cases hn : n = 0
  · subst hn
    simp [Nat.toDigits_zero, lexArity]
  · obtain ⟨c, ds, hcd, hc⟩ := toDigits_head_nonzero n (by omega)
    obtain ⟨h0, _, _⟩ := nonzeroDigit_ne_zero hc
    have hds : ∀ x ∈ ds, x.isDigit = true := fun x hx =>
      toDigits_all_digit n x (by rw [hcd]; exact List.mem_cons_of_mem _ hx)
    obtain ⟨t1, t2⟩ := takeWhile_append_stop (p := Char.isDigit) hds hr
    have hval : Nat.ofDigitChars 10 (c :: ds) 0 = n := by rw [← hcd]; exact Nat.ofDigitChars_ten_toDigits
    rw [hcd]
    simp only [List.cons_append]
    unfold lexArity
    split
    · rename_i heq; injection heq with e _; exact absurd e h0
    · rename_i c' r' _ heq
      injection heq with e1 e2
      subst e1; subst e2
      simp only [hc, if_true, t1, t2, hval]
    · rename_i heq; cases heq

theorem arityL_startsSolid (n : Nat) : StartsSolid (arityL n) := by
  unfold arityL
  cases h : Nat.toDigits 10 n with
  | nil => exact absurd h Nat.toDigits_ne_nil
  | cons c r =>
    exact ⟨c, r, rfl, Asp.digit_solid (toDigits_all_digit n c (by rw [h]; exact List.mem_cons_self))⟩

def predL (p : Pred) : List Char := p.symbol.toList ++ '/' :: arityL p.arity

theorem predicateL_print (p : Pred) (hp : SymName p.symbol.toList) (rest : List Char) (hr : StopsAt Char.isDigit rest) :
    predicateL (predL p ++ rest) = some (p, rest) := by
  have e : predL p ++ rest = p.symbol.toList ++ '/' :: (arityL p.arity ++ rest) := by simp [predL]
  rw [e]
  simp only [predicateL, lexSymConst_append _ _ hp ⟨'/', _, rfl, by decide⟩,
    skip_cons_solid _ (show Solid '/' from ⟨by decide, by decide⟩),
    skip_of_startsSolid ((arityL_startsSolid p.arity).append rest), lexArity_print _ _ hr, String.ofList_toList]

theorem stopsAt_dot (r : List Char) : StopsAt Char.isDigit ('.' :: r) := by
  intro c r' e; injection e with e1 _; subst e1; decide

/-- `kw: ` in front of a solid text -/
theorem keywordColon_print (kw : String) (X : List Char) (hX : StartsSolid X) :
    keywordColon kw (kw.toList ++ ':' :: ' ' :: X) = some X := by
  have hs : stripPrefix kw.toList (kw.toList ++ ':' :: ' ' :: X) = some (':' :: ' ' :: X) := by
    generalize kw.toList = l
    induction l with
    | nil => rfl
    | cons a l ih => simp [stripPrefix, ih]
  simp only [keywordColon, hs, skip_cons_solid _ (show Solid ':' from ⟨by decide, by decide⟩), skip_space,
    skip_of_startsSolid hX]

theorem keywordColon_miss (kw : String) (k c : Char) (ks r : List Char) (hk : kw.toList = k :: ks) (h : k ≠ c) :
    keywordColon kw (c :: r) = none := by
  simp [keywordColon, hk, stripPrefix, h]

def srtL : Srt → List Char
  | .general => ['g']
  | .integer => ['i']
  | .symbol => ['s']

theorem lexSort_print (s : Srt) (rest : List Char) (hr : NoId rest) : lexSort (srtL s ++ rest) = some (s, rest) := by
  cases s with
  | general => simp only [srtL, List.cons_append, List.nil_append, lexSort, lexSortG_hit rest hr]
  | integer =>
    simp only [srtL, List.cons_append, List.nil_append, lexSort, lexSortI_hit rest hr]
    have : lexSortG ('i' :: rest) = none := lexSortWord_miss _ _ _ _ (by decide)
    simp only [this]
  | symbol =>
    simp only [srtL, List.cons_append, List.nil_append, lexSort, lexSortS_hit rest hr]
    have h1 : lexSortG ('s' :: rest) = none := lexSortWord_miss _ _ _ _ (by decide)
    have h2 : lexSortI ('s' :: rest) = none := lexSortWord_miss _ _ _ _ (by decide)
    simp only [h1, h2]

end Anthem.Fol
