/-
  Formula level of the target-language round trip, part 2: well-formedness, and the lemmas
  saying that the alternatives the PEG tries *first* fail on printed text when they should:
  an integer term is never read out of the text of a formula in a way that ends before `)`
  (so `p <- q` is not read as the comparison `p < -q`, and `p <- (F)` neither).
-/
import AnthemModel.Proofs.FolPrefixRT
namespace Anthem.Fol
open Anthem.Asp (isWs skip stripPrefix isIdChar isNonzeroDigit SymName NoId StopsAt Solid StartsSolid
  takeWhile_append_stop noId_cons skip_cons_solid skip_of_startsSolid skip_space stripPrefix_head_ne parenLL
  parenLL_startsSolid)

/-! ## well-formedness -/

/-- integer and general terms: names of the grammar's lexical shape -/
abbrev ITerm.Safe (t : ITerm) : Prop := ITerm.WF t
abbrev GTerm.Safe (t : GTerm) : Prop := GTerm.WF t

/-- the name at the very start of an atomic formula is not `not` (the parser would have read a
    negation there); `not$i`, `not$g`, `not$s` are fine since fix 2ca6488 -/
def AtomicF.NotFirst : AtomicF → Prop
  | .atom a => a.pred.toList ≠ ['n', 'o', 't']
  | .cmp (.symb (.sym s)) _ => s.toList ≠ ['n', 'o', 't']
  | _ => True

def AtomicF.Safe (a : AtomicF) : Prop := AtomicF.WF a ∧ AtomicF.NotFirst a

/-- every name has the grammar's lexical shape, no atomic formula starts with the name `not`, every
    comparison has a guard and every quantifier a variable -/
def Formula.Safe : Formula → Prop
  | .atomic a => AtomicF.Safe a
  | .not f => Formula.Safe f
  | .quant _ vs f => vs ≠ [] ∧ (∀ v ∈ vs, Var.WF v) ∧ Formula.Safe f
  | .bin _ l r => Formula.Safe l ∧ Formula.Safe r

theorem ITerm.Safe.wf {t : ITerm} (h : ITerm.Safe t) : ITerm.WF t := h
theorem GTerm.Safe.wf {t : GTerm} (h : GTerm.Safe t) : GTerm.WF t := h
theorem AtomicF.Safe.wf {a : AtomicF} (h : AtomicF.Safe a) : AtomicF.WF a := h.1

theorem lexVariable_none_of_head (c : Char) (r : List Char) (h1 : c.isUpper = false) (h2 : c ≠ '_') :
    lexVariable (c :: r) = none := by
  simp [lexVariable, lexIntVar, lexSymVar, lexGenVar, lexUVar_none_of_head c r h1 h2]

theorem lexVariable_dollar (r : List Char) : lexVariable (skip ('$' :: r)) = none := by
  rw [skip_cons_solid r ⟨by decide, by decide⟩]; exact lexVariable_none_of_head _ _ (by decide) (by decide)

theorem lexVariable_paren (r : List Char) : lexVariable (skip ('(' :: r)) = none := by
  rw [skip_cons_solid r ⟨by decide, by decide⟩]; exact lexVariable_none_of_head _ _ (by decide) (by decide)

/-! ## no prefix operator in front of an atomic formula -/

theorem prefixL_uvName (l X : List Char) (h : UVName l) : prefixL (l ++ X) = none := by
  rcases h with ⟨c, w, rfl, hc, _⟩ | ⟨c, w, rfl, _, _⟩
  · exact prefixL_head c _ (by intro e; subst e; revert hc; decide) (by intro e; subst e; revert hc; decide)
      (by intro e; subst e; revert hc; decide)
  · exact prefixL_head '_' _ (by decide) (by decide) (by decide)

theorem prefixL_iterm : ∀ (t : ITerm), ITerm.Safe t → ∀ X : List Char, prefixL (ITerm.printL t ++ X) = none := by
  intro t
  induction t with
  | num n =>
    intro _ X
    obtain ⟨c, r, hcr, hc⟩ := Asp.intL_head n
    simp only [ITerm.printL, hcr, List.cons_append]
    refine prefixL_head c _ ?_ ?_ ?_ <;>
      (rcases hc with hc | hc <;> (intro e; subst e; revert hc; decide))
  | fc c =>
    intro h X
    simp only [ITerm.printL, List.append_assoc]
    exact prefixL_name _ _ h (Or.inr ⟨_, rfl⟩) (noId_cons _ (by decide)) (lexVariable_dollar _)
  | var v => intro h X; simp only [ITerm.printL, List.append_assoc]; exact prefixL_uvName _ _ h
  | neg a _ => intro _ X; exact prefixL_head '-' _ (by decide) (by decide) (by decide)
  | bin op l r ihl _ =>
    intro h X
    simp only [ITerm.printL, List.append_assoc]
    by_cases hb : (ITerm.bin op l r).prec < l.prec
    · simp only [hb, parenLL, decide_true, if_true, List.cons_append]
      exact prefixL_head '(' _ (by decide) (by decide) (by decide)
    · simp only [hb, parenLL, decide_false, Bool.false_eq_true, if_false]
      exact ihl h.1 _

theorem prefixL_gterm (t : GTerm) (ht : GTerm.Safe t) (Y : List Char) (hY : NoId Y) (hv : lexVariable (skip Y) = none)
    (hfirst : ∀ s, t = .symb (.sym s) → s.toList ≠ ['n', 'o', 't']) :
    prefixL (GTerm.printL t ++ Y) = none := by
  cases t with
  | inf => exact prefixL_head '#' _ (by decide) (by decide) (by decide)
  | sup => exact prefixL_head '#' _ (by decide) (by decide) (by decide)
  | fc c =>
    simp only [GTerm.printL, List.append_assoc]
    exact prefixL_name _ _ ht (Or.inr ⟨_, rfl⟩) (noId_cons _ (by decide)) (lexVariable_dollar _)
  | var v => exact prefixL_uvName _ _ ht
  | int it => exact prefixL_iterm it ht Y
  | symb st =>
    cases st with
    | sym s => exact prefixL_name _ _ ht (Or.inl (hfirst s rfl)) hY hv
    | fc c =>
      simp only [GTerm.printL, STerm.printL, List.append_assoc]
      exact prefixL_name _ _ ht (Or.inr ⟨_, rfl⟩) (noId_cons _ (by decide)) (lexVariable_dollar _)
    | var v => simp only [GTerm.printL, STerm.printL, List.append_assoc]; exact prefixL_uvName _ _ ht

theorem guardsPrintL_noId (gs : List Guard) (hne : gs ≠ []) (rest : List Char) : NoId (guardsPrintL gs ++ rest) := by
  cases gs with
  | nil => exact absurd rfl hne
  | cons g gs => exact noId_cons _ (by decide)

theorem guardsPrintL_noVar (gs : List Guard) (hne : gs ≠ []) (rest : List Char) :
    lexVariable (skip (guardsPrintL gs ++ rest)) = none := by
  cases gs with
  | nil => exact absurd rfl hne
  | cons g gs =>
    simp only [guardsPrintL, List.cons_append, List.append_assoc, skip_space]
    rw [skip_relation]
    cases g.rel <;> exact lexVariable_none_of_head _ _ (by decide) (by decide)

theorem prefixL_atomic (a : AtomicF) (ha : AtomicF.Safe a) (rest : List Char) (hr : NoId rest)
    (hv : lexVariable (skip rest) = none) : prefixL (AtomicF.printL a ++ rest) = none := by
  cases a with
  | tru => exact prefixL_head '#' _ (by decide) (by decide) (by decide)
  | fls => exact prefixL_head '#' _ (by decide) (by decide) (by decide)
  | atom at' =>
    obtain ⟨pred, args⟩ := at'
    cases args with
    | nil =>
      simp only [AtomicF.printL, Atom.printL, List.isEmpty_nil, if_true]
      exact prefixL_name _ _ ha.1.1 (Or.inl ha.2) hr hv
    | cons t ts =>
      simp only [AtomicF.printL, Atom.printL, List.isEmpty_cons, Bool.false_eq_true, if_false, List.append_assoc]
      exact prefixL_name _ _ ha.1.1 (Or.inl ha.2) (noId_cons _ (by decide)) (lexVariable_paren _)
  | cmp t gs =>
    simp only [AtomicF.printL, List.append_assoc]
    refine prefixL_gterm t ha.1.1 _ (guardsPrintL_noId gs ha.1.2.1 rest) (guardsPrintL_noVar gs ha.1.2.1 rest) ?_
    intro s e; subst e; exact ha.2

/-! ## shapes of printed formulas -/

theorem AtomicF.printL_startsSolid (a : AtomicF) (ha : AtomicF.Safe a) : StartsSolid (AtomicF.printL a) := by
  cases a with
  | tru => exact ⟨'#', _, rfl, by decide, by decide⟩
  | fls => exact ⟨'#', _, rfl, by decide, by decide⟩
  | atom at' =>
    simp only [AtomicF.printL, Atom.printL]
    split
    · exact SymName.startsSolid ha.1.1
    · exact (SymName.startsSolid ha.1.1).append _
  | cmp t gs => exact (GTerm.printL_startsSolid t ha.1.1).append _

theorem Formula.printL_startsSolid : ∀ (F : Formula), Formula.Safe F → StartsSolid (Formula.printL F)
  | .atomic a, h => AtomicF.printL_startsSolid a h
  | .not _, _ => ⟨'n', _, rfl, by decide, by decide⟩
  | .quant q _ _, _ => by cases q <;> exact ⟨_, _, rfl, by decide, by decide⟩
  | .bin c l r, h => by
    simp only [Formula.printL]
    exact (parenLL_startsSolid _ (Formula.printL_startsSolid l h.1)).append _

/-! ## integer terms are not read out of formula text -/

/-- what follows a name: a non-identifier character other than `$` -/
def NameFollow (rest : List Char) : Prop := NoIdNE rest ∧ ∀ r, rest ≠ '$' :: r

theorem nameFollow_space (Y : List Char) : NameFollow (' ' :: Y) :=
  ⟨⟨' ', Y, rfl, by decide⟩, fun r e => by injection e with e1 _; exact absurd e1 (by decide)⟩

theorem nameFollow_paren_close (Y : List Char) : NameFollow (')' :: Y) :=
  ⟨⟨')', Y, rfl, by decide⟩, fun r e => by injection e with e1 _; exact absurd e1 (by decide)⟩

theorem nameFollow_paren_open (Y : List Char) : NameFollow ('(' :: Y) :=
  ⟨⟨'(', Y, rfl, by decide⟩, fun r e => by injection e with e1 _; exact absurd e1 (by decide)⟩

/-- the result of `itermL` is not a term that ends right in front of `)` -/
def NotBeforeParen (o : Option (ITerm × List Char)) : Prop :=
  o = none ∨ ∃ t r2, o = some (t, r2) ∧ ∀ r3, skip r2 ≠ ')' :: r3

theorem ioperand_paren_fail (f : Nat) (r1 : List Char) (h : NotBeforeParen (itermL f (skip r1))) :
    ioperand (f + 1) ('(' :: r1) = none := by
  have hs : skip ('(' :: r1) = '(' :: r1 := skip_cons_solid r1 ⟨by decide, by decide⟩
  have hn : lexNegative ('(' :: r1) = none := lexNegative_of_head r1 ⟨by decide, by decide⟩ (by decide)
  have hv : lexIntVar ('(' :: r1) = none := lexIntVar_none_of_uvar _ (lexUVar_none_of_head '(' r1 (by decide) (by decide))
  rcases h with h | ⟨t, r2, h, h2⟩
  · simp only [ioperand, lexNegs_none (('(' :: r1).length + 1) true ('(' :: r1) (by simpa using hn), hs,
      lexNumeral_paren, lexFnConst_paren, hv, h]
  · simp only [ioperand, lexNegs_none (('(' :: r1).length + 1) true ('(' :: r1) (by simpa using hn), hs,
      lexNumeral_paren, lexFnConst_paren, hv, h]
    try (split
         · rename_i r3 heq; exact absurd heq (h2 r3)
         · rfl)

theorem itermL_of_ioperand_none (cs : List Char) (h : ∀ f, ioperand f cs = none) : ∀ f, itermL f cs = none := by
  intro f
  cases f with
  | zero => rfl
  | succ f => rw [itermL_succ]; simp only [iseqT, h f]

/-- a general term that is not an integer term does not start an integer term -/
theorem ioperand_gterm_nonint (t : GTerm) (ht : GTerm.WF t) (hni : ∀ it, t ≠ .int it) (Y : List Char)
    (hY : NameFollow Y) : ∀ f, ioperand f (GTerm.printL t ++ Y) = none := by
  obtain ⟨hne, hdollar⟩ := hY
  have hnoid := hne.noId
  intro f
  cases f with
  | zero => rfl
  | succ f =>
  cases t with
  | int it => exact absurd rfl (hni it)
  | fc c =>
    have hs : SymName c.toList := ht
    have e : GTerm.printL (.fc c) ++ Y = c.toList ++ '$' :: 'g' :: Y := by simp [GTerm.printL]
    rw [e]
    exact ioperand_fail f _ (skip_of_startsSolid (hs.startsSolid.append _))
      (name_head_solid_not_minus hs.idChars hs.startsSolid _) (lexNumeral_name (Or.inl hs) _)
      (lexFnConst_miss_sort lexSortI 'g' c.toList Y hs (lexSortWord_miss 'i' "nteger" 'g' Y (by decide)))
      (lexIntVar_none_of_uvar _ (lexUVar_symName _ _ hs)) (name_not_paren hs.idChars (SymName.ne_nil hs) _)
  | var v =>
    have hs : UVName v.toList := ht
    have huv := lexUVar_append v.toList Y hs hnoid
    have hiv : lexIntVar (v.toList ++ Y) = none := by
      unfold lexIntVar; rw [huv]
      split
      · rename_i x r heq
        injection heq with heq; injection heq with _ e2
        exact absurd e2 (hdollar r)
      · rfl
    exact ioperand_fail f _ (skip_of_startsSolid ((UVName.startsSolid hs).append _))
      (name_head_solid_not_minus hs.all_id (UVName.startsSolid hs) _) (lexNumeral_name (Or.inr hs) _)
      (lexFnConst_none_of_symConst _ _ (lexSymConst_uvName _ _ hs)) hiv (name_not_paren hs.all_id (UVName.ne_nil hs) _)
  | inf =>
    exact ioperand_fail f _ (skip_cons_solid _ ⟨by decide, by decide⟩) (lexNegative_of_head _ ⟨by decide, by decide⟩ (by decide))
      (by simp [GTerm.printL, lexNumeral, Asp.lexInteger, isNonzeroDigit])
      (lexFnConst_none_of_symConst _ _ (lexSymConst_none_of_head '#' _ (by decide) (by decide)))
      (lexIntVar_none_of_uvar _ (lexUVar_none_of_head '#' _ (by decide) (by decide)))
      (fun r e => by injection e with e1 _; exact absurd e1 (by decide))
  | sup =>
    exact ioperand_fail f _ (skip_cons_solid _ ⟨by decide, by decide⟩) (lexNegative_of_head _ ⟨by decide, by decide⟩ (by decide))
      (by simp [GTerm.printL, lexNumeral, Asp.lexInteger, isNonzeroDigit])
      (lexFnConst_none_of_symConst _ _ (lexSymConst_none_of_head '#' _ (by decide) (by decide)))
      (lexIntVar_none_of_uvar _ (lexUVar_none_of_head '#' _ (by decide) (by decide)))
      (fun r e => by injection e with e1 _; exact absurd e1 (by decide))
  | symb st =>
    cases st with
    | sym s =>
      have hs : SymName s.toList := ht
      exact ioperand_fail f _ (skip_of_startsSolid (hs.startsSolid.append _))
        (name_head_solid_not_minus hs.idChars hs.startsSolid _) (lexNumeral_name (Or.inl hs) _)
        (lexFnConst_plain _ _ _ hs hne hdollar) (lexIntVar_none_of_uvar _ (lexUVar_symName _ _ hs))
        (name_not_paren hs.idChars (SymName.ne_nil hs) _)
    | fc c =>
      have hs : SymName c.toList := ht
      have e : GTerm.printL (.symb (.fc c)) ++ Y = c.toList ++ '$' :: 's' :: Y := by simp [GTerm.printL, STerm.printL]
      rw [e]
      exact ioperand_fail f _ (skip_of_startsSolid (hs.startsSolid.append _))
        (name_head_solid_not_minus hs.idChars hs.startsSolid _) (lexNumeral_name (Or.inl hs) _)
        (lexFnConst_miss_sort lexSortI 's' c.toList Y hs (lexSortWord_miss 'i' "nteger" 's' Y (by decide)))
        (lexIntVar_none_of_uvar _ (lexUVar_symName _ _ hs)) (name_not_paren hs.idChars (SymName.ne_nil hs) _)
    | var v =>
      have hs : UVName v.toList := ht
      have e : GTerm.printL (.symb (.var v)) ++ Y = v.toList ++ '$' :: 's' :: Y := by simp [GTerm.printL, STerm.printL]
      rw [e]
      have huv := lexUVar_append v.toList ('$' :: 's' :: Y) hs (noId_cons _ (by decide))
      have hiv : lexIntVar (v.toList ++ '$' :: 's' :: Y) = none := by
        have s1 : lexSortI ('s' :: Y) = none := lexSortWord_miss 'i' "nteger" 's' Y (by decide)
        have g0 : lexSortG ('s' :: Y) = none := lexSortWord_miss 'g' "eneral" 's' Y (by decide)
        have s2 : lexSort ('s' :: Y) = some (.symbol, Y) := by simp only [lexSort, g0, s1, lexSortS_hit Y hnoid]
        simp [lexIntVar, huv, s1, s2]
      exact ioperand_fail f _ (skip_of_startsSolid ((UVName.startsSolid hs).append _))
        (name_head_solid_not_minus hs.all_id (UVName.startsSolid hs) _) (lexNumeral_name (Or.inr hs) _)
        (lexFnConst_none_of_symConst _ _ (lexSymConst_uvName _ _ hs)) hiv (name_not_paren hs.all_id (UVName.ne_nil hs) _)

/-- a word followed by a blank (`not `, `forall `, `exists `) starts no integer term -/
theorem ioperand_word (w : List Char) (hw : SymName w) (Y : List Char) : ∀ f, ioperand f (w ++ ' ' :: Y) = none := by
  intro f
  cases f with
  | zero => rfl
  | succ f =>
    obtain ⟨hne, hd⟩ := nameFollow_space Y
    exact ioperand_fail f _ (skip_of_startsSolid (hw.startsSolid.append _))
      (name_head_solid_not_minus hw.idChars hw.startsSolid _) (lexNumeral_name (Or.inl hw) _)
      (lexFnConst_plain _ _ _ hw hne hd) (lexIntVar_none_of_uvar _ (lexUVar_symName _ _ hw))
      (name_not_paren hw.idChars (SymName.ne_nil hw) _)

theorem symName_not : SymName ['n', 'o', 't'] := Or.inl ⟨'n', ['o', 't'], rfl, by decide, by decide⟩
theorem symName_qword (q : Quant) : SymName (qwordL q) := by
  cases q
  · exact Or.inl ⟨'f', ['o', 'r', 'a', 'l', 'l'], rfl, by decide, by decide⟩
  · exact Or.inl ⟨'e', ['x', 'i', 's', 't', 's'], rfl, by decide, by decide⟩

theorem rel_not_paren (rel : Rel) (Z r3 : List Char) : Rel.printL rel ++ Z ≠ ')' :: r3 := by
  cases rel <;> (intro e; simp [Rel.printL] at e)

theorem quant_text (q : Quant) (vs : List Var) (hvs : vs ≠ []) (B : List Char) :
    ∃ Y, qwordL q ++ (varsL vs ++ B) = qwordL q ++ ' ' :: Y := by
  cases vs with
  | nil => exact absurd rfl hvs
  | cons v vs => exact ⟨_, rfl⟩

/-- **`itermL` never reads a term that ends in front of `)` out of the text of a formula.** -/
theorem itermL_formula : ∀ (F : Formula), Formula.Safe F → ∀ (rest : List Char), NameFollow rest →
    ∀ f, 2 * (Formula.printL F ++ rest).length + 1 < f → NotBeforeParen (itermL f (Formula.printL F ++ rest)) := by
  intro F
  induction F with
  | atomic a =>
    intro ha rest hr f hf
    cases a with
    | tru =>
      exact Or.inl (itermL_of_ioperand_none _ (fun f => by
        have := ioperand_gterm_nonint .inf trivial (fun _ e => by cases e) rest hr
        cases f with
        | zero => rfl
        | succ f =>
          exact ioperand_fail f _ (skip_cons_solid _ ⟨by decide, by decide⟩) (lexNegative_of_head _ ⟨by decide, by decide⟩ (by decide))
            (by simp [Formula.printL, AtomicF.printL, lexNumeral, Asp.lexInteger, isNonzeroDigit])
            (lexFnConst_none_of_symConst _ _ (lexSymConst_none_of_head '#' _ (by decide) (by decide)))
            (lexIntVar_none_of_uvar _ (lexUVar_none_of_head '#' _ (by decide) (by decide)))
            (fun r e => by injection e with e1 _; exact absurd e1 (by decide))) f)
    | fls =>
      exact Or.inl (itermL_of_ioperand_none _ (fun f => by
        cases f with
        | zero => rfl
        | succ f =>
          exact ioperand_fail f _ (skip_cons_solid _ ⟨by decide, by decide⟩) (lexNegative_of_head _ ⟨by decide, by decide⟩ (by decide))
            (by simp [Formula.printL, AtomicF.printL, lexNumeral, Asp.lexInteger, isNonzeroDigit])
            (lexFnConst_none_of_symConst _ _ (lexSymConst_none_of_head '#' _ (by decide) (by decide)))
            (lexIntVar_none_of_uvar _ (lexUVar_none_of_head '#' _ (by decide) (by decide)))
            (fun r e => by injection e with e1 _; exact absurd e1 (by decide))) f)
    | atom at' =>
      obtain ⟨pred, args⟩ := at'
      have hs : SymName pred.toList := ha.1.1
      have hX : ∃ X, Formula.printL (.atomic (.atom ⟨pred, args⟩)) ++ rest = pred.toList ++ X ∧ NameFollow X := by
        cases args with
        | nil => exact ⟨rest, by simp [Formula.printL, AtomicF.printL, Atom.printL], hr⟩
        | cons t ts => exact ⟨'(' :: (gargsL (t :: ts) ++ ')' :: rest), by simp [Formula.printL, AtomicF.printL, Atom.printL],
            nameFollow_paren_open _⟩
      obtain ⟨X, eX, hXf⟩ := hX
      rw [eX]
      exact Or.inl (itermL_of_ioperand_none _ (ioperand_gterm_nonint (.symb (.sym pred)) hs (fun _ e => by cases e) X hXf) f)
    | cmp t gs =>
      obtain ⟨ht, hne, hgs⟩ := ha.1
      cases gs with
      | nil => exact absurd rfl hne
      | cons g gs =>
        have e : Formula.printL (.atomic (.cmp t (g :: gs))) ++ rest =
            GTerm.printL t ++ ' ' :: (Rel.printL g.rel ++ ' ' :: (GTerm.printL g.term ++ (guardsPrintL gs ++ rest))) := by
          simp [Formula.printL, AtomicF.printL, guardsPrintL, List.append_assoc]
        rw [e] at hf ⊢
        cases t with
        | int it =>
          obtain ⟨f0, rfl⟩ : ∃ f0, f = f0 + 1 := ⟨f - 1, by omega⟩
          obtain ⟨hg1, _, hg3⟩ := gfollow_guard g (GTerm.printL g.term ++ (guardsPrintL gs ++ rest))
          have hf' : 2 * (ITerm.printL it ++ ' ' :: (Rel.printL g.rel ++ ' ' :: (GTerm.printL g.term ++ (guardsPrintL gs ++ rest)))).length + 1 < f0 + 1 := hf
          have h := itermL_printL it ht _ hg1.noId hg3 f0 (by omega)
          refine Or.inr ⟨it, _, h, fun r3 => ?_⟩
          rw [skip_space, skip_relation]
          exact rel_not_paren _ _ _
        | inf | sup | fc _ | var _ | symb _ =>
          exact Or.inl (itermL_of_ioperand_none _ (ioperand_gterm_nonint _ ht (fun _ e => by cases e) _ (nameFollow_space _)) f)
  | not g _ =>
    intro _ rest _ f _
    exact Or.inl (itermL_of_ioperand_none _ (ioperand_word _ symName_not _) f)
  | quant q vs g _ =>
    intro h rest _ f _
    obtain ⟨Y, eY⟩ := quant_text q vs h.1 (' ' :: parenLL (quantBodyParen g) (Formula.printL g) ++ rest)
    have e : Formula.printL (.quant q vs g) ++ rest = qwordL q ++ ' ' :: Y := by
      rw [← eY]; simp [Formula.printL, List.append_assoc]
    rw [e]
    exact Or.inl (itermL_of_ioperand_none _ (ioperand_word _ (symName_qword q) _) f)
  | bin c l r ihl _ =>
    intro h rest hr f hf
    by_cases hb : parenLeft c l r = true
    · have e : Formula.printL (.bin c l r) ++ rest =
          '(' :: (Formula.printL l ++ ')' :: (Conn.printL c ++ (parenLL (parenRight c l r) (Formula.printL r) ++ rest))) := by
        simp [Formula.printL, hb, parenLL, List.append_assoc]
      rw [e] at hf ⊢
      simp only [List.length_cons] at hf
      obtain ⟨f1, rfl⟩ : ∃ f1, f = f1 + 2 := ⟨f - 2, by omega⟩
      have hs : skip (Formula.printL l ++ ')' :: (Conn.printL c ++ (parenLL (parenRight c l r) (Formula.printL r) ++ rest))) =
          Formula.printL l ++ ')' :: (Conn.printL c ++ (parenLL (parenRight c l r) (Formula.printL r) ++ rest)) :=
        skip_of_startsSolid ((Formula.printL_startsSolid l h.1).append _)
      have hin := ihl h.1 (')' :: (Conn.printL c ++ (parenLL (parenRight c l r) (Formula.printL r) ++ rest)))
        (nameFollow_paren_close _) f1 (by omega)
      rw [← hs] at hin
      left
      rw [itermL_succ]
      simp only [iseqT, ioperand_paren_fail f1 _ hin]
    · have hb' : parenLeft c l r = false := by simpa using hb
      have e : Formula.printL (.bin c l r) ++ rest =
          Formula.printL l ++ (Conn.printL c ++ (parenLL (parenRight c l r) (Formula.printL r) ++ rest)) := by
        simp [Formula.printL, hb', parenLL, List.append_assoc]
      rw [e] at hf ⊢
      have hnf : NameFollow (Conn.printL c ++ (parenLL (parenRight c l r) (Formula.printL r) ++ rest)) := by
        cases c <;> exact nameFollow_space _
      exact ihl h.1 _ hnf f hf

/-! ## the right operand of `<-` is not read as a term after `< -` -/

theorem name_lexNegative {l : List Char} (hs : SymName l) (Y : List Char) : lexNegative (l ++ Y) = none :=
  name_head_solid_not_minus hs.idChars hs.startsSolid Y

/-- a formula that does not begin with a comparison starts no integer term -/
theorem ioperand_formula_noncmp : ∀ (F : Formula), Formula.Safe F → F.beginsWithComparison = false →
    ∀ (rest : List Char), NameFollow rest → ∀ f, 2 * (Formula.printL F ++ rest).length + 3 < f →
    ioperand f (Formula.printL F ++ rest) = none ∧ lexNegative (Formula.printL F ++ rest) = none := by
  intro F
  induction F with
  | atomic a =>
    intro ha hb rest hr f _
    cases a with
    | cmp t gs => simp [Formula.beginsWithComparison] at hb
    | tru =>
      refine ⟨?_, lexNegative_of_head _ ⟨by decide, by decide⟩ (by decide)⟩
      cases f with
      | zero => rfl
      | succ f =>
        exact ioperand_fail f _ (skip_cons_solid _ ⟨by decide, by decide⟩) (lexNegative_of_head _ ⟨by decide, by decide⟩ (by decide))
          (by simp [Formula.printL, AtomicF.printL, lexNumeral, Asp.lexInteger, isNonzeroDigit])
          (lexFnConst_none_of_symConst _ _ (lexSymConst_none_of_head '#' _ (by decide) (by decide)))
          (lexIntVar_none_of_uvar _ (lexUVar_none_of_head '#' _ (by decide) (by decide)))
          (fun r e => by injection e with e1 _; exact absurd e1 (by decide))
    | fls =>
      refine ⟨?_, lexNegative_of_head _ ⟨by decide, by decide⟩ (by decide)⟩
      cases f with
      | zero => rfl
      | succ f =>
        exact ioperand_fail f _ (skip_cons_solid _ ⟨by decide, by decide⟩) (lexNegative_of_head _ ⟨by decide, by decide⟩ (by decide))
          (by simp [Formula.printL, AtomicF.printL, lexNumeral, Asp.lexInteger, isNonzeroDigit])
          (lexFnConst_none_of_symConst _ _ (lexSymConst_none_of_head '#' _ (by decide) (by decide)))
          (lexIntVar_none_of_uvar _ (lexUVar_none_of_head '#' _ (by decide) (by decide)))
          (fun r e => by injection e with e1 _; exact absurd e1 (by decide))
    | atom at' =>
      obtain ⟨pred, args⟩ := at'
      have hs : SymName pred.toList := ha.1.1
      have hX : ∃ X, Formula.printL (.atomic (.atom ⟨pred, args⟩)) ++ rest = pred.toList ++ X ∧ NameFollow X := by
        cases args with
        | nil => exact ⟨rest, by simp [Formula.printL, AtomicF.printL, Atom.printL], hr⟩
        | cons t ts => exact ⟨'(' :: (gargsL (t :: ts) ++ ')' :: rest), by simp [Formula.printL, AtomicF.printL, Atom.printL],
            nameFollow_paren_open _⟩
      obtain ⟨X, eX, hXf⟩ := hX
      rw [eX]
      exact ⟨ioperand_gterm_nonint (.symb (.sym pred)) hs (fun _ e => by cases e) X hXf f, name_lexNegative hs X⟩
  | not g _ =>
    intro _ _ rest _ f _
    exact ⟨ioperand_word _ symName_not _ f, name_lexNegative symName_not _⟩
  | quant q vs g _ =>
    intro h _ rest _ f _
    obtain ⟨Y, eY⟩ := quant_text q vs h.1 (' ' :: parenLL (quantBodyParen g) (Formula.printL g) ++ rest)
    have e : Formula.printL (.quant q vs g) ++ rest = qwordL q ++ ' ' :: Y := by
      rw [← eY]; simp [Formula.printL, List.append_assoc]
    rw [e]
    exact ⟨ioperand_word _ (symName_qword q) _ f, name_lexNegative (symName_qword q) _⟩
  | bin c l r ihl _ =>
    intro h hb rest hr f hf
    have hbl : l.beginsWithComparison = false := by simpa [Formula.beginsWithComparison] using hb
    by_cases hp : parenLeft c l r = true
    · have e : Formula.printL (.bin c l r) ++ rest =
          '(' :: (Formula.printL l ++ ')' :: (Conn.printL c ++ (parenLL (parenRight c l r) (Formula.printL r) ++ rest))) := by
        simp [Formula.printL, hp, parenLL, List.append_assoc]
      rw [e] at hf ⊢
      simp only [List.length_cons] at hf
      refine ⟨?_, lexNegative_of_head _ ⟨by decide, by decide⟩ (by decide)⟩
      obtain ⟨f0, rfl⟩ : ∃ f0, f = f0 + 1 := ⟨f - 1, by omega⟩
      have hs : skip (Formula.printL l ++ ')' :: (Conn.printL c ++ (parenLL (parenRight c l r) (Formula.printL r) ++ rest))) =
          Formula.printL l ++ ')' :: (Conn.printL c ++ (parenLL (parenRight c l r) (Formula.printL r) ++ rest)) :=
        skip_of_startsSolid ((Formula.printL_startsSolid l h.1).append _)
      have hin := itermL_formula l h.1 (')' :: (Conn.printL c ++ (parenLL (parenRight c l r) (Formula.printL r) ++ rest)))
        (nameFollow_paren_close _) f0 (by omega)
      rw [← hs] at hin
      exact ioperand_paren_fail f0 _ hin
    · have hp' : parenLeft c l r = false := by simpa using hp
      have e : Formula.printL (.bin c l r) ++ rest =
          Formula.printL l ++ (Conn.printL c ++ (parenLL (parenRight c l r) (Formula.printL r) ++ rest)) := by
        simp [Formula.printL, hp', parenLL, List.append_assoc]
      rw [e] at hf ⊢
      have hnf : NameFollow (Conn.printL c ++ (parenLL (parenRight c l r) (Formula.printL r) ++ rest)) := by
        cases c <;> exact nameFollow_space _
      exact ihl h.1 hbl _ hnf f hf

theorem ioperand_minus_space (f : Nat) (Y : List Char) (hs : skip Y = Y) (hn : lexNegative Y = none)
    (h : ioperand (f + 1) Y = none) : ioperand (f + 1) ('-' :: ' ' :: Y) = none := by
  have hneg : lexNegative ('-' :: ' ' :: Y) = some (' ' :: Y) :=
    lexNegative_minus _ (by simp [lexNumeral, Asp.lexInteger, isNonzeroDigit])
  have h1 : lexNegs (('-' :: ' ' :: Y).length + 1) true ('-' :: ' ' :: Y) = ([ITok.neg], ' ' :: Y) := by
    have a := lexNegs_succ_some (('-' :: ' ' :: Y).length) true ('-' :: ' ' :: Y) (' ' :: Y) (by simpa using hneg)
    have b := lexNegs_none (('-' :: ' ' :: Y).length) false (' ' :: Y) (by simpa [skip_space, hs] using hn)
    rw [a, b]
  have h2 : skip (' ' :: Y) = Y := by rw [skip_space, hs]
  have key : ioperand (f + 1) ('-' :: ' ' :: Y) = (ioperand (f + 1) Y).map (fun p => (.neg :: p.1, p.2)) := by
    simp only [ioperand, h1, h2, lexNegs_none (Y.length + 1) true Y (by simpa using hn), hs, List.nil_append, List.cons_append]
    cases lexNumeral Y with
    | some x => rfl
    | none =>
      simp only
      cases lexFnConst lexSortI Y with
      | some x => rfl
      | none =>
        simp only
        cases lexIntVar Y with
        | some x => rfl
        | none =>
          simp only
          split
          · rename_i r1
            cases itermL f (skip r1) with
            | none => rfl
            | some y =>
              simp only
              split <;> rfl
          · rfl
  rw [key, h]
  rfl

/-- the text after `<- ` is not read as a term after `< -` -/
def RimpSafe (Y : List Char) : Prop := ∀ f, 2 * Y.length + 3 < f → ioperand (f + 1) ('-' :: ' ' :: Y) = none

theorem rimpSafe_arg (l r : Formula) (hr : Formula.Safe r) (rest : List Char) (hrest : NameFollow rest) :
    RimpSafe (parenLL (parenRight .rimp l r) (Formula.printL r) ++ rest) := by
  intro f hf
  by_cases hp : parenRight .rimp l r = true
  · have e : parenLL (parenRight .rimp l r) (Formula.printL r) ++ rest = '(' :: (Formula.printL r ++ ')' :: rest) := by
      simp [hp, parenLL]
    rw [e] at hf ⊢
    simp only [List.length_cons] at hf
    have hs : skip (Formula.printL r ++ ')' :: rest) = Formula.printL r ++ ')' :: rest :=
      skip_of_startsSolid ((Formula.printL_startsSolid r hr).append _)
    have hin := itermL_formula r hr (')' :: rest) (nameFollow_paren_close _) f (by omega)
    rw [← hs] at hin
    exact ioperand_minus_space f _ (skip_cons_solid _ ⟨by decide, by decide⟩)
      (lexNegative_of_head _ ⟨by decide, by decide⟩ (by decide)) (ioperand_paren_fail f _ hin)
  · have hp' : parenRight .rimp l r = false := by simpa using hp
    have hb : r.beginsWithComparison = false := by
      simp only [parenRight, decide_true, Bool.true_and, Bool.or_eq_false_iff] at hp'
      exact hp'.1.1.1
    have e : parenLL (parenRight .rimp l r) (Formula.printL r) ++ rest = Formula.printL r ++ rest := by
      simp [hp', parenLL]
    rw [e] at hf ⊢
    obtain ⟨h1, h2⟩ := ioperand_formula_noncmp r hr hb rest hrest (f + 1) (by omega)
    exact ioperand_minus_space f _ (skip_of_startsSolid ((Formula.printL_startsSolid r hr).append _)) h2 h1

/-- a text starting with `-` that starts no integer term is no general term -/
theorem gtermL_minus_none (Z : List Char) (h : ioperand (2 * ('-' :: Z).length + 1) ('-' :: Z) = none) :
    gtermL ('-' :: Z) = none := by
  have a1 : lexFnConst lexSortG ('-' :: Z) = none :=
    lexFnConst_none_of_symConst _ _ (lexSymConst_none_of_head '-' Z (by decide) (by decide))
  have a2 : itermL (2 * ('-' :: Z).length + 2) ('-' :: Z) = none := by
    rw [itermL_succ]; simp only [iseqT, h]
  have a3 : lexSymConst ('-' :: Z) = none := lexSymConst_none_of_head '-' Z (by decide) (by decide)
  have a4 : lexUVar ('-' :: Z) = none := lexUVar_none_of_head '-' Z (by decide) (by decide)
  simp only [gtermL, a1, a2, stermL, lexFnConst_none_of_symConst _ _ a3, a3, lexSymVar, lexGenVar, a4]
  simp [stripPrefix]

theorem gtermL_arrow (Z : List Char) : gtermL ('-' :: '>' :: Z) = none := by
  refine gtermL_minus_none _ ?_
  have : 2 * ('-' :: '>' :: Z).length + 1 = (2 * ('-' :: '>' :: Z).length) + 1 := rfl
  rw [this, ioperand_minus _ ('>' :: Z) (skip_cons_solid Z ⟨by decide, by decide⟩)
    (by simp [lexNumeral, Asp.lexInteger, isNonzeroDigit]), ioperand_gt]
  rfl

/-! ## what may follow an atomic formula -/

theorem guardsL_of_rel_none (f : Nat) (rest : List Char) (h : lexRelation (skip rest) = none) : guardsL f rest = ([], rest) := by
  cases f with
  | zero => rfl
  | succ f => simp [guardsL, h]

theorem guardsL_of_gterm_none (f : Nat) (rest : List Char) (rel : Rel) (r : List Char)
    (h1 : lexRelation (skip rest) = some (rel, r)) (h2 : gtermL (skip r) = none) : guardsL f rest = ([], rest) := by
  cases f with
  | zero => rfl
  | succ f => simp [guardsL, h1, h2]

theorem atomicFollow_close (Y : List Char) : AtomicFollow (')' :: Y) :=
  ⟨gfollow_paren Y, ⟨⟨')', Y, rfl, by decide⟩, fun r => by
      rw [skip_cons_solid Y ⟨by decide, by decide⟩]; intro e; injection e with e1 _; exact absurd e1 (by decide)⟩,
    fun f => guardsL_of_rel_none f _ (by rw [skip_cons_solid Y ⟨by decide, by decide⟩]; rfl),
    by rw [skip_cons_solid Y ⟨by decide, by decide⟩]; exact lexVariable_none_of_head _ _ (by decide) (by decide)⟩

theorem atomicFollow_dot (Y : List Char) : AtomicFollow ('.' :: Y) :=
  ⟨⟨⟨'.', Y, rfl, by decide⟩, fun r' e => by injection e with e1 _; exact absurd e1 (by decide),
      Or.inl (by rw [skip_cons_solid Y ⟨by decide, by decide⟩]; rfl)⟩,
    ⟨⟨'.', Y, rfl, by decide⟩, fun r => by
      rw [skip_cons_solid Y ⟨by decide, by decide⟩]; intro e; injection e with e1 _; exact absurd e1 (by decide)⟩,
    fun f => guardsL_of_rel_none f _ (by rw [skip_cons_solid Y ⟨by decide, by decide⟩]; rfl),
    by rw [skip_cons_solid Y ⟨by decide, by decide⟩]; exact lexVariable_none_of_head _ _ (by decide) (by decide)⟩

theorem skip_conn (c : Conn) (Y : List Char) : skip (Conn.printL c ++ Y) = (Conn.printL c).tail ++ Y := by
  cases c <;>
    (simp only [Conn.printL, List.cons_append, List.nil_append, skip_space, List.tail]
     exact skip_cons_solid _ ⟨by decide, by decide⟩)

/-- a connective and its right operand follow -/
theorem atomicFollow_conn (c : Conn) (Y : List Char) (hsafe : c = .rimp → RimpSafe Y) :
    AtomicFollow (Conn.printL c ++ Y) := by
  have hne : NoIdNE (Conn.printL c ++ Y) := by cases c <;> exact ⟨' ', _, rfl, by decide⟩
  have hnd : ∀ r, Conn.printL c ++ Y ≠ '$' :: r := by
    cases c <;> (intro r e; injection e with e1 _; exact absurd e1 (by decide))
  have hnp : ∀ r, skip (Conn.printL c ++ Y) ≠ '(' :: r := by
    intro r
    rw [skip_conn]
    cases c <;> (intro e; simp [Conn.printL] at e)
  refine ⟨⟨hne, hnd, ?_⟩, ⟨hne, hnp⟩, ?_, ?_⟩
  · cases c with
    | imp => exact Or.inr ⟨' ' :: Y, by rw [skip_conn]; rfl⟩
    | and => exact Or.inl (by rw [skip_conn]; rfl)
    | or => exact Or.inl (by rw [skip_conn]; rfl)
    | iff => exact Or.inl (by rw [skip_conn]; rfl)
    | rimp => exact Or.inl (by rw [skip_conn]; rfl)
  · intro f
    cases c with
    | and => exact guardsL_of_rel_none f _ (by rw [skip_conn]; rfl)
    | or => exact guardsL_of_rel_none f _ (by rw [skip_conn]; rfl)
    | imp => exact guardsL_of_rel_none f _ (by rw [skip_conn]; rfl)
    | iff =>
      refine guardsL_of_gterm_none f _ .lt ('-' :: '>' :: ' ' :: Y) (by rw [skip_conn]; rfl) ?_
      rw [skip_cons_solid _ ⟨by decide, by decide⟩]; exact gtermL_arrow _
    | rimp =>
      refine guardsL_of_gterm_none f _ .lt ('-' :: ' ' :: Y) (by rw [skip_conn]; rfl) ?_
      rw [skip_cons_solid _ ⟨by decide, by decide⟩]
      refine gtermL_minus_none _ ?_
      exact hsafe rfl (2 * ('-' :: ' ' :: Y).length) (by simp only [List.length_cons]; omega)
  · rw [skip_conn]
    cases c <;> exact lexVariable_none_of_head _ _ (by decide) (by decide)

end Anthem.Fol
