/-
  Freshness of the names chosen by `freshVar` (substitute) — pigeonhole on the injective family
  `name ++ toString i`.
-/
import Std.Data.String.ToNat
import AnthemModel.Model.Substitute
namespace Anthem

theorem toString_nat_inj {m n : Nat} (h : toString m = toString n) : m = n :=
  Nat.repr_injective h

/-- the `i`-th candidate of `Variable::sequence(base)` -/
def candidate (base : Var) (i : Nat) : Var := ⟨base.name ++ toString i, base.sort⟩

theorem candidate_inj (base : Var) {i j : Nat} (h : candidate base i = candidate base j) : i = j := by
  simp only [candidate, Var.mk.injEq, String.append_right_inj, and_true] at h
  exact toString_nat_inj h

theorem findFresh_spec (base : Var) (taken : List Var) :
    ∀ (fuel i : Nat), (∃ j, i ≤ j ∧ j < i + fuel ∧ candidate base j ∉ taken) →
      findFresh base taken fuel i ∉ taken ∧ ∃ j, findFresh base taken fuel i = candidate base j := by
  intro fuel
  induction fuel with
  | zero => intro i ⟨j, h1, h2, _⟩; omega
  | succ fuel ih =>
    intro i ⟨j, h1, h2, h3⟩
    simp only [findFresh]
    split
    · rename_i hmem
      have hne : j ≠ i := fun e => h3 (e ▸ hmem)
      exact ih (i + 1) ⟨j, by omega, by omega, h3⟩
    · rename_i hmem
      exact ⟨hmem, i, rfl⟩

/-- among `taken.length + 1` consecutive candidates one is not taken -/
theorem exists_untaken (base : Var) (taken : List Var) :
    ∃ j, 1 ≤ j ∧ j < 1 + (taken.length + 1) ∧ candidate base j ∉ taken := by
  by_cases h : ∃ j, 1 ≤ j ∧ j < 1 + (taken.length + 1) ∧ candidate base j ∉ taken
  · exact h
  · exfalso
    have hall : ∀ j, 1 ≤ j → j < 1 + (taken.length + 1) → candidate base j ∈ taken := by
      intro j h1 h2
      exact Classical.not_not.mp fun hn => h ⟨j, h1, h2, hn⟩
    let L := (List.range' 1 (taken.length + 1)).map (candidate base)
    have hnd : L.Nodup := by
      have hr : (List.range' 1 (taken.length + 1)).Nodup := List.nodup_range'
      exact List.Pairwise.map (candidate base) (fun a b hab hc => hab (candidate_inj base hc)) hr
    have hsub : L ⊆ taken := by
      intro x hx
      simp only [L, List.mem_map, List.mem_range'_1] at hx
      obtain ⟨j, ⟨h1, h2⟩, rfl⟩ := hx
      exact hall j h1 (by omega)
    have := hnd.length_le_of_subset hsub
    simp [L] at this
    omega

theorem freshVar_not_mem (base : Var) (taken : List Var) : freshVar base taken ∉ taken :=
  (findFresh_spec base taken _ 1 (exists_untaken base taken)).1

theorem freshVar_sort (base : Var) (taken : List Var) : (freshVar base taken).sort = base.sort := by
  obtain ⟨j, hj⟩ := (findFresh_spec base taken _ 1 (exists_untaken base taken)).2
  unfold freshVar; rw [hj]; rfl

end Anthem
