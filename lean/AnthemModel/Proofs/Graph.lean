/-
  Exactness of the reachability computation behind `is_cyclic_directed`'s model (`reach`): after
  `|nodes|` rounds the collected set is closed under successors, hence contains exactly the
  vertices reachable in at least one step. Consequences: the cycle test is complete, and in an
  acyclic graph the number of reachable vertices is a rank that strictly decreases along edges.
-/
import AnthemModel.Proofs.GraphBasic
import AnthemModel.Proofs.Agree
namespace Anthem
open Asp C11

theorem mem_expand_iff {es : Edges} {s : List Pred} {x : Pred} :
    x ∈ expand es s ↔ x ∈ s ∨ ∃ v ∈ s, (v, x) ∈ es := by
  constructor
  · exact mem_expand
  · unfold expand
    suffices h : ∀ (l acc : List Pred), (x ∈ acc ∨ ∃ v ∈ l, (v, x) ∈ es) →
        x ∈ l.foldl (fun acc v => ext acc (succs es v)) acc by
      intro hx
      rcases hx with hx | hx
      · exact h s s (Or.inl hx)
      · exact h s s (Or.inr hx)
    intro l
    induction l with
    | nil => intro acc h; rcases h with h | ⟨v, hv, _⟩; exact h; cases hv
    | cons v l ih =>
      intro acc h
      simp only [List.foldl_cons]
      apply ih
      rcases h with h | ⟨u, hu, he⟩
      · exact Or.inl (mem_ext'.mpr (Or.inl h))
      · rcases List.mem_cons.mp hu with rfl | hu
        · exact Or.inl (mem_ext'.mpr (Or.inr (mem_succs.mpr he)))
        · exact Or.inr ⟨u, hu, he⟩

theorem reach_succ (es : Edges) : ∀ (k : Nat) (s : List Pred), reach es (k + 1) s = expand es (reach es k s) := by
  intro k
  induction k with
  | zero => intro s; rfl
  | succ k ih => intro s; rw [reach, ih (expand es s)]; rfl

theorem reach_mono (es : Edges) : ∀ (k : Nat) (s : List Pred), ∀ x ∈ s, x ∈ reach es k s := by
  intro k
  induction k with
  | zero => intro s x hx; exact hx
  | succ k ih =>
    intro s x hx
    rw [reach_succ]
    exact mem_expand_iff.mpr (Or.inl (ih s x hx))

/-- closed under successors -/
def Closed (es : Edges) (S : List Pred) : Prop := ∀ v ∈ S, ∀ x, (v, x) ∈ es → x ∈ S

theorem closed_expand {es : Edges} {S : List Pred} (h : Closed es S) : ∀ x, x ∈ expand es S ↔ x ∈ S := by
  intro x
  rw [mem_expand_iff]
  exact ⟨fun hx => hx.elim id (fun ⟨v, hv, he⟩ => h v hv x he), Or.inl⟩

theorem closed_reach {es : Edges} {S : List Pred} (h : Closed es S) : ∀ k x, x ∈ reach es k S ↔ x ∈ S := by
  intro k
  induction k with
  | zero => intro x; exact Iff.rfl
  | succ k ih =>
    intro x
    rw [reach_succ, mem_expand_iff]
    constructor
    · rintro (hx | ⟨v, hv, he⟩)
      · exact (ih x).mp hx
      · exact h v ((ih v).mp hv) x he
    · intro hx; exact Or.inl ((ih x).mpr hx)

theorem closed_path {es : Edges} {S : List Pred} (h : Closed es S) {y x : Pred} (hy : y ∈ S)
    (hp : Path es y x) : x ∈ S := by
  induction hp with
  | step he => exact h _ hy _ he
  | cons he _ ih => exact ih (h _ hy _ he)

/-! ## counting -/

def cnt (nodes S : List Pred) : Nat := (nodes.filter (· ∈ S)).length

theorem cnt_le (nodes S : List Pred) : cnt nodes S ≤ nodes.length := List.length_filter_le _ _

theorem cnt_mono {nodes S S' : List Pred} (h : ∀ x ∈ S, x ∈ S') : cnt nodes S ≤ cnt nodes S' := by
  unfold cnt
  induction nodes with
  | nil => simp
  | cons a l ih =>
    simp only [List.filter_cons]
    by_cases ha : a ∈ S
    · simp [ha, h a ha]; exact ih
    · by_cases ha' : a ∈ S'
      · simp [ha, ha']; omega
      · simp [ha, ha']; exact ih

theorem cnt_strict {nodes S S' : List Pred} (h : ∀ x ∈ S, x ∈ S') {x : Pred} (hxn : x ∈ nodes)
    (hx' : x ∈ S') (hx : x ∉ S) : cnt nodes S < cnt nodes S' := by
  unfold cnt
  induction nodes with
  | nil => cases hxn
  | cons a l ih =>
    simp only [List.filter_cons]
    rcases List.mem_cons.mp hxn with rfl | hxl
    · simp only [hx, hx', decide_false, decide_true, if_true, Bool.false_eq_true, if_false, List.length_cons]
      have := cnt_mono (nodes := l) h
      unfold cnt at this
      omega
    · have := ih hxl
      by_cases ha : a ∈ S
      · simp [ha, h a ha]; exact this
      · by_cases ha' : a ∈ S'
        · simp [ha, ha']; omega
        · simp [ha, ha']; exact this

theorem cnt_full {nodes S : List Pred} (h : cnt nodes S = nodes.length) : ∀ x ∈ nodes, x ∈ S := by
  unfold cnt at h
  induction nodes with
  | nil => intro x hx; cases hx
  | cons a l ih =>
    simp only [List.filter_cons] at h
    by_cases ha : a ∈ S
    · simp only [ha, decide_true, if_true, List.length_cons, Nat.add_right_cancel_iff] at h
      intro x hx
      rcases List.mem_cons.mp hx with rfl | hx
      · exact ha
      · exact ih h x hx
    · simp only [ha, decide_false, Bool.false_eq_true, if_false, List.length_cons] at h
      have := List.length_filter_le (fun x => decide (x ∈ S)) l
      omega

/-- after `|nodes|` rounds the reachable set is closed (all vertices involved lie in `nodes`) -/
theorem reach_closed (nodes : List Pred) (es : Edges) (htgt : ∀ e ∈ es, e.2 ∈ nodes) (s : List Pred)
    (hs : ∀ x ∈ s, x ∈ nodes) : Closed es (reach es nodes.length s) := by
  have hin : ∀ k, ∀ x ∈ reach es k s, x ∈ nodes := by
    intro k
    induction k with
    | zero => exact hs
    | succ k ih =>
      intro x hx
      rw [reach_succ, mem_expand_iff] at hx
      rcases hx with hx | ⟨v, _, he⟩
      · exact ih x hx
      · exact htgt _ he
  have key : ∀ k, (∃ j, j ≤ k ∧ Closed es (reach es j s)) ∨ k ≤ cnt nodes (reach es k s) := by
    intro k
    induction k with
    | zero => exact Or.inr (Nat.zero_le _)
    | succ k ih =>
      rcases ih with ⟨j, hj, hc⟩ | hk
      · exact Or.inl ⟨j, by omega, hc⟩
      · by_cases hc : Closed es (reach es k s)
        · exact Or.inl ⟨k, by omega, hc⟩
        · right
          have : ∃ v ∈ reach es k s, ∃ x, (v, x) ∈ es ∧ x ∉ reach es k s := by
            refine Classical.byContradiction fun hne => hc fun v hv x he => ?_
            exact Classical.byContradiction fun hx => hne ⟨v, hv, x, he, hx⟩
          obtain ⟨v, hv, x, he, hx⟩ := this
          have := cnt_strict (nodes := nodes) (S := reach es k s) (S' := reach es (k + 1) s)
            (fun y hy => by rw [reach_succ]; exact mem_expand_iff.mpr (Or.inl hy))
            (htgt _ he) (by rw [reach_succ]; exact mem_expand_iff.mpr (Or.inr ⟨v, hv, he⟩)) hx
          omega
  rcases key nodes.length with ⟨j, hj, hc⟩ | hk
  · -- closed earlier: the set no longer changes
    obtain ⟨d, hd⟩ : ∃ d, nodes.length = j + d := ⟨nodes.length - j, by omega⟩
    rw [hd]
    have hsame : ∀ d x, x ∈ reach es (j + d) s ↔ x ∈ reach es j s := by
      intro d
      induction d with
      | zero => intro x; exact Iff.rfl
      | succ d ih =>
        intro x
        rw [← Nat.add_assoc, reach_succ, mem_expand_iff]
        constructor
        · rintro (hx | ⟨v, hv, he⟩)
          · exact (ih x).mp hx
          · exact hc v ((ih v).mp hv) x he
        · intro hx; exact Or.inl ((ih x).mpr hx)
    intro v hv x he
    exact (hsame d x).mpr (hc v ((hsame d v).mp hv) x he)
  · have hfull := cnt_full (Nat.le_antisymm (cnt_le _ _) hk)
    intro v _ x he
    exact hfull x (htgt _ he)

/-- **`reach` is exact**: the set computed from the successors of `v` is the set of vertices
    reachable from `v` in at least one step. -/
theorem reach_exact (nodes : List Pred) (es : Edges) (htgt : ∀ e ∈ es, e.2 ∈ nodes) (v x : Pred) :
    x ∈ reach es nodes.length (succs es v) ↔ Path es v x := by
  constructor
  · exact fun hx => reach_sound _ _ (fun y hy => .step (mem_succs.mp hy)) x hx
  · intro hp
    have hcl := reach_closed nodes es htgt (succs es v) (fun y hy => htgt _ (mem_succs.mp hy))
    cases hp with
    | step he => exact reach_mono es _ _ _ (mem_succs.mpr he)
    | cons he hp' => exact closed_path hcl (reach_mono es _ _ _ (mem_succs.mpr he)) hp'

/-- **Completeness of the cycle test.** -/
theorem isCyclic_complete (nodes : List Pred) (es : Edges) (htgt : ∀ e ∈ es, e.2 ∈ nodes)
    (h : ∃ v ∈ nodes, Path es v v) : isCyclic nodes es = true := by
  obtain ⟨v, hv, hp⟩ := h
  simp only [isCyclic, List.any_eq_true, decide_eq_true_eq]
  exact ⟨v, hv, (reach_exact nodes es htgt v v).mpr hp⟩

theorem isCyclic_iff (nodes : List Pred) (es : Edges) (htgt : ∀ e ∈ es, e.2 ∈ nodes) :
    isCyclic nodes es = true ↔ ∃ v ∈ nodes, Path es v v :=
  ⟨isCyclic_sound nodes es, isCyclic_complete nodes es htgt⟩

/-! ## a rank for acyclic graphs -/

/-- number of vertices reachable from `v` -/
def rank (nodes : List Pred) (es : Edges) (v : Pred) : Nat :=
  cnt nodes (reach es nodes.length (succs es v))

/-- in an acyclic graph the rank strictly decreases along every path -/
theorem rank_lt (nodes : List Pred) (es : Edges) (htgt : ∀ e ∈ es, e.2 ∈ nodes)
    (hac : ∀ v, ¬ Path es v v) {a b : Pred} (hp : Path es a b) :
    rank nodes es b < rank nodes es a := by
  have hbn : b ∈ nodes := by
    have : ∀ {x y : Pred}, Path es x y → y ∈ nodes := by
      intro x y h
      induction h with
      | step he => exact htgt _ he
      | cons _ _ ih => exact ih
    exact this hp
  unfold rank
  refine cnt_strict (x := b) ?_ hbn ((reach_exact nodes es htgt a b).mpr hp) ?_
  · intro x hx
    exact (reach_exact nodes es htgt a x).mpr (hp.trans ((reach_exact nodes es htgt b x).mp hx))
  · intro hx
    exact hac b ((reach_exact nodes es htgt b b).mp hx)

end Anthem

namespace Anthem
open Asp C11

theorem mem_bodyPosPreds {b : List BodyAtom} {q : Pred} : q ∈ bodyPosPreds b ↔ ∃ f ∈ b, q ∈ f.posPreds := by
  unfold bodyPosPreds
  rw [mem_foldl_ext]; simp

theorem mem_bodyPreds {b : List BodyAtom} {q : Pred} : q ∈ bodyPreds b ↔ ∃ f ∈ b, q ∈ f.preds := by
  unfold bodyPreds
  rw [mem_foldl_ext]; simp

theorem posPreds_sub_preds {f : BodyAtom} {q : Pred} (h : q ∈ f.posPreds) : q ∈ f.preds := by
  cases f with
  | lit l =>
    obtain ⟨s, a⟩ := l
    cases s <;> simp [BodyAtom.posPreds, BodyAtom.preds] at h ⊢
    exact h
  | cmp _ _ _ => simp [BodyAtom.posPreds] at h

theorem mem_program_preds {p : Program} {q : Pred} : q ∈ p.preds ↔ ∃ r ∈ p, q ∈ r.preds := by
  unfold Program.preds
  rw [mem_foldl_ext]; simp

theorem positiveEdges_mem {p : Program} {a b : Pred} (h : (a, b) ∈ positiveEdges p) :
    ∃ r ∈ p, r.head.predicate = some a ∧ b ∈ bodyPosPreds r.body := by
  unfold positiveEdges at h
  simp only [List.mem_flatMap] at h
  obtain ⟨r, hr, he⟩ := h
  cases hh : r.head.predicate with
  | none => simp [hh] at he
  | some hp =>
    simp only [hh, List.mem_map, Prod.mk.injEq] at he
    obtain ⟨q, hq, rfl, rfl⟩ := he
    exact ⟨r, hr, hh, hq⟩

theorem positiveEdges_tgt (p : Program) : ∀ e ∈ positiveEdges p, e.2 ∈ p.preds := by
  intro ⟨a, b⟩ he
  obtain ⟨r, hr, _, hb⟩ := positiveEdges_mem he
  obtain ⟨f, hf, hq⟩ := mem_bodyPosPreds.mp hb
  refine mem_program_preds.mpr ⟨r, hr, ?_⟩
  unfold Rule.preds
  rw [mem_ext]
  exact Or.inr (mem_bodyPreds.mpr ⟨f, hf, posPreds_sub_preds hq⟩)

theorem path_src_mem (p : Program) {a b : Pred} (h : Path (positiveEdges p) a b) : a ∈ p.preds := by
  have : ∃ c, (a, c) ∈ positiveEdges p := by
    cases h with
    | step he => exact ⟨_, he⟩
    | cons he _ => exact ⟨_, he⟩
  obtain ⟨c, hc⟩ := this
  obtain ⟨r, hr, hh, _⟩ := positiveEdges_mem hc
  refine mem_program_preds.mpr ⟨r, hr, ?_⟩
  unfold Rule.preds
  rw [mem_ext, hh]
  exact Or.inl (by simp)

/-- **`is_tight` is exact**: a program is reported tight iff its positive dependency graph has no cycle. -/
theorem isTight_iff (p : Program) : isTight p = true ↔ ∀ v, ¬ Path (positiveEdges p) v v := by
  unfold isTight
  rw [Bool.not_eq_true', ← Bool.not_eq_true, isCyclic_iff p.preds _ (positiveEdges_tgt p)]
  constructor
  · intro h v hp; exact h ⟨v, path_src_mem p hp, hp⟩
  · rintro h ⟨v, _, hp⟩; exact h v hp

end Anthem
