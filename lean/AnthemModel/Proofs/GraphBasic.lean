/-
  Paths in the dependency graphs and soundness of the cycle test (shared by Proofs/Graph.lean and
  Props/C11.lean).
-/
import AnthemModel.Model.Analyze
namespace Anthem.C11
open Asp

/-- reachability in at least one step along the edge list -/
inductive Path (es : Edges) : Pred → Pred → Prop
  | step {a b} : (a, b) ∈ es → Path es a b
  | cons {a b c} : (a, b) ∈ es → Path es b c → Path es a c

theorem Path.trans {es : Edges} {a b c : Pred} (h₁ : Path es a b) (h₂ : Path es b c) :
    Path es a c := by
  induction h₁ with
  | step h => exact .cons h h₂
  | cons h _ ih => exact .cons h (ih h₂)

theorem mem_succs {es : Edges} {v w : Pred} : w ∈ succs es v ↔ (v, w) ∈ es := by
  simp only [succs, List.mem_map, List.mem_filter, decide_eq_true_eq]
  constructor
  · rintro ⟨⟨a, b⟩, ⟨h, rfl⟩, rfl⟩; exact h
  · intro h; exact ⟨(v, w), ⟨h, rfl⟩, rfl⟩

theorem mem_ext' {α} [DecidableEq α] {s t : List α} {x : α} : x ∈ ext s t ↔ x ∈ s ∨ x ∈ t := by
  unfold ext
  induction t generalizing s with
  | nil => simp
  | cons a t ih =>
    simp only [List.foldl_cons, ih, List.mem_cons]
    unfold ins
    split
    · constructor
      · rintro (h | h)
        · exact Or.inl h
        · exact Or.inr (Or.inr h)
      · rintro (h | rfl | h)
        · exact Or.inl h
        · rename_i hx; exact Or.inl hx
        · exact Or.inr h
    · simp only [List.mem_append, List.mem_singleton]
      constructor
      · rintro ((h | rfl) | h)
        · exact Or.inl h
        · exact Or.inr (Or.inl rfl)
        · exact Or.inr (Or.inr h)
      · rintro (h | rfl | h)
        · exact Or.inl (Or.inl h)
        · exact Or.inl (Or.inr rfl)
        · exact Or.inr h

theorem mem_expand {es : Edges} {s : List Pred} {x : Pred} :
    x ∈ expand es s → x ∈ s ∨ ∃ v ∈ s, (v, x) ∈ es := by
  unfold expand
  suffices h : ∀ (l acc : List Pred), x ∈ l.foldl (fun acc v => ext acc (succs es v)) acc →
      x ∈ acc ∨ ∃ v ∈ l, (v, x) ∈ es by
    intro hx
    exact h s s hx
  intro l
  induction l with
  | nil => intro acc h; exact Or.inl h
  | cons v l ih =>
    intro acc h
    rcases ih _ h with h1 | ⟨u, hu, he⟩
    · rcases mem_ext'.mp h1 with h2 | h2
      · exact Or.inl h2
      · exact Or.inr ⟨v, List.mem_cons_self, mem_succs.mp h2⟩
    · exact Or.inr ⟨u, List.mem_cons_of_mem _ hu, he⟩

/-- everything `reach` collects from the successors of `v` is reachable from `v` in ≥ 1 step -/
theorem reach_sound {es : Edges} {v : Pred} : ∀ (n : Nat) (s : List Pred),
    (∀ x ∈ s, Path es v x) → ∀ x ∈ reach es n s, Path es v x := by
  intro n
  induction n with
  | zero => intro s h x hx; exact h x hx
  | succ n ih =>
    intro s h x hx
    refine ih (expand es s) ?_ x hx
    intro y hy
    rcases mem_expand hy with h1 | ⟨u, hu, he⟩
    · exact h y h1
    · exact (h u hu).trans (.step he)

/-- **Soundness of the cycle test**: if it reports a cycle, some node reaches itself. -/
theorem isCyclic_sound (nodes : List Pred) (es : Edges) (h : isCyclic nodes es = true) :
    ∃ v ∈ nodes, Path es v v := by
  simp only [isCyclic, List.any_eq_true, decide_eq_true_eq] at h
  obtain ⟨v, hv, hr⟩ := h
  exact ⟨v, hv, reach_sound _ _ (fun x hx => .step (mem_succs.mp hx)) v hr⟩

end Anthem.C11
