/-
  Soundness of the induction scheme of proof outlines (moved here from Props/C13 so that other
  proofs can build on it): well-sorted assignments, elimination of a universal closure, and
  `induction_sound`.
-/
import AnthemModel.Model.External
import AnthemModel.Proofs.SubstBasic
import AnthemModel.Proofs.Decompose
import AnthemModel.Proofs.DefinitionSem
namespace Anthem.Outline

/-- well-sorted assignment -/
def WS (ρ : Asg) : Prop := ∀ v : Var, (ρ v).inSort v.sort

theorem WS.set {ρ : Asg} (h : WS ρ) (v : Var) (d : Dom) (hd : d.inSort v.sort) : WS (ρ.set v d) := by
  intro w
  by_cases e : w = v
  · subst e; simpa using hd
  · rw [Asg.set_other _ _ e]; exact h w

theorem allUpd_ws {L : List Var} {ρ τ : Asg} (h : WS ρ) (hτ : AllUpd L ρ τ) : WS τ := by
  intro v
  by_cases hv : v ∈ L
  · exact hτ.2 v hv
  · rw [hτ.1 v hv]; exact h v

/-- a universally closed formula that is true makes its body true under every well-sorted
    assignment -/
theorem closure_elim (J : Interp) (G : Formula) (ρ : Asg) (h : sat J G.universalClosure ρ) :
    ∀ τ : Asg, WS τ → sat J G τ := by
  intro τ hτ
  unfold Formula.universalClosure at h
  rw [sat_quantify] at h
  simp only [sat] at h
  -- instantiate the closure with the values of τ on the free variables
  let σ : Asg := fun v => if v ∈ G.fv then τ v else ρ v
  have hσ : AllUpd G.fv ρ σ := ⟨fun v hv => by simp [σ, hv], fun v hv => by simp [σ, hv, hτ v]⟩
  have := bindAll_iff.mp h σ hσ
  refine (sat_agree J G σ τ ?_).mp this
  intro v hv
  simp [σ, Formula.mem_fv.mpr hv]

/-- the only variable of `N + 1` is `N` itself, so substituting it never needs renaming -/
theorem noRename_self (v : String) : ∀ F : Formula, NoRename [⟨v, .integer⟩] ⟨v, .integer⟩ F := by
  intro F
  induction F with
  | atomic _ => trivial
  | not f ih => exact ih
  | bin c l r ihl ihr => exact ⟨ihl, ihr⟩
  | quant q vs f ih =>
    by_cases h : (⟨v, .integer⟩ : Var) ∈ vs
    · exact Or.inl h
    · refine Or.inr ⟨?_, ih⟩
      intro x hx hmem
      simp only [List.mem_singleton] at hmem
      subst hmem; exact h hx

theorem noRename_closed_term (w : Var) : ∀ F : Formula, NoRename [] w F := by
  intro F
  induction F with
  | atomic _ => trivial
  | not f ih => exact ih
  | bin c l r ihl ihr => exact ⟨ihl, ihr⟩
  | quant q vs f ih => exact Or.inr ⟨fun _ _ h => (by cases h), ih⟩

theorem sat_subst_noRename (J : Interp) (F : Formula) (v : Var) (s : GTerm)
    (hc : SortCompatible v s) (hn : NoRename s.vars v F) (ρ : Asg) :
    sat J (F.subst v s) ρ ↔ sat J F (ρ.set v (s.eval J.fc ρ)) := by
  have := ht_substFuel_noRename ⟨J.pred, J.pred, J.fc⟩ v s hc (F.depth + 1) F (Nat.le_succ _) hn .there ρ
  rwa [ht_there_eq_sat, ht_there_eq_sat] at this

/-- **Soundness of the induction scheme.** `base` and `step` are exactly the two obligations
    `inductive_lemma` builds for `forall N$i … (N$i >= n -> F)`. If both are true in `J`, then `F`
    holds for every integer `z ≥ n` (under every well-sorted assignment of the other variables),
    i.e. the lemma that is later used as an axiom is true. -/
theorem induction_sound (J : Interp) (F : Formula) (v : String) (n : Int) (ρ₀ : Asg)
    (hbase : sat J (F.subst ⟨v, .integer⟩ (.int (.num n))).universalClosure ρ₀)
    (hstep : sat J (Formula.bin .imp
        (.bin .and (.atomic (.cmp (.int (.var v)) [⟨.ge, .int (.num n)⟩])) F)
        (F.subst ⟨v, .integer⟩ (.int (.bin .add (.var v) (.num 1))))).universalClosure ρ₀) :
    ∀ (τ : Asg), WS τ → ∀ z : Int, n ≤ z → sat J F (τ.set ⟨v, .integer⟩ (.num z)) := by
  intro τ hτ z hz
  have hcI : ∀ t : ITerm, SortCompatible ⟨v, .integer⟩ (.int t) :=
    fun t => ⟨fun _ => ⟨t, rfl⟩, fun h => by cases h⟩
  obtain ⟨k, rfl⟩ := Int.le.dest hz
  clear hz
  induction k with
  | zero =>
    have h := closure_elim J _ ρ₀ hbase τ hτ
    rw [sat_subst_noRename J F ⟨v, .integer⟩ (.int (.num n)) (hcI _) (noRename_closed_term _ F)] at h
    simpa [GTerm.eval, ITerm.eval] using h
  | succ k ih =>
    have hτ' : WS (τ.set ⟨v, .integer⟩ (.num (n + k))) := hτ.set _ _ trivial
    have h := closure_elim J _ ρ₀ hstep _ hτ'
    simp only [sat, AtomicF.sat, cmpChain, and_true] at h
    have hge : Rel.holds .ge (GTerm.eval J.fc (τ.set ⟨v, .integer⟩ (.num (n + k))) (.int (.var v)))
        (GTerm.eval J.fc (τ.set ⟨v, .integer⟩ (.num (n + k))) (.int (.num n))) := by
      simp [GTerm.eval, ITerm.eval, Rel.holds, Dom.le, Dom.toInt]; omega
    have h2 := h ⟨hge, ih⟩
    rw [sat_subst_noRename J F ⟨v, .integer⟩ (.int (.bin .add (.var v) (.num 1))) (hcI _) (noRename_self v F)] at h2
    have e : ((τ.set ⟨v, .integer⟩ (.num (n + k))).set ⟨v, .integer⟩
        (GTerm.eval J.fc (τ.set ⟨v, .integer⟩ (.num (n + k))) (.int (.bin .add (.var v) (.num 1))))) =
        τ.set ⟨v, .integer⟩ (.num (n + ((k + 1 : Nat) : Int))) := by
      funext w
      by_cases hw : w = ⟨v, .integer⟩
      · subst hw
        simp only [Asg.set_same, GTerm.eval, ITerm.eval, IOp.eval, Dom.toInt]
        congr 1; omega
      · simp [Asg.set_other _ _ hw]
    rw [e] at h2
    exact h2

end Anthem.Outline
