/-
  The fresh interval variables `N<i>` / `N<i>_<j>` of a head atom are pairwise distinct and occur in
  none of its terms (`HeadFreshOK`), for every head atom.
-/
import Std.Data.String.ToNat
import AnthemModel.Proofs.NaturalSem
namespace Anthem
open Asp

theorem digits_no_underscore (n : Nat) : '_' ∉ (toString n).toList := by
  rw [Nat.toString_eq_repr, Nat.toList_repr]
  exact Nat.underscore_not_in_toDigits

theorem split_at_sep {α} {a : α} : ∀ {l₁ l₁' l₂ l₂' : List α}, a ∉ l₁ → a ∉ l₁' →
    l₁ ++ a :: l₂ = l₁' ++ a :: l₂' → l₁ = l₁'
  | [], [], _, _, _, _, _ => rfl
  | [], b :: l₁', _, _, _, h2, h => by
    simp only [List.nil_append, List.cons_append, List.cons.injEq] at h
    exact absurd (List.mem_cons.mpr (Or.inl h.1)) h2
  | b :: l₁, [], _, _, h1, _, h => by
    simp only [List.nil_append, List.cons_append, List.cons.injEq] at h
    exact absurd (List.mem_cons.mpr (Or.inl h.1.symm)) h1
  | b :: l₁, c :: l₁', _, _, h1, h2, h => by
    simp only [List.cons_append, List.cons.injEq] at h
    rw [h.1, split_at_sep (fun hm => h1 (List.mem_cons_of_mem _ hm)) (fun hm => h2 (List.mem_cons_of_mem _ hm)) h.2]

/-- the two shapes of a fresh name for argument position `i` -/
def NForm (i : Nat) (s : String) : Prop :=
  s = "N" ++ toString i ∨ ∃ j : Nat, s = "N" ++ toString i ++ "_" ++ toString j

theorem nform_index {i i' : Nat} {s : String} (h : NForm i s) (h' : NForm i' s) : i = i' := by
  have key : ∀ (x y : String), "N" ++ x = "N" ++ y → x.toList = y.toList := by
    intro x y e
    have := congrArg String.toList e
    simpa [String.toList_append] using this
  rcases h with rfl | ⟨j, rfl⟩ <;> rcases h' with e | ⟨j', e⟩
  · have := key _ _ e
    exact Nat.repr_injective (String.ext_iff.mpr (by simpa using this))
  · rw [String.append_assoc, String.append_assoc] at e
    have := key _ _ e
    have hm : '_' ∈ (toString i).toList := by
      rw [this]; simp [String.toList_append]
    exact absurd hm (digits_no_underscore i)
  · rw [String.append_assoc, String.append_assoc] at e
    have := key _ _ e
    have hm : '_' ∈ (toString i').toList := by
      rw [← this]; simp [String.toList_append]
    exact absurd hm (digits_no_underscore i')
  · rw [String.append_assoc, String.append_assoc, String.append_assoc, String.append_assoc] at e
    have := key _ _ e
    simp only [String.toList_append, String.reduceToList, List.cons_append, List.nil_append] at this
    have := split_at_sep (digits_no_underscore i) (digits_no_underscore i') this
    exact Nat.repr_injective (String.ext_iff.mpr (by simpa using this))

theorem searchNj_spec (taken : List String) (i : Nat) : ∀ (fuel j0 : Nat),
    (∃ j, j0 ≤ j ∧ j ≤ j0 + fuel ∧ "N" ++ toString i ++ "_" ++ toString j ∉ taken) →
    searchNj taken i fuel j0 ∉ taken ∧ ∃ j : Nat, searchNj taken i fuel j0 = "N" ++ toString i ++ "_" ++ toString j := by
  intro fuel
  induction fuel with
  | zero =>
    intro j0 ⟨j, h1, h2, h3⟩
    have : j = j0 := by omega
    subst this
    exact ⟨h3, j, rfl⟩
  | succ fuel ih =>
    intro j0 ⟨j, h1, h2, h3⟩
    simp only [searchNj]
    split
    · rename_i hm
      have : j ≠ j0 := fun e => h3 (e ▸ hm)
      exact ih (j0 + 1) ⟨j, by omega, by omega, h3⟩
    · rename_i hm
      exact ⟨hm, j0, rfl⟩

theorem searchNj_fresh (taken : List String) (i : Nat) :
    searchNj taken i (taken.length + 1) 0 ∉ taken ∧ NForm i (searchNj taken i (taken.length + 1) 0) := by
  have hex : ∃ j, 0 ≤ j ∧ j ≤ 0 + (taken.length + 1) ∧ "N" ++ toString i ++ "_" ++ toString j ∉ taken := by
    refine Classical.byContradiction fun hne => ?_
    have hall : ∀ j, j ≤ taken.length → "N" ++ toString i ++ "_" ++ toString j ∈ taken := fun j hj =>
      Classical.byContradiction fun hn => hne ⟨j, Nat.zero_le _, by omega, hn⟩
    let L := (List.range (taken.length + 1)).map fun j => "N" ++ toString i ++ "_" ++ toString j
    have hnd : L.Nodup := by
      refine List.Pairwise.map _ (fun a b hab hc => hab ?_) List.nodup_range
      simp only [String.append_right_inj] at hc
      exact Nat.repr_injective hc
    have hsub : L ⊆ taken := by
      intro x hx
      simp only [L, List.mem_map, List.mem_range] at hx
      obtain ⟨j, hj, rfl⟩ := hx
      exact hall j (by omega)
    have := hnd.length_le_of_subset hsub
    simp [L] at this
    omega
  obtain ⟨h1, j, h2⟩ := searchNj_spec taken i _ 0 hex
  exact ⟨h1, Or.inr ⟨j, h2⟩⟩

/-- the fresh names taken from position `k` on -/
def freshFrom (taken : List String) : Nat → List Term → List String
  | _, [] => []
  | k, t :: ts =>
    if !regFirst t then
      (if "N" ++ toString k ∈ taken then searchNj taken k (taken.length + 1) 0 else "N" ++ toString k) ::
        freshFrom taken (k + 1) ts
    else freshFrom taken (k + 1) ts

theorem freshFrom_eq (taken : List String) : ∀ (k : Nat) (ts : List Term),
    (indexFrom k ts).filterMap (fun (p : Nat × Term) =>
      if !regFirst p.2 then
        (if "N" ++ toString p.1 ∈ taken then some (searchNj taken p.1 (taken.length + 1) 0)
         else some ("N" ++ toString p.1))
      else none) = freshFrom taken k ts := by
  intro k ts
  induction ts generalizing k with
  | nil => rfl
  | cons t ts ih =>
    simp only [indexFrom, freshFrom]
    by_cases h : (!regFirst t) = true
    · by_cases hm : "N" ++ toString k ∈ taken
      · rw [List.filterMap_cons_some (b := searchNj taken k (taken.length + 1) 0) (by simp only [h, if_true, hm]),
          ih, if_pos h, if_pos hm]
      · rw [List.filterMap_cons_some (b := "N" ++ toString k) (by simp only [h, if_true, hm, if_false]),
          ih, if_pos h, if_neg hm]
    · rw [List.filterMap_cons_none (by simp only [h, if_false]; rfl), ih, if_neg h]

theorem freshFrom_spec (taken : List String) : ∀ (k : Nat) (ts : List Term),
    (∀ f ∈ freshFrom taken k ts, f ∉ taken ∧ ∃ i, k ≤ i ∧ NForm i f) ∧ (freshFrom taken k ts).Nodup := by
  intro k ts
  induction ts generalizing k with
  | nil => exact ⟨fun f hf => (by cases hf), List.nodup_nil⟩
  | cons t ts ih =>
    obtain ⟨ih1, ih2⟩ := ih (k + 1)
    simp only [freshFrom]
    split
    · have hhead : (if "N" ++ toString k ∈ taken then searchNj taken k (taken.length + 1) 0 else "N" ++ toString k) ∉ taken ∧
          NForm k (if "N" ++ toString k ∈ taken then searchNj taken k (taken.length + 1) 0 else "N" ++ toString k) := by
        split
        · exact searchNj_fresh taken k
        · rename_i hm; exact ⟨hm, Or.inl rfl⟩
      refine ⟨?_, List.nodup_cons.mpr ⟨?_, ih2⟩⟩
      · intro f hf
        rcases List.mem_cons.mp hf with rfl | hf
        · exact ⟨hhead.1, k, Nat.le_refl _, hhead.2⟩
        · obtain ⟨h1, i, hi, hn⟩ := ih1 f hf
          exact ⟨h1, i, by omega, hn⟩
      · intro hm
        obtain ⟨_, i, hi, hn⟩ := ih1 _ hm
        have := nform_index hhead.2 hn
        omega
    · refine ⟨fun f hf => ?_, ih2⟩
      obtain ⟨h1, i, hi, hn⟩ := ih1 f hf
      exact ⟨h1, i, by omega, hn⟩

/-- **`HeadFreshOK` holds for every head atom.** -/
theorem headFreshOK (a : Asp.Atom) : HeadFreshOK a := by
  have e : freshVarsForHeadAtom a = freshFrom a.vars 0 a.args := by
    unfold freshVarsForHeadAtom enumerate
    simp only
    rw [← freshFrom_eq]
  obtain ⟨h1, h2⟩ := freshFrom_spec a.vars 0 a.args
  unfold HeadFreshOK
  rw [e]
  refine ⟨h2, fun f hf t ht hx => (h1 f hf).1 (mem_atom_vars.mpr ⟨t, ht, hx⟩)⟩

end Anthem
