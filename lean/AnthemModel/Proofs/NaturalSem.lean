/-
  C08: the natural translation of a rule it accepts means the same as the rule in the reference
  semantics (hence the same as its tau* formula, C01), at both worlds of every HT interpretation.
-/
import AnthemModel.Proofs.TauStarRules
import AnthemModel.Model.Natural
namespace Anthem
open Asp

/-! ## integer-valued terms -/

/-- the substitution a natural-translation assignment stands for: the variables in `iv` are read
    through their integer-sorted copies -/
def σiv (iv : List String) (ρ : Asg) : Subst :=
  fun x => if x ∈ iv then .num (ρ ⟨x, .integer⟩).toInt else ρ ⟨x, .general⟩

def IsInt (d : Dom) : Prop := ∃ n : Int, d = .num n

/-- a term that evaluates to an integer has only integer-valued variables -/
theorem vals_int_vars {σ : Subst} : ∀ (t : Term) (n : Int), vals σ t (.num n) → ∀ x ∈ t.vars, IsInt (σ x) := by
  intro t
  induction t with
  | pre p => intro n _ x hx; simp [Term.vars] at hx
  | var y =>
    intro n h x hx
    simp only [Term.vars, List.mem_singleton] at hx
    subst hx
    simp only [vals] at h
    exact ⟨n, h.symm⟩
  | neg a ih =>
    intro n h x hx
    simp only [vals] at h
    obtain ⟨m, hm, _⟩ := h
    exact ih m hm x hx
  | bin op l r ihl ihr =>
    intro n h x hx
    simp only [vals] at h
    obtain ⟨a, b, ha, hb, _⟩ := h
    simp only [Term.vars, mem_ext] at hx
    rcases hx with hx | hx
    · exact ihl a ha x hx
    · exact ihr b hb x hx

def isCompound : Term → Bool
  | .neg _ | .bin .. => true
  | _ => false

/-- a compound term has a value only if all its variables are integer-valued -/
theorem compound_vals_int {σ : Subst} (t : Term) (hc : isCompound t = true) (d : Dom) (h : vals σ t d) :
    ∀ x ∈ t.vars, IsInt (σ x) := by
  cases t with
  | pre _ | var _ => simp [isCompound] at hc
  | neg a =>
    simp only [vals] at h
    obtain ⟨m, hm, _⟩ := h
    exact vals_int_vars a m hm
  | bin op l r =>
    simp only [vals] at h
    obtain ⟨a, b, ha, hb, _⟩ := h
    intro x hx
    simp only [Term.vars, mem_ext] at hx
    rcases hx with hx | hx
    · exact vals_int_vars l a ha x hx
    · exact vals_int_vars r b hb x hx

theorem p2fInt_sem (fc : FcI) (ρ : Asg) (σ : Subst) : ∀ (t : Term) (it : ITerm), p2fInt t = some it →
    (∀ x ∈ t.vars, σ x = .num (ρ ⟨x, .integer⟩).toInt) → ∀ d, vals σ t d ↔ d = .num (it.eval fc ρ) := by
  intro t
  induction t with
  | pre p =>
    intro it h _ d
    cases p with
    | num n => simp only [p2fInt, Option.some.injEq] at h; subst h; simp [vals, Pre.toDom, ITerm.eval]
    | inf | sup | sym _ => simp [p2fInt] at h
  | var x =>
    intro it h hσ d
    simp only [p2fInt, Option.some.injEq] at h; subst h
    simp only [vals, ITerm.eval]
    rw [hσ x (by simp [Term.vars])]
  | neg a ih =>
    intro it h hσ d
    simp only [p2fInt, Option.map_eq_some_iff] at h
    obtain ⟨ia, ha, rfl⟩ := h
    simp only [vals, ITerm.eval]
    constructor
    · rintro ⟨n, hn, rfl⟩
      have := (ih ia ha hσ (.num n)).mp hn
      injection this with this
      rw [this]; congr 1; omega
    · intro hd
      exact ⟨ia.eval fc ρ, (ih ia ha hσ _).mpr rfl, by rw [hd]; congr 1; omega⟩
  | bin op l r ihl ihr =>
    intro it h hσ d
    have hl : ∀ x ∈ l.vars, σ x = .num (ρ ⟨x, .integer⟩).toInt := fun x hx =>
      hσ x (by simp [Term.vars, mem_ext, hx])
    have hr : ∀ x ∈ r.vars, σ x = .num (ρ ⟨x, .integer⟩).toInt := fun x hx =>
      hσ x (by simp [Term.vars, mem_ext, hx])
    cases op with
    | div | mod | interval => simp [p2fInt] at h
    | add | sub | mul =>
      all_goals
        simp only [p2fInt, Option.bind_eq_bind, Option.bind_eq_some_iff, Option.some.injEq] at h
        obtain ⟨il, hil, ir, hir, rfl⟩ := h
        simp only [vals, ITerm.eval, IOp.eval]
        constructor
        · rintro ⟨a, b, ha, hb, rfl⟩
          have e1 := (ihl il hil hl (.num a)).mp ha
          have e2 := (ihr ir hir hr (.num b)).mp hb
          injection e1 with e1; injection e2 with e2
          rw [e1, e2]
        · intro hd
          exact ⟨il.eval fc ρ, ir.eval fc ρ, (ihl il hil hl _).mpr rfl, (ihr ir hir hr _).mpr rfl, hd⟩

/-- **terms of the first kind are single-valued**, and `p2f` computes the value -/
theorem p2f_sem (fc : FcI) (ρ : Asg) (iv : List String) (t : Term) (g : GTerm) (h : p2f t iv = some g)
    (hiv : isCompound t = true → ∀ x ∈ t.vars, x ∈ iv) (d : Dom) :
    vals (σiv iv ρ) t d ↔ d = g.eval fc ρ := by
  unfold p2f at h
  split at h
  · cases h
  · cases t with
    | var x =>
      simp only at h
      split at h
      · rename_i hx
        injection h with h; subst h
        simp [vals, σiv, hx, GTerm.eval, ITerm.eval]
      · rename_i hx
        injection h with h; subst h
        simp [vals, σiv, hx, GTerm.eval]
    | pre p =>
      simp only [Option.some.injEq] at h; subst h
      simp only [vals]
      rw [preToGTerm_eval]
    | neg a =>
      simp only [Option.map_eq_some_iff] at h
      obtain ⟨it, hit, rfl⟩ := h
      have := p2fInt_sem fc ρ (σiv iv ρ) (.neg a) it hit
        (fun x hx => by simp [σiv, hiv rfl x hx]) d
      simpa [GTerm.eval] using this
    | bin op l r =>
      simp only [Option.map_eq_some_iff] at h
      obtain ⟨it, hit, rfl⟩ := h
      have := p2fInt_sem fc ρ (σiv iv ρ) (.bin op l r) it hit
        (fun x hx => by simp [σiv, hiv rfl x hx]) d
      simpa [GTerm.eval] using this

/-! ## body atoms -/

theorem mapM_p2f_sem (fc : FcI) (ρ : Asg) (iv : List String) : ∀ (args : List Term) (ts : List GTerm),
    args.mapM (fun t => p2f t iv) = some ts →
    (∀ t ∈ args, isCompound t = true → ∀ x ∈ t.vars, x ∈ iv) →
    ∀ ds, valsList (σiv iv ρ) args ds ↔ ds = ts.map (GTerm.eval fc ρ) := by
  intro args
  induction args with
  | nil =>
    intro ts h _ ds
    simp only [List.mapM_nil, Option.pure_def, Option.some.injEq] at h
    subst h
    cases ds <;> simp [valsList]
  | cons t rest ih =>
    intro ts h hiv ds
    simp only [List.mapM_cons, Option.pure_def, Option.bind_eq_bind, Option.bind_eq_some_iff,
      Option.some.injEq] at h
    obtain ⟨g, hg, gs, hgs, rfl⟩ := h
    cases ds with
    | nil => simp [valsList]
    | cons d ds =>
      simp only [valsList, List.map_cons, List.cons.injEq]
      rw [p2f_sem fc ρ iv t g hg (hiv t List.mem_cons_self),
        ih gs hgs (fun t' ht' => hiv t' (List.mem_cons_of_mem _ ht'))]

theorem ht_signed' (M : HTI) (w : World) (τ : Asg) (s : Sign) (p : String) (ts : List GTerm) :
    ht M (signed s (.atomic (.atom ⟨p, ts⟩))) w τ ↔ signSem M w s p (ts.map (GTerm.eval M.fc τ)) := by
  cases s
  · simp only [signed, ht, AtomicF.sat, signSem]
  · simp only [signed, ht, AtomicF.sat, signSem]; rfl
  · simp only [signed, ht, AtomicF.sat, signSem]
    exact Classical.not_not

/-- terms allowed as interval bounds translate to integer terms -/
theorem p2f_int_form (iv : List String) (t : Term) (g : GTerm) (h : p2f t iv = some g)
    (hs : containsSIS t = false) (hv : ∀ x ∈ t.vars, x ∈ iv) : ∃ it, g = .int it := by
  unfold p2f at h
  split at h
  · cases h
  · cases t with
    | var x =>
      simp only at h
      rw [if_pos (hv x (by simp [Term.vars]))] at h
      injection h with h; exact ⟨_, h.symm⟩
    | pre p =>
      cases p with
      | num n => simp only [Option.some.injEq] at h; exact ⟨_, h.symm⟩
      | inf | sup | sym _ => simp [containsSIS] at hs
    | neg a =>
      simp only [Option.map_eq_some_iff] at h
      obtain ⟨it, _, rfl⟩ := h; exact ⟨it, rfl⟩
    | bin op l r =>
      simp only [Option.map_eq_some_iff] at h
      obtain ⟨it, _, rfl⟩ := h; exact ⟨it, rfl⟩

theorem between_iff (a2 a3 : Int) (lv : Dom) :
    (Dom.le (.num a2) lv ∧ Dom.le lv (.num a3)) ↔ ∃ k : Int, lv = .num k ∧ a2 ≤ k ∧ k ≤ a3 := by
  cases lv with
  | inf => simp [Dom.le]
  | sup => simp [Dom.le]
  | sym s => simp [Dom.le]
  | num k => simp [Dom.le]

theorem regSecond_form {t : Term} (h : regSecond t = true) :
    ∃ t2 t3, t = .bin .interval t2 t3 ∧ regFirst t2 = true ∧ containsSIS t2 = false ∧
      regFirst t3 = true ∧ containsSIS t3 = false := by
  cases t with
  | pre _ | var _ | neg _ => simp [regSecond] at h
  | bin op l r =>
    cases op <;> simp [regSecond] at h
    exact ⟨l, r, rfl, h.1.1.1, h.1.1.2, h.1.2, h.2⟩

theorem naturalComparison_sem (M : HTI) (w : World) (ρ : Asg) (iv : List String) (rel : Asp.Rel)
    (l r : Term) (F : Formula) (h : naturalComparison rel l r iv = some F)
    (hl : isCompound l = true → ∀ x ∈ l.vars, x ∈ iv)
    (hr : isCompound r = true → ∀ x ∈ r.vars, x ∈ iv) :
    ht M F w ρ ↔ bodyAtomSat M w (σiv iv ρ) (.cmp rel l r) := by
  unfold naturalComparison at h
  simp only [Option.bind_eq_bind, Option.bind_eq_some_iff] at h
  obtain ⟨lhs, hlhs, h⟩ := h
  have el := p2f_sem M.fc ρ iv l lhs hlhs hl
  split at h
  · -- `l = t2..t3`
    rename_i hcond
    simp only [Bool.and_eq_true, decide_eq_true_eq] at hcond
    obtain ⟨hrel, hreg⟩ := hcond
    obtain ⟨t2, t3, rfl, hf2, hs2, hf3, hs3⟩ := regSecond_form hreg
    simp only [Option.bind_eq_some_iff, Option.some.injEq] at h
    obtain ⟨t2', h2, t3', h3, rfl⟩ := h
    have hvr := hr rfl
    have hv2 : ∀ x ∈ t2.vars, x ∈ iv := fun x hx => hvr x (by simp [Term.vars, mem_ext, hx])
    have hv3 : ∀ x ∈ t3.vars, x ∈ iv := fun x hx => hvr x (by simp [Term.vars, mem_ext, hx])
    obtain ⟨i2, rfl⟩ := p2f_int_form iv t2 t2' h2 hs2 hv2
    obtain ⟨i3, rfl⟩ := p2f_int_form iv t3 t3' h3 hs3 hv3
    have e2 := p2f_sem M.fc ρ iv t2 _ h2 (fun _ => hv2)
    have e3 := p2f_sem M.fc ρ iv t3 _ h3 (fun _ => hv3)
    subst hrel
    simp only [ht, AtomicF.sat, cmpChain, Rel.holds, and_true, GTerm.eval, bodyAtomSat, vals, Asp.Rel.holds]
    rw [between_iff]
    constructor
    · rintro ⟨k, hk, h1, h2'⟩
      refine ⟨.num k, .num k, (el _).mpr hk.symm, ⟨_, _, (e2 _).mpr rfl, (e3 _).mpr rfl, k, h1, h2', rfl⟩, rfl⟩
    · rintro ⟨a, b, ha, ⟨a2, a3, h2', h3', k, hk1, hk2, rfl⟩, rfl⟩
      have ea := (el _).mp ha
      have e2' := (e2 _).mp h2'
      have e3' := (e3 _).mp h3'
      simp only [GTerm.eval] at e2' e3'
      injection e2' with e2'; injection e3' with e3'
      exact ⟨k, ea.symm, by omega, by omega⟩
  · simp only [Option.bind_eq_some_iff, Option.some.injEq] at h
    obtain ⟨rhs, hrhs, rfl⟩ := h
    have er := p2f_sem M.fc ρ iv r rhs hrhs hr
    simp only [ht, AtomicF.sat, cmpChain, and_true, bodyAtomSat]
    rw [convRel_holds]
    constructor
    · intro hh; exact ⟨_, _, (el _).mpr rfl, (er _).mpr rfl, hh⟩
    · rintro ⟨a, b, ha, hb, hh⟩
      rw [(el _).mp ha, (er _).mp hb] at hh; exact hh

theorem naturalLit_sem (M : HTI) (w : World) (ρ : Asg) (iv : List String) (s : Sign) (a : Asp.Atom)
    (a' : Anthem.Atom) (h : naturalBAtom a iv = some a')
    (hiv : ∀ t ∈ a.args, isCompound t = true → ∀ x ∈ t.vars, x ∈ iv) :
    ht M (signed s (.atomic (.atom a'))) w ρ ↔ bodyAtomSat M w (σiv iv ρ) (.lit ⟨s, a⟩) := by
  unfold naturalBAtom at h
  simp only [Option.bind_eq_bind, Option.bind_eq_some_iff, Option.some.injEq] at h
  obtain ⟨ts, hts, rfl⟩ := h
  rw [bodyAtomSat_lit, ht_signed']
  have := mapM_p2f_sem M.fc ρ iv a.args ts hts hiv
  constructor
  · intro hh; exact ⟨_, (this _).mpr rfl, hh⟩
  · rintro ⟨ds, hv, hh⟩; rw [(this ds).mp hv] at hh; exact hh

theorem mem_foldl_ins {α} [DecidableEq α] (l : List α) (init : List α) (x : α) :
    x ∈ l.foldl ins init ↔ x ∈ init ∨ x ∈ l := by
  induction l generalizing init with
  | nil => simp
  | cons a l ih => simp only [List.foldl_cons, ih, mem_ins, List.mem_cons]; exact or_assoc

theorem mem_bodyAtom_terms {f : BodyAtom} {t : Term} :
    t ∈ f.terms ↔ (match f with | .lit l => t ∈ l.atom.args | .cmp _ l r => t = l ∨ t = r) := by
  cases f with
  | lit l => simp [BodyAtom.terms, mem_foldl_ins]
  | cmp rel l r => simp [BodyAtom.terms, mem_ins]

/-- what `int_variables` guarantees for the terms of one body atom -/
def AtomCovered (iv : List String) (f : BodyAtom) : Prop :=
  (∀ t ∈ f.terms, isCompound t = true → ∀ x ∈ t.vars, x ∈ iv)

theorem naturalBodyAtom_sem (M : HTI) (w : World) (ρ : Asg) (iv : List String) (f : BodyAtom) (F : Formula)
    (h : (match f with
      | .lit l => (naturalBAtom l.atom iv).map fun a => signed l.sign (.atomic (.atom a))
      | .cmp rel l r => naturalComparison rel l r iv) = some F)
    (hc : AtomCovered iv f) : ht M F w ρ ↔ bodyAtomSat M w (σiv iv ρ) f := by
  cases f with
  | lit l =>
    obtain ⟨s, a⟩ := l
    simp only [Option.map_eq_some_iff] at h
    obtain ⟨a', ha', rfl⟩ := h
    exact naturalLit_sem M w ρ iv s a a' ha' fun t ht => hc t (mem_bodyAtom_terms.mpr ht)
  | cmp rel l r =>
    exact naturalComparison_sem M w ρ iv rel l r F h
      (hc l (mem_bodyAtom_terms.mpr (Or.inl rfl))) (hc r (mem_bodyAtom_terms.mpr (Or.inr rfl)))

theorem mapM_forall {α β} (g : α → Option β) (P : β → Prop) (Q : α → Prop) : ∀ (l : List α) (l' : List β),
    l.mapM g = some l' → (∀ a ∈ l, ∀ b, g a = some b → (P b ↔ Q a)) →
    ((∀ b ∈ l', P b) ↔ ∀ a ∈ l, Q a) := by
  intro l
  induction l with
  | nil =>
    intro l' h _
    simp only [List.mapM_nil, Option.pure_def, Option.some.injEq] at h
    subst h; simp
  | cons a l ih =>
    intro l' h hpq
    simp only [List.mapM_cons, Option.pure_def, Option.bind_eq_bind, Option.bind_eq_some_iff,
      Option.some.injEq] at h
    obtain ⟨b, hb, bs, hbs, rfl⟩ := h
    simp only [List.forall_mem_cons]
    rw [hpq a List.mem_cons_self b hb, ih bs hbs fun a' ha' => hpq a' (List.mem_cons_of_mem _ ha')]

theorem naturalBody_sem (M : HTI) (w : World) (ρ : Asg) (iv : List String) (b : List BodyAtom)
    (G : Formula) (h : naturalBody b iv = some G) (hc : ∀ f ∈ b, AtomCovered iv f) :
    ht M G w ρ ↔ bodySat M w (σiv iv ρ) b := by
  unfold naturalBody at h
  simp only [Option.bind_eq_bind, Option.bind_eq_some_iff, Option.some.injEq] at h
  obtain ⟨fs, hfs, rfl⟩ := h
  rw [ht_conjoin]
  unfold bodySat
  exact mapM_forall _ (fun F => ht M F w ρ) (fun f => bodyAtomSat M w (σiv iv ρ) f) b fs hfs
    fun f hf F hF => naturalBodyAtom_sem M w ρ iv f F hF (hc f hf)

/-! ## heads -/

theorem p2fInt_vars : ∀ (t : Term) (it : ITerm), p2fInt t = some it → ∀ v ∈ it.vars, v.name ∈ t.vars := by
  intro t
  induction t with
  | pre p =>
    intro it h v hv
    cases p with
    | num n => simp only [p2fInt, Option.some.injEq] at h; subst h; simp [ITerm.vars] at hv
    | inf | sup | sym _ => simp [p2fInt] at h
  | var x =>
    intro it h v hv
    simp only [p2fInt, Option.some.injEq] at h; subst h
    simp only [ITerm.vars, List.mem_singleton] at hv; subst hv
    simp [Term.vars]
  | neg a ih =>
    intro it h v hv
    simp only [p2fInt, Option.map_eq_some_iff] at h
    obtain ⟨ia, ha, rfl⟩ := h
    exact ih ia ha v hv
  | bin op l r ihl ihr =>
    intro it h v hv
    cases op with
    | div | mod | interval => simp [p2fInt] at h
    | add | sub | mul =>
      all_goals
        simp only [p2fInt, Option.bind_eq_bind, Option.bind_eq_some_iff, Option.some.injEq] at h
        obtain ⟨il, hil, ir, hir, rfl⟩ := h
        simp only [ITerm.vars, mem_ext] at hv
        simp only [Term.vars, mem_ext]
        rcases hv with hv | hv
        · exact Or.inl (ihl il hil v hv)
        · exact Or.inr (ihr ir hir v hv)

theorem p2f_vars (iv : List String) (t : Term) (g : GTerm) (h : p2f t iv = some g) :
    ∀ v ∈ g.vars, v.name ∈ t.vars := by
  unfold p2f at h
  split at h
  · cases h
  · cases t with
    | var x =>
      simp only at h
      split at h <;> (injection h with h; subst h; intro v hv; simp [GTerm.vars, ITerm.vars] at hv; subst hv; simp [Term.vars])
    | pre p =>
      simp only [Option.some.injEq] at h; subst h
      intro v hv
      cases p <;> simp [preToGTerm, GTerm.vars, ITerm.vars, STerm.vars] at hv
    | neg a =>
      simp only [Option.map_eq_some_iff] at h
      obtain ⟨it, hit, rfl⟩ := h
      exact p2fInt_vars _ it hit
    | bin op l r =>
      simp only [Option.map_eq_some_iff] at h
      obtain ⟨it, hit, rfl⟩ := h
      exact p2fInt_vars _ it hit

theorem p2fInt_isSome : ∀ t : Term, regFirst t = true → containsSIS t = false → ∃ it, p2fInt t = some it := by
  intro t
  induction t with
  | pre p =>
    intro _ hs
    cases p with
    | num n => exact ⟨_, rfl⟩
    | inf | sup | sym _ => simp [containsSIS] at hs
  | var x => intro _ _; exact ⟨_, rfl⟩
  | neg a ih =>
    intro hr hs
    simp only [regFirst, Bool.and_eq_true, Bool.not_eq_true'] at hr
    obtain ⟨ia, ha⟩ := ih hr.1 hr.2
    exact ⟨.neg ia, by simp [p2fInt, ha]⟩
  | bin op l r ihl ihr =>
    intro hr hs
    cases op with
    | div | mod | interval => simp [regFirst] at hr
    | add | sub | mul =>
      all_goals
        simp only [regFirst, Bool.and_eq_true, Bool.not_eq_true'] at hr
        obtain ⟨il, hl⟩ := ihl hr.1.1.1 hr.1.1.2
        obtain ⟨ir, hr'⟩ := ihr hr.1.2 hr.2
        exact ⟨_, by simp only [p2fInt, hl, hr', Option.bind_eq_bind, Option.bind_some]; rfl⟩

theorem p2f_isSome (iv : List String) (t : Term) (hr : regFirst t = true) : ∃ g, p2f t iv = some g := by
  unfold p2f
  rw [if_neg (by simp [hr])]
  cases t with
  | var x => simp only; split <;> exact ⟨_, rfl⟩
  | pre p => exact ⟨_, rfl⟩
  | neg a =>
    simp only [regFirst, Bool.and_eq_true, Bool.not_eq_true'] at hr
    obtain ⟨ia, ha⟩ := p2fInt_isSome a hr.1 hr.2
    exact ⟨.int (.neg ia), by simp [p2fInt, ha]⟩
  | bin op l r =>
    cases op with
    | div | mod | interval => simp [regFirst] at hr
    | add | sub | mul =>
      all_goals
        simp only [regFirst, Bool.and_eq_true, Bool.not_eq_true'] at hr
        obtain ⟨il, hl⟩ := p2fInt_isSome l hr.1.1.1 hr.1.1.2
        obtain ⟨ir, hr'⟩ := p2fInt_isSome r hr.1.2 hr.2
        exact ⟨_, by simp only [p2fInt, hl, hr', Option.bind_eq_bind, Option.bind_some, Option.map_some]; rfl⟩

theorem regSecond_false_of_regFirst {t : Term} (h : regFirst t = true) : regSecond t = false := by
  cases t with
  | pre _ | var _ | neg _ => rfl
  | bin op l r => cases op <;> simp [regFirst, regSecond] at h ⊢

def intVarsOf (fresh : List String) : List Var := fresh.map fun n => ⟨n, .integer⟩

/-- evaluation of a translated head term does not depend on the fresh interval variables -/
theorem p2f_eval_fresh (fc : FcI) (iv : List String) (t : Term) (g : GTerm) (h : p2f t iv = some g)
    (fresh : List String) (hf : ∀ f ∈ fresh, f ∉ t.vars) {ρ τ : Asg} (hτ : AllUpd (intVarsOf fresh) ρ τ) :
    g.eval fc τ = g.eval fc ρ := by
  apply GTerm.eval_congr
  intro v hv
  apply hτ.1
  intro hm
  simp only [intVarsOf, List.mem_map] at hm
  obtain ⟨n, hn, rfl⟩ := hm
  exact hf n hn (p2f_vars iv t g h _ hv)

theorem σiv_congr_set (iv : List String) (ρ : Asg) (f : String) (d : Dom) (x : String) (hx : x ≠ f) :
    σiv iv (ρ.set ⟨f, .integer⟩ d) x = σiv iv ρ x := by
  unfold σiv
  split
  · rw [Asg.set_other _ _ (by intro e; injection e with e; exact hx e)]
  · rw [Asg.set_other _ _ (by intro e; injection e with _ e; cases e)]

/-- an assignment that resets the fresh interval variables to `0` (sort-correct witness) -/
def zeroInts (fresh : List String) (ρ : Asg) : Asg :=
  fun v => if v ∈ intVarsOf fresh then .num 0 else ρ v

theorem zeroInts_allUpd (fresh : List String) (ρ : Asg) : AllUpd (intVarsOf fresh) ρ (zeroInts fresh ρ) := by
  refine ⟨fun v hv => by simp [zeroInts, hv], fun v hv => ?_⟩
  simp only [zeroInts, hv, if_true]
  simp only [intVarsOf, List.mem_map] at hv
  obtain ⟨n, _, rfl⟩ := hv
  trivial

theorem headTerms_sem (M : HTI) (w : World) (iv : List String) :
    ∀ (args : List Term) (fresh : List String) (ts : List GTerm) (ρ : Asg),
      naturalHeadTerms iv args fresh = some ts →
      (∀ t ∈ args, isCompound t = true → ∀ x ∈ t.vars, x ∈ iv) →
      (∀ f ∈ fresh, ∀ t ∈ args, f ∉ t.vars) → fresh.Nodup →
      ∀ ds, valsList (σiv iv ρ) args ds ↔
        ∃ τ, AllUpd (intVarsOf fresh) ρ τ ∧ (∀ F ∈ naturalHeadIntervals iv args fresh, ht M F w τ) ∧
          ds = ts.map (GTerm.eval M.fc τ) := by
  intro args
  induction args with
  | nil =>
    intro fresh ts ρ h _ _ _ ds
    simp only [naturalHeadTerms, Option.some.injEq] at h
    subst h
    simp only [naturalHeadIntervals, List.not_mem_nil, false_imp_iff, implies_true, true_and,
      List.map_nil]
    constructor
    · intro hv
      cases ds with
      | nil => exact ⟨zeroInts fresh ρ, zeroInts_allUpd fresh ρ, rfl⟩
      | cons _ _ => simp [valsList] at hv
    · rintro ⟨_, _, rfl⟩; trivial
  | cons t rest ih =>
    intro fresh ts ρ h hiv hfresh hnd ds
    have hivr : ∀ t' ∈ rest, isCompound t' = true → ∀ x ∈ t'.vars, x ∈ iv :=
      fun t' ht' => hiv t' (List.mem_cons_of_mem _ ht')
    by_cases hrf : regFirst t = true
    · -- a term of the first kind: one value, no fresh variable
      simp only [naturalHeadTerms, hrf, if_true, Option.bind_eq_bind, Option.bind_eq_some_iff,
        Option.some.injEq] at h
      obtain ⟨g, hg, rs, hrs, rfl⟩ := h
      have hint : naturalHeadIntervals iv (t :: rest) fresh = naturalHeadIntervals iv rest fresh := by
        simp [naturalHeadIntervals, regSecond_false_of_regFirst hrf]
      rw [hint]
      have hfr : ∀ f ∈ fresh, ∀ t' ∈ rest, f ∉ t'.vars := fun f hf t' ht' => hfresh f hf t' (List.mem_cons_of_mem _ ht')
      have hft : ∀ f ∈ fresh, f ∉ t.vars := fun f hf => hfresh f hf t List.mem_cons_self
      cases ds with
      | nil =>
        simp only [valsList, List.map_cons, false_iff]
        rintro ⟨_, _, _, h⟩; cases h
      | cons d ds =>
        simp only [valsList, List.map_cons, List.cons.injEq]
        rw [p2f_sem M.fc ρ iv t g hg (hiv t List.mem_cons_self), ih fresh rs ρ hrs hivr hfr hnd ds]
        constructor
        · rintro ⟨hd, τ, hτ, hI, hds⟩
          exact ⟨τ, hτ, hI, by rw [hd, p2f_eval_fresh M.fc iv t g hg fresh hft hτ], hds⟩
        · rintro ⟨τ, hτ, hI, hd, hds⟩
          exact ⟨by rw [hd, p2f_eval_fresh M.fc iv t g hg fresh hft hτ], τ, hτ, hI, hds⟩
    · -- an interval: one fresh integer variable ranges over it
      have hrf' : regFirst t = false := by simpa using hrf
      simp only [naturalHeadTerms, hrf', Bool.false_eq_true, if_false] at h
      split at h
      · rename_i hsec
        obtain ⟨t1, t2, rfl, hf1, hs1, hf2, hs2⟩ := regSecond_form hsec
        cases fresh with
        | nil => simp at h
        | cons f fs =>
          simp only [Option.bind_eq_bind, Option.bind_eq_some_iff, Option.some.injEq] at h
          obtain ⟨rs, hrs, rfl⟩ := h
          obtain ⟨a, ha⟩ := p2f_isSome iv t1 hf1
          obtain ⟨b, hb⟩ := p2f_isSome iv t2 hf2
          have hvt := hiv _ List.mem_cons_self rfl
          have hv1 : ∀ x ∈ t1.vars, x ∈ iv := fun x hx => hvt x (by simp [Term.vars, mem_ext, hx])
          have hv2 : ∀ x ∈ t2.vars, x ∈ iv := fun x hx => hvt x (by simp [Term.vars, mem_ext, hx])
          obtain ⟨ia, rfl⟩ := p2f_int_form iv t1 a ha hs1 hv1
          obtain ⟨ib, rfl⟩ := p2f_int_form iv t2 b hb hs2 hv2
          have hint : naturalHeadIntervals iv (.bin .interval t1 t2 :: rest) (f :: fs) =
              .atomic (.cmp (.int ia) [⟨.le, .int (.var f)⟩, ⟨.le, .int ib⟩]) ::
                naturalHeadIntervals iv rest fs := by
            simp [naturalHeadIntervals, hsec, ha, hb]
          rw [hint]
          have hnd' := List.nodup_cons.mp hnd
          have hff1 : ∀ g ∈ f :: fs, g ∉ t1.vars := fun g hg hx =>
            hfresh g hg _ List.mem_cons_self (by simp [Term.vars, mem_ext, hx])
          have hff2 : ∀ g ∈ f :: fs, g ∉ t2.vars := fun g hg hx =>
            hfresh g hg _ List.mem_cons_self (by simp [Term.vars, mem_ext, hx])
          have hfr : ∀ g ∈ fs, ∀ t' ∈ rest, g ∉ t'.vars := fun g hg t' ht' =>
            hfresh g (List.mem_cons_of_mem _ hg) t' (List.mem_cons_of_mem _ ht')
          have hfrest : ∀ t' ∈ rest, f ∉ t'.vars := fun t' ht' =>
            hfresh f List.mem_cons_self t' (List.mem_cons_of_mem _ ht')
          have e1 := p2f_sem M.fc ρ iv t1 _ ha (fun _ => hv1)
          have e2 := p2f_sem M.fc ρ iv t2 _ hb (fun _ => hv2)
          have hcongr : ∀ (d : Dom) (ds : List Dom),
              valsList (σiv iv (ρ.set ⟨f, .integer⟩ d)) rest ds ↔ valsList (σiv iv ρ) rest ds := fun d ds =>
            valsList_congr rest ds fun t' ht' x hx =>
              σiv_congr_set iv ρ f d x (fun e => hfrest t' ht' (e ▸ hx))
          cases ds with
          | nil =>
            simp only [valsList, List.map_cons, false_iff]
            rintro ⟨_, _, _, h⟩; cases h
          | cons d ds =>
            simp only [valsList, vals, List.map_cons, List.cons.injEq, List.forall_mem_cons]
            constructor
            · rintro ⟨⟨a1, a2, h1, h2, k, hk1, hk2, rfl⟩, hrest⟩
              have h1' := (e1 _).mp h1
              have h2' := (e2 _).mp h2
              simp only [GTerm.eval] at h1' h2'
              injection h1' with h1'; injection h2' with h2'
              obtain ⟨τ, hτ, hI, hds⟩ := (ih fs rs (ρ.set ⟨f, .integer⟩ (.num k)) hrs hivr hfr hnd'.2 ds).mp
                ((hcongr _ ds).mpr hrest)
              have hτf : τ ⟨f, .integer⟩ = .num k := by
                rw [hτ.1 _ (by simp only [intVarsOf, List.mem_map, not_exists, not_and]
                               intro n hn e; injection e with e; subst e; exact hnd'.1 hn)]
                simp
              have hτall : AllUpd (intVarsOf (f :: fs)) ρ τ := by
                refine ⟨fun v hv => ?_, fun v hv => ?_⟩
                · simp only [intVarsOf, List.map_cons, List.mem_cons, not_or] at hv
                  rw [hτ.1 v hv.2, Asg.set_other _ _ hv.1]
                · simp only [intVarsOf, List.map_cons, List.mem_cons] at hv
                  rcases hv with rfl | hv
                  · rw [hτf]; trivial
                  · exact hτ.2 v hv
              refine ⟨τ, hτall, ⟨?_, hI⟩, ?_, hds⟩
              · simp only [ht, AtomicF.sat, cmpChain, Rel.holds, and_true, GTerm.eval, ITerm.eval]
                rw [ITerm.eval_congr M.fc ia (ρ := τ) (ρ' := ρ) (fun v hv => hτall.1 v (by
                      simp only [intVarsOf, List.mem_map, not_exists, not_and]
                      intro n hn e; subst e
                      exact hff1 n hn (p2f_vars iv t1 _ ha _ hv))),
                  ITerm.eval_congr M.fc ib (ρ := τ) (ρ' := ρ) (fun v hv => hτall.1 v (by
                      simp only [intVarsOf, List.mem_map, not_exists, not_and]
                      intro n hn e; subst e
                      exact hff2 n hn (p2f_vars iv t2 _ hb _ hv))),
                  hτf, ← h1', ← h2']
                simp only [Dom.toInt, Dom.le]
                exact ⟨hk1, hk2⟩
              · simp only [GTerm.eval, ITerm.eval, hτf, Dom.toInt]
            · rintro ⟨τ, hτ, ⟨hI1, hI⟩, hd, hds⟩
              subst hd
              have hτ' : AllUpd (intVarsOf fs) (ρ.set ⟨f, .integer⟩ (τ ⟨f, .integer⟩)) τ := by
                refine ⟨fun v hv => ?_, fun v hv => hτ.2 v (by simp [intVarsOf] at hv ⊢; exact Or.inr hv)⟩
                by_cases e : v = ⟨f, .integer⟩
                · subst e; simp
                · rw [Asg.set_other _ _ e]
                  exact hτ.1 v (by
                    simp only [intVarsOf, List.map_cons, List.mem_cons, not_or]
                    exact ⟨e, hv⟩)
              have hrest := (hcongr _ ds).mp
                ((ih fs rs _ hrs hivr hfr hnd'.2 ds).mpr ⟨τ, hτ', hI, hds⟩)
              refine ⟨?_, hrest⟩
              simp only [ht, AtomicF.sat, cmpChain, Rel.holds, and_true, GTerm.eval, ITerm.eval] at hI1
              rw [ITerm.eval_congr M.fc ia (ρ := τ) (ρ' := ρ) (fun v hv => hτ.1 v (by
                    simp only [intVarsOf, List.mem_map, not_exists, not_and]
                    intro n hn e; subst e
                    exact hff1 n hn (p2f_vars iv t1 _ ha _ hv))),
                ITerm.eval_congr M.fc ib (ρ := τ) (ρ' := ρ) (fun v hv => hτ.1 v (by
                    simp only [intVarsOf, List.mem_map, not_exists, not_and]
                    intro n hn e; subst e
                    exact hff2 n hn (p2f_vars iv t2 _ hb _ hv)))] at hI1
              simp only [Dom.le] at hI1
              exact ⟨_, _, (e1 _).mpr rfl, (e2 _).mpr rfl, _, hI1.1, hI1.2, rfl⟩
      · cases h

theorem naturalHeadIntervals_nil (iv : List String) : ∀ args : List Term,
    naturalHeadIntervals iv args [] = [] := by
  intro args
  induction args with
  | nil => rfl
  | cons t rest ih =>
    simp only [naturalHeadIntervals]
    split
    · first | exact ih | (split <;> exact ih)
    · exact ih

theorem naturalHeadIntervals_worldfree (M : HTI) (iv : List String) (τ : Asg) (w w' : World) :
    ∀ (args : List Term) (fresh : List String), ∀ F ∈ naturalHeadIntervals iv args fresh,
      (ht M F w τ ↔ ht M F w' τ) := by
  intro args
  induction args with
  | nil => intro fresh F hF; simp [naturalHeadIntervals] at hF
  | cons t rest ih =>
    intro fresh F hF
    simp only [naturalHeadIntervals] at hF
    split at hF
    · split at hF
      · split at hF
        · rcases List.mem_cons.mp hF with rfl | hF
          · simp only [ht, AtomicF.sat]
          · exact ih _ F hF
        · exact ih _ F hF
      · exact ih _ F hF
    · exact ih _ F hF

/-- the fresh interval variables of a head atom are pairwise distinct and occur in none of its terms -/
def HeadFreshOK (a : Asp.Atom) : Prop :=
  (freshVarsForHeadAtom a).Nodup ∧ ∀ f ∈ freshVarsForHeadAtom a, ∀ t ∈ a.args, f ∉ t.vars

theorem naturalHead_sem (M : HTI) (hs : M.Sub) (w : World) (ρ : Asg) (iv : List String) (a : Asp.Atom)
    (choice : Bool) (H : Formula) (h : naturalHeadWith a iv choice = some H)
    (hiv : ∀ t ∈ a.args, isCompound t = true → ∀ x ∈ t.vars, x ∈ iv) (hfo : HeadFreshOK a) :
    ht M H w ρ ↔ headSat M w (σiv iv ρ) (if choice then .choice a else .basic a) := by
  unfold naturalHeadWith at h
  simp only [Option.bind_eq_bind, Option.bind_eq_some_iff] at h
  obtain ⟨ts, hts, h⟩ := h
  have hT := headTerms_sem M w iv a.args (freshVarsForHeadAtom a) ts ρ hts hiv hfo.2 hfo.1
  -- the conclusion at a world, under an assignment of the fresh variables
  let C : World → Asg → Prop := fun w' τ =>
    if choice then M.at w' a.pred (ts.map (GTerm.eval M.fc τ)) ∨ ¬ M.t a.pred (ts.map (GTerm.eval M.fc τ))
    else M.at w' a.pred (ts.map (GTerm.eval M.fc τ))
  have hC : ∀ w' τ, ht M (if choice then .bin .or (.atomic (.atom ⟨a.pred, ts⟩)) (.not (.atomic (.atom ⟨a.pred, ts⟩)))
      else .atomic (.atom ⟨a.pred, ts⟩)) w' τ ↔ C w' τ := by
    intro w' τ
    cases choice <;> simp [C, ht, AtomicF.sat, HTI.at]
  have hmono : ∀ τ, C w τ → C .there τ := by
    intro τ hc
    cases choice with
    | false =>
      simp only [C, Bool.false_eq_true, if_false] at hc ⊢
      cases w with
      | here => exact hs _ _ hc
      | there => exact hc
    | true =>
      simp only [C, if_true]
      exact Classical.em _
  have hhead : headSat M w (σiv iv ρ) (if choice then .choice a else .basic a) ↔
      ∀ τ, AllUpd (intVarsOf (freshVarsForHeadAtom a)) ρ τ →
        (∀ F ∈ naturalHeadIntervals iv a.args (freshVarsForHeadAtom a), ht M F w τ) → C w τ := by
    cases choice with
    | false =>
      simp only [Bool.false_eq_true, if_false, headSat, C]
      constructor
      · intro hh τ hτ hI; exact hh _ ((hT _).mpr ⟨τ, hτ, hI, rfl⟩)
      · intro hh ds hv
        obtain ⟨τ, hτ, hI, rfl⟩ := (hT ds).mp hv
        exact hh τ hτ hI
    | true =>
      simp only [if_true, headSat, C]
      constructor
      · intro hh τ hτ hI; exact hh _ ((hT _).mpr ⟨τ, hτ, hI, rfl⟩)
      · intro hh ds hv
        obtain ⟨τ, hτ, hI, rfl⟩ := (hT ds).mp hv
        exact hh τ hτ hI
  rw [hhead]
  split at h
  · -- no interval in the head
    rename_i hemp
    have he : freshVarsForHeadAtom a = [] := List.isEmpty_iff.mp hemp
    injection h with h; subst h
    rw [hC, he, naturalHeadIntervals_nil]
    constructor
    · intro hc τ hτ _
      have : τ = ρ := funext fun v => hτ.1 v (by simp [intVarsOf])
      rw [this]; exact hc
    · intro hh
      exact hh ρ ⟨fun _ _ => rfl, fun v hv => by simp [intVarsOf] at hv⟩ (by simp)
  · injection h with h; subst h
    simp only [ht]
    rw [bindAll_iff]
    refine forall_congr' fun τ => imp_congr_right fun hτ => ?_
    rw [ht_conjoin, ht_conjoin, hC, hC]
    have hwf : (∀ F ∈ naturalHeadIntervals iv a.args (freshVarsForHeadAtom a), ht M F .there τ) ↔
        (∀ F ∈ naturalHeadIntervals iv a.args (freshVarsForHeadAtom a), ht M F w τ) :=
      forall_congr' fun F => imp_congr_right fun hF =>
        naturalHeadIntervals_worldfree M iv τ .there w a.args _ F hF
    rw [hwf]
    constructor
    · intro hh hI; exact hh.1 hI
    · intro hh; exact ⟨hh, fun hI => hmono τ (hh hI)⟩

/-! ## `int_variables` -/

def termIntVars : Term → List String
  | .neg a => a.vars
  | .bin _ l r => ext l.vars r.vars
  | _ => []

theorem mem_termIntVars {t : Term} {x : String} : x ∈ termIntVars t ↔ isCompound t = true ∧ x ∈ t.vars := by
  cases t <;> simp [termIntVars, isCompound, Term.vars]

theorem mem_fromTerms (ts : List Term) (init : List String) (x : String) :
    x ∈ ts.foldl intVarsStepTerm init ↔ x ∈ init ∨ ∃ t ∈ ts, x ∈ termIntVars t := by
  induction ts generalizing init with
  | nil => simp
  | cons t ts ih =>
    simp only [List.foldl_cons, ih, List.mem_cons, exists_eq_or_imp]
    cases t <;> simp [intVarsStepTerm, termIntVars, mem_ext, or_assoc]

def cmpIntVars : BodyAtom → List String
  | .cmp .eq l rhs => if regSecond rhs then l.vars else []
  | _ => []

theorem mem_fromBody (b : List BodyAtom) (init : List String) (x : String) :
    x ∈ b.foldl intVarsStepBody init ↔ x ∈ init ∨ ∃ f ∈ b, x ∈ cmpIntVars f := by
  induction b generalizing init with
  | nil => simp
  | cons f fs ih =>
    simp only [List.foldl_cons, ih, List.mem_cons, exists_eq_or_imp]
    cases f with
    | lit l => simp [intVarsStepBody, cmpIntVars]
    | cmp rel l rhs =>
      cases rel <;> simp only [intVarsStepBody, cmpIntVars, List.not_mem_nil, false_or]
      split <;> simp [mem_ext, or_assoc]

theorem mem_intVariables (r : Rule) (x : String) :
    x ∈ intVariables r ↔ (∃ t ∈ r.terms, isCompound t = true ∧ x ∈ t.vars) ∨ ∃ f ∈ r.body, x ∈ cmpIntVars f := by
  unfold intVariables
  rw [mem_fromBody, mem_fromTerms]
  simp only [List.not_mem_nil, false_or, mem_termIntVars]

theorem mem_rule_terms (r : Rule) (t : Term) :
    t ∈ r.terms ↔ t ∈ r.head.terms.getD [] ∨ ∃ f ∈ r.body, t ∈ f.terms := by
  unfold Rule.terms bodyTerms
  rw [mem_ext, mem_foldl_ins, mem_foldl_ext]
  simp

/-! ## the closure over all free variables -/

def WSAsg (ρ : Asg) : Prop := ∀ v : Var, (ρ v).inSort v.sort

theorem ht_universalClosure (M : HTI) (G : Formula) (w : World) (ρ : Asg) :
    ht M G.universalClosure w ρ ↔ ∀ τ, WSAsg τ → ht M G w τ := by
  have hq : ht M G.universalClosure w ρ ↔ bindAll G.fv (ht M G w) ρ := by
    unfold Formula.universalClosure
    rw [ht_quantify]; rfl
  rw [hq, bindAll_iff]
  constructor
  · intro h τ hτ
    let σ : Asg := fun v => if v ∈ G.fv then τ v else ρ v
    have hσ : AllUpd G.fv ρ σ := ⟨fun v hv => by simp [σ, hv], fun v hv => by simp [σ, hv, hτ v]⟩
    refine (ht_agree M G w σ τ ?_).mp (h σ hσ)
    intro v hv
    simp [σ, Formula.mem_fv.mpr hv]
  · intro h τ hτ
    let σ : Asg := fun v => if v ∈ G.fv then τ v else v.sort.default
    have hσ : WSAsg σ := fun v => by
      by_cases hv : v ∈ G.fv
      · simp [σ, hv, hτ.2 v hv]
      · simp [σ, hv, Srt.default_inSort]
    refine (ht_agree M G w σ τ ?_).mp (h σ hσ)
    intro v hv
    simp [σ, Formula.mem_fv.mpr hv]

/-! ## rules -/

theorem valsList_mem {σ : Subst} : ∀ {args : List Term} {ds : List Dom}, valsList σ args ds →
    ∀ t ∈ args, ∃ d, vals σ t d
  | [], _, _, t, ht => by cases ht
  | _ :: _, [], h, _, _ => by simp [valsList] at h
  | a :: as, d :: ds, h, t, ht => by
    simp only [valsList] at h
    rcases List.mem_cons.mp ht with rfl | ht
    · exact ⟨d, h.1⟩
    · exact valsList_mem h.2 t ht

/-- one instance of a rule -/
def RuleInst (M : HTI) (w : World) (r : Rule) (σ : Subst) : Prop :=
  (bodySat M w σ r.body → headSat M w σ r.head) ∧
  (bodySat M .there σ r.body → headSat M .there σ r.head)

/-- an instance in which a variable of `int_variables` has a non-integer value holds trivially:
    the body has no value for the term the variable occurs in, or the head has no value tuple -/
theorem ruleInst_vacuous (M : HTI) (w : World) (r : Rule) (σ : Subst) (x : String)
    (hx : x ∈ intVariables r) (hn : ¬ IsInt (σ x)) : RuleInst M w r σ := by
  rw [mem_intVariables] at hx
  have body_false : ∀ f ∈ r.body, (∀ w', ¬ bodyAtomSat M w' σ f) → RuleInst M w r σ := by
    intro f hf hfalse
    exact ⟨fun hb => absurd (hb f hf) (hfalse w), fun hb => absurd (hb f hf) (hfalse .there)⟩
  rcases hx with ⟨t, ht, hc, hxt⟩ | ⟨f, hf, hxf⟩
  · rw [mem_rule_terms] at ht
    rcases ht with ht | ⟨f, hf, htf⟩
    · -- a compound head term without value: the head holds vacuously
      have hvac : ∀ (a : Asp.Atom), t ∈ a.args → ∀ ds, ¬ valsList σ a.args ds := by
        intro a hta ds hv
        obtain ⟨d, hd⟩ := valsList_mem hv t hta
        exact hn (compound_vals_int t hc d hd x hxt)
      cases hh : r.head with
      | falsity => simp [hh, Head.terms] at ht
      | basic a =>
        simp only [hh, Head.terms, Option.getD_some] at ht
        unfold RuleInst; rw [hh]
        exact ⟨fun _ ds hv => absurd hv (hvac a ht ds), fun _ ds hv => absurd hv (hvac a ht ds)⟩
      | choice a =>
        simp only [hh, Head.terms, Option.getD_some] at ht
        unfold RuleInst; rw [hh]
        exact ⟨fun _ ds hv => absurd hv (hvac a ht ds), fun _ ds hv => absurd hv (hvac a ht ds)⟩
    · refine body_false f hf fun w' hsat => ?_
      rw [mem_bodyAtom_terms] at htf
      cases f with
      | lit l =>
        obtain ⟨s, a⟩ := l
        rw [bodyAtomSat_lit] at hsat
        obtain ⟨ds, hv, _⟩ := hsat
        obtain ⟨d, hd⟩ := valsList_mem hv t htf
        exact hn (compound_vals_int t hc d hd x hxt)
      | cmp rel l rhs =>
        simp only [bodyAtomSat] at hsat
        obtain ⟨a, b, ha, hb, _⟩ := hsat
        rcases htf with rfl | rfl
        · exact hn (compound_vals_int _ hc a ha x hxt)
        · exact hn (compound_vals_int _ hc b hb x hxt)
  · refine body_false f hf fun w' hsat => ?_
    cases f with
    | lit l => simp [cmpIntVars] at hxf
    | cmp rel l rhs =>
      cases rel <;> simp only [cmpIntVars, List.not_mem_nil] at hxf
      split at hxf
      · rename_i hreg
        obtain ⟨t2, t3, rfl, _⟩ := regSecond_form hreg
        simp only [bodyAtomSat, vals, Asp.Rel.holds] at hsat
        obtain ⟨a, b, ha, ⟨_, _, _, _, k, _, _, rfl⟩, rfl⟩ := hsat
        exact hn (vals_int_vars l k ha x hxf)
      · cases hxf

/-- **The natural translation of a rule is correct** (for HT interpretations, `H ⊆ T`): the formula
    holds at world `w` iff the rule is satisfied at `w` in the reference semantics. -/
theorem naturalRule_sem (M : HTI) (hs : M.Sub) (w : World) (r : Rule) (F : Formula)
    (h : naturalRule r = some F)
    (hfo : ∀ a, (r.head = .basic a ∨ r.head = .choice a) → HeadFreshOK a) (ρ : Asg) :
    ht M F w ρ ↔ ruleSat M w r := by
  unfold naturalRule at h
  simp only [Option.bind_eq_bind, Option.bind_eq_some_iff, Option.some.injEq] at h
  obtain ⟨H, hH, B, hB, rfl⟩ := h
  -- coverage of the terms by `int_variables`
  have hcov : ∀ t ∈ r.terms, isCompound t = true → ∀ x ∈ t.vars, x ∈ intVariables r := fun t ht hc x hx =>
    (mem_intVariables r x).mpr (Or.inl ⟨t, ht, hc, hx⟩)
  have hbodycov : ∀ f ∈ r.body, AtomCovered (intVariables r) f := fun f hf t ht =>
    hcov t ((mem_rule_terms r t).mpr (Or.inr ⟨f, hf, ht⟩))
  have hbody : ∀ w' τ, ht M B w' τ ↔ bodySat M w' (σiv (intVariables r) τ) r.body := fun w' τ =>
    naturalBody_sem M w' τ _ r.body B hB hbodycov
  have hhead : ∀ w' τ, ht M H w' τ ↔ headSat M w' (σiv (intVariables r) τ) r.head := by
    intro w' τ
    cases hh : r.head with
    | falsity =>
      simp only [hh, naturalHead, Option.some.injEq] at hH
      subst hH
      simp [ht, Formula.fls, AtomicF.sat, headSat]
    | basic a =>
      simp only [hh, naturalHead] at hH
      have := naturalHead_sem M hs w' τ _ a false H hH
        (fun t ht => hcov t ((mem_rule_terms r t).mpr (Or.inl (by simp [hh, Head.terms, ht]))))
        (hfo a (Or.inl hh))
      simpa using this
    | choice a =>
      simp only [hh, naturalHead] at hH
      have := naturalHead_sem M hs w' τ _ a true H hH
        (fun t ht => hcov t ((mem_rule_terms r t).mpr (Or.inl (by simp [hh, Head.terms, ht]))))
        (hfo a (Or.inr hh))
      simpa using this
  rw [ht_universalClosure]
  have hinst : ∀ τ, ht M (.bin .imp B H) w τ ↔ RuleInst M w r (σiv (intVariables r) τ) := by
    intro τ
    simp only [ht, RuleInst, hbody, hhead]
  unfold ruleSat
  constructor
  · intro hall σ
    by_cases hint : ∀ x ∈ intVariables r, IsInt (σ x)
    · -- a well-sorted assignment standing for σ
      let τ : Asg := fun v =>
        match v.sort with
        | .general => σ v.name
        | .integer => .num (σ v.name).toInt
        | .symbol => .sym ""
      have hτ : WSAsg τ := by
        intro v; obtain ⟨n, s⟩ := v; cases s <;> simp [τ, Dom.inSort]
      have hσ : σiv (intVariables r) τ = σ := by
        funext x
        unfold σiv
        split
        · rename_i hx
          obtain ⟨k, hk⟩ := hint x hx
          simp [τ, hk, Dom.toInt]
        · rfl
      have := (hinst τ).mp (hall τ hτ)
      rw [hσ] at this
      exact this
    · have : ∃ x, x ∈ intVariables r ∧ ¬ IsInt (σ x) :=
        Classical.byContradiction fun hne => hint fun x hx =>
          Classical.byContradiction fun hni => hne ⟨x, hx, hni⟩
      obtain ⟨x, hx, hni⟩ := this
      exact ruleInst_vacuous M w r σ x hx hni
  · intro hall τ _
    exact (hinst τ).mpr (hall _)

end Anthem
