/-
  The definitions of an accepted proof outline can be made true by re-interpreting only the
  predicates they define: for every interpretation there is one that agrees with it on the task's
  predicates and satisfies all accepted definitions of a direction.
-/
import AnthemModel.Proofs.OutlineSound
import AnthemModel.Proofs.DefinitionAccepted
namespace Anthem.Outline
open Asp

/-- the definitions can be made true by changing the interpretation outside `base` only -/
def DefsExt (base : List Pred) (defs : List SAnn) : Prop :=
  ∀ J : Interp, ∃ P' : PredI,
    (∀ q ds, (⟨q, ds.length⟩ : Pred) ∈ base → (P' q ds ↔ J.pred q ds)) ∧
    ∀ d ∈ defs, ∀ ρ, sat ⟨P', J.fc⟩ d.formula ρ

theorem DefsExt.nil (base : List Pred) : DefsExt base [] :=
  fun J => ⟨J.pred, fun _ _ _ => Iff.rfl, fun d hd => by cases hd⟩

/-- adding an accepted definition -/
theorem DefsExt.snoc {base taken : List Pred} {defs : List SAnn} (hext : DefsExt base defs)
    (hsub : ∀ q ∈ base, q ∈ taken) (hpreds : ∀ d ∈ defs, ∀ q ∈ d.formula.preds, q ∈ taken)
    (a : SAnn) (p : Pred) (h : checkDefinition a.formula taken = .ok p) : DefsExt base (defs ++ [a]) := by
  intro J
  obtain ⟨P', hagree, hdefs⟩ := hext J
  obtain ⟨vars, at', rhs, tv, _, hp, hnt, _⟩ := definition_accepted_implies a.formula taken p h
  obtain ⟨P'', helse, hnew⟩ := definition_conservative a.formula taken p h ⟨P', J.fc⟩
  have hne : ∀ (q : String) (ds : List Dom), (⟨q, ds.length⟩ : Pred) ∈ taken → ¬ (q = p.symbol ∧ ds.length = p.arity) := by
    rintro q ds hin ⟨h1, h2⟩
    apply hnt
    have : (⟨q, ds.length⟩ : Pred) = p := by cases p; simp only [Pred.mk.injEq]; exact ⟨h1, h2⟩
    rw [← this]; exact hin
  refine ⟨P'', fun q ds hb => ?_, fun d hd ρ => ?_⟩
  · rw [helse q ds (hne q ds (hsub _ hb))]; exact hagree q ds hb
  · rcases List.mem_append.mp hd with hd | hd
    · rw [sat_congr_preds J.fc P'' P' d.formula ρ]
      · exact hdefs d hd ρ
      · intro q hq ds hlen
        have hin : (⟨q.symbol, ds.length⟩ : Pred) ∈ taken := by
          have := hpreds d hd q hq
          cases q; simp only at hlen ⊢; rw [hlen]; exact this
        exact helse q.symbol ds (hne q.symbol ds hin)
    · simp only [List.mem_singleton] at hd; subst hd
      exact hnew ρ

theorem definition_preds (f : Formula) (taken : List Pred) (p : Pred) (h : checkDefinition f taken = .ok p) :
    ∀ q ∈ f.preds, q ∈ ins taken p := by
  obtain ⟨vars, a, rhs, tv, rfl, hp, _, _, hrhs, _⟩ := definition_accepted_implies f taken p h
  intro q hq
  simp only [Formula.preds, AtomicF.preds, mem_ext, List.mem_singleton] at hq
  rcases hq with hq | hq
  · rw [hq, ← hp]; exact mem_ins.mpr (Or.inr rfl)
  · exact mem_ins.mpr (Or.inl (hrhs q hq))

/-- the invariant of the fold over the outline -/
structure DInv (base : List Pred) (po : ProofOutline) (taken : List Pred) : Prop where
  sub : ∀ q ∈ base, q ∈ taken
  fpreds : ∀ d ∈ po.forwardDefinitions, ∀ q ∈ d.formula.preds, q ∈ taken
  bpreds : ∀ d ∈ po.backwardDefinitions, ∀ q ∈ d.formula.preds, q ∈ taken
  fext : DefsExt base po.forwardDefinitions
  bext : DefsExt base po.backwardDefinitions

theorem DInv.mono_preds {taken : List Pred} {p : Pred} {defs : List SAnn}
    (h : ∀ d ∈ defs, ∀ q ∈ d.formula.preds, q ∈ taken) : ∀ d ∈ defs, ∀ q ∈ d.formula.preds, q ∈ ins taken p :=
  fun d hd q hq => mem_ins.mpr (Or.inl (h d hd q hq))

theorem outlineStep_dinv (base : List Pred) (m : PlaceholderMap) (po : ProofOutline) (taken lem : List Pred) (a : SAnn)
    (po' : ProofOutline) (taken' lem' : List Pred) (hinv : DInv base po taken)
    (h : outlineStep m (.ok (po, taken, lem)) a = .ok (po', taken', lem')) : DInv base po' taken' := by
  unfold outlineStep at h
  simp only at h
  split at h
  · split at h
    · split at h <;>
        (injection h with h; injection h with h1 h2; injection h2 with h2 _; subst h1; subst h2
         exact ⟨hinv.sub, hinv.fpreds, hinv.bpreds, hinv.fext, hinv.bext⟩)
    · cases h
    · cases h
    · cases h
  · split at h
    · split at h <;>
        (injection h with h; injection h with h1 h2; injection h2 with h2 _; subst h1; subst h2
         exact ⟨hinv.sub, hinv.fpreds, hinv.bpreds, hinv.fext, hinv.bext⟩)
    · cases h
    · cases h
    · cases h
  · split at h
    · rename_i p hdef
      split at h
      · cases h
      · have hsub' : ∀ q ∈ base, q ∈ ins taken p := fun q hq => mem_ins.mpr (Or.inl (hinv.sub q hq))
        have hnewp := definition_preds _ taken p hdef
        have snocP : ∀ (defs : List SAnn), (∀ d ∈ defs, ∀ q ∈ d.formula.preds, q ∈ taken) →
            ∀ d ∈ defs ++ [a.replacePlaceholders m], ∀ q ∈ d.formula.preds, q ∈ ins taken p := by
          intro defs hd d hdm q hq
          rcases List.mem_append.mp hdm with hdm | hdm
          · exact mem_ins.mpr (Or.inl (hd d hdm q hq))
          · simp only [List.mem_singleton] at hdm; subst hdm; exact hnewp q hq
        split at h <;>
          (injection h with h; injection h with h1 h2; injection h2 with h2 _; subst h1; subst h2)
        · exact ⟨hsub', snocP _ hinv.fpreds, DInv.mono_preds hinv.bpreds,
            hinv.fext.snoc hinv.sub hinv.fpreds _ p hdef, hinv.bext⟩
        · exact ⟨hsub', DInv.mono_preds hinv.fpreds, snocP _ hinv.bpreds, hinv.fext,
            hinv.bext.snoc hinv.sub hinv.bpreds _ p hdef⟩
        · exact ⟨hsub', snocP _ hinv.fpreds, snocP _ hinv.bpreds,
            hinv.fext.snoc hinv.sub hinv.fpreds _ p hdef, hinv.bext.snoc hinv.sub hinv.bpreds _ p hdef⟩
    · cases h
    · cases h
    · cases h
  · cases h
  · cases h

theorem outlineFold_dinv (base : List Pred) (m : PlaceholderMap) : ∀ (spec : Specification) (po : ProofOutline)
    (taken lem : List Pred) (po' : ProofOutline) (taken' lem' : List Pred), DInv base po taken →
    spec.foldl (outlineStep m) (.ok (po, taken, lem)) = .ok (po', taken', lem') → DInv base po' taken' := by
  intro spec
  induction spec with
  | nil =>
    intro po taken lem po' taken' lem' hg h
    simp only [List.foldl_nil] at h; injection h with h; injection h with h1 h2; injection h2 with h2 _
    subst h1; subst h2; exact hg
  | cons a spec ih =>
    intro po taken lem po' taken' lem' hg h
    simp only [List.foldl_cons] at h
    cases hs : outlineStep m (.ok (po, taken, lem)) a with
    | ok x =>
      obtain ⟨po1, taken1, lem1⟩ := x
      rw [hs] at h
      exact ih po1 taken1 lem1 po' taken' lem' (outlineStep_dinv base m po taken lem a po1 taken1 lem1 hg hs) h
    | err e => rw [hs, outlineFold_stuck m spec _ (fun x hx => by cases hx)] at h; cases h
    | panic s => rw [hs, outlineFold_stuck m spec _ (fun x hx => by cases hx)] at h; cases h
    | timeout => rw [hs, outlineFold_stuck m spec _ (fun x hx => by cases hx)] at h; cases h

/-- the definitions of either direction of an accepted outline can be made true by changing the
    interpretation outside the predicates that were taken when the outline started -/
theorem proofOutlineFrom_defsExt (spec : Specification) (taken : List Pred) (m : PlaceholderMap) (po : ProofOutline)
    (h : proofOutlineFrom spec taken m = .ok po) :
    DefsExt taken po.forwardDefinitions ∧ DefsExt taken po.backwardDefinitions := by
  unfold proofOutlineFrom at h
  cases hf : spec.foldl (outlineStep m) (.ok ({}, taken, [])) with
  | ok x =>
    obtain ⟨po1, taken1, lem1⟩ := x
    simp only [hf] at h
    injection h with h; subst h
    have h0 : DInv taken ({} : ProofOutline) taken := by
      refine ⟨fun q hq => hq, ?_, ?_, DefsExt.nil _, DefsExt.nil _⟩
      · intro d hd; cases hd
      · intro d hd; cases hd
    have := outlineFold_dinv taken m spec {} taken [] po1 taken1 lem1 h0 hf
    exact ⟨this.fext, this.bext⟩
  | err e => simp [hf] at h
  | panic s => simp [hf] at h
  | timeout => simp [hf] at h

end Anthem.Outline
