/-
  Soundness of proof outlines: what a general lemma (plain or inductive) contributes as an axiom
  follows from its obligations, and along an outline every lemma used as an axiom is true in every
  interpretation that satisfies the axioms of the direction and refutes none of the outline problems.
-/
import AnthemModel.Proofs.InductionSound
import AnthemModel.Proofs.ExternalSem
namespace Anthem.Outline
open Asp

/-! ## a general lemma -/

/-- if the obligations of a lemma are true (under an assignment), so is what it contributes -/
def GLSound (gl : GeneralLemma) : Prop :=
  ∀ (J : Interp) (ρ : Asg), (∀ c ∈ gl.conjectures, sat J c.formula ρ) → ∀ c ∈ gl.consequences, sat J c.formula ρ

theorem inSort_integer {d : Dom} (h : d.inSort .integer) : d = .num d.toInt := by
  cases d <;> simp [Dom.inSort] at h ⊢
  rfl

/-- the two obligations of an inductive lemma imply the lemma -/
theorem inductiveLemma_sound (f base step : Formula) (h : inductiveLemma f = .ok (base, step)) (J : Interp) (ρ : Asg)
    (hb : sat J base ρ) (hs : sat J step ρ) : sat J f ρ := by
  unfold inductiveLemma at h
  split at h
  · rename_i vars lhs rhs
    split at h
    · rename_i term guards
      split at h
      · cases h
      · split at h
        · cases h
        · rename_i hsame
          split at h
          · rename_i v
            split at h
            · rename_i n _
              simp only at h
              injection h with h
              injection h with h1 h2
              subst h1; subst h2
              have hsame' : sameSet (vars.foldl ins []) rhs.fv = true := by simpa using hsame
              simp only [sameSet, Bool.and_eq_true, List.all_eq_true, decide_eq_true_eq] at hsame'
              simp only [sat]
              refine bindAll_iff.mpr fun τ hτ hl => ?_
              simp only [AtomicF.sat, cmpChain, and_true, GTerm.eval, ITerm.eval, Rel.holds, Dom.le] at hl
              let τ' : Asg := fun w => if w ∈ vars then τ w else w.sort.default
              have hws : WS τ' := by
                intro w
                by_cases hw : w ∈ vars
                · simp only [τ', hw, if_true]; exact hτ.2 w hw
                · simp only [τ', hw, if_false]; exact Srt.default_inSort _
              have hmain := induction_sound J rhs v n ρ hb hs τ' hws (τ ⟨v, .integer⟩).toInt hl
              refine (sat_agree J rhs _ τ fun w hw => ?_).mp hmain
              have hwv : w ∈ vars := by
                have := hsame'.2 w (Formula.mem_fv.mpr hw)
                rcases (mem_foldl_ins vars [] w).mp this with h0 | h0
                · cases h0
                · exact h0
              by_cases e : w = ⟨v, .integer⟩
              · subst e
                rw [Asg.set_same]
                exact (inSort_integer (hτ.2 _ hwv)).symm
              · rw [Asg.set_other _ _ e]
                simp only [τ', hwv, if_true]
            · cases h
          · cases h
    · cases h
  · cases h

theorem generalLemma_sound (a : SAnn) (gl : GeneralLemma) (h : generalLemma a = .ok gl) : GLSound gl := by
  unfold generalLemma at h
  split at h
  · injection h with h; subst h
    intro J ρ hc c hcm
    simp only [List.mem_singleton] at hcm
    subst hcm
    exact hc (a.toProblem .conjecture) List.mem_cons_self
  · split at h
    · rename_i base step hil
      injection h with h; subst h
      intro J ρ hc c hcm
      simp only [List.mem_singleton] at hcm
      subst hcm
      exact inductiveLemma_sound a.formula base step hil J ρ (hc ⟨_, .conjecture, base⟩ List.mem_cons_self)
        (hc ⟨_, .conjecture, step⟩ (List.mem_cons_of_mem _ List.mem_cons_self))
    · cases h
    · cases h
    · cases h
  · cases h

theorem generalLemma_roles (a : SAnn) (gl : GeneralLemma) (h : generalLemma a = .ok gl) :
    (∀ c ∈ gl.conjectures, c.role = .conjecture) ∧ (∀ c ∈ gl.consequences, c.role = .axiom) := by
  unfold generalLemma at h
  split at h
  · injection h with h; subst h
    exact ⟨fun c hc => by simp only [List.mem_singleton] at hc; subst hc; rfl,
      fun c hc => by simp only [List.mem_singleton] at hc; subst hc; rfl⟩
  · split at h
    · injection h with h; subst h
      refine ⟨fun c hc => ?_, fun c hc => by simp only [List.mem_singleton] at hc; subst hc; rfl⟩
      simp only [List.mem_cons, List.mem_nil_iff, or_false] at hc
      rcases hc with rfl | rfl <;> rfl
    · cases h
    · cases h
    · cases h
  · cases h

/-! ## sequencing -/

/-- **Sequencing.** The problems emitted for lemma `k` of an outline use as axioms exactly the
    axioms of the direction followed by the consequences of the lemmas before `k`. -/
theorem outline_sequencing (dirName : String) (axioms0 : List AnnF) (lemmas : List GeneralLemma) :
    outlineProblems dirName axioms0 lemmas =
      (indexFrom 0 lemmas).flatMap fun (k, l) =>
        (indexFrom 0 l.conjectures).map fun (j, c) =>
          mkProblem (dirName ++ "_outline_" ++ toString k ++ "_" ++ toString j)
            [axioms0 ++ (lemmas.take k).flatMap (·.consequences), [c]] := by
  unfold outlineProblems
  suffices h : ∀ (ls pre : List GeneralLemma) (ps : List Problem),
      (ls.foldl (fun (acc : List Problem × List AnnF × Nat) (l : GeneralLemma) =>
        (acc.1 ++ (indexFrom 0 l.conjectures).map fun (j, c) =>
            mkProblem (dirName ++ "_outline_" ++ toString acc.2.2 ++ "_" ++ toString j) [acc.2.1, [c]],
          acc.2.1 ++ l.consequences, acc.2.2 + 1))
        (ps, axioms0 ++ pre.flatMap (·.consequences), pre.length)).1 =
      ps ++ (indexFrom pre.length ls).flatMap fun (k, l) =>
        (indexFrom 0 l.conjectures).map fun (j, c) =>
          mkProblem (dirName ++ "_outline_" ++ toString k ++ "_" ++ toString j)
            [axioms0 ++ ((pre ++ ls).take k).flatMap (·.consequences), [c]] by
    have := h lemmas [] []
    simpa using this
  intro ls
  induction ls with
  | nil => intro pre ps; simp [indexFrom]
  | cons l ls ih =>
    intro pre ps
    simp only [List.foldl_cons, indexFrom, List.flatMap_cons]
    have := ih (pre ++ [l]) (ps ++ (indexFrom 0 l.conjectures).map fun (j, c) =>
      mkProblem (dirName ++ "_outline_" ++ toString pre.length ++ "_" ++ toString j)
        [axioms0 ++ pre.flatMap (·.consequences), [c]])
    simp only [List.flatMap_append, List.flatMap_cons, List.flatMap_nil, List.append_nil,
      List.length_append, List.length_cons, List.length_nil, Nat.zero_add, List.append_assoc,
      List.singleton_append] at this
    rw [← List.append_assoc axioms0] at this
    rw [this]
    simp only [List.take_left' (l₂ := l :: ls) rfl]


/-! ## along an outline -/

theorem mk_refutes_single (J : Interp) (ρ : Asg) (name : String) (parts : List (List AnnF))
    (hnc : (mkProblem0 name parts).renameConflictingSymbols = mkProblem0 name parts) :
    Refutes J ρ (mkProblem name parts) ↔
      (∀ part ∈ parts, ∀ a ∈ part, a.role = .axiom → sat J a.formula ρ) ∧
      ¬ ∀ part ∈ parts, ∀ a ∈ part, a.role = .conjecture → sat J a.formula ρ := by
  have hall : ∀ role, (∀ a ∈ (mkProblem name parts).formulas, a.role = role → sat J a.formula ρ) ↔
      ∀ part ∈ parts, ∀ a ∈ part, a.role = role → sat J a.formula ρ := by
    intro role
    rw [mkProblem_eq, hnc]
    refine (uniqueNames_role_forall (mkProblem0 name parts) role (fun F => sat J F ρ)).trans ?_
    unfold mkProblem0
    rw [mkProblem0_role_forall name role (fun F => sat J F ρ) parts ⟨name, []⟩]
    simp
  unfold Refutes
  rw [hall .axiom, ← hall .conjecture]
  constructor
  · rintro ⟨h1, c, hc, hr, hn⟩
    exact ⟨h1, fun hh => hn (hh c hc hr)⟩
  · rintro ⟨h1, hn⟩
    refine ⟨h1, ?_⟩
    refine Classical.byContradiction fun hne => hn fun a ha hr => ?_
    exact Classical.byContradiction fun hs => hne ⟨a, ha, hr, hs⟩

theorem indexFrom_mem_split {α} (pre : List α) (x : α) (post : List α) (s : Nat) :
    (pre.length + s, x) ∈ indexFrom s (pre ++ x :: post) := by
  induction pre generalizing s with
  | nil => simp [indexFrom]
  | cons a pre ih =>
    simp only [List.cons_append, indexFrom, List.length_cons, List.mem_cons]
    right
    have := ih (s + 1)
    rwa [show pre.length + (s + 1) = pre.length + 1 + s by omega] at this

/-- the unrenamed outline problem of lemma `l` (after `pre`) and its `j`-th obligation -/
def outlineParts (axioms0 : List AnnF) (pre : List GeneralLemma) (c : AnnF) : List (List AnnF) :=
  [axioms0 ++ pre.flatMap (·.consequences), [c]]

/-- `rename_conflicting_symbols` is the identity on every outline problem -/
def NoConflictOutline (dirName : String) (axioms0 : List AnnF) (lemmas : List GeneralLemma) : Prop :=
  ∀ (pre : List GeneralLemma) (l : GeneralLemma) (post : List GeneralLemma), lemmas = pre ++ l :: post →
    ∀ j c, (j, c) ∈ indexFrom 0 l.conjectures →
      (mkProblem0 (dirName ++ "_outline_" ++ toString pre.length ++ "_" ++ toString j) (outlineParts axioms0 pre c)).renameConflictingSymbols =
        mkProblem0 (dirName ++ "_outline_" ++ toString pre.length ++ "_" ++ toString j) (outlineParts axioms0 pre c)

/-- **Soundness of an outline.** If an interpretation satisfies the axioms of the direction and
    refutes none of the outline problems, then it satisfies every lemma that the outline makes
    available as an axiom. -/
theorem outline_sound (dirName : String) (axioms0 : List AnnF) (lemmas : List GeneralLemma)
    (hsound : ∀ l ∈ lemmas, GLSound l) (hroles : ∀ l ∈ lemmas, ∀ c ∈ l.conjectures, c.role = .conjecture)
    (hnc : NoConflictOutline dirName axioms0 lemmas) (J : Interp) (ρ : Asg)
    (hnot : ∀ P ∈ outlineProblems dirName axioms0 lemmas, ¬ Refutes J ρ P)
    (hax : ∀ a ∈ axioms0, sat J a.formula ρ) :
    ∀ l ∈ lemmas, ∀ c ∈ l.consequences, sat J c.formula ρ := by
  -- each obligation follows from the axioms and the earlier lemmas
  have step : ∀ (pre : List GeneralLemma) (l : GeneralLemma) (post : List GeneralLemma), lemmas = pre ++ l :: post →
      (∀ c ∈ pre.flatMap (·.consequences), sat J c.formula ρ) → ∀ c ∈ l.conjectures, sat J c.formula ρ := by
    intro pre l post hsplit hpre c hc
    obtain ⟨j, hj⟩ := (mem_indexFrom (k := 0)).mp hc
    have hmem : mkProblem (dirName ++ "_outline_" ++ toString pre.length ++ "_" ++ toString j)
        [axioms0 ++ (lemmas.take pre.length).flatMap (·.consequences), [c]] ∈ outlineProblems dirName axioms0 lemmas := by
      rw [outline_sequencing]
      simp only [List.mem_flatMap, List.mem_map, Prod.exists]
      have hk := indexFrom_mem_split pre l post 0
      simp only [Nat.add_zero] at hk
      rw [← hsplit] at hk
      exact ⟨pre.length, l, hk, j, c, hj, rfl⟩
    have htake : lemmas.take pre.length = pre := by rw [hsplit]; exact List.take_left' rfl
    rw [htake] at hmem
    have hnr := hnot _ hmem
    have hncj := hnc pre l post hsplit j c hj
    unfold outlineParts at hncj
    rw [mk_refutes_single J ρ _ _ hncj] at hnr
    simp only [List.forall_mem_cons, List.not_mem_nil, false_imp_iff, implies_true, and_true, List.forall_mem_append] at hnr
    have hX : ((∀ a ∈ axioms0, a.role = .axiom → sat J a.formula ρ) ∧
        ∀ a ∈ pre.flatMap (·.consequences), a.role = .axiom → sat J a.formula ρ) ∧ (c.role = .axiom → sat J c.formula ρ) := by
      refine ⟨⟨fun a ha _ => hax a ha, fun a ha _ => hpre a ha⟩, fun hr => ?_⟩
      rw [hroles l (by rw [hsplit]; simp) c hc] at hr; cases hr
    have hY := Classical.not_not.mp (fun hn => hnr ⟨hX, hn⟩)
    exact hY.2 (hroles l (by rw [hsplit]; simp) c hc)
  have main : ∀ (post pre : List GeneralLemma), lemmas = pre ++ post →
      (∀ c ∈ pre.flatMap (·.consequences), sat J c.formula ρ) → ∀ l ∈ post, ∀ c ∈ l.consequences, sat J c.formula ρ := by
    intro post
    induction post with
    | nil => intro _ _ _ l hl; cases hl
    | cons l post ih =>
      intro pre hsplit hpre l' hl' c hc
      have hl : ∀ c ∈ l.consequences, sat J c.formula ρ :=
        hsound l (by rw [hsplit]; simp) J ρ (step pre l post hsplit hpre)
      rcases List.mem_cons.mp hl' with rfl | hl'
      · exact hl c hc
      · refine ih (pre ++ [l]) (by rw [hsplit]; simp) ?_ l' hl' c hc
        intro c' hc'
        simp only [List.flatMap_append, List.flatMap_cons, List.flatMap_nil, List.append_nil, List.mem_append] at hc'
        rcases hc' with hc' | hc'
        · exact hpre c' hc'
        · exact hl c' hc'
  exact main lemmas [] rfl (fun c hc => by cases hc)

/-! ## the lemmas of an accepted outline -/

/-- sound, with obligations that are conjectures and contributions that are axioms -/
def GLGood (gl : GeneralLemma) : Prop :=
  GLSound gl ∧ (∀ c ∈ gl.conjectures, c.role = .conjecture) ∧ (∀ c ∈ gl.consequences, c.role = .axiom)

def POGood (po : ProofOutline) : Prop := (∀ l ∈ po.forwardLemmas, GLGood l) ∧ (∀ l ∈ po.backwardLemmas, GLGood l)

theorem forall_mem_append_singleton {α} {P : α → Prop} {l : List α} {x : α} (h : ∀ a ∈ l, P a) (hx : P x) :
    ∀ a ∈ l ++ [x], P a := by
  intro a ha
  rcases List.mem_append.mp ha with ha | ha
  · exact h a ha
  · simp only [List.mem_singleton] at ha; subst ha; exact hx

theorem outlineStep_good (m : PlaceholderMap) (po : ProofOutline) (taken lem : List Pred) (a : SAnn)
    (po' : ProofOutline) (taken' lem' : List Pred) (hgood : POGood po)
    (h : outlineStep m (.ok (po, taken, lem)) a = .ok (po', taken', lem')) : POGood po' := by
  unfold outlineStep at h
  simp only at h
  split at h
  · split at h
    · rename_i gl hgl
      have hg : GLGood gl := ⟨generalLemma_sound _ gl hgl, generalLemma_roles _ gl hgl⟩
      split at h <;>
        (injection h with h; injection h with h1 _; subst h1)
      · exact ⟨forall_mem_append_singleton hgood.1 hg, forall_mem_append_singleton hgood.2 hg⟩
      · exact ⟨forall_mem_append_singleton hgood.1 hg, hgood.2⟩
      · exact ⟨hgood.1, forall_mem_append_singleton hgood.2 hg⟩
    · cases h
    · cases h
    · cases h
  · split at h
    · rename_i gl hgl
      have hg : GLGood gl := ⟨generalLemma_sound _ gl hgl, generalLemma_roles _ gl hgl⟩
      split at h <;>
        (injection h with h; injection h with h1 _; subst h1)
      · exact ⟨forall_mem_append_singleton hgood.1 hg, forall_mem_append_singleton hgood.2 hg⟩
      · exact ⟨forall_mem_append_singleton hgood.1 hg, hgood.2⟩
      · exact ⟨hgood.1, forall_mem_append_singleton hgood.2 hg⟩
    · cases h
    · cases h
    · cases h
  · split at h
    · split at h
      · cases h
      · split at h <;>
          (injection h with h; injection h with h1 _; subst h1; exact hgood)
    · cases h
    · cases h
    · cases h
  · cases h
  · cases h

theorem outlineFold_stuck (m : PlaceholderMap) (spec : Specification) (st : Outcome (ProofOutline × List Pred × List Pred))
    (hst : ∀ x, st ≠ .ok x) : spec.foldl (outlineStep m) st = st := by
  induction spec with
  | nil => rfl
  | cons b spec ihs =>
    simp only [List.foldl_cons]
    have : outlineStep m st b = st := by
      cases st with
      | ok x => exact absurd rfl (hst x)
      | err e => rfl
      | panic s => rfl
      | timeout => rfl
    rw [this]; exact ihs

theorem outlineFold_good (m : PlaceholderMap) : ∀ (spec : Specification) (po : ProofOutline) (taken lem : List Pred)
    (po' : ProofOutline) (taken' lem' : List Pred), POGood po →
    spec.foldl (outlineStep m) (.ok (po, taken, lem)) = .ok (po', taken', lem') → POGood po' := by
  intro spec
  induction spec with
  | nil =>
    intro po taken lem po' taken' lem' hg h
    simp only [List.foldl_nil] at h; injection h with h; injection h with h1 _; subst h1; exact hg
  | cons a spec ih =>
    intro po taken lem po' taken' lem' hg h
    simp only [List.foldl_cons] at h
    cases hs : outlineStep m (.ok (po, taken, lem)) a with
    | ok x =>
      obtain ⟨po1, taken1, lem1⟩ := x
      rw [hs] at h
      exact ih po1 taken1 lem1 po' taken' lem' (outlineStep_good m po taken lem a po1 taken1 lem1 hg hs) h
    | err e => rw [hs, outlineFold_stuck m spec _ (fun x hx => by cases hx)] at h; cases h
    | panic s => rw [hs, outlineFold_stuck m spec _ (fun x hx => by cases hx)] at h; cases h
    | timeout => rw [hs, outlineFold_stuck m spec _ (fun x hx => by cases hx)] at h; cases h

/-- every lemma of an accepted proof outline is sound, its obligations are conjectures and what it
    contributes are axioms -/
theorem proofOutlineFrom_good (spec : Specification) (taken : List Pred) (m : PlaceholderMap) (po : ProofOutline)
    (h : proofOutlineFrom spec taken m = .ok po) : POGood po := by
  unfold proofOutlineFrom at h
  cases hf : spec.foldl (outlineStep m) (.ok ({}, taken, [])) with
  | ok x =>
    obtain ⟨po1, taken1, lem1⟩ := x
    simp only [hf] at h
    injection h with h; subst h
    have h0 : POGood ({} : ProofOutline) := by
      constructor
      · intro l hl; cases hl
      · intro l hl; cases hl
    exact outlineFold_good m spec {} taken [] po1 taken1 lem1 h0 hf
  | err e => simp [hf] at h
  | panic s => simp [hf] at h
  | timeout => simp [hf] at h

end Anthem.Outline
