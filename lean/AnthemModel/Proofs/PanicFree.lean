/-
  C16 for the external-equivalence pipeline: the only panic of `externalProblems` (model of
  `ExternalEquivalenceTask::decompose`) is the overflow of the global-variable index in tau*.
  In particular `completion` never fails on a tau* theory ("tau_star did not create a completable
  theory" is unreachable) and the `unreachable!` role branches of the assembly are unreachable
  after the applicability checks.
-/
import AnthemModel.Proofs.ExternalOutlineTask
import AnthemModel.Proofs.CompletionSem
namespace Anthem
open Asp

/-- the completion of a tau* theory always exists (whatever the input predicates) -/
theorem completion_tauStar_some (P : Program) (ins : List Pred) (hp : globalsPanic P = false) :
    ∃ Γ, completion (tauStar P) ins = some Γ := by
  obtain ⟨hn, hfresh, hglen⟩ := chooseFreshGlobals_spec P hp
  have hcomp := components_tauStar P hp
  obtain ⟨hspec, hcons⟩ := collect_spec (P.map fun r => ruleComponent r (chooseFreshGlobals P)) ([], [])
    (fun _ _ => False) ⟨List.nodup_nil, by simp⟩
  simp only [false_or, List.not_mem_nil] at hspec hcons
  have hne := collect_nonempty (P.map fun r => ruleComponent r (chooseFreshGlobals P)) ([], []) (by simp)
  have hentry : ∀ e ∈ (collect (P.map fun r => ruleComponent r (chooseFreshGlobals P)) ([], [])).1,
      ∃ r ∈ P, ∃ a ch, HeadOf r a ch ∧ e.1 = tauHeadAtom a (chooseFreshGlobals P) ∧
        a.args.length ≤ (chooseFreshGlobals P).length := by
    intro e he
    obtain ⟨f, hf⟩ := List.exists_mem_of_ne_nil _ (hne e he)
    obtain ⟨r, hr, a, ch, hh, _, hA⟩ := (mem_comps_partialDef P _ f e.1).mp ((hspec.2 e.1 f).mp ⟨e.2, he, hf⟩)
    exact ⟨r, hr, a, ch, hh, hA, by rw [hglen, ← headOf_arity hh]; exact arity_le_maxHeadArity P r hr⟩
  have hkeys : ∀ e ∈ (collect (P.map fun r => ruleComponent r (chooseFreshGlobals P)) ([], [])).1,
      ∀ e' ∈ (collect (P.map fun r => ruleComponent r (chooseFreshGlobals P)) ([], [])).1,
      e.1.predicate = e'.1.predicate → e.1 = e'.1 := by
    intro e he e' he' hpe
    obtain ⟨_, _, a, _, _, hA, hl⟩ := hentry e he
    obtain ⟨_, _, a', _, _, hA', hl'⟩ := hentry e' he'
    rw [hA, hA'] at hpe ⊢
    rw [tauHeadAtom_predicate a _ hl, tauHeadAtom_predicate a' _ hl'] at hpe
    simp only [Asp.Atom.predicate, Pred.mk.injEq] at hpe
    exact (tauHeadAtom_eq hl hl').mpr hpe
  obtain ⟨Γ, hΓ, _⟩ := completion_formulas (tauStar P) ins _ _ hcomp hkeys
  exact ⟨Γ, hΓ⟩

/-- `theory_translate` panics only on the overflow of the global-variable index -/
theorem theoryTranslate_panic (t : ExternalTask) (m : PlaceholderMap) (fuel : Nat) (p : Program) (s : String)
    (h : theoryTranslate t m fuel p = .panic s) : globalsPanic p = true := by
  unfold theoryTranslate at h
  split at h
  · rename_i hp; exact hp
  · rename_i hp
    have hp' : globalsPanic p = false := by simpa using hp
    exfalso
    rw [map_replacePlaceholders_eq] at h
    simp only at h
    rw [completion_substSym (phTheta_closed m)] at h
    obtain ⟨Γ, hΓ⟩ := completion_tauStar_some p t.userGuide.inputs hp'
    simp only [hΓ, Option.map_some] at h
    split at h
    · split at h <;> cases h
    · cases h

theorem ugAss_fold_no_panic (ug : UserGuide) (m : PlaceholderMap) : ∀ (l : List SAnn) (st : Outcome (List SAnn)),
    (∀ s, st ≠ .panic s) → ∀ s, l.foldl (ugAssStep ug m) st ≠ .panic s := by
  intro l
  induction l with
  | nil => intro st h s; exact h s
  | cons f l ih =>
    intro st h s
    simp only [List.foldl_cons]
    refine ih _ (fun s' hs' => ?_) s
    unfold ugAssStep at hs'
    cases st with
    | ok x =>
      simp only at hs'
      split at hs'
      · split at hs' <;> cases hs'
      · cases hs'
    | err e => cases hs'
    | panic s0 => exact h s0 rfl
    | timeout => cases hs'

theorem inductiveLemma_no_panic (f : Formula) (s : String) : inductiveLemma f ≠ .panic s := by
  intro h
  unfold inductiveLemma at h
  repeat (first | cases h | split at h | (simp only at h))

theorem checkDefinition_no_panic (f : Formula) (taken : List Pred) (s : String) : checkDefinition f taken ≠ .panic s := by
  intro h
  unfold checkDefinition at h
  repeat (first | cases h | split at h | (simp only at h))

theorem generalLemma_no_panic (a : SAnn) (s : String) : generalLemma a ≠ .panic s := by
  intro h
  unfold generalLemma at h
  split at h
  · cases h
  · split at h
    · cases h
    · cases h
    · rename_i s' hil; exact inductiveLemma_no_panic _ _ hil
    · cases h
  · cases h

theorem outlineStep_no_panic (m : PlaceholderMap) (st : Outcome (ProofOutline × List Pred × List Pred)) (a : SAnn)
    (h : ∀ s, st ≠ .panic s) : ∀ s, outlineStep m st a ≠ .panic s := by
  intro s hs
  unfold outlineStep at hs
  cases st with
  | ok x =>
    obtain ⟨po, taken, lem⟩ := x
    simp only at hs
    split at hs
    · split at hs
      · split at hs <;> cases hs
      · cases hs
      · rename_i s' hgl; exact generalLemma_no_panic _ _ hgl
      · cases hs
    · split at hs
      · split at hs <;> cases hs
      · cases hs
      · rename_i s' hgl; exact generalLemma_no_panic _ _ hgl
      · cases hs
    · split at hs
      · split at hs
        · cases hs
        · split at hs <;> cases hs
      · cases hs
      · rename_i s' hcd; exact checkDefinition_no_panic _ _ _ hcd
      · cases hs
    · cases hs
    · cases hs
  | err e => cases hs
  | panic s0 => exact h s0 rfl
  | timeout => cases hs

theorem proofOutlineFrom_no_panic (spec : Specification) (taken : List Pred) (m : PlaceholderMap) (s : String) :
    proofOutlineFrom spec taken m ≠ .panic s := by
  intro h
  unfold proofOutlineFrom at h
  have hfold : ∀ (l : Specification) (st : Outcome (ProofOutline × List Pred × List Pred)), (∀ s, st ≠ .panic s) →
      ∀ s, l.foldl (outlineStep m) st ≠ .panic s := by
    intro l
    induction l with
    | nil => intro st h s; exact h s
    | cons a l ih => intro st h s; simp only [List.foldl_cons]; exact ih _ (outlineStep_no_panic m st a h) s
  cases hf : spec.foldl (outlineStep m) (.ok ({}, taken, [])) with
  | ok x => simp [hf] at h
  | err e => simp [hf] at h
  | panic s' => exact hfold spec _ (fun s hs => by cases hs) s' hf
  | timeout => simp [hf] at h

/-- **C16, external equivalence**: the model of `ExternalEquivalenceTask::decompose` panics only when
    tau* overflows the global-variable index on one of the two programs (the known finding). -/
theorem externalProblems_panic (t : ExternalTask) (fuel : Nat) (s : String) (h : externalProblems t fuel = .panic s) :
    globalsPanic t.program = true ∨ ∃ PL, t.specification = .inl PL ∧ globalsPanic PL = true := by
  unfold externalProblems at h
  cases hpre : precheck t with
  | some e => simp [hpre] at h
  | none =>
    simp only [hpre] at h
    -- the common tail for a given left side
    have tail : ∀ (left : List SAnn), RolesAS left →
        (do
          let rightTh ← theoryTranslate t t.phMap fuel t.program
          let right := (controlTranslate t.userGuide.publicPreds rightTh).map fun a =>
            { a with formula := a.formula.renamePreds t.clashMap }
          let ugAss ← t.userGuide.formulas.foldl (ugAssStep t.userGuide t.phMap) (.ok [])
          let taken := right.foldl (fun acc a => ext acc a.formula.preds)
            (left.foldl (fun acc a => ext acc a.formula.preds) t.userGuide.inputs)
          let po ← proofOutlineFrom t.proofOutline taken t.phMap
          let asm ← assemble left right ugAss t.breakEq
          pure (assembledProblems asm po t.decomposition t.direction)) = Outcome.panic s →
        globalsPanic t.program = true := by
      intro left hroles h
      cases hR : theoryTranslate t t.phMap fuel t.program with
      | err e => simp [hR] at h
      | panic s' => exact theoryTranslate_panic t _ fuel _ s' hR
      | timeout => simp [hR] at h
      | ok ΓR =>
        exfalso
        simp only [hR, Outcome.ok_bind, Outcome.pure_eq] at h
        cases hU : t.userGuide.formulas.foldl (ugAssStep t.userGuide t.phMap) (.ok []) with
        | err e => simp [hU] at h
        | panic s' => exact ugAss_fold_no_panic _ _ _ _ (fun s hs => by cases hs) s' hU
        | timeout => simp [hU] at h
        | ok ugAss =>
          simp only [hU, Outcome.ok_bind] at h
          cases hPO : proofOutlineFrom t.proofOutline (Outline.takenOf t left ΓR) t.phMap with
          | err e => unfold Outline.takenOf rightSide at hPO; simp [hPO] at h
          | panic s' => exact proofOutlineFrom_no_panic _ _ _ s' hPO
          | timeout => unfold Outline.takenOf rightSide at hPO; simp [hPO] at h
          | ok po =>
            have hPO' := hPO
            unfold Outline.takenOf rightSide at hPO'
            simp only [hPO', Outcome.ok_bind] at h
            have hasm := assemble_gen t left ugAss ΓR hroles
            unfold rightSide at hasm
            simp only [hasm, Outcome.ok_bind] at h
            cases h
    cases hspec : t.specification with
    | inl PL =>
      simp only [hspec] at h
      cases hL : theoryTranslate t (mkPlaceholderMap t.userGuide.placeholders) fuel PL with
      | err e => simp [hL] at h
      | panic s' => exact Or.inr ⟨PL, rfl, theoryTranslate_panic t _ fuel PL s' hL⟩
      | timeout => simp [hL] at h
      | ok ΓL =>
        simp only [hL, Outcome.ok_bind, Outcome.pure_eq] at h
        have hroles : RolesAS (controlTranslate t.userGuide.publicPreds ΓL) :=
          rolesAS_of_univ fun a ha => ((controlTranslate_spec _ ΓL).1 a ha).2
        exact Or.inl (tail _ hroles h)
    | inr S =>
      simp only [hspec, Outcome.pure_eq, Outcome.ok_bind] at h
      have hS : RolesAS S := (precheck_spec t S hspec hpre).2
      exact Or.inl (tail _ (rolesAS_map_replace t.phMap hS) h)

end Anthem
