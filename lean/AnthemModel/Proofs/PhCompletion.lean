/-
  Placeholders, part 3: `completion` commutes with a closed substitution for symbolic constants:
  `completion (Γ.map σ) ins = (completion Γ ins).map (·.map σ)`.
-/
import AnthemModel.Proofs.PhSubst
import AnthemModel.Model.Completion
namespace Anthem

variable {θ : String → GTerm}

/-! ## atoms whose arguments are variables are left alone -/

theorem GTerm.substSym_of_asVar {t : GTerm} (h : t.asVar? ≠ none) : t.substSym θ = t := by
  cases t with
  | symb st =>
    cases st with
    | sym s => exact absurd rfl h
    | fc c => rfl
    | var v => rfl
  | inf | sup | fc _ | var _ | int _ => rfl

def VarArgs (a : Atom) : Prop := ∀ t ∈ a.args, t.asVar? ≠ none

theorem args_substSym_of_varArgs {a : Atom} (h : VarArgs a) : a.args.map (GTerm.substSym θ) = a.args := by
  conv => rhs; rw [← List.map_id a.args]
  exact List.map_congr_left fun t ht => GTerm.substSym_of_asVar (h t ht)

theorem atom_substSym_of_varArgs {a : Atom} (h : VarArgs a) :
    Formula.substSym θ (.atomic (.atom a)) = .atomic (.atom a) := by
  simp only [Formula.substSym, AtomicF.substSym, args_substSym_of_varArgs h]

theorem varArgs_of_check {a : Atom} (h : ((a.args.map GTerm.asVar?).contains none || !allUnique (a.args.map GTerm.asVar?)) = false) :
    VarArgs a := by
  intro t ht hnone
  simp only [Bool.or_eq_false_iff] at h
  have : (a.args.map GTerm.asVar?).contains none = true := by
    rw [List.contains_iff_mem]
    exact List.mem_map.mpr ⟨t, ht, hnone⟩
  rw [this] at h
  exact absurd h.1 (by simp)

/-! ## components -/

def Component.mapF (σ : Formula → Formula) : Component → Component
  | .constraint f => .constraint (σ f)
  | .partialDef f a => .partialDef (σ f) a

/-- the result of `splitImplication` on an implication with the given body and head -/
def goSplit (formula f g : Formula) : Option Component :=
  match g with
  | .atomic .fls => some (.constraint formula)
  | .atomic (.atom a) =>
    let vs := a.args.map GTerm.asVar?
    if vs.contains none || !allUnique vs then none else some (.partialDef f a)
  | _ => none

theorem splitImplication_eq (formula : Formula) : splitImplication formula =
    match formula with
    | .bin .imp f g => goSplit formula f g
    | .bin .rimp g f => goSplit formula f g
    | _ => none := by
  unfold splitImplication goSplit
  cases formula with
  | bin c l r => cases c <;> rfl
  | atomic a => rfl
  | not f => rfl
  | quant q vs f => rfl

theorem goSplit_substSym (hθ : ClosedSubst θ) (formula f g : Formula) :
    goSplit (formula.substSym θ) (f.substSym θ) (g.substSym θ) =
      (goSplit formula f g).map (Component.mapF (Formula.substSym θ)) := by
  cases g with
  | atomic a =>
    cases a with
    | fls => rfl
    | tru => rfl
    | cmp t gs => rfl
    | atom a =>
      have hvs : (a.args.map (GTerm.substSym θ)).map GTerm.asVar? = a.args.map GTerm.asVar? := by
        rw [List.map_map]
        exact List.map_congr_left fun t _ => GTerm.asVar_substSym hθ t
      simp only [goSplit, Formula.substSym, AtomicF.substSym, hvs]
      split
      · rfl
      · rename_i hc
        have hva : VarArgs a := varArgs_of_check (by simpa using hc)
        simp only [Option.map_some, Component.mapF, args_substSym_of_varArgs hva]
  | not f' => rfl
  | bin c l r => rfl
  | quant q vs f' => rfl

theorem splitImplication_substSym (hθ : ClosedSubst θ) (F : Formula) :
    splitImplication (F.substSym θ) = (splitImplication F).map (Component.mapF (Formula.substSym θ)) := by
  rw [splitImplication_eq, splitImplication_eq]
  cases F with
  | bin c l r =>
    cases c with
    | imp => exact goSplit_substSym hθ (.bin .imp l r) l r
    | rimp => exact goSplit_substSym hθ (.bin .rimp l r) r l
    | and => rfl
    | or => rfl
    | iff => rfl
  | atomic a => rfl
  | not f => rfl
  | quant q vs f => rfl

theorem split_substSym (hθ : ClosedSubst θ) (F : Formula) :
    split (F.substSym θ) = (split F).map (Component.mapF (Formula.substSym θ)) := by
  unfold split
  rw [Formula.fv_substSym hθ]
  split
  · rfl
  · cases F with
    | quant q vs f =>
      cases q with
      | all =>
        -- the body is split; the recorded constraint is the body
        simp only [Formula.substSym]
        exact splitImplication_substSym hθ f
      | ex => exact splitImplication_substSym hθ (.quant .ex vs f)
    | atomic a => exact splitImplication_substSym hθ _
    | not f => exact splitImplication_substSym hθ _
    | bin c l r => exact splitImplication_substSym hθ _

def Definitions.mapF (σ : Formula → Formula) (d : Definitions) : Definitions := d.map fun e => (e.1, e.2.map σ)

theorem Definitions.any_mapF (σ : Formula → Formula) (d : Definitions) (p : Atom → Bool) :
    (d.mapF σ).any (fun e => p e.1) = d.any (fun e => p e.1) := by
  simp only [Definitions.mapF, List.any_map]
  rfl

theorem Definitions.push_mapF (σ : Formula → Formula) (d : Definitions) (a : Atom) (f : Formula) :
    (d.push a f).mapF σ = (d.mapF σ).push a (σ f) := by
  unfold Definitions.push
  have h := Definitions.any_mapF σ d (fun x => decide (x = a))
  rw [h]
  split
  · simp only [Definitions.mapF, List.map_map]
    apply List.map_congr_left
    intro e _
    simp only [Function.comp]
    split <;> simp
  · simp [Definitions.mapF]

def compStep (acc : Definitions × List Formula) (formula : Formula) : Option (Definitions × List Formula) :=
  match split formula with
  | none => none
  | some (.constraint c) => some (acc.1, acc.2 ++ [c])
  | some (.partialDef f a) => some (acc.1.push a f, acc.2)

theorem components_eq (t : Theory) : components t = t.foldlM compStep ([], []) := rfl

def accMap (σ : Formula → Formula) (acc : Definitions × List Formula) : Definitions × List Formula :=
  (acc.1.mapF σ, acc.2.map σ)

theorem compStep_substSym (hθ : ClosedSubst θ) (acc : Definitions × List Formula) (F : Formula) :
    compStep (accMap (Formula.substSym θ) acc) (F.substSym θ) =
      (compStep acc F).map (accMap (Formula.substSym θ)) := by
  unfold compStep
  rw [split_substSym hθ]
  cases split F with
  | none => rfl
  | some c =>
    cases c with
    | constraint c => simp [Component.mapF, accMap]
    | partialDef f a => simp [Component.mapF, accMap, Definitions.push_mapF]

theorem foldlM_compStep_substSym (hθ : ClosedSubst θ) : ∀ (t : Theory) (acc : Definitions × List Formula),
    (t.map (Formula.substSym θ)).foldlM compStep (accMap (Formula.substSym θ) acc) =
      (t.foldlM compStep acc).map (accMap (Formula.substSym θ)) := by
  intro t
  induction t with
  | nil => intro acc; rfl
  | cons F t ih =>
    intro acc
    simp only [List.map_cons, List.foldlM_cons, compStep_substSym hθ]
    cases compStep acc F with
    | none => rfl
    | some acc' => simp [ih]

theorem components_substSym (hθ : ClosedSubst θ) (t : Theory) :
    components (t.map (Formula.substSym θ)) = (components t).map (accMap (Formula.substSym θ)) := by
  rw [components_eq, components_eq]
  exact foldlM_compStep_substSym hθ t ([], [])

/-! ## keys of the definitions have variable arguments -/

def KeysVar (d : Definitions) : Prop := ∀ e ∈ d, VarArgs e.1

theorem KeysVar.push {d : Definitions} (h : KeysVar d) {a : Atom} (ha : VarArgs a) (f : Formula) : KeysVar (d.push a f) := by
  unfold Definitions.push
  split
  · intro e he
    obtain ⟨e0, he0, rfl⟩ := List.mem_map.mp he
    split
    · exact h e0 he0
    · exact h e0 he0
  · intro e he
    rcases List.mem_append.mp he with he | he
    · exact h e he
    · simp only [List.mem_singleton] at he; subst he; exact ha

theorem split_partialDef_varArgs {F f : Formula} {a : Atom} (h : split F = some (.partialDef f a)) : VarArgs a := by
  have key : ∀ G, splitImplication G = some (.partialDef f a) → VarArgs a := by
    intro G hG
    rw [splitImplication_eq] at hG
    have go : ∀ formula f' g, goSplit formula f' g = some (.partialDef f a) → VarArgs a := by
      intro formula f' g hg
      unfold goSplit at hg
      split at hg
      · cases hg
      · rename_i a'
        simp only at hg
        split at hg
        · cases hg
        · rename_i hc
          injection hg with hg; injection hg with _ h2; subst h2
          exact varArgs_of_check (by simpa using hc)
      · cases hg
    cases G with
    | bin c l r =>
      cases c with
      | imp => exact go _ _ _ hG
      | rimp => exact go _ _ _ hG
      | and => cases hG
      | or => cases hG
      | iff => cases hG
    | atomic a' => cases hG
    | not f' => cases hG
    | quant q vs f' => cases hG
  unfold split at h
  split at h
  · cases h
  · split at h
    · exact key _ h
    · exact key _ h

theorem foldlM_compStep_keysVar : ∀ (t : Theory) (acc acc' : Definitions × List Formula), KeysVar acc.1 →
    t.foldlM compStep acc = some acc' → KeysVar acc'.1 := by
  intro t
  induction t with
  | nil => intro acc acc' h e; simp only [List.foldlM_nil] at e; injection e with e; subst e; exact h
  | cons F t ih =>
    intro acc acc' h e
    simp only [List.foldlM_cons] at e
    cases hs : compStep acc F with
    | none => simp [hs] at e
    | some acc1 =>
      simp only [hs, Option.bind_some] at e
      refine ih acc1 acc' ?_ e
      unfold compStep at hs
      cases hsp : split F with
      | none => simp [hsp] at hs
      | some c =>
        cases c with
        | constraint c => simp only [hsp] at hs; injection hs with hs; subst hs; exact h
        | partialDef f a =>
          simp only [hsp] at hs; injection hs with hs; subst hs
          exact h.push (split_partialDef_varArgs hsp) f

theorem atomFromPred_varArgs (p : Pred) : VarArgs (atomFromPred p) := by
  intro t ht
  simp only [atomFromPred, List.mem_map] at ht
  obtain ⟨x, _, rfl⟩ := ht
  simp [GTerm.asVar?]

theorem KeysVar.addEmpty {d : Definitions} (h : KeysVar d) (p : Pred) : KeysVar (d.addEmpty p) := by
  unfold Definitions.addEmpty
  simp only
  split
  · intro e he
    obtain ⟨e0, he0, rfl⟩ := List.mem_map.mp he
    split
    · exact atomFromPred_varArgs p
    · exact h e0 he0
  · intro e he
    rcases List.mem_append.mp he with he | he
    · exact h e he
    · simp only [List.mem_singleton] at he; subst he; exact atomFromPred_varArgs p

theorem KeysVar.foldl_addEmpty : ∀ (ps : List Pred) (d : Definitions), KeysVar d → KeysVar (ps.foldl Definitions.addEmpty d) := by
  intro ps
  induction ps with
  | nil => intro d h; exact h
  | cons p ps ih => intro d h; exact ih _ (h.addEmpty p)

/-! ## the assembly of the completed definitions -/

theorem Definitions.addEmpty_mapF (σ : Formula → Formula) (d : Definitions) (p : Pred) :
    (d.addEmpty p).mapF σ = (d.mapF σ).addEmpty p := by
  unfold Definitions.addEmpty
  simp only
  have h := Definitions.any_mapF σ d (fun x => decide (x = atomFromPred p))
  rw [h]
  split
  · simp only [Definitions.mapF, List.map_map]
    apply List.map_congr_left
    intro e _
    simp only [Function.comp]
    split <;> simp
  · simp [Definitions.mapF]

theorem Definitions.foldl_addEmpty_mapF (σ : Formula → Formula) : ∀ (ps : List Pred) (d : Definitions),
    (ps.foldl Definitions.addEmpty d).mapF σ = ps.foldl Definitions.addEmpty (d.mapF σ) := by
  intro ps
  induction ps with
  | nil => intro d; rfl
  | cons p ps ih => intro d; simp only [List.foldl_cons, ih, Definitions.addEmpty_mapF]

theorem explicitPreds_mapF (σ : Formula → Formula) (d : Definitions) :
    (d.mapF σ).foldl (fun acc e => ins acc e.1.predicate) [] = d.foldl (fun acc e => ins acc e.1.predicate) [] := by
  unfold Definitions.mapF
  exact foldl_map_congr _ _ _ (fun acc e => rfl) d []

theorem hasHeadMismatches_mapF (σ : Formula → Formula) (d : Definitions) :
    hasHeadMismatches (d.mapF σ) = hasHeadMismatches d := by
  unfold hasHeadMismatches Definitions.mapF
  simp only [List.any_map]
  rfl

theorem Theory.preds_substSym (θ : String → GTerm) (t : Theory) : Theory.preds (t.map (Formula.substSym θ)) = Theory.preds t := by
  unfold Theory.preds
  exact foldl_map_congr _ _ _ (fun acc f => by rw [Formula.preds_substSym]) t []

theorem quantify_substSym (θ : String → GTerm) (f : Formula) (q : Quant) (vs : List Var) :
    (f.quantify q vs).substSym θ = (f.substSym θ).quantify q vs := by
  unfold Formula.quantify
  split <;> rfl

theorem universalClosure_substSym (hθ : ClosedSubst θ) (f : Formula) :
    f.universalClosure.substSym θ = (f.substSym θ).universalClosure := by
  unfold Formula.universalClosure
  rw [quantify_substSym, Formula.fv_substSym hθ]

theorem disjoin_substSym (θ : String → GTerm) (fs : List Formula) :
    (disjoin fs).substSym θ = disjoin (fs.map (Formula.substSym θ)) := by
  cases fs with
  | nil => rfl
  | cons f fs =>
    simp only [disjoin, List.map_cons]
    generalize f = acc
    induction fs generalizing acc with
    | nil => rfl
    | cons g gs ih => simp only [List.foldl_cons, List.map_cons, ih]; rfl

theorem completeDefinition_substSym (hθ : ClosedSubst θ) (g : Atom) (hg : VarArgs g) (bodies : List Formula) :
    (completeDefinition g bodies).substSym θ = completeDefinition g (bodies.map (Formula.substSym θ)) := by
  unfold completeDefinition
  simp only [quantify_substSym, Formula.substSym, disjoin_substSym, List.map_map]
  have hatom : AtomicF.substSym θ (.atom g) = .atom g := by
    simp only [AtomicF.substSym, args_substSym_of_varArgs hg]
  rw [hatom]
  congr 3
  apply List.map_congr_left
  intro f _
  simp only [Function.comp, quantify_substSym, Formula.fv_substSym hθ]

/-- **completion commutes with a closed substitution for symbolic constants** -/
theorem completion_substSym (hθ : ClosedSubst θ) (t : Theory) (inputs : List Pred) :
    completion (t.map (Formula.substSym θ)) inputs = (completion t inputs).map (List.map (Formula.substSym θ)) := by
  unfold completion
  rw [components_substSym hθ]
  cases hc : components t with
  | none => rfl
  | some acc =>
    obtain ⟨explicit, constraints⟩ := acc
    simp only [Option.map_some, accMap, explicitPreds_mapF, Theory.preds_substSym]
    rw [← Definitions.foldl_addEmpty_mapF, hasHeadMismatches_mapF]
    split
    · rfl
    · simp only [Option.map_some, List.map_append, List.map_map]
      have hkeys : KeysVar ((List.filter (fun x => decide (x ∉ explicit.foldl (fun acc e => ins acc e.1.predicate) [])) t.preds).foldl
          Definitions.addEmpty explicit) := by
        apply KeysVar.foldl_addEmpty
        rw [components_eq] at hc
        exact foldlM_compStep_keysVar t ([], []) (explicit, constraints) (fun e he => by cases he) hc
      congr 2
      · apply List.map_congr_left
        intro c _
        simp only [Function.comp, universalClosure_substSym hθ]
      · unfold Definitions.mapF
        rw [List.filter_map, List.map_map]
        have hf : ∀ (D : Definitions), List.filter ((fun e => decide (e.1.predicate ∉ inputs)) ∘
            fun (e : Atom × List Formula) => (e.1, e.2.map (Formula.substSym θ))) D =
            List.filter (fun e => decide (e.1.predicate ∉ inputs)) D := fun D => rfl
        rw [hf]
        apply List.map_congr_left
        intro e he
        simp only [Function.comp]
        rw [completeDefinition_substSym hθ e.1 (hkeys e (List.mem_filter.mp he).1)]

end Anthem
