/-
  Placeholders, part 4: the program analyses do not see symbolic constants, and the translated
  theory of a program with placeholders is, under an interpretation `J`, equivalent to the
  completion of tau* of the program in which every placeholder is replaced by the precomputed term
  that `J` assigns to it - the reference reading `v(Π)` of a program with placeholders.
-/
import AnthemModel.Proofs.PhTau
import AnthemModel.Proofs.PhCompletion
import AnthemModel.Proofs.ExternalSem
namespace Anthem
open Asp

/-! ## analyses -/

theorem Atom.predicate_substSym (ν : String → Pre) (a : Asp.Atom) : (a.substSym ν).predicate = a.predicate := by
  simp [Asp.Atom.substSym, Asp.Atom.predicate]

theorem Head.predicate_substSym (ν : String → Pre) (h : Head) : (h.substSym ν).predicate = h.predicate := by
  cases h <;> simp [Asp.Head.substSym, Head.predicate, Atom.predicate_substSym]

theorem BodyAtom.preds_substSym (ν : String → Pre) (f : BodyAtom) : (f.substSym ν).preds = f.preds := by
  cases f with
  | lit l => simp [BodyAtom.substSym, BodyAtom.preds, Atom.predicate_substSym]
  | cmp rel l r => rfl

theorem BodyAtom.posPreds_substSym (ν : String → Pre) (f : BodyAtom) : (f.substSym ν).posPreds = f.posPreds := by
  cases f with
  | lit l =>
    obtain ⟨s, a⟩ := l
    cases s <;> simp [BodyAtom.substSym, BodyAtom.posPreds, Atom.predicate_substSym]
  | cmp rel l r => rfl

theorem bodyPreds_substSym (ν : String → Pre) (b : List BodyAtom) : bodyPreds (b.map (BodyAtom.substSym ν)) = bodyPreds b := by
  unfold bodyPreds
  exact foldl_map_congr _ _ _ (fun acc f => by rw [BodyAtom.preds_substSym]) b []

theorem bodyPosPreds_substSym (ν : String → Pre) (b : List BodyAtom) :
    bodyPosPreds (b.map (BodyAtom.substSym ν)) = bodyPosPreds b := by
  unfold bodyPosPreds
  exact foldl_map_congr _ _ _ (fun acc f => by rw [BodyAtom.posPreds_substSym]) b []

theorem Rule.preds_substSym (ν : String → Pre) (r : Rule) : (r.substSym ν).preds = r.preds := by
  simp only [Asp.Rule.substSym, Rule.preds, Head.predicate_substSym, bodyPreds_substSym]

theorem Program.preds_substSym (ν : String → Pre) (p : Program) : (p.substSym ν).preds = p.preds := by
  unfold Asp.Program.substSym Program.preds
  exact foldl_map_congr _ _ _ (fun acc r => by rw [Rule.preds_substSym]) p []

theorem Program.headPreds_substSym (ν : String → Pre) (p : Program) : (p.substSym ν).headPreds = p.headPreds := by
  unfold Asp.Program.substSym Program.headPreds
  exact foldl_map_congr _ _ _ (fun acc r => by simp only [headPredStep, Asp.Rule.substSym, Head.predicate_substSym]) p []

theorem positiveEdges_substSym (ν : String → Pre) (p : Program) : positiveEdges (p.substSym ν) = positiveEdges p := by
  unfold positiveEdges Asp.Program.substSym
  rw [List.flatMap_map]
  congr 1
  funext r
  simp only [Asp.Rule.substSym, Head.predicate_substSym, bodyPosPreds_substSym]

theorem privateEdges_substSym (ν : String → Pre) (p : Program) (priv : List Pred) :
    privateEdges (p.substSym ν) priv = privateEdges p priv := by
  unfold privateEdges Asp.Program.substSym
  rw [List.flatMap_map]
  congr 1
  funext r
  simp only [Asp.Rule.substSym, Head.predicate_substSym, bodyPreds_substSym]

theorem isTight_substSym (ν : String → Pre) (p : Program) : isTight (p.substSym ν) = isTight p := by
  unfold isTight
  rw [Program.preds_substSym, positiveEdges_substSym]

theorem hasPrivateRecursion_substSym (ν : String → Pre) (p : Program) (priv : List Pred) :
    hasPrivateRecursion (p.substSym ν) priv = hasPrivateRecursion p priv := by
  unfold hasPrivateRecursion
  rw [Program.preds_substSym, privateEdges_substSym]
  congr 1
  unfold Asp.Program.substSym
  rw [List.any_map]
  congr 1
  funext r
  obtain ⟨h, b⟩ := r
  cases h <;> simp [Asp.Rule.substSym, Asp.Head.substSym, Atom.predicate_substSym]

/-! ## the values an interpretation gives to the placeholders -/

def Dom.toPre : Dom → Pre
  | .inf => .inf
  | .num n => .num n
  | .sym s => .sym s
  | .sup => .sup

theorem Dom.toDom_toPre (d : Dom) : (Dom.toPre d).toDom = d := by cases d <;> rfl

/-- the precomputed term an interpretation assigns to a symbolic constant: the value of the
    function constant that `replace_placeholders` puts in its place, the constant itself if it is no
    placeholder -/
def phNu (m : PlaceholderMap) (fc : FcI) (s : String) : Pre :=
  match m.find? (·.1 = s) with
  | some (_, .general) => Dom.toPre (fc s .general)
  | some (_, .integer) => .num (fc s .integer).toInt
  | some (_, .symbol) => .sym (fc s .symbol).toStr
  | none => .sym s

theorem eval_preToGTerm (fc : FcI) (ρ : Asg) (p : Pre) : (preToGTerm p).eval fc ρ = p.toDom := by
  cases p <;> rfl

/-- the term `replace_placeholders` substitutes and the precomputed term `phNu` have the same value -/
theorem phTheta_eval (m : PlaceholderMap) (fc : FcI) (s : String) (ρ : Asg) :
    (phTheta m s).eval fc ρ = (thetaOf (phNu m fc) s).eval fc ρ := by
  unfold phTheta thetaOf phNu
  rw [eval_preToGTerm]
  cases m.find? (·.1 = s) with
  | none => rfl
  | some x =>
    obtain ⟨n, srt⟩ := x
    cases srt
    · simp only [GTerm.eval, Dom.toDom_toPre]
    · rfl
    · rfl

theorem phTheta_closed (m : PlaceholderMap) : ClosedSubst (phTheta m) := by
  intro s
  unfold phTheta
  cases m.find? (·.1 = s) with
  | none => exact ⟨rfl, rfl⟩
  | some x => obtain ⟨n, srt⟩ := x; cases srt <;> exact ⟨rfl, rfl⟩

/-! ## the translated theory of a program with placeholders -/

theorem map_replacePlaceholders_eq (m : PlaceholderMap) (Γ : Theory) :
    Γ.map (Formula.replacePlaceholders m) = Γ.map (Formula.substSym (phTheta m)) :=
  List.map_congr_left fun F _ => Formula.replacePlaceholders_eq m F

theorem missingOutputs_substSym (t : ExternalTask) (ν : String → Pre) (p : Program) :
    missingOutputs t (p.substSym ν) = missingOutputs t p := by
  unfold missingOutputs
  rw [Program.preds_substSym]

/-- `theory_translate` with placeholders: for every interpretation `J`, the resulting theory is
    equivalent under `J` to the completion of tau* of the program `p[ν]`, where `ν` replaces every
    placeholder by the precomputed term `J` assigns to it, together with the emptiness of the output
    predicates the program does not mention. -/
theorem theoryTranslate_ok_ph (t : ExternalTask) (m : PlaceholderMap) (fuel : Nat) (p : Program) (th : Theory)
    (h : theoryTranslate t m fuel p = .ok th) :
    globalsPanic p = false ∧ ∀ (J : Interp), ∃ Γ, completion (tauStar (p.substSym (phNu m J.fc))) t.userGuide.inputs = some Γ ∧
      ∀ (ρ : Asg), (∀ F ∈ th, sat J F ρ) ↔ (∀ F ∈ Γ, sat J F ρ) ∧ OutputsEmpty t p J.pred := by
  unfold theoryTranslate at h
  split at h
  · cases h
  · rename_i hp
    refine ⟨by simpa using hp, fun J => ?_⟩
    rw [map_replacePlaceholders_eq] at h
    simp only at h
    rw [completion_substSym (phTheta_closed m)] at h
    cases hc : completion (tauStar p) t.userGuide.inputs with
    | none => simp [hc] at h
    | some Γ0 =>
      simp only [hc, Option.map_some] at h
      refine ⟨Γ0.map (Formula.substSym (thetaOf (phNu m J.fc))), ?_, fun ρ => ?_⟩
      · rw [tauStar_substSym, completion_substSym (thetaOf_closed _), hc]; rfl
      · have hequiv : (∀ F ∈ Γ0.map (Formula.substSym (phTheta m)) ++
              (missingOutputs t p).map (fun q => completeDefinition (atomFromPred q) []), sat J F ρ) ↔
            (∀ F ∈ Γ0.map (Formula.substSym (thetaOf (phNu m J.fc))), sat J F ρ) ∧ OutputsEmpty t p J.pred := by
          rw [List.forall_mem_append, emptyDefs_sat]
          refine and_congr ?_ Iff.rfl
          simp only [List.mem_map, forall_exists_index, and_imp, forall_apply_eq_imp_iff₂]
          exact forall_congr' fun F => imp_congr_right fun _ =>
            sat_substSym_congr J _ _ (fun s ρ' => phTheta_eval m J.fc s ρ') F ρ
        split at h
        · cases hs : simplifyTheory .classic fuel (Γ0.map (Formula.substSym (phTheta m)) ++
              (missingOutputs t p).map (fun q => completeDefinition (atomFromPred q) [])) with
          | none => simp [hs] at h
          | some th' =>
            simp only [hs] at h
            injection h with h
            subst h
            rw [simplifyTheory_some hs, allTrue_simplify_classic]
            exact hequiv
        · injection h with h
          subst h
          exact hequiv

end Anthem
