/-
  Placeholders, part 1: substitution of closed general terms for symbolic constants in target-language
  formulas (`replace_placeholders` is an instance), what it leaves unchanged (variables, predicates)
  and its semantics (only the values of the substituted terms matter).
-/
import AnthemModel.Model.External
import AnthemModel.Semantics.Fol
namespace Anthem

/-! ## the substitution -/

def GTerm.substSym (θ : String → GTerm) : GTerm → GTerm
  | .symb (.sym s) => θ s
  | t => t

def AtomicF.substSym (θ : String → GTerm) : AtomicF → AtomicF
  | .atom a => .atom ⟨a.pred, a.args.map (GTerm.substSym θ)⟩
  | .cmp t gs => .cmp (t.substSym θ) (gs.map fun g => ⟨g.rel, g.term.substSym θ⟩)
  | a => a

def Formula.substSym (θ : String → GTerm) : Formula → Formula
  | .atomic a => .atomic (a.substSym θ)
  | .not f => .not (f.substSym θ)
  | .bin c l r => .bin c (l.substSym θ) (r.substSym θ)
  | .quant q vs f => .quant q vs (f.substSym θ)

/-- the substitution `replace_placeholders` performs -/
def phTheta (m : PlaceholderMap) (s : String) : GTerm :=
  match m.find? (·.1 = s) with
  | some (_, .general) => .fc s
  | some (_, .integer) => .int (.fc s)
  | some (_, .symbol) => .symb (.fc s)
  | none => .symb (.sym s)

theorem GTerm.replacePlaceholders_eq (m : PlaceholderMap) (t : GTerm) :
    t.replacePlaceholders m = t.substSym (phTheta m) := by
  cases t with
  | symb st =>
    cases st with
    | sym s =>
      simp only [GTerm.replacePlaceholders, GTerm.substSym, phTheta]
      cases m.find? (·.1 = s) with
      | none => rfl
      | some x => obtain ⟨n, srt⟩ := x; cases srt <;> rfl
    | fc c => rfl
    | var v => rfl
  | inf | sup | fc _ | var _ | int _ => rfl

theorem Formula.replacePlaceholders_eq (m : PlaceholderMap) : ∀ F : Formula,
    F.replacePlaceholders m = F.substSym (phTheta m) := by
  intro F
  induction F with
  | atomic a =>
    cases a with
    | tru | fls => rfl
    | atom a =>
      simp only [Formula.replacePlaceholders, AtomicF.replacePlaceholders, Formula.substSym, AtomicF.substSym]
      have : a.args.map (GTerm.replacePlaceholders m) = a.args.map (GTerm.substSym (phTheta m)) :=
        List.map_congr_left fun t _ => GTerm.replacePlaceholders_eq m t
      rw [this]
    | cmp t gs =>
      simp only [Formula.replacePlaceholders, AtomicF.replacePlaceholders, Formula.substSym, AtomicF.substSym,
        GTerm.replacePlaceholders_eq]
  | not f ih => simp [Formula.replacePlaceholders, Formula.substSym, ih]
  | bin c l r ihl ihr => simp [Formula.replacePlaceholders, Formula.substSym, ihl, ihr]
  | quant q vs f ih => simp [Formula.replacePlaceholders, Formula.substSym, ih]

/-! ## closed substitutions leave variables and predicates alone -/

/-- every substituted term is closed and is not a variable -/
def ClosedSubst (θ : String → GTerm) : Prop := ∀ s, (θ s).vars = [] ∧ (θ s).asVar? = none

theorem GTerm.vars_substSym {θ : String → GTerm} (hθ : ClosedSubst θ) (t : GTerm) : (t.substSym θ).vars = t.vars := by
  cases t with
  | symb st =>
    cases st with
    | sym s => exact (hθ s).1
    | fc c => rfl
    | var v => rfl
  | inf | sup | fc _ | var _ | int _ => rfl

theorem GTerm.asVar_substSym {θ : String → GTerm} (hθ : ClosedSubst θ) (t : GTerm) : (t.substSym θ).asVar? = t.asVar? := by
  cases t with
  | symb st =>
    cases st with
    | sym s => exact (hθ s).2
    | fc c => rfl
    | var v => rfl
  | inf | sup | fc _ | var _ | int _ => rfl

theorem foldl_map_congr {α β γ : Type} (f : γ → β → γ) (g : γ → α → γ) (h : α → β) (hfg : ∀ acc a, f acc (h a) = g acc a) :
    ∀ (l : List α) (init : γ), (l.map h).foldl f init = l.foldl g init := by
  intro l
  induction l with
  | nil => intro _; rfl
  | cons a l ih => intro init; simp only [List.map_cons, List.foldl_cons, hfg, ih]

theorem AtomicF.vars_substSym {θ : String → GTerm} (hθ : ClosedSubst θ) (a : AtomicF) : (a.substSym θ).vars = a.vars := by
  cases a with
  | tru | fls => rfl
  | atom a =>
    simp only [AtomicF.substSym, AtomicF.vars]
    exact foldl_map_congr _ _ _ (fun acc t => by rw [GTerm.vars_substSym hθ]) a.args []
  | cmp t gs =>
    simp only [AtomicF.substSym, AtomicF.vars, GTerm.vars_substSym hθ]
    exact foldl_map_congr _ _ _ (fun acc g => by simp only [GTerm.vars_substSym hθ]) gs t.vars

theorem AtomicF.preds_substSym (θ : String → GTerm) (a : AtomicF) : (a.substSym θ).preds = a.preds := by
  cases a with
  | tru | fls => rfl
  | atom a => simp [AtomicF.substSym, AtomicF.preds, Atom.predicate]
  | cmp t gs => rfl

theorem Formula.vars_substSym {θ : String → GTerm} (hθ : ClosedSubst θ) : ∀ F : Formula, (F.substSym θ).vars = F.vars := by
  intro F
  induction F with
  | atomic a => exact AtomicF.vars_substSym hθ a
  | not f ih => exact ih
  | bin c l r ihl ihr => simp only [Formula.substSym, Formula.vars, ihl, ihr]
  | quant q vs f ih => exact ih

theorem Formula.fv_substSym {θ : String → GTerm} (hθ : ClosedSubst θ) : ∀ F : Formula, (F.substSym θ).fv = F.fv := by
  intro F
  induction F with
  | atomic a => exact AtomicF.vars_substSym hθ a
  | not f ih => exact ih
  | bin c l r ihl ihr => simp only [Formula.substSym, Formula.fv, ihl, ihr]
  | quant q vs f ih => simp only [Formula.substSym, Formula.fv, ih]

theorem Formula.preds_substSym (θ : String → GTerm) : ∀ F : Formula, (F.substSym θ).preds = F.preds := by
  intro F
  induction F with
  | atomic a => exact AtomicF.preds_substSym θ a
  | not f ih => exact ih
  | bin c l r ihl ihr => simp only [Formula.substSym, Formula.preds, ihl, ihr]
  | quant q vs f ih => exact ih

/-! ## semantics: only the values of the substituted terms matter -/

theorem GTerm.eval_substSym_congr (fc : FcI) (θ1 θ2 : String → GTerm)
    (h : ∀ s ρ, (θ1 s).eval fc ρ = (θ2 s).eval fc ρ) (t : GTerm) (ρ : Asg) :
    (t.substSym θ1).eval fc ρ = (t.substSym θ2).eval fc ρ := by
  cases t with
  | symb st =>
    cases st with
    | sym s => exact h s ρ
    | fc c => rfl
    | var v => rfl
  | inf | sup | fc _ | var _ | int _ => rfl

theorem cmpChain_substSym_congr (fc : FcI) (θ1 θ2 : String → GTerm)
    (h : ∀ s ρ, (θ1 s).eval fc ρ = (θ2 s).eval fc ρ) (ρ : Asg) : ∀ (gs : List Guard) (d : Dom),
    cmpChain fc ρ d (gs.map fun g => ⟨g.rel, g.term.substSym θ1⟩) ↔
      cmpChain fc ρ d (gs.map fun g => ⟨g.rel, g.term.substSym θ2⟩) := by
  intro gs
  induction gs with
  | nil => intro _; exact Iff.rfl
  | cons g gs ih =>
    intro d
    simp only [List.map_cons, cmpChain, GTerm.eval_substSym_congr fc θ1 θ2 h g.term ρ, ih]

theorem AtomicF.sat_substSym_congr (P : PredI) (fc : FcI) (θ1 θ2 : String → GTerm)
    (h : ∀ s ρ, (θ1 s).eval fc ρ = (θ2 s).eval fc ρ) (a : AtomicF) (ρ : Asg) :
    (a.substSym θ1).sat P fc ρ ↔ (a.substSym θ2).sat P fc ρ := by
  cases a with
  | tru | fls => exact Iff.rfl
  | atom a =>
    simp only [AtomicF.substSym, AtomicF.sat, List.map_map]
    have : a.args.map (GTerm.eval fc ρ ∘ GTerm.substSym θ1) = a.args.map (GTerm.eval fc ρ ∘ GTerm.substSym θ2) :=
      List.map_congr_left fun t _ => GTerm.eval_substSym_congr fc θ1 θ2 h t ρ
    rw [this]
  | cmp t gs =>
    simp only [AtomicF.substSym, AtomicF.sat, GTerm.eval_substSym_congr fc θ1 θ2 h t ρ]
    exact cmpChain_substSym_congr fc θ1 θ2 h ρ gs _

theorem sat_substSym_congr (I : Interp) (θ1 θ2 : String → GTerm)
    (h : ∀ s ρ, (θ1 s).eval I.fc ρ = (θ2 s).eval I.fc ρ) : ∀ (F : Formula) (ρ : Asg),
    sat I (F.substSym θ1) ρ ↔ sat I (F.substSym θ2) ρ := by
  intro F
  induction F with
  | atomic a => intro ρ; exact AtomicF.sat_substSym_congr I.pred I.fc θ1 θ2 h a ρ
  | not f ih => intro ρ; simp only [Formula.substSym, sat, ih ρ]
  | bin c l r ihl ihr =>
    intro ρ
    cases c <;> simp only [Formula.substSym, sat, ihl ρ, ihr ρ]
  | quant q vs f ih =>
    intro ρ
    cases q
    · exact bindAll_congr ih ρ
    · exact bindEx_congr ih ρ

end Anthem
