/-
  Placeholders, part 2: substituting precomputed terms for symbolic constants in a mini-gringo
  program commutes with tau*: `tauStar (P.substSym ν) = (tauStar P).map (substSym (preToGTerm ∘ ν))`.
-/
import AnthemModel.Proofs.PhSubst
import AnthemModel.Model.TauStar
namespace Anthem
open Asp

/-! ## the substitution on programs -/

def Asp.Term.substSym (ν : String → Pre) : Term → Term
  | .pre (.sym s) => .pre (ν s)
  | .pre p => .pre p
  | .var x => .var x
  | .neg t => .neg (t.substSym ν)
  | .bin op l r => .bin op (l.substSym ν) (r.substSym ν)

def Asp.Atom.substSym (ν : String → Pre) (a : Asp.Atom) : Asp.Atom := ⟨a.pred, a.args.map (Term.substSym ν)⟩

def Asp.BodyAtom.substSym (ν : String → Pre) : BodyAtom → BodyAtom
  | .lit l => .lit ⟨l.sign, l.atom.substSym ν⟩
  | .cmp rel l r => .cmp rel (l.substSym ν) (r.substSym ν)

def Asp.Head.substSym (ν : String → Pre) : Head → Head
  | .basic a => .basic (a.substSym ν)
  | .choice a => .choice (a.substSym ν)
  | .falsity => .falsity

def Asp.Rule.substSym (ν : String → Pre) (r : Rule) : Rule := ⟨r.head.substSym ν, r.body.map (BodyAtom.substSym ν)⟩

def Asp.Program.substSym (ν : String → Pre) (p : Program) : Program := p.map (Rule.substSym ν)

/-! ## variables, arities -/

theorem Term.vars_substSym (ν : String → Pre) : ∀ t : Term, (t.substSym ν).vars = t.vars := by
  intro t
  induction t with
  | pre p => cases p <;> rfl
  | var x => rfl
  | neg t ih => exact ih
  | bin op l r ihl ihr => simp only [Term.substSym, Term.vars, ihl, ihr]

theorem Atom.vars_substSym (ν : String → Pre) (a : Asp.Atom) : (a.substSym ν).vars = a.vars := by
  simp only [Asp.Atom.substSym, Asp.Atom.vars]
  exact foldl_map_congr _ _ _ (fun acc t => by rw [Term.vars_substSym]) a.args []

theorem BodyAtom.vars_substSym (ν : String → Pre) (f : BodyAtom) : (f.substSym ν).vars = f.vars := by
  cases f with
  | lit l => exact Atom.vars_substSym ν l.atom
  | cmp rel l r => simp only [BodyAtom.substSym, BodyAtom.vars, Term.vars_substSym]

theorem bodyVars_substSym (ν : String → Pre) (b : List BodyAtom) : bodyVars (b.map (BodyAtom.substSym ν)) = bodyVars b := by
  unfold bodyVars
  exact foldl_map_congr _ _ _ (fun acc f => by rw [BodyAtom.vars_substSym]) b []

theorem Head.vars_substSym (ν : String → Pre) (h : Head) : (h.substSym ν).vars = h.vars := by
  cases h with
  | basic a => exact Atom.vars_substSym ν a
  | choice a => exact Atom.vars_substSym ν a
  | falsity => rfl

theorem Head.arity_substSym (ν : String → Pre) (h : Head) : (h.substSym ν).arity = h.arity := by
  cases h <;> simp [Asp.Head.substSym, Head.arity, Asp.Atom.substSym]

theorem Rule.vars_substSym (ν : String → Pre) (r : Rule) : (r.substSym ν).vars = r.vars := by
  simp only [Asp.Rule.substSym, Rule.vars, Head.vars_substSym, bodyVars_substSym]

theorem Program.vars_substSym (ν : String → Pre) (p : Program) : (p.substSym ν).vars = p.vars := by
  unfold Asp.Program.substSym Program.vars
  exact foldl_map_congr _ _ _ (fun acc r => by rw [Rule.vars_substSym]) p []

theorem maxHeadArity_substSym (ν : String → Pre) (p : Program) : maxHeadArity (p.substSym ν) = maxHeadArity p := by
  unfold maxHeadArity Asp.Program.substSym
  exact foldl_map_congr _ _ _ (fun m r => by simp only [Asp.Rule.substSym, Head.arity_substSym]) p 0

theorem maxTakenGlobal_substSym (ν : String → Pre) (p : Program) : maxTakenGlobal (p.substSym ν) = maxTakenGlobal p := by
  unfold maxTakenGlobal
  rw [Program.vars_substSym]

theorem chooseFreshGlobals_substSym (ν : String → Pre) (p : Program) :
    chooseFreshGlobals (p.substSym ν) = chooseFreshGlobals p := by
  unfold chooseFreshGlobals
  rw [maxHeadArity_substSym, maxTakenGlobal_substSym, Program.vars_substSym]

theorem globalsPanic_substSym (ν : String → Pre) (p : Program) : globalsPanic (p.substSym ν) = globalsPanic p := rfl

/-! ## tau* -/

/-- the formula-side substitution that corresponds to `ν` -/
def thetaOf (ν : String → Pre) (s : String) : GTerm := preToGTerm (ν s)

theorem thetaOf_closed (ν : String → Pre) : ClosedSubst (thetaOf ν) := by
  intro s
  unfold thetaOf
  cases ν s <;> exact ⟨rfl, rfl⟩

theorem Var.toTerm_substSym (θ : String → GTerm) (z : Var) : z.toTerm.substSym θ = z.toTerm := by
  obtain ⟨n, srt⟩ := z
  cases srt <;> rfl

@[simp] theorem GTerm.substSym_int (θ : String → GTerm) (t : ITerm) : (GTerm.int t).substSym θ = .int t := rfl
@[simp] theorem GTerm.substSym_var (θ : String → GTerm) (x : String) : (GTerm.var x).substSym θ = .var x := rfl

theorem cmp1_substSym (θ : String → GTerm) (l : GTerm) (r : Rel) (t : GTerm) :
    (cmp1 l r t).substSym θ = cmp1 (l.substSym θ) r (t.substSym θ) := rfl

theorem totalFunction_substSym (θ : String → GTerm) (vi vj : Formula) (op : IOp) (i j : String) (z : Var) :
    (totalFunction vi vj op i j z).substSym θ = totalFunction (vi.substSym θ) (vj.substSym θ) op i j z := by
  simp only [totalFunction, Formula.substSym, cmp1, AtomicF.substSym, Var.toTerm_substSym, List.map_cons, List.map_nil,
    GTerm.substSym_int, GTerm.substSym_var]

theorem partialFunction_substSym {θ : String → GTerm} (hθ : ClosedSubst θ) (vi vj : Formula) (useQ : Bool) (i j : String)
    (z : Var) :
    (partialFunction vi vj useQ i j z).substSym θ = partialFunction (vi.substSym θ) (vj.substSym θ) useQ i j z := by
  simp only [partialFunction, Formula.vars_substSym hθ]
  simp only [Formula.substSym, cmp1, AtomicF.substSym, Var.toTerm_substSym, List.map_cons, List.map_nil,
    GTerm.substSym_int, GTerm.substSym_var]

theorem intervalFormula_substSym (θ : String → GTerm) (vi vj : Formula) (i j k : String) (z : Var) :
    (intervalFormula vi vj i j k z).substSym θ = intervalFormula (vi.substSym θ) (vj.substSym θ) i j k z := by
  simp only [intervalFormula, Formula.substSym, cmp1, AtomicF.substSym, Var.toTerm_substSym, List.map_cons, List.map_nil,
    GTerm.substSym_int, GTerm.substSym_var]

theorem preToGTerm_substSym (ν : String → Pre) (p : Pre) :
    (preToGTerm p).substSym (thetaOf ν) = preToGTerm (match p with | .sym s => ν s | q => q) := by
  cases p <;> rfl

theorem val_substSym (ν : String → Pre) : ∀ (t : Term) (z : Var),
    val (t.substSym ν) z = (val t z).substSym (thetaOf ν) := by
  intro t
  induction t with
  | pre p =>
    intro z
    cases p <;> simp only [Term.substSym, val, cmp1_substSym, Var.toTerm_substSym] <;> rfl
  | var x => intro z; simp only [Term.substSym, val, cmp1_substSym, Var.toTerm_substSym]; rfl
  | neg t ih =>
    intro z
    simp only [Term.substSym, val, Term.vars_substSym, ih, totalFunction_substSym]
    rfl
  | bin op l r ihl ihr =>
    intro z
    simp only [Term.substSym, val, Term.vars_substSym, ihl, ihr]
    cases op <;> simp only [totalFunction_substSym, partialFunction_substSym (thetaOf_closed ν), intervalFormula_substSym]

theorem conjoin_substSym (θ : String → GTerm) (fs : List Formula) :
    (conjoin fs).substSym θ = conjoin (fs.map (Formula.substSym θ)) := by
  cases fs with
  | nil => rfl
  | cons f fs =>
    simp only [conjoin, List.map_cons]
    generalize f = acc
    induction fs generalizing acc with
    | nil => rfl
    | cons g gs ih => simp only [List.foldl_cons, List.map_cons, ih]; rfl

theorem signed_substSym (θ : String → GTerm) (s : Sign) (a : Formula) : (signed s a).substSym θ = signed s (a.substSym θ) := by
  cases s <;> rfl

theorem map_zip_val (ν : String → Pre) (args : List Term) (zs : List String) :
    ((args.map (Term.substSym ν)).zip zs).map (fun (p : Term × String) => val p.1 ⟨p.2, .general⟩) =
      ((args.zip zs).map (fun (p : Term × String) => val p.1 ⟨p.2, .general⟩)).map (Formula.substSym (thetaOf ν)) := by
  induction args generalizing zs with
  | nil => rfl
  | cons t ts ih =>
    cases zs with
    | nil => rfl
    | cons z zs => simp only [List.map_cons, List.zip_cons_cons, val_substSym, ih]

theorem atomVars_substSym (θ : String → GTerm) (p : String) (zs : List String) :
    (Formula.atomic (.atom ⟨p, zs.map GTerm.var⟩)).substSym θ = .atomic (.atom ⟨p, zs.map GTerm.var⟩) := by
  simp only [Formula.substSym, AtomicF.substSym, List.map_map]
  congr 3

theorem atomVarsA_substSym (θ : String → GTerm) (p : String) (zs : List String) :
    AtomicF.substSym θ (.atom ⟨p, zs.map GTerm.var⟩) = .atom ⟨p, zs.map GTerm.var⟩ := by
  simp only [AtomicF.substSym, List.map_map]
  congr 2

theorem tauB_substSym (ν : String → Pre) (f : BodyAtom) : tauB (f.substSym ν) = (tauB f).substSym (thetaOf ν) := by
  cases f with
  | lit l =>
    obtain ⟨s, a⟩ := l
    simp only [BodyAtom.substSym, tauB, BodyAtom.vars, Atom.vars_substSym]
    simp only [Asp.Atom.substSym, List.length_map]
    split
    · simp only [Formula.substSym, conjoin_substSym, signed_substSym, atomVars_substSym, atomVarsA_substSym, map_zip_val]
    · simp only [signed_substSym]
      rfl
  | cmp rel l r =>
    simp only [BodyAtom.substSym, tauB, BodyAtom.vars, Term.vars_substSym, val_substSym]
    rfl

theorem tauBody_substSym (ν : String → Pre) (b : List BodyAtom) :
    tauBody (b.map (BodyAtom.substSym ν)) = (tauBody b).substSym (thetaOf ν) := by
  simp only [tauBody, conjoin_substSym, List.map_map]
  congr 1
  exact List.map_congr_left fun f _ => tauB_substSym ν f

theorem tauStarRule_substSym (ν : String → Pre) (r : Rule) (globals : List String) :
    tauStarRule (r.substSym ν) globals = (tauStarRule r globals).substSym (thetaOf ν) := by
  obtain ⟨h, b⟩ := r
  cases h with
  | falsity =>
    simp only [tauStarRule, Asp.Rule.substSym, Asp.Head.substSym, Rule.vars_substSym, tauBody_substSym]
    have hv : (Asp.Rule.substSym ν ⟨.falsity, b⟩).vars = (⟨.falsity, b⟩ : Rule).vars := Rule.vars_substSym ν _
    simp only [Asp.Rule.substSym, Asp.Head.substSym] at hv
    rw [hv]
    split <;> rfl
  | basic a =>
    have hv : (Asp.Rule.substSym ν ⟨.basic a, b⟩).vars = (⟨.basic a, b⟩ : Rule).vars := Rule.vars_substSym ν _
    simp only [Asp.Rule.substSym, Asp.Head.substSym] at hv
    simp only [tauStarRule, Asp.Rule.substSym, Asp.Head.substSym, tauBody_substSym, hv]
    simp only [Asp.Atom.substSym, List.length_map]
    split
    · simp only [Bool.false_eq_true, if_false, Formula.substSym, conjoin_substSym, atomVars_substSym, atomVarsA_substSym, map_zip_val]
    · simp only [Bool.false_eq_true, if_false]
      split <;> rfl
  | choice a =>
    have hv : (Asp.Rule.substSym ν ⟨.choice a, b⟩).vars = (⟨.choice a, b⟩ : Rule).vars := Rule.vars_substSym ν _
    simp only [Asp.Rule.substSym, Asp.Head.substSym] at hv
    simp only [tauStarRule, Asp.Rule.substSym, Asp.Head.substSym, tauBody_substSym, hv]
    simp only [Asp.Atom.substSym, List.length_map]
    split
    · simp only [if_true, Formula.substSym, conjoin_substSym, atomVars_substSym, atomVarsA_substSym, map_zip_val]
    · simp only [if_true]
      split <;> rfl

/-- **tau\* commutes with the substitution of precomputed terms for symbolic constants** -/
theorem tauStar_substSym (ν : String → Pre) (p : Program) :
    tauStar (p.substSym ν) = (tauStar p).map (Formula.substSym (thetaOf ν)) := by
  simp only [tauStar, chooseFreshGlobals_substSym]
  simp only [Asp.Program.substSym, List.map_map]
  exact List.map_congr_left fun r _ => tauStarRule_substSym ν r _

end Anthem
