/-
  The Pratt parser inverts the printer's parenthesisation: for every term `t`, running pest's
  Pratt algorithm (Model/AspParse `prattExpr`/`prattLoop`) on the pair sequence that the printed
  text of `t` lexes to (`flat t`: parenthesised operands are single primaries) yields `t`.
-/
import AnthemModel.Model.AspParse
import AnthemModel.Model.Print
namespace Anthem.Asp

/-- the pair sequence of the printed term: an operand that the printer parenthesises is one
    primary pair (a nested `term`), an unparenthesised operand contributes its own pairs -/
def flat : Term → List Tok
  | .pre p => [.prim (.pre p)]
  | .var x => [.prim (.var x)]
  | .neg a => .neg :: (if 0 < a.prec then [.prim a] else flat a)
  | .bin op l r =>
    (if (Term.bin op l r).prec < l.prec then [.prim l] else flat l) ++ [.op op] ++
      (if ((Term.bin op l r).prec < r.prec || (Term.bin op l r).prec = r.prec) then [.prim r] else flat r)

/-- binding power of the top operator of an unparenthesised term (100 = no infix operator on top) -/
def Term.bpTop : Term → Nat
  | .bin op _ _ => op.bp
  | _ => 100

/-- what may follow a complete operand in the pair sequence -/
def RestOK (bound : Nat) (rest : List Tok) : Prop :=
  rest = [] ∨ ∃ o r', rest = .op o :: r' ∧ o.bp ≤ bound

theorem Op.bp_le (o : Op) : o.bp ≤ 40 := by cases o <;> simp [Op.bp]
theorem Op.bp_ge (o : Op) : 20 ≤ o.bp := by cases o <;> simp [Op.bp]

theorem bin_prec (op : Op) (l r : Term) : (Term.bin op l r).prec = 6 - op.bp / 10 := by
  cases op <;> simp [Term.prec, Op.bp]

theorem prec_le_one_of_not_bin : ∀ t : Term, (∀ op l r, t ≠ .bin op l r) → t.prec ≤ 1
  | .pre (.num n), _ => by simp only [Term.prec]; split <;> omega
  | .pre .inf, _ | .pre .sup, _ | .pre (.sym _), _ | .var _, _ | .neg _, _ => by simp [Term.prec]
  | .bin op l r, h => absurd rfl (h op l r)

/-- an unparenthesised left operand binds at least as tightly as its parent -/
theorem left_unparen (op : Op) (l r : Term) (h : ¬ (Term.bin op l r).prec < l.prec) : op.bp ≤ l.bpTop := by
  cases l with
  | bin op' l' r' =>
    rw [bin_prec, bin_prec] at h
    simp only [Term.bpTop]
    cases op <;> cases op' <;> simp [Op.bp] at h ⊢
  | pre _ | var _ | neg _ => have := op.bp_le; simp only [Term.bpTop]; omega

/-- an unparenthesised right operand binds strictly tighter than its parent -/
theorem right_unparen (op : Op) (l r : Term)
    (h : ¬ ((Term.bin op l r).prec < r.prec || (Term.bin op l r).prec = r.prec) = true) : op.bp < r.bpTop := by
  cases r with
  | bin op' l' r' =>
    rw [bin_prec, bin_prec] at h
    simp only [Term.bpTop]
    cases op <;> cases op' <;> simp [Op.bp] at h ⊢
  | pre _ | var _ | neg _ => have := op.bp_le; simp only [Term.bpTop]; omega

theorem neg_unparen (a : Term) (h : ¬ 0 < a.prec) : a.bpTop = 100 := by
  cases a with
  | bin op l r => rw [bin_prec] at h; have := op.bp_le; omega
  | pre _ | var _ | neg _ => rfl

theorem loop_stop (fuel rbp : Nat) (lhs : Term) (rest : List Tok) (hf : 0 < fuel)
    (h : RestOK rbp rest) : prattLoop fuel rbp lhs rest = some (lhs, rest) := by
  obtain ⟨f, rfl⟩ : ∃ f, fuel = f + 1 := ⟨fuel - 1, by omega⟩
  rcases h with rfl | ⟨o, r', rfl, ho⟩
  · simp [prattLoop]
  · have : ¬ rbp < o.bp := by omega
    simp [prattLoop, this]

/-- **Pratt inversion, operand form.** Parsing the pairs of `t` (followed by `rest`) with right
    binding power `rbp` is the same as having parsed `t` and continuing the loop with `rest`. -/
theorem pratt_flat : ∀ (t : Term) (rbp : Nat) (rest : List Tok) (fuel : Nat),
    rbp < t.bpTop → RestOK t.bpTop rest → 2 * (flat t ++ rest).length < fuel →
    ∃ fuel', 2 * rest.length < fuel' ∧ prattExpr fuel rbp (flat t ++ rest) = prattLoop fuel' rbp t rest := by
  intro t
  induction t with
  | pre p =>
    intro rbp rest fuel _ _ hf
    obtain ⟨f, rfl⟩ : ∃ f, fuel = f + 1 := ⟨fuel - 1, by omega⟩
    simp only [flat, List.cons_append, List.nil_append, List.length_cons] at hf ⊢
    exact ⟨f, by omega, by simp [prattExpr]⟩
  | var x =>
    intro rbp rest fuel _ _ hf
    obtain ⟨f, rfl⟩ : ∃ f, fuel = f + 1 := ⟨fuel - 1, by omega⟩
    simp only [flat, List.cons_append, List.nil_append, List.length_cons] at hf ⊢
    exact ⟨f, by omega, by simp [prattExpr]⟩
  | neg a iha =>
    intro rbp rest fuel _ hrest hf
    obtain ⟨f, rfl⟩ : ∃ f, fuel = f + 1 := ⟨fuel - 1, by omega⟩
    simp only [flat, List.cons_append, List.length_cons] at hf ⊢
    have hstop : ∀ f', 0 < f' → prattLoop f' 49 a rest = some (a, rest) := by
      intro f' hf'
      refine loop_stop f' 49 a rest hf' ?_
      rcases hrest with rfl | ⟨o, r', rfl, _⟩
      · exact Or.inl rfl
      · exact Or.inr ⟨o, r', rfl, by have := o.bp_le; omega⟩
    by_cases hp : 0 < a.prec
    · simp only [hp, if_true, List.cons_append, List.nil_append, List.length_cons] at hf ⊢
      obtain ⟨f2, rfl⟩ : ∃ f2, f = f2 + 1 := ⟨f - 1, by omega⟩
      refine ⟨f2 + 1, by omega, ?_⟩
      simp only [prattExpr]
      rw [hstop f2 (by omega)]
    · simp only [hp, if_false] at hf ⊢
      have hb := neg_unparen a hp
      obtain ⟨f', hf', he⟩ := iha 49 rest f (by omega)
        (by
          rcases hrest with rfl | ⟨o, r', rfl, _⟩
          · exact Or.inl rfl
          · exact Or.inr ⟨o, r', rfl, by have := o.bp_le; omega⟩) (by omega)
      refine ⟨f, by simp only [List.length_append] at hf; omega, ?_⟩
      simp only [prattExpr]
      rw [he, hstop f' (by omega)]
  | bin op l r ihl ihr =>
    intro rbp rest fuel hrbp hrest hf
    simp only [Term.bpTop] at hrbp hrest
    -- the right operand followed by `rest`, at right binding power `op.bp`
    have hright : ∀ f, 2 * ((if ((Term.bin op l r).prec < r.prec || (Term.bin op l r).prec = r.prec) then [Tok.prim r] else flat r) ++ rest).length < f →
        prattExpr f op.bp ((if ((Term.bin op l r).prec < r.prec || (Term.bin op l r).prec = r.prec) then [Tok.prim r] else flat r) ++ rest) = some (r, rest) := by
      intro f hf2
      have hstop : ∀ f', 0 < f' → prattLoop f' op.bp r rest = some (r, rest) :=
        fun f' hf' => loop_stop f' op.bp r rest hf' hrest
      by_cases hp : ((Term.bin op l r).prec < r.prec || (Term.bin op l r).prec = r.prec) = true
      · simp only [hp, if_true, List.cons_append, List.nil_append, List.length_cons] at hf2 ⊢
        obtain ⟨f2, rfl⟩ : ∃ f2, f = f2 + 1 := ⟨f - 1, by omega⟩
        simp only [prattExpr]
        exact hstop f2 (by omega)
      · simp only [hp, Bool.false_eq_true, if_false] at hf2 ⊢
        have hb := right_unparen op l r hp
        obtain ⟨f', hf', he⟩ := ihr op.bp rest f hb
          (by
            rcases hrest with rfl | ⟨o, r', rfl, ho⟩
            · exact Or.inl rfl
            · exact Or.inr ⟨o, r', rfl, by omega⟩) hf2
        rw [he]; exact hstop f' (by omega)
    -- after the left operand: the operator, the right operand, and on with the loop
    have hcont : ∀ f, 2 * (Tok.op op :: ((if ((Term.bin op l r).prec < r.prec || (Term.bin op l r).prec = r.prec) then [Tok.prim r] else flat r) ++ rest)).length < f →
        ∃ f', 2 * rest.length < f' ∧
          prattLoop f rbp l (Tok.op op :: ((if ((Term.bin op l r).prec < r.prec || (Term.bin op l r).prec = r.prec) then [Tok.prim r] else flat r) ++ rest)) =
            prattLoop f' rbp (.bin op l r) rest := by
      intro f hf2
      obtain ⟨f2, rfl⟩ : ∃ f2, f = f2 + 1 := ⟨f - 1, by omega⟩
      simp only [List.length_cons] at hf2
      refine ⟨f2, by simp only [List.length_append] at hf2; omega, ?_⟩
      simp only [prattLoop, hrbp, if_true]
      rw [hright f2 (by omega)]
    simp only [flat, List.append_assoc, List.cons_append, List.nil_append] at hf ⊢
    by_cases hp : (Term.bin op l r).prec < l.prec
    · simp only [hp, if_true, List.cons_append, List.nil_append, List.length_cons] at hf ⊢
      obtain ⟨f, rfl⟩ : ∃ f, fuel = f + 1 := ⟨fuel - 1, by omega⟩
      obtain ⟨f', hf', he⟩ := hcont f (by simp only [List.length_cons]; omega)
      exact ⟨f', hf', by simp only [prattExpr]; exact he⟩
    · simp only [hp, if_false] at hf ⊢
      have hb := left_unparen op l r hp
      obtain ⟨f1, hf1, he1⟩ := ihl rbp (Tok.op op :: ((if ((Term.bin op l r).prec < r.prec || (Term.bin op l r).prec = r.prec) then [Tok.prim r] else flat r) ++ rest)) fuel
        (by omega) (Or.inr ⟨op, _, rfl, hb⟩) hf
      obtain ⟨f', hf', he⟩ := hcont f1 hf1
      exact ⟨f', hf', by rw [he1, he]⟩

/-- **The Pratt parser returns the printed term.** -/
theorem pratt_flat_eq (t : Term) : pratt (flat t) = some t := by
  unfold pratt
  have h0 : 0 < t.bpTop := by
    cases t with
    | bin op _ _ => have := op.bp_ge; simp only [Term.bpTop]; omega
    | pre _ | var _ | neg _ => simp [Term.bpTop]
  obtain ⟨f', hf', he⟩ := pratt_flat t 0 [] (2 * (flat t).length + 2) h0 (Or.inl rfl) (by simp)
  rw [List.append_nil] at he
  rw [he, loop_stop f' 0 t [] (by omega) (Or.inl rfl)]

end Anthem.Asp
