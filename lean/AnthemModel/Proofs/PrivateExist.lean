/-
  C02: without private recursion the completed definitions of the private predicates can always be
  satisfied: whatever the extents of the other predicates, there are extents of the private
  predicates that make every private definition true (existence; uniqueness is
  `private_extents_unique`). Constructed by iterating the "supported" operator as often as there are
  private predicates; a predicate's extent is final after (its rank + 1) rounds.
-/
import AnthemModel.Proofs.PrivateUnique
namespace Anthem
open Asp C11

/-- the right-hand side of `DefHolds` -/
def SupportedBy (P : Program) (T : PredI) (fc : FcI) (q : String) (ds : List Dom) : Prop :=
  ∃ r ∈ P, ∃ a ch, HeadOf r a ch ∧ a.pred = q ∧ a.args.length = ds.length ∧
    ∃ σ : Subst, valsList σ a.args ds ∧ bodySat ⟨T, T, fc⟩ .there σ r.body ∧ (ch = true → T q ds)

theorem defHolds_iff_supportedBy (P : Program) (T : PredI) (fc : FcI) (q : String) (n : Nat) :
    DefHolds P T fc q n ↔ ∀ ds : List Dom, ds.length = n → (T q ds ↔ SupportedBy P T fc q ds) := by
  unfold DefHolds SupportedBy
  refine forall_congr' fun ds => ?_
  constructor
  · intro h hds; subst hds; exact h rfl
  · intro h hds; subst hds; exact h rfl

/-- one round: private predicates get their supported extents, the others keep `T0` -/
def privStep (P : Program) (priv : List Pred) (fc : FcI) (T0 T : PredI) : PredI :=
  fun q ds => if (⟨q, ds.length⟩ : Pred) ∈ priv then SupportedBy P T fc q ds else T0 q ds

def privIter (P : Program) (priv : List Pred) (fc : FcI) (T0 : PredI) : Nat → PredI
  | 0 => T0
  | n + 1 => privStep P priv fc T0 (privIter P priv fc T0 n)

theorem privIter_nonpriv (P : Program) (priv : List Pred) (fc : FcI) (T0 : PredI) (n : Nat)
    (q : String) (ds : List Dom) (h : (⟨q, ds.length⟩ : Pred) ∉ priv) :
    privIter P priv fc T0 n q ds ↔ T0 q ds := by
  cases n with
  | zero => exact Iff.rfl
  | succ n => simp only [privIter, privStep, if_neg h]

theorem privIter_priv (P : Program) (priv : List Pred) (fc : FcI) (T0 : PredI) (n : Nat)
    (q : String) (ds : List Dom) (h : (⟨q, ds.length⟩ : Pred) ∈ priv) :
    privIter P priv fc T0 (n + 1) q ds ↔ SupportedBy P (privIter P priv fc T0 n) fc q ds := by
  simp only [privIter, privStep, if_pos h]

/-- `SupportedBy` reads the interpretation only at the body predicates of the rules for `q`
    (private heads are never choice heads) -/
theorem supportedBy_congr (P : Program) (priv : List Pred) (hnochoice : ∀ r ∈ P, ∀ a, r.head = .choice a → a.predicate ∉ priv)
    (T1 T2 : PredI) (fc : FcI) (q : String) (ds : List Dom) (hin : (⟨q, ds.length⟩ : Pred) ∈ priv)
    (h : ∀ r ∈ P, r.head.predicate = some ⟨q, ds.length⟩ → ∀ b ∈ bodyPreds r.body, ∀ ds' : List Dom,
      ds'.length = b.arity → (T1 b.symbol ds' ↔ T2 b.symbol ds')) :
    SupportedBy P T1 fc q ds ↔ SupportedBy P T2 fc q ds := by
  unfold SupportedBy
  refine exists_congr fun r => and_congr_right fun hr => exists_congr fun a => exists_congr fun ch =>
    and_congr_right fun hh => and_congr_right fun hpa => and_congr_right fun hla =>
    exists_congr fun σ => and_congr_right fun hv => ?_
  have hch : ch = false := by
    rcases hh with ⟨_, rfl⟩ | ⟨hh, rfl⟩
    · rfl
    · exfalso
      apply hnochoice r hr a hh
      have : a.predicate = ⟨q, ds.length⟩ := by simp [Asp.Atom.predicate, hpa, hla]
      rw [this]; exact hin
  subst hch
  simp only [Bool.false_eq_true, false_imp_iff, and_true]
  refine bodySat_congr_preds T1 T2 fc .there σ r.body ?_
  intro b hb ds' hds'
  exact h r hr (by rw [headOf_predicate hh]; simp [Asp.Atom.predicate, hpa, hla]) b hb ds' hds'

theorem rank_le (nodes : List Pred) (es : Edges) (v : Pred) : rank nodes es v ≤ nodes.length :=
  cnt_le _ _

/-- after `rank + 1` rounds the extent of a predicate no longer changes -/
theorem privIter_stable (P : Program) (priv : List Pred) (hrec : hasPrivateRecursion P priv = false)
    (fc : FcI) (T0 : PredI) :
    ∀ (n : Nat) (q : String) (ds : List Dom),
      rank (P.preds.filter (· ∈ priv)) (privateEdges P priv) ⟨q, ds.length⟩ < n →
      (privIter P priv fc T0 (n + 1) q ds ↔ privIter P priv fc T0 n q ds) := by
  obtain ⟨hnochoice, hac⟩ := noPrivateRecursion P priv hrec
  have htgt : ∀ e ∈ privateEdges P priv, e.2 ∈ P.preds.filter (· ∈ priv) := by
    intro ⟨a, b⟩ he
    obtain ⟨r, hr, _, _, hb, hbp⟩ := privateEdges_mem he
    simp only [List.mem_filter, decide_eq_true_eq]
    refine ⟨mem_program_preds.mpr ⟨r, hr, ?_⟩, hbp⟩
    unfold Rule.preds; rw [mem_ext]; exact Or.inr hb
  intro n
  induction n with
  | zero => intro q ds h; omega
  | succ n ih =>
    intro q ds hrank
    by_cases hin : (⟨q, ds.length⟩ : Pred) ∈ priv
    · rw [privIter_priv P priv fc T0 (n + 1) q ds hin, privIter_priv P priv fc T0 n q ds hin]
      refine supportedBy_congr P priv hnochoice _ _ fc q ds hin ?_
      intro r hr hhead b hb ds' hds'
      by_cases hbp : b ∈ priv
      · have hedge := privateEdges_of P priv r hr ⟨q, ds.length⟩ b hhead hin hb hbp
        have hlt := rank_lt _ _ htgt hac (Path.step hedge)
        have hb' : b = ⟨b.symbol, ds'.length⟩ := by rw [hds']
        rw [hb'] at hlt
        exact ih b.symbol ds' (by omega)
      · have hb' : (⟨b.symbol, ds'.length⟩ : Pred) ∉ priv := by rw [hds']; exact hbp
        rw [privIter_nonpriv P priv fc T0 (n + 1) _ _ hb', privIter_nonpriv P priv fc T0 n _ _ hb']
    · rw [privIter_nonpriv P priv fc T0 (n + 2) _ _ hin, privIter_nonpriv P priv fc T0 (n + 1) _ _ hin]

/-- **Existence of the private extents.** Without private recursion, for any extents `T0` of the
    non-private predicates there is an interpretation that agrees with `T0` on them and satisfies the
    (reference form of the) completed definition of every private predicate. -/
theorem private_extents_exist (P : Program) (priv : List Pred) (hrec : hasPrivateRecursion P priv = false)
    (T0 : PredI) (fc : FcI) :
    ∃ T : PredI,
      (∀ (q : String) (ds : List Dom), (⟨q, ds.length⟩ : Pred) ∉ priv → (T q ds ↔ T0 q ds)) ∧
      ∀ q ∈ priv, DefHolds P T fc q.symbol q.arity := by
  let L := (P.preds.filter (· ∈ priv)).length
  refine ⟨privIter P priv fc T0 (L + 1), fun q ds h => privIter_nonpriv P priv fc T0 _ q ds h, ?_⟩
  intro q hq
  rw [defHolds_iff_supportedBy]
  intro ds hds
  have hin : (⟨q.symbol, ds.length⟩ : Pred) ∈ priv := by rw [hds]; exact hq
  have hstab := privIter_stable P priv hrec fc T0 (L + 1) q.symbol ds
    (Nat.lt_succ_of_le (rank_le _ _ _))
  rw [← hstab]
  exact privIter_priv P priv fc T0 (L + 1) q.symbol ds hin

end Anthem
