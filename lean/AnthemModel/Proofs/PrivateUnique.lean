/-
  C02/C11: without private recursion, the completed definitions of the private predicates determine
  their extents from the extents of the other predicates.
-/
import AnthemModel.Proofs.CompletionSem
import AnthemModel.Proofs.ExternalSem
namespace Anthem
open Asp C11

/-- a body atom reads an interpretation only at its own predicate -/
theorem bodyAtomSat_congr_preds (T1 T2 : PredI) (fc : FcI) (w : World) (σ : Subst) (f : BodyAtom)
    (h : ∀ q ∈ f.preds, ∀ ds : List Dom, ds.length = q.arity → (T1 q.symbol ds ↔ T2 q.symbol ds)) :
    bodyAtomSat ⟨T1, T1, fc⟩ w σ f ↔ bodyAtomSat ⟨T2, T2, fc⟩ w σ f := by
  cases f with
  | cmp rel l r => exact Iff.rfl
  | lit l =>
    obtain ⟨s, a⟩ := l
    rw [bodyAtomSat_lit, bodyAtomSat_lit]
    refine exists_congr fun ds => and_congr_right fun hv => ?_
    have hq := h a.predicate (by simp [BodyAtom.preds]) ds (by simp [Asp.Atom.predicate, valsList_length hv])
    simp only [Asp.Atom.predicate] at hq
    cases s <;> cases w <;> simp only [signSem, HTI.at, hq]

theorem bodySat_congr_preds (T1 T2 : PredI) (fc : FcI) (w : World) (σ : Subst) (b : List BodyAtom)
    (h : ∀ q ∈ bodyPreds b, ∀ ds : List Dom, ds.length = q.arity → (T1 q.symbol ds ↔ T2 q.symbol ds)) :
    bodySat ⟨T1, T1, fc⟩ w σ b ↔ bodySat ⟨T2, T2, fc⟩ w σ b := by
  unfold bodySat
  exact forall_congr' fun f => imp_congr_right fun hf =>
    bodyAtomSat_congr_preds T1 T2 fc w σ f fun q hq => h q (mem_bodyPreds.mpr ⟨f, hf, hq⟩)

theorem privateEdges_mem {p : Program} {priv : List Pred} {a b : Pred} (h : (a, b) ∈ privateEdges p priv) :
    ∃ r ∈ p, r.head.predicate = some a ∧ a ∈ priv ∧ b ∈ bodyPreds r.body ∧ b ∈ priv := by
  unfold privateEdges at h
  simp only [List.mem_flatMap] at h
  obtain ⟨r, hr, he⟩ := h
  cases hh : r.head.predicate with
  | none => simp [hh] at he
  | some hp =>
    simp only [hh] at he
    split at he
    · rename_i hin
      simp only [List.mem_map, List.mem_filter, decide_eq_true_eq, Prod.mk.injEq] at he
      obtain ⟨q, ⟨hq, hqp⟩, rfl, rfl⟩ := he
      exact ⟨r, hr, hh, hin, hq, hqp⟩
    · cases he

theorem privateEdges_of (p : Program) (priv : List Pred) (r : Rule) (hr : r ∈ p) (a b : Pred)
    (hh : r.head.predicate = some a) (ha : a ∈ priv) (hb : b ∈ bodyPreds r.body) (hbp : b ∈ priv) :
    (a, b) ∈ privateEdges p priv := by
  unfold privateEdges
  simp only [List.mem_flatMap]
  refine ⟨r, hr, ?_⟩
  rw [hh]
  simp only [ha, if_true, List.mem_map, List.mem_filter, decide_eq_true_eq, Prod.mk.injEq, true_and, exists_eq_right]
  exact ⟨hb, hbp⟩

/-- what "no private recursion" gives -/
theorem noPrivateRecursion (p : Program) (priv : List Pred) (h : hasPrivateRecursion p priv = false) :
    (∀ r ∈ p, ∀ a, r.head = .choice a → a.predicate ∉ priv) ∧ ∀ v, ¬ Path (privateEdges p priv) v v := by
  unfold hasPrivateRecursion at h
  simp only [Bool.or_eq_false_iff] at h
  obtain ⟨h1, h2⟩ := h
  refine ⟨?_, ?_⟩
  · intro r hr a hh hin
    have := List.any_eq_false.mp h1 r hr
    simp only [hh] at this
    exact this (by simpa using hin)
  · have htgt : ∀ e ∈ privateEdges p priv, e.2 ∈ p.preds.filter (· ∈ priv) := by
      intro ⟨a, b⟩ he
      obtain ⟨r, hr, _, _, hb, hbp⟩ := privateEdges_mem he
      simp only [List.mem_filter, decide_eq_true_eq]
      refine ⟨mem_program_preds.mpr ⟨r, hr, ?_⟩, hbp⟩
      unfold Rule.preds; rw [mem_ext]; exact Or.inr hb
    intro v hp
    have hsrc : v ∈ p.preds.filter (· ∈ priv) := by
      have hlast : ∀ {x y : Pred}, Path (privateEdges p priv) x y → ∃ c, (c, y) ∈ privateEdges p priv := by
        intro x y hxy
        induction hxy with
        | step he => exact ⟨_, he⟩
        | cons _ _ ih => exact ih
      obtain ⟨c, hc⟩ := hlast hp
      exact htgt _ hc
    have := isCyclic_complete _ _ htgt ⟨v, hsrc, hp⟩
    rw [h2] at this; cases this

/-- **Uniqueness of the private extents.** Two interpretations that agree on every non-private
    predicate and both satisfy the (reference form of the) completed definitions of the private
    predicates agree on the private predicates as well. -/
theorem private_extents_unique (P : Program) (priv : List Pred) (hrec : hasPrivateRecursion P priv = false)
    (T1 T2 : PredI) (fc : FcI)
    (hagree : ∀ (q : String) (ds : List Dom), (⟨q, ds.length⟩ : Pred) ∉ priv → (T1 q ds ↔ T2 q ds))
    (h1 : ∀ q ∈ priv, DefHolds P T1 fc q.symbol q.arity) (h2 : ∀ q ∈ priv, DefHolds P T2 fc q.symbol q.arity) :
    ∀ (q : String) (ds : List Dom), (T1 q ds ↔ T2 q ds) := by
  obtain ⟨hnochoice, hac⟩ := noPrivateRecursion P priv hrec
  have htgt : ∀ e ∈ privateEdges P priv, e.2 ∈ P.preds.filter (· ∈ priv) := by
    intro ⟨a, b⟩ he
    obtain ⟨r, hr, _, _, hb, hbp⟩ := privateEdges_mem he
    simp only [List.mem_filter, decide_eq_true_eq]
    refine ⟨mem_program_preds.mpr ⟨r, hr, ?_⟩, hbp⟩
    unfold Rule.preds; rw [mem_ext]; exact Or.inr hb
  suffices hs : ∀ (n : Nat) (q : String) (ds : List Dom),
      rank (P.preds.filter (· ∈ priv)) (privateEdges P priv) ⟨q, ds.length⟩ = n → (T1 q ds ↔ T2 q ds) from
    fun q ds => hs _ q ds rfl
  intro n
  induction n using Nat.strongRecOn with
  | _ n ih =>
    intro q ds hn
    by_cases hin : (⟨q, ds.length⟩ : Pred) ∈ priv
    · have d1 := h1 _ hin ds rfl
      have d2 := h2 _ hin ds rfl
      simp only at d1 d2
      rw [d1, d2]
      refine exists_congr fun r => and_congr_right fun hr => exists_congr fun a => exists_congr fun ch =>
        and_congr_right fun hh => and_congr_right fun hpa => and_congr_right fun hla =>
        exists_congr fun σ => and_congr_right fun hv => ?_
      -- private heads are never choice heads
      have hch : ch = false := by
        rcases hh with ⟨_, rfl⟩ | ⟨hh, rfl⟩
        · rfl
        · exfalso
          apply hnochoice r hr a hh
          have : a.predicate = ⟨q, ds.length⟩ := by simp [Asp.Atom.predicate, hpa, hla]
          rw [this]; exact hin
      subst hch
      simp only [Bool.false_eq_true, false_imp_iff, and_true]
      refine bodySat_congr_preds T1 T2 fc .there σ r.body ?_
      intro b hb ds' hds'
      by_cases hbp : b ∈ priv
      · have hedge := privateEdges_of P priv r hr ⟨q, ds.length⟩ b
          (by rw [headOf_predicate hh]; simp [Asp.Atom.predicate, hpa, hla]) hin hb hbp
        have hlt := rank_lt _ _ htgt hac (Path.step hedge)
        have : b = ⟨b.symbol, ds'.length⟩ := by rw [hds']
        rw [this] at hlt
        exact ih _ (by omega) b.symbol ds' rfl
      · exact hagree b.symbol ds' (by rw [hds']; exact hbp)
    · exact hagree q ds hin

/-! ## every non-input predicate of the program has a completed definition -/

theorem headPredicate_completeDefinition (A : Anthem.Atom) (fs : List Formula) :
    headPredicate (completeDefinition A fs) = some A.predicate := by
  unfold completeDefinition Formula.quantify
  simp only
  split <;> rfl

/-- **Each non-input predicate of the program has a completed definition** in `completion(tau_star(Π))`,
    recognisable by its head predicate, and it means the reference form `DefHolds`. -/
theorem completion_has_def (P : Program) (ins : List Pred) (hp : globalsPanic P = false) (Γ : Theory)
    (hΓ : completion (tauStar P) ins = some Γ) (q : Pred) (hq : q ∈ P.preds) (hqi : q ∉ ins) :
    ∃ F ∈ Γ, headPredicate F = some q ∧
      ∀ (T : PredI) (fc : FcI) (ρ : Asg), sat ⟨T, fc⟩ F ρ ↔ DefHolds P T fc q.symbol q.arity := by
  obtain ⟨hn, hfresh, hglen⟩ := chooseFreshGlobals_spec P hp
  have hcomp := components_tauStar P hp
  obtain ⟨hspec, hcons⟩ := collect_spec (P.map fun r => ruleComponent r (chooseFreshGlobals P)) ([], [])
    (fun _ _ => False) ⟨List.nodup_nil, by simp⟩
  simp only [false_or, List.not_mem_nil] at hspec hcons
  have hne := collect_nonempty (P.map fun r => ruleComponent r (chooseFreshGlobals P)) ([], []) (by simp)
  have hla : ∀ r ∈ P, ∀ a ch, HeadOf r a ch → a.args.length ≤ (chooseFreshGlobals P).length := by
    intro r hr a ch hh
    rw [hglen, ← headOf_arity hh]; exact arity_le_maxHeadArity P r hr
  have hentry : ∀ e ∈ (collect (P.map fun r => ruleComponent r (chooseFreshGlobals P)) ([], [])).1,
      ∃ r ∈ P, ∃ a ch, HeadOf r a ch ∧ e.1 = tauHeadAtom a (chooseFreshGlobals P) := by
    intro e he
    obtain ⟨f, hf⟩ := List.exists_mem_of_ne_nil _ (hne e he)
    obtain ⟨r, hr, a, ch, hh, _, hA⟩ := (mem_comps_partialDef P _ f e.1).mp ((hspec.2 e.1 f).mp ⟨e.2, he, hf⟩)
    exact ⟨r, hr, a, ch, hh, hA⟩
  have hkeys : ∀ e ∈ (collect (P.map fun r => ruleComponent r (chooseFreshGlobals P)) ([], [])).1,
      ∀ e' ∈ (collect (P.map fun r => ruleComponent r (chooseFreshGlobals P)) ([], [])).1,
      e.1.predicate = e'.1.predicate → e.1 = e'.1 := by
    intro e he e' he' hpe
    obtain ⟨r, hr, a, ch, hh, hA⟩ := hentry e he
    obtain ⟨r', hr', a', ch', hh', hA'⟩ := hentry e' he'
    rw [hA, hA'] at hpe ⊢
    rw [tauHeadAtom_predicate a _ (hla r hr a ch hh), tauHeadAtom_predicate a' _ (hla r' hr' a' ch' hh')] at hpe
    simp only [Asp.Atom.predicate, Pred.mk.injEq] at hpe
    exact (tauHeadAtom_eq (hla r hr a ch hh) (hla r' hr' a' ch' hh')).mpr hpe
  obtain ⟨Γ', hΓ', hmem⟩ := completion_formulas (tauStar P) ins _ _ hcomp hkeys
  rw [hΓ] at hΓ'
  injection hΓ' with hΓ'
  subst hΓ'
  by_cases hex : ∃ e ∈ (collect (P.map fun r => ruleComponent r (chooseFreshGlobals P)) ([], [])).1, e.1.predicate = q
  · obtain ⟨e, he, hpe⟩ := hex
    obtain ⟨r, hr, a, ch, hh, hA⟩ := hentry e he
    refine ⟨completeDefinition e.1 e.2, (hmem _).mpr (Or.inr (Or.inl ⟨e, he, by rw [hpe]; exact hqi, rfl⟩)),
      by rw [headPredicate_completeDefinition, hpe], fun T fc ρ => ?_⟩
    have hqa : q = a.predicate := by rw [← hpe, hA, tauHeadAtom_predicate a _ (hla r hr a ch hh)]
    rw [hqa]
    exact entry_sem P hp T fc ρ e.1 e.2 (by rw [show e = (e.1, e.2) from rfl] at he; exact he) a (hla r hr a ch hh) hA
  · have hno : ∀ e ∈ (collect (P.map fun r => ruleComponent r (chooseFreshGlobals P)) ([], [])).1,
        e.1.predicate ≠ q := fun e he hpe => hex ⟨e, he, hpe⟩
    refine ⟨completeDefinition (atomFromPred q) [], (hmem _).mpr (Or.inr (Or.inr ⟨q, tauStar_preds P hp q hq, hqi, hno, rfl⟩)),
      by rw [headPredicate_completeDefinition, atomFromPred_predicate], fun T fc ρ => ?_⟩
    rw [emptyDefinition_sem]
    unfold DefHolds
    refine forall_congr' fun ds => imp_congr_right fun hds => ?_
    constructor
    · intro hnT
      refine ⟨fun hT => absurd hT hnT, ?_⟩
      rintro ⟨r, hr, a, ch, hh, hpa, hla', _⟩
      exfalso
      obtain ⟨fs, hfs, _⟩ := (hspec.2 _ _).mpr ((mem_comps_partialDef P _ _ _).mpr ⟨r, hr, a, ch, hh, rfl, rfl⟩)
      refine hno _ hfs ?_
      rw [tauHeadAtom_predicate a _ (hla r hr a ch hh)]
      obtain ⟨qs, qn⟩ := q
      simp only [Asp.Atom.predicate, Pred.mk.injEq]
      exact ⟨hpa, hla'⟩
    · intro h hT
      obtain ⟨r, hr, a, ch, hh, hpa, hla', _⟩ := h.mp hT
      obtain ⟨fs, hfs, _⟩ := (hspec.2 _ _).mpr ((mem_comps_partialDef P _ _ _).mpr ⟨r, hr, a, ch, hh, rfl, rfl⟩)
      refine hno _ hfs ?_
      rw [tauHeadAtom_predicate a _ (hla r hr a ch hh)]
      obtain ⟨qs, qn⟩ := q
      simp only [Asp.Atom.predicate, Pred.mk.injEq]
      exact ⟨hpa, hla'⟩

/-- a stable model lives on the program's signature (plus the inputs) -/
theorem stable_sig (P : Program) (ins : List Pred) (T : PredI) (fc : FcI) (h : Stable P ins T fc) :
    ∀ q ds, T q ds → (⟨q, ds.length⟩ : Pred) ∈ ext P.preds ins := by
  intro q ds hT
  rw [mem_ext]
  by_cases hin : (⟨q, ds.length⟩ : Pred) ∈ ins
  · exact Or.inr hin
  · left
    obtain ⟨r, hr, a, hh, hpa, σ, hv, _⟩ := (stable_supported P ins T fc h).2 q ds hT hin
    refine mem_program_preds.mpr ⟨r, hr, ?_⟩
    unfold Rule.preds
    rw [mem_ext]
    left
    have : r.head.predicate = some ⟨q, ds.length⟩ := by
      rcases hh with hh | hh <;> rw [hh] <;> simp [Head.predicate, Asp.Atom.predicate, hpa, valsList_length hv]
    rw [this]; simp

/-- **"Cannot produce the public part".** For a tight program without private recursion and an
    interpretation (on the program's signature) that satisfies the completed definitions of the
    private predicates: it is a stable model iff *some* stable model has the same extents of the
    non-private predicates. -/
theorem stable_iff_some_stable_same_public (P : Program) (ins priv : List Pred) (htight : isTight P = true)
    (hp : globalsPanic P = false) (hins : ∀ q ∈ ins, q ∉ P.headPreds)
    (hrec : hasPrivateRecursion P priv = false) (hprivsub : ∀ q ∈ priv, q ∈ P.preds ∧ q ∉ ins)
    (Γ : Theory) (hΓ : completion (tauStar P) ins = some Γ) (T : PredI) (fc : FcI) (ρ : Asg)
    (hpriv : ∀ F ∈ Γ, (∃ q ∈ priv, headPredicate F = some q) → sat ⟨T, fc⟩ F ρ) :
    Stable P ins T fc ↔
      ∃ T' : PredI, Stable P ins T' fc ∧ ∀ (q : String) (ds : List Dom), (⟨q, ds.length⟩ : Pred) ∉ priv → (T' q ds ↔ T q ds) := by
  constructor
  · intro h; exact ⟨T, h, fun _ _ _ => Iff.rfl⟩
  · rintro ⟨T', hst, hag⟩
    obtain ⟨Γ', h1, h2⟩ := completion_tight P ins htight hp hins
    rw [hΓ] at h1
    injection h1 with h1
    subst h1
    have hT'Γ := (h2 T' fc ρ (stable_sig P ins T' fc hst)).mpr hst
    have hdef' : ∀ q ∈ priv, DefHolds P T' fc q.symbol q.arity := by
      intro q hq
      obtain ⟨F, hF, _, hsem⟩ := completion_has_def P ins hp Γ hΓ q (hprivsub q hq).1 (hprivsub q hq).2
      exact (hsem T' fc ρ).mp (hT'Γ F hF)
    have hdef : ∀ q ∈ priv, DefHolds P T fc q.symbol q.arity := by
      intro q hq
      obtain ⟨F, hF, hhead, hsem⟩ := completion_has_def P ins hp Γ hΓ q (hprivsub q hq).1 (hprivsub q hq).2
      exact (hsem T fc ρ).mp (hpriv F hF ⟨q, hq, hhead⟩)
    have heq := private_extents_unique P priv hrec T' T fc hag hdef' hdef
    have : T' = T := funext fun q => funext fun ds => propext (heq q ds)
    rw [← this]; exact hst

/-! ## the private definitions are the assumptions of `control_translate` -/

theorem controlTranslate_assumption (pub : List Pred) : ∀ (th : Theory) (init : Specification × Nat),
    (∀ f ∈ th, ∀ p, headPredicate f = some p → p ∉ pub →
      ∃ a ∈ (th.foldl (controlStep pub) init).1, a.formula = f ∧ a.role = .assumption) := by
  intro th
  induction th with
  | nil => intro init f hf; cases hf
  | cons g th ih =>
    intro init f hf p hp hnp
    simp only [List.foldl_cons]
    rcases List.mem_cons.mp hf with rfl | hf
    · refine ⟨⟨.assumption, .universal, "completed_definition_of_" ++ p.symbol ++ "_" ++ toString p.arity, f⟩,
        controlStep_mono pub th _ _ ?_, rfl, rfl⟩
      unfold controlStep
      simp only [hp, hnp, if_false]
      simp
    · exact ih _ f hf p hp hnp

/-- with simplification off, an interpretation that satisfies the assumptions of the program side
    satisfies the completed definition of every private predicate of the program -/
theorem rightSide_private_defs (t : ExternalTask) (fuel : Nat) (ΓR : Theory) (hsimp : t.simplify = false)
    (hR : theoryTranslate t [] fuel t.program = .ok ΓR) (J : Interp) (ρ : Asg)
    (hpriv : ∀ a ∈ rightSide t ΓR, a.role = .assumption → sat J a.formula ρ) :
    ∃ Γ, completion (tauStar t.program) t.userGuide.inputs = some Γ ∧
    ∀ F ∈ Γ, (∃ q ∈ t.progPrivate, headPredicate F = some q) →
      sat ⟨restrictTo (ext t.program.preds t.userGuide.inputs)
        (renamedInterp t.clashMap J.pred), J.fc⟩ F ρ := by
  -- without simplification the translated theory is the completion itself, followed by the empty
  -- definitions of the output predicates the program does not mention
  have hΓ : ∃ Γ, completion (tauStar t.program) t.userGuide.inputs = some Γ ∧
      ΓR = Γ ++ (missingOutputs t t.program).map fun q => completeDefinition (atomFromPred q) [] := by
    unfold theoryTranslate at hR
    split at hR
    · cases hR
    · have hmap : (tauStar t.program).map (Formula.replacePlaceholders []) = tauStar t.program := by
        conv => rhs; rw [← List.map_id (tauStar t.program)]
        exact List.map_congr_left fun F _ => replacePlaceholders_nil F
      simp only [hmap, hsimp, Bool.false_eq_true, if_false] at hR
      cases hc : completion (tauStar t.program) t.userGuide.inputs with
      | none => simp [hc] at hR
      | some Γ => simp only [hc] at hR; injection hR with hR; exact ⟨Γ, rfl, hR.symm⟩
  obtain ⟨Γ, hΓ, hΓR⟩ := hΓ
  refine ⟨Γ, hΓ, ?_⟩
  have hp : globalsPanic t.program = false := (theoryTranslate_ok t fuel t.program ΓR hR).1
  intro F hF ⟨q, hq, hhead⟩
  have hFR : F ∈ ΓR := by rw [hΓR]; exact List.mem_append.mpr (Or.inl hF)
  have hqpub : q ∉ t.userGuide.publicPreds := by
    unfold ExternalTask.progPrivate at hq
    simp only [List.mem_filter, decide_eq_true_eq] at hq
    exact hq.2
  obtain ⟨a, ha, hfa, hrole⟩ := controlTranslate_assumption t.userGuide.publicPreds ΓR ([], 0) F hFR q hhead hqpub
  have := hpriv { a with formula := a.formula.renamePreds t.clashMap }
    (List.mem_map.mpr ⟨a, ha, rfl⟩) hrole
  simp only [hfa] at this
  rw [sat_restrict J.fc _ _ F ρ fun q' hq' => mem_ext.mpr (Or.inl (completion_preds t.program _ hp Γ hΓ F hF q' hq'))]
  exact (sat_renamePreds _ J.pred J.fc F ρ).mp this

end Anthem
