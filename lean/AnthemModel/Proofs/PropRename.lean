/-
  `rename_conflicting_symbols` after the repair of the symbol-order defect: a propositional predicate
  whose name is also a symbolic constant of the problem is renamed to a free name, symbolic constants
  keep their names. The renamed problem is refuted by `J` exactly when the original problem is refuted
  by `J` read through the renaming; the new names are free and pairwise different; and the C03 statement
  holds without the hypothesis that no name clashes.
-/
import Std.Data.String.ToNat
import AnthemModel.Proofs.StrongSem
namespace Anthem
open Asp

/-! ## reading an interpretation through the renaming -/

/-- the renamed propositional predicates are read at their new names -/
def propReading (m : List (String × String)) (T : PredI) : PredI :=
  fun q a => if a.isEmpty then
      match m.find? (fun e => e.1 = q) with
      | some e => T e.2 []
      | none => T q a
    else T q a

theorem sat_renameProps (m : List (String × String)) (T : PredI) (fc : FcI) : ∀ (F : Formula) (ρ : Asg),
    sat ⟨T, fc⟩ (F.renameProps m) ρ ↔ sat ⟨propReading m T, fc⟩ F ρ := by
  intro F
  induction F with
  | atomic a =>
    intro ρ
    cases a with
    | tru | fls | cmp _ _ => exact Iff.rfl
    | atom a =>
      simp only [Formula.renameProps, renameProp, sat, AtomicF.sat, propReading]
      by_cases he : a.args.isEmpty = true
      · have hnil : a.args = [] := List.isEmpty_iff.mp he
        simp only [if_true, hnil, List.map_nil, List.isEmpty_nil]
        cases m.find? (fun e => e.1 = a.pred) with
        | none => simp [hnil]
        | some e => exact Iff.rfl
      · have he' : (a.args.map (GTerm.eval fc ρ)).isEmpty = false := by
          cases hargs : a.args with
          | nil => simp [hargs] at he
          | cons x xs => rfl
        simp only [he, he', Bool.false_eq_true, if_false]
  | not f ih => intro ρ; simp only [Formula.renameProps, sat, ih]
  | bin c l r ihl ihr => intro ρ; cases c <;> simp only [Formula.renameProps, sat, ihl, ihr]
  | quant q vs f ih =>
    intro ρ
    cases q
    · simp only [Formula.renameProps, sat]; exact bindAll_congr (fun τ => ih τ) ρ
    · simp only [Formula.renameProps, sat]; exact bindEx_congr (fun τ => ih τ) ρ

/-! ## the new names are free -/

theorem propName_inj (s : String) {i j : Nat} (h : propName s i = propName s j) : i = j := by
  unfold propName at h
  have hne : ∀ n : Nat, s ++ "_p" ≠ s ++ "_p" ++ toString n := by
    intro n hn
    have h1 : s ++ "_p" ++ "" = s ++ "_p" ++ toString n := by simpa using hn
    exact Nat.repr_ne_empty ((String.append_right_inj _).mp h1).symm
  by_cases hi : i = 0 <;> by_cases hj : j = 0
  · omega
  · simp only [hi, hj, if_true, if_false] at h; exact absurd h (hne j)
  · simp only [hi, hj, if_true, if_false] at h; exact absurd h.symm (hne i)
  · simp only [hi, hj, if_false] at h
    exact Nat.repr_injective ((String.append_right_inj _).mp h)

theorem findPropName_spec (occ : List String) (s : String) :
    ∀ (fuel i : Nat), (∃ j, i ≤ j ∧ j < i + fuel ∧ propName s j ∉ occ) →
      propName s (findPropName occ s fuel i) ∉ occ := by
  intro fuel
  induction fuel with
  | zero => intro i ⟨j, h1, h2, _⟩; omega
  | succ fuel ih =>
    intro i ⟨j, h1, h2, h3⟩
    simp only [findPropName]
    split
    · rename_i hmem
      have hne : j ≠ i := fun e => h3 (e ▸ hmem)
      exact ih (i + 1) ⟨j, by omega, by omega, h3⟩
    · rename_i hmem
      exact hmem

theorem exists_free_propName (occ : List String) (s : String) :
    ∃ j, 0 ≤ j ∧ j < 0 + (occ.length + 1) ∧ propName s j ∉ occ := by
  by_cases h : ∃ j, 0 ≤ j ∧ j < 0 + (occ.length + 1) ∧ propName s j ∉ occ
  · exact h
  · exfalso
    have hall : ∀ j, j < occ.length + 1 → propName s j ∈ occ := by
      intro j h2
      exact Classical.not_not.mp fun hn => h ⟨j, Nat.zero_le _, by omega, hn⟩
    let L := (List.range (occ.length + 1)).map (propName s)
    have hnd : L.Nodup := by
      have hr : (List.range (occ.length + 1)).Nodup := List.nodup_range
      exact List.Pairwise.map _ (fun a b hab hc => hab (propName_inj s hc)) hr
    have hsub : L ⊆ occ := by
      intro x hx
      simp only [L, List.mem_map, List.mem_range] at hx
      obtain ⟨j, h1, rfl⟩ := hx
      exact hall j h1
    have := hnd.length_le_of_subset hsub
    simp [L] at this
    omega

/-- invariant of the fold: the occupied names only grow, every new name is occupied afterwards, was
    not occupied at the start, and the new names are pairwise different -/
structure PropInv (occ0 : List String) (acc : List String × List (String × String)) : Prop where
  grows : ∀ q ∈ occ0, q ∈ acc.1
  occupied : ∀ x ∈ acc.2, x.2 ∈ acc.1
  fresh : ∀ x ∈ acc.2, x.2 ∉ occ0
  distinct : acc.2.Pairwise fun x y => x.2 ≠ y.2

theorem propRenameStep_inv (occ0 : List String) (acc : List String × List (String × String)) (s : String)
    (h : PropInv occ0 acc) : PropInv occ0 (propRenameStep acc s) := by
  have hfree := findPropName_spec acc.1 s _ 0 (exists_free_propName acc.1 s)
  refine ⟨?_, ?_, ?_, ?_⟩
  · intro q hq
    simp only [propRenameStep, List.mem_append]
    exact Or.inl (h.grows q hq)
  · intro x hx
    simp only [propRenameStep, List.mem_append, List.mem_singleton] at hx ⊢
    rcases hx with hx | rfl
    · exact Or.inl (h.occupied x hx)
    · exact Or.inr rfl
  · intro x hx
    simp only [propRenameStep, List.mem_append, List.mem_singleton] at hx
    rcases hx with hx | rfl
    · exact h.fresh x hx
    · exact fun hin => hfree (h.grows _ hin)
  · simp only [propRenameStep]
    rw [List.pairwise_append]
    refine ⟨h.distinct, List.pairwise_singleton _ _, ?_⟩
    intro x hx y hy
    simp only [List.mem_singleton] at hy
    subst hy
    intro heq
    have hocc := h.occupied x hx
    simp only at heq
    rw [heq] at hocc
    exact hfree hocc

theorem propFold_inv (occ0 : List String) (ss : List String) :
    ∀ acc, PropInv occ0 acc → PropInv occ0 (ss.foldl propRenameStep acc) := by
  induction ss with
  | nil => intro acc h; exact h
  | cons s ss ih => intro acc h; exact ih _ (propRenameStep_inv occ0 acc s h)

/-- **the names chosen for clashing propositional predicates are free** (no symbolic constant, predicate
    symbol or placeholder of the problem) **and pairwise different** -/
theorem propRenaming_fresh (p : Problem) :
    (∀ x ∈ p.propRenaming, x.2 ∉ p.occupiedNames) ∧
    p.propRenaming.Pairwise fun x y => x.2 ≠ y.2 := by
  have h := propFold_inv p.occupiedNames
    ((p.preds.filter fun q => q.arity = 0 && q.symbol ∈ p.symbols).map (·.symbol)) (p.occupiedNames, [])
    ⟨fun _ h => h, fun _ h => absurd h List.not_mem_nil, fun _ h => absurd h List.not_mem_nil, List.Pairwise.nil⟩
  exact ⟨h.fresh, h.distinct⟩

/-! ## one direction of a strong-equivalence task, with the renaming -/

theorem renameConflicting_role_forall (p : Problem) (role' : PRole) (Q : Formula → Prop) :
    (∀ a ∈ p.renameConflictingSymbols.formulas, a.role = role' → Q a.formula) ↔
      (∀ a ∈ p.formulas, a.role = role' → Q (a.formula.renameProps p.propRenaming)) := by
  unfold Problem.renameConflictingSymbols
  simp only [List.mem_map]
  constructor
  · intro h a ha hr
    exact h _ ⟨a, ha, rfl⟩ hr
  · rintro h a' ⟨a, ha, rfl⟩ hr
    exact h a ha hr

theorem direction0_role_forall (name : String) (tr ax cj : Theory) (axPre cjPre : String) (Q : Formula → Prop) :
    ((∀ a ∈ (directionProblem0 name tr ax cj axPre cjPre).formulas, a.role = .axiom → Q a.formula) ↔
      ((∀ F ∈ tr, Q F) ∧ ∀ F ∈ ax, Q F)) ∧
    ((∀ a ∈ (directionProblem0 name tr ax cj axPre cjPre).formulas, a.role = .conjecture → Q a.formula) ↔
      ∀ F ∈ cj, Q F) := by
  simp only [directionProblem0, addTheory_role_forall]
  constructor
  · simp
  · simp

/-- refutation of the decomposed family of one direction: the premises and the conclusions are read
    through the renaming of the direction's problem -/
theorem direction_refutes_renamed (J : Interp) (ρ : Asg) (name : String) (tr ax cj : Theory) (axPre cjPre : String)
    (d : Decomposition) :
    (∃ P ∈ (directionProblem name tr ax cj axPre cjPre).decompose d, Refutes J ρ P) ↔
      (∀ F ∈ tr, sat ⟨propReading (directionProblem0 name tr ax cj axPre cjPre).propRenaming J.pred, J.fc⟩ F ρ) ∧
      (∀ F ∈ ax, sat ⟨propReading (directionProblem0 name tr ax cj axPre cjPre).propRenaming J.pred, J.fc⟩ F ρ) ∧
      ¬ ∀ G ∈ cj, sat ⟨propReading (directionProblem0 name tr ax cj axPre cjPre).propRenaming J.pred, J.fc⟩ G ρ := by
  have key : (∃ P ∈ (directionProblem name tr ax cj axPre cjPre).decompose d, Refutes J ρ P) ↔
      (∀ a ∈ (directionProblem name tr ax cj axPre cjPre).axioms, sat J a.formula ρ) ∧
      ∃ c ∈ (directionProblem name tr ax cj axPre cjPre).conjectures, ¬ sat J c.formula ρ := by
    cases d
    · exact C19.independent_refutes J ρ _
    · exact C19.sequential_refutes J ρ _
  rw [key]
  have hread : ∀ F, sat J (F.renameProps (directionProblem0 name tr ax cj axPre cjPre).propRenaming) ρ ↔
      sat ⟨propReading (directionProblem0 name tr ax cj axPre cjPre).propRenaming J.pred, J.fc⟩ F ρ :=
    fun F => sat_renameProps _ J.pred J.fc F ρ
  have h1 : (∀ a ∈ (directionProblem name tr ax cj axPre cjPre).formulas, a.role = .axiom → sat J a.formula ρ) ↔
      ((∀ F ∈ tr, sat ⟨propReading (directionProblem0 name tr ax cj axPre cjPre).propRenaming J.pred, J.fc⟩ F ρ) ∧
        ∀ F ∈ ax, sat ⟨propReading (directionProblem0 name tr ax cj axPre cjPre).propRenaming J.pred, J.fc⟩ F ρ) := by
    rw [directionProblem_eq, uniqueNames_role_forall _ .axiom (fun F => sat J F ρ),
      renameConflicting_role_forall _ .axiom (fun F => sat J F ρ)]
    refine (direction0_role_forall name tr ax cj axPre cjPre
      (fun F => sat J (F.renameProps (directionProblem0 name tr ax cj axPre cjPre).propRenaming) ρ)).1.trans ?_
    simp only [hread]
  have h2 : (∀ a ∈ (directionProblem name tr ax cj axPre cjPre).formulas, a.role = .conjecture → sat J a.formula ρ) ↔
      ∀ F ∈ cj, sat ⟨propReading (directionProblem0 name tr ax cj axPre cjPre).propRenaming J.pred, J.fc⟩ F ρ := by
    rw [directionProblem_eq, uniqueNames_role_forall _ .conjecture (fun F => sat J F ρ),
      renameConflicting_role_forall _ .conjecture (fun F => sat J F ρ)]
    refine (direction0_role_forall name tr ax cj axPre cjPre
      (fun F => sat J (F.renameProps (directionProblem0 name tr ax cj axPre cjPre).propRenaming) ρ)).2.trans ?_
    simp only [hread]
  have hax : (∀ a ∈ (directionProblem name tr ax cj axPre cjPre).axioms, sat J a.formula ρ) ↔
      ((∀ F ∈ tr, sat ⟨propReading (directionProblem0 name tr ax cj axPre cjPre).propRenaming J.pred, J.fc⟩ F ρ) ∧
        ∀ F ∈ ax, sat ⟨propReading (directionProblem0 name tr ax cj axPre cjPre).propRenaming J.pred, J.fc⟩ F ρ) := by
    rw [← h1]
    simp only [Problem.axioms, List.mem_filter, decide_eq_true_eq, and_imp]
  have hcj : (∃ c ∈ (directionProblem name tr ax cj axPre cjPre).conjectures, ¬ sat J c.formula ρ) ↔
      ¬ ∀ G ∈ cj, sat ⟨propReading (directionProblem0 name tr ax cj axPre cjPre).propRenaming J.pred, J.fc⟩ G ρ := by
    rw [← h2]
    simp only [Problem.conjectures, List.mem_filter, decide_eq_true_eq]
    constructor
    · rintro ⟨c, ⟨hc, hr⟩, hn⟩ hall; exact hn (hall c hc hr)
    · intro hn
      refine Classical.byContradiction fun hne => hn fun a ha hr => ?_
      exact Classical.byContradiction fun hs => hne ⟨a, ⟨ha, hr⟩, hs⟩
  rw [hax, hcj, and_assoc]

/-- **C03 without the hypothesis that no name clashes** (both representations, all flags). For the two
    processed theories `l`, `r` of the task: some emitted problem is refuted by the classical
    interpretation `J` iff, in a requested direction, the here-and-there interpretation that `J` - read
    through the renaming of that direction's problem - merges has `H ⊆ T` on the programs' predicates and
    satisfies one program but not the other. Without a clash the renaming is empty and the reading is `J`
    itself (`strong_refutes`). -/
theorem strong_refutes_renamed (t : StrongTask) (fuel : Nat) (ps : List Problem)
    (h : strongProblems t fuel = some ps)
    (hpl : globalsPanic t.left = false) (hpr : globalsPanic t.right = false) :
    ∃ l r, processTheory t fuel t.left = some l ∧ processTheory t fuel t.right = some r ∧
      ∀ (J : Interp) (MF MB : HTI),
        C05.Merges ⟨propReading (directionProblem0 "forward" (transitionAxioms t) l r "left_" "right_").propRenaming
          J.pred, J.fc⟩ MF →
        C05.Merges ⟨propReading (directionProblem0 "backward" (transitionAxioms t) r l "right_" "left_").propRenaming
          J.pred, J.fc⟩ MB →
        ((t.simplify = true ∨ t.rep = .mu) → MF.Sub ∧ MB.Sub) → ∀ ρ : Asg,
        ((∃ P ∈ ps, Refutes J ρ P) ↔
          ((t.direction = .universal ∨ t.direction = .forward) ∧
              SubOn MF (ext t.left.preds t.right.preds) ∧
              progSat MF .here t.left ∧ ¬ progSat MF .here t.right) ∨
          ((t.direction = .universal ∨ t.direction = .backward) ∧
              SubOn MB (ext t.left.preds t.right.preds) ∧
              progSat MB .here t.right ∧ ¬ progSat MB .here t.left)) := by
  unfold strongProblems at h
  cases hl : processTheory t fuel t.left with
  | none => simp [hl] at h
  | some l =>
    cases hr : processTheory t fuel t.right with
    | none => simp [hl, hr] at h
    | some r =>
      simp only [hl, hr, Option.bind_eq_bind, Option.bind_some, Option.some.injEq] at h
      subst h
      refine ⟨l, r, rfl, rfl, fun J MF MB hmF hmB hsub ρ => ?_⟩
      have hLF := processTheory_sem t fuel t.left l hl hpl hmF (fun hs => (hsub hs).1) ρ
      have hRF := processTheory_sem t fuel t.right r hr hpr hmF (fun hs => (hsub hs).1) ρ
      have hLB := processTheory_sem t fuel t.left l hl hpl hmB (fun hs => (hsub hs).2) ρ
      have hRB := processTheory_sem t fuel t.right r hr hpr hmB (fun hs => (hsub hs).2) ρ
      have hF := direction_refutes_renamed J ρ "forward" (transitionAxioms t) l r "left_" "right_" t.decomposition
      have hB := direction_refutes_renamed J ρ "backward" (transitionAxioms t) r l "right_" "left_" t.decomposition
      rw [transitionAxioms_sem hmF, hLF, hRF] at hF
      rw [transitionAxioms_sem hmB, hLB, hRB] at hB
      simp only [List.mem_flatMap, List.mem_append]
      constructor
      · rintro ⟨P, ⟨p, hp | hp, hP⟩, href⟩
        · split at hp
          · rename_i hd
            simp only [List.mem_singleton] at hp; subst hp
            exact Or.inl ⟨hd, hF.mp ⟨P, hP, href⟩⟩
          · cases hp
        · split at hp
          · rename_i hd
            simp only [List.mem_singleton] at hp; subst hp
            exact Or.inr ⟨hd, hB.mp ⟨P, hP, href⟩⟩
          · cases hp
      · rintro (⟨hd, hw⟩ | ⟨hd, hw⟩)
        · obtain ⟨P, hP, href⟩ := hF.mpr hw
          exact ⟨P, ⟨_, Or.inl (by rw [if_pos hd]; exact List.mem_singleton.mpr rfl), hP⟩, href⟩
        · obtain ⟨P, hP, href⟩ := hB.mpr hw
          exact ⟨P, ⟨_, Or.inr (by rw [if_pos hd]; exact List.mem_singleton.mpr rfl), hP⟩, href⟩

end Anthem
