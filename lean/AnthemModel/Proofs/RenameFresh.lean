/-
  The renaming of clashing private predicates (`ExternalTask.clashMap`, fix of the rename-clash
  defect): every new name is free (no predicate of the task, no other new name), so both sides can be
  read off one interpretation (`joint_reading`).
-/
import Std.Data.String.ToNat
import AnthemModel.Proofs.ExternalSem
namespace Anthem

theorem renExt_inj {i j : Nat} (h : renExt i = renExt j) : i = j := by
  unfold renExt at h
  have hne : ∀ n : Nat, "p" ≠ "p" ++ toString n := by
    intro n hn
    have h1 : "p" ++ "" = "p" ++ toString n := by simpa using hn
    exact Nat.repr_ne_empty ((String.append_right_inj _).mp h1).symm
  by_cases hi : i = 0 <;> by_cases hj : j = 0
  · omega
  · simp only [hi, hj, if_true, if_false] at h; exact absurd h (hne j)
  · simp only [hi, hj, if_true, if_false] at h; exact absurd h.symm (hne i)
  · simp only [hi, hj, if_false] at h
    exact Nat.repr_injective ((String.append_right_inj _).mp h)

theorem renamedPred_inj (p : Pred) {i j : Nat} (h : renamedPred p (renExt i) = renamedPred p (renExt j)) : i = j := by
  simp only [renamedPred, Pred.mk.injEq, and_true] at h
  exact renExt_inj ((String.append_right_inj _).mp h)

theorem findExt_spec (occ : List Pred) (p : Pred) :
    ∀ (fuel i : Nat), (∃ j, i ≤ j ∧ j < i + fuel ∧ renamedPred p (renExt j) ∉ occ) →
      renamedPred p (renExt (findExt occ p fuel i)) ∉ occ := by
  intro fuel
  induction fuel with
  | zero => intro i ⟨j, h1, h2, _⟩; omega
  | succ fuel ih =>
    intro i ⟨j, h1, h2, h3⟩
    simp only [findExt]
    split
    · rename_i hmem
      have hne : j ≠ i := fun e => h3 (e ▸ hmem)
      exact ih (i + 1) ⟨j, by omega, by omega, h3⟩
    · rename_i hmem
      exact hmem

/-- among `occ.length + 1` candidates one is free -/
theorem exists_free (occ : List Pred) (p : Pred) :
    ∃ j, 0 ≤ j ∧ j < 0 + (occ.length + 1) ∧ renamedPred p (renExt j) ∉ occ := by
  by_cases h : ∃ j, 0 ≤ j ∧ j < 0 + (occ.length + 1) ∧ renamedPred p (renExt j) ∉ occ
  · exact h
  · exfalso
    have hall : ∀ j, j < occ.length + 1 → renamedPred p (renExt j) ∈ occ := by
      intro j h2
      exact Classical.not_not.mp fun hn => h ⟨j, Nat.zero_le _, by omega, hn⟩
    let L := (List.range (occ.length + 1)).map (fun j => renamedPred p (renExt j))
    have hnd : L.Nodup := by
      have hr : (List.range (occ.length + 1)).Nodup := List.nodup_range
      exact List.Pairwise.map _ (fun a b hab hc => hab (renamedPred_inj p hc)) hr
    have hsub : L ⊆ occ := by
      intro x hx
      simp only [L, List.mem_map, List.mem_range] at hx
      obtain ⟨j, h1, rfl⟩ := hx
      exact hall j h1
    have := hnd.length_le_of_subset hsub
    simp [L] at this
    omega

/-- the extension chosen by one step is free -/
theorem clashStep_free (occ : List Pred) (p : Pred) :
    renamedPred p (renExt (findExt occ p (occ.length + 1) 0)) ∉ occ :=
  findExt_spec occ p _ 0 (exists_free occ p)

/-- invariant of the fold: the occupied set only grows from `occ0`, every chosen name is occupied
    and outside `occ0`, and the chosen names are pairwise different -/
structure ClashInv (occ0 : List Pred) (acc : List Pred × List (Pred × String)) : Prop where
  grows : ∀ q ∈ occ0, q ∈ acc.1
  occupied : ∀ x ∈ acc.2, renamedPred x.1 x.2 ∈ acc.1
  fresh : ∀ x ∈ acc.2, renamedPred x.1 x.2 ∉ occ0
  distinct : acc.2.Pairwise fun x y => renamedPred x.1 x.2 ≠ renamedPred y.1 y.2

theorem clashStep_inv (occ0 : List Pred) (acc : List Pred × List (Pred × String)) (p : Pred)
    (h : ClashInv occ0 acc) : ClashInv occ0 (clashStep acc p) := by
  have hfree := clashStep_free acc.1 p
  refine ⟨?_, ?_, ?_, ?_⟩
  · intro q hq
    simp only [clashStep, List.mem_append]
    exact Or.inl (h.grows q hq)
  · intro x hx
    simp only [clashStep, List.mem_append, List.mem_singleton] at hx ⊢
    rcases hx with hx | rfl
    · exact Or.inl (h.occupied x hx)
    · exact Or.inr rfl
  · intro x hx
    simp only [clashStep, List.mem_append, List.mem_singleton] at hx
    rcases hx with hx | rfl
    · exact h.fresh x hx
    · exact fun hin => hfree (h.grows _ hin)
  · simp only [clashStep]
    rw [List.pairwise_append]
    refine ⟨h.distinct, List.pairwise_singleton _ _, ?_⟩
    intro x hx y hy
    simp only [List.mem_singleton] at hy
    subst hy
    intro heq
    exact hfree (heq ▸ h.occupied x hx)

theorem clashFold_inv (occ0 : List Pred) (ps : List Pred) :
    ∀ acc, ClashInv occ0 acc → ClashInv occ0 (ps.foldl clashStep acc) := by
  induction ps with
  | nil => intro acc h; exact h
  | cons p ps ih => intro acc h; exact ih _ (clashStep_inv occ0 acc p h)

theorem clashFold_keys (ps : List Pred) :
    ∀ acc : List Pred × List (Pred × String),
      ((ps.foldl clashStep acc).2).map (·.1) = acc.2.map (·.1) ++ ps := by
  induction ps with
  | nil => intro acc; simp
  | cons p ps ih =>
    intro acc
    rw [List.foldl_cons, ih]
    simp [clashStep]

/-- the predicates of the task: public, private of either side -/
def ExternalTask.occupied (t : ExternalTask) : List Pred :=
  ext (ext t.userGuide.publicPreds t.specPrivate) t.progPrivate

theorem clashMap_inv (t : ExternalTask) :
    ClashInv t.occupied ((t.specPrivate.filter (· ∈ t.progPrivate)).foldl clashStep (t.occupied, [])) :=
  clashFold_inv _ _ _ ⟨fun _ h => h, fun _ h => absurd h List.not_mem_nil, fun _ h => absurd h List.not_mem_nil, List.Pairwise.nil⟩

/-- **the new names are free**: no renamed private predicate is a predicate of the task -/
theorem clashMap_fresh (t : ExternalTask) : ∀ x ∈ t.clashMap, renamedPred x.1 x.2 ∉ t.occupied :=
  (clashMap_inv t).fresh

/-- **the renaming is injective**: two renamed predicates never share a name -/
theorem clashMap_injective (t : ExternalTask) :
    t.clashMap.Pairwise fun x y => renamedPred x.1 x.2 ≠ renamedPred y.1 y.2 :=
  (clashMap_inv t).distinct

/-- exactly the private predicates common to both sides are renamed, in that order -/
theorem clashMap_keys (t : ExternalTask) :
    t.clashMap.map (·.1) = t.specPrivate.filter (· ∈ t.progPrivate) := by
  unfold ExternalTask.clashMap
  rw [clashFold_keys]
  rfl

theorem lookupExt_some {m : List (Pred × String)} {p : Pred} {e : String} (h : lookupExt m p = some e) :
    (p, e) ∈ m := by
  unfold lookupExt at h
  cases hf : m.find? (fun x => x.1 = p) with
  | none => rw [hf] at h; cases h
  | some x =>
    rw [hf] at h
    have h1 := List.find?_some hf
    have h2 := List.mem_of_find?_eq_some hf
    simp only [decide_eq_true_eq] at h1
    simp only [Option.map_some, Option.some.injEq] at h
    obtain ⟨a, b⟩ := x
    simp only at h1 h
    subst h1; subst h
    exact h2

theorem lookupExt_none {m : List (Pred × String)} {p : Pred} (h : lookupExt m p = none) :
    p ∉ m.map (·.1) := by
  unfold lookupExt at h
  cases hf : m.find? (fun x => x.1 = p) with
  | some x => rw [hf] at h; cases h
  | none =>
    intro hin
    simp only [List.mem_map] at hin
    obtain ⟨x, hx, rfl⟩ := hin
    have := List.find?_eq_none.mp hf x hx
    simp at this

/-- **One interpretation carries both readings.** Whatever extents `TL` (for the specification side)
    and `TR` (for the program side) give to the predicates, as long as they agree on the public
    predicates, there is one family of extents `T` that is `TL` on the specification side's vocabulary
    and, read through the renaming, `TR` on the program side's vocabulary. This is what the renaming
    is for, and what failed before the repair (`q/1` and `q_p/1` private on the right, `q/1` private on
    the left: the readings of `q` and `q_p` were forced to coincide). -/
theorem joint_reading (t : ExternalTask) (TL TR : PredI)
    (hagree : ∀ (q : String) (a : List Dom), (⟨q, a.length⟩ : Pred) ∈ t.userGuide.publicPreds → (TL q a ↔ TR q a)) :
    ∃ T : PredI,
      (∀ (q : String) (a : List Dom), (⟨q, a.length⟩ : Pred) ∈ ext t.userGuide.publicPreds t.specPrivate →
        (T q a ↔ TL q a)) ∧
      (∀ (q : String) (a : List Dom), (⟨q, a.length⟩ : Pred) ∈ ext t.userGuide.publicPreds t.progPrivate →
        (renamedInterp t.clashMap T q a ↔ TR q a)) := by
  let T : PredI := fun q a =>
    if (⟨q, a.length⟩ : Pred) ∈ ext t.userGuide.publicPreds t.specPrivate then TL q a
    else match t.clashMap.find? (fun x => renamedPred x.1 x.2 = ⟨q, a.length⟩) with
      | some x => TR x.1.symbol a
      | none => TR q a
  have hocc_spec : ∀ q, q ∈ ext t.userGuide.publicPreds t.specPrivate → q ∈ t.occupied := by
    intro q hq
    exact mem_ext.mpr (Or.inl hq)
  refine ⟨T, ?_, ?_⟩
  · intro q a hq
    simp only [T, if_pos hq]
  · intro q a hq
    unfold renamedInterp
    cases hl : lookupExt t.clashMap ⟨q, a.length⟩ with
    | some e =>
      have hmem := lookupExt_some hl
      have hfresh := clashMap_fresh t _ hmem
      simp only
      have hnot : (⟨q ++ "_" ++ e, a.length⟩ : Pred) ∉ ext t.userGuide.publicPreds t.specPrivate :=
        fun hin => hfresh (hocc_spec _ hin)
      simp only [T, if_neg hnot]
      cases hf : t.clashMap.find? (fun x => renamedPred x.1 x.2 = ⟨q ++ "_" ++ e, a.length⟩) with
      | none =>
        exfalso
        have := List.find?_eq_none.mp hf _ hmem
        simp [renamedPred] at this
      | some x =>
        have hx1 := List.find?_some hf
        have hx2 := List.mem_of_find?_eq_some hf
        simp only [decide_eq_true_eq] at hx1
        -- injectivity: x = (⟨q, _⟩, e)
        have hxe : x = (⟨q, a.length⟩, e) := by
          by_cases hxe : x = (⟨q, a.length⟩, e)
          · exact hxe
          · exfalso
            have hinj := clashMap_injective t
            have hsame : renamedPred x.1 x.2 = renamedPred ((⟨q, a.length⟩, e) : Pred × String).1 ((⟨q, a.length⟩, e) : Pred × String).2 := by
              rw [hx1]; rfl
            rcases List.pairwise_iff_getElem.mp hinj with hget
            obtain ⟨i, hi, hix⟩ := List.getElem_of_mem hx2
            obtain ⟨j, hj, hjx⟩ := List.getElem_of_mem hmem
            rcases Nat.lt_trichotomy i j with hij | hij | hij
            · exact hget i j hi hj hij (by rw [hix, hjx]; exact hsame)
            · subst hij; exact hxe (hix ▸ hjx)
            · exact hget j i hj hi hij (by rw [hix, hjx]; exact hsame.symm)
        subst hxe
        exact Iff.rfl
    | none =>
      have hkey := lookupExt_none hl
      rw [clashMap_keys] at hkey
      simp only
      by_cases hs : (⟨q, a.length⟩ : Pred) ∈ ext t.userGuide.publicPreds t.specPrivate
      · simp only [T, if_pos hs]
        have hpub : (⟨q, a.length⟩ : Pred) ∈ t.userGuide.publicPreds := by
          rcases mem_ext.mp hs with h | h
          · exact h
          · rcases mem_ext.mp hq with h' | h'
            · exact h'
            · exact absurd (List.mem_filter.mpr (And.intro h (by simpa using h'))) hkey
        exact hagree q a hpub
      · simp only [T, if_neg hs]
        cases hf : t.clashMap.find? (fun x => renamedPred x.1 x.2 = ⟨q, a.length⟩) with
        | none => exact Iff.rfl
        | some x =>
          exfalso
          have hx1 := List.find?_some hf
          have hx2 := List.mem_of_find?_eq_some hf
          simp only [decide_eq_true_eq] at hx1
          have hfresh := clashMap_fresh t x hx2
          rw [hx1] at hfresh
          apply hfresh
          rcases mem_ext.mp hq with h | h
          · exact mem_ext.mpr (Or.inl (mem_ext.mpr (Or.inl h)))
          · exact mem_ext.mpr (Or.inr h)

end Anthem
