/-
  `rename_conflicting_symbols` does not matter for validity: an emitted problem (clashing
  propositional predicates renamed to free names) has a countermodel as soon as the problem before
  the renaming has one. Hence "no emitted problem has a countermodel" can be used without any side
  condition on names.
-/
import AnthemModel.Proofs.PropRename
import AnthemModel.Proofs.ExternalSem
namespace Anthem
open Asp

/-- "all axioms of the parts are true and some conjecture is false" - what refuting the problem
    assembled from `parts` means before `rename_conflicting_symbols` -/
def SemRef (J : Interp) (ρ : Asg) (parts : List (List AnnF)) : Prop :=
  (∀ part ∈ parts, ∀ a ∈ part, a.role = .axiom → sat J a.formula ρ) ∧
  ¬ ∀ part ∈ parts, ∀ a ∈ part, a.role = .conjecture → sat J a.formula ρ

/-! ## every interpretation is the reading of one -/

theorem mem_problem_preds {p : Problem} {q : Pred} : q ∈ p.preds ↔ ∃ a ∈ p.formulas, q ∈ a.formula.preds := by
  unfold Problem.preds
  rw [mem_foldl_ext (fun a : AnnF => a.formula.preds)]
  simp

theorem pred_symbol_occupied (p : Problem) (a : AnnF) (ha : a ∈ p.formulas) (q : Pred) (hq : q ∈ a.formula.preds) :
    q.symbol ∈ p.occupiedNames := by
  unfold Problem.occupiedNames
  refine List.mem_append.mpr (Or.inl (List.mem_append.mpr (Or.inr ?_)))
  exact List.mem_map.mpr ⟨q, mem_problem_preds.mpr ⟨a, ha, hq⟩, rfl⟩

/-- for every interpretation `J0` there is one whose reading through the renaming of `p` is `J0` on
    every name that occurs in `p` (the new names are free, so they can be given the extents of the
    predicates they stand for) -/
theorem reading_surjective (p : Problem) (J0 : Interp) :
    ∃ J1 : Interp, J1.fc = J0.fc ∧ ∀ (q : String) (a : List Dom), q ∈ p.occupiedNames →
      (propReading p.propRenaming J1.pred q a ↔ J0.pred q a) := by
  obtain ⟨hfresh, hdist⟩ := propRenaming_fresh p
  let T1 : PredI := fun q a =>
    if a.isEmpty then
      match p.propRenaming.find? (fun e => e.2 = q) with
      | some e => J0.pred e.1 []
      | none => J0.pred q a
    else J0.pred q a
  refine ⟨⟨T1, J0.fc⟩, rfl, ?_⟩
  intro q a hq
  unfold propReading
  by_cases hemp : a.isEmpty = true
  · have ha : a = [] := List.isEmpty_iff.mp hemp
    subst ha
    simp only [List.isEmpty_nil, if_true]
    cases hf : p.propRenaming.find? (fun e => e.1 = q) with
    | some e =>
      -- `q` is renamed to `e.2`; the new name is read back as `q`
      have he1 : e.1 = q := by simpa using List.find?_some hf
      have hemem := List.mem_of_find?_eq_some hf
      simp only [T1, List.isEmpty_nil, if_true]
      cases hg : p.propRenaming.find? (fun e' => e'.2 = e.2) with
      | none =>
        exfalso
        have := List.find?_eq_none.mp hg e hemem
        simp at this
      | some e' =>
        have he'2 : e'.2 = e.2 := by simpa using List.find?_some hg
        have he'mem := List.mem_of_find?_eq_some hg
        have hee : e' = e := by
          by_cases hee : e' = e
          · exact hee
          · exfalso
            have hget := List.pairwise_iff_getElem.mp hdist
            obtain ⟨i, hi, hix⟩ := List.getElem_of_mem he'mem
            obtain ⟨j, hj, hjx⟩ := List.getElem_of_mem hemem
            rcases Nat.lt_trichotomy i j with hij | hij | hij
            · exact hget i j hi hj hij (by rw [hix, hjx]; exact he'2)
            · subst hij; exact hee (hix ▸ hjx)
            · exact hget j i hj hi hij (by rw [hix, hjx]; exact he'2.symm)
        subst hee
        simp only
        rw [he1]
    | none =>
      -- `q` is not renamed, and it is no new name either (it occurs in `p`)
      simp only [T1, List.isEmpty_nil, if_true]
      cases hg : p.propRenaming.find? (fun e' => e'.2 = q) with
      | none => exact Iff.rfl
      | some e' =>
        exfalso
        have he'2 : e'.2 = q := by simpa using List.find?_some hg
        have he'mem := List.mem_of_find?_eq_some hg
        exact hfresh e' he'mem (he'2 ▸ hq)
  · have hemp' : a.isEmpty = false := by simpa using hemp
    simp only [hemp', Bool.false_eq_true, if_false, T1]

/-! ## one assembled problem -/

theorem mkProblem0_formulas_of_part (name : String) : ∀ (parts : List (List AnnF)) (p : Problem),
    ∀ a ∈ (parts.foldl (fun (p : Problem) fs => p.addAnnotated fs) p).formulas,
      a ∈ p.formulas ∨ ∃ part ∈ parts, ∃ a0 ∈ part, a.formula = a0.formula := by
  intro parts
  induction parts with
  | nil => intro p a ha; exact Or.inl ha
  | cons part parts ih =>
    intro p a ha
    simp only [List.foldl_cons] at ha
    rcases ih _ a ha with h | ⟨pt, hpt, a0, ha0, he⟩
    · unfold Problem.addAnnotated at h
      simp only [List.mem_append, List.mem_map] at h
      rcases h with h | ⟨a0, ha0, rfl⟩
      · exact Or.inl h
      · exact Or.inr ⟨part, List.mem_cons_self, a0, ha0, rfl⟩
    · exact Or.inr ⟨pt, List.mem_cons_of_mem _ hpt, a0, ha0, he⟩

/-- refuting the emitted problem = refuting its parts, read through the renaming -/
theorem mk_refutes_reading (J : Interp) (ρ : Asg) (name : String) (parts : List (List AnnF)) (d : Decomposition) :
    (∃ P ∈ (mkProblem name parts).decompose d, Refutes J ρ P) ↔
      SemRef ⟨propReading (mkProblem0 name parts).propRenaming J.pred, J.fc⟩ ρ parts := by
  have key : (∃ P ∈ (mkProblem name parts).decompose d, Refutes J ρ P) ↔
      (∀ a ∈ (mkProblem name parts).axioms, sat J a.formula ρ) ∧
      ∃ c ∈ (mkProblem name parts).conjectures, ¬ sat J c.formula ρ := by
    cases d
    · exact C19.independent_refutes J ρ _
    · exact C19.sequential_refutes J ρ _
  rw [key]
  have hall : ∀ role, (∀ a ∈ (mkProblem name parts).formulas, a.role = role → sat J a.formula ρ) ↔
      ∀ part ∈ parts, ∀ a ∈ part, a.role = role →
        sat ⟨propReading (mkProblem0 name parts).propRenaming J.pred, J.fc⟩ a.formula ρ := by
    intro role
    rw [mkProblem_eq, uniqueNames_role_forall _ role (fun F => sat J F ρ),
      renameConflicting_role_forall _ role (fun F => sat J F ρ)]
    have h0 := mkProblem0_role_forall name role
      (fun F => sat J (F.renameProps (mkProblem0 name parts).propRenaming) ρ) parts ⟨name, []⟩
    unfold mkProblem0 at h0 ⊢
    rw [h0]
    simp only [List.not_mem_nil, false_imp_iff, implies_true, true_and]
    exact forall_congr' fun part => imp_congr_right fun _ => forall_congr' fun a => imp_congr_right fun _ =>
      imp_congr_right fun _ => sat_renameProps _ J.pred J.fc a.formula ρ
  have hax : (∀ a ∈ (mkProblem name parts).axioms, sat J a.formula ρ) ↔
      ∀ part ∈ parts, ∀ a ∈ part, a.role = .axiom →
        sat ⟨propReading (mkProblem0 name parts).propRenaming J.pred, J.fc⟩ a.formula ρ := by
    rw [← hall .axiom]
    simp only [Problem.axioms, List.mem_filter, decide_eq_true_eq, and_imp]
  have hcj : (∃ c ∈ (mkProblem name parts).conjectures, ¬ sat J c.formula ρ) ↔
      ¬ ∀ part ∈ parts, ∀ a ∈ part, a.role = .conjecture →
        sat ⟨propReading (mkProblem0 name parts).propRenaming J.pred, J.fc⟩ a.formula ρ := by
    rw [← hall .conjecture]
    simp only [Problem.conjectures, List.mem_filter, decide_eq_true_eq]
    constructor
    · rintro ⟨c, ⟨hc, hr⟩, hn⟩ hall'; exact hn (hall' c hc hr)
    · intro hn
      refine Classical.byContradiction fun hne => hn fun a ha hr => ?_
      exact Classical.byContradiction fun hs => hne ⟨a, ⟨ha, hr⟩, hs⟩
  rw [hax, hcj]
  rfl

/-- the same for a problem that is not decomposed (outline problems have one conjecture) -/
theorem mk_refutes_single_reading (J : Interp) (ρ : Asg) (name : String) (parts : List (List AnnF)) :
    Refutes J ρ (mkProblem name parts) ↔
      SemRef ⟨propReading (mkProblem0 name parts).propRenaming J.pred, J.fc⟩ ρ parts := by
  have hall : ∀ role, (∀ a ∈ (mkProblem name parts).formulas, a.role = role → sat J a.formula ρ) ↔
      ∀ part ∈ parts, ∀ a ∈ part, a.role = role →
        sat ⟨propReading (mkProblem0 name parts).propRenaming J.pred, J.fc⟩ a.formula ρ := by
    intro role
    rw [mkProblem_eq, uniqueNames_role_forall _ role (fun F => sat J F ρ),
      renameConflicting_role_forall _ role (fun F => sat J F ρ)]
    have h0 := mkProblem0_role_forall name role
      (fun F => sat J (F.renameProps (mkProblem0 name parts).propRenaming) ρ) parts ⟨name, []⟩
    unfold mkProblem0 at h0 ⊢
    rw [h0]
    simp only [List.not_mem_nil, false_imp_iff, implies_true, true_and]
    exact forall_congr' fun part => imp_congr_right fun _ => forall_congr' fun a => imp_congr_right fun _ =>
      imp_congr_right fun _ => sat_renameProps _ J.pred J.fc a.formula ρ
  unfold Refutes SemRef
  rw [hall .axiom, ← hall .conjecture]
  constructor
  · rintro ⟨h1, c, hc, hr, hn⟩
    exact ⟨h1, fun hh => hn (hh c hc hr)⟩
  · rintro ⟨h1, hn⟩
    refine ⟨h1, ?_⟩
    refine Classical.byContradiction fun hne => hn fun a ha hr => ?_
    exact Classical.byContradiction fun hs => hne ⟨a, ha, hr, hs⟩

/-- the formulas of the parts mention only names that are occupied in the assembled problem -/
theorem part_preds_occupied (name : String) (parts : List (List AnnF)) :
    ∀ part ∈ parts, ∀ a ∈ part, ∀ q ∈ a.formula.preds, q.symbol ∈ (mkProblem0 name parts).occupiedNames := by
  intro part hpart a ha q hq
  -- `a` (with a possibly adjusted name) is a formula of the assembled problem
  have hex : ∃ a' ∈ (mkProblem0 name parts).formulas, a'.formula = a.formula := by
    have h0 := (mkProblem0_role_forall name a.role (fun F => F ≠ a.formula) parts ⟨name, []⟩)
    refine Classical.byContradiction fun hne => ?_
    have hall : ∀ a' ∈ (mkProblem0 name parts).formulas, a'.role = a.role → a'.formula ≠ a.formula :=
      fun a' ha' _ he => hne ⟨a', ha', he⟩
    unfold mkProblem0 at hall
    exact (h0.mp hall).2 part hpart a ha rfl rfl
  obtain ⟨a', ha', he⟩ := hex
  exact pred_symbol_occupied _ a' ha' q (he ▸ hq)

/-- **validity does not depend on the renaming** (decomposed family) -/
theorem valid_family (name : String) (parts : List (List AnnF)) (d : Decomposition)
    (hvalid : ∀ P ∈ (mkProblem name parts).decompose d, ∀ J ρ, ¬ Refutes J ρ P) :
    ∀ (J : Interp) (ρ : Asg), ¬ SemRef J ρ parts := by
  intro J0 ρ hsem
  obtain ⟨J1, hfc, hread⟩ := reading_surjective (mkProblem0 name parts) J0
  have hsat : ∀ part ∈ parts, ∀ a ∈ part,
      (sat ⟨propReading (mkProblem0 name parts).propRenaming J1.pred, J1.fc⟩ a.formula ρ ↔ sat J0 a.formula ρ) := by
    intro part hpart a ha
    rw [hfc]
    refine sat_congr_preds J0.fc _ J0.pred a.formula ρ ?_
    intro q hq ds _
    exact hread q.symbol ds (part_preds_occupied name parts part hpart a ha q hq)
  have hsem1 : SemRef ⟨propReading (mkProblem0 name parts).propRenaming J1.pred, J1.fc⟩ ρ parts := by
    refine ⟨fun part hp a ha hr => (hsat part hp a ha).mpr (hsem.1 part hp a ha hr), fun hall => hsem.2 ?_⟩
    intro part hp a ha hr
    exact (hsat part hp a ha).mp (hall part hp a ha hr)
  obtain ⟨P, hP, href⟩ := (mk_refutes_reading J1 ρ name parts d).mpr hsem1
  exact hvalid P hP J1 ρ href

/-- **validity does not depend on the renaming** (single problem) -/
theorem valid_single (name : String) (parts : List (List AnnF))
    (hvalid : ∀ J ρ, ¬ Refutes J ρ (mkProblem name parts)) :
    ∀ (J : Interp) (ρ : Asg), ¬ SemRef J ρ parts := by
  intro J0 ρ hsem
  obtain ⟨J1, hfc, hread⟩ := reading_surjective (mkProblem0 name parts) J0
  have hsat : ∀ part ∈ parts, ∀ a ∈ part,
      (sat ⟨propReading (mkProblem0 name parts).propRenaming J1.pred, J1.fc⟩ a.formula ρ ↔ sat J0 a.formula ρ) := by
    intro part hpart a ha
    rw [hfc]
    refine sat_congr_preds J0.fc _ J0.pred a.formula ρ ?_
    intro q hq ds _
    exact hread q.symbol ds (part_preds_occupied name parts part hpart a ha q hq)
  have hsem1 : SemRef ⟨propReading (mkProblem0 name parts).propRenaming J1.pred, J1.fc⟩ ρ parts := by
    refine ⟨fun part hp a ha hr => (hsat part hp a ha).mpr (hsem.1 part hp a ha hr), fun hall => hsem.2 ?_⟩
    intro part hp a ha hr
    exact (hsat part hp a ha).mp (hall part hp a ha hr)
  exact hvalid J1 ρ ((mk_refutes_single_reading J1 ρ name parts).mpr hsem1)

end Anthem
