/-
  Meaning preservation of the rewrites that need no reasoning about free variables.
-/
import AnthemModel.Proofs.Congruence
namespace Anthem

theorem ht_foldl_and (M : HTI) (w : World) (ρ : Asg) (fs : List Formula) (acc : Formula) :
    ht M (fs.foldl (fun a e => .bin .and a e) acc) w ρ ↔ ht M acc w ρ ∧ ∀ f ∈ fs, ht M f w ρ := by
  induction fs generalizing acc with
  | nil => simp
  | cons f fs ih =>
    simp only [List.foldl_cons, ih, ht, List.mem_cons, forall_eq_or_imp]
    exact and_assoc

theorem ht_conjoin (M : HTI) (w : World) (ρ : Asg) (fs : List Formula) :
    ht M (conjoin fs) w ρ ↔ ∀ f ∈ fs, ht M f w ρ := by
  cases fs with
  | nil => simp [conjoin, Formula.tru, ht, AtomicF.sat]
  | cons f fs => simp [conjoin, ht_foldl_and]

theorem sat_foldl_and (I : Interp) (ρ : Asg) (fs : List Formula) (acc : Formula) :
    sat I (fs.foldl (fun a e => .bin .and a e) acc) ρ ↔ sat I acc ρ ∧ ∀ f ∈ fs, sat I f ρ := by
  induction fs generalizing acc with
  | nil => simp
  | cons f fs ih =>
    simp only [List.foldl_cons, ih, sat, List.mem_cons, forall_eq_or_imp]
    exact and_assoc

theorem sat_conjoin (I : Interp) (ρ : Asg) (fs : List Formula) :
    sat I (conjoin fs) ρ ↔ ∀ f ∈ fs, sat I f ρ := by
  cases fs with
  | nil => simp [conjoin, Formula.tru, sat, AtomicF.sat]
  | cons f fs => simp [conjoin, sat_foldl_and]

theorem evalCmpLoop_sem (M : HTI) (w : World) (ρ : Asg) (gs : List Guard) (lhs : GTerm) :
    (∀ f ∈ evalCmpLoop lhs gs, ht M f w ρ) ↔ cmpChain M.fc ρ (lhs.eval M.fc ρ) gs := by
  induction gs generalizing lhs with
  | nil => simp [evalCmpLoop, cmpChain]
  | cons g gs ih =>
    simp only [evalCmpLoop, List.mem_cons, forall_eq_or_imp, ih, cmpChain]
    apply and_congr_left'
    split
    · rename_i h
      subst h
      cases hr : g.rel <;>
        simp [Rel.holds, Formula.tru, Formula.fls, ht, AtomicF.sat, Dom.le_refl, Dom.lt_irrefl]
    · simp [ht, AtomicF.sat, cmpChain]

theorem evaluateComparisons_htEquiv (F : Formula) : HTEquiv (evaluateComparisons F) F := by
  intro M _ w ρ
  unfold evaluateComparisons
  split
  · rw [ht_conjoin, evalCmpLoop_sem]; simp [ht, AtomicF.sat]
  · exact Iff.rfl

theorem applyNegationDefinitionInverse_htEquiv (F : Formula) :
    HTEquiv (applyNegationDefinitionInverse F) F := by
  intro M hs w ρ
  unfold applyNegationDefinitionInverse
  split
  · rename_i l
    cases w
    · simp only [ht, AtomicF.sat, imp_false]
      exact ⟨fun h => ⟨fun h' => h (ht_persist M hs l ρ h'), h⟩, fun h => h.2⟩
    · simp [ht, AtomicF.sat]
  · exact Iff.rfl

theorem applyReverseImplicationDefinition_htEquiv (F : Formula) :
    HTEquiv (applyReverseImplicationDefinition F) F := by
  intro M _ w ρ
  unfold applyReverseImplicationDefinition
  split <;> simp [ht]

theorem applyEquivalenceDefinitionInverse_htEquiv (F : Formula) :
    HTEquiv (applyEquivalenceDefinitionInverse F) F := by
  intro M _ w ρ
  unfold applyEquivalenceDefinitionInverse
  split
  · split
    · rename_i h; obtain ⟨rfl, rfl⟩ := h; simp [ht]
    · exact Iff.rfl
  · exact Iff.rfl

theorem removeIdentities_htEquiv (F : Formula) : HTEquiv (removeIdentities F) F := by
  intro M hs w ρ
  unfold removeIdentities
  split <;> simp [ht, AtomicF.sat]
  rename_i r
  cases w
  · exact ht_persist M hs r ρ
  · exact id

theorem removeAnnihilations_htEquiv (F : Formula) : HTEquiv (removeAnnihilations F) F := by
  intro M _ w ρ
  unfold removeAnnihilations
  split <;> try simp [ht, AtomicF.sat, Formula.tru, Formula.fls]
  split
  · rename_i h; subst h; simp [ht, AtomicF.sat]
  · exact Iff.rfl

theorem removeIdempotences_htEquiv (F : Formula) : HTEquiv (removeIdempotences F) F := by
  intro M _ w ρ
  unfold removeIdempotences
  split
  · split
    · rename_i h; subst h; simp [ht]
    · exact Iff.rfl
  · split
    · rename_i h; subst h; simp [ht]
    · exact Iff.rfl
  · exact Iff.rfl

theorem removeEmptyQuantifications_htEquiv (F : Formula) :
    HTEquiv (removeEmptyQuantifications F) F := by
  intro M _ w ρ
  unfold removeEmptyQuantifications
  split
  · split
    · rename_i q vs f h
      have : vs = [] := List.isEmpty_iff.mp h
      subst this
      cases q <;> simp [ht, bindAll, bindEx]
    · exact Iff.rfl
  · exact Iff.rfl

theorem removeDoubleNegation_classEquiv (F : Formula) : ClassEquiv (removeDoubleNegation F) F := by
  intro I ρ
  unfold removeDoubleNegation
  split
  · simp [sat, Classical.not_not]
  · exact Iff.rfl

end Anthem
