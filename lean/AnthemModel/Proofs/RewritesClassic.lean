/-
  Meaning preservation of the classic rewrites (C07): extend_quantifier_scope (an HT
  equivalence as well), substitute_defined_variables, and helpers.
-/
import AnthemModel.Proofs.SubstFull
import AnthemModel.Proofs.RewritesBasic
import AnthemModel.Proofs.RewritesQuant
namespace Anthem

/-- re-assign the variables of `vs` to default values of their sorts -/
def resetVars (vs : List Var) (ρ : Asg) : Asg := fun u => if u ∈ vs then u.sort.default else ρ u

theorem resetVars_allUpd (vs : List Var) (ρ : Asg) : AllUpd vs ρ (resetVars vs ρ) :=
  ⟨fun u hu => by simp [resetVars, hu], fun u hu => by simp [resetVars, hu, Srt.default_inSort]⟩

theorem ht_of_allUpd_disjoint (M : HTI) (g : Formula) (w : World) {vs : List Var} {ρ τ : Asg}
    (hτ : AllUpd vs ρ τ) (hd : ∀ v ∈ vs, ¬ g.FV v) : ht M g w τ ↔ ht M g w ρ :=
  ht_agree M g w τ ρ (fun u hu => hτ.1 u (fun hm => hd u hm hu))

theorem extendScope_sem (M : HTI) (w : World) (ρ : Asg) (q : Quant) (vs : List Var) (f g : Formula)
    (hd : ∀ v ∈ vs, ¬ g.FV v) :
    (ht M (.quant q vs (.bin .and f g)) w ρ ↔ ht M (.bin .and (.quant q vs f) g) w ρ) ∧
    (ht M (.quant q vs (.bin .or f g)) w ρ ↔ ht M (.bin .or (.quant q vs f) g) w ρ) ∧
    (ht M (.quant q vs (.bin .and g f)) w ρ ↔ ht M (.bin .and g (.quant q vs f)) w ρ) ∧
    (ht M (.quant q vs (.bin .or g f)) w ρ ↔ ht M (.bin .or g (.quant q vs f)) w ρ) := by
  have hg : ∀ τ, AllUpd vs ρ τ → (ht M g w τ ↔ ht M g w ρ) := fun τ hτ => ht_of_allUpd_disjoint M g w hτ hd
  have h0 := resetVars_allUpd vs ρ
  cases q
  · simp only [ht, bindAll_iff]
    refine ⟨?_, ?_, ?_, ?_⟩
    · exact ⟨fun h => ⟨fun τ hτ => (h τ hτ).1, (hg _ h0).mp (h _ h0).2⟩,
        fun ⟨h1, h2⟩ τ hτ => ⟨h1 τ hτ, (hg τ hτ).mpr h2⟩⟩
    · constructor
      · intro h
        by_cases hgρ : ht M g w ρ
        · exact Or.inr hgρ
        · exact Or.inl fun τ hτ => (h τ hτ).resolve_right (fun hh => hgρ ((hg τ hτ).mp hh))
      · rintro (h | h) τ hτ
        · exact Or.inl (h τ hτ)
        · exact Or.inr ((hg τ hτ).mpr h)
    · exact ⟨fun h => ⟨(hg _ h0).mp (h _ h0).1, fun τ hτ => (h τ hτ).2⟩,
        fun ⟨h2, h1⟩ τ hτ => ⟨(hg τ hτ).mpr h2, h1 τ hτ⟩⟩
    · constructor
      · intro h
        by_cases hgρ : ht M g w ρ
        · exact Or.inl hgρ
        · exact Or.inr fun τ hτ => (h τ hτ).resolve_left (fun hh => hgρ ((hg τ hτ).mp hh))
      · rintro (h | h) τ hτ
        · exact Or.inl ((hg τ hτ).mpr h)
        · exact Or.inr (h τ hτ)
  · simp only [ht, bindEx_iff]
    refine ⟨?_, ?_, ?_, ?_⟩
    · exact ⟨fun ⟨τ, hτ, h1, h2⟩ => ⟨⟨τ, hτ, h1⟩, (hg τ hτ).mp h2⟩,
        fun ⟨⟨τ, hτ, h1⟩, h2⟩ => ⟨τ, hτ, h1, (hg τ hτ).mpr h2⟩⟩
    · constructor
      · rintro ⟨τ, hτ, h | h⟩
        · exact Or.inl ⟨τ, hτ, h⟩
        · exact Or.inr ((hg τ hτ).mp h)
      · rintro (⟨τ, hτ, h⟩ | h)
        · exact ⟨τ, hτ, Or.inl h⟩
        · exact ⟨_, h0, Or.inr ((hg _ h0).mpr h)⟩
    · exact ⟨fun ⟨τ, hτ, h2, h1⟩ => ⟨(hg τ hτ).mp h2, ⟨τ, hτ, h1⟩⟩,
        fun ⟨h2, ⟨τ, hτ, h1⟩⟩ => ⟨τ, hτ, (hg τ hτ).mpr h2, h1⟩⟩
    · constructor
      · rintro ⟨τ, hτ, h | h⟩
        · exact Or.inl ((hg τ hτ).mp h)
        · exact Or.inr ⟨τ, hτ, h⟩
      · rintro (h | ⟨τ, hτ, h⟩)
        · exact ⟨_, h0, Or.inl ((hg _ h0).mpr h)⟩
        · exact ⟨τ, hτ, Or.inr h⟩

theorem not_any_mem_fv {vs : List Var} {g : Formula} (h : ¬ (vs.any (· ∈ g.fv) = true)) :
    ∀ v ∈ vs, ¬ g.FV v := by
  intro v hv hfv
  apply h
  simp only [List.any_eq_true, decide_eq_true_eq]
  exact ⟨v, hv, Formula.mem_fv.mpr hfv⟩

/-- `extend_quantifier_scope` is an HT equivalence (hence a classical one). -/
theorem extendQuantifierScope_htEquiv (F : Formula) : HTEquiv (extendQuantifierScope F) F := by
  intro M _ w ρ
  unfold extendQuantifierScope
  split
  · rename_i c q vs f rhs
    split
    · rename_i hc
      split
      · exact Iff.rfl
      · rename_i hany
        have hd := not_any_mem_fv hany
        rcases hc with rfl | rfl
        · exact (extendScope_sem M w ρ q vs f rhs hd).1
        · exact (extendScope_sem M w ρ q vs f rhs hd).2.1
    · exact Iff.rfl
  · rename_i c lhs q vs f _
    split
    · rename_i hc
      split
      · exact Iff.rfl
      · rename_i hany
        have hd := not_any_mem_fv hany
        rcases hc with rfl | rfl
        · exact (extendScope_sem M w ρ q vs f lhs hd).2.2.1
        · exact (extendScope_sem M w ρ q vs f lhs hd).2.2.2
    · exact Iff.rfl
  · exact Iff.rfl

end Anthem
