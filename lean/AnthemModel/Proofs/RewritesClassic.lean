/-
  Meaning preservation of the classic rewrites (C07): extend_quantifier_scope (an HT
  equivalence as well), substitute_defined_variables, and helpers.
-/
import AnthemModel.Proofs.SubstFull
import AnthemModel.Proofs.RewritesBasic
import AnthemModel.Proofs.RewritesQuant
import AnthemModel.Proofs.Decompose
namespace Anthem

/-- re-assign the variables of `vs` to default values of their sorts -/
def resetVars (vs : List Var) (ρ : Asg) : Asg := fun u => if u ∈ vs then u.sort.default else ρ u

theorem resetVars_allUpd (vs : List Var) (ρ : Asg) : AllUpd vs ρ (resetVars vs ρ) :=
  ⟨fun u hu => by simp [resetVars, hu], fun u hu => by simp [resetVars, hu, Srt.default_inSort]⟩

theorem ht_of_allUpd_disjoint (M : HTI) (g : Formula) (w : World) {vs : List Var} {ρ τ : Asg}
    (hτ : AllUpd vs ρ τ) (hd : ∀ v ∈ vs, ¬ g.FV v) : ht M g w τ ↔ ht M g w ρ :=
  ht_agree M g w τ ρ (fun u hu => hτ.1 u (fun hm => hd u hm hu))

theorem extendScope_sem (M : HTI) (w : World) (ρ : Asg) (q : Quant) (vs : List Var) (f g : Formula)
    (hd : ∀ v ∈ vs, ¬ g.FV v) :
    (ht M (.quant q vs (.bin .and f g)) w ρ ↔ ht M (.bin .and (.quant q vs f) g) w ρ) ∧
    (ht M (.quant q vs (.bin .or f g)) w ρ ↔ ht M (.bin .or (.quant q vs f) g) w ρ) ∧
    (ht M (.quant q vs (.bin .and g f)) w ρ ↔ ht M (.bin .and g (.quant q vs f)) w ρ) ∧
    (ht M (.quant q vs (.bin .or g f)) w ρ ↔ ht M (.bin .or g (.quant q vs f)) w ρ) := by
  have hg : ∀ τ, AllUpd vs ρ τ → (ht M g w τ ↔ ht M g w ρ) := fun τ hτ => ht_of_allUpd_disjoint M g w hτ hd
  have h0 := resetVars_allUpd vs ρ
  cases q
  · simp only [ht, bindAll_iff]
    refine ⟨?_, ?_, ?_, ?_⟩
    · exact ⟨fun h => ⟨fun τ hτ => (h τ hτ).1, (hg _ h0).mp (h _ h0).2⟩,
        fun ⟨h1, h2⟩ τ hτ => ⟨h1 τ hτ, (hg τ hτ).mpr h2⟩⟩
    · constructor
      · intro h
        by_cases hgρ : ht M g w ρ
        · exact Or.inr hgρ
        · exact Or.inl fun τ hτ => (h τ hτ).resolve_right (fun hh => hgρ ((hg τ hτ).mp hh))
      · rintro (h | h) τ hτ
        · exact Or.inl (h τ hτ)
        · exact Or.inr ((hg τ hτ).mpr h)
    · exact ⟨fun h => ⟨(hg _ h0).mp (h _ h0).1, fun τ hτ => (h τ hτ).2⟩,
        fun ⟨h2, h1⟩ τ hτ => ⟨(hg τ hτ).mpr h2, h1 τ hτ⟩⟩
    · constructor
      · intro h
        by_cases hgρ : ht M g w ρ
        · exact Or.inl hgρ
        · exact Or.inr fun τ hτ => (h τ hτ).resolve_left (fun hh => hgρ ((hg τ hτ).mp hh))
      · rintro (h | h) τ hτ
        · exact Or.inl ((hg τ hτ).mpr h)
        · exact Or.inr (h τ hτ)
  · simp only [ht, bindEx_iff]
    refine ⟨?_, ?_, ?_, ?_⟩
    · exact ⟨fun ⟨τ, hτ, h1, h2⟩ => ⟨⟨τ, hτ, h1⟩, (hg τ hτ).mp h2⟩,
        fun ⟨⟨τ, hτ, h1⟩, h2⟩ => ⟨τ, hτ, h1, (hg τ hτ).mpr h2⟩⟩
    · constructor
      · rintro ⟨τ, hτ, h | h⟩
        · exact Or.inl ⟨τ, hτ, h⟩
        · exact Or.inr ((hg τ hτ).mp h)
      · rintro (⟨τ, hτ, h⟩ | h)
        · exact ⟨τ, hτ, Or.inl h⟩
        · exact ⟨_, h0, Or.inr ((hg _ h0).mpr h)⟩
    · exact ⟨fun ⟨τ, hτ, h2, h1⟩ => ⟨(hg τ hτ).mp h2, ⟨τ, hτ, h1⟩⟩,
        fun ⟨h2, ⟨τ, hτ, h1⟩⟩ => ⟨τ, hτ, (hg τ hτ).mpr h2, h1⟩⟩
    · constructor
      · rintro ⟨τ, hτ, h | h⟩
        · exact Or.inl ((hg τ hτ).mp h)
        · exact Or.inr ⟨τ, hτ, h⟩
      · rintro (h | ⟨τ, hτ, h⟩)
        · exact ⟨_, h0, Or.inl ((hg _ h0).mpr h)⟩
        · exact ⟨τ, hτ, Or.inr h⟩

theorem not_any_mem_fv {vs : List Var} {g : Formula} (h : ¬ (vs.any (· ∈ g.fv) = true)) :
    ∀ v ∈ vs, ¬ g.FV v := by
  intro v hv hfv
  apply h
  simp only [List.any_eq_true, decide_eq_true_eq]
  exact ⟨v, hv, Formula.mem_fv.mpr hfv⟩

/-- `extend_quantifier_scope` is an HT equivalence (hence a classical one). -/
theorem extendQuantifierScope_htEquiv (F : Formula) : HTEquiv (extendQuantifierScope F) F := by
  intro M _ w ρ
  unfold extendQuantifierScope
  split
  · rename_i c q vs f rhs
    split
    · rename_i hc
      split
      · exact Iff.rfl
      · rename_i hany
        have hd := not_any_mem_fv hany
        rcases hc with rfl | rfl
        · exact (extendScope_sem M w ρ q vs f rhs hd).1
        · exact (extendScope_sem M w ρ q vs f rhs hd).2.1
    · exact Iff.rfl
  · rename_i c lhs q vs f _
    split
    · rename_i hc
      split
      · exact Iff.rfl
      · rename_i hany
        have hd := not_any_mem_fv hany
        rcases hc with rfl | rfl
        · exact (extendScope_sem M w ρ q vs f lhs hd).2.2.1
        · exact (extendScope_sem M w ρ q vs f lhs hd).2.2.2
    · exact Iff.rfl
  · exact Iff.rfl

/-! ## substitute_defined_variables -/

theorem individuals_hold (fc : FcI) (ρ : Asg) : ∀ (gs : List Guard) (t : GTerm),
    cmpChain fc ρ (t.eval fc ρ) gs → ∀ p ∈ individuals t gs,
      p.2.1.holds (p.1.eval fc ρ) (p.2.2.eval fc ρ) := by
  intro gs
  induction gs with
  | nil => intro t _ p hp; simp [individuals] at hp
  | cons g gs ih =>
    intro t h p hp
    simp only [cmpChain] at h
    simp only [individuals, List.mem_cons] at hp
    rcases hp with rfl | hp
    · exact h.1
    · exact ih g.term h.2 p hp

theorem definitionOk_true {v : Var} {x term : GTerm} (hok : definitionOk v x term = true) :
    x = v.toTerm ∧ SortCompatible v term := by
  obtain ⟨vn, vs⟩ := v
  unfold definitionOk at hok
  cases x with
  | var name =>
    cases vs <;> simp at hok
    subst hok
    exact ⟨rfl, fun h => (by cases h), fun h => (by cases h)⟩
  | int it =>
    cases it <;> cases term <;> cases vs <;> simp at hok
    subst hok
    exact ⟨rfl, fun _ => ⟨_, rfl⟩, fun h => (by cases h)⟩
  | symb st =>
    cases st <;> cases term <;> cases vs <;> simp at hok
    subst hok
    exact ⟨rfl, fun h => (by cases h), fun _ => ⟨_, rfl⟩⟩
  | inf | sup | fc _ => simp at hok

theorem definitionCandidate_some {v : Var} {x term d : GTerm}
    (h : definitionCandidate v x term = some d) :
    d = term ∧ x = v.toTerm ∧ SortCompatible v term ∧ v ∉ term.vars := by
  unfold definitionCandidate at h
  split at h
  · rename_i hcond
    simp only [Bool.and_eq_true, Bool.not_eq_true', decide_eq_false_iff_not] at hcond
    injection h with h
    obtain ⟨h1, h2⟩ := definitionOk_true hcond.1
    exact ⟨h.symm, h1, h2, hcond.2⟩
  · cases h

/-- the formula entails `v = d` classically -/
def EntailsEq (f : Formula) (v : Var) (d : GTerm) : Prop :=
  ∀ (I : Interp) (ρ : Asg), sat I f ρ → v.toTerm.eval I.fc ρ = d.eval I.fc ρ

theorem findDefinition_sound (v : Var) : ∀ (f : Formula) (d : GTerm), findDefinition v f = some d →
    EntailsEq f v d ∧ SortCompatible v d ∧ v ∉ d.vars := by
  intro f
  induction f with
  | atomic a =>
    intro d h
    cases a with
    | tru | fls | atom _ => simp [findDefinition] at h
    | cmp t gs =>
      simp only [findDefinition] at h
      obtain ⟨⟨x, term⟩, hmem, hcand⟩ := List.exists_of_findSome?_eq_some h
      obtain ⟨rfl, hx, hcompat, hnv⟩ := definitionCandidate_some hcand
      refine ⟨?_, hcompat, hnv⟩
      intro I ρ hs
      simp only [sat, AtomicF.sat] at hs
      simp only [List.mem_flatMap, List.mem_filterMap] at hmem
      obtain ⟨⟨l, r⟩, ⟨⟨l', rel, r'⟩, hind, hsome⟩, hsw⟩ := hmem
      have hrel := individuals_hold I.fc ρ gs t hs _ hind
      simp only at hsome
      split at hsome
      · rename_i hre
        injection hsome with hsome
        injection hsome with h1 h2
        subst h1; subst h2
        simp only at hrel hre
        rw [hre] at hrel
        simp only [Rel.holds] at hrel
        simp only [List.mem_cons, Prod.mk.injEq, List.mem_nil_iff, or_false] at hsw
        rcases hsw with ⟨rfl, rfl⟩ | ⟨rfl, rfl⟩
        · rw [← hx]; exact hrel
        · rw [← hx]; exact hrel.symm
      · cases hsome
  | not f _ => intro d h; simp [findDefinition] at h
  | quant q vs f _ => intro d h; simp [findDefinition] at h
  | bin c l r ihl ihr =>
    intro d h
    cases c with
    | and =>
      simp only [findDefinition] at h
      cases hl : findDefinition v l with
      | some d' =>
        simp only [hl, Option.orElse] at h
        injection h with h; subst h
        obtain ⟨h1, h2, h3⟩ := ihl d' hl
        exact ⟨fun I ρ hs => h1 I ρ (by simp only [sat] at hs; exact hs.1), h2, h3⟩
      | none =>
        simp only [hl, Option.orElse] at h
        obtain ⟨h1, h2, h3⟩ := ihr d h
        exact ⟨fun I ρ hs => h1 I ρ (by simp only [sat] at hs; exact hs.2), h2, h3⟩
    | or | imp | rimp | iff => simp [findDefinition] at h

theorem eval_inSort_of_compat {v : Var} {d : GTerm} (hc : SortCompatible v d) (fc : FcI) (ρ : Asg) :
    (d.eval fc ρ).inSort v.sort := by
  obtain ⟨vn, vs⟩ := v
  cases vs
  · trivial
  · obtain ⟨si, rfl⟩ := hc.1 rfl; simp [GTerm.eval, Dom.inSort]
  · obtain ⟨ss, rfl⟩ := hc.2 rfl; simp [GTerm.eval, Dom.inSort]

theorem defined_step (I : Interp) (vs : List Var) (v : Var) (hv : v ∈ vs) (b : Formula) (d : GTerm)
    (hd : findDefinition v b = some d) (ρ : Asg) :
    bindEx vs (sat I (b.subst v d)) ρ ↔ bindEx vs (sat I b) ρ := by
  obtain ⟨hent, hcompat, _⟩ := findDefinition_sound v b d hd
  rw [bindEx_iff, bindEx_iff]
  constructor
  · rintro ⟨τ, hτ, hs⟩
    rw [sat_subst I b v d hcompat] at hs
    refine ⟨τ.set v (d.eval I.fc τ), ⟨fun u hu => ?_, fun u hu => ?_⟩, hs⟩
    · have : u ≠ v := fun e => hu (e ▸ hv)
      rw [Asg.set_other _ _ this]; exact hτ.1 u hu
    · by_cases e : u = v
      · subst e; rw [Asg.set_same]; exact eval_inSort_of_compat hcompat I.fc τ
      · rw [Asg.set_other _ _ e]; exact hτ.2 u hu
  · rintro ⟨τ, hτ, hs⟩
    refine ⟨τ, hτ, ?_⟩
    rw [sat_subst I b v d hcompat]
    have h1 := hent I τ hs
    rw [toTerm_eval', vval_of_inSort (hτ.2 v hv)] at h1
    rw [← h1]
    have : τ.set v (τ v) = τ := by
      funext u; by_cases e : u = v
      · subst e; simp
      · simp [Asg.set_other _ _ e]
    rw [this]; exact hs

theorem substituteDefinedVariables_classEquiv (F : Formula) :
    ClassEquiv (substituteDefinedVariables F) F := by
  intro I ρ
  unfold substituteDefinedVariables
  split
  · rename_i vs f
    rw [sat_quantify]
    simp only [sat]
    suffices h : ∀ (l : List Var), (∀ v ∈ l, v ∈ vs) → ∀ b : Formula,
        bindEx vs (sat I (l.foldl (fun (b : Formula) v =>
          match findDefinition v b with
          | some d => b.subst v d
          | none => b) b)) ρ ↔ bindEx vs (sat I b) ρ by
      exact h vs.reverse (fun v hv => List.mem_reverse.mp hv) f
    intro l
    induction l with
    | nil => intro _ b; exact Iff.rfl
    | cons v l ih =>
      intro hl b
      simp only [List.foldl_cons]
      rw [ih (fun u hu => hl u (List.mem_cons_of_mem _ hu))]
      cases hd : findDefinition v b with
      | none => exact Iff.rfl
      | some d => exact defined_step I vs v (hl v List.mem_cons_self) b d hd ρ
  · exact Iff.rfl

end Anthem
