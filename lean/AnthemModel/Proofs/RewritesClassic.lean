/-
  Meaning preservation of the classic rewrites (C07): extend_quantifier_scope (an HT
  equivalence as well), substitute_defined_variables, and helpers.
-/
import AnthemModel.Proofs.SubstFull
import AnthemModel.Proofs.RewritesBasic
import AnthemModel.Proofs.RewritesQuant
import AnthemModel.Proofs.Decompose
import AnthemModel.Proofs.ChooseFresh
namespace Anthem

/-- re-assign the variables of `vs` to default values of their sorts -/
def resetVars (vs : List Var) (ρ : Asg) : Asg := fun u => if u ∈ vs then u.sort.default else ρ u

theorem resetVars_allUpd (vs : List Var) (ρ : Asg) : AllUpd vs ρ (resetVars vs ρ) :=
  ⟨fun u hu => by simp [resetVars, hu], fun u hu => by simp [resetVars, hu, Srt.default_inSort]⟩

theorem ht_of_allUpd_disjoint (M : HTI) (g : Formula) (w : World) {vs : List Var} {ρ τ : Asg}
    (hτ : AllUpd vs ρ τ) (hd : ∀ v ∈ vs, ¬ g.FV v) : ht M g w τ ↔ ht M g w ρ :=
  ht_agree M g w τ ρ (fun u hu => hτ.1 u (fun hm => hd u hm hu))

theorem extendScope_sem (M : HTI) (w : World) (ρ : Asg) (q : Quant) (vs : List Var) (f g : Formula)
    (hd : ∀ v ∈ vs, ¬ g.FV v) :
    (ht M (.quant q vs (.bin .and f g)) w ρ ↔ ht M (.bin .and (.quant q vs f) g) w ρ) ∧
    (ht M (.quant q vs (.bin .or f g)) w ρ ↔ ht M (.bin .or (.quant q vs f) g) w ρ) ∧
    (ht M (.quant q vs (.bin .and g f)) w ρ ↔ ht M (.bin .and g (.quant q vs f)) w ρ) ∧
    (ht M (.quant q vs (.bin .or g f)) w ρ ↔ ht M (.bin .or g (.quant q vs f)) w ρ) := by
  have hg : ∀ τ, AllUpd vs ρ τ → (ht M g w τ ↔ ht M g w ρ) := fun τ hτ => ht_of_allUpd_disjoint M g w hτ hd
  have h0 := resetVars_allUpd vs ρ
  cases q
  · simp only [ht, bindAll_iff]
    refine ⟨?_, ?_, ?_, ?_⟩
    · exact ⟨fun h => ⟨fun τ hτ => (h τ hτ).1, (hg _ h0).mp (h _ h0).2⟩,
        fun ⟨h1, h2⟩ τ hτ => ⟨h1 τ hτ, (hg τ hτ).mpr h2⟩⟩
    · constructor
      · intro h
        by_cases hgρ : ht M g w ρ
        · exact Or.inr hgρ
        · exact Or.inl fun τ hτ => (h τ hτ).resolve_right (fun hh => hgρ ((hg τ hτ).mp hh))
      · rintro (h | h) τ hτ
        · exact Or.inl (h τ hτ)
        · exact Or.inr ((hg τ hτ).mpr h)
    · exact ⟨fun h => ⟨(hg _ h0).mp (h _ h0).1, fun τ hτ => (h τ hτ).2⟩,
        fun ⟨h2, h1⟩ τ hτ => ⟨(hg τ hτ).mpr h2, h1 τ hτ⟩⟩
    · constructor
      · intro h
        by_cases hgρ : ht M g w ρ
        · exact Or.inl hgρ
        · exact Or.inr fun τ hτ => (h τ hτ).resolve_left (fun hh => hgρ ((hg τ hτ).mp hh))
      · rintro (h | h) τ hτ
        · exact Or.inl ((hg τ hτ).mpr h)
        · exact Or.inr (h τ hτ)
  · simp only [ht, bindEx_iff]
    refine ⟨?_, ?_, ?_, ?_⟩
    · exact ⟨fun ⟨τ, hτ, h1, h2⟩ => ⟨⟨τ, hτ, h1⟩, (hg τ hτ).mp h2⟩,
        fun ⟨⟨τ, hτ, h1⟩, h2⟩ => ⟨τ, hτ, h1, (hg τ hτ).mpr h2⟩⟩
    · constructor
      · rintro ⟨τ, hτ, h | h⟩
        · exact Or.inl ⟨τ, hτ, h⟩
        · exact Or.inr ((hg τ hτ).mp h)
      · rintro (⟨τ, hτ, h⟩ | h)
        · exact ⟨τ, hτ, Or.inl h⟩
        · exact ⟨_, h0, Or.inr ((hg _ h0).mpr h)⟩
    · exact ⟨fun ⟨τ, hτ, h2, h1⟩ => ⟨(hg τ hτ).mp h2, ⟨τ, hτ, h1⟩⟩,
        fun ⟨h2, ⟨τ, hτ, h1⟩⟩ => ⟨τ, hτ, (hg τ hτ).mpr h2, h1⟩⟩
    · constructor
      · rintro ⟨τ, hτ, h | h⟩
        · exact Or.inl ((hg τ hτ).mp h)
        · exact Or.inr ⟨τ, hτ, h⟩
      · rintro (h | ⟨τ, hτ, h⟩)
        · exact ⟨_, h0, Or.inl ((hg _ h0).mpr h)⟩
        · exact ⟨τ, hτ, Or.inr h⟩

theorem not_any_mem_fv {vs : List Var} {g : Formula} (h : ¬ (vs.any (· ∈ g.fv) = true)) :
    ∀ v ∈ vs, ¬ g.FV v := by
  intro v hv hfv
  apply h
  simp only [List.any_eq_true, decide_eq_true_eq]
  exact ⟨v, hv, Formula.mem_fv.mpr hfv⟩

/-- `extend_quantifier_scope` is an HT equivalence (hence a classical one). -/
theorem extendQuantifierScope_htEquiv (F : Formula) : HTEquiv (extendQuantifierScope F) F := by
  intro M _ w ρ
  unfold extendQuantifierScope
  split
  · rename_i c q vs f rhs
    split
    · rename_i hc
      split
      · exact Iff.rfl
      · rename_i hany
        have hd := not_any_mem_fv hany
        rcases hc with rfl | rfl
        · exact (extendScope_sem M w ρ q vs f rhs hd).1
        · exact (extendScope_sem M w ρ q vs f rhs hd).2.1
    · exact Iff.rfl
  · rename_i c lhs q vs f _
    split
    · rename_i hc
      split
      · exact Iff.rfl
      · rename_i hany
        have hd := not_any_mem_fv hany
        rcases hc with rfl | rfl
        · exact (extendScope_sem M w ρ q vs f lhs hd).2.2.1
        · exact (extendScope_sem M w ρ q vs f lhs hd).2.2.2
    · exact Iff.rfl
  · exact Iff.rfl

/-! ## substitute_defined_variables -/

theorem individuals_hold (fc : FcI) (ρ : Asg) : ∀ (gs : List Guard) (t : GTerm),
    cmpChain fc ρ (t.eval fc ρ) gs → ∀ p ∈ individuals t gs,
      p.2.1.holds (p.1.eval fc ρ) (p.2.2.eval fc ρ) := by
  intro gs
  induction gs with
  | nil => intro t _ p hp; simp [individuals] at hp
  | cons g gs ih =>
    intro t h p hp
    simp only [cmpChain] at h
    simp only [individuals, List.mem_cons] at hp
    rcases hp with rfl | hp
    · exact h.1
    · exact ih g.term h.2 p hp

theorem definitionOk_true {v : Var} {x term : GTerm} (hok : definitionOk v x term = true) :
    x = v.toTerm ∧ SortCompatible v term := by
  obtain ⟨vn, vs⟩ := v
  unfold definitionOk at hok
  cases x with
  | var name =>
    cases vs <;> simp at hok
    subst hok
    exact ⟨rfl, fun h => (by cases h), fun h => (by cases h)⟩
  | int it =>
    cases it <;> cases term <;> cases vs <;> simp at hok
    subst hok
    exact ⟨rfl, fun _ => ⟨_, rfl⟩, fun h => (by cases h)⟩
  | symb st =>
    cases st <;> cases term <;> cases vs <;> simp at hok
    subst hok
    exact ⟨rfl, fun h => (by cases h), fun _ => ⟨_, rfl⟩⟩
  | inf | sup | fc _ => simp at hok

theorem definitionCandidate_some {v : Var} {x term d : GTerm}
    (h : definitionCandidate v x term = some d) :
    d = term ∧ x = v.toTerm ∧ SortCompatible v term ∧ v ∉ term.vars := by
  unfold definitionCandidate at h
  split at h
  · rename_i hcond
    simp only [Bool.and_eq_true, Bool.not_eq_true', decide_eq_false_iff_not] at hcond
    injection h with h
    obtain ⟨h1, h2⟩ := definitionOk_true hcond.1
    exact ⟨h.symm, h1, h2, hcond.2⟩
  · cases h

/-- the formula entails `v = d` classically -/
def EntailsEq (f : Formula) (v : Var) (d : GTerm) : Prop :=
  ∀ (I : Interp) (ρ : Asg), sat I f ρ → v.toTerm.eval I.fc ρ = d.eval I.fc ρ

theorem findDefinition_sound (v : Var) : ∀ (f : Formula) (d : GTerm), findDefinition v f = some d →
    EntailsEq f v d ∧ SortCompatible v d ∧ v ∉ d.vars := by
  intro f
  induction f with
  | atomic a =>
    intro d h
    cases a with
    | tru | fls | atom _ => simp [findDefinition] at h
    | cmp t gs =>
      simp only [findDefinition] at h
      obtain ⟨⟨x, term⟩, hmem, hcand⟩ := List.exists_of_findSome?_eq_some h
      obtain ⟨rfl, hx, hcompat, hnv⟩ := definitionCandidate_some hcand
      refine ⟨?_, hcompat, hnv⟩
      intro I ρ hs
      simp only [sat, AtomicF.sat] at hs
      simp only [List.mem_flatMap, List.mem_filterMap] at hmem
      obtain ⟨⟨l, r⟩, ⟨⟨l', rel, r'⟩, hind, hsome⟩, hsw⟩ := hmem
      have hrel := individuals_hold I.fc ρ gs t hs _ hind
      simp only at hsome
      split at hsome
      · rename_i hre
        injection hsome with hsome
        injection hsome with h1 h2
        subst h1; subst h2
        simp only at hrel hre
        rw [hre] at hrel
        simp only [Rel.holds] at hrel
        simp only [List.mem_cons, Prod.mk.injEq, List.mem_nil_iff, or_false] at hsw
        rcases hsw with ⟨rfl, rfl⟩ | ⟨rfl, rfl⟩
        · rw [← hx]; exact hrel
        · rw [← hx]; exact hrel.symm
      · cases hsome
  | not f _ => intro d h; simp [findDefinition] at h
  | quant q vs f _ => intro d h; simp [findDefinition] at h
  | bin c l r ihl ihr =>
    intro d h
    cases c with
    | and =>
      simp only [findDefinition] at h
      cases hl : findDefinition v l with
      | some d' =>
        simp only [hl, Option.orElse] at h
        injection h with h; subst h
        obtain ⟨h1, h2, h3⟩ := ihl d' hl
        exact ⟨fun I ρ hs => h1 I ρ (by simp only [sat] at hs; exact hs.1), h2, h3⟩
      | none =>
        simp only [hl, Option.orElse] at h
        obtain ⟨h1, h2, h3⟩ := ihr d h
        exact ⟨fun I ρ hs => h1 I ρ (by simp only [sat] at hs; exact hs.2), h2, h3⟩
    | or | imp | rimp | iff => simp [findDefinition] at h

theorem eval_inSort_of_compat {v : Var} {d : GTerm} (hc : SortCompatible v d) (fc : FcI) (ρ : Asg) :
    (d.eval fc ρ).inSort v.sort := by
  obtain ⟨vn, vs⟩ := v
  cases vs
  · trivial
  · obtain ⟨si, rfl⟩ := hc.1 rfl; simp [GTerm.eval, Dom.inSort]
  · obtain ⟨ss, rfl⟩ := hc.2 rfl; simp [GTerm.eval, Dom.inSort]

theorem defined_step (I : Interp) (vs : List Var) (v : Var) (hv : v ∈ vs) (b : Formula) (d : GTerm)
    (hd : findDefinition v b = some d) (ρ : Asg) :
    bindEx vs (sat I (b.subst v d)) ρ ↔ bindEx vs (sat I b) ρ := by
  obtain ⟨hent, hcompat, _⟩ := findDefinition_sound v b d hd
  rw [bindEx_iff, bindEx_iff]
  constructor
  · rintro ⟨τ, hτ, hs⟩
    rw [sat_subst I b v d hcompat] at hs
    refine ⟨τ.set v (d.eval I.fc τ), ⟨fun u hu => ?_, fun u hu => ?_⟩, hs⟩
    · have : u ≠ v := fun e => hu (e ▸ hv)
      rw [Asg.set_other _ _ this]; exact hτ.1 u hu
    · by_cases e : u = v
      · subst e; rw [Asg.set_same]; exact eval_inSort_of_compat hcompat I.fc τ
      · rw [Asg.set_other _ _ e]; exact hτ.2 u hu
  · rintro ⟨τ, hτ, hs⟩
    refine ⟨τ, hτ, ?_⟩
    rw [sat_subst I b v d hcompat]
    have h1 := hent I τ hs
    rw [toTerm_eval', vval_of_inSort (hτ.2 v hv)] at h1
    rw [← h1]
    have : τ.set v (τ v) = τ := by
      funext u; by_cases e : u = v
      · subst e; simp
      · simp [Asg.set_other _ _ e]
    rw [this]; exact hs

theorem substituteDefinedVariables_classEquiv (F : Formula) :
    ClassEquiv (substituteDefinedVariables F) F := by
  intro I ρ
  unfold substituteDefinedVariables
  split
  · rename_i vs f
    rw [sat_quantify]
    simp only [sat]
    suffices h : ∀ (l : List Var), (∀ v ∈ l, v ∈ vs) → ∀ b : Formula,
        bindEx vs (sat I (l.foldl definedStep b)) ρ ↔ bindEx vs (sat I b) ρ by
      exact h vs.reverse (fun v hv => List.mem_reverse.mp hv) f
    intro l
    induction l with
    | nil => intro _ b; exact Iff.rfl
    | cons v l ih =>
      intro hl b
      simp only [List.foldl_cons]
      rw [ih (fun u hu => hl u (List.mem_cons_of_mem _ hu))]
      cases hd : findDefinition v b with
      | none =>
        have e : definedStep b v = b := by simp only [definedStep, hd]
        rw [e]
      | some d =>
        have e : definedStep b v = b.subst v d := by simp only [definedStep, hd]
        rw [e]
        exact defined_step I vs v (hl v List.mem_cons_self) b d hd ρ
  · exact Iff.rfl

/-! ## simplify_transitive_equality -/

theorem asVar?_some {t : GTerm} {v : Var} (h : t.asVar? = some v) : t = v.toTerm := by
  cases t with
  | var x => simp [GTerm.asVar?] at h; subst h; rfl
  | int it => cases it <;> simp [GTerm.asVar?] at h; subst h; rfl
  | symb st => cases st <;> simp [GTerm.asVar?] at h; subst h; rfl
  | inf | sup | fc _ => simp [GTerm.asVar?] at h

theorem isVarIn_some {vars : List Var} {t : GTerm} {v : Var} (h : isVarIn vars t = some v) :
    v ∈ vars ∧ t = v.toTerm := by
  unfold isVarIn at h
  cases ha : t.asVar? with
  | none => simp [ha] at h
  | some w =>
    simp only [ha] at h
    split at h
    · injection h with h; subst h; exact ⟨by assumption, asVar?_some ha⟩
    · cases h

theorem subsort_compat {k d : Var} (h : subsort k d = true) : SortCompatible d k.toTerm := by
  obtain ⟨kn, ks⟩ := k
  obtain ⟨dn, ds⟩ := d
  cases ks <;> cases ds <;> simp [subsort] at h <;>
    exact ⟨fun e => (by first | (cases e; done) | exact ⟨.var kn, rfl⟩),
           fun e => (by first | (cases e; done) | exact ⟨.var kn, rfl⟩)⟩

/-- the comparison `c` read as a chain -/
def EqHolds (fc : FcI) (ρ : Asg) (c : Cmp) : Prop := cmpChain fc ρ (c.1.eval fc ρ) c.2

theorem eqHolds_single (fc : FcI) (ρ : Asg) (l r : GTerm) :
    EqHolds fc ρ (l, [⟨.eq, r⟩]) ↔ l.eval fc ρ = r.eval fc ρ := by
  simp [EqHolds, cmpChain, Rel.holds]

/-- what `transitive_equality` guarantees about its answer -/
def TEFacts (c1 c2 : Cmp) (vars : List Var) (k d : Var) (dt : Cmp) : Prop :=
  k ∈ vars ∧ d ∈ vars ∧ subsort k d = true ∧
  ∃ (kc : Cmp) (t : GTerm), ((kc = c1 ∧ dt = c2) ∨ (kc = c2 ∧ dt = c1)) ∧
    ∀ (fc : FcI) (ρ : Asg), (EqHolds fc ρ kc ↔ k.toTerm.eval fc ρ = t.eval fc ρ) ∧
      (EqHolds fc ρ dt ↔ d.toTerm.eval fc ρ = t.eval fc ρ)

theorem pick_facts {v1 v2 : Var} {c1 c2 : Cmp} {vars : List Var} {k d : Var} {dt : Cmp}
    (hv1 : v1 ∈ vars) (hv2 : v2 ∈ vars) (t : GTerm)
    (h1 : ∀ (fc : FcI) (ρ : Asg), EqHolds fc ρ c1 ↔ v1.toTerm.eval fc ρ = t.eval fc ρ)
    (h2 : ∀ (fc : FcI) (ρ : Asg), EqHolds fc ρ c2 ↔ v2.toTerm.eval fc ρ = t.eval fc ρ)
    (h : pickKeepDrop v1 v2 c1 c2 = some (k, d, dt)) : TEFacts c1 c2 vars k d dt := by
  unfold pickKeepDrop at h
  split at h
  · rename_i hs
    injection h with h; injection h with ha hb; injection hb with hb hc
    subst ha; subst hb; subst hc
    exact ⟨hv1, hv2, hs, c1, t, Or.inl ⟨rfl, rfl⟩, fun fc ρ => ⟨h1 fc ρ, h2 fc ρ⟩⟩
  · split at h
    · rename_i hs
      injection h with h; injection h with ha hb; injection hb with hb hc
      subst ha; subst hb; subst hc
      exact ⟨hv2, hv1, hs, c2, t, Or.inr ⟨rfl, rfl⟩, fun fc ρ => ⟨h2 fc ρ, h1 fc ρ⟩⟩
    · cases h

theorem transitiveEquality_some {l1 r1 l2 r2 : GTerm} {vars : List Var} {k d : Var} {dt : Cmp}
    (h : transitiveEquality (l1, [⟨.eq, r1⟩]) (l2, [⟨.eq, r2⟩]) vars = some (k, d, dt)) :
    TEFacts (l1, [⟨.eq, r1⟩]) (l2, [⟨.eq, r2⟩]) vars k d dt := by
  unfold transitiveEquality at h
  simp only at h
  cases a1 : isVarIn vars l1 with
  | some v1 =>
    obtain ⟨hv1, e1⟩ := isVarIn_some a1
    simp only [a1] at h
    cases a2 : isVarIn vars l2 with
    | some v2 =>
      obtain ⟨hv2, e2⟩ := isVarIn_some a2
      simp only [a2] at h
      split at h
      · rename_i he
        refine pick_facts hv1 hv2 r1 (fun fc ρ => ?_) (fun fc ρ => ?_) h
        · rw [eqHolds_single, e1]
        · rw [eqHolds_single, e2, he]
      · cases h
    | none =>
      simp only [a2] at h
      cases a3 : isVarIn vars r2 with
      | some v2 =>
        obtain ⟨hv2, e2⟩ := isVarIn_some a3
        simp only [a3] at h
        split at h
        · rename_i he
          refine pick_facts hv1 hv2 r1 (fun fc ρ => ?_) (fun fc ρ => ?_) h
          · rw [eqHolds_single, e1]
          · rw [eqHolds_single, e2, he]; exact eq_comm
        · cases h
      | none => simp [a3] at h
  | none =>
    simp only [a1] at h
    cases a1' : isVarIn vars r1 with
    | some v1 =>
      obtain ⟨hv1, e1⟩ := isVarIn_some a1'
      simp only [a1'] at h
      cases a2 : isVarIn vars l2 with
      | some v2 =>
        obtain ⟨hv2, e2⟩ := isVarIn_some a2
        simp only [a2] at h
        split at h
        · rename_i he
          refine pick_facts hv1 hv2 l1 (fun fc ρ => ?_) (fun fc ρ => ?_) h
          · rw [eqHolds_single, e1]; exact eq_comm
          · rw [eqHolds_single, e2, he]
        · cases h
      | none =>
        simp only [a2] at h
        cases a3 : isVarIn vars r2 with
        | some v2 =>
          obtain ⟨hv2, e2⟩ := isVarIn_some a3
          simp only [a3] at h
          split at h
          · rename_i he
            refine pick_facts hv1 hv2 l1 (fun fc ρ => ?_) (fun fc ρ => ?_) h
            · rw [eqHolds_single, e1]; exact eq_comm
            · rw [eqHolds_single, e2, he]; exact eq_comm
          · cases h
        | none => simp [a3] at h
    | none => simp [a1'] at h

theorem asEqCmp_some {ct : Formula} {c : Cmp} (h : asEqCmp ct = some c) :
    ct = .atomic (.cmp c.1 c.2) ∧ ∃ r, c.2 = [⟨.eq, r⟩] := by
  cases ct with
  | atomic a =>
    cases a with
    | cmp t gs =>
      simp only [asEqCmp] at h
      split at h
      · rename_i he
        injection h with h; subst h
        refine ⟨rfl, ?_⟩
        unfold equalityComparison at he
        split at he
        · rename_i g
          obtain ⟨rel, term⟩ := g
          simp only [decide_eq_true_eq] at he
          subst he
          exact ⟨term, rfl⟩
        · cases he
      · cases h
    | tru | fls | atom _ => simp [asEqCmp] at h
  | not _ | bin _ _ _ | quant _ _ _ => simp [asEqCmp] at h

theorem indexFrom_getElem? {α} {xs : List α} {k i : Nat} {x : α} (h : (i, x) ∈ indexFrom k xs) :
    ∃ n, i = k + n ∧ xs[n]? = some x := by
  induction xs generalizing k with
  | nil => simp [indexFrom] at h
  | cons y ys ih =>
    simp only [indexFrom, List.mem_cons, Prod.mk.injEq] at h
    rcases h with ⟨rfl, rfl⟩ | h
    · exact ⟨0, rfl, rfl⟩
    · obtain ⟨n, hn, hx⟩ := ih h
      exact ⟨n + 1, by omega, by simpa using hx⟩

theorem transitiveSearch_some {cts : List Formula} {vars : List Var} {j : Nat} {c1 c2 : Cmp}
    {k d : Var} {dt : Cmp} (h : transitiveSearch cts vars = some (j, c1, c2, k, d, dt)) :
    ∃ (i : Nat) (ct1 ct2 : Formula), i ≠ j ∧ cts[i]? = some ct1 ∧ cts[j]? = some ct2 ∧
      asEqCmp ct1 = some c1 ∧ asEqCmp ct2 = some c2 ∧
      transitiveEquality c1 c2 vars = some (k, d, dt) := by
  unfold transitiveSearch at h
  obtain ⟨⟨i, ct1⟩, hm1, h1⟩ := List.exists_of_findSome?_eq_some h
  simp only at h1
  cases e1 : asEqCmp ct1 with
  | none => simp [e1] at h1
  | some c1' =>
    simp only [e1] at h1
    obtain ⟨⟨j', ct2⟩, hm2, h2⟩ := List.exists_of_findSome?_eq_some h1
    simp only at h2
    cases e2 : asEqCmp ct2 with
    | none => simp [e2] at h2
    | some c2' =>
      simp only [e2] at h2
      split at h2
      · rename_i hij
        cases e3 : transitiveEquality c1' c2' vars with
        | none => simp [e3] at h2
        | some res =>
          obtain ⟨k', d', dt'⟩ := res
          simp only [e3, Option.some.injEq, Prod.mk.injEq] at h2
          obtain ⟨rfl, rfl, rfl, rfl, rfl, rfl⟩ := h2
          obtain ⟨n1, hn1, hx1⟩ := indexFrom_getElem? hm1
          obtain ⟨n2, hn2, hx2⟩ := indexFrom_getElem? hm2
          simp only [Nat.zero_add] at hn1 hn2
          subst hn1; subst hn2
          exact ⟨i, ct1, ct2, hij, hx1, hx2, e1, e2, e3⟩
      · cases h2

theorem sat_conjoinInvert (I : Interp) (ρ : Asg) : ∀ f : Formula,
    (sat I f ρ ↔ ∀ c ∈ conjoinInvert f, sat I c ρ) := by
  intro f
  induction f with
  | bin c l r ihl ihr =>
    cases c with
    | and =>
      simp only [conjoinInvert, List.mem_append, sat]
      rw [ihl, ihr]
      constructor
      · rintro ⟨h1, h2⟩ c (hc | hc)
        · exact h1 c hc
        · exact h2 c hc
      · intro h; exact ⟨fun c hc => h c (Or.inl hc), fun c hc => h c (Or.inr hc)⟩
    | or | imp | rimp | iff => simp [conjoinInvert]
  | atomic _ | not _ _ | quant _ _ _ _ => simp [conjoinInvert]

theorem mem_eraseIdx_of_ne {α} {l : List α} {i j : Nat} {a : α} (h : l[i]? = some a) (hij : i ≠ j) :
    a ∈ l.eraseIdx j := by
  induction l generalizing i j with
  | nil => simp at h
  | cons x xs ih =>
    cases j with
    | zero =>
      cases i with
      | zero => exact absurd rfl hij
      | succ i => simp only [List.eraseIdx_cons_zero]; simp at h; exact List.mem_of_getElem? h
    | succ j =>
      simp only [List.eraseIdx_cons_succ]
      cases i with
      | zero => simp at h; subst h; exact List.mem_cons_self
      | succ i =>
        simp at h
        exact List.mem_cons_of_mem _ (ih h (fun e => hij (by omega)))

/-- the semantic core: dropping the second equation and replacing `d` by `k` -/
theorem te_sem (I : Interp) (vars : List Var) (cts rest : List Formula) (k d : Var) (kc dt : Cmp)
    (t : GTerm) (hk : k ∈ vars) (hd : d ∈ vars) (hsub : subsort k d = true)
    (hkc : ∀ (fc : FcI) (ρ : Asg), EqHolds fc ρ kc ↔ k.toTerm.eval fc ρ = t.eval fc ρ)
    (hdt : ∀ (fc : FcI) (ρ : Asg), EqHolds fc ρ dt ↔ d.toTerm.eval fc ρ = t.eval fc ρ)
    (R1 : ∀ c ∈ rest, c ∈ cts)
    (R2 : ∀ c ∈ cts, c ∈ rest ∨ c = .atomic (.cmp dt.1 dt.2))
    (R3 : ∀ τ : Asg, (∀ c ∈ rest, sat I c τ) → EqHolds I.fc τ kc)
    (R4 : Formula.atomic (.cmp dt.1 dt.2) ∈ cts) (ρ : Asg) :
    bindEx vars (sat I ((conjoin rest).subst d k.toTerm)) ρ ↔
      bindEx vars (fun τ => ∀ c ∈ cts, sat I c τ) ρ := by
  have hcompat := subsort_compat hsub
  rw [bindEx_iff, bindEx_iff]
  constructor
  · rintro ⟨τ, hτ, hs⟩
    rw [sat_subst I _ d _ hcompat, sat_conjoin] at hs
    have hin : (k.toTerm.eval I.fc τ).inSort d.sort := eval_inSort_of_compat hcompat I.fc τ
    refine ⟨τ.set d (k.toTerm.eval I.fc τ), ⟨fun u hu => ?_, fun u hu => ?_⟩, ?_⟩
    · have : u ≠ d := fun e => hu (e ▸ hd)
      rw [Asg.set_other _ _ this]; exact hτ.1 u hu
    · by_cases e : u = d
      · subst e; rw [Asg.set_same]; exact hin
      · rw [Asg.set_other _ _ e]; exact hτ.2 u hu
    · have hkd : d.toTerm.eval I.fc (τ.set d (k.toTerm.eval I.fc τ)) =
          k.toTerm.eval I.fc (τ.set d (k.toTerm.eval I.fc τ)) := by
        have hin' : (vval τ k).inSort d.sort := by rw [← toTerm_eval' I.fc]; exact hin
        rw [toTerm_eval', toTerm_eval', toTerm_eval']
        rw [vval_of_inSort (by rw [Asg.set_same]; exact hin'), Asg.set_same]
        by_cases e : k = d
        · subst e
          rw [vval_of_inSort (σ := τ.set k (vval τ k)) (v := k) (by rw [Asg.set_same]; exact hin'),
            Asg.set_same]
        · simp only [vval, Asg.set_other _ _ e]
      have hkc' := (hkc I.fc _).mp (R3 _ hs)
      intro c hc
      rcases R2 c hc with hc | rfl
      · exact hs c hc
      · show EqHolds I.fc _ dt
        rw [hdt, hkd]; exact hkc'
  · rintro ⟨τ, hτ, hall⟩
    refine ⟨τ, hτ, ?_⟩
    rw [sat_subst I _ d _ hcompat]
    have hrest : ∀ c ∈ rest, sat I c τ := fun c hc => hall c (R1 c hc)
    have h1 := (hkc I.fc τ).mp (R3 τ hrest)
    have h2 : EqHolds I.fc τ dt := hall _ R4
    rw [hdt, toTerm_eval', vval_of_inSort (hτ.2 d hd)] at h2
    have : τ.set d (k.toTerm.eval I.fc τ) = τ := by
      rw [h1, ← h2]
      funext u; by_cases e : u = d
      · subst e; simp
      · simp [Asg.set_other _ _ e]
    rw [this, sat_conjoin]; exact hrest

theorem simplifyTransitiveEquality_classEquiv (F : Formula) :
    ClassEquiv (simplifyTransitiveEquality F) F := by
  intro I ρ
  unfold simplifyTransitiveEquality
  split
  · rename_i vars l r
    cases hs : transitiveSearch (conjoinInvert (.bin .and l r)) vars with
    | none => simp only [hs]
    | some res =>
      obtain ⟨j, c1, c2, k, d, dt⟩ := res
      simp only [hs]
      obtain ⟨i, ct1, ct2, hij, hi, hj, e1, e2, e3⟩ := transitiveSearch_some hs
      obtain ⟨hct1, r1, hg1⟩ := asEqCmp_some e1
      obtain ⟨hct2, r2, hg2⟩ := asEqCmp_some e2
      obtain ⟨l1, g1⟩ := c1
      obtain ⟨l2, g2⟩ := c2
      simp only at hg1 hg2 hct1 hct2
      subst hg1; subst hg2
      obtain ⟨hk, hd, hsub, kc, t, hwhich, hsem⟩ := transitiveEquality_some e3
      have hm1 : ct1 ∈ conjoinInvert (.bin .and l r) := List.mem_of_getElem? hi
      have hm2 : ct2 ∈ conjoinInvert (.bin .and l r) := List.mem_of_getElem? hj
      have hdtmem : Formula.atomic (.cmp dt.1 dt.2) ∈ conjoinInvert (.bin .and l r) := by
        rcases hwhich with ⟨_, rfl⟩ | ⟨_, rfl⟩
        · rw [← hct2]; exact hm2
        · rw [← hct1]; exact hm1
      have hkcmem : Formula.atomic (.cmp kc.1 kc.2) ∈ conjoinInvert (.bin .and l r) := by
        rcases hwhich with ⟨rfl, _⟩ | ⟨rfl, _⟩
        · rw [← hct1]; exact hm1
        · rw [← hct2]; exact hm2
      simp only [sat]
      have hbody : ∀ τ, (sat I l τ ∧ sat I r τ) ↔ ∀ c ∈ conjoinInvert (.bin .and l r), sat I c τ :=
        fun τ => sat_conjoinInvert I τ (.bin .and l r)
      rw [show (fun x => sat I l x ∧ sat I r x) =
          (fun τ => ∀ c ∈ conjoinInvert (.bin .and l r), sat I c τ) from
        funext fun τ => propext (hbody τ)]
      refine te_sem I vars _ _ k d kc dt t hk hd hsub (fun fc ρ => (hsem fc ρ).1)
        (fun fc ρ => (hsem fc ρ).2) ?_ ?_ ?_ hdtmem ρ
      · -- R1
        intro c hc
        split at hc
        · exact List.mem_of_mem_eraseIdx hc
        · exact (List.mem_filter.mp hc).1
      · -- R2
        intro c hc
        split
        · rename_i hcond
          simp only [Bool.and_eq_true, decide_eq_true_eq] at hcond
          obtain ⟨n, hn⟩ := List.getElem?_of_mem hc
          by_cases e : n = j
          · subst e
            rw [hj] at hn; injection hn with hn
            right
            rw [← hn, hct2]
            rcases hwhich with ⟨_, rfl⟩ | ⟨_, rfl⟩
            · rfl
            · rw [hcond.1]
          · left; exact mem_eraseIdx_of_ne hn e
        · by_cases e : c = .atomic (.cmp dt.1 dt.2)
          · right; exact e
          · left; exact List.mem_filter.mpr ⟨hc, decide_eq_true e⟩
      · -- R3
        intro τ hrest
        split at hrest
        · rename_i hcond
          simp only [Bool.and_eq_true, decide_eq_true_eq] at hcond
          have hc12 := hcond.1
          have : kc = (l1, [⟨.eq, r1⟩]) := by
            rcases hwhich with ⟨rfl, _⟩ | ⟨rfl, _⟩
            · rfl
            · exact hc12.symm
          subst this
          have := hrest ct1 (mem_eraseIdx_of_ne hi hij)
          rw [hct1] at this
          exact this
        · rename_i hcond
          by_cases e : Formula.atomic (.cmp kc.1 kc.2) = .atomic (.cmp dt.1 dt.2)
          · -- then c1 = c2, hence the dropped comparison is reflexive
            have hkd : kc = dt := by
              injection e with e; injection e with ea eb
              exact Prod.ext ea eb
            have hc12 : (l1, [(⟨.eq, r1⟩ : Guard)]) = (l2, [⟨.eq, r2⟩]) := by
              rcases hwhich with ⟨rfl, rfl⟩ | ⟨rfl, rfl⟩
              · exact hkd
              · exact hkd.symm
            have hdt12 : dt = (l1, [⟨.eq, r1⟩]) := by
              rcases hwhich with ⟨_, rfl⟩ | ⟨_, rfl⟩
              · exact hc12.symm
              · rfl
            subst hkd
            subst hdt12
            have hrefl : cmpReflexive (l1, [(⟨.eq, r1⟩ : Guard)]) = true := by
              cases hr : cmpReflexive (l1, [(⟨.eq, r1⟩ : Guard)]) with
              | true => rfl
              | false => exact absurd (by rw [hr, decide_eq_true hc12]; rfl) hcond
            rw [eqHolds_single]
            have : l1 = r1 := by simpa [cmpReflexive] using hrefl
            rw [this]
          · exact hrest _ (List.mem_filter.mpr ⟨hkcmem, decide_eq_true e⟩)
  · exact Iff.rfl

/-! ## restrict_quantifier_domain -/

theorem FV_mem_vars {F : Formula} {v : Var} : F.FV v → v ∈ F.vars := by
  induction F with
  | atomic a => exact id
  | not f ih => exact ih
  | bin c l r ihl ihr =>
    intro h
    simp only [Formula.vars, mem_ext]
    rcases h with h | h
    · exact Or.inl (ihl h)
    · exact Or.inr (ihr h)
  | quant q vs f ih => intro h; exact ih h.1

theorem bindAll_not_ex (L : List Var) (P : Asg → Prop) (ρ : Asg) :
    bindAll L P ρ ↔ ¬ bindEx L (fun τ => ¬ P τ) ρ := by
  rw [bindAll_iff, bindEx_iff]
  constructor
  · rintro h ⟨τ, hτ, hn⟩; exact hn (h τ hτ)
  · intro h τ hτ
    exact Classical.not_not.mp fun hn => h ⟨τ, hτ, hn⟩

/-- semantic core, existential form: an outer general variable forced to be an integer can be
    replaced by a fresh integer variable -/
theorem restrict_core_ex (P : Asg → Prop) (outer : List Var) (Z K : Var) (hZ : Z.sort = .general)
    (hK : K.sort = .integer) (hZo : Z ∈ outer) (hPK : ∀ (τ : Asg) (d : Dom), P (τ.set K d) ↔ P τ)
    (H : ∀ τ, P τ → ∃ n, τ Z = .num n) (ρ : Asg) :
    bindEx outer P ρ ↔
      bindEx (outer.filter (· ≠ Z) ++ [K]) (fun τ => P (τ.set Z (.num (τ K).toInt))) ρ := by
  have hKZ : K ≠ Z := fun e => by rw [e, hZ] at hK; cases hK
  have hmem : ∀ u, u ∈ outer.filter (· ≠ Z) ++ [K] ↔ (u ∈ outer ∧ u ≠ Z) ∨ u = K := by
    intro u; simp [List.mem_filter]
  rw [bindEx_iff, bindEx_iff]
  constructor
  · rintro ⟨τ, hτ, hP⟩
    obtain ⟨n, hn⟩ := H τ hP
    refine ⟨(τ.set Z (ρ Z)).set K (.num n), ⟨fun u hu => ?_, fun u hu => ?_⟩, ?_⟩
    · rw [hmem] at hu
      have huK : u ≠ K := fun e => hu (Or.inr e)
      rw [Asg.set_other _ _ huK]
      by_cases e : u = Z
      · subst e; rw [Asg.set_same]
      · rw [Asg.set_other _ _ e]
        exact hτ.1 u fun ho => hu (Or.inl ⟨ho, e⟩)
    · by_cases e : u = K
      · subst e; rw [Asg.set_same, hK]; trivial
      · rw [hmem] at hu
        rcases hu with ⟨ho, hne⟩ | hu
        · rw [Asg.set_other _ _ e, Asg.set_other _ _ hne]; exact hτ.2 u ho
        · exact absurd hu e
    · show P _
      rw [Asg.set_same]
      have : ((τ.set Z (ρ Z)).set K (.num n)).set Z (.num (Dom.num n).toInt) = τ.set K (.num n) := by
        funext u
        by_cases e : u = Z
        · subst e; rw [Asg.set_same, Asg.set_other _ _ (Ne.symm hKZ), hn]; rfl
        · rw [Asg.set_other _ _ e]
          by_cases e' : u = K
          · subst e'; rw [Asg.set_same, Asg.set_same]
          · rw [Asg.set_other _ _ e', Asg.set_other _ _ e', Asg.set_other _ _ e]
      rw [this, hPK]; exact hP
  · rintro ⟨τ, hτ, hP⟩
    refine ⟨(τ.set Z (.num (τ K).toInt)).set K (if K ∈ outer then τ K else ρ K),
      ⟨fun u hu => ?_, fun u hu => ?_⟩, (hPK _ _).mpr hP⟩
    · have huZ : u ≠ Z := fun e => hu (e ▸ hZo)
      by_cases e : u = K
      · subst e; rw [Asg.set_same, if_neg hu]
      · rw [Asg.set_other _ _ e, Asg.set_other _ _ huZ]
        exact hτ.1 u fun hm => by
          rw [hmem] at hm
          rcases hm with ⟨ho, _⟩ | hm
          · exact hu ho
          · exact e hm
    · by_cases e : u = K
      · subst e; rw [Asg.set_same, if_pos hu]
        exact hτ.2 u ((hmem u).mpr (Or.inr rfl))
      · rw [Asg.set_other _ _ e]
        by_cases e' : u = Z
        · subst e'; rw [Asg.set_same, hZ]; trivial
        · rw [Asg.set_other _ _ e']
          exact hτ.2 u ((hmem u).mpr (Or.inl ⟨hu, e'⟩))

/-- universal form -/
theorem restrict_core_all (P : Asg → Prop) (outer : List Var) (Z K : Var) (hZ : Z.sort = .general)
    (hK : K.sort = .integer) (hZo : Z ∈ outer) (hPK : ∀ (τ : Asg) (d : Dom), P (τ.set K d) ↔ P τ)
    (H : ∀ τ, (¬ ∃ n, τ Z = .num n) → P τ) (ρ : Asg) :
    bindAll outer P ρ ↔
      bindAll (outer.filter (· ≠ Z) ++ [K]) (fun τ => P (τ.set Z (.num (τ K).toInt))) ρ := by
  rw [bindAll_not_ex, bindAll_not_ex]
  exact not_congr (restrict_core_ex (fun τ => ¬ P τ) outer Z K hZ hK hZo
    (fun τ d => not_congr (hPK τ d))
    (fun τ hn => Classical.not_not.mp fun hne => hn (H τ hne)) ρ)

theorem firstReplacement_some {outer inner : List Var} {t : GTerm} {gs : List Guard} {ok : Var → Bool}
    {Z I : Var} (h : firstReplacement outer inner t gs ok = some (Z, I)) :
    Z ∈ outer ∧ I ∈ inner ∧ Z.sort = .general ∧ I.sort = .integer ∧ ok Z = true ∧
      replacementMatches I Z t gs = true := by
  unfold firstReplacement at h
  obtain ⟨o, ho, h1⟩ := List.exists_of_findSome?_eq_some h
  obtain ⟨i, hi, h2⟩ := List.exists_of_findSome?_eq_some h1
  split at h2
  · rename_i hc
    injection h2 with h2; injection h2 with ha hb
    subst ha; subst hb
    simp only [Bool.and_eq_true, decide_eq_true_eq] at hc
    exact ⟨ho, hi, hc.1.1.1, hc.1.1.2, hc.1.2, hc.2⟩
  · cases h2

/-- an inner `exists … (I$i = Z)` forces the (not rebound) general variable `Z` to be an integer -/
theorem inner_forces_int (J : Interp) (inner : List Var) (innerF ict : Formula) (t : GTerm)
    (gs : List Guard) (Z I : Var) (hict : ict ∈ conjoinInvert innerF) (he : ict = .atomic (.cmp t gs))
    (hm : replacementMatches I Z t gs = true) (hZ : Z.sort = .general) (hZi : Z ∉ inner) (τ : Asg)
    (hs : sat J (.quant .ex inner innerF) τ) : ∃ n, τ Z = .num n := by
  simp only [sat] at hs
  rw [bindEx_iff] at hs
  obtain ⟨σ, hσ, hF⟩ := hs
  have h1 := (sat_conjoinInvert J σ innerF).mp hF ict hict
  subst he
  have hZeq : Z = ⟨Z.name, .general⟩ := by cases Z; simp only at hZ; subst hZ; rfl
  have hστ : σ ⟨Z.name, .general⟩ = τ Z := by rw [← hZeq]; exact hσ.1 Z hZi
  unfold replacementMatches at hm
  simp only [Bool.or_eq_true, Bool.and_eq_true, decide_eq_true_eq] at hm
  rcases hm with ⟨rfl, rfl⟩ | ⟨rfl, rfl⟩
  · simp only [sat, AtomicF.sat, cmpChain, Rel.holds, GTerm.eval, and_true] at h1
    exact ⟨_, by rw [← hστ]; exact h1⟩
  · simp only [sat, AtomicF.sat, cmpChain, Rel.holds, GTerm.eval, and_true] at h1
    exact ⟨_, by rw [← hστ]; exact h1.symm⟩

theorem restrictExistsSearch_some {outer : List Var} {cts : List Formula} {Z I : Var}
    (h : restrictExistsSearch outer cts = some (Z, I)) :
    ∃ inner innerF ict t gs, Formula.quant .ex inner innerF ∈ cts ∧ ict ∈ conjoinInvert innerF ∧
      ict = .atomic (.cmp t gs) ∧
      firstReplacement outer inner t gs (fun ovar => !(ovar ∈ inner)) = some (Z, I) := by
  unfold restrictExistsSearch at h
  obtain ⟨ct, hct, h1⟩ := List.exists_of_findSome?_eq_some h
  split at h1
  · rename_i inner innerF
    obtain ⟨ict, hict, h2⟩ := List.exists_of_findSome?_eq_some h1
    split at h2
    · rename_i t gs
      split at h2
      · exact ⟨inner, innerF, _, t, gs, hct, hict, rfl, h2⟩
      · cases h2
    · cases h2
  · cases h1

/-- the replacement step, given the semantic side condition of the respective form -/
theorem replacementApply_sat (J : Interp) (q : Quant) (outer : List Var) (f : Formula) (Z I : Var)
    (hZ : Z.sort = .general) (hZo : Z ∈ outer)
    (H : match q with
      | .ex => ∀ τ, sat J f τ → ∃ n, τ Z = .num n
      | .all => ∀ τ, (¬ ∃ n, τ Z = .num n) → sat J f τ) (ρ : Asg) :
    sat J (replacementApply I Z (.quant q outer f)) ρ ↔ sat J (.quant q outer f) ρ := by
  simp only [replacementApply]
  generalize hfv : (chooseFresh ((Formula.quant q outer f).vars.map (·.name))
    (String.ofList (I.name.toList.take 1)) 1).headD (String.ofList (I.name.toList.take 1)) = fvar
  have hfresh : fvar ∉ (Formula.quant q outer f).vars.map (·.name) := by
    rw [← hfv]; exact chooseFresh_one _ _
  have hKfv : ¬ f.FV ⟨fvar, .integer⟩ := fun hfvv =>
    hfresh (List.mem_map.mpr ⟨_, (show _ ∈ f.vars from FV_mem_vars hfvv), rfl⟩)
  have hPK : ∀ (τ : Asg) (d : Dom), sat J f (τ.set ⟨fvar, .integer⟩ d) ↔ sat J f τ := by
    intro τ d
    apply sat_agree
    intro v hv
    have : v ≠ ⟨fvar, .integer⟩ := fun e => hKfv (e ▸ hv)
    rw [Asg.set_other _ _ this]
  have hcompat : SortCompatible Z (.int (.var fvar)) :=
    ⟨fun h => (by rw [hZ] at h; cases h), fun h => (by rw [hZ] at h; cases h)⟩
  have hsub : ∀ τ, sat J (f.subst Z (.int (.var fvar))) τ ↔
      sat J f (τ.set Z (.num (τ ⟨fvar, .integer⟩).toInt)) := by
    intro τ; rw [sat_subst J f Z _ hcompat]; rfl
  cases q with
  | ex =>
    simp only [sat]
    rw [show sat J (f.subst Z (.int (.var fvar))) = (fun τ => sat J f (τ.set Z (.num (τ ⟨fvar, .integer⟩).toInt)))
      from funext fun τ => propext (hsub τ)]
    exact (restrict_core_ex (sat J f) outer Z ⟨fvar, .integer⟩ hZ rfl hZo hPK H ρ).symm
  | all =>
    simp only [sat]
    rw [show sat J (f.subst Z (.int (.var fvar))) = (fun τ => sat J f (τ.set Z (.num (τ ⟨fvar, .integer⟩).toInt)))
      from funext fun τ => propext (hsub τ)]
    exact (restrict_core_all (sat J f) outer Z ⟨fvar, .integer⟩ hZ rfl hZo hPK H ρ).symm

theorem restrictQuantifierDomain_classEquiv (F : Formula) :
    ClassEquiv (restrictQuantifierDomain F) F := by
  intro J ρ
  unfold restrictQuantifierDomain
  split
  · rename_i outer l r
    cases hs : restrictExistsSearch outer (conjoinInvert l ++ conjoinInvert r) with
    | none => simp only
    | some res =>
      obtain ⟨Z, I⟩ := res
      simp only
      obtain ⟨inner, innerF, ict, t, gs, hct, hict, he, hfirst⟩ := restrictExistsSearch_some hs
      obtain ⟨hZo, _, hZ, _, hok, hm⟩ := firstReplacement_some hfirst
      have hZi : Z ∉ inner := by simpa using hok
      refine replacementApply_sat J .ex outer (.bin .and l r) Z I hZ hZo ?_ ρ
      intro τ hτ
      have := (sat_conjoinInvert J τ (.bin .and l r)).mp hτ _ hct
      exact inner_forces_int J inner innerF ict t gs Z I hict he hm hZ hZi τ this
  · rename_i outer inner innerF rhs
    simp only
    split
    · rename_i Z I hhit
      obtain ⟨ct, hct, h1⟩ := List.exists_of_findSome?_eq_some hhit
      split at h1
      · rename_i t gs
        split at h1
        · obtain ⟨hZo, _, hZ, _, hok, hm⟩ := firstReplacement_some h1
          have hZi : Z ∉ inner := by
            simp only [Bool.and_eq_true, Bool.not_eq_true', decide_eq_false_iff_not] at hok
            exact hok.1
          refine replacementApply_sat J .all outer _ Z I hZ hZo ?_ ρ
          intro τ hn
          simp only [sat]
          intro hante
          exact absurd (inner_forces_int J inner innerF _ t gs Z I hct rfl hm hZ hZi τ hante) hn
        · cases h1
      · cases h1
    · exact Iff.rfl
  · exact Iff.rfl

end Anthem
