/-
  C07, second claim: no rewrite, and hence no portfolio under any strategy, introduces a free
  variable.
-/
import AnthemModel.Proofs.RewritesClassic
namespace Anthem

/-- `G` has no free variable that `F` does not have -/
def FVLe (G F : Formula) : Prop := ∀ v, G.FV v → F.FV v

theorem FVLe.refl (F : Formula) : FVLe F F := fun _ h => h
theorem FVLe.trans {A B C : Formula} (h1 : FVLe A B) (h2 : FVLe B C) : FVLe A C := fun v h => h2 v (h1 v h)
theorem FVLe.not {A B : Formula} (h : FVLe A B) : FVLe (.not A) (.not B) := fun v hv => h v hv
theorem FVLe.bin (c : Conn) {A B A' B' : Formula} (h1 : FVLe A A') (h2 : FVLe B B') :
    FVLe (.bin c A B) (.bin c A' B') := fun v hv => hv.elim (fun h => Or.inl (h1 v h)) (fun h => Or.inr (h2 v h))
theorem FVLe.quant (q : Quant) (vs : List Var) {A B : Formula} (h : FVLe A B) :
    FVLe (.quant q vs A) (.quant q vs B) := fun v hv => ⟨h v hv.1, hv.2⟩

theorem applyPost_FVLe {f : Formula → Formula} (hf : ∀ F, FVLe (f F) F) : ∀ F, FVLe (applyPost f F) F := by
  intro F
  induction F with
  | atomic a => exact hf _
  | not g ih => exact (hf _).trans ih.not
  | bin c l r ihl ihr => exact (hf _).trans (FVLe.bin c ihl ihr)
  | quant q vs g ih => exact (hf _).trans (ih.quant q vs)

theorem compose_FVLe {fs : List (Formula → Formula)} (h : ∀ f ∈ fs, ∀ F, FVLe (f F) F) :
    ∀ F, FVLe (compose fs F) F := by
  induction fs with
  | nil => intro F; exact FVLe.refl F
  | cons f fs ih =>
    intro F
    show FVLe (fs.foldl (fun x f => f x) (f F)) F
    exact (ih (fun g hg => h g (List.mem_cons_of_mem _ hg)) (f F)).trans (h f List.mem_cons_self F)

theorem applyFixpointFuel_FVLe {f : Formula → Formula} (hf : ∀ F, FVLe (f F) F) :
    ∀ n F, FVLe (applyFixpointFuel f n F).1 F := by
  intro n
  induction n with
  | zero => intro F; exact applyPost_FVLe hf F
  | succ n ih =>
    intro F
    simp only [applyFixpointFuel]
    split
    · exact applyPost_FVLe hf F
    · exact (ih _).trans (applyPost_FVLe hf F)

/-! ## helpers -/

theorem FV_tru (v : Var) : ¬ Formula.tru.FV v := by simp [Formula.tru, Formula.FV, AtomicF.vars]
theorem FV_fls (v : Var) : ¬ Formula.fls.FV v := by simp [Formula.fls, Formula.FV, AtomicF.vars]

theorem FV_conjoin {fs : List Formula} {v : Var} (h : (conjoin fs).FV v) : ∃ f ∈ fs, f.FV v := by
  cases fs with
  | nil => exact absurd h (FV_tru v)
  | cons f fs =>
    simp only [conjoin] at h
    suffices hs : ∀ (l : List Formula) (acc : Formula),
        (l.foldl (fun acc e => Formula.bin .and acc e) acc).FV v → acc.FV v ∨ ∃ g ∈ l, g.FV v by
      rcases hs fs f h with h | ⟨g, hg, h⟩
      · exact ⟨f, List.mem_cons_self, h⟩
      · exact ⟨g, List.mem_cons_of_mem _ hg, h⟩
    intro l
    induction l with
    | nil => intro acc h; exact Or.inl h
    | cons e l ih =>
      intro acc h
      rcases ih _ h with h | ⟨g, hg, h⟩
      · rcases h with h | h
        · exact Or.inl h
        · exact Or.inr ⟨e, List.mem_cons_self, h⟩
      · exact Or.inr ⟨g, List.mem_cons_of_mem _ hg, h⟩

theorem FV_of_mem_conjoin {fs : List Formula} {f : Formula} {v : Var} (hf : f ∈ fs) (h : f.FV v) :
    (conjoin fs).FV v := by
  cases fs with
  | nil => cases hf
  | cons f0 fs =>
    simp only [conjoin]
    suffices hs : ∀ (l : List Formula) (acc : Formula), (acc.FV v ∨ ∃ g ∈ l, g.FV v) →
        (l.foldl (fun acc e => Formula.bin .and acc e) acc).FV v by
      rcases List.mem_cons.mp hf with rfl | hf
      · exact hs fs _ (Or.inl h)
      · exact hs fs _ (Or.inr ⟨f, hf, h⟩)
    intro l
    induction l with
    | nil => intro acc h; rcases h with h | ⟨g, hg, _⟩; exact h; cases hg
    | cons e l ih =>
      intro acc h
      apply ih
      rcases h with h | ⟨g, hg, h⟩
      · exact Or.inl (Or.inl h)
      · rcases List.mem_cons.mp hg with rfl | hg
        · exact Or.inl (Or.inr h)
        · exact Or.inr ⟨g, hg, h⟩

theorem mem_cmp_vars {t : GTerm} {gs : List Guard} {v : Var} :
    v ∈ (AtomicF.cmp t gs).vars ↔ v ∈ t.vars ∨ ∃ g ∈ gs, v ∈ g.term.vars := by
  simp only [AtomicF.vars]
  rw [mem_foldl_ext]

theorem FV_quantify {f : Formula} {q : Quant} {vs : List Var} {v : Var} (h : (f.quantify q vs).FV v) :
    f.FV v ∧ v ∉ vs := by
  unfold Formula.quantify at h
  split at h
  · rename_i he
    have : vs = [] := List.isEmpty_iff.mp he
    subst this
    exact ⟨h, by simp⟩
  · exact h

/-! ## the ten intuitionistic rewrites -/

theorem evalCmpLoop_FV : ∀ (gs : List Guard) (t : GTerm) (F : Formula) (v : Var), F ∈ evalCmpLoop t gs → F.FV v →
    v ∈ t.vars ∨ ∃ g ∈ gs, v ∈ g.term.vars := by
  intro gs
  induction gs with
  | nil => intro t F v hF; simp [evalCmpLoop] at hF
  | cons g gs ih =>
    intro t F v hF hv
    simp only [evalCmpLoop, List.mem_cons] at hF
    rcases hF with rfl | hF
    · split at hv
      · split at hv <;> first | exact absurd hv (FV_tru v) | exact absurd hv (FV_fls v)
      · simp only [Formula.FV] at hv
        rcases mem_cmp_vars.mp hv with h | ⟨g', hg', h⟩
        · exact Or.inl h
        · simp only [List.mem_singleton] at hg'; subst hg'
          exact Or.inr ⟨_, List.mem_cons_self, h⟩
    · rcases ih g.term F v hF hv with h | ⟨g', hg', h⟩
      · exact Or.inr ⟨g, List.mem_cons_self, h⟩
      · exact Or.inr ⟨g', List.mem_cons_of_mem _ hg', h⟩

theorem evaluateComparisons_FVLe (F : Formula) : FVLe (evaluateComparisons F) F := by
  intro v hv
  unfold evaluateComparisons at hv
  split at hv
  · rename_i t gs
    obtain ⟨f, hf, hfv⟩ := FV_conjoin hv
    simp only [Formula.FV]
    exact mem_cmp_vars.mpr (evalCmpLoop_FV gs t f v hf hfv)
  · exact hv

theorem applyNegationDefinitionInverse_FVLe (F : Formula) : FVLe (applyNegationDefinitionInverse F) F := by
  intro v hv
  unfold applyNegationDefinitionInverse at hv
  split at hv
  · exact Or.inl hv
  · exact hv

theorem applyReverseImplicationDefinition_FVLe (F : Formula) :
    FVLe (applyReverseImplicationDefinition F) F := by
  intro v hv
  unfold applyReverseImplicationDefinition at hv
  split at hv
  · exact hv.symm
  · exact hv

theorem applyEquivalenceDefinitionInverse_FVLe (F : Formula) :
    FVLe (applyEquivalenceDefinitionInverse F) F := by
  intro v hv
  unfold applyEquivalenceDefinitionInverse at hv
  split at hv
  · split at hv
    · exact Or.inl hv
    · exact hv
  · exact hv

theorem removeIdentities_FVLe (F : Formula) : FVLe (removeIdentities F) F := by
  intro v hv
  unfold removeIdentities at hv
  split at hv
  · exact Or.inl hv
  · exact Or.inr hv
  · exact Or.inl hv
  · exact Or.inr hv
  · exact Or.inr hv
  · exact hv

theorem removeAnnihilations_FVLe (F : Formula) : FVLe (removeAnnihilations F) F := by
  intro v hv
  unfold removeAnnihilations at hv
  split at hv
  all_goals first
    | exact absurd hv (FV_tru v)
    | exact absurd hv (FV_fls v)
    | exact hv
    | (split at hv <;> first | exact absurd hv (FV_tru v) | exact hv)

theorem removeIdempotences_FVLe (F : Formula) : FVLe (removeIdempotences F) F := by
  intro v hv
  unfold removeIdempotences at hv
  split at hv
  · split at hv
    · exact Or.inl hv
    · exact hv
  · split at hv
    · exact Or.inl hv
    · exact hv
  · exact hv

theorem removeOrphanedVariables_FVLe (F : Formula) : FVLe (removeOrphanedVariables F) F := by
  intro v hv
  unfold removeOrphanedVariables at hv
  split at hv
  · rename_i q vs f
    refine ⟨hv.1, fun hm => hv.2 ?_⟩
    exact List.mem_filter.mpr ⟨hm, by simpa using Formula.mem_fv.mpr hv.1⟩
  · exact hv

theorem removeEmptyQuantifications_FVLe (F : Formula) : FVLe (removeEmptyQuantifications F) F := by
  intro v hv
  unfold removeEmptyQuantifications at hv
  split at hv
  · split at hv
    · rename_i he
      have : _ = [] := List.isEmpty_iff.mp he
      exact ⟨hv, by rw [this]; simp⟩
    · exact hv
  · exact hv

theorem joinNestedQuantifiers_FVLe (F : Formula) : FVLe (joinNestedQuantifiers F) F := by
  intro v hv
  unfold joinNestedQuantifiers at hv
  split at hv
  · rename_i q vs q' vs' f
    split at hv
    · obtain ⟨h1, h2⟩ := FV_quantify hv
      rw [mem_dedupAdj, mem_sortVars, List.mem_append, not_or] at h2
      exact ⟨⟨h1, h2.2⟩, h2.1⟩
    · exact hv
  · exact hv

/-! ## the five classic rewrites -/

theorem removeDoubleNegation_FVLe (F : Formula) : FVLe (removeDoubleNegation F) F := by
  intro v hv
  unfold removeDoubleNegation at hv
  split at hv <;> exact hv

theorem extendQuantifierScope_FVLe (F : Formula) : FVLe (extendQuantifierScope F) F := by
  intro v hv
  unfold extendQuantifierScope at hv
  split at hv
  · rename_i c q vs f rhs
    split at hv
    · split at hv
      · exact hv
      · rename_i hany
        have hd := not_any_mem_fv hany
        obtain ⟨h1, h2⟩ := hv
        rcases h1 with h1 | h1
        · exact Or.inl ⟨h1, h2⟩
        · exact Or.inr h1
    · exact hv
  · rename_i c lhs q vs f _
    split at hv
    · split at hv
      · exact hv
      · obtain ⟨h1, h2⟩ := hv
        rcases h1 with h1 | h1
        · exact Or.inl h1
        · exact Or.inr ⟨h1, h2⟩
    · exact hv
  · exact hv

theorem individuals_terms : ∀ (gs : List Guard) (t : GTerm) (p : GTerm × Rel × GTerm), p ∈ individuals t gs →
    (p.1 = t ∨ ∃ g ∈ gs, p.1 = g.term) ∧ ∃ g ∈ gs, p.2.2 = g.term := by
  intro gs
  induction gs with
  | nil => intro t p hp; simp [individuals] at hp
  | cons g gs ih =>
    intro t p hp
    simp only [individuals, List.mem_cons] at hp
    rcases hp with rfl | hp
    · exact ⟨Or.inl rfl, g, List.mem_cons_self, rfl⟩
    · obtain ⟨h1, g', hg', h2⟩ := ih g.term p hp
      refine ⟨Or.inr ?_, g', List.mem_cons_of_mem _ hg', h2⟩
      rcases h1 with h1 | ⟨g'', hg'', h1⟩
      · exact ⟨g, List.mem_cons_self, h1⟩
      · exact ⟨g'', List.mem_cons_of_mem _ hg'', h1⟩

theorem findDefinition_vars (v : Var) : ∀ (f : Formula) (d : GTerm), findDefinition v f = some d →
    ∀ w ∈ d.vars, f.FV w := by
  intro f
  induction f with
  | atomic a =>
    intro d h w hw
    cases a with
    | tru | fls | atom _ => simp [findDefinition] at h
    | cmp t gs =>
      simp only [findDefinition] at h
      obtain ⟨⟨x, term⟩, hmem, hcand⟩ := List.exists_of_findSome?_eq_some h
      obtain ⟨rfl, _, _, _⟩ := definitionCandidate_some hcand
      simp only [List.mem_flatMap, List.mem_filterMap] at hmem
      obtain ⟨⟨l, r⟩, ⟨⟨l', rel, r'⟩, hind, hsome⟩, hsw⟩ := hmem
      obtain ⟨hl, g, hg, hr⟩ := individuals_terms gs t _ hind
      simp only at hsome hl hr
      split at hsome
      · injection hsome with hsome
        injection hsome with e1 e2
        subst e1; subst e2
        simp only [List.mem_cons, Prod.mk.injEq, List.mem_nil_iff, or_false] at hsw
        simp only [Formula.FV]
        rw [mem_cmp_vars]
        rcases hsw with ⟨_, rfl⟩ | ⟨_, rfl⟩
        · exact Or.inr ⟨g, hg, hr ▸ hw⟩
        · rcases hl with hl | ⟨g', hg', hl⟩
          · exact Or.inl (hl ▸ hw)
          · exact Or.inr ⟨g', hg', hl ▸ hw⟩
      · cases hsome
  | not f _ => intro d h; simp [findDefinition] at h
  | quant q vs f _ => intro d h; simp [findDefinition] at h
  | bin c l r ihl ihr =>
    intro d h w hw
    cases c with
    | and =>
      simp only [findDefinition] at h
      cases hl : findDefinition v l with
      | some d' =>
        simp only [hl, Option.orElse] at h
        injection h with h; subst h
        exact Or.inl (ihl d' hl w hw)
      | none =>
        simp only [hl, Option.orElse] at h
        exact Or.inr (ihr d h w hw)
    | or | imp | rimp | iff => simp [findDefinition] at h

theorem substituteDefinedVariables_FVLe (F : Formula) : FVLe (substituteDefinedVariables F) F := by
  intro v hv
  unfold substituteDefinedVariables at hv
  split at hv
  · rename_i vs f
    obtain ⟨h1, h2⟩ := FV_quantify hv
    refine ⟨?_, h2⟩
    suffices hs : ∀ (l : List Var) (b : Formula), FVLe (l.foldl definedStep b) b from hs _ f v h1
    intro l
    induction l with
    | nil => intro b; exact FVLe.refl b
    | cons x l ih =>
      intro b
      simp only [List.foldl_cons]
      refine (ih _).trans ?_
      cases hd : findDefinition x b with
      | none =>
        have e : definedStep b x = b := by simp only [definedStep, hd]
        rw [e]; exact FVLe.refl b
      | some d =>
        have e : definedStep b x = b.subst x d := by simp only [definedStep, hd]
        rw [e]
        intro u hu
        obtain ⟨_, hcompat, _⟩ := findDefinition_sound x b d hd
        rcases subst_FV b x d hcompat u hu with h | h
        · exact h.1
        · exact findDefinition_vars x b d hd u h
  · exact hv

theorem restrictQuantifierDomain_FVLe (F : Formula) : FVLe (restrictQuantifierDomain F) F := by
  have key : ∀ (q : Quant) (outer : List Var) (f : Formula) (I Z : Var), Z.sort = .general → Z ∈ outer →
      FVLe (replacementApply I Z (.quant q outer f)) (.quant q outer f) := by
    intro q outer f I Z hZ hZo v hv
    simp only [replacementApply] at hv
    obtain ⟨h1, h2⟩ := hv
    have hcompat : SortCompatible Z (.int (.var ((chooseFresh ((Formula.quant q outer f).vars.map (·.name))
        (String.ofList (I.name.toList.take 1)) 1).headD (String.ofList (I.name.toList.take 1))))) :=
      ⟨fun h => (by rw [hZ] at h; cases h), fun h => (by rw [hZ] at h; cases h)⟩
    rw [List.mem_append, not_or] at h2
    rcases subst_FV f Z _ hcompat v h1 with h | h
    · refine ⟨h.1, fun hm => h2.1 (List.mem_filter.mpr ⟨hm, by simpa using h.2⟩)⟩
    · simp only [GTerm.vars, ITerm.vars, List.mem_singleton] at h
      exact absurd (List.mem_singleton.mpr h) h2.2
  intro v hv
  unfold restrictQuantifierDomain at hv
  split at hv
  · rename_i outer l r
    cases hs : restrictExistsSearch outer (conjoinInvert l ++ conjoinInvert r) with
    | none => simp only [hs] at hv; exact hv
    | some res =>
      obtain ⟨Z, I⟩ := res
      simp only [hs] at hv
      obtain ⟨inner, innerF, ict, t, gs, _, _, _, hfirst⟩ := restrictExistsSearch_some hs
      obtain ⟨hZo, _, hZ, _, _, _⟩ := firstReplacement_some hfirst
      exact key .ex outer _ I Z hZ hZo v hv
  · rename_i outer inner innerF rhs
    simp only at hv
    split at hv
    · rename_i Z I hhit
      obtain ⟨ct, _, h1⟩ := List.exists_of_findSome?_eq_some hhit
      split at h1
      · split at h1
        · obtain ⟨hZo, _, hZ, _, _, _⟩ := firstReplacement_some h1
          exact key .all outer _ I Z hZ hZo v hv
        · cases h1
      · cases h1
    · exact hv
  · exact hv

theorem FV_conjoinInvert {f c : Formula} {v : Var} (hc : c ∈ conjoinInvert f) (hv : c.FV v) : f.FV v := by
  induction f with
  | bin cn l r ihl ihr =>
    cases cn with
    | and =>
      simp only [conjoinInvert, List.mem_append] at hc
      rcases hc with hc | hc
      · exact Or.inl (ihl hc)
      · exact Or.inr (ihr hc)
    | or | imp | rimp | iff => simp only [conjoinInvert, List.mem_singleton] at hc; subst hc; exact hv
  | atomic _ | not _ _ | quant _ _ _ _ => simp only [conjoinInvert, List.mem_singleton] at hc; subst hc; exact hv

theorem simplifyTransitiveEquality_FVLe (F : Formula) : FVLe (simplifyTransitiveEquality F) F := by
  intro v hv
  unfold simplifyTransitiveEquality at hv
  split at hv
  · rename_i vars l r
    cases hs : transitiveSearch (conjoinInvert (.bin .and l r)) vars with
    | none => simp only [hs] at hv; exact hv
    | some res =>
      obtain ⟨j, c1, c2, k, d, dt⟩ := res
      simp only [hs] at hv
      obtain ⟨i, ct1, ct2, _, _, _, e1, e2, e3⟩ := transitiveSearch_some hs
      obtain ⟨_, r1, hg1⟩ := asEqCmp_some e1
      obtain ⟨_, r2, hg2⟩ := asEqCmp_some e2
      obtain ⟨l1, g1⟩ := c1
      obtain ⟨l2, g2⟩ := c2
      simp only at hg1 hg2
      subst hg1; subst hg2
      obtain ⟨hk, hd, hsub, _⟩ := transitiveEquality_some e3
      obtain ⟨h1, h2⟩ := hv
      rcases subst_FV _ d k.toTerm (subsort_compat hsub) v h1 with h | h
      · obtain ⟨c, hc, hcv⟩ := FV_conjoin h.1
        refine ⟨FV_conjoinInvert (f := .bin .and l r) ?_ hcv, h2⟩
        split at hc
        · exact List.mem_of_mem_eraseIdx hc
        · exact (List.mem_filter.mp hc).1
      · rw [toTerm_vars, List.mem_singleton] at h
        subst h
        exact absurd hk h2
  · exact hv

end Anthem
