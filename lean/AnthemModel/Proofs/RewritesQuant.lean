/-
  Meaning preservation of the rewrites that reason about binders and free variables:
  remove_orphaned_variables, join_nested_quantifiers (both intuitionistic), and helper facts
  about `quantify`.
-/
import AnthemModel.Proofs.Agree
import AnthemModel.Proofs.Congruence
namespace Anthem

theorem ht_quantify (M : HTI) (f : Formula) (q : Quant) (vs : List Var) (w : World) (ρ : Asg) :
    ht M (f.quantify q vs) w ρ ↔ ht M (.quant q vs f) w ρ := by
  unfold Formula.quantify
  split
  · rename_i h
    have : vs = [] := List.isEmpty_iff.mp h
    subst this
    cases q <;> simp [ht, bindAll, bindEx]
  · exact Iff.rfl

theorem quantify_htEquiv (f : Formula) (q : Quant) (vs : List Var) :
    HTEquiv (f.quantify q vs) (.quant q vs f) := fun M _ w ρ => ht_quantify M f q vs w ρ

theorem bindAll_filter {P : Asg → Prop} {S : Var → Prop} [DecidablePred S]
    (hP : ∀ ρ ρ', (∀ v, S v → ρ v = ρ' v) → (P ρ ↔ P ρ')) (vs : List Var) (ρ : Asg) :
    bindAll (vs.filter (fun v => decide (S v))) P ρ ↔ bindAll vs P ρ := by
  induction vs generalizing ρ with
  | nil => rfl
  | cons x xs ih =>
    by_cases hx : S x
    · simp only [List.filter_cons, hx, decide_true, if_true, bindAll, ih]
    · simp only [List.filter_cons, hx, decide_false, Bool.false_eq_true, if_false]
      rw [bindAll_cons_orphan hP hx, ih]

theorem bindEx_filter {P : Asg → Prop} {S : Var → Prop} [DecidablePred S]
    (hP : ∀ ρ ρ', (∀ v, S v → ρ v = ρ' v) → (P ρ ↔ P ρ')) (vs : List Var) (ρ : Asg) :
    bindEx (vs.filter (fun v => decide (S v))) P ρ ↔ bindEx vs P ρ := by
  induction vs generalizing ρ with
  | nil => rfl
  | cons x xs ih =>
    by_cases hx : S x
    · simp only [List.filter_cons, hx, decide_true, if_true, bindEx, ih]
    · simp only [List.filter_cons, hx, decide_false, Bool.false_eq_true, if_false]
      rw [bindEx_cons_orphan hP hx, ih]

theorem removeOrphanedVariables_htEquiv (F : Formula) : HTEquiv (removeOrphanedVariables F) F := by
  intro M _ w ρ
  unfold removeOrphanedVariables
  split
  · rename_i q vs f
    have hP : ∀ ρ ρ', (∀ v, v ∈ f.fv → ρ v = ρ' v) → (ht M f w ρ ↔ ht M f w ρ') :=
      fun ρ ρ' h => ht_agree M f w ρ ρ' (fun v hv => h v (Formula.mem_fv.mpr hv))
    cases q <;> simp only [ht]
    · exact bindAll_filter (S := (· ∈ f.fv)) hP vs ρ
    · exact bindEx_filter (S := (· ∈ f.fv)) hP vs ρ
  · exact Iff.rfl

theorem mem_insertVar {v x : Var} {l : List Var} : x ∈ insertVar v l ↔ x = v ∨ x ∈ l := by
  induction l with
  | nil => simp [insertVar]
  | cons w ws ih =>
    simp only [insertVar]
    split
    · simp only [List.mem_cons, ih]
      exact ⟨fun h => h.elim (fun a => Or.inr (Or.inl a)) (fun b => b.elim Or.inl (fun c => Or.inr (Or.inr c))),
             fun h => h.elim (fun a => Or.inr (Or.inl a)) (fun b => b.elim Or.inl (fun c => Or.inr (Or.inr c)))⟩
    · simp

theorem mem_sortVars {x : Var} {l : List Var} : x ∈ sortVars l ↔ x ∈ l := by
  unfold sortVars
  induction l with
  | nil => simp
  | cons w ws ih => simp only [List.foldr_cons, mem_insertVar, ih, List.mem_cons]

theorem mem_dedupAdj {x : Var} : ∀ {l : List Var}, x ∈ dedupAdj l ↔ x ∈ l
  | [] => by simp [dedupAdj]
  | [v] => by simp [dedupAdj]
  | v :: w :: ws => by
    have ih := @mem_dedupAdj x (w :: ws)
    simp only [dedupAdj]
    split
    · rename_i h; subst h; simp only [ih, List.mem_cons]
      exact ⟨Or.inr, fun h => h.elim (fun a => Or.inl a) id⟩
    · simp only [List.mem_cons] at ih ⊢; rw [ih]

theorem joinNestedQuantifiers_htEquiv (F : Formula) : HTEquiv (joinNestedQuantifiers F) F := by
  intro M _ w ρ
  unfold joinNestedQuantifiers
  split
  · rename_i q vs q' vs' f
    split
    · rename_i h
      subst h
      rw [ht_quantify]
      have hm : ∀ v, v ∈ dedupAdj (sortVars (vs ++ vs')) ↔ v ∈ vs ++ vs' := fun v => by
        rw [mem_dedupAdj, mem_sortVars]
      cases q <;> simp only [ht]
      · rw [bindAll_perm hm, bindAll_append]
      · rw [bindEx_perm hm, bindEx_append]
    · exact Iff.rfl
  · exact Iff.rfl

end Anthem
