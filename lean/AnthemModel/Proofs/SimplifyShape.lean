/-
  What simplification (the classic portfolio, fixpoint strategy) does to the outermost shape of the
  formulas of a completed theory - the shape by which `control_translate` decides whether a formula
  is a definition (with a head predicate) or a constraint:
  * a completed definition `forall V (p(V) <-> F)` / `p <-> F` keeps its head (this file, part A);
  * a formula without implications and equivalences stays one, so a simplified constraint of a tau*
    theory has no head (part B).
-/
import AnthemModel.Model.Simplify
import AnthemModel.Model.External
import AnthemModel.Model.TauStar
namespace Anthem

/-! ## A. definitions keep their head -/

/-- `l <-> r`, possibly below one universal quantifier -/
def IffRoot (l : Formula) (F : Formula) : Prop :=
  (∃ r, F = .bin .iff l r) ∨ (∃ vs r, F = .quant .all vs (.bin .iff l r))

/-- a rewrite that leaves equivalences, and universally quantified equivalences up to the variable
    list (or removes the quantifier), alone -/
def KeepsIff (f : Formula → Formula) : Prop :=
  (∀ l r, f (.bin .iff l r) = .bin .iff l r) ∧
  (∀ vs l r, f (.quant .all vs (.bin .iff l r)) = .bin .iff l r ∨
    ∃ vs', f (.quant .all vs (.bin .iff l r)) = .quant .all vs' (.bin .iff l r)) ∧
  (∀ a, f (.atomic (.atom a)) = .atomic (.atom a))

theorem keepsIff_evaluateComparisons : KeepsIff evaluateComparisons :=
  ⟨fun _ _ => rfl, fun _ _ _ => Or.inr ⟨_, rfl⟩, fun _ => rfl⟩

theorem keepsIff_applyNegationDefinitionInverse : KeepsIff applyNegationDefinitionInverse :=
  ⟨fun _ _ => rfl, fun _ _ _ => Or.inr ⟨_, rfl⟩, fun _ => rfl⟩

theorem keepsIff_applyReverseImplicationDefinition : KeepsIff applyReverseImplicationDefinition :=
  ⟨fun _ _ => rfl, fun _ _ _ => Or.inr ⟨_, rfl⟩, fun _ => rfl⟩

theorem keepsIff_applyEquivalenceDefinitionInverse : KeepsIff applyEquivalenceDefinitionInverse :=
  ⟨fun _ _ => rfl, fun _ _ _ => Or.inr ⟨_, rfl⟩, fun _ => rfl⟩

theorem keepsIff_removeIdentities : KeepsIff removeIdentities :=
  ⟨fun _ _ => rfl, fun _ _ _ => Or.inr ⟨_, rfl⟩, fun _ => rfl⟩

theorem keepsIff_removeAnnihilations : KeepsIff removeAnnihilations :=
  ⟨fun _ _ => rfl, fun _ _ _ => Or.inr ⟨_, rfl⟩, fun _ => rfl⟩

theorem keepsIff_removeIdempotences : KeepsIff removeIdempotences :=
  ⟨fun _ _ => rfl, fun _ _ _ => Or.inr ⟨_, rfl⟩, fun _ => rfl⟩

theorem keepsIff_removeOrphanedVariables : KeepsIff removeOrphanedVariables :=
  ⟨fun _ _ => rfl, fun _ _ _ => Or.inr ⟨_, rfl⟩, fun _ => rfl⟩

theorem keepsIff_removeEmptyQuantifications : KeepsIff removeEmptyQuantifications := by
  refine ⟨fun _ _ => rfl, fun vs l r => ?_, fun _ => rfl⟩
  by_cases h : vs.isEmpty = true
  · left; simp only [removeEmptyQuantifications, h, if_true]
  · right; exact ⟨vs, by simp only [removeEmptyQuantifications, h]; rfl⟩

theorem keepsIff_joinNestedQuantifiers : KeepsIff joinNestedQuantifiers :=
  ⟨fun _ _ => rfl, fun _ _ _ => Or.inr ⟨_, rfl⟩, fun _ => rfl⟩

theorem keepsIff_removeDoubleNegation : KeepsIff removeDoubleNegation :=
  ⟨fun _ _ => rfl, fun _ _ _ => Or.inr ⟨_, rfl⟩, fun _ => rfl⟩

theorem keepsIff_substituteDefinedVariables : KeepsIff substituteDefinedVariables :=
  ⟨fun _ _ => rfl, fun _ _ _ => Or.inr ⟨_, rfl⟩, fun _ => rfl⟩

theorem keepsIff_restrictQuantifierDomain : KeepsIff restrictQuantifierDomain :=
  ⟨fun _ _ => rfl, fun _ _ _ => Or.inr ⟨_, rfl⟩, fun _ => rfl⟩

theorem keepsIff_extendQuantifierScope : KeepsIff extendQuantifierScope := by
  refine ⟨fun l r => ?_, fun _ _ _ => Or.inr ⟨_, rfl⟩, fun _ => rfl⟩
  unfold extendQuantifierScope
  split
  · rename_i h; injection h with hc _ _; subst hc; simp
  · rename_i h; injection h with hc _ _; subst hc; simp
  · rfl

theorem keepsIff_simplifyTransitiveEquality : KeepsIff simplifyTransitiveEquality :=
  ⟨fun _ _ => rfl, fun _ _ _ => Or.inr ⟨_, rfl⟩, fun _ => rfl⟩

theorem keepsIff_classic : ∀ f ∈ Portfolio.classic.rewrites, KeepsIff f := by
  intro f hf
  simp only [Portfolio.rewrites, intuitionistic, htPortfolio, classic, List.append_nil, List.mem_append,
    List.mem_cons, List.mem_nil_iff, or_false] at hf
  rcases hf with (rfl | rfl | rfl | rfl | rfl | rfl | rfl | rfl | rfl | rfl) | (rfl | rfl | rfl | rfl | rfl)
  · exact keepsIff_evaluateComparisons
  · exact keepsIff_applyNegationDefinitionInverse
  · exact keepsIff_applyReverseImplicationDefinition
  · exact keepsIff_applyEquivalenceDefinitionInverse
  · exact keepsIff_removeIdentities
  · exact keepsIff_removeAnnihilations
  · exact keepsIff_removeIdempotences
  · exact keepsIff_removeOrphanedVariables
  · exact keepsIff_removeEmptyQuantifications
  · exact keepsIff_joinNestedQuantifiers
  · exact keepsIff_removeDoubleNegation
  · exact keepsIff_substituteDefinedVariables
  · exact keepsIff_restrictQuantifierDomain
  · exact keepsIff_extendQuantifierScope
  · exact keepsIff_simplifyTransitiveEquality

theorem keepsIff_compose : ∀ (fs : List (Formula → Formula)), (∀ f ∈ fs, KeepsIff f) → KeepsIff (compose fs) := by
  intro fs
  induction fs with
  | nil => intro _; exact ⟨fun _ _ => rfl, fun _ _ _ => Or.inr ⟨_, rfl⟩, fun _ => rfl⟩
  | cons f fs ih =>
    intro h
    have hf := h f List.mem_cons_self
    have hfs := ih fun g hg => h g (List.mem_cons_of_mem _ hg)
    have hc : ∀ x, compose (f :: fs) x = compose fs (f x) := fun _ => rfl
    refine ⟨fun l r => ?_, fun vs l r => ?_, fun a => ?_⟩
    · rw [hc, hf.1, hfs.1]
    · rw [hc]
      rcases hf.2.1 vs l r with h1 | ⟨vs', h1⟩
      · rw [h1, hfs.1]; exact Or.inl rfl
      · rw [h1]; exact hfs.2.1 vs' l r
    · rw [hc, hf.2.2, hfs.2.2]

/-- one post-order pass keeps the head atom of a definition -/
theorem applyPost_iffRoot (f : Formula → Formula) (hf : KeepsIff f) (a : Atom) (F : Formula)
    (h : IffRoot (.atomic (.atom a)) F) : IffRoot (.atomic (.atom a)) (applyPost f F) := by
  rcases h with ⟨r, rfl⟩ | ⟨vs, r, rfl⟩
  · left
    refine ⟨applyPost f r, ?_⟩
    simp only [applyPost, hf.2.2, hf.1]
  · simp only [applyPost, hf.2.2, hf.1]
    rcases hf.2.1 vs (.atomic (.atom a)) (applyPost f r) with h1 | ⟨vs', h1⟩
    · rw [h1]; exact Or.inl ⟨_, rfl⟩
    · rw [h1]; exact Or.inr ⟨_, _, rfl⟩

theorem applyFixpointFuel_iffRoot (f : Formula → Formula) (hf : KeepsIff f) (a : Atom) :
    ∀ (n : Nat) (F : Formula), IffRoot (.atomic (.atom a)) F →
      IffRoot (.atomic (.atom a)) (applyFixpointFuel f n F).1 := by
  intro n
  induction n with
  | zero => intro F h; exact applyPost_iffRoot f hf a F h
  | succ n ih =>
    intro F h
    simp only [applyFixpointFuel]
    split
    · exact applyPost_iffRoot f hf a F h
    · exact ih _ (applyPost_iffRoot f hf a F h)

theorem headPredicate_iffRoot (a : Atom) (F : Formula) (h : IffRoot (.atomic (.atom a)) F) :
    headPredicate F = some a.predicate := by
  rcases h with ⟨r, rfl⟩ | ⟨vs, r, rfl⟩ <;> rfl

theorem iffRoot_completeDefinition (A : Atom) (fs : List Formula) :
    IffRoot (.atomic (.atom A)) (completeDefinition A fs) := by
  unfold completeDefinition Formula.quantify
  simp only
  split
  · exact Or.inl ⟨_, rfl⟩
  · exact Or.inr ⟨_, _, rfl⟩

/-- **A completed definition keeps its head predicate under simplification.** -/
theorem headPredicate_simplify_completeDefinition (A : Atom) (fs : List Formula) (fuel : Nat) :
    headPredicate (simplifyWith .classic .fixpoint fuel (completeDefinition A fs)).1 = some A.predicate := by
  apply headPredicate_iffRoot
  exact applyFixpointFuel_iffRoot _ (keepsIff_compose _ keepsIff_classic) A fuel _
    (iffRoot_completeDefinition A fs)

/-! ## B. formulas without implications and equivalences -/

/-- built from atoms by `and`, `or`, `not` and quantifiers only -/
def Formula.pos : Formula → Bool
  | .atomic _ => true
  | .not f => f.pos
  | .bin c l r => (c = .and || c = .or) && l.pos && r.pos
  | .quant _ _ f => f.pos

theorem headPredicate_pos : ∀ F : Formula, F.pos = true → headPredicate F = none := by
  intro F
  induction F with
  | atomic a => intro _; rfl
  | not f _ => intro _; rfl
  | bin c l r _ _ =>
    intro h
    cases c <;> simp [Formula.pos] at h
    · cases l <;> rfl
    · cases l <;> rfl
  | quant q vs f ih =>
    intro h
    cases q
    · exact ih h
    · rfl

theorem pos_quantify (F : Formula) (q : Quant) (vs : List Var) : (F.quantify q vs).pos = F.pos := by
  unfold Formula.quantify
  split <;> rfl

theorem pos_foldl_and (fs : List Formula) : ∀ f : Formula, f.pos = true → (∀ g ∈ fs, g.pos = true) →
    (fs.foldl (fun acc e => Formula.bin .and acc e) f).pos = true := by
  induction fs with
  | nil => intro f h _; exact h
  | cons g gs ih =>
    intro f h hg
    exact ih _ (by simp [Formula.pos, h, hg g List.mem_cons_self]) fun x hx => hg x (List.mem_cons_of_mem _ hx)

theorem pos_conjoin (fs : List Formula) (h : ∀ g ∈ fs, g.pos = true) : (conjoin fs).pos = true := by
  cases fs with
  | nil => rfl
  | cons f fs => exact pos_foldl_and fs f (h f List.mem_cons_self) fun g hg => h g (List.mem_cons_of_mem _ hg)

theorem pos_conjoinInvert : ∀ F : Formula, F.pos = true → ∀ g ∈ conjoinInvert F, g.pos = true := by
  intro F
  induction F with
  | atomic a => intro h g hg; simp [conjoinInvert] at hg; subst hg; exact h
  | not f _ => intro h g hg; simp [conjoinInvert] at hg; subst hg; exact h
  | quant q vs f _ => intro h g hg; simp [conjoinInvert] at hg; subst hg; exact h
  | bin c l r ihl ihr =>
    intro h g hg
    cases c
    · simp only [conjoinInvert, List.mem_append] at hg
      simp only [Formula.pos, Bool.and_eq_true] at h
      rcases hg with hg | hg
      · exact ihl h.1.2 g hg
      · exact ihr h.2 g hg
    all_goals (simp [conjoinInvert] at hg; subst hg; exact h)

/-! ### substitution keeps the connectives -/

theorem pos_renameLoop (sub : Formula → Var → GTerm → Formula)
    (hsub : ∀ f v s, (sub f v s).pos = f.pos) (tv : List Var) :
    ∀ (vs : List Var) (body : Formula) (taken : List Var), (renameLoop sub tv vs body taken).1.pos = body.pos := by
  intro vs
  induction vs with
  | nil => intro body taken; rfl
  | cons x xs ih =>
    intro body taken
    simp only [renameLoop]
    split
    · simp only; rw [ih, hsub]
    · simp only; rw [ih]

theorem pos_substFuel : ∀ (n : Nat) (f : Formula) (v : Var) (s : GTerm), (f.substFuel n v s).pos = f.pos := by
  intro n
  induction n with
  | zero =>
    intro f v s
    cases f <;> rfl
  | succ n ih =>
    intro f v s
    cases f with
    | atomic a => rfl
    | not f => simp only [Formula.substFuel, Formula.pos]; exact ih f v s
    | bin c l r => simp only [Formula.substFuel, Formula.pos, ih]
    | quant q vs f =>
      simp only [Formula.substFuel]
      split
      · rfl
      · rw [pos_quantify, ih, pos_renameLoop _ ih]
        rfl

theorem pos_subst (f : Formula) (v : Var) (s : GTerm) : (f.subst v s).pos = f.pos :=
  pos_substFuel _ f v s

/-! ### every rewrite of the classic portfolio keeps the class -/

def KeepsPos (f : Formula → Formula) : Prop := ∀ F : Formula, F.pos = true → (f F).pos = true

theorem pos_evalCmpLoop : ∀ (gs : List Guard) (t : GTerm), ∀ g ∈ evalCmpLoop t gs, g.pos = true := by
  intro gs
  induction gs with
  | nil => intro t g hg; simp [evalCmpLoop] at hg
  | cons x xs ih =>
    intro t g hg
    simp only [evalCmpLoop, List.mem_cons] at hg
    rcases hg with rfl | hg
    · split
      · split <;> rfl
      · rfl
    · exact ih _ g hg

theorem keepsPos_evaluateComparisons : KeepsPos evaluateComparisons := by
  intro F h
  unfold evaluateComparisons
  split
  · exact pos_conjoin _ (pos_evalCmpLoop _ _)
  · exact h

theorem keepsPos_applyNegationDefinitionInverse : KeepsPos applyNegationDefinitionInverse := by
  intro F h
  unfold applyNegationDefinitionInverse
  split
  · simp [Formula.pos] at h
  · exact h

theorem keepsPos_applyReverseImplicationDefinition : KeepsPos applyReverseImplicationDefinition := by
  intro F h
  unfold applyReverseImplicationDefinition
  split
  · simp [Formula.pos] at h
  · exact h

theorem keepsPos_applyEquivalenceDefinitionInverse : KeepsPos applyEquivalenceDefinitionInverse := by
  intro F h
  unfold applyEquivalenceDefinitionInverse
  split
  · simp [Formula.pos] at h
  · exact h

theorem keepsPos_removeIdentities : KeepsPos removeIdentities := by
  intro F h
  unfold removeIdentities
  split <;> first | exact h | (simp only [Formula.pos, Bool.and_eq_true] at h; first | exact h.1.2 | exact h.2)

theorem keepsPos_removeAnnihilations : KeepsPos removeAnnihilations := by
  intro F h
  unfold removeAnnihilations
  split <;> first | rfl | exact h | (simp [Formula.pos] at h)

theorem keepsPos_removeIdempotences : KeepsPos removeIdempotences := by
  intro F h
  unfold removeIdempotences
  split
  · split
    · simp only [Formula.pos, Bool.and_eq_true] at h; exact h.1.2
    · exact h
  · split
    · simp only [Formula.pos, Bool.and_eq_true] at h; exact h.1.2
    · exact h
  · exact h

theorem keepsPos_removeOrphanedVariables : KeepsPos removeOrphanedVariables := by
  intro F h
  unfold removeOrphanedVariables
  split
  · exact h
  · exact h

theorem keepsPos_removeEmptyQuantifications : KeepsPos removeEmptyQuantifications := by
  intro F h
  unfold removeEmptyQuantifications
  split
  · split
    · exact h
    · exact h
  · exact h

theorem keepsPos_joinNestedQuantifiers : KeepsPos joinNestedQuantifiers := by
  intro F h
  unfold joinNestedQuantifiers
  split
  · split
    · rw [pos_quantify]; exact h
    · exact h
  · exact h

theorem keepsPos_removeDoubleNegation : KeepsPos removeDoubleNegation := by
  intro F h
  unfold removeDoubleNegation
  split
  · exact h
  · exact h

theorem pos_definedStep (b : Formula) (v : Var) : (definedStep b v).pos = b.pos := by
  unfold definedStep
  split
  · exact pos_subst _ _ _
  · rfl

theorem pos_foldl_definedStep (vs : List Var) : ∀ f : Formula, (vs.foldl definedStep f).pos = f.pos := by
  induction vs with
  | nil => intro f; rfl
  | cons v vs ih => intro f; rw [List.foldl_cons, ih, pos_definedStep]

theorem keepsPos_substituteDefinedVariables : KeepsPos substituteDefinedVariables := by
  intro F h
  unfold substituteDefinedVariables
  split
  · simp only
    rw [pos_quantify, pos_foldl_definedStep]
    exact h
  · exact h

theorem pos_replacementApply (ivar ovar : Var) (F : Formula) : (replacementApply ivar ovar F).pos = F.pos := by
  unfold replacementApply
  split
  · simp only [Formula.pos]; exact pos_subst _ _ _
  · rfl

theorem keepsPos_restrictQuantifierDomain : KeepsPos restrictQuantifierDomain := by
  intro F h
  unfold restrictQuantifierDomain
  split
  · split
    · rw [pos_replacementApply]; exact h
    · exact h
  · simp [Formula.pos] at h
  · exact h

theorem keepsPos_extendQuantifierScope : KeepsPos extendQuantifierScope := by
  intro F h
  unfold extendQuantifierScope
  split
  · split
    · split
      · exact h
      · simp only [Formula.pos, Bool.and_eq_true] at h ⊢; exact h
    · exact h
  · split
    · split
      · exact h
      · simp only [Formula.pos, Bool.and_eq_true] at h ⊢; exact h
    · exact h
  · exact h

theorem keepsPos_simplifyTransitiveEquality : KeepsPos simplifyTransitiveEquality := by
  intro F h
  unfold simplifyTransitiveEquality
  split
  · rename_i vars l r
    have hparts := pos_conjoinInvert (.bin .and l r) h
    dsimp only
    split
    · simp only [Formula.pos]
      rw [pos_subst]
      apply pos_conjoin
      intro g hg
      split at hg
      · exact hparts g (List.mem_of_mem_eraseIdx hg)
      · exact hparts g (List.mem_filter.mp hg).1
    · exact h
  · exact h

theorem keepsPos_classic : ∀ f ∈ Portfolio.classic.rewrites, KeepsPos f := by
  intro f hf
  simp only [Portfolio.rewrites, intuitionistic, htPortfolio, classic, List.append_nil, List.mem_append,
    List.mem_cons, List.mem_nil_iff, or_false] at hf
  rcases hf with (rfl | rfl | rfl | rfl | rfl | rfl | rfl | rfl | rfl | rfl) | (rfl | rfl | rfl | rfl | rfl)
  · exact keepsPos_evaluateComparisons
  · exact keepsPos_applyNegationDefinitionInverse
  · exact keepsPos_applyReverseImplicationDefinition
  · exact keepsPos_applyEquivalenceDefinitionInverse
  · exact keepsPos_removeIdentities
  · exact keepsPos_removeAnnihilations
  · exact keepsPos_removeIdempotences
  · exact keepsPos_removeOrphanedVariables
  · exact keepsPos_removeEmptyQuantifications
  · exact keepsPos_joinNestedQuantifiers
  · exact keepsPos_removeDoubleNegation
  · exact keepsPos_substituteDefinedVariables
  · exact keepsPos_restrictQuantifierDomain
  · exact keepsPos_extendQuantifierScope
  · exact keepsPos_simplifyTransitiveEquality

theorem keepsPos_compose : ∀ (fs : List (Formula → Formula)), (∀ f ∈ fs, KeepsPos f) → KeepsPos (compose fs) := by
  intro fs
  induction fs with
  | nil => intro _ F h; exact h
  | cons f fs ih =>
    intro h F hF
    exact ih (fun g hg => h g (List.mem_cons_of_mem _ hg)) (f F) (h f List.mem_cons_self F hF)

theorem keepsPos_applyPost (f : Formula → Formula) (hf : KeepsPos f) : KeepsPos (applyPost f) := by
  intro F
  induction F with
  | atomic a => intro h; exact hf _ h
  | not g ih => intro h; exact hf _ (ih h)
  | bin c l r ihl ihr =>
    intro h
    simp only [Formula.pos, Bool.and_eq_true] at h
    apply hf
    simp only [Formula.pos, Bool.and_eq_true]
    exact ⟨⟨h.1.1, ihl h.1.2⟩, ihr h.2⟩
  | quant q vs g ih => intro h; exact hf _ (ih h)

theorem pos_applyFixpointFuel (f : Formula → Formula) (hf : KeepsPos f) :
    ∀ (n : Nat) (F : Formula), F.pos = true → (applyFixpointFuel f n F).1.pos = true := by
  intro n
  induction n with
  | zero => intro F h; exact keepsPos_applyPost f hf F h
  | succ n ih =>
    intro F h
    simp only [applyFixpointFuel]
    split
    · exact keepsPos_applyPost f hf F h
    · exact ih _ (keepsPos_applyPost f hf F h)

/-! ### tau* bodies -/

theorem pos_cmp1 (l : GTerm) (r : Rel) (t : GTerm) : (cmp1 l r t).pos = true := rfl

theorem pos_val : ∀ (t : Asp.Term) (z : Var), (val t z).pos = true := by
  intro t
  induction t with
  | pre p => intro z; rfl
  | var x => intro z; rfl
  | neg arg ih =>
    intro z
    simp only [val, totalFunction, Formula.pos, pos_cmp1, ih, Bool.and_self, Bool.or_false, Bool.and_true]
    rfl
  | bin op l r ihl ihr =>
    intro z
    cases op <;>
      simp only [val, totalFunction, partialFunction, intervalFormula, Formula.pos, pos_cmp1, ihl, ihr,
        Bool.and_self, Bool.or_false, Bool.and_true] <;> rfl

theorem pos_signed (s : Asp.Sign) (a : Formula) (h : a.pos = true) : (signed s a).pos = true := by
  cases s <;> exact h

theorem pos_tauB (f : Asp.BodyAtom) : (tauB f).pos = true := by
  cases f with
  | lit l =>
    simp only [tauB]
    split
    · simp only [Formula.pos, Bool.and_eq_true]
      refine ⟨⟨by simp, ?_⟩, pos_signed _ _ rfl⟩
      apply pos_conjoin
      intro g hg
      obtain ⟨⟨t, z⟩, _, rfl⟩ := List.mem_map.mp hg
      exact pos_val t _
    · exact pos_signed _ _ rfl
  | cmp rel l r =>
    simp only [tauB, Formula.pos, pos_val, pos_cmp1, Bool.and_self, Bool.or_false, Bool.and_true]
    rfl

theorem pos_tauBody (b : List Asp.BodyAtom) : (tauBody b).pos = true := by
  unfold tauBody
  apply pos_conjoin
  intro g hg
  obtain ⟨f, _, rfl⟩ := List.mem_map.mp hg
  exact pos_tauB f

/-! ### a simplified constraint has no head -/

/-- the first pass turns `body -> #false` (possibly below a universal quantifier) into a formula without
    implications, and it stays one -/
theorem pos_simplify_constraint (X : Formula) (hX : X.pos = true) (fuel : Nat) :
    (simplifyWith .classic .fixpoint fuel (Formula.bin .imp X .fls).universalClosure).1.pos = true := by
  have hop := keepsPos_compose _ keepsPos_classic
  -- one pass over the implication
  have hstep : ∀ Y : Formula, Y.pos = true →
      (compose Portfolio.classic.rewrites (.bin .imp Y (.atomic .fls))).pos = true := by
    intro Y hY
    have h1 : compose Portfolio.classic.rewrites (.bin .imp Y (.atomic .fls)) =
        compose (Portfolio.classic.rewrites.drop 2) (.not Y) := rfl
    rw [h1]
    refine keepsPos_compose _ (fun f hf => keepsPos_classic f (List.mem_of_mem_drop hf)) _ ?_
    exact hY
  have hpass : (applyPost (compose Portfolio.classic.rewrites) (Formula.bin .imp X .fls).universalClosure).pos = true := by
    unfold Formula.universalClosure Formula.quantify
    split
    · simp only [applyPost]
      have hfls : compose Portfolio.classic.rewrites (.atomic .fls) = .atomic .fls := rfl
      show (compose Portfolio.classic.rewrites (.bin .imp (applyPost _ X) (compose Portfolio.classic.rewrites Formula.fls))).pos = true
      rw [show compose Portfolio.classic.rewrites Formula.fls = .atomic .fls from rfl]
      exact hstep _ (keepsPos_applyPost _ hop X hX)
    · simp only [applyPost]
      apply hop
      show (compose Portfolio.classic.rewrites (.bin .imp (applyPost _ X) (compose Portfolio.classic.rewrites Formula.fls))).pos = true
      rw [show compose Portfolio.classic.rewrites Formula.fls = .atomic .fls from rfl]
      exact hstep _ (keepsPos_applyPost _ hop X hX)
  simp only [simplifyWith]
  cases fuel with
  | zero => exact hpass
  | succ n =>
    simp only [applyFixpointFuel]
    split
    · exact hpass
    · exact pos_applyFixpointFuel _ hop n _ hpass


end Anthem
