/-
  C03: what the emitted strong-equivalence problems mean. Composes tau* correctness (C01), the
  simplification portfolios (C07), gamma (C05), eq-break and the decompositions (C19).
-/
import AnthemModel.Proofs.TauStarRules
import AnthemModel.Props.C05
import AnthemModel.Props.C07
import AnthemModel.Props.C19
import AnthemModel.Props.C08
import AnthemModel.Model.Strong
namespace Anthem
open Asp

/-! ## simplifyTheory -/

theorem simplifyTheory_some {p : Portfolio} {fuel : Nat} : ∀ {t t' : Theory},
    simplifyTheory p fuel t = some t' →
      t' = t.map fun f => (simplifyWith p .fixpoint fuel f).1 := by
  intro t
  induction t with
  | nil => intro t' h; simp [simplifyTheory] at h; subst h; rfl
  | cons f fs ih =>
    intro t' h
    unfold simplifyTheory at h
    simp only [List.mapM_cons] at h
    cases h1 : (if (simplifyWith p .fixpoint fuel f).2 = true then some (simplifyWith p .fixpoint fuel f).1 else none) with
    | none => simp [h1] at h
    | some g =>
      have hg : g = (simplifyWith p .fixpoint fuel f).1 := by
        split at h1
        · injection h1 with h1; exact h1.symm
        · cases h1
      cases h2 : fs.mapM (fun f => if (simplifyWith p .fixpoint fuel f).2 = true then
          some (simplifyWith p .fixpoint fuel f).1 else none) with
      | none => simp [h1, h2] at h
      | some gs =>
        simp [h1, h2] at h
        rw [← h, hg, List.map_cons, ih (t' := gs) (by unfold simplifyTheory; exact h2)]

/-! ## the pipeline of one program -/

theorem allTrue_simplify_ht (M : HTI) (hs : M.Sub) (w : World) (ρ : Asg) (fuel : Nat) (t : Theory) :
    (∀ F ∈ t.map (fun f => (simplifyWith .ht .fixpoint fuel f).1), ht M F w ρ) ↔ ∀ F ∈ t, ht M F w ρ := by
  simp only [List.mem_map, forall_exists_index, and_imp, forall_apply_eq_imp_iff₂]
  exact forall_congr' fun F => imp_congr_right fun _ => C07.portfolio_sound_ht .fixpoint fuel F M hs w ρ

theorem allTrue_simplify_classic (J : Interp) (ρ : Asg) (fuel : Nat) (t : Theory) :
    (∀ F ∈ t.map (fun f => (simplifyWith .classic .fixpoint fuel f).1), sat J F ρ) ↔ ∀ F ∈ t, sat J F ρ := by
  simp only [List.mem_map, forall_exists_index, and_imp, forall_apply_eq_imp_iff₂]
  exact forall_congr' fun F => imp_congr_right fun _ => C07.portfolio_sound_classic .fixpoint fuel F J ρ

theorem allTrue_gamma {J : Interp} {M : HTI} (hm : C05.Merges J M) (ρ : Asg) (t : Theory) :
    (∀ F ∈ gammaTheory t, sat J F ρ) ↔ ∀ F ∈ t, ht M F .here ρ := by
  simp only [gammaTheory, List.mem_map, forall_exists_index, and_imp, forall_apply_eq_imp_iff₂]
  exact forall_congr' fun F => imp_congr_right fun _ => (C05.gamma_correct hm F ρ).symm

theorem allTrue_break (J : Interp) (ρ : Asg) (t : Theory) :
    (∀ F ∈ breakEquivalencesTheory t, sat J F ρ) ↔ ∀ F ∈ t, sat J F ρ := by
  simp only [breakEquivalencesTheory, List.mem_flatMap, forall_exists_index, and_imp]
  constructor
  · intro h F hF
    exact (break_equiv J F ρ).mp fun G hG => h G F hF hG
  · intro h G F hF hG
    exact (break_equiv J F ρ).mpr (h F hF) G hG

/-- **One program through the whole pipeline** (tau*, optional HT simplification, gamma, optional
    classical simplification, optional eq-break): all resulting formulas are true in the merged
    interpretation iff `(H,T)` satisfies the program at world `here`. -/
theorem processTheory_sem (t : StrongTask) (fuel : Nat) (prog : Program)
    (th : Theory) (h : processTheory t fuel prog = some th) (hp : globalsPanic prog = false)
    {J : Interp} {M : HTI} (hm : C05.Merges J M)
    (hsub : (t.simplify = true ∨ t.rep = .mu) → M.Sub) (ρ : Asg) :
    (∀ F ∈ th, sat J F ρ) ↔ progSat M .here prog := by
  have htr : (∀ F ∈ translateWith t.rep prog, ht M F .here ρ) ↔ progSat M .here prog := by
    cases hrep : t.rep with
    | mu => exact C08.mu_correct prog hp M (hsub (Or.inr hrep)) .here ρ
    | tauStar => exact tauStar_correct prog hp M .here ρ
  rw [← htr]
  unfold processTheory at h
  generalize translateWith t.rep prog = th0 at h ⊢
  cases hsimp : t.simplify with
  | false =>
    simp only [hsimp, Bool.false_eq_true, if_false, Option.pure_def, Option.bind_eq_bind,
      Option.bind_some] at h
    injection h with h
    subst h
    cases t.breakEq with
    | false => simp only [Bool.false_eq_true, if_false]; exact allTrue_gamma hm ρ _
    | true => simp only [if_true]; rw [allTrue_break]; exact allTrue_gamma hm ρ _
  | true =>
    simp only [hsimp, if_true, Option.pure_def, Option.bind_eq_bind] at h
    cases h1 : simplifyTheory .ht fuel th0 with
    | none => simp [h1] at h
    | some t1 =>
      simp only [h1, Option.bind_some] at h
      cases h2 : simplifyTheory .classic fuel (gammaTheory t1) with
      | none => simp [h2] at h
      | some t2 =>
        simp only [h2, Option.bind_some] at h
        injection h with h
        subst h
        have e1 := simplifyTheory_some h1
        have e2 := simplifyTheory_some h2
        have main : (∀ F ∈ t2, sat J F ρ) ↔ ∀ F ∈ th0, ht M F .here ρ := by
          rw [e2, allTrue_simplify_classic, allTrue_gamma hm, e1,
            allTrue_simplify_ht M (hsub (Or.inl hsimp))]
        cases t.breakEq with
        | false => simp only [Bool.false_eq_true, if_false]; exact main
        | true => simp only [if_true]; rw [allTrue_break]; exact main

/-! ## assembling and decomposing the problem of one direction -/

theorem mem_enumerateFrom (t : Theory) (f : Formula) : ∀ k,
    (∃ i, (i, f) ∈ Problem.addTheory.enumerateFrom k t) ↔ f ∈ t := by
  induction t with
  | nil => intro k; simp [Problem.addTheory.enumerateFrom]
  | cons g gs ih =>
    intro k
    simp only [Problem.addTheory.enumerateFrom, List.mem_cons, Prod.mk.injEq]
    constructor
    · rintro ⟨i, ⟨_, rfl⟩ | h⟩
      · exact Or.inl rfl
      · exact Or.inr ((ih (k + 1)).mp ⟨i, h⟩)
    · rintro (rfl | h)
      · exact ⟨k, Or.inl ⟨rfl, rfl⟩⟩
      · obtain ⟨i, hi⟩ := (ih (k + 1)).mpr h
        exact ⟨i, Or.inr hi⟩

/-- the formulas of a role among those added by `add_theory` -/
theorem addTheory_role_forall (p : Problem) (t : Theory) (pre : String) (role role' : PRole)
    (Q : Formula → Prop) :
    (∀ a ∈ (p.addTheory t pre role).formulas, a.role = role' → Q a.formula) ↔
      (∀ a ∈ p.formulas, a.role = role' → Q a.formula) ∧ (role = role' → ∀ F ∈ t, Q F) := by
  unfold Problem.addTheory
  simp only [List.mem_append, List.mem_map, Prod.exists]
  constructor
  · intro h
    refine ⟨fun a ha => h a (Or.inl ha), fun e F hF => ?_⟩
    obtain ⟨i, hi⟩ := (mem_enumerateFrom t F 0).mpr hF
    exact h ⟨pre ++ toString i, role, F⟩ (Or.inr ⟨i, F, hi, rfl⟩) e
  · rintro ⟨h1, h2⟩ a (ha | ⟨i, F, hi, rfl⟩) hr
    · exact h1 a ha hr
    · exact h2 hr F ((mem_enumerateFrom t F 0).mp ⟨i, hi⟩)

theorem uniqueNames_role_forall (p : Problem) (role' : PRole) (Q : Formula → Prop) :
    (∀ a ∈ p.uniqueNames.formulas, a.role = role' → Q a.formula) ↔
      (∀ a ∈ p.formulas, a.role = role' → Q a.formula) := by
  unfold Problem.uniqueNames
  simp only [List.mem_map, Prod.exists]
  constructor
  · intro h a ha hr
    obtain ⟨i, hi⟩ := (mem_indexFrom (k := 0)).mp ha
    exact h { a with name := "formula_" ++ toString i ++ "_" ++ a.name } ⟨i, a, hi, rfl⟩ hr
  · rintro h a' ⟨i, a, hi, rfl⟩ hr
    exact h a ((mem_indexFrom (k := 0)).mpr ⟨i, hi⟩) hr

theorem directionProblem_eq (name : String) (tr ax cj : Theory) (axPre cjPre : String) :
    directionProblem name tr ax cj axPre cjPre =
      (directionProblem0 name tr ax cj axPre cjPre).renameConflictingSymbols.uniqueNames := rfl

theorem direction_role_forall (name : String) (tr ax cj : Theory) (axPre cjPre : String)
    (hnc : (directionProblem0 name tr ax cj axPre cjPre).renameConflictingSymbols =
      directionProblem0 name tr ax cj axPre cjPre) (Q : Formula → Prop) :
    ((∀ a ∈ (directionProblem name tr ax cj axPre cjPre).formulas, a.role = .axiom → Q a.formula) ↔
      ((∀ F ∈ tr, Q F) ∧ ∀ F ∈ ax, Q F)) ∧
    ((∀ a ∈ (directionProblem name tr ax cj axPre cjPre).formulas, a.role = .conjecture → Q a.formula) ↔
      ∀ F ∈ cj, Q F) := by
  rw [directionProblem_eq, hnc]
  simp only [uniqueNames_role_forall, directionProblem0, addTheory_role_forall]
  constructor
  · simp
  · simp

/-- refutation of the decomposed family of one direction -/
theorem direction_refutes (J : Interp) (ρ : Asg) (name : String) (tr ax cj : Theory) (axPre cjPre : String)
    (hnc : (directionProblem0 name tr ax cj axPre cjPre).renameConflictingSymbols =
      directionProblem0 name tr ax cj axPre cjPre) (d : Decomposition) :
    (∃ P ∈ (directionProblem name tr ax cj axPre cjPre).decompose d, Refutes J ρ P) ↔
      (∀ F ∈ tr, sat J F ρ) ∧ (∀ F ∈ ax, sat J F ρ) ∧ ¬ ∀ G ∈ cj, sat J G ρ := by
  have key : (∃ P ∈ (directionProblem name tr ax cj axPre cjPre).decompose d, Refutes J ρ P) ↔
      (∀ a ∈ (directionProblem name tr ax cj axPre cjPre).axioms, sat J a.formula ρ) ∧
      ∃ c ∈ (directionProblem name tr ax cj axPre cjPre).conjectures, ¬ sat J c.formula ρ := by
    cases d
    · exact C19.independent_refutes J ρ _
    · exact C19.sequential_refutes J ρ _
  rw [key]
  obtain ⟨h1, h2⟩ := direction_role_forall name tr ax cj axPre cjPre hnc (fun F => sat J F ρ)
  have hax : (∀ a ∈ (directionProblem name tr ax cj axPre cjPre).axioms, sat J a.formula ρ) ↔
      ((∀ F ∈ tr, sat J F ρ) ∧ ∀ F ∈ ax, sat J F ρ) := by
    rw [← h1]
    simp only [Problem.axioms, List.mem_filter, decide_eq_true_eq, and_imp]
  have hcj : (∃ c ∈ (directionProblem name tr ax cj axPre cjPre).conjectures, ¬ sat J c.formula ρ) ↔
      ¬ ∀ G ∈ cj, sat J G ρ := by
    rw [← h2]
    simp only [Problem.conjectures, List.mem_filter, decide_eq_true_eq]
    constructor
    · rintro ⟨c, ⟨hc, hr⟩, hn⟩ hall; exact hn (hall c hc hr)
    · intro hn
      refine Classical.byContradiction fun hne => hn fun a ha hr => ?_
      exact Classical.byContradiction fun hs => hne ⟨a, ⟨ha, hr⟩, hs⟩
  rw [hax, hcj, and_assoc]

/-! ## transition axioms -/

/-- `H ⊆ T` on the listed predicates (at their arities) -/
def SubOn (M : HTI) (ps : List Pred) : Prop :=
  ∀ p ∈ ps, ∀ ds : List Dom, ds.length = p.arity → M.h p.symbol ds → M.t p.symbol ds

theorem bindAll_fresh_general (zs : List String) (hn : zs.Nodup) (P : Asg → Prop) (ρ : Asg) :
    bindAll (zs.map fun z => (⟨z, .general⟩ : Var)) P ρ ↔
      ∀ ds : List Dom, ds.length = zs.length → P (assignGen ρ zs ds) := by
  rw [bindAll_iff]
  constructor
  · intro h ds _
    exact h _ ((allUpd_general zs ρ _).mpr fun v hv => assignGen_other ρ zs ds v hv)
  · intro h τ hτ
    rw [allUpd_general] at hτ
    have : assignGen ρ zs (zs.map fun z => τ ⟨z, .general⟩) = τ := by
      funext v
      by_cases hv : ∀ z ∈ zs, v ≠ ⟨z, .general⟩
      · rw [assignGen_other ρ zs _ v hv, hτ v hv]
      · have hv' : ∃ z, z ∈ zs ∧ v = ⟨z, .general⟩ := by
          refine Classical.byContradiction fun hne => hv fun z hz e => hne ⟨z, hz, e⟩
        obtain ⟨z, hz, rfl⟩ := hv'
        have hm := assignGen_map ρ zs (zs.map fun z => τ ⟨z, .general⟩) hn (by simp)
        exact List.map_inj_left.mp hm z hz
    rw [← this]; exact h _ (by simp)

def xNames (n : Nat) : List String := (List.range' 1 n).map fun i => "X" ++ toString i

theorem xNames_nodup (n : Nat) : (xNames n).Nodup := by
  refine List.Pairwise.map _ (fun a b hab hc => hab ?_) List.nodup_range'
  simp only [String.append_right_inj] at hc
  exact Nat.repr_injective hc

theorem transitionAxiom_sem {J : Interp} {M : HTI} (hm : C05.Merges J M) (p : Pred) (ρ : Asg) :
    sat J (transitionAxiom p) ρ ↔
      ∀ ds : List Dom, ds.length = p.arity → M.h p.symbol ds → M.t p.symbol ds := by
  unfold transitionAxiom
  simp only
  rw [sat_quantify]
  simp only [sat]
  have hargs : (Pred.toFormula p) = .atomic (.atom ⟨p.symbol, (xNames p.arity).map GTerm.var⟩) := by
    simp [Pred.toFormula, xNames, List.map_map]
  have hfv : ∀ v, v ∈ (Pred.toFormula p).here.fv ↔ v ∈ (xNames p.arity).map fun z => (⟨z, .general⟩ : Var) := by
    intro v
    rw [hargs]
    simp only [Formula.here, prependPred, Formula.fv, AtomicF.vars]
    rw [mem_foldl_ext]
    simp only [List.not_mem_nil, false_or, List.mem_map]
    constructor
    · rintro ⟨t, ⟨x, hx, rfl⟩, hv⟩
      simp only [GTerm.vars, List.mem_singleton] at hv
      exact ⟨x, hx, hv.symm⟩
    · rintro ⟨x, hx, rfl⟩
      exact ⟨.var x, ⟨x, hx, rfl⟩, by simp [GTerm.vars]⟩
  rw [bindAll_perm hfv, bindAll_fresh_general _ (xNames_nodup p.arity)]
  have hlen : (xNames p.arity).length = p.arity := by simp [xNames]
  rw [hlen]
  refine forall_congr' fun ds => imp_congr_right fun hds => ?_
  rw [hargs]
  have hmap : ((xNames p.arity).map GTerm.var).map (GTerm.eval J.fc (assignGen ρ (xNames p.arity) ds)) = ds := by
    rw [List.map_map]
    exact assignGen_map ρ _ ds (xNames_nodup _) (by rw [hlen, hds])
  simp only [Formula.here, Formula.there, prependPred, sat, AtomicF.sat, hmap]
  rw [hm.h, hm.t]

theorem transitionAxioms_sem {J : Interp} {M : HTI} (hm : C05.Merges J M) (t : StrongTask) (ρ : Asg) :
    (∀ F ∈ transitionAxioms t, sat J F ρ) ↔ SubOn M (ext t.left.preds t.right.preds) := by
  unfold transitionAxioms SubOn
  simp only [List.mem_map, forall_exists_index, and_imp, forall_apply_eq_imp_iff₂]
  exact forall_congr' fun p => imp_congr_right fun _ => transitionAxiom_sem hm p ρ

/-! ## the emitted families -/

/-- no symbolic constant of the assembled problem equals a 0-ary predicate: `rename_conflicting_symbols`
    leaves the problem unchanged (otherwise the renamed constant denotes a different element of the
    standard domain, and the statement below would be about the renamed programs) -/
def NoSymbolConflict (t : StrongTask) (fuel : Nat) : Prop :=
  ∀ l r, processTheory t fuel t.left = some l → processTheory t fuel t.right = some r →
    (directionProblem0 "forward" (transitionAxioms t) l r "left_" "right_").renameConflictingSymbols =
      directionProblem0 "forward" (transitionAxioms t) l r "left_" "right_" ∧
    (directionProblem0 "backward" (transitionAxioms t) r l "right_" "left_").renameConflictingSymbols =
      directionProblem0 "backward" (transitionAxioms t) r l "right_" "left_"

/-- **C03, both directions at once.** Some emitted problem is refuted
    by the classical interpretation `J` that merges `(H,T)` iff `H ⊆ T` on the programs' predicates
    and `(H,T)` satisfies one program but not the other, in a direction the task asks for. -/
theorem strong_refutes (t : StrongTask) (fuel : Nat) (ps : List Problem)
    (h : strongProblems t fuel = some ps)
    (hpl : globalsPanic t.left = false) (hpr : globalsPanic t.right = false)
    (hnc : NoSymbolConflict t fuel)
    {J : Interp} {M : HTI} (hm : C05.Merges J M)
    (hsub : (t.simplify = true ∨ t.rep = .mu) → M.Sub) (ρ : Asg) :
    (∃ P ∈ ps, Refutes J ρ P) ↔
      SubOn M (ext t.left.preds t.right.preds) ∧
      (((t.direction = .universal ∨ t.direction = .forward) ∧
          progSat M .here t.left ∧ ¬ progSat M .here t.right) ∨
       ((t.direction = .universal ∨ t.direction = .backward) ∧
          progSat M .here t.right ∧ ¬ progSat M .here t.left)) := by
  unfold strongProblems at h
  cases hl : processTheory t fuel t.left with
  | none => simp [hl] at h
  | some l =>
    cases hr : processTheory t fuel t.right with
    | none => simp [hl, hr] at h
    | some r =>
      simp only [hl, hr, Option.pure_def, Option.bind_eq_bind, Option.bind_some, Option.some.injEq] at h
      subst h
      obtain ⟨hncf, hncb⟩ := hnc l r hl hr
      have hL := processTheory_sem t fuel t.left l hl hpl hm hsub ρ
      have hR := processTheory_sem t fuel t.right r hr hpr hm hsub ρ
      have hF := direction_refutes J ρ "forward" (transitionAxioms t) l r "left_" "right_" hncf t.decomposition
      have hB := direction_refutes J ρ "backward" (transitionAxioms t) r l "right_" "left_" hncb t.decomposition
      rw [transitionAxioms_sem hm, hL, hR] at hF hB
      simp only [List.mem_flatMap, List.mem_append]
      constructor
      · rintro ⟨P, ⟨p, hp | hp, hP⟩, href⟩
        · split at hp
          · rename_i hd
            simp only [List.mem_singleton] at hp; subst hp
            obtain ⟨h1, h2, h3⟩ := hF.mp ⟨P, hP, href⟩
            exact ⟨h1, Or.inl ⟨hd, h2, h3⟩⟩
          · cases hp
        · split at hp
          · rename_i hd
            simp only [List.mem_singleton] at hp; subst hp
            obtain ⟨h1, h2, h3⟩ := hB.mp ⟨P, hP, href⟩
            exact ⟨h1, Or.inr ⟨hd, h2, h3⟩⟩
          · cases hp
      · rintro ⟨h1, ⟨hd, h2, h3⟩ | ⟨hd, h2, h3⟩⟩
        · obtain ⟨P, hP, href⟩ := hF.mpr ⟨h1, h2, h3⟩
          exact ⟨P, ⟨_, Or.inl (by rw [if_pos hd]; exact List.mem_singleton.mpr rfl), hP⟩, href⟩
        · obtain ⟨P, hP, href⟩ := hB.mpr ⟨h1, h2, h3⟩
          exact ⟨P, ⟨_, Or.inr (by rw [if_pos hd]; exact List.mem_singleton.mpr rfl), hP⟩, href⟩

/-- Whatever the representation and flags: an interpretation that refutes an emitted problem has
    `H ⊆ T` on the programs' predicates (the transition axioms are axioms of every problem). -/
theorem strong_refuted_subOn (t : StrongTask) (fuel : Nat) (ps : List Problem)
    (h : strongProblems t fuel = some ps) (hnc : NoSymbolConflict t fuel)
    {J : Interp} {M : HTI} (hm : C05.Merges J M) (ρ : Asg) (href : ∃ P ∈ ps, Refutes J ρ P) :
    SubOn M (ext t.left.preds t.right.preds) := by
  unfold strongProblems at h
  cases hl : processTheory t fuel t.left with
  | none => simp [hl] at h
  | some l =>
    cases hr : processTheory t fuel t.right with
    | none => simp [hl, hr] at h
    | some r =>
      simp only [hl, hr, Option.bind_eq_bind, Option.bind_some, Option.some.injEq] at h
      subst h
      obtain ⟨hncf, hncb⟩ := hnc l r hl hr
      have hF := direction_refutes J ρ "forward" (transitionAxioms t) l r "left_" "right_" hncf t.decomposition
      have hB := direction_refutes J ρ "backward" (transitionAxioms t) r l "right_" "left_" hncb t.decomposition
      rw [transitionAxioms_sem hm] at hF hB
      simp only [List.mem_flatMap, List.mem_append] at href
      obtain ⟨P, ⟨p, hp | hp, hP⟩, href⟩ := href
      · split at hp
        · simp only [List.mem_singleton] at hp; subst hp
          exact (hF.mp ⟨P, hP, href⟩).1
        · cases hp
      · split at hp
        · simp only [List.mem_singleton] at hp; subst hp
          exact (hB.mp ⟨P, hP, href⟩).1
        · cases hp

end Anthem
