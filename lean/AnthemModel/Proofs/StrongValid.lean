/-
  C03, soundness with no side condition: if no emitted problem of a universal strong-equivalence task
  has a countermodel, the two programs have the same here-and-there models (over interpretations with
  `H ⊆ T`), i.e. they are strongly equivalent. `rename_conflicting_symbols` needs no hypothesis: every
  interpretation is, on the names of a problem, the reading of some interpretation through the problem's
  renaming (`reading_surjective`).
-/
import AnthemModel.Proofs.RenameValid
namespace Anthem
open Asp

theorem direction0_formula_mem (name : String) (tr ax cj : Theory) (axPre cjPre : String) (F : Formula)
    (hF : F ∈ tr ∨ F ∈ ax ∨ F ∈ cj) :
    ∃ a ∈ (directionProblem0 name tr ax cj axPre cjPre).formulas, a.formula = F := by
  refine Classical.byContradiction fun hne => ?_
  have hall : ∀ role, ∀ a ∈ (directionProblem0 name tr ax cj axPre cjPre).formulas, a.role = role → a.formula ≠ F :=
    fun _ a ha _ he => hne ⟨a, ha, he⟩
  obtain ⟨h1, h2⟩ := direction0_role_forall name tr ax cj axPre cjPre (fun G => G ≠ F)
  rcases hF with hF | hF | hF
  · exact (h1.mp (hall .axiom)).1 F hF rfl
  · exact (h1.mp (hall .axiom)).2 F hF rfl
  · exact h2.mp (hall .conjecture) F hF rfl

/-- an interpretation that satisfies the premises of a direction and falsifies a conclusion yields a
    countermodel of an emitted problem of that direction, whatever was renamed -/
theorem direction_countermodel (J0 : Interp) (ρ : Asg) (name : String) (tr ax cj : Theory) (axPre cjPre : String)
    (d : Decomposition) (htr : ∀ F ∈ tr, sat J0 F ρ) (hax : ∀ F ∈ ax, sat J0 F ρ) (hcj : ¬ ∀ G ∈ cj, sat J0 G ρ) :
    ∃ J1 : Interp, ∃ P ∈ (directionProblem name tr ax cj axPre cjPre).decompose d, Refutes J1 ρ P := by
  obtain ⟨J1, hfc, hread⟩ := reading_surjective (directionProblem0 name tr ax cj axPre cjPre) J0
  have hsat : ∀ F, (F ∈ tr ∨ F ∈ ax ∨ F ∈ cj) →
      (sat ⟨propReading (directionProblem0 name tr ax cj axPre cjPre).propRenaming J1.pred, J1.fc⟩ F ρ ↔ sat J0 F ρ) := by
    intro F hF
    obtain ⟨a, ha, rfl⟩ := direction0_formula_mem name tr ax cj axPre cjPre F hF
    rw [hfc]
    refine sat_congr_preds J0.fc _ J0.pred a.formula ρ ?_
    intro q hq ds _
    exact hread q.symbol ds (pred_symbol_occupied _ a ha q hq)
  refine ⟨J1, (direction_refutes_renamed J1 ρ name tr ax cj axPre cjPre d).mpr ⟨?_, ?_, ?_⟩⟩
  · exact fun F hF => (hsat F (Or.inl hF)).mpr (htr F hF)
  · exact fun F hF => (hsat F (Or.inr (Or.inl hF))).mpr (hax F hF)
  · exact fun hall => hcj fun G hG => (hsat G (Or.inr (Or.inr hG))).mp (hall G hG)

/-- **C03, soundness with no side condition**: for a universal task (either representation, all flags),
    if NO emitted problem has a countermodel then the programs have the same here-and-there models. -/
theorem strong_valid_implies_equivalent (t : StrongTask) (hdir : t.direction = .universal) (fuel : Nat)
    (ps : List Problem) (h : strongProblems t fuel = some ps)
    (hvalid : ∀ P ∈ ps, ∀ J ρ, ¬ Refutes J ρ P) :
    ∀ M : HTI, M.Sub → (progSat M .here t.left ↔ progSat M .here t.right) := by
  unfold strongProblems at h
  cases hl : processTheory t fuel t.left with
  | none => simp [hl] at h
  | some l =>
    cases hr : processTheory t fuel t.right with
    | none => simp [hl, hr] at h
    | some r =>
      simp only [hl, hr, Option.bind_eq_bind, Option.bind_some, Option.some.injEq] at h
      subst h
      intro M hs
      obtain ⟨J0, hm⟩ := C05.merge_exists M
      have ρ : Asg := fun _ => .inf
      have hL := processTheory_sem t fuel t.left l hl rfl hm (fun _ => hs) ρ
      have hR := processTheory_sem t fuel t.right r hr rfl hm (fun _ => hs) ρ
      have htr : ∀ F ∈ transitionAxioms t, sat J0 F ρ :=
        (transitionAxioms_sem hm t ρ).mpr fun p _ ds _ hh => hs _ _ hh
      have hmemF : ∀ P, P ∈ (directionProblem "forward" (transitionAxioms t) l r "left_" "right_").decompose t.decomposition →
          ∀ J ρ, ¬ Refutes J ρ P := by
        intro P hP
        refine hvalid P ?_
        simp only [List.mem_flatMap, List.mem_append]
        exact ⟨_, Or.inl (by rw [if_pos (Or.inl hdir)]; exact List.mem_singleton.mpr rfl), hP⟩
      have hmemB : ∀ P, P ∈ (directionProblem "backward" (transitionAxioms t) r l "right_" "left_").decompose t.decomposition →
          ∀ J ρ, ¬ Refutes J ρ P := by
        intro P hP
        refine hvalid P ?_
        simp only [List.mem_flatMap, List.mem_append]
        exact ⟨_, Or.inr (by rw [if_pos (Or.inl hdir)]; exact List.mem_singleton.mpr rfl), hP⟩
      constructor
      · intro hLs
        refine Classical.byContradiction fun hRs => ?_
        obtain ⟨J1, P, hP, href⟩ := direction_countermodel J0 ρ "forward" (transitionAxioms t) l r "left_" "right_"
          t.decomposition htr (hL.mpr hLs) (fun hall => hRs (hR.mp hall))
        exact hmemF P hP J1 ρ href
      · intro hRs
        refine Classical.byContradiction fun hLs => ?_
        obtain ⟨J1, P, hP, href⟩ := direction_countermodel J0 ρ "backward" (transitionAxioms t) r l "right_" "left_"
          t.decomposition htr (hR.mpr hRs) (fun hall => hLs (hL.mp hall))
        exact hmemB P hP J1 ρ href

end Anthem
