/-
  Substitution lemma, part 1: terms, atomic formulas, and formulas in which no binder has to be
  renamed (no bound variable in scope occurs in the substituted term).
-/
import AnthemModel.Proofs.Agree
import AnthemModel.Model.Substitute
namespace Anthem

/-- The inputs on which `substitute` does not panic by construction. -/
def SortCompatible (v : Var) (s : GTerm) : Prop :=
  (v.sort = .integer → ∃ si, s = .int si) ∧ (v.sort = .symbol → ∃ ss, s = .symb ss)

theorem ITerm.vars_sort {t : ITerm} {w : Var} (h : w ∈ t.vars) : w.sort = .integer := by
  induction t with
  | num _ | fc _ => simp [ITerm.vars] at h
  | var x => simp [ITerm.vars] at h; subst h; rfl
  | neg t ih => exact ih (by simpa [ITerm.vars] using h)
  | bin op l r ihl ihr =>
    simp only [ITerm.vars, mem_ext] at h
    exact h.elim ihl ihr

theorem ITerm.eval_subst (fc : FcI) (ρ : Asg) (t : ITerm) (x : String) (s : ITerm) :
    (t.subst x s).eval fc ρ = t.eval fc (ρ.set ⟨x, .integer⟩ (.num (s.eval fc ρ))) := by
  induction t with
  | num _ | fc _ => rfl
  | var y =>
    simp only [ITerm.subst]
    split
    · rename_i h; subst h; simp [ITerm.eval, Dom.toInt]
    · rename_i h
      have : (⟨y, .integer⟩ : Var) ≠ ⟨x, .integer⟩ := by
        intro e; exact h (by injection e with e1; exact e1.symm)
      simp [ITerm.eval, Asg.set_other _ _ this]
  | neg t ih => simp [ITerm.subst, ITerm.eval, ih]
  | bin op l r ihl ihr => simp [ITerm.subst, ITerm.eval, ihl, ihr]

theorem GTerm.eval_subst (fc : FcI) (ρ : Asg) (t : GTerm) (v : Var) (s : GTerm)
    (hc : SortCompatible v s) :
    (t.subst v s).eval fc ρ = t.eval fc (ρ.set v (s.eval fc ρ)) := by
  obtain ⟨vn, vs⟩ := v
  cases t with
  | inf | sup | fc _ => rfl
  | var y =>
    simp only [GTerm.subst]
    split
    · rename_i h; obtain ⟨h1, h2⟩ := h
      have h1' : vn = y := h1
      have h2' : vs = .general := h2
      subst h1'; subst h2'
      simp [GTerm.eval]
    · rename_i h
      have : (⟨y, .general⟩ : Var) ≠ ⟨vn, vs⟩ := by
        intro e; injection e with e1 e2; exact h ⟨e1.symm, e2.symm⟩
      simp [GTerm.eval, Asg.set_other _ _ this]
  | int it =>
    simp only [GTerm.subst]
    split
    · rename_i h
      have h' : vs = .integer := h
      subst h'
      obtain ⟨si, rfl⟩ := hc.1 rfl
      simp [GTerm.eval, ITerm.eval_subst]
    · rename_i h
      simp only [GTerm.eval]
      congr 1
      apply ITerm.eval_congr
      intro w hw
      have hs := ITerm.vars_sort hw
      have : w ≠ ⟨vn, vs⟩ := by intro e; subst e; exact h hs
      exact (Asg.set_other _ _ this).symm
  | symb st =>
    simp only [GTerm.subst]
    split
    · rename_i h
      have h' : vs = .symbol := h
      subst h'
      obtain ⟨ss, rfl⟩ := hc.2 rfl
      cases st with
      | sym _ | fc _ => simp [STerm.subst, GTerm.eval, STerm.eval]
      | var y =>
        simp only [STerm.subst]
        split
        · rename_i h; subst h; simp [GTerm.eval, STerm.eval, Dom.toStr]
        · rename_i h
          have : (⟨y, .symbol⟩ : Var) ≠ ⟨vn, .symbol⟩ := by
            intro e; injection e with e1; exact h e1.symm
          simp [GTerm.eval, STerm.eval, Asg.set_other _ _ this]
    · rename_i h
      cases st with
      | sym _ | fc _ => rfl
      | var y =>
        have : (⟨y, .symbol⟩ : Var) ≠ ⟨vn, vs⟩ := by
          intro e; injection e with _ e2; exact h e2.symm
        simp [GTerm.eval, STerm.eval, Asg.set_other _ _ this]

theorem cmpChain_subst (fc : FcI) (ρ : Asg) (v : Var) (s : GTerm) (hc : SortCompatible v s)
    (gs : List Guard) (d : Dom) :
    cmpChain fc ρ d (gs.map fun g => ⟨g.rel, g.term.subst v s⟩) ↔
      cmpChain fc (ρ.set v (s.eval fc ρ)) d gs := by
  induction gs generalizing d with
  | nil => simp [cmpChain]
  | cons g gs ih => simp only [List.map_cons, cmpChain, GTerm.eval_subst fc ρ _ v s hc, ih]

theorem AtomicF.sat_subst (P : PredI) (fc : FcI) (ρ : Asg) (a : AtomicF) (v : Var) (s : GTerm)
    (hc : SortCompatible v s) :
    (a.subst v s).sat P fc ρ ↔ a.sat P fc (ρ.set v (s.eval fc ρ)) := by
  cases a with
  | tru | fls => exact Iff.rfl
  | atom a =>
    simp only [AtomicF.subst, AtomicF.sat, List.map_map]
    have : a.args.map (GTerm.eval fc ρ ∘ fun t => t.subst v s) =
        a.args.map (GTerm.eval fc (ρ.set v (s.eval fc ρ))) :=
      List.map_congr_left fun t _ => GTerm.eval_subst fc ρ t v s hc
    rw [this]
  | cmp t gs =>
    simp only [AtomicF.subst, AtomicF.sat, GTerm.eval_subst fc ρ t v s hc]
    exact cmpChain_subst fc ρ v s hc gs _

/-- No binder block in scope of the substitution mentions a variable of the term: the renaming
    loop of `substitute` is the identity. Decidable. -/
def NoRename (tv : List Var) (v : Var) : Formula → Prop
  | .atomic _ => True
  | .not f => NoRename tv v f
  | .bin _ l r => NoRename tv v l ∧ NoRename tv v r
  | .quant _ vs f => v ∈ vs ∨ ((∀ x ∈ vs, x ∉ tv) ∧ NoRename tv v f)

theorem renameLoop_id (sub : Formula → Var → GTerm → Formula) (tv : List Var) (vs : List Var)
    (h : ∀ x ∈ vs, x ∉ tv) (body : Formula) (taken : List Var) :
    renameLoop sub tv vs body taken = (body, vs) := by
  induction vs generalizing taken with
  | nil => rfl
  | cons x xs ih =>
    have hx : x ∉ tv := h x List.mem_cons_self
    simp only [renameLoop, hx, if_false]
    rw [ih (fun y hy => h y (List.mem_cons_of_mem _ hy))]

theorem bind_set_comm_all {vs : List Var} {v : Var} (hv : v ∉ vs) (a : Dom) (P : Asg → Prop)
    (ρ : Asg) :
    bindAll vs (fun ρ' => P (ρ'.set v a)) ρ ↔ bindAll vs P (ρ.set v a) := by
  induction vs generalizing ρ with
  | nil => rfl
  | cons x xs ih =>
    have hx : v ≠ x := fun e => hv (e ▸ List.mem_cons_self)
    simp only [bindAll]
    refine forall_congr' fun d => imp_congr_right fun _ => ?_
    rw [ih (fun h => hv (List.mem_cons_of_mem _ h))]
    have : (ρ.set x d).set v a = (ρ.set v a).set x d := by
      funext w; simp only [Asg.set]; split <;> split <;> simp_all
    rw [this]

theorem bind_set_comm_ex {vs : List Var} {v : Var} (hv : v ∉ vs) (a : Dom) (P : Asg → Prop)
    (ρ : Asg) :
    bindEx vs (fun ρ' => P (ρ'.set v a)) ρ ↔ bindEx vs P (ρ.set v a) := by
  induction vs generalizing ρ with
  | nil => rfl
  | cons x xs ih =>
    have hx : v ≠ x := fun e => hv (e ▸ List.mem_cons_self)
    simp only [bindEx]
    refine exists_congr fun d => and_congr_right fun _ => ?_
    rw [ih (fun h => hv (List.mem_cons_of_mem _ h))]
    have : (ρ.set x d).set v a = (ρ.set v a).set x d := by
      funext w; simp only [Asg.set]; split <;> split <;> simp_all
    rw [this]

/-- value of a term is unchanged by re-binding variables that do not occur in it -/
theorem bindAll_term_const {vs : List Var} {s : GTerm} (fc : FcI) (hs : ∀ x ∈ vs, x ∉ s.vars)
    (P : Asg → Dom → Prop) (ρ : Asg) :
    bindAll vs (fun ρ' => P ρ' (s.eval fc ρ')) ρ ↔ bindAll vs (fun ρ' => P ρ' (s.eval fc ρ)) ρ := by
  rw [bindAll_iff, bindAll_iff]
  refine forall_congr' fun τ => imp_congr_right fun hτ => ?_
  have : s.eval fc τ = s.eval fc ρ := GTerm.eval_congr fc s fun w hw =>
    hτ.1 w (fun hin => hs w hin hw)
  rw [this]

theorem bindEx_term_const {vs : List Var} {s : GTerm} (fc : FcI) (hs : ∀ x ∈ vs, x ∉ s.vars)
    (P : Asg → Dom → Prop) (ρ : Asg) :
    bindEx vs (fun ρ' => P ρ' (s.eval fc ρ')) ρ ↔ bindEx vs (fun ρ' => P ρ' (s.eval fc ρ)) ρ := by
  rw [bindEx_iff, bindEx_iff]
  refine exists_congr fun τ => and_congr_right fun hτ => ?_
  have : s.eval fc τ = s.eval fc ρ := GTerm.eval_congr fc s fun w hw =>
    hτ.1 w (fun hin => hs w hin hw)
  rw [this]

theorem ht_quantify' (M : HTI) (f : Formula) (q : Quant) (vs : List Var) (w : World) (ρ : Asg) :
    ht M (f.quantify q vs) w ρ ↔ ht M (.quant q vs f) w ρ := by
  unfold Formula.quantify
  split
  · rename_i h
    have : vs = [] := List.isEmpty_iff.mp h
    subst this
    cases q <;> simp [ht, bindAll, bindEx]
  · exact Iff.rfl

/-- Substitution lemma when no renaming is needed. -/
theorem ht_substFuel_noRename (M : HTI) (v : Var) (s : GTerm) (hc : SortCompatible v s) :
    ∀ (n : Nat) (F : Formula), F.depth ≤ n → NoRename s.vars v F → ∀ (w : World) (ρ : Asg),
      ht M (F.substFuel n v s) w ρ ↔ ht M F w (ρ.set v (s.eval M.fc ρ)) := by
  intro n
  induction n with
  | zero =>
    intro F hd _ w ρ
    cases F with
    | atomic a => simp only [Formula.substFuel, ht]; exact a.sat_subst _ _ ρ v s hc
    | not f => simp [Formula.depth] at hd
    | bin c l r => simp [Formula.depth] at hd
    | quant q vs f => simp [Formula.depth] at hd
  | succ n ih =>
    intro F hd hn w ρ
    cases F with
    | atomic a => simp only [Formula.substFuel, ht]; exact a.sat_subst _ _ ρ v s hc
    | not f =>
      simp only [Formula.substFuel, ht]
      exact not_congr (ih f (by simp [Formula.depth] at hd; omega) hn .there ρ)
    | bin c l r =>
      simp only [Formula.depth] at hd
      have hl := fun w => ih l (by omega) hn.1 w ρ
      have hr := fun w => ih r (by omega) hn.2 w ρ
      cases c <;> simp only [Formula.substFuel, ht, hl, hr]
    | quant q vs f =>
      simp only [Formula.substFuel]
      split
      · rename_i hv
        -- v is bound: nothing to do, and the body does not see the new value of v
        have : ∀ w, ht M (.quant q vs f) w ρ ↔ ht M (.quant q vs f) w (ρ.set v (s.eval M.fc ρ)) :=
          fun w => ht_agree M _ w _ _ (fun x hx => by
            have : x ≠ v := fun e => hx.2 (e ▸ hv)
            exact (Asg.set_other _ _ this).symm)
        exact this w
      · rename_i hv
        rcases hn with hn | ⟨hvs, hn⟩
        · exact absurd hn hv
        rw [renameLoop_id (Formula.substFuel n) s.vars vs hvs]
        simp only
        rw [ht_quantify']
        have hd' : f.depth ≤ n := by simp [Formula.depth] at hd; omega
        cases q <;> simp only [ht]
        · rw [bindAll_congr (fun ρ' => ih f hd' hn w ρ') ρ]
          rw [bindAll_term_const M.fc hvs (fun ρ' d => ht M f w (ρ'.set v d)) ρ]
          exact bind_set_comm_all hv _ _ ρ
        · rw [bindEx_congr (fun ρ' => ih f hd' hn w ρ') ρ]
          rw [bindEx_term_const M.fc hvs (fun ρ' d => ht M f w (ρ'.set v d)) ρ]
          exact bind_set_comm_ex hv _ _ ρ

end Anthem
