/-
  Substitution lemma, part 2: the general case including the renaming of captured binders
  (C17). Side condition: no quantifier block binds the same variable twice (`NodupBinders`).
-/
import AnthemModel.Proofs.SubstBasic
import AnthemModel.Proofs.FreshLemmas
namespace Anthem

def NodupBinders : Formula → Prop
  | .atomic _ => True
  | .not f => NodupBinders f
  | .bin _ l r => NodupBinders l ∧ NodupBinders r
  | .quant _ vs f => vs.Nodup ∧ NodupBinders f

/-- value of a variable read as a term of its own sort -/
def vval (σ : Asg) (v : Var) : Dom :=
  match v.sort with
  | .general => σ v
  | .integer => .num (σ v).toInt
  | .symbol => .sym (σ v).toStr

theorem toTerm_eval' (fc : FcI) (σ : Asg) (v : Var) : v.toTerm.eval fc σ = vval σ v := by
  obtain ⟨n, s⟩ := v
  cases s <;> simp [Var.toTerm, GTerm.eval, ITerm.eval, STerm.eval, vval]

theorem vval_of_inSort {σ : Asg} {v : Var} (h : (σ v).inSort v.sort) : vval σ v = σ v := by
  obtain ⟨n, s⟩ := v
  cases s
  · rfl
  · obtain ⟨z, hz⟩ := Dom.inSort_integer.mp h
    simp [vval, hz, Dom.toInt]
  · obtain ⟨z, hz⟩ := Dom.inSort_symbol.mp h
    simp [vval, hz, Dom.toStr]

theorem toTerm_vars (v : Var) : v.toTerm.vars = [v] := by
  obtain ⟨n, s⟩ := v
  cases s <;> simp [Var.toTerm, GTerm.vars, ITerm.vars, STerm.vars]

theorem var_for_var_compat (v w : Var) (h : w.sort = v.sort) : SortCompatible v w.toTerm := by
  obtain ⟨vn, vs⟩ := v
  obtain ⟨wn, ws⟩ := w
  simp only at h
  subst h
  cases ws <;> simp [SortCompatible, Var.toTerm]

/-! ## free variables after substitution (terms, atoms) -/

theorem ITerm.mem_vars_subst {t : ITerm} {x : String} {s : ITerm} {u : Var}
    (h : u ∈ (t.subst x s).vars) : (u ∈ t.vars ∧ u ≠ ⟨x, .integer⟩) ∨ u ∈ s.vars := by
  induction t with
  | num _ | fc _ => simp [ITerm.subst, ITerm.vars] at h
  | var y =>
    simp only [ITerm.subst] at h
    split at h
    · exact Or.inr h
    · rename_i hne
      simp only [ITerm.vars, List.mem_singleton] at h
      subst h
      refine Or.inl ⟨by simp [ITerm.vars], ?_⟩
      intro e; injection e with e1; exact hne e1.symm
  | neg t ih => exact ih (by simpa [ITerm.subst, ITerm.vars] using h)
  | bin op l r ihl ihr =>
    simp only [ITerm.subst, ITerm.vars, mem_ext] at h ⊢
    rcases h with h | h
    · rcases ihl h with ⟨a, b⟩ | c
      · exact Or.inl ⟨Or.inl a, b⟩
      · exact Or.inr c
    · rcases ihr h with ⟨a, b⟩ | c
      · exact Or.inl ⟨Or.inr a, b⟩
      · exact Or.inr c

theorem GTerm.mem_vars_subst {t : GTerm} {v : Var} {s : GTerm} (hc : SortCompatible v s) {u : Var}
    (h : u ∈ (t.subst v s).vars) : (u ∈ t.vars ∧ u ≠ v) ∨ u ∈ s.vars := by
  obtain ⟨vn, vs⟩ := v
  cases t with
  | inf | sup | fc _ => simp [GTerm.subst, GTerm.vars] at h
  | var y =>
    simp only [GTerm.subst] at h
    split at h
    · exact Or.inr h
    · rename_i hne
      simp only [GTerm.vars, List.mem_singleton] at h
      subst h
      refine Or.inl ⟨by simp [GTerm.vars], ?_⟩
      intro e; injection e with e1 e2; exact hne ⟨e1.symm, e2.symm⟩
  | int it =>
    simp only [GTerm.subst] at h
    split at h
    · rename_i hs
      have hs' : vs = .integer := hs
      subst hs'
      obtain ⟨si, rfl⟩ := hc.1 rfl
      simp only [GTerm.vars] at h ⊢
      exact ITerm.mem_vars_subst h
    · rename_i hs
      refine Or.inl ⟨h, ?_⟩
      intro e; subst e
      exact hs (ITerm.vars_sort (by simpa [GTerm.vars] using h))
  | symb st =>
    simp only [GTerm.subst] at h
    split at h
    · rename_i hs
      have hs' : vs = .symbol := hs
      subst hs'
      obtain ⟨ss, rfl⟩ := hc.2 rfl
      cases st with
      | sym _ | fc _ => simp [STerm.subst, GTerm.vars, STerm.vars] at h
      | var y =>
        simp only [STerm.subst] at h
        split at h
        · exact Or.inr h
        · rename_i hne
          simp only [GTerm.vars, STerm.vars, List.mem_singleton] at h
          subst h
          refine Or.inl ⟨by simp [GTerm.vars, STerm.vars], ?_⟩
          intro e; injection e with e1; exact hne e1.symm
    · rename_i hs
      refine Or.inl ⟨h, ?_⟩
      intro e; subst e
      cases st with
      | sym _ | fc _ => simp [GTerm.vars, STerm.vars] at h
      | var y =>
        simp only [GTerm.vars, STerm.vars, List.mem_singleton] at h
        injection h with _ h2
        exact hs h2

theorem AtomicF.mem_vars_subst {a : AtomicF} {v : Var} {s : GTerm} (hc : SortCompatible v s)
    {u : Var} (h : u ∈ (a.subst v s).vars) : (u ∈ a.vars ∧ u ≠ v) ∨ u ∈ s.vars := by
  cases a with
  | tru | fls => simp [AtomicF.subst, AtomicF.vars] at h
  | atom a =>
    simp only [AtomicF.subst, AtomicF.vars, mem_foldl_ext, List.not_mem_nil, false_or,
      List.mem_map] at h ⊢
    obtain ⟨t', ⟨t, ht, rfl⟩, hu⟩ := h
    rcases GTerm.mem_vars_subst hc hu with ⟨h1, h2⟩ | h3
    · exact Or.inl ⟨⟨t, ht, h1⟩, h2⟩
    · exact Or.inr h3
  | cmp t gs =>
    simp only [AtomicF.subst, AtomicF.vars, mem_foldl_ext, List.mem_map] at h ⊢
    rcases h with h | ⟨g', ⟨g, hg, rfl⟩, hu⟩
    · rcases GTerm.mem_vars_subst hc h with ⟨h1, h2⟩ | h3
      · exact Or.inl ⟨Or.inl h1, h2⟩
      · exact Or.inr h3
    · rcases GTerm.mem_vars_subst hc hu with ⟨h1, h2⟩ | h3
      · exact Or.inl ⟨Or.inr ⟨g, hg, h1⟩, h2⟩
      · exact Or.inr h3

/-! ## `quantify` -/

theorem quantify_FV (X : Formula) (q : Quant) (vs : List Var) (u : Var) :
    (X.quantify q vs).FV u ↔ X.FV u ∧ u ∉ vs := by
  unfold Formula.quantify
  split
  · rename_i h
    have : vs = [] := List.isEmpty_iff.mp h
    subst this; simp
  · rfl

theorem quantify_depth (X : Formula) (q : Quant) (vs : List Var) :
    (X.quantify q vs).depth ≤ X.depth + 1 := by
  unfold Formula.quantify
  split
  · omega
  · simp [Formula.depth]

theorem quantify_nodup (X : Formula) (q : Quant) (vs : List Var) (h1 : vs.Nodup)
    (h2 : NodupBinders X) : NodupBinders (X.quantify q vs) := by
  unfold Formula.quantify
  split
  · exact h2
  · exact ⟨h1, h2⟩

/-! ## one alpha-renaming step -/

theorem alpha_all (M : HTI) (w : World) (body : Formula) (xs : List Var) (x fr : Var) (d : Dom)
    (ρ : Asg) (hfx : fr ∉ xs) (hx : x ∉ xs) (hne : fr ≠ x) (hfv : ¬ body.FV fr)
    (hd : d.inSort fr.sort) :
    bindAll xs (fun σ => ht M body w (σ.set x (vval σ fr))) (ρ.set fr d) ↔
      bindAll xs (ht M body w) (ρ.set x d) := by
  rw [bindAll_iff, bindAll_iff]
  constructor
  · intro H τ hτ
    let τ' : Asg := (τ.set x (ρ x)).set fr d
    have hτ' : AllUpd xs (ρ.set fr d) τ' := by
      refine ⟨fun u hu => ?_, fun u hu => ?_⟩
      · by_cases e1 : u = fr
        · subst e1; simp [τ']
        · by_cases e2 : u = x
          · subst e2; simp [τ', Asg.set_other _ _ e1]
          · simp only [τ', Asg.set_other _ _ e1, Asg.set_other _ _ e2]
            rw [hτ.1 u hu, Asg.set_other _ _ e2]
      · have e1 : u ≠ fr := fun e => hfx (e ▸ hu)
        have e2 : u ≠ x := fun e => hx (e ▸ hu)
        simp only [τ', Asg.set_other _ _ e1, Asg.set_other _ _ e2]
        exact hτ.2 u hu
    have h1 := H τ' hτ'
    have hfr : τ' fr = d := by simp [τ']
    have hv : vval τ' fr = d := by
      rw [vval_of_inSort (by rw [hfr]; exact hd), hfr]
    rw [hv] at h1
    refine (ht_agree M body w _ _ ?_).mp h1
    intro u hu
    by_cases e2 : u = x
    · subst e2
      rw [Asg.set_same, hτ.1 u hx, Asg.set_same]
    · have e1 : u ≠ fr := fun e => hfv (e ▸ hu)
      simp [τ', Asg.set_other _ _ e1, Asg.set_other _ _ e2]
  · intro G τ' hτ'
    have hfr : τ' fr = d := by rw [hτ'.1 fr hfx]; simp
    have hv : vval τ' fr = d := by
      rw [vval_of_inSort (by rw [hfr]; exact hd), hfr]
    rw [hv]
    let τ : Asg := (τ'.set x d).set fr (ρ fr)
    have hτ : AllUpd xs (ρ.set x d) τ := by
      refine ⟨fun u hu => ?_, fun u hu => ?_⟩
      · by_cases e1 : u = fr
        · subst e1; simp [τ, Asg.set_other _ _ hne]
        · by_cases e2 : u = x
          · subst e2; simp [τ, Asg.set_other _ _ e1]
          · simp only [τ, Asg.set_other _ _ e1, Asg.set_other _ _ e2]
            rw [hτ'.1 u hu, Asg.set_other _ _ e1]
      · have e1 : u ≠ fr := fun e => hfx (e ▸ hu)
        have e2 : u ≠ x := fun e => hx (e ▸ hu)
        simp only [τ, Asg.set_other _ _ e1, Asg.set_other _ _ e2]
        exact hτ'.2 u hu
    refine (ht_agree M body w _ _ ?_).mp (G τ hτ)
    intro u hu
    have e1 : u ≠ fr := fun e => hfv (e ▸ hu)
    simp [τ, Asg.set_other _ _ e1]

theorem alpha_ex (M : HTI) (w : World) (body : Formula) (xs : List Var) (x fr : Var) (d : Dom)
    (ρ : Asg) (hfx : fr ∉ xs) (hx : x ∉ xs) (hne : fr ≠ x) (hfv : ¬ body.FV fr)
    (hd : d.inSort fr.sort) :
    bindEx xs (fun σ => ht M body w (σ.set x (vval σ fr))) (ρ.set fr d) ↔
      bindEx xs (ht M body w) (ρ.set x d) := by
  rw [bindEx_iff, bindEx_iff]
  constructor
  · rintro ⟨τ', hτ', h1⟩
    have hfr : τ' fr = d := by rw [hτ'.1 fr hfx]; simp
    have hv : vval τ' fr = d := by
      rw [vval_of_inSort (by rw [hfr]; exact hd), hfr]
    rw [hv] at h1
    let τ : Asg := (τ'.set x d).set fr (ρ fr)
    refine ⟨τ, ⟨fun u hu => ?_, fun u hu => ?_⟩, ?_⟩
    · by_cases e1 : u = fr
      · subst e1; simp [τ, Asg.set_other _ _ hne]
      · by_cases e2 : u = x
        · subst e2; simp [τ, Asg.set_other _ _ e1]
        · simp only [τ, Asg.set_other _ _ e1, Asg.set_other _ _ e2]
          rw [hτ'.1 u hu, Asg.set_other _ _ e1]
    · have e1 : u ≠ fr := fun e => hfx (e ▸ hu)
      have e2 : u ≠ x := fun e => hx (e ▸ hu)
      simp only [τ, Asg.set_other _ _ e1, Asg.set_other _ _ e2]
      exact hτ'.2 u hu
    · refine (ht_agree M body w _ _ ?_).mp h1
      intro u hu
      have e1 : u ≠ fr := fun e => hfv (e ▸ hu)
      simp [τ, Asg.set_other _ _ e1]
  · rintro ⟨τ, hτ, h1⟩
    let τ' : Asg := (τ.set x (ρ x)).set fr d
    have hfr : τ' fr = d := by simp [τ']
    have hv : vval τ' fr = d := by
      rw [vval_of_inSort (by rw [hfr]; exact hd), hfr]
    refine ⟨τ', ⟨fun u hu => ?_, fun u hu => ?_⟩, ?_⟩
    · by_cases e1 : u = fr
      · subst e1; simp [τ']
      · by_cases e2 : u = x
        · subst e2; simp [τ', Asg.set_other _ _ e1]
        · simp only [τ', Asg.set_other _ _ e1, Asg.set_other _ _ e2]
          rw [hτ.1 u hu, Asg.set_other _ _ e2]
    · have e1 : u ≠ fr := fun e => hfx (e ▸ hu)
      have e2 : u ≠ x := fun e => hx (e ▸ hu)
      simp only [τ', Asg.set_other _ _ e1, Asg.set_other _ _ e2]
      exact hτ.2 u hu
    · rw [hv]
      refine (ht_agree M body w _ _ ?_).mp h1
      intro u hu
      by_cases e2 : u = x
      · subst e2
        rw [Asg.set_same, hτ.1 u hx, Asg.set_same]
      · have e1 : u ≠ fr := fun e => hfv (e ▸ hu)
        simp [τ', Asg.set_other _ _ e1, Asg.set_other _ _ e2]

/-- the same step when the renamed binder `x` is bound again later in the block (its first
    binding is shadowed, so the value of the fresh variable is arbitrary) -/
theorem alpha_dup_all (M : HTI) (w : World) (body : Formula) (xs : List Var) (x fr : Var)
    (ρ : Asg) (hfx : fr ∉ xs) (hx : x ∈ xs) (hfv : ¬ body.FV fr) (hs : fr.sort = x.sort) :
    (∀ d : Dom, d.inSort fr.sort →
      bindAll xs (fun σ => ht M body w (σ.set x (vval σ fr))) (ρ.set fr d)) ↔
      bindAll xs (ht M body w) ρ := by
  simp only [bindAll_iff]
  constructor
  · intro H τ hτ
    have hd : (τ x).inSort fr.sort := by rw [hs]; exact hτ.2 x hx
    let τ' : Asg := τ.set fr (τ x)
    have hτ' : AllUpd xs (ρ.set fr (τ x)) τ' := by
      refine ⟨fun u hu => ?_, fun u hu => ?_⟩
      · by_cases e1 : u = fr
        · subst e1; simp [τ']
        · simp only [τ', Asg.set_other _ _ e1]; exact hτ.1 u hu
      · have e1 : u ≠ fr := fun e => hfx (e ▸ hu)
        simp only [τ', Asg.set_other _ _ e1]; exact hτ.2 u hu
    have h1 := H (τ x) hd τ' hτ'
    have hv : vval τ' fr = τ x := by
      have : τ' fr = τ x := by simp [τ']
      rw [vval_of_inSort (by rw [this]; exact hd), this]
    rw [hv] at h1
    refine (ht_agree M body w _ _ ?_).mp h1
    intro u hu
    by_cases e2 : u = x
    · subst e2; simp
    · have e1 : u ≠ fr := fun e => hfv (e ▸ hu)
      simp [τ', Asg.set_other _ _ e1, Asg.set_other _ _ e2]
  · intro G d hd τ' hτ'
    have hfr : τ' fr = d := by rw [hτ'.1 fr hfx]; simp
    have hv : vval τ' fr = d := by
      rw [vval_of_inSort (by rw [hfr]; exact hd), hfr]
    rw [hv]
    let τ : Asg := (τ'.set x d).set fr (ρ fr)
    have hne : x ≠ fr := fun e => hfx (e ▸ hx)
    have hτ : AllUpd xs ρ τ := by
      refine ⟨fun u hu => ?_, fun u hu => ?_⟩
      · by_cases e1 : u = fr
        · subst e1; simp [τ]
        · have e2 : u ≠ x := fun e => hu (e ▸ hx)
          simp only [τ, Asg.set_other _ _ e1, Asg.set_other _ _ e2]
          rw [hτ'.1 u hu, Asg.set_other _ _ e1]
      · have e1 : u ≠ fr := fun e => hfx (e ▸ hu)
        by_cases e2 : u = x
        · subst e2; simp only [τ, Asg.set_other _ _ e1, Asg.set_same]; rw [← hs]; exact hd
        · simp only [τ, Asg.set_other _ _ e1, Asg.set_other _ _ e2]; exact hτ'.2 u hu
    refine (ht_agree M body w _ _ ?_).mp (G τ hτ)
    intro u hu
    have e1 : u ≠ fr := fun e => hfv (e ▸ hu)
    simp [τ, Asg.set_other _ _ e1]

theorem alpha_dup_ex (M : HTI) (w : World) (body : Formula) (xs : List Var) (x fr : Var)
    (ρ : Asg) (hfx : fr ∉ xs) (hx : x ∈ xs) (hfv : ¬ body.FV fr) (hs : fr.sort = x.sort) :
    (∃ d : Dom, d.inSort fr.sort ∧
      bindEx xs (fun σ => ht M body w (σ.set x (vval σ fr))) (ρ.set fr d)) ↔
      bindEx xs (ht M body w) ρ := by
  simp only [bindEx_iff]
  constructor
  · rintro ⟨d, hd, τ', hτ', h1⟩
    have hfr : τ' fr = d := by rw [hτ'.1 fr hfx]; simp
    have hv : vval τ' fr = d := by
      rw [vval_of_inSort (by rw [hfr]; exact hd), hfr]
    rw [hv] at h1
    let τ : Asg := (τ'.set x d).set fr (ρ fr)
    refine ⟨τ, ⟨fun u hu => ?_, fun u hu => ?_⟩, ?_⟩
    · by_cases e1 : u = fr
      · subst e1; simp [τ]
      · have e2 : u ≠ x := fun e => hu (e ▸ hx)
        simp only [τ, Asg.set_other _ _ e1, Asg.set_other _ _ e2]
        rw [hτ'.1 u hu, Asg.set_other _ _ e1]
    · have e1 : u ≠ fr := fun e => hfx (e ▸ hu)
      by_cases e2 : u = x
      · subst e2; simp only [τ, Asg.set_other _ _ e1, Asg.set_same]; rw [← hs]; exact hd
      · simp only [τ, Asg.set_other _ _ e1, Asg.set_other _ _ e2]; exact hτ'.2 u hu
    · refine (ht_agree M body w _ _ ?_).mp h1
      intro u hu
      have e1 : u ≠ fr := fun e => hfv (e ▸ hu)
      simp [τ, Asg.set_other _ _ e1]
  · rintro ⟨τ, hτ, h1⟩
    have hd : (τ x).inSort fr.sort := by rw [hs]; exact hτ.2 x hx
    let τ' : Asg := τ.set fr (τ x)
    have hv : vval τ' fr = τ x := by
      have : τ' fr = τ x := by simp [τ']
      rw [vval_of_inSort (by rw [this]; exact hd), this]
    refine ⟨τ x, hd, τ', ⟨fun u hu => ?_, fun u hu => ?_⟩, ?_⟩
    · by_cases e1 : u = fr
      · subst e1; simp [τ']
      · simp only [τ', Asg.set_other _ _ e1]; exact hτ.1 u hu
    · have e1 : u ≠ fr := fun e => hfx (e ▸ hu)
      simp only [τ', Asg.set_other _ _ e1]; exact hτ.2 u hu
    · rw [hv]
      refine (ht_agree M body w _ _ ?_).mp h1
      intro u hu
      by_cases e2 : u = x
      · subst e2; simp
      · have e1 : u ≠ fr := fun e => hfv (e ▸ hu)
        simp [τ', Asg.set_other _ _ e1, Asg.set_other _ _ e2]

/-! ## the renaming loop -/

/-- what the induction hypothesis says about `substitute` at a given fuel -/
structure SubOK (M : HTI) (sub : Formula → Var → GTerm → Formula) (n : Nat) : Prop where
  sem : ∀ g, g.depth ≤ n → ∀ v s, SortCompatible v s → ∀ w ρ,
    ht M (sub g v s) w ρ ↔ ht M g w (ρ.set v (s.eval M.fc ρ))
  depth : ∀ g v s, g.depth ≤ n → (sub g v s).depth ≤ g.depth
  fv : ∀ g v s, SortCompatible v s → g.depth ≤ n →
    ∀ u, (sub g v s).FV u → (g.FV u ∧ u ≠ v) ∨ u ∈ s.vars

structure LoopOK (M : HTI) (tv xs : List Var) (body : Formula) (taken : List Var)
    (r : Formula × List Var) : Prop where
  depth : r.1.depth ≤ body.depth
  vars : ∀ y ∈ r.2, y ∉ tv ∧ (y ∈ xs ∨ y ∉ taken)
  fv : ∀ u, r.1.FV u → u ∉ r.2 → body.FV u ∧ u ∉ xs
  semAll : ∀ w ρ, bindAll r.2 (ht M r.1 w) ρ ↔ bindAll xs (ht M body w) ρ
  semEx : ∀ w ρ, bindEx r.2 (ht M r.1 w) ρ ↔ bindEx xs (ht M body w) ρ

theorem renameLoop_ok (M : HTI) (sub : Formula → Var → GTerm → Formula) (n : Nat)
    (hok : SubOK M sub n) (tv : List Var) :
    ∀ (xs : List Var) (body : Formula) (taken : List Var), body.depth ≤ n →
      (∀ u, body.FV u → u ∈ taken) → (∀ u ∈ tv, u ∈ taken) → (∀ u ∈ xs, u ∈ taken) →
      LoopOK M tv xs body taken (renameLoop sub tv xs body taken) := by
  intro xs
  induction xs with
  | nil =>
    intro body taken _ _ _ _
    exact ⟨Nat.le_refl _, fun _ h => (by cases h),
      fun u h _ => ⟨h, (by simp)⟩, fun _ _ => Iff.rfl, fun _ _ => Iff.rfl⟩
  | cons x xs ih =>
    intro body taken hd hfvt htv hxt
    by_cases hx : x ∈ tv
    · -- the binder is captured: rename it
      simp only [renameLoop, hx, if_true]
      have hfrT : freshVar x taken ∉ taken := freshVar_not_mem x taken
      have hfrS : (freshVar x taken).sort = x.sort := freshVar_sort x taken
      generalize hfrdef : freshVar x taken = fr at hfrT hfrS
      have hcompat : SortCompatible x fr.toTerm := var_for_var_compat x fr hfrS
      have hxT : x ∈ taken := hxt x List.mem_cons_self
      have hne : fr ≠ x := fun e => hfrT (e ▸ hxT)
      have hfrxs : fr ∉ xs := fun h => hfrT (hxt fr (List.mem_cons_of_mem _ h))
      have hfrfv : ¬ body.FV fr := fun h => hfrT (hfvt fr h)
      have hb1d : (sub body x fr.toTerm).depth ≤ body.depth := hok.depth body x _ hd
      have hrec := ih (sub body x fr.toTerm) (ins taken fr) (Nat.le_trans hb1d hd)
        (fun u hu => by
          rcases hok.fv body x _ hcompat hd u hu with ⟨h1, _⟩ | h2
          · exact mem_ins.mpr (Or.inl (hfvt u h1))
          · rw [toTerm_vars] at h2
            exact mem_ins.mpr (Or.inr (by simpa using h2)))
        (fun u hu => mem_ins.mpr (Or.inl (htv u hu)))
        (fun u hu => mem_ins.mpr (Or.inl (hxt u (List.mem_cons_of_mem _ hu))))
      refine ⟨Nat.le_trans hrec.depth hb1d, ?_, ?_, ?_, ?_⟩
      · intro y hy
        rcases List.mem_cons.mp hy with rfl | hy'
        · exact ⟨fun h => hfrT (htv _ h), Or.inr hfrT⟩
        · obtain ⟨h1, h2⟩ := hrec.vars y hy'
          refine ⟨h1, ?_⟩
          rcases h2 with h | h
          · exact Or.inl (List.mem_cons_of_mem _ h)
          · exact Or.inr (fun hm => h (mem_ins.mpr (Or.inl hm)))
      · intro u hu hnot
        have hnot' : u ∉ (renameLoop sub tv xs (sub body x fr.toTerm) (ins taken fr)).2 :=
          fun h => hnot (List.mem_cons_of_mem _ h)
        have hufr : u ≠ fr := fun e => hnot (e ▸ List.mem_cons_self)
        obtain ⟨h1, h2⟩ := hrec.fv u hu hnot'
        rcases hok.fv body x _ hcompat hd u h1 with ⟨h3, h4⟩ | h5
        · exact ⟨h3, by simp [h4, h2]⟩
        · rw [toTerm_vars] at h5
          exact absurd (by simpa using h5) hufr
      · intro w ρ
        have hsem : ∀ σ, ht M (sub body x fr.toTerm) w σ ↔ ht M body w (σ.set x (vval σ fr)) :=
          fun σ => by rw [hok.sem body hd x _ hcompat w σ, toTerm_eval']
        by_cases hxd : x ∈ xs
        · rw [bindAll_perm (L := x :: xs) (L' := xs) (fun u => by simp; intro e; exact e ▸ hxd)]
          simp only [bindAll]
          rw [← alpha_dup_all M w body xs x fr ρ hfrxs hxd hfrfv hfrS]
          refine forall_congr' fun d => imp_congr_right fun _ => ?_
          rw [hrec.semAll w (ρ.set fr d), bindAll_congr hsem]
        · simp only [bindAll]
          refine forall_congr' fun d => ?_
          rw [hfrS]
          refine imp_congr_right fun hdS => ?_
          rw [hrec.semAll w (ρ.set fr d), bindAll_congr hsem]
          exact alpha_all M w body xs x fr d ρ hfrxs hxd hne hfrfv (by rw [hfrS]; exact hdS)
      · intro w ρ
        have hsem : ∀ σ, ht M (sub body x fr.toTerm) w σ ↔ ht M body w (σ.set x (vval σ fr)) :=
          fun σ => by rw [hok.sem body hd x _ hcompat w σ, toTerm_eval']
        by_cases hxd : x ∈ xs
        · rw [bindEx_perm (L := x :: xs) (L' := xs) (fun u => by simp; intro e; exact e ▸ hxd)]
          simp only [bindEx]
          rw [← alpha_dup_ex M w body xs x fr ρ hfrxs hxd hfrfv hfrS]
          refine exists_congr fun d => and_congr_right fun _ => ?_
          rw [hrec.semEx w (ρ.set fr d), bindEx_congr hsem]
        · simp only [bindEx]
          refine exists_congr fun d => ?_
          rw [hfrS]
          refine and_congr_right fun hdS => ?_
          rw [hrec.semEx w (ρ.set fr d), bindEx_congr hsem]
          exact alpha_ex M w body xs x fr d ρ hfrxs hxd hne hfrfv (by rw [hfrS]; exact hdS)
    · -- the binder is kept
      simp only [renameLoop, hx, if_false]
      have hrec := ih body taken hd hfvt htv
        (fun u hu => hxt u (List.mem_cons_of_mem _ hu))
      refine ⟨hrec.depth, ?_, ?_, ?_, ?_⟩
      · intro y hy
        rcases List.mem_cons.mp hy with rfl | hy'
        · exact ⟨hx, Or.inl List.mem_cons_self⟩
        · obtain ⟨h1, h2⟩ := hrec.vars y hy'
          exact ⟨h1, h2.imp (List.mem_cons_of_mem _) id⟩
      · intro u hu hnot
        obtain ⟨h1, h2⟩ := hrec.fv u hu (fun h => hnot (List.mem_cons_of_mem _ h))
        have hux : u ≠ x := fun e => hnot (e ▸ List.mem_cons_self)
        exact ⟨h1, by simp [hux, h2]⟩
      · intro w ρ
        simp only [bindAll]
        exact forall_congr' fun d => imp_congr_right fun _ => hrec.semAll w _
      · intro w ρ
        simp only [bindEx]
        exact exists_congr fun d => and_congr_right fun _ => hrec.semEx w _

/-! ## the main induction -/

theorem loop_hyps (f : Formula) (s : GTerm) (vs : List Var) (v : Var) :
    (∀ u, f.FV u → u ∈ ins (ext (ext f.fv s.vars) vs) v) ∧
    (∀ u ∈ s.vars, u ∈ ins (ext (ext f.fv s.vars) vs) v) ∧
    (∀ u ∈ vs, u ∈ ins (ext (ext f.fv s.vars) vs) v) :=
  ⟨fun u hu => mem_ins.mpr (Or.inl (mem_ext.mpr (Or.inl (mem_ext.mpr (Or.inl (Formula.mem_fv.mpr hu)))))),
   fun u hu => mem_ins.mpr (Or.inl (mem_ext.mpr (Or.inl (mem_ext.mpr (Or.inr hu))))),
   fun u hu => mem_ins.mpr (Or.inl (mem_ext.mpr (Or.inr hu)))⟩

theorem substFuel_ok (M : HTI) : ∀ n, SubOK M (Formula.substFuel n) n := by
  intro n
  induction n with
  | zero =>
    refine ⟨?_, ?_, ?_⟩
    · intro g hd v s hc w ρ
      cases g with
      | atomic a => simp only [Formula.substFuel, ht]; exact a.sat_subst _ _ ρ v s hc
      | not f => simp [Formula.depth] at hd
      | bin c l r => simp [Formula.depth] at hd
      | quant q vs f => simp [Formula.depth] at hd
    · intro g v s hd
      cases g <;> simp [Formula.substFuel, Formula.depth]
    · intro g v s hc hd u hu
      cases g with
      | atomic a => exact AtomicF.mem_vars_subst hc hu
      | not f => simp [Formula.depth] at hd
      | bin c l r => simp [Formula.depth] at hd
      | quant q vs f => simp [Formula.depth] at hd
  | succ n ih =>
    refine ⟨?_, ?_, ?_⟩
    · -- semantics
      intro g hd v s hc w ρ
      cases g with
      | atomic a => simp only [Formula.substFuel, ht]; exact a.sat_subst _ _ ρ v s hc
      | not f =>
        simp only [Formula.substFuel, ht]
        exact not_congr (ih.sem f (by simp [Formula.depth] at hd; omega) v s hc .there ρ)
      | bin c l r =>
        simp only [Formula.depth] at hd
        have hl := fun w => ih.sem l (by omega) v s hc w ρ
        have hr := fun w => ih.sem r (by omega) v s hc w ρ
        cases c <;> simp only [Formula.substFuel, ht, hl, hr]
      | quant q vs f =>
        have hdf : f.depth ≤ n := by simp [Formula.depth] at hd; omega
        simp only [Formula.substFuel]
        split
        · rename_i hv
          exact ht_agree M _ w _ _ (fun x hx => by
            have : x ≠ v := fun e => hx.2 (e ▸ hv)
            exact (Asg.set_other _ _ this).symm)
        · rename_i hv
          obtain ⟨h1, h2, h3⟩ := loop_hyps f s vs v
          have hL := renameLoop_ok M (Formula.substFuel n) n ih s.vars vs f _ hdf h1 h2 h3
          generalize renameLoop (Formula.substFuel n) s.vars vs f (ins (ext (ext f.fv s.vars) vs) v) = r at hL
          have hr1d : r.1.depth ≤ n := Nat.le_trans hL.depth hdf
          have hvr : v ∉ r.2 := fun hm => by
            rcases (hL.vars v hm).2 with h | h
            · exact hv h
            · exact h (mem_ins.mpr (Or.inr rfl))
          have htv : ∀ x ∈ r.2, x ∉ s.vars := fun x hx => (hL.vars x hx).1
          rw [ht_quantify']
          cases q <;> simp only [ht]
          · rw [bindAll_congr (fun ρ' => ih.sem r.1 hr1d v s hc w ρ') ρ]
            rw [bindAll_term_const M.fc htv (fun ρ' d => ht M r.1 w (ρ'.set v d)) ρ]
            rw [bind_set_comm_all hvr]
            exact hL.semAll w _
          · rw [bindEx_congr (fun ρ' => ih.sem r.1 hr1d v s hc w ρ') ρ]
            rw [bindEx_term_const M.fc htv (fun ρ' d => ht M r.1 w (ρ'.set v d)) ρ]
            rw [bind_set_comm_ex hvr]
            exact hL.semEx w _
    · -- depth
      intro g v s hd
      cases g with
      | atomic a => simp [Formula.substFuel, Formula.depth]
      | not f =>
        simp only [Formula.substFuel, Formula.depth] at hd ⊢
        have := ih.depth f v s (by omega); omega
      | bin c l r =>
        simp only [Formula.substFuel, Formula.depth] at hd ⊢
        have h1 := ih.depth l v s (by omega)
        have h2 := ih.depth r v s (by omega)
        omega
      | quant q vs f =>
        have hdf : f.depth ≤ n := by simp [Formula.depth] at hd; omega
        simp only [Formula.substFuel]
        split
        · exact Nat.le_refl _
        · obtain ⟨h1, h2, h3⟩ := loop_hyps f s vs v
          have hL := renameLoop_ok M (Formula.substFuel n) n ih s.vars vs f _ hdf h1 h2 h3
          generalize renameLoop (Formula.substFuel n) s.vars vs f (ins (ext (ext f.fv s.vars) vs) v) = r at hL
          have h1 := quantify_depth (Formula.substFuel n r.1 v s) q r.2
          have h2 := ih.depth r.1 v s (Nat.le_trans hL.depth hdf)
          have h3 := hL.depth
          simp only [Formula.depth]
          omega
    · -- free variables
      intro g v s hc hd u hu
      cases g with
      | atomic a => exact AtomicF.mem_vars_subst hc hu
      | not f =>
        simp only [Formula.substFuel, Formula.FV] at hu ⊢
        exact ih.fv f v s hc (by simp [Formula.depth] at hd; omega) u hu
      | bin c l r =>
        simp only [Formula.depth] at hd
        simp only [Formula.substFuel, Formula.FV] at hu ⊢
        rcases hu with hu | hu
        · rcases ih.fv l v s hc (by omega) u hu with ⟨a, b⟩ | c
          · exact Or.inl ⟨Or.inl a, b⟩
          · exact Or.inr c
        · rcases ih.fv r v s hc (by omega) u hu with ⟨a, b⟩ | c
          · exact Or.inl ⟨Or.inr a, b⟩
          · exact Or.inr c
      | quant q vs f =>
        have hdf : f.depth ≤ n := by simp [Formula.depth] at hd; omega
        simp only [Formula.substFuel] at hu
        split at hu
        · rename_i hv
          exact Or.inl ⟨hu, fun e => hu.2 (e ▸ hv)⟩
        · rename_i hv
          obtain ⟨h1, h2, h3⟩ := loop_hyps f s vs v
          have hL := renameLoop_ok M (Formula.substFuel n) n ih s.vars vs f _ hdf h1 h2 h3
          generalize renameLoop (Formula.substFuel n) s.vars vs f (ins (ext (ext f.fv s.vars) vs) v) = r at hL hu
          rw [quantify_FV] at hu
          rcases ih.fv r.1 v s hc (Nat.le_trans hL.depth hdf) u hu.1 with ⟨h1, h2⟩ | h3
          · exact Or.inl ⟨hL.fv u h1 hu.2, h2⟩
          · exact Or.inr h3

/-- **Substitution lemma, general case**: every formula (repeated binders, binders naming variables
    of the term, several per block, fresh-name candidates taken …), every variable, every
    sort-compatible term, every HT interpretation, world and assignment. -/
theorem ht_subst (M : HTI) (F : Formula) (v : Var) (s : GTerm)
    (hc : SortCompatible v s) (w : World) (ρ : Asg) :
    ht M (F.subst v s) w ρ ↔ ht M F w (ρ.set v (s.eval M.fc ρ)) :=
  (substFuel_ok M (F.depth + 1)).sem F (Nat.le_succ _) v s hc w ρ

theorem sat_subst (I : Interp) (F : Formula) (v : Var) (s : GTerm)
    (hc : SortCompatible v s) (ρ : Asg) :
    sat I (F.subst v s) ρ ↔ sat I F (ρ.set v (s.eval I.fc ρ)) := by
  have := ht_subst ⟨I.pred, I.pred, I.fc⟩ F v s hc .there ρ
  rwa [ht_there_eq_sat, ht_there_eq_sat] at this

/-- Free variables of the result: those of the original except the variable, plus (at most)
    those of the term. -/
theorem subst_FV (F : Formula) (v : Var) (s : GTerm) (hc : SortCompatible v s)
    (u : Var) (hu : (F.subst v s).FV u) : (F.FV u ∧ u ≠ v) ∨ u ∈ s.vars :=
  (substFuel_ok ⟨fun _ _ => True, fun _ _ => True, fun _ _ => .inf⟩ (F.depth + 1)).fv F v s hc
    (Nat.le_succ _) u hu

end Anthem
