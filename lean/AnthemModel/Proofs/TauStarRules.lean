/-
  C01, rule and program level: `tau_b`, `tau_star_rule` and `tau_star` have exactly the meaning the
  reference semantics of mini-gringo (Semantics/Asp.lean) gives to body atoms, rules and programs,
  at both worlds of every HT interpretation.
-/
import AnthemModel.Proofs.ValFresh
import AnthemModel.Proofs.RewritesBasic
import AnthemModel.Proofs.RewritesQuant
namespace Anthem
open Asp

/-! ## the reference semantics depends only on the variables that occur -/

theorem vals_congr {σ σ' : Subst} : ∀ (t : Term) (d : Dom), (∀ x ∈ t.vars, σ x = σ' x) →
    (vals σ t d ↔ vals σ' t d) := by
  intro t
  induction t with
  | pre p => intro d _; exact Iff.rfl
  | var x => intro d h; simp only [vals]; rw [h x (by simp [Term.vars])]
  | neg t ih =>
    intro d h
    simp only [vals]
    exact exists_congr fun n => and_congr_left fun _ => ih _ h
  | bin op l r ihl ihr =>
    intro d h
    have hl : ∀ x ∈ l.vars, σ x = σ' x := fun x hx => h x (by simp [Term.vars, mem_ext, hx])
    have hr : ∀ x ∈ r.vars, σ x = σ' x := fun x hx => h x (by simp [Term.vars, mem_ext, hx])
    simp only [vals]
    exact exists_congr fun a => exists_congr fun b => by rw [ihl _ hl, ihr _ hr]

theorem valsList_congr {σ σ' : Subst} : ∀ (ts : List Term) (ds : List Dom),
    (∀ t ∈ ts, ∀ x ∈ t.vars, σ x = σ' x) → (valsList σ ts ds ↔ valsList σ' ts ds) := by
  intro ts
  induction ts with
  | nil => intro ds _; cases ds <;> exact Iff.rfl
  | cons t ts ih =>
    intro ds h
    cases ds with
    | nil => exact Iff.rfl
    | cons d ds =>
      simp only [valsList]
      rw [vals_congr t d (h t List.mem_cons_self), ih ds (fun t' ht' => h t' (List.mem_cons_of_mem _ ht'))]

theorem valsList_length {σ : Subst} : ∀ {ts : List Term} {ds : List Dom}, valsList σ ts ds →
    ds.length = ts.length
  | [], [], _ => rfl
  | [], _ :: _, h => by simp [valsList] at h
  | _ :: _, [], h => by simp [valsList] at h
  | _ :: ts, _ :: ds, h => by simp only [valsList] at h; simp [valsList_length h.2]

theorem mem_atom_vars {a : Asp.Atom} {x : String} : x ∈ a.vars ↔ ∃ t ∈ a.args, x ∈ t.vars := by
  unfold Atom.vars
  rw [mem_foldl_ext]; simp

/-! ## assigning a list of general variables -/

def assignGen (ρ : Asg) : List String → List Dom → Asg
  | z :: zs, d :: ds => (assignGen ρ zs ds).set ⟨z, .general⟩ d
  | _, _ => ρ

theorem assignGen_other (ρ : Asg) : ∀ (zs : List String) (ds : List Dom) (v : Var),
    (∀ z ∈ zs, v ≠ ⟨z, .general⟩) → assignGen ρ zs ds v = ρ v
  | [], _, _, _ => by simp [assignGen]
  | _ :: _, [], _, _ => by simp [assignGen]
  | z :: zs, d :: ds, v, h => by
    simp only [assignGen]
    rw [Asg.set_other _ _ (h z List.mem_cons_self)]
    exact assignGen_other ρ zs ds v fun z' hz' => h z' (List.mem_cons_of_mem _ hz')

theorem assignGen_map (ρ : Asg) : ∀ (zs : List String) (ds : List Dom), zs.Nodup → zs.length = ds.length →
    zs.map (fun z => assignGen ρ zs ds ⟨z, .general⟩) = ds
  | [], [], _, _ => rfl
  | [], _ :: _, _, h => by simp at h
  | _ :: _, [], _, h => by simp at h
  | z :: zs, d :: ds, hn, hl => by
    have hn' := List.nodup_cons.mp hn
    simp only [List.map_cons, assignGen, Asg.set_same, List.cons.injEq, true_and]
    refine Eq.trans (List.map_congr_left ?_) (assignGen_map ρ zs ds hn'.2 (by simpa using hl))
    intro z' hz'
    have : (⟨z', .general⟩ : Var) ≠ ⟨z, .general⟩ := fun e => by
      injection e with e; subst e; exact hn'.1 hz'
    rw [Asg.set_other _ _ this]

theorem allUpd_general (zs : List String) (ρ τ : Asg) :
    AllUpd (zs.map fun z => (⟨z, .general⟩ : Var)) ρ τ ↔ ∀ v, (∀ z ∈ zs, v ≠ ⟨z, .general⟩) → τ v = ρ v := by
  unfold AllUpd
  constructor
  · rintro ⟨h1, _⟩ v hv
    exact h1 v (by simp only [List.mem_map, not_exists, not_and]; exact fun z hz e => hv z hz e.symm)
  · intro h
    refine ⟨fun v hv => h v fun z hz e => hv (List.mem_map.mpr ⟨z, hz, e.symm⟩), ?_⟩
    intro v hv
    obtain ⟨z, _, rfl⟩ := List.mem_map.mp hv
    trivial

/-! ## body atoms -/

/-- the `val` conjuncts of a term list mean `valsList` -/
theorem valsZip (M : HTI) (w : World) (τ : Asg) : ∀ (args : List Term) (zs : List String),
    args.length = zs.length →
    ((∀ g ∈ (args.zip zs).map (fun (t, z) => val t ⟨z, .general⟩), ht M g w τ) ↔
      valsList (σOf τ) args (zs.map fun z => τ ⟨z, .general⟩)) := by
  intro args
  induction args with
  | nil => intro zs h; cases zs <;> simp [valsList] at h ⊢
  | cons t ts ih =>
    intro zs h
    cases zs with
    | nil => simp at h
    | cons z zs =>
      simp only [List.zip_cons_cons, List.map_cons, List.forall_mem_cons, valsList]
      rw [val_correct_general, ih zs (by simpa using h)]

def signSem (M : HTI) (w : World) (s : Sign) (p : String) (ds : List Dom) : Prop :=
  match s with
  | .pos => M.at w p ds
  | .neg => ¬ M.t p ds
  | .negneg => M.t p ds

theorem bodyAtomSat_lit (M : HTI) (w : World) (σ : Subst) (s : Sign) (a : Asp.Atom) :
    bodyAtomSat M w σ (.lit ⟨s, a⟩) ↔ ∃ ds, valsList σ a.args ds ∧ signSem M w s a.pred ds := by
  cases s <;> exact Iff.rfl

theorem ht_signed (M : HTI) (w : World) (τ : Asg) (s : Sign) (p : String) (zs : List String) :
    ht M (signed s (.atomic (.atom ⟨p, zs.map GTerm.var⟩))) w τ ↔
      signSem M w s p (zs.map fun z => τ ⟨z, .general⟩) := by
  have e : (zs.map GTerm.var).map (GTerm.eval M.fc τ) = zs.map fun z => τ ⟨z, .general⟩ := by
    rw [List.map_map]; rfl
  cases s
  · simp only [signed, ht, AtomicF.sat, signSem, e]
  · simp only [signed, ht, AtomicF.sat, signSem, e]; rfl
  · simp only [signed, ht, AtomicF.sat, signSem, e]
    exact Classical.not_not

theorem convRel_holds (r : Asp.Rel) (a b : Dom) : (convRel r).holds a b ↔ r.holds a b := by
  cases r <;> rfl

/-- a list of fresh general variables binds exactly the value tuples -/
theorem bindEx_fresh_general (zs : List String) (hn : zs.Nodup) (P : Asg → Prop) (ρ : Asg) :
    bindEx (zs.map fun z => (⟨z, .general⟩ : Var)) P ρ ↔
      ∃ ds : List Dom, ds.length = zs.length ∧ P (assignGen ρ zs ds) := by
  rw [bindEx_iff]
  constructor
  · rintro ⟨τ, hτ, hP⟩
    rw [allUpd_general] at hτ
    refine ⟨zs.map fun z => τ ⟨z, .general⟩, by simp, ?_⟩
    have : assignGen ρ zs (zs.map fun z => τ ⟨z, .general⟩) = τ := by
      funext v
      by_cases hv : ∀ z ∈ zs, v ≠ ⟨z, .general⟩
      · rw [assignGen_other ρ zs _ v hv, hτ v hv]
      · have hv' : ∃ z, z ∈ zs ∧ v = ⟨z, .general⟩ := by
          refine Classical.byContradiction fun hne => hv fun z hz e => hne ⟨z, hz, e⟩
        obtain ⟨z, hz, rfl⟩ := hv'
        have hm := assignGen_map ρ zs (zs.map fun z => τ ⟨z, .general⟩) hn (by simp)
        have := List.map_inj_left.mp hm z hz
        exact this
    rw [this]; exact hP
  · rintro ⟨ds, hl, hP⟩
    exact ⟨assignGen ρ zs ds, (allUpd_general zs ρ _).mpr fun v hv => assignGen_other ρ zs ds v hv, hP⟩

/-- `tau_b` of a literal with arguments -/
theorem tauB_lit_sem (M : HTI) (w : World) (ρ : Asg) (s : Sign) (a : Asp.Atom) (zs : List String)
    (hn : zs.Nodup) (hfresh : ∀ z ∈ zs, z ∉ a.vars) (hl : zs.length = a.args.length) :
    ht M (.quant .ex (zs.map fun z => ⟨z, .general⟩)
      (.bin .and (conjoin ((a.args.zip zs).map fun (t, z) => val t ⟨z, .general⟩))
        (signed s (.atomic (.atom ⟨a.pred, zs.map GTerm.var⟩))))) w ρ ↔
      bodyAtomSat M w (σOf ρ) (.lit ⟨s, a⟩) := by
  rw [bodyAtomSat_lit]
  simp only [ht]
  rw [bindEx_fresh_general zs hn]
  have key : ∀ ds : List Dom, ds.length = zs.length →
      ((ht M (conjoin ((a.args.zip zs).map fun (t, z) => val t ⟨z, .general⟩)) w (assignGen ρ zs ds) ∧
        ht M (signed s (.atomic (.atom ⟨a.pred, zs.map GTerm.var⟩))) w (assignGen ρ zs ds)) ↔
       (valsList (σOf ρ) a.args ds ∧ signSem M w s a.pred ds)) := by
    intro ds hds
    have hm := assignGen_map ρ zs ds hn hds.symm
    rw [ht_conjoin, valsZip M w _ a.args zs hl.symm, ht_signed, hm]
    refine and_congr_left fun _ => valsList_congr a.args ds ?_
    intro t ht x hx
    show assignGen ρ zs ds ⟨x, .general⟩ = ρ ⟨x, .general⟩
    apply assignGen_other
    intro z hz e
    injection e with e
    subst e
    exact hfresh _ hz (mem_atom_vars.mpr ⟨t, ht, hx⟩)
  constructor
  · rintro ⟨ds, hds, h⟩; exact ⟨ds, (key ds hds).mp h⟩
  · rintro ⟨ds, h⟩
    have hds : ds.length = zs.length := by rw [valsList_length h.1, hl]
    exact ⟨ds, hds, (key ds hds).mpr h⟩

/-- **`tau_b` is correct** for every body atom, at both worlds. -/
theorem tauB_sem (M : HTI) (w : World) (f : BodyAtom) (ρ : Asg) :
    ht M (tauB f) w ρ ↔ bodyAtomSat M w (σOf ρ) f := by
  cases f with
  | lit l =>
    obtain ⟨s, a⟩ := l
    unfold tauB
    simp only
    split
    · rename_i hpos
      obtain ⟨hn, hfresh, hlen⟩ := chooseFresh_spec (BodyAtom.lit ⟨s, a⟩).vars "Z" a.args.length
      exact tauB_lit_sem M w ρ s a _ hn hfresh hlen
    · rename_i hpos
      have h0 : a.args = [] := by
        cases h : a.args with
        | nil => rfl
        | cons _ _ => rw [h] at hpos; simp at hpos
      rw [bodyAtomSat_lit, h0]
      have := ht_signed M w ρ s a.pred []
      simp only [List.map_nil] at this
      rw [this]
      constructor
      · intro h; exact ⟨[], trivial, h⟩
      · rintro ⟨ds, hv, h⟩
        cases ds with
        | nil => exact h
        | cons _ _ => simp [valsList] at hv
  | cmp rel l r =>
    unfold tauB
    simp only
    obtain ⟨hn, hfresh, hlen⟩ := chooseFresh_spec (BodyAtom.cmp rel l r).vars "Z" 2
    generalize chooseFresh (BodyAtom.cmp rel l r).vars "Z" 2 = zs at hn hfresh hlen
    match zs, hlen with
    | [z1, z2], _ =>
      simp only [List.headD_cons, List.getD_cons_succ, List.getD_cons_zero]
      have hb := bindEx_fresh_general [z1, z2] hn
        (ht M (.bin .and (.bin .and (val l ⟨z1, .general⟩) (val r ⟨z2, .general⟩))
          (cmp1 (.var z1) (convRel rel) (.var z2))) w) ρ
      simp only [List.map_cons, List.map_nil] at hb
      simp only [ht] at hb ⊢
      rw [hb]
      simp only [bodyAtomSat]
      have hne : z1 ≠ z2 := by
        intro e; subst e; simp at hn
      have hfl : ∀ z ∈ [z1, z2], ∀ x ∈ l.vars, (⟨x, .general⟩ : Var) ≠ ⟨z, .general⟩ := by
        intro z hz x hx e
        injection e with e; subst e
        exact hfresh _ hz (by simp [BodyAtom.vars, mem_ext, hx])
      have hfr : ∀ z ∈ [z1, z2], ∀ x ∈ r.vars, (⟨x, .general⟩ : Var) ≠ ⟨z, .general⟩ := by
        intro z hz x hx e
        injection e with e; subst e
        exact hfresh _ hz (by simp [BodyAtom.vars, mem_ext, hx])
      have key : ∀ d1 d2 : Dom,
          (((ht M (val l ⟨z1, .general⟩) w (assignGen ρ [z1, z2] [d1, d2]) ∧
             ht M (val r ⟨z2, .general⟩) w (assignGen ρ [z1, z2] [d1, d2])) ∧
            ht M (cmp1 (.var z1) (convRel rel) (.var z2)) w (assignGen ρ [z1, z2] [d1, d2])) ↔
           (vals (σOf ρ) l d1 ∧ vals (σOf ρ) r d2 ∧ rel.holds d1 d2)) := by
        intro d1 d2
        have hm := assignGen_map ρ [z1, z2] [d1, d2] hn rfl
        simp only [List.map_cons, List.map_nil, List.cons.injEq, and_true] at hm
        rw [val_correct_general, val_correct_general, ht_cmp1, convRel_holds]
        simp only [GTerm.eval]
        rw [hm.1, hm.2]
        rw [vals_congr l d1 (σ := σOf (assignGen ρ [z1, z2] [d1, d2])) (σ' := σOf ρ)
            (fun x hx => assignGen_other ρ _ _ _ fun z hz => hfl z hz x hx),
          vals_congr r d2 (σ := σOf (assignGen ρ [z1, z2] [d1, d2])) (σ' := σOf ρ)
            (fun x hx => assignGen_other ρ _ _ _ fun z hz => hfr z hz x hx)]
        exact and_assoc
      constructor
      · rintro ⟨ds, hds, h⟩
        match ds, hds with
        | [d1, d2], _ => exact ⟨d1, d2, (key d1 d2).mp h⟩
      · rintro ⟨d1, d2, h⟩
        exact ⟨[d1, d2], rfl, (key d1 d2).mpr h⟩

theorem tauBody_sem (M : HTI) (w : World) (b : List BodyAtom) (ρ : Asg) :
    ht M (tauBody b) w ρ ↔ bodySat M w (σOf ρ) b := by
  unfold tauBody bodySat
  rw [ht_conjoin]
  simp only [List.mem_map, forall_exists_index, and_imp, forall_apply_eq_imp_iff₂]
  exact forall_congr' fun f => imp_congr_right fun _ => tauB_sem M w f ρ

/-! ## rules -/

theorem bodyAtomSat_congr (M : HTI) (w : World) {σ σ' : Subst} (f : BodyAtom)
    (h : ∀ x ∈ f.vars, σ x = σ' x) : bodyAtomSat M w σ f ↔ bodyAtomSat M w σ' f := by
  cases f with
  | lit l =>
    obtain ⟨s, a⟩ := l
    rw [bodyAtomSat_lit, bodyAtomSat_lit]
    refine exists_congr fun ds => and_congr_left fun _ => valsList_congr a.args ds ?_
    intro t ht x hx
    exact h x (mem_atom_vars.mpr ⟨t, ht, hx⟩)
  | cmp rel l r =>
    simp only [bodyAtomSat]
    have hl : ∀ x ∈ l.vars, σ x = σ' x := fun x hx => h x (by simp [BodyAtom.vars, mem_ext, hx])
    have hr : ∀ x ∈ r.vars, σ x = σ' x := fun x hx => h x (by simp [BodyAtom.vars, mem_ext, hx])
    exact exists_congr fun a => exists_congr fun b => by rw [vals_congr l a hl, vals_congr r b hr]

theorem mem_bodyVars {b : List BodyAtom} {x : String} : x ∈ bodyVars b ↔ ∃ f ∈ b, x ∈ f.vars := by
  unfold bodyVars
  rw [mem_foldl_ext]; simp

theorem bodySat_congr (M : HTI) (w : World) {σ σ' : Subst} (b : List BodyAtom)
    (h : ∀ x ∈ bodyVars b, σ x = σ' x) : bodySat M w σ b ↔ bodySat M w σ' b := by
  unfold bodySat
  exact forall_congr' fun f => imp_congr_right fun hf =>
    bodyAtomSat_congr M w f fun x hx => h x (mem_bodyVars.mpr ⟨f, hf, hx⟩)

theorem mem_sortedGeneral {names : List String} {v : Var} :
    v ∈ sortedGeneral names ↔ ∃ x ∈ names, v = ⟨x, .general⟩ := by
  unfold sortedGeneral
  rw [mem_sortVars]
  simp only [List.mem_map]
  exact ⟨fun ⟨x, hx, e⟩ => ⟨x, hx, e.symm⟩, fun ⟨x, hx, e⟩ => ⟨x, hx, e.symm⟩⟩

/-- universally binding all (general) variables of a rule ranges over all substitutions -/
theorem bindAll_sortedGeneral (names : List String) (P : Subst → Prop)
    (hP : ∀ σ σ' : Subst, (∀ x ∈ names, σ x = σ' x) → (P σ ↔ P σ')) (ρ : Asg) :
    bindAll (sortedGeneral names) (fun τ => P (σOf τ)) ρ ↔ ∀ σ, P σ := by
  rw [bindAll_iff]
  constructor
  · intro h σ
    have hdec : ∀ v : Var, Decidable (v ∈ sortedGeneral names) := fun v => inferInstance
    let τ : Asg := fun v => if v ∈ sortedGeneral names then σ v.name else ρ v
    have hτ : AllUpd (sortedGeneral names) ρ τ := by
      refine ⟨fun v hv => by simp [τ, hv], fun v hv => ?_⟩
      obtain ⟨x, _, rfl⟩ := mem_sortedGeneral.mp hv
      trivial
    refine (hP (σOf τ) σ fun x hx => ?_).mp (h τ hτ)
    have : (⟨x, .general⟩ : Var) ∈ sortedGeneral names := mem_sortedGeneral.mpr ⟨x, hx, rfl⟩
    simp [σOf, τ, this]
  · intro h τ _; exact h _

theorem sortedGeneral_isEmpty {names : List String} (h : (sortedGeneral names).isEmpty = true) :
    names = [] := by
  cases names with
  | nil => rfl
  | cons x xs =>
    have : (⟨x, .general⟩ : Var) ∈ sortedGeneral (x :: xs) := mem_sortedGeneral.mpr ⟨x, by simp, rfl⟩
    rw [List.isEmpty_iff.mp h] at this
    cases this

/-- the optional universal closure used for rules without head arguments -/
theorem close_sem (M : HTI) (w : World) (names : List String) (G : Formula) (P : Subst → Prop)
    (hG : ∀ τ, ht M G w τ ↔ P (σOf τ))
    (hP : ∀ σ σ' : Subst, (∀ x ∈ names, σ x = σ' x) → (P σ ↔ P σ')) (ρ : Asg) :
    ht M (if (sortedGeneral names).isEmpty then G else .quant .all (sortedGeneral names) G) w ρ ↔
      ∀ σ, P σ := by
  split
  · rename_i he
    have hn := sortedGeneral_isEmpty he
    subst hn
    rw [hG]
    exact ⟨fun h σ => (hP _ _ (fun x hx => by cases hx)).mp h, fun h => h _⟩
  · simp only [ht]
    rw [show (ht M G w) = (fun τ => P (σOf τ)) from funext fun τ => propext (hG τ)]
    exact bindAll_sortedGeneral names P hP ρ

theorem ht_atom_vars (M : HTI) (w : World) (τ : Asg) (p : String) (zs : List String) :
    ht M (.atomic (.atom ⟨p, zs.map GTerm.var⟩)) w τ ↔ M.at w p (zs.map (σOf τ)) := by
  have e : (zs.map GTerm.var).map (GTerm.eval M.fc τ) = zs.map (σOf τ) := by
    rw [List.map_map]; rfl
  simp only [ht, AtomicF.sat, e]

theorem ht_notnot_atom_vars (M : HTI) (w : World) (τ : Asg) (p : String) (zs : List String) :
    ht M (.not (.not (.atomic (.atom ⟨p, zs.map GTerm.var⟩)))) w τ ↔ M.t p (zs.map (σOf τ)) := by
  have e : (zs.map GTerm.var).map (GTerm.eval M.fc τ) = zs.map (σOf τ) := by
    rw [List.map_map]; rfl
  simp only [ht, AtomicF.sat, e]
  exact Classical.not_not

theorem head_vars_subset (r : Rule) (a : Asp.Atom) (h : r.head = .basic a ∨ r.head = .choice a) :
    ∀ t ∈ a.args, ∀ x ∈ t.vars, x ∈ r.vars := by
  intro t ht x hx
  unfold Rule.vars
  rw [mem_ext]
  left
  rcases h with h | h <;> rw [h] <;> exact mem_atom_vars.mpr ⟨t, ht, hx⟩

theorem body_vars_subset (r : Rule) : ∀ x ∈ bodyVars r.body, x ∈ r.vars := by
  intro x hx; unfold Rule.vars; rw [mem_ext]; exact Or.inr hx

/-- the semantic content of a rule with head atom `p(args)`, `args` non-empty, in terms of one
    substitution that also assigns the global head variables -/
def headArgsP (M : HTI) (w : World) (choice : Bool) (p : String) (args : List Term)
    (body : List BodyAtom) (fvars : List String) (σ : Subst) : Prop :=
  ((valsList σ args (fvars.map σ) ∧ bodySat M w σ body ∧ (choice = true → M.t p (fvars.map σ))) →
      M.at w p (fvars.map σ)) ∧
  ((valsList σ args (fvars.map σ) ∧ bodySat M .there σ body ∧ (choice = true → M.t p (fvars.map σ))) →
      M.t p (fvars.map σ))

theorem headArgsP_iff (M : HTI) (w : World) (choice : Bool) (a : Asp.Atom) (r : Rule)
    (hr : r.head = if choice then .choice a else .basic a) (fvars : List String)
    (hn : fvars.Nodup) (hfresh : ∀ g ∈ fvars, g ∉ r.vars) (hlen : fvars.length = a.args.length) :
    (∀ σ, headArgsP M w choice a.pred a.args r.body fvars σ) ↔ ruleSat M w r := by
  have hsub := head_vars_subset r a (by cases choice <;> simp_all)
  have hbody := body_vars_subset r
  -- extend a substitution by a value tuple for the global variables
  have ext : ∀ (σ0 : Subst) (ds : List Dom), ds.length = fvars.length →
      ∃ σ1 : Subst, fvars.map σ1 = ds ∧ ∀ x ∈ r.vars, σ1 x = σ0 x := by
    intro σ0 ds hds
    refine ⟨σOf (assignGen (fun v => σ0 v.name) fvars ds), ?_, ?_⟩
    · exact assignGen_map _ fvars ds hn hds.symm
    · intro x hx
      show assignGen _ fvars ds ⟨x, .general⟩ = σ0 x
      rw [assignGen_other]
      intro z hz e
      injection e with e; subst e
      exact hfresh _ hz hx
  unfold ruleSat
  constructor
  · intro h σ0
    have main : ∀ (w' : World),
        (∀ σ, (valsList σ a.args (fvars.map σ) ∧ bodySat M w' σ r.body ∧
          (choice = true → M.t a.pred (fvars.map σ))) → M.at w' a.pred (fvars.map σ)) →
        bodySat M w' σ0 r.body → headSat M w' σ0 r.head := by
      intro w' hw hb
      have key : ∀ ds, valsList σ0 a.args ds → (choice = true → M.t a.pred ds) → M.at w' a.pred ds := by
        intro ds hv hc
        obtain ⟨σ1, hm, hag⟩ := ext σ0 ds (by rw [valsList_length hv, hlen])
        have h1 : valsList σ1 a.args ds :=
          (valsList_congr a.args ds fun t ht x hx => hag x (hsub t ht x hx)).mpr hv
        have h2 : bodySat M w' σ1 r.body :=
          (bodySat_congr M w' r.body fun x hx => hag x (hbody x hx)).mpr hb
        have := hw σ1 (by rw [hm]; exact ⟨h1, h2, hc⟩)
        rwa [hm] at this
      rw [hr]
      cases choice with
      | false => exact fun ds hv => key ds hv (fun e => by cases e)
      | true =>
        intro ds hv
        by_cases ht : M.t a.pred ds
        · exact Or.inl (key ds hv fun _ => ht)
        · exact Or.inr ht
    exact ⟨main w fun σ => (h σ).1, main .there fun σ => (h σ).2⟩
  · intro h σ
    have hσ := h σ
    rw [hr] at hσ
    constructor
    · rintro ⟨hv, hb, hc⟩
      cases choice with
      | false => exact hσ.1 hb _ hv
      | true =>
        rcases hσ.1 hb _ hv with h1 | h1
        · exact h1
        · exact absurd (hc rfl) h1
    · rintro ⟨hv, hb, hc⟩
      cases choice with
      | false => exact hσ.2 hb _ hv
      | true => exact hc rfl

theorem headArgsP_congr (M : HTI) (w : World) (choice : Bool) (a : Asp.Atom) (r : Rule)
    (hr : r.head = if choice then .choice a else .basic a) (fvars : List String) (σ σ' : Subst)
    (h : ∀ x ∈ r.vars ++ fvars, σ x = σ' x) :
    headArgsP M w choice a.pred a.args r.body fvars σ ↔ headArgsP M w choice a.pred a.args r.body fvars σ' := by
  have hsub := head_vars_subset r a (by cases choice <;> simp_all)
  have hbody := body_vars_subset r
  have e : fvars.map σ = fvars.map σ' :=
    List.map_congr_left fun x hx => h x (List.mem_append_right _ hx)
  have hv : ∀ ds, valsList σ a.args ds ↔ valsList σ' a.args ds := fun ds =>
    valsList_congr a.args ds fun t ht x hx => h x (List.mem_append_left _ (hsub t ht x hx))
  have hb : ∀ w', bodySat M w' σ r.body ↔ bodySat M w' σ' r.body := fun w' =>
    bodySat_congr M w' r.body fun x hx => h x (List.mem_append_left _ (hbody x hx))
  unfold headArgsP
  rw [e, hv, hb, hb]

/-- the common arm of `tau_star_rule` for basic and choice heads -/
def headRuleFormula (choice : Bool) (a : Asp.Atom) (r : Rule) (globals : List String) : Formula :=
  if a.args.length > 0 then
    let fvars := globals.take a.args.length
    let vals := (a.args.zip fvars).map fun (t, v) => val t ⟨v, .general⟩
    let newHead := Formula.atomic (.atom ⟨a.pred, fvars.map GTerm.var⟩)
    let core := Formula.bin .and (conjoin vals) (tauBody r.body)
    let body := if choice then .bin .and core (.not (.not newHead)) else core
    .quant .all (sortedGeneral (r.vars ++ fvars)) (.bin .imp body newHead)
  else
    let newHead := Formula.atomic (.atom ⟨a.pred, []⟩)
    let core := tauBody r.body
    let body := if choice then .bin .and core (.not (.not newHead)) else core
    let imp := Formula.bin .imp body newHead
    let gv := sortedGeneral r.vars
    if gv.isEmpty then imp else .quant .all gv imp

theorem tauStarRule_basic (r : Rule) (a : Asp.Atom) (globals : List String) (h : r.head = .basic a) :
    tauStarRule r globals = headRuleFormula false a r globals := by
  unfold tauStarRule headRuleFormula
  simp only [h, Bool.false_eq_true, if_false]

theorem tauStarRule_choice (r : Rule) (a : Asp.Atom) (globals : List String) (h : r.head = .choice a) :
    tauStarRule r globals = headRuleFormula true a r globals := by
  unfold tauStarRule headRuleFormula
  simp only [h, if_true]

theorem headRule_sem (M : HTI) (w : World) (choice : Bool) (a : Asp.Atom) (r : Rule)
    (hr : r.head = if choice then .choice a else .basic a) (globals : List String)
    (hn : globals.Nodup) (hfresh : ∀ g ∈ globals, g ∉ r.vars) (hlen : a.args.length ≤ globals.length)
    (ρ : Asg) : ht M (headRuleFormula choice a r globals) w ρ ↔ ruleSat M w r := by
  unfold headRuleFormula
  split
  · -- head with arguments
    have hfl : (globals.take a.args.length).length = a.args.length := by
      rw [List.length_take]; omega
    have hfn : (globals.take a.args.length).Nodup := hn.sublist (List.take_sublist _ _)
    have hff : ∀ g ∈ globals.take a.args.length, g ∉ r.vars := fun g hg =>
      hfresh g (List.mem_of_mem_take hg)
    rw [← headArgsP_iff M w choice a r hr _ hfn hff hfl]
    have hbody : ∀ (w' : World) (τ : Asg),
        ht M (if choice = true then
            (Formula.bin .and (.bin .and (conjoin ((a.args.zip (globals.take a.args.length)).map
              fun (t, v) => val t ⟨v, .general⟩)) (tauBody r.body))
              (.not (.not (.atomic (.atom ⟨a.pred, (globals.take a.args.length).map GTerm.var⟩)))))
          else (.bin .and (conjoin ((a.args.zip (globals.take a.args.length)).map
              fun (t, v) => val t ⟨v, .general⟩)) (tauBody r.body))) w' τ ↔
        (valsList (σOf τ) a.args ((globals.take a.args.length).map (σOf τ)) ∧
          bodySat M w' (σOf τ) r.body ∧
          (choice = true → M.t a.pred ((globals.take a.args.length).map (σOf τ)))) := by
      intro w' τ
      have hz := valsZip M w' τ a.args (globals.take a.args.length) hfl.symm
      cases choice with
      | false =>
        simp only [Bool.false_eq_true, if_false, ht, ht_conjoin, tauBody_sem, false_imp_iff, and_true]
        rw [hz]; rfl
      | true =>
        simp only [if_true, ht_conjoin, tauBody_sem, true_imp_iff]
        rw [show ∀ (A B C : Formula), ht M (.bin .and (.bin .and A B) C) w' τ ↔
            (ht M A w' τ ∧ ht M B w' τ) ∧ ht M C w' τ from fun _ _ _ => Iff.rfl,
          ht_notnot_atom_vars, ht_conjoin, tauBody_sem, hz, and_assoc]
        rfl
    refine Iff.trans (bindAll_congr (Q := fun τ =>
      headArgsP M w choice a.pred a.args r.body (globals.take a.args.length) (σOf τ)) (fun τ => ?_) ρ)
      (bindAll_sortedGeneral _ _ (fun σ σ' h => headArgsP_congr M w choice a r hr _ σ σ' h) ρ)
    unfold headArgsP
    have h2 : ht M (.atomic (.atom ⟨a.pred, (globals.take a.args.length).map GTerm.var⟩)) .there τ ↔
        M.t a.pred ((globals.take a.args.length).map (σOf τ)) := ht_atom_vars M .there τ _ _
    rw [← hbody w τ, ← hbody .there τ, ← ht_atom_vars, ← h2]
    rfl
  · -- propositional head
    rename_i hpos
    have h0 : a.args = [] := by
      cases h : a.args with
      | nil => rfl
      | cons _ _ => rw [h] at hpos; simp at hpos
    rw [← headArgsP_iff M w choice a r hr [] List.nodup_nil (by simp) (by simp [h0])]
    refine close_sem M w r.vars _ (headArgsP M w choice a.pred a.args r.body []) ?_
      (fun σ σ' h => headArgsP_congr M w choice a r hr [] σ σ' (by simpa using h)) ρ
    intro τ
    have hat : ∀ w', ht M (.atomic (.atom ⟨a.pred, []⟩)) w' τ ↔ M.at w' a.pred [] := by
      intro w'; have := ht_atom_vars M w' τ a.pred []; simpa using this
    have hnn : ∀ w', ht M (.not (.not (.atomic (.atom ⟨a.pred, []⟩)))) w' τ ↔ M.t a.pred [] := by
      intro w'; have := ht_notnot_atom_vars M w' τ a.pred []; simpa using this
    unfold headArgsP
    rw [h0]
    cases choice with
    | false =>
      simp only [Bool.false_eq_true, if_false, ht, tauBody_sem, valsList, List.map_nil, true_and,
        false_imp_iff, and_true]
      have h1 := hat w; have h2 := hat .there
      simp only [ht] at h1 h2
      rw [h1, h2]; rfl
    | true =>
      simp only [if_true, valsList, List.map_nil, true_and, true_imp_iff]
      rw [show ∀ (A B C : Formula), ht M (.bin .imp (.bin .and A B) C) w τ ↔
          ((ht M A w τ ∧ ht M B w τ → ht M C w τ) ∧ (ht M A .there τ ∧ ht M B .there τ → ht M C .there τ))
          from fun _ _ _ => Iff.rfl, hnn, hnn, hat, hat, tauBody_sem, tauBody_sem]
      rfl

/-- **`tau_star_rule` is correct**: the formula of a rule holds at world `w` (under any
    assignment) iff the rule is satisfied at `w` in the reference semantics. -/
theorem tauStarRule_sem (M : HTI) (w : World) (r : Rule) (globals : List String)
    (hn : globals.Nodup) (hfresh : ∀ g ∈ globals, g ∉ r.vars) (hlen : r.head.arity ≤ globals.length)
    (ρ : Asg) : ht M (tauStarRule r globals) w ρ ↔ ruleSat M w r := by
  cases hh : r.head with
  | falsity =>
    unfold tauStarRule
    simp only [hh]
    refine (close_sem M w r.vars _
      (fun σ => (bodySat M w σ r.body → False) ∧ (bodySat M .there σ r.body → False)) ?_ ?_ ρ).trans ?_
    · intro τ
      simp only [ht, tauBody_sem, Formula.fls, AtomicF.sat]
    · intro σ σ' h
      have hb : ∀ w', bodySat M w' σ r.body ↔ bodySat M w' σ' r.body := fun w' =>
        bodySat_congr M w' r.body fun x hx => h x (body_vars_subset r x hx)
      rw [hb, hb]
    · unfold ruleSat; rw [hh]; rfl
  | basic a =>
    rw [tauStarRule_basic r a globals hh]
    exact headRule_sem M w false a r (by simp [hh]) globals hn hfresh (by simpa [hh, Head.arity] using hlen) ρ
  | choice a =>
    rw [tauStarRule_choice r a globals hh]
    exact headRule_sem M w true a r (by simp [hh]) globals hn hfresh (by simpa [hh, Head.arity] using hlen) ρ

/-! ## programs: the global head variables are fresh -/

theorem foldl_digits (l : List Char) (init : Nat) :
    l.foldl (fun acc c => acc * 10 + (c.toNat - '0'.toNat)) init = Nat.ofDigitChars 10 l init := by
  unfold Nat.ofDigitChars
  congr 1
  funext acc c
  rw [Nat.mul_comm]

theorem globalIndex_V (k : Nat) :
    globalIndex ("V" ++ toString k) = some (if k ≤ usizeMax then k else 0) := by
  have hl : ("V" ++ toString k).toList = 'V' :: Nat.toDigits 10 k := by
    rw [String.toList_append, Nat.toString_eq_repr, Nat.toList_repr]; rfl
  unfold globalIndex
  rw [hl]
  simp only
  have hall : (Nat.toDigits 10 k).all Char.isDigit = true :=
    List.all_eq_true.mpr fun c hc => Nat.isDigit_of_mem_toDigits (by decide) (by decide) hc
  have hne : (Nat.toDigits 10 k).isEmpty = false := by
    cases h : Nat.toDigits 10 k with
    | nil => exact absurd h Nat.toDigits_ne_nil
    | cons _ _ => rfl
  rw [if_pos hall, hne]
  simp only [Bool.false_eq_true, if_false, foldl_digits, Nat.ofDigitChars_ten_toDigits]

theorem foldl_max_ge {α} (f : α → Option Nat) (l : List α) (init : Nat) :
    init ≤ l.foldl (fun m v => match f v with | some n => if n > m then n else m | none => m) init ∧
    ∀ v ∈ l, ∀ n, f v = some n →
      n ≤ l.foldl (fun m v => match f v with | some n => if n > m then n else m | none => m) init := by
  induction l generalizing init with
  | nil => exact ⟨Nat.le_refl _, fun v hv => by cases hv⟩
  | cons a l ih =>
    simp only [List.foldl_cons]
    have step : init ≤ (match f a with | some n => if n > init then n else init | none => init) := by
      cases f a with
      | none => exact Nat.le_refl _
      | some n => simp only; split <;> omega
    obtain ⟨h1, h2⟩ := ih (match f a with | some n => if n > init then n else init | none => init)
    refine ⟨Nat.le_trans step h1, ?_⟩
    intro v hv n hn
    rcases List.mem_cons.mp hv with rfl | hv
    · refine Nat.le_trans ?_ h1
      rw [hn]; simp only; split <;> omega
    · exact h2 v hv n hn

theorem le_maxTakenGlobal (p : Program) (v : String) (hv : v ∈ p.vars) (n : Nat)
    (hn : globalIndex v = some n) : n ≤ maxTakenGlobal p :=
  (foldl_max_ge globalIndex p.vars 0).2 v hv n hn

theorem arity_le_maxHeadArity (p : Program) (r : Rule) (hr : r ∈ p) : r.head.arity ≤ maxHeadArity p := by
  unfold maxHeadArity
  have : ∀ (l : List Rule) (init : Nat),
      init ≤ l.foldl (fun m r => if r.head.arity > m then r.head.arity else m) init ∧
      ∀ r ∈ l, r.head.arity ≤ l.foldl (fun m r => if r.head.arity > m then r.head.arity else m) init := by
    intro l
    induction l with
    | nil => intro init; exact ⟨Nat.le_refl _, fun r hr => by cases hr⟩
    | cons a l ih =>
      intro init
      simp only [List.foldl_cons]
      obtain ⟨h1, h2⟩ := ih (if a.head.arity > init then a.head.arity else init)
      refine ⟨Nat.le_trans (by split <;> omega) h1, fun r hr => ?_⟩
      rcases List.mem_cons.mp hr with rfl | hr
      · exact Nat.le_trans (by split <;> omega) h1
      · exact h2 r hr
  exact (this p 0).2 r hr

theorem rule_vars_subset (p : Program) (r : Rule) (hr : r ∈ p) : ∀ x ∈ r.vars, x ∈ p.vars := by
  intro x hx
  unfold Program.vars
  rw [mem_foldl_ext]
  exact Or.inr ⟨r, hr, hx⟩

theorem vname_inj {a b : Nat} (h : "V" ++ toString a = "V" ++ toString b) : a = b := by
  simp only [String.append_right_inj] at h
  exact Nat.repr_injective h

theorem findFreeGlobal_spec (occ : List String) :
    ∀ (fuel k : Nat), (∃ j, k ≤ j ∧ j < k + fuel ∧ ("V" ++ toString j) ∉ occ) →
      ("V" ++ toString (findFreeGlobal occ fuel k)) ∉ occ := by
  intro fuel
  induction fuel with
  | zero => intro k ⟨j, h1, h2, _⟩; omega
  | succ fuel ih =>
    intro k ⟨j, h1, h2, h3⟩
    simp only [findFreeGlobal]
    split
    · rename_i hmem
      have hne : j ≠ k := fun e => h3 (e ▸ hmem)
      exact ih (k + 1) ⟨j, by omega, by omega, h3⟩
    · rename_i hmem
      exact hmem

theorem exists_free_global (occ : List String) (k : Nat) :
    ∃ j, k ≤ j ∧ j < k + (occ.length + 1) ∧ ("V" ++ toString j) ∉ occ := by
  by_cases h : ∃ j, k ≤ j ∧ j < k + (occ.length + 1) ∧ ("V" ++ toString j) ∉ occ
  · exact h
  · exfalso
    have hall : ∀ j, k ≤ j → j < k + (occ.length + 1) → ("V" ++ toString j) ∈ occ := by
      intro j h1 h2
      exact Classical.not_not.mp fun hn => h ⟨j, h1, h2, hn⟩
    let L := (List.range' k (occ.length + 1)).map fun j => "V" ++ toString j
    have hnd : L.Nodup := by
      have hr : (List.range' k (occ.length + 1)).Nodup := List.nodup_range'
      exact List.Pairwise.map _ (fun a b hab hc => hab (vname_inj hc)) hr
    have hsub : L ⊆ occ := by
      intro x hx
      simp only [L, List.mem_map, List.mem_range'_1] at hx
      obtain ⟨j, ⟨h1, h2⟩, rfl⟩ := hx
      exact hall j h1 (by omega)
    have := hnd.length_le_of_subset hsub
    simp [L] at this
    omega

/-- the loop keeps: the chosen names are pairwise different, none is a variable of the program, and
    the names still to come from the first branch are not among them -/
theorem freshGlobalsLoop_spec (p : Program) :
    ∀ (is : List Nat) (nf : Nat) (acc : List String), is.Pairwise (· < ·) → (∀ i ∈ is, 1 ≤ i) →
      acc.Nodup → (∀ g ∈ acc, g ∉ p.vars) →
      (∀ i ∈ is, maxTakenGlobal p + i ≤ usizeMax → ("V" ++ toString (maxTakenGlobal p + i)) ∉ acc) →
      (freshGlobalsLoop p.vars (maxTakenGlobal p) is nf acc).Nodup ∧
      (∀ g ∈ freshGlobalsLoop p.vars (maxTakenGlobal p) is nf acc, g ∉ p.vars) ∧
      (freshGlobalsLoop p.vars (maxTakenGlobal p) is nf acc).length = acc.length + is.length := by
  intro is
  induction is with
  | nil => intro nf acc _ _ hnd hfr _; exact ⟨hnd, hfr, by simp [freshGlobalsLoop]⟩
  | cons i is ih =>
    intro nf acc hsorted hpos hnd hfr hnext
    have hrest := (List.pairwise_cons.mp hsorted)
    have hpos' : ∀ i' ∈ is, 1 ≤ i' := fun i' hi' => hpos i' (List.mem_cons_of_mem _ hi')
    have hi1 : 1 ≤ i := hpos i List.mem_cons_self
    simp only [freshGlobalsLoop]
    split
    · rename_i hfit
      have hnew : ("V" ++ toString (maxTakenGlobal p + i)) ∉ p.vars := by
        intro hmem
        have := le_maxTakenGlobal p _ hmem _ (globalIndex_V (maxTakenGlobal p + i))
        rw [if_pos hfit] at this
        omega
      -- `i ≥ 1` is not known here; handle `i = 0` through the hypothesis on `acc`
      have hnotacc := hnext i List.mem_cons_self hfit
      obtain ⟨h1, h2, h3⟩ := ih nf (acc ++ ["V" ++ toString (maxTakenGlobal p + i)]) hrest.2 hpos'
        (by
          rw [List.nodup_append]
          refine ⟨hnd, by simp, ?_⟩
          intro x hx y hy
          simp only [List.mem_singleton] at hy
          subst hy
          exact fun e => hnotacc (e ▸ hx))
        (by
          intro g hg
          rcases List.mem_append.mp hg with hg | hg
          · exact hfr g hg
          · simp only [List.mem_singleton] at hg; subst hg; exact hnew)
        (by
          intro i' hi' hfit' hmem
          rcases List.mem_append.mp hmem with hmem | hmem
          · exact hnext i' (List.mem_cons_of_mem _ hi') hfit' hmem
          · simp only [List.mem_singleton] at hmem
            have := vname_inj hmem
            have := hrest.1 i' hi'
            omega)
      refine ⟨h1, h2, ?_⟩
      rw [h3]; simp; omega
    · rename_i hfit
      have hfree := findFreeGlobal_spec (p.vars ++ acc) _ (nf + 1) (exists_free_global (p.vars ++ acc) (nf + 1))
      simp only [List.mem_append, not_or] at hfree
      obtain ⟨h1, h2, h3⟩ := ih _ (acc ++ ["V" ++ toString (findFreeGlobal (p.vars ++ acc) ((p.vars ++ acc).length + 1) (nf + 1))]) hrest.2 hpos'
        (by
          rw [List.nodup_append]
          refine ⟨hnd, by simp, ?_⟩
          intro x hx y hy
          simp only [List.mem_singleton] at hy
          subst hy
          exact fun e => hfree.2 (e ▸ hx))
        (by
          intro g hg
          rcases List.mem_append.mp hg with hg | hg
          · exact hfr g hg
          · simp only [List.mem_singleton] at hg; subst hg; exact hfree.1)
        (by
          intro i' hi' hfit' _
          have := hrest.1 i' hi'
          omega)
      refine ⟨h1, h2, ?_⟩
      rw [h3]; simp; omega

theorem chooseFreshGlobals_spec (p : Program) (_hp : globalsPanic p = false) :
    (chooseFreshGlobals p).Nodup ∧ (∀ g ∈ chooseFreshGlobals p, g ∉ p.vars) ∧
      (chooseFreshGlobals p).length = maxHeadArity p := by
  unfold chooseFreshGlobals
  obtain ⟨h1, h2, h3⟩ := freshGlobalsLoop_spec p (List.range' 1 (maxHeadArity p)) 0 []
    List.pairwise_lt_range' (by
      intro i hi
      simp only [List.mem_range'_1] at hi
      exact hi.1)
    List.nodup_nil (fun _ h => absurd h List.not_mem_nil) (fun _ _ _ h => absurd h List.not_mem_nil)
  exact ⟨h1, h2, by rw [h3]; simp⟩

/-- **tau\* is correct**: an HT interpretation satisfies (at world `w`, under any assignment) every
    formula of `tau_star(Π)` iff it satisfies every rule of `Π` at `w` in the reference semantics. -/
theorem tauStar_correct (P : Program) (hp : globalsPanic P = false) (M : HTI) (w : World) (ρ : Asg) :
    (∀ F ∈ tauStar P, ht M F w ρ) ↔ progSat M w P := by
  obtain ⟨hn, hfresh, hlen⟩ := chooseFreshGlobals_spec P hp
  unfold tauStar progSat
  simp only [List.mem_map, forall_exists_index, and_imp, forall_apply_eq_imp_iff₂]
  refine forall_congr' fun r => imp_congr_right fun hr => ?_
  exact tauStarRule_sem M w r _ hn (fun g hg hx => hfresh g hg (rule_vars_subset P r hr g hx))
    (by rw [hlen]; exact arity_le_maxHeadArity P r hr) ρ

end Anthem
