/-
  Termination of `apply_fixpoint` for the three simplification portfolios.

  A four-component measure, compared lexicographically:
    pw  a polynomial interpretation (products for `and`/`or`, so that it is invariant under the
        re-nesting of conjunctions and strictly decreases when a quantifier moves outwards),
    ew  the number of equality links `l = r` in comparisons whose two sides differ syntactically
        (substituting a defined variable turns `X = t` into `t = t`),
    gw  the number of quantified general variables (restrict_quantifier_domain),
    bw  the number of quantified variables (remove_orphaned_variables).
  Every rewrite either returns its argument or strictly decreases the measure; the measure is
  monotone in every context; hence every pass of `applyPost` that changes the formula decreases
  it, and the fixpoint loop stops.
-/
import AnthemModel.Model.Simplify
namespace Anthem

def Conn.off : Conn → Nat
  | .and | .or => 0
  | .imp | .iff => 1
  | .rimp => 2

def AtomicF.pw : AtomicF → Nat
  | .tru | .fls => 2
  | .atom _ => 3
  | .cmp _ gs => if gs.length ≤ 1 then 3 else 3 ^ gs.length + 1

def Formula.pw : Formula → Nat
  | .atomic a => a.pw
  | .not f => f.pw + 1
  | .bin c l r => l.pw * r.pw + c.off
  | .quant _ _ f => f.pw + 1

/-- equality links with syntactically different sides -/
def eqLinks : GTerm → List Guard → Nat
  | _, [] => 0
  | l, g :: gs => (if g.rel = .eq ∧ l ≠ g.term then 1 else 0) + eqLinks g.term gs

def AtomicF.ew : AtomicF → Nat
  | .cmp t gs => eqLinks t gs
  | _ => 0

def Formula.ew : Formula → Nat
  | .atomic a => a.ew
  | .not f => f.ew
  | .bin _ l r => l.ew + r.ew
  | .quant _ _ f => f.ew

def countGeneral (vs : List Var) : Nat := (vs.filter (·.sort = .general)).length

def Formula.gw : Formula → Nat
  | .atomic _ => 0
  | .not f => f.gw
  | .bin _ l r => l.gw + r.gw
  | .quant _ vs f => countGeneral vs + f.gw

def Formula.bw : Formula → Nat
  | .atomic _ => 0
  | .not f => f.bw
  | .bin _ l r => l.bw + r.bw
  | .quant _ vs f => vs.length + f.bw

theorem AtomicF.pw_ge (a : AtomicF) : 2 ≤ a.pw := by
  cases a <;> simp only [AtomicF.pw] <;> try omega
  rename_i t gs
  have : 0 < 3 ^ gs.length := Nat.pow_pos (by omega)
  split <;> omega

theorem Formula.pw_ge : ∀ f : Formula, 2 ≤ f.pw
  | .atomic a => a.pw_ge
  | .not f => by have := f.pw_ge; simp only [Formula.pw]; omega
  | .quant _ _ f => by have := f.pw_ge; simp only [Formula.pw]; omega
  | .bin c l r => by
    have h1 := l.pw_ge; have h2 := r.pw_ge
    simp only [Formula.pw]
    have : 2 * 2 ≤ l.pw * r.pw := Nat.mul_le_mul h1 h2
    omega

/-- strict lexicographic order on the measure -/
def Lt4 (a b : Formula) : Prop :=
  a.pw < b.pw ∨ (a.pw = b.pw ∧ (a.ew < b.ew ∨ (a.ew = b.ew ∧ (a.gw < b.gw ∨ (a.gw = b.gw ∧ a.bw < b.bw)))))

/-- unchanged, or strictly smaller -/
def Le4 (a b : Formula) : Prop := a = b ∨ Lt4 a b

theorem Lt4.trans {a b c : Formula} (h1 : Lt4 a b) (h2 : Lt4 b c) : Lt4 a c := by
  unfold Lt4 at *; omega

theorem Le4.refl (a : Formula) : Le4 a a := Or.inl rfl

theorem Le4.trans {a b c : Formula} (h1 : Le4 a b) (h2 : Le4 b c) : Le4 a c := by
  rcases h1 with rfl | h1
  · exact h2
  · rcases h2 with rfl | h2
    · exact Or.inr h1
    · exact Or.inr (h1.trans h2)

theorem Lt4.of_pw {a b : Formula} (h : a.pw < b.pw) : Lt4 a b := Or.inl h

/-- componentwise: `pw`, `ew` do not grow and `gw` shrinks -/
theorem Lt4.of_le_le_lt {a b : Formula} (h1 : a.pw ≤ b.pw) (h2 : a.ew ≤ b.ew) (h3 : a.gw < b.gw) : Lt4 a b := by
  unfold Lt4; omega

theorem Lt4.of_le_lt {a b : Formula} (h1 : a.pw ≤ b.pw) (h2 : a.ew < b.ew) : Lt4 a b := by
  unfold Lt4; omega

/-! ### well-foundedness -/

abbrev M4 := Nat × Nat × Nat × Nat

def Formula.mu (f : Formula) : M4 := (f.pw, f.ew, f.gw, f.bw)

@[reducible] def m4rel : WellFoundedRelation M4 :=
  Prod.lex Nat.lt_wfRel (Prod.lex Nat.lt_wfRel (Prod.lex Nat.lt_wfRel Nat.lt_wfRel))

theorem lt4_wf : WellFounded Lt4 := by
  refine Subrelation.wf (r := InvImage m4rel.rel Formula.mu) ?_ (InvImage.wf _ m4rel.wf)
  intro a b h
  show Prod.Lex _ _ (a.pw, a.ew, a.gw, a.bw) (b.pw, b.ew, b.gw, b.bw)
  rcases h with h | ⟨e1, h⟩
  · exact Prod.Lex.left _ _ h
  · rw [e1]
    refine Prod.Lex.right _ ?_
    rcases h with h | ⟨e2, h⟩
    · exact Prod.Lex.left _ _ h
    · rw [e2]
      refine Prod.Lex.right _ ?_
      rcases h with h | ⟨e3, h⟩
      · exact Prod.Lex.left _ _ h
      · rw [e3]
        exact Prod.Lex.right _ h

/-! ### the measure is monotone in every context -/

theorem Lt4.not {a b : Formula} (h : Lt4 a b) : Lt4 (.not a) (.not b) := by
  unfold Lt4 at *; simp only [Formula.pw, Formula.ew, Formula.gw, Formula.bw]; omega

theorem Lt4.quant (q : Quant) (vs : List Var) {a b : Formula} (h : Lt4 a b) :
    Lt4 (.quant q vs a) (.quant q vs b) := by
  unfold Lt4 at *; simp only [Formula.pw, Formula.ew, Formula.gw, Formula.bw]; omega

theorem Lt4.binL (c : Conn) (r : Formula) {a b : Formula} (h : Lt4 a b) :
    Lt4 (.bin c a r) (.bin c b r) := by
  have hr := r.pw_ge
  unfold Lt4 at *
  simp only [Formula.pw, Formula.ew, Formula.gw, Formula.bw]
  rcases h with h | ⟨e, h⟩
  · left
    have : a.pw * r.pw < b.pw * r.pw := Nat.mul_lt_mul_of_pos_right h (by omega)
    omega
  · right
    rw [e]
    refine ⟨rfl, ?_⟩
    omega

theorem Lt4.binR (c : Conn) (l : Formula) {a b : Formula} (h : Lt4 a b) :
    Lt4 (.bin c l a) (.bin c l b) := by
  have hl := l.pw_ge
  unfold Lt4 at *
  simp only [Formula.pw, Formula.ew, Formula.gw, Formula.bw]
  rcases h with h | ⟨e, h⟩
  · left
    have : l.pw * a.pw < l.pw * b.pw := Nat.mul_lt_mul_of_pos_left h (by omega)
    omega
  · right
    rw [e]
    refine ⟨rfl, ?_⟩
    omega

theorem Le4.not {a b : Formula} (h : Le4 a b) : Le4 (.not a) (.not b) := by
  rcases h with rfl | h
  · exact Or.inl rfl
  · exact Or.inr h.not

theorem Le4.quant (q : Quant) (vs : List Var) {a b : Formula} (h : Le4 a b) :
    Le4 (.quant q vs a) (.quant q vs b) := by
  rcases h with rfl | h
  · exact Or.inl rfl
  · exact Or.inr (h.quant q vs)

theorem Le4.bin (c : Conn) {a b a' b' : Formula} (h1 : Le4 a a') (h2 : Le4 b b') :
    Le4 (.bin c a b) (.bin c a' b') := by
  have s1 : Le4 (.bin c a b) (.bin c a' b) := by
    rcases h1 with rfl | h
    · exact Or.inl rfl
    · exact Or.inr (h.binL c b)
  have s2 : Le4 (.bin c a' b) (.bin c a' b') := by
    rcases h2 with rfl | h
    · exact Or.inl rfl
    · exact Or.inr (h.binR c a')
  exact s1.trans s2

/-! ### passes and the fixpoint loop -/

theorem compose_le4 {fs : List (Formula → Formula)} (h : ∀ f ∈ fs, ∀ F, Le4 (f F) F) :
    ∀ F, Le4 (compose fs F) F := by
  unfold compose
  induction fs with
  | nil => intro F; exact Le4.refl F
  | cons f fs ih =>
    intro F
    simp only [List.foldl_cons]
    exact (ih (fun g hg => h g (List.mem_cons_of_mem _ hg)) (f F)).trans (h f List.mem_cons_self F)

theorem applyPost_le4 {f : Formula → Formula} (hf : ∀ F, Le4 (f F) F) : ∀ F, Le4 (applyPost f F) F
  | .atomic _ => hf _
  | .not g => (hf _).trans (applyPost_le4 hf g).not
  | .bin c l r => (hf _).trans (Le4.bin c (applyPost_le4 hf l) (applyPost_le4 hf r))
  | .quant q vs g => (hf _).trans ((applyPost_le4 hf g).quant q vs)

/-- **The fixpoint loop terminates**: for some number of passes the loop ends by itself (the flag of
    `applyFixpointFuel` says that a pass left the formula unchanged). -/
theorem applyFixpoint_terminates {f : Formula → Formula} (hf : ∀ F, Le4 (f F) F) (F : Formula) :
    ∃ n, (applyFixpointFuel f n F).2 = true := by
  induction F using lt4_wf.induction with
  | _ F ih =>
    rcases applyPost_le4 hf F with e | hlt
    · exact ⟨0, by simp [applyFixpointFuel, e]⟩
    · obtain ⟨n, hn⟩ := ih _ hlt
      refine ⟨n + 1, ?_⟩
      have hne : F ≠ applyPost f F := by
        intro e
        have : Lt4 F F := by rw [← e] at hlt; exact hlt
        unfold Lt4 at this; omega
      simp only [applyFixpointFuel, hne, if_false]
      exact hn

/-- once the loop has ended by itself, more fuel does not change the result -/
theorem applyFixpointFuel_stable (f : Formula → Formula) : ∀ (n : Nat) (F : Formula),
    (applyFixpointFuel f n F).2 = true → ∀ k, n ≤ k → applyFixpointFuel f k F = applyFixpointFuel f n F := by
  intro n
  induction n with
  | zero =>
    intro F h k _
    simp only [applyFixpointFuel, decide_eq_true_eq] at h
    cases k with
    | zero => rfl
    | succ k => simp [applyFixpointFuel, h]
  | succ n ih =>
    intro F h k hk
    cases k with
    | zero => omega
    | succ k =>
      simp only [applyFixpointFuel] at h ⊢
      split
      · rfl
      · rename_i hne
        simp only [hne, if_false] at h
        exact ih _ h k (by omega)

/-! ### helper facts -/

theorem pw_bounds (l r : Formula) :
    2 * l.pw ≤ l.pw * r.pw ∧ 2 * r.pw ≤ l.pw * r.pw ∧ 2 ≤ l.pw ∧ 2 ≤ r.pw := by
  have h1 := l.pw_ge; have h2 := r.pw_ge
  refine ⟨?_, ?_, h1, h2⟩
  · rw [Nat.mul_comm 2]; exact Nat.mul_le_mul_left _ h2
  · exact Nat.mul_le_mul_right _ h1

theorem bin_pw_gt_left (c : Conn) (l r : Formula) : l.pw < (Formula.bin c l r).pw := by
  have := pw_bounds l r; simp only [Formula.pw]; omega

theorem bin_pw_gt_right (c : Conn) (l r : Formula) : r.pw < (Formula.bin c l r).pw := by
  have := pw_bounds l r; simp only [Formula.pw]; omega

theorem tru_lt_bin (c : Conn) (l r : Formula) : Formula.tru.pw < (Formula.bin c l r).pw := by
  have := pw_bounds l r; simp only [Formula.tru, Formula.pw, AtomicF.pw]; omega

theorem fls_lt_bin (c : Conn) (l r : Formula) : Formula.fls.pw < (Formula.bin c l r).pw := by
  have := pw_bounds l r; simp only [Formula.fls, Formula.pw, AtomicF.pw]; omega

def prodPw : List Formula → Nat
  | [] => 1
  | f :: fs => f.pw * prodPw fs

theorem prodPw_pos : ∀ l : List Formula, 0 < prodPw l
  | [] => by simp [prodPw]
  | f :: fs => by
    have := f.pw_ge; have := prodPw_pos fs
    simp only [prodPw]; exact Nat.mul_pos (by omega) this

theorem foldl_and_pw (fs : List Formula) : ∀ acc : Formula,
    (fs.foldl (fun acc e => Formula.bin .and acc e) acc).pw = acc.pw * prodPw fs := by
  induction fs with
  | nil => intro acc; simp [prodPw]
  | cons f fs ih =>
    intro acc
    simp only [List.foldl_cons, ih, prodPw, Formula.pw, Conn.off, Nat.add_zero, Nat.mul_assoc]

theorem conjoin_pw_cons (f : Formula) (fs : List Formula) : (conjoin (f :: fs)).pw = prodPw (f :: fs) := by
  simp only [conjoin, foldl_and_pw, prodPw]

theorem foldl_and_ew (fs : List Formula) : ∀ acc : Formula,
    (fs.foldl (fun acc e => Formula.bin .and acc e) acc).ew = acc.ew + (fs.map Formula.ew).sum := by
  induction fs with
  | nil => intro acc; simp
  | cons f fs ih => intro acc; simp only [List.foldl_cons, ih, Formula.ew, List.map_cons, List.sum_cons]; omega

theorem quantify_pw_le (f : Formula) (q : Quant) (vs : List Var) : (f.quantify q vs).pw ≤ f.pw + 1 := by
  unfold Formula.quantify; split <;> simp [Formula.pw]

theorem quantify_ew (f : Formula) (q : Quant) (vs : List Var) : (f.quantify q vs).ew = f.ew := by
  unfold Formula.quantify; split <;> simp [Formula.ew]

theorem quantify_gw (f : Formula) (q : Quant) (vs : List Var) :
    (f.quantify q vs).gw = countGeneral vs + f.gw := by
  unfold Formula.quantify
  split
  · rename_i h
    have : vs = [] := List.isEmpty_iff.mp h
    subst this; simp [countGeneral]
  · simp [Formula.gw]

theorem quantify_bw (f : Formula) (q : Quant) (vs : List Var) :
    (f.quantify q vs).bw = vs.length + f.bw := by
  unfold Formula.quantify
  split
  · rename_i h
    have : vs = [] := List.isEmpty_iff.mp h
    subst this; simp
  · simp [Formula.bw]

/-! ### the ten intuitionistic rewrites -/

theorem evalCmpLoop_length : ∀ (gs : List Guard) (t : GTerm), (evalCmpLoop t gs).length = gs.length
  | [], _ => rfl
  | g :: gs, t => by simp [evalCmpLoop, evalCmpLoop_length gs]

theorem evalCmpLoop_pw : ∀ (gs : List Guard) (t : GTerm), prodPw (evalCmpLoop t gs) ≤ 3 ^ gs.length
  | [], _ => by simp [evalCmpLoop, prodPw]
  | g :: gs, t => by
    have ih := evalCmpLoop_pw gs g.term
    simp only [evalCmpLoop, prodPw, List.length_cons, Nat.pow_succ]
    have h3 : (if t = g.term then
        (match g.rel with
          | .eq | .ge | .le => Formula.tru
          | .ne | .gt | .lt => Formula.fls)
       else Formula.atomic (.cmp t [⟨g.rel, g.term⟩])).pw ≤ 3 := by
      split
      · split <;> simp [Formula.tru, Formula.fls, Formula.pw, AtomicF.pw]
      · simp [Formula.pw, AtomicF.pw]
    calc _ ≤ 3 * 3 ^ gs.length := Nat.mul_le_mul h3 ih
      _ = 3 ^ gs.length * 3 := Nat.mul_comm _ _

theorem evaluateComparisons_le4 (F : Formula) : Le4 (evaluateComparisons F) F := by
  unfold evaluateComparisons
  split
  · rename_i t gs
    match gs with
    | [] => exact Or.inr (Lt4.of_pw (by simp [evalCmpLoop, conjoin, Formula.tru, Formula.pw, AtomicF.pw]))
    | [g] =>
      simp only [evalCmpLoop, conjoin, List.foldl_nil]
      split
      · refine Or.inr (Lt4.of_pw ?_)
        split <;> simp [Formula.tru, Formula.fls, Formula.pw, AtomicF.pw]
      · exact Or.inl rfl
    | g1 :: g2 :: gs =>
      refine Or.inr (Lt4.of_pw ?_)
      have h := evalCmpLoop_pw (g1 :: g2 :: gs) t
      have hne : evalCmpLoop t (g1 :: g2 :: gs) ≠ [] := by simp [evalCmpLoop]
      obtain ⟨x, xs, hx⟩ := List.exists_cons_of_ne_nil hne
      rw [hx, conjoin_pw_cons, ← hx]
      simp only [Formula.pw, AtomicF.pw, List.length_cons] at h ⊢
      split
      · omega
      · omega
  · exact Or.inl rfl

theorem applyNegationDefinitionInverse_le4 (F : Formula) : Le4 (applyNegationDefinitionInverse F) F := by
  unfold applyNegationDefinitionInverse
  split
  · rename_i l
    refine Or.inr (Lt4.of_pw ?_)
    have := l.pw_ge
    simp only [Formula.pw, AtomicF.pw, Conn.off]; omega
  · exact Or.inl rfl

theorem applyReverseImplicationDefinition_le4 (F : Formula) : Le4 (applyReverseImplicationDefinition F) F := by
  unfold applyReverseImplicationDefinition
  split
  · rename_i l r
    refine Or.inr (Lt4.of_pw ?_)
    simp only [Formula.pw, Conn.off, Nat.mul_comm r.pw l.pw]; omega
  · exact Or.inl rfl

theorem applyEquivalenceDefinitionInverse_le4 (F : Formula) : Le4 (applyEquivalenceDefinitionInverse F) F := by
  unfold applyEquivalenceDefinitionInverse
  split
  · rename_i a b c d
    split
    · rename_i h
      obtain ⟨rfl, rfl⟩ := h
      refine Or.inr (Lt4.of_pw ?_)
      simp only [Formula.pw, Conn.off, Nat.add_zero, Nat.mul_comm b.pw a.pw]
      have h1 := (pw_bounds a b).2.2.1
      have h2 := (pw_bounds a b).2.2.2
      have : 2 * 2 ≤ a.pw * b.pw := Nat.mul_le_mul h1 h2
      have : (a.pw * b.pw + 1) * 2 ≤ (a.pw * b.pw + 1) * (a.pw * b.pw + 1) := Nat.mul_le_mul_left _ (by omega)
      omega
    · exact Or.inl rfl
  · exact Or.inl rfl

theorem removeIdentities_le4 (F : Formula) : Le4 (removeIdentities F) F := by
  unfold removeIdentities
  split
  all_goals first
    | exact Or.inl rfl
    | exact Or.inr (Lt4.of_pw (bin_pw_gt_left _ _ _))
    | exact Or.inr (Lt4.of_pw (bin_pw_gt_right _ _ _))

theorem removeAnnihilations_le4 (F : Formula) : Le4 (removeAnnihilations F) F := by
  unfold removeAnnihilations
  split
  all_goals first
    | exact Or.inl rfl
    | exact Or.inr (Lt4.of_pw (tru_lt_bin _ _ _))
    | exact Or.inr (Lt4.of_pw (fls_lt_bin _ _ _))
    | (split
       · exact Or.inr (Lt4.of_pw (tru_lt_bin _ _ _))
       · exact Or.inl rfl)

theorem removeIdempotences_le4 (F : Formula) : Le4 (removeIdempotences F) F := by
  unfold removeIdempotences
  split
  · split
    · exact Or.inr (Lt4.of_pw (bin_pw_gt_left _ _ _))
    · exact Or.inl rfl
  · split
    · exact Or.inr (Lt4.of_pw (bin_pw_gt_left _ _ _))
    · exact Or.inl rfl
  · exact Or.inl rfl

theorem filter_shrinks (p : Var → Bool) : ∀ vs : List Var,
    countGeneral (vs.filter p) ≤ countGeneral vs ∧
    ((vs.filter p).length < vs.length ∨ vs.filter p = vs) := by
  intro vs
  induction vs with
  | nil => simp [countGeneral]
  | cons v vs ih =>
    obtain ⟨ih1, ih2⟩ := ih
    simp only [countGeneral] at ih1 ⊢
    by_cases hp : p v = true
    · simp only [List.filter_cons_of_pos hp]
      refine ⟨?_, ?_⟩
      · by_cases hg : v.sort = .general
        · simp only [List.filter_cons, hg, decide_true, if_true, List.length_cons]; omega
        · simp only [List.filter_cons, hg, decide_false]; simpa using ih1
      · rcases ih2 with h | h
        · left; simp only [List.length_cons]; omega
        · right; rw [h]
    · simp only [List.filter_cons_of_neg hp]
      refine ⟨?_, Or.inl ?_⟩
      · by_cases hg : v.sort = .general
        · simp only [List.filter_cons, hg, decide_true, if_true, List.length_cons]; omega
        · simp only [List.filter_cons, hg, decide_false]; simpa using ih1
      · have := List.length_filter_le p vs
        simp only [List.length_cons]; omega

theorem removeOrphanedVariables_le4 (F : Formula) : Le4 (removeOrphanedVariables F) F := by
  unfold removeOrphanedVariables
  split
  · rename_i q vs f
    obtain ⟨h1, h2⟩ := filter_shrinks (fun v => decide (v ∈ f.fv)) vs
    rcases h2 with h2 | h2
    · right
      refine Or.inr ⟨rfl, Or.inr ⟨rfl, ?_⟩⟩
      simp only [Formula.gw, Formula.bw]
      omega
    · left; rw [h2]
  · exact Or.inl rfl

theorem removeEmptyQuantifications_le4 (F : Formula) : Le4 (removeEmptyQuantifications F) F := by
  unfold removeEmptyQuantifications
  split
  · split
    · exact Or.inr (Lt4.of_pw (by simp [Formula.pw]))
    · exact Or.inl rfl
  · exact Or.inl rfl

theorem joinNestedQuantifiers_le4 (F : Formula) : Le4 (joinNestedQuantifiers F) F := by
  unfold joinNestedQuantifiers
  split
  · rename_i q vs q' vs' f
    split
    · refine Or.inr (Lt4.of_pw ?_)
      have := quantify_pw_le f q (dedupAdj (sortVars (vs ++ vs')))
      simp only [Formula.pw]; omega
    · exact Or.inl rfl
  · exact Or.inl rfl

theorem intuitionistic_le4 : ∀ f ∈ intuitionistic, ∀ F, Le4 (f F) F := by
  intro f hf
  simp only [intuitionistic, List.mem_cons, List.mem_nil_iff, or_false] at hf
  rcases hf with rfl | rfl | rfl | rfl | rfl | rfl | rfl | rfl | rfl | rfl
  · exact evaluateComparisons_le4
  · exact applyNegationDefinitionInverse_le4
  · exact applyReverseImplicationDefinition_le4
  · exact applyEquivalenceDefinitionInverse_le4
  · exact removeIdentities_le4
  · exact removeAnnihilations_le4
  · exact removeIdempotences_le4
  · exact removeOrphanedVariables_le4
  · exact removeEmptyQuantifications_le4
  · exact joinNestedQuantifiers_le4

end Anthem
