/-
  Termination, second part: the five CLASSIC rewrites do not increase the measure of
  `Proofs/Termination` and strictly decrease it whenever they change the formula; with it the
  fixpoint loop terminates for all three portfolios.
-/
import AnthemModel.Proofs.Termination
import AnthemModel.Proofs.RewritesClassic
namespace Anthem

/-! ### substitution does not increase the measure -/

theorem ITerm.subst_of_not_mem (x : String) (s : ITerm) : ∀ t : ITerm, (⟨x, .integer⟩ : Var) ∉ t.vars → t.subst x s = t
  | .num _, _ => rfl
  | .fc _, _ => rfl
  | .var y, h => by
    simp only [ITerm.vars, List.mem_singleton, Var.mk.injEq, and_true] at h
    simp [ITerm.subst, h]
  | .neg a, h => by simp only [ITerm.subst, ITerm.subst_of_not_mem x s a h]
  | .bin op l r, h => by
    simp only [ITerm.vars, mem_ext, not_or] at h
    simp only [ITerm.subst, ITerm.subst_of_not_mem x s l h.1, ITerm.subst_of_not_mem x s r h.2]

theorem GTerm.subst_of_not_mem (v : Var) (s : GTerm) (t : GTerm) (h : v ∉ t.vars) : t.subst v s = t := by
  obtain ⟨vn, vs⟩ := v
  cases t with
  | inf | sup | fc _ => rfl
  | var y =>
    simp only [GTerm.vars, List.mem_singleton, Var.mk.injEq, not_and] at h
    simp only [GTerm.subst]
    split
    · rename_i hc; exact absurd hc.2 (h hc.1)
    · rfl
  | int it =>
    simp only [GTerm.subst]
    split
    · rename_i hs
      have hs' : vs = _ := hs
      subst hs'
      cases s with
      | int si => simp only [GTerm.vars] at h; simp only [ITerm.subst_of_not_mem vn si it h]
      | _ => rfl
    · rfl
  | symb st =>
    simp only [GTerm.subst]
    split
    · rename_i hs
      have hs' : vs = _ := hs
      subst hs'
      cases s with
      | symb ss =>
        cases st with
        | var y =>
          simp only [GTerm.vars, STerm.vars, List.mem_singleton, Var.mk.injEq, and_true] at h
          simp [STerm.subst, h]
        | sym _ | fc _ => rfl
      | _ => rfl
    · rfl

theorem toTerm_subst_self (v : Var) (s : GTerm) (hc : SortCompatible v s) : v.toTerm.subst v s = s := by
  obtain ⟨vn, vs⟩ := v
  cases vs with
  | general => simp [Var.toTerm, GTerm.subst]
  | integer =>
    obtain ⟨si, rfl⟩ := hc.1 rfl
    simp [Var.toTerm, GTerm.subst, ITerm.subst]
  | symbol =>
    obtain ⟨ss, rfl⟩ := hc.2 rfl
    simp [Var.toTerm, GTerm.subst, STerm.subst]

theorem eqLinks_subst_le (v : Var) (s : GTerm) : ∀ (gs : List Guard) (t : GTerm),
    eqLinks (t.subst v s) (gs.map fun g => ⟨g.rel, g.term.subst v s⟩) ≤ eqLinks t gs
  | [], _ => Nat.le_refl _
  | g :: gs, t => by
    have ih := eqLinks_subst_le v s gs g.term
    simp only [List.map_cons, eqLinks]
    have : (if g.rel = .eq ∧ t.subst v s ≠ g.term.subst v s then 1 else 0) ≤
        (if g.rel = .eq ∧ t ≠ g.term then 1 else 0) := by
      split
      · rename_i h
        have : g.rel = .eq ∧ t ≠ g.term := ⟨h.1, fun e => h.2 (by rw [e])⟩
        simp [this]
      · exact Nat.zero_le _
    omega

/-- strict: some equality link with different sides gets equal sides -/
theorem eqLinks_subst_lt (v : Var) (s : GTerm) : ∀ (gs : List Guard) (t : GTerm),
    (∃ p ∈ individuals t gs, p.2.1 = .eq ∧ p.1 ≠ p.2.2 ∧ p.1.subst v s = p.2.2.subst v s) →
    eqLinks (t.subst v s) (gs.map fun g => ⟨g.rel, g.term.subst v s⟩) < eqLinks t gs
  | [], _, h => by obtain ⟨p, hp, _⟩ := h; simp [individuals] at hp
  | g :: gs, t, h => by
    obtain ⟨p, hp, h1, h2, h3⟩ := h
    simp only [individuals, List.mem_cons] at hp
    simp only [List.map_cons, eqLinks]
    rcases hp with rfl | hp
    · have hle := eqLinks_subst_le v s gs g.term
      simp only at h1 h2 h3
      have a1 : (if g.rel = .eq ∧ t.subst v s ≠ g.term.subst v s then 1 else 0) = 0 := by
        simp [h3]
      have a2 : (if g.rel = .eq ∧ t ≠ g.term then 1 else 0) = 1 := by simp [h1, h2]
      omega
    · have ih := eqLinks_subst_lt v s gs g.term ⟨p, hp, h1, h2, h3⟩
      have : (if g.rel = .eq ∧ t.subst v s ≠ g.term.subst v s then 1 else 0) ≤
          (if g.rel = .eq ∧ t ≠ g.term then 1 else 0) := by
        split
        · rename_i h
          have : g.rel = .eq ∧ t ≠ g.term := ⟨h.1, fun e => h.2 (by rw [e])⟩
          simp [this]
        · exact Nat.zero_le _
      omega

theorem AtomicF.subst_pw (a : AtomicF) (v : Var) (s : GTerm) : (a.subst v s).pw = a.pw := by
  cases a <;> simp [AtomicF.subst, AtomicF.pw]

theorem AtomicF.subst_ew_le (a : AtomicF) (v : Var) (s : GTerm) : (a.subst v s).ew ≤ a.ew := by
  cases a with
  | cmp t gs => exact eqLinks_subst_le v s gs t
  | _ => simp [AtomicF.subst, AtomicF.ew]

/-- what a substitution function does to the measure -/
def SubM (sub : Formula → Var → GTerm → Formula) : Prop :=
  ∀ f v s, (sub f v s).pw ≤ f.pw ∧ (sub f v s).ew ≤ f.ew ∧ (sub f v s).gw = f.gw ∧ (sub f v s).bw = f.bw

theorem renameLoop_measure {sub : Formula → Var → GTerm → Formula} (hs : SubM sub) (tv : List Var) :
    ∀ (xs : List Var) (body : Formula) (taken : List Var),
      (renameLoop sub tv xs body taken).1.pw ≤ body.pw ∧ (renameLoop sub tv xs body taken).1.ew ≤ body.ew ∧
      (renameLoop sub tv xs body taken).1.gw = body.gw ∧ (renameLoop sub tv xs body taken).1.bw = body.bw ∧
      (renameLoop sub tv xs body taken).2.length = xs.length ∧
      countGeneral (renameLoop sub tv xs body taken).2 = countGeneral xs := by
  intro xs
  induction xs with
  | nil => intro body taken; simp [renameLoop]
  | cons x xs ih =>
    intro body taken
    simp only [renameLoop]
    split
    · dsimp only
      obtain ⟨h1, h2, h3, h4⟩ := hs body x (freshVar x taken).toTerm
      obtain ⟨i1, i2, i3, i4, i5, i6⟩ := ih (sub body x (freshVar x taken).toTerm) (ins taken (freshVar x taken))
      refine ⟨by omega, by omega, by omega, by omega, by simp [i5], ?_⟩
      simp only [countGeneral, List.filter_cons, freshVar_sort] at i6 ⊢
      split <;> simp [i6]
    · dsimp only
      obtain ⟨i1, i2, i3, i4, i5, i6⟩ := ih body taken
      refine ⟨i1, i2, i3, i4, by simp [i5], ?_⟩
      simp only [countGeneral, List.filter_cons] at i6 ⊢
      split <;> simp [i6]

theorem substFuel_measure : ∀ n, SubM (Formula.substFuel n) := by
  intro n
  induction n with
  | zero =>
    intro f v s
    cases f with
    | atomic a => simp only [Formula.substFuel, Formula.pw, Formula.ew, Formula.gw, Formula.bw, a.subst_pw, Nat.le_refl, true_and, and_true]; exact a.subst_ew_le v s
    | not _ | bin _ _ _ | quant _ _ _ => simp [Formula.substFuel]
  | succ n ih =>
    intro f v s
    cases f with
    | atomic a => simp only [Formula.substFuel, Formula.pw, Formula.ew, Formula.gw, Formula.bw, a.subst_pw, Nat.le_refl, true_and, and_true]; exact a.subst_ew_le v s
    | not g =>
      obtain ⟨h1, h2, h3, h4⟩ := ih g v s
      simp only [Formula.substFuel, Formula.pw, Formula.ew, Formula.gw, Formula.bw]
      omega
    | bin c l r =>
      obtain ⟨h1, h2, h3, h4⟩ := ih l v s
      obtain ⟨k1, k2, k3, k4⟩ := ih r v s
      simp only [Formula.substFuel, Formula.pw, Formula.ew, Formula.gw, Formula.bw]
      have := Nat.mul_le_mul h1 k1
      omega
    | quant q vs g =>
      simp only [Formula.substFuel]
      split
      · simp
      · obtain ⟨r1, r2, r3, r4, r5, r6⟩ := renameLoop_measure ih s.vars vs g (ins (ext (ext g.fv s.vars) vs) v)
        obtain ⟨h1, h2, h3, h4⟩ := ih (renameLoop (Formula.substFuel n) s.vars vs g (ins (ext (ext g.fv s.vars) vs) v)).1 v s
        have q1 := quantify_pw_le (Formula.substFuel n (renameLoop (Formula.substFuel n) s.vars vs g (ins (ext (ext g.fv s.vars) vs) v)).1 v s) q
          (renameLoop (Formula.substFuel n) s.vars vs g (ins (ext (ext g.fv s.vars) vs) v)).2
        rw [quantify_ew, quantify_gw, quantify_bw]
        simp only [Formula.pw, Formula.ew, Formula.gw, Formula.bw]
        omega

theorem subst_measure (f : Formula) (v : Var) (s : GTerm) :
    (f.subst v s).pw ≤ f.pw ∧ (f.subst v s).ew ≤ f.ew ∧ (f.subst v s).gw = f.gw ∧ (f.subst v s).bw = f.bw :=
  substFuel_measure _ f v s

/-! ### remove_double_negation, extend_quantifier_scope -/

theorem removeDoubleNegation_le4 (F : Formula) : Le4 (removeDoubleNegation F) F := by
  unfold removeDoubleNegation
  split
  · exact Or.inr (Lt4.of_pw (by simp only [Formula.pw]; omega))
  · exact Or.inl rfl

theorem extendQuantifierScope_le4 (F : Formula) : Le4 (extendQuantifierScope F) F := by
  unfold extendQuantifierScope
  split
  · rename_i c q vs f rhs
    split
    · rename_i hc
      split
      · exact Or.inl rfl
      · refine Or.inr (Lt4.of_pw ?_)
        have := rhs.pw_ge
        have hoff : c.off = 0 := by rcases hc with rfl | rfl <;> rfl
        simp only [Formula.pw, hoff, Nat.add_mul, Nat.one_mul]
        omega
    · exact Or.inl rfl
  · rename_i c lhs q vs f _
    split
    · rename_i hc
      split
      · exact Or.inl rfl
      · refine Or.inr (Lt4.of_pw ?_)
        have := lhs.pw_ge
        have hoff : c.off = 0 := by rcases hc with rfl | rfl <;> rfl
        simp only [Formula.pw, hoff, Nat.mul_add, Nat.mul_one]
        omega
    · exact Or.inl rfl
  · exact Or.inl rfl

/-! ### substitute_defined_variables -/

theorem toTerm_vars_self (v : Var) : v ∈ v.toTerm.vars := by rw [toTerm_vars]; exact List.mem_singleton.mpr rfl

/-- substituting the definition found for `v` removes at least one equality link with different
    sides (at every fuel that reaches the conjuncts) -/
theorem findDefinition_strict (v : Var) (d : GTerm) : ∀ (b : Formula) (n : Nat), b.depth ≤ n →
    findDefinition v b = some d → (Formula.substFuel n b v d).ew < b.ew := by
  intro b
  induction b with
  | atomic a =>
    intro n _ h
    cases a with
    | tru | fls | atom _ => simp [findDefinition] at h
    | cmp t gs =>
      simp only [findDefinition] at h
      obtain ⟨⟨x, term⟩, hmem, hcand⟩ := List.exists_of_findSome?_eq_some h
      obtain ⟨rfl, rfl, hcompat, hnot⟩ := definitionCandidate_some hcand
      simp only [List.mem_flatMap, List.mem_filterMap] at hmem
      obtain ⟨⟨l, r⟩, ⟨⟨l', rel, r'⟩, hind, hsome⟩, hsw⟩ := hmem
      have hne : v.toTerm ≠ d := fun e => hnot (e ▸ toTerm_vars_self v)
      have hsub1 : v.toTerm.subst v d = d := toTerm_subst_self v d hcompat
      have hsub2 : d.subst v d = d := GTerm.subst_of_not_mem v d d hnot
      split at hsome
      · rename_i hrel
        injection hsome with hsome
        injection hsome with e1 e2
        subst e1; subst e2
        simp only [List.mem_cons, Prod.mk.injEq, List.mem_nil_iff, or_false] at hsw
        have : (Formula.substFuel n (.atomic (.cmp t gs)) v d) = .atomic ((AtomicF.cmp t gs).subst v d) := by
          cases n <;> rfl
        rw [this]
        simp only [Formula.ew, AtomicF.subst, AtomicF.ew]
        refine eqLinks_subst_lt v d gs t ⟨(l', rel, r'), hind, hrel, ?_, ?_⟩
        · rcases hsw with ⟨rfl, rfl⟩ | ⟨rfl, rfl⟩
          · exact hne
          · exact fun e => hne e.symm
        · rcases hsw with ⟨rfl, rfl⟩ | ⟨rfl, rfl⟩
          · simp only [hsub1, hsub2]
          · simp only [hsub1, hsub2]
      · cases hsome
  | not f _ => intro n _ h; simp [findDefinition] at h
  | quant q vs f _ => intro n _ h; simp [findDefinition] at h
  | bin c l r ihl ihr =>
    intro n hn h
    cases c with
    | and =>
      simp only [Formula.depth] at hn
      obtain ⟨m, rfl⟩ : ∃ m, n = m + 1 := ⟨n - 1, by omega⟩
      simp only [findDefinition] at h
      simp only [Formula.substFuel, Formula.ew]
      have ml := (substFuel_measure m l v d).2.1
      have mr := (substFuel_measure m r v d).2.1
      cases hl : findDefinition v l with
      | some d' =>
        simp only [hl, Option.orElse] at h
        injection h with h; subst h
        have := ihl m (by omega) hl
        omega
      | none =>
        simp only [hl, Option.orElse] at h
        have := ihr m (by omega) h
        omega
    | or | imp | rimp | iff => simp [findDefinition] at h

theorem substituteDefinedVariables_le4 (F : Formula) : Le4 (substituteDefinedVariables F) F := by
  unfold substituteDefinedVariables
  split
  · rename_i vs f
    have hs : ∀ (l : List Var) (b : Formula),
        let b' := l.foldl definedStep b
        b'.pw ≤ b.pw ∧ b'.ew ≤ b.ew ∧ b'.gw = b.gw ∧ b'.bw = b.bw ∧ (b' = b ∨ b'.ew < b.ew) := by
      intro l
      induction l with
      | nil => intro b; simp
      | cons x l ih =>
        intro b
        simp only [List.foldl_cons]
        cases hd : findDefinition x b with
        | none =>
          have e : definedStep b x = b := by simp only [definedStep, hd]
          rw [e]; exact ih b
        | some d =>
          have e : definedStep b x = b.subst x d := by simp only [definedStep, hd]
          rw [e]
          obtain ⟨i1, i2, i3, i4, _⟩ := ih (b.subst x d)
          obtain ⟨s1, s2, s3, s4⟩ := subst_measure b x d
          have hst : (b.subst x d).ew < b.ew := findDefinition_strict x d b (b.depth + 1) (by omega) hd
          exact ⟨by omega, by omega, by omega, by omega, Or.inr (by omega)⟩
    obtain ⟨h1, h2, h3, h4, h5⟩ := hs vs.reverse f
    try dsimp only at h1 h2 h3 h4 h5
    dsimp only
    unfold Formula.quantify
    split
    · exact Or.inr (Lt4.of_pw (by simp only [Formula.pw]; omega))
    · rcases h5 with e | hlt
      · left; rw [e]
      · exact Or.inr (Lt4.of_le_lt (by simp only [Formula.pw]; omega) (by simp only [Formula.ew]; omega))
  · exact Or.inl rfl

/-! ### restrict_quantifier_domain -/

theorem countGeneral_append (a b : List Var) : countGeneral (a ++ b) = countGeneral a + countGeneral b := by
  simp [countGeneral, List.filter_append]

theorem countGeneral_filter_ne_lt {Z : Var} (hZ : Z.sort = .general) : ∀ {vs : List Var}, Z ∈ vs →
    countGeneral (vs.filter (· ≠ Z)) < countGeneral vs := by
  intro vs
  induction vs with
  | nil => intro h; cases h
  | cons v vs ih =>
    intro h
    by_cases e : v = Z
    · subst e
      have h1 := (filter_shrinks (fun x => decide (x ≠ v)) vs).1
      have e1 : (v :: vs).filter (· ≠ v) = vs.filter (· ≠ v) := by simp
      have e2 : countGeneral (v :: vs) = countGeneral vs + 1 := by simp [countGeneral, hZ]
      rw [e1, e2]
      exact Nat.lt_succ_of_le h1
    · have hm : Z ∈ vs := by
        rcases List.mem_cons.mp h with h | h
        · exact absurd h.symm e
        · exact h
      have ih' := ih hm
      have e1 : (v :: vs).filter (· ≠ Z) = v :: vs.filter (· ≠ Z) := by simp [e]
      rw [e1]
      by_cases hg : v.sort = .general
      · have a1 : ∀ l : List Var, countGeneral (v :: l) = countGeneral l + 1 := fun l => by simp [countGeneral, hg]
        rw [a1, a1]; omega
      · have a1 : ∀ l : List Var, countGeneral (v :: l) = countGeneral l := fun l => by simp [countGeneral, hg]
        rw [a1, a1]; exact ih'

theorem replacementApply_lt4 (q : Quant) (outer : List Var) (f : Formula) (I Z : Var)
    (hZ : Z.sort = .general) (hZo : Z ∈ outer) :
    Lt4 (replacementApply I Z (.quant q outer f)) (.quant q outer f) := by
  simp only [replacementApply]
  obtain ⟨s1, s2, s3, s4⟩ := subst_measure f Z
    (.int (.var ((chooseFresh ((Formula.quant q outer f).vars.map (·.name))
      (String.ofList (I.name.toList.take 1)) 1).headD (String.ofList (I.name.toList.take 1)))))
  have hc := countGeneral_filter_ne_lt hZ hZo
  refine Lt4.of_le_le_lt (by simp only [Formula.pw]; omega) (by simp only [Formula.ew]; omega) ?_
  simp only [Formula.gw, countGeneral_append]
  have : countGeneral [(⟨(chooseFresh ((Formula.quant q outer f).vars.map (·.name))
      (String.ofList (I.name.toList.take 1)) 1).headD (String.ofList (I.name.toList.take 1)), Srt.integer⟩ : Var)] = 0 := by
    simp [countGeneral]
  omega

theorem restrictQuantifierDomain_le4 (F : Formula) : Le4 (restrictQuantifierDomain F) F := by
  unfold restrictQuantifierDomain
  split
  · rename_i outer l r
    cases hs : restrictExistsSearch outer (conjoinInvert l ++ conjoinInvert r) with
    | none => simp only [hs]; exact Or.inl rfl
    | some res =>
      obtain ⟨Z, I⟩ := res
      simp only [hs]
      obtain ⟨inner, innerF, ict, t, gs, _, _, _, hfirst⟩ := restrictExistsSearch_some hs
      obtain ⟨hZo, _, hZ, _, _, _⟩ := firstReplacement_some hfirst
      exact Or.inr (replacementApply_lt4 .ex outer _ I Z hZ hZo)
  · rename_i outer inner innerF rhs
    try dsimp only
    split
    · rename_i Z I hhit
      obtain ⟨ct, _, h1⟩ := List.exists_of_findSome?_eq_some hhit
      split at h1
      · split at h1
        · obtain ⟨hZo, _, hZ, _, _, _⟩ := firstReplacement_some h1
          exact Or.inr (replacementApply_lt4 .all outer _ I Z hZ hZo)
        · cases h1
      · cases h1
    · exact Or.inl rfl
  · exact Or.inl rfl

/-! ### simplify_transitive_equality -/

theorem prodPw_append (a b : List Formula) : prodPw (a ++ b) = prodPw a * prodPw b := by
  induction a with
  | nil => simp [prodPw]
  | cons x a ih => simp only [List.cons_append, prodPw, ih, Nat.mul_assoc]

theorem prodPw_conjoinInvert : ∀ f : Formula, prodPw (conjoinInvert f) = f.pw := by
  intro f
  induction f with
  | bin c l r ihl ihr =>
    cases c with
    | and => simp only [conjoinInvert, prodPw_append, ihl, ihr, Formula.pw, Conn.off, Nat.add_zero]
    | or | imp | rimp | iff => simp [conjoinInvert, prodPw]
  | atomic _ | not _ _ | quant _ _ _ _ => simp [conjoinInvert, prodPw]

theorem prodPw_ge_pow : ∀ l : List Formula, 2 ^ l.length ≤ prodPw l
  | [] => by simp [prodPw]
  | f :: fs => by
    have := prodPw_ge_pow fs
    have h := f.pw_ge
    simp only [List.length_cons, Nat.pow_succ, prodPw]
    calc 2 ^ fs.length * 2 = 2 * 2 ^ fs.length := Nat.mul_comm _ _
      _ ≤ f.pw * prodPw fs := Nat.mul_le_mul h this

theorem prodPw_eraseIdx : ∀ (l : List Formula) (j : Nat), j < l.length → 2 * prodPw (l.eraseIdx j) ≤ prodPw l
  | [], _, h => by simp at h
  | f :: fs, 0, _ => by
    have h := f.pw_ge
    simp only [List.eraseIdx_cons_zero, prodPw]
    exact Nat.mul_le_mul_right _ h
  | f :: fs, j + 1, h => by
    have := prodPw_eraseIdx fs j (by simpa using h)
    simp only [List.eraseIdx_cons_succ, prodPw]
    calc 2 * (f.pw * prodPw (fs.eraseIdx j)) = f.pw * (2 * prodPw (fs.eraseIdx j)) := by
          rw [← Nat.mul_assoc, Nat.mul_comm 2, Nat.mul_assoc]
      _ ≤ f.pw * prodPw fs := Nat.mul_le_mul_left _ this

theorem prodPw_filter_le (p : Formula → Bool) : ∀ l : List Formula, prodPw (l.filter p) ≤ prodPw l
  | [] => Nat.le_refl _
  | f :: fs => by
    have ih := prodPw_filter_le p fs
    have h := f.pw_ge
    simp only [List.filter_cons]
    split
    · simp only [prodPw]; exact Nat.mul_le_mul_left _ ih
    · simp only [prodPw]
      calc prodPw (fs.filter p) ≤ prodPw fs := ih
        _ = 1 * prodPw fs := (Nat.one_mul _).symm
        _ ≤ f.pw * prodPw fs := Nat.mul_le_mul_right _ (by omega)

theorem prodPw_filter_drop (p : Formula → Bool) : ∀ (l : List Formula) (x : Formula), x ∈ l → p x = false →
    2 * prodPw (l.filter p) ≤ prodPw l
  | [], _, h, _ => by cases h
  | f :: fs, x, hx, hp => by
    have hf := f.pw_ge
    by_cases e : p f = true
    · have hm : x ∈ fs := by
        rcases List.mem_cons.mp hx with h | h
        · subst h; rw [hp] at e; cases e
        · exact h
      have ih := prodPw_filter_drop p fs x hm hp
      simp only [List.filter_cons, e, if_true, prodPw]
      calc 2 * (f.pw * prodPw (fs.filter p)) = f.pw * (2 * prodPw (fs.filter p)) := by
            rw [← Nat.mul_assoc, Nat.mul_comm 2, Nat.mul_assoc]
        _ ≤ f.pw * prodPw fs := Nat.mul_le_mul_left _ ih
    · have e' : p f = false := by simpa using e
      simp only [List.filter_cons, e', Bool.false_eq_true, if_false, prodPw]
      exact Nat.mul_le_mul hf (prodPw_filter_le p fs)

theorem conjoin_pw_lt {rest : List Formula} {N : Nat} (h2 : 2 * prodPw rest ≤ N) (h4 : 4 ≤ N) :
    (conjoin rest).pw < N := by
  cases rest with
  | nil => simp only [conjoin, Formula.tru, Formula.pw, AtomicF.pw]; omega
  | cons x xs =>
    rw [conjoin_pw_cons]
    have := prodPw_pos (x :: xs)
    omega

theorem simplifyTransitiveEquality_le4 (F : Formula) : Le4 (simplifyTransitiveEquality F) F := by
  unfold simplifyTransitiveEquality
  split
  · rename_i vars l r
    cases hs : transitiveSearch (conjoinInvert (.bin .and l r)) vars with
    | none => simp only [hs]; exact Or.inl rfl
    | some res =>
      obtain ⟨j, c1, c2, k, d, dt⟩ := res
      simp only [hs]
      obtain ⟨i, ct1, ct2, hij, hi, hj, e1, e2, e3⟩ := transitiveSearch_some hs
      obtain ⟨hct1, r1, hg1⟩ := asEqCmp_some e1
      obtain ⟨hct2, r2, hg2⟩ := asEqCmp_some e2
      obtain ⟨l1, g1⟩ := c1
      obtain ⟨l2, g2⟩ := c2
      simp only at hg1 hg2 hct1 hct2
      subst hg1; subst hg2
      obtain ⟨_, _, _, kc, t, hkd, _⟩ := transitiveEquality_some e3
      have hlen : 2 ≤ (conjoinInvert (Formula.bin .and l r)).length := by
        have h1 := (List.getElem?_eq_some_iff.mp hi).1
        have h2 := (List.getElem?_eq_some_iff.mp hj).1
        omega
      have hN : 4 ≤ prodPw (conjoinInvert (Formula.bin .and l r)) := by
        have := prodPw_ge_pow (conjoinInvert (Formula.bin .and l r))
        have h4 : 2 ^ 2 ≤ 2 ^ (conjoinInvert (Formula.bin .and l r)).length :=
          Nat.pow_le_pow_right (by omega) hlen
        omega
      have hdrop : Formula.atomic (.cmp dt.1 dt.2) ∈ conjoinInvert (Formula.bin .and l r) := by
        rcases hkd with ⟨_, rfl⟩ | ⟨_, rfl⟩
        · rw [← hct2]; exact List.mem_of_getElem? hj
        · rw [← hct1]; exact List.mem_of_getElem? hi
      refine Or.inr (Lt4.of_pw (Nat.succ_lt_succ ?_))
      rw [← prodPw_conjoinInvert (Formula.bin .and l r)]
      refine Nat.lt_of_le_of_lt (subst_measure _ _ _).1 ?_
      split
      · exact conjoin_pw_lt (prodPw_eraseIdx _ j (List.getElem?_eq_some_iff.mp hj).1) hN
      · exact conjoin_pw_lt (prodPw_filter_drop _ _ _ hdrop (by simp)) hN
  · exact Or.inl rfl

/-! ### the portfolios -/

theorem classic_le4 : ∀ f ∈ classic, ∀ F, Le4 (f F) F := by
  intro f hf
  simp only [classic, List.mem_cons, List.mem_nil_iff, or_false] at hf
  rcases hf with rfl | rfl | rfl | rfl | rfl
  · exact removeDoubleNegation_le4
  · exact substituteDefinedVariables_le4
  · exact restrictQuantifierDomain_le4
  · exact extendQuantifierScope_le4
  · exact simplifyTransitiveEquality_le4

theorem portfolio_le4 (p : Portfolio) : ∀ f ∈ p.rewrites, ∀ F, Le4 (f F) F := by
  intro f hf
  cases p with
  | intuitionistic => exact intuitionistic_le4 f hf
  | ht =>
    simp only [Portfolio.rewrites, htPortfolio, List.append_nil] at hf
    exact intuitionistic_le4 f hf
  | classic =>
    simp only [Portfolio.rewrites, htPortfolio, List.append_nil, List.mem_append] at hf
    rcases hf with hf | hf
    · exact intuitionistic_le4 f hf
    · exact classic_le4 f hf

end Anthem
