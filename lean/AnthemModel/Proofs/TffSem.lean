/-
  C06: the TFF tree of a formula prints to exactly the text model (`print_tr`) and has, in the
  standard structure, exactly the formula's classical meaning (`tr_sem`).
-/
import AnthemModel.Semantics.Tff
import AnthemModel.Proofs.Agree
namespace Anthem

/-! ## printing the translation gives the text model -/

theorem toString_toNat {n : Int} (h : ¬ n < 0) : toString n.toNat = toString n := by
  cases n with
  | ofNat m => rfl
  | negSucc m => exact absurd (Int.negSucc_lt_zero m) h

theorem trI_print (t : ITerm) : (trI t).print = tptpI t := by
  induction t with
  | num n =>
    by_cases h : n < 0
    · simp [trI, tptpI, TInt.print, h]
    · simp [trI, tptpI, TInt.print, h, toString_toNat h]
  | var v => rfl
  | fc c => rfl
  | neg t ih => simp [trI, tptpI, TInt.print, ih]
  | bin op l r ihl ihr => cases op <;> simp [trI, tptpI, TInt.print, ihl, ihr]

theorem trS_print (t : STerm) : (trS t).print = tptpS t := by
  cases t <;> rfl

theorem trG_print (t : GTerm) : (trG t).print = tptpG t := by
  cases t <;> simp [trG, tptpG, TGen.print, trI_print, trS_print]

theorem trIndividual_print (l : GTerm) (r : Rel) (rhs : GTerm) :
    (trIndividual l r rhs).print = tptpIndividual l r rhs := by
  cases l <;> cases rhs <;> by_cases h : r = .eq ∨ r = .ne <;>
    simp [trIndividual, tptpIndividual, TAtom.print, trG_print, trI_print, trS_print, h]

theorem individuals_length (t : GTerm) (gs : List Guard) : (individuals t gs).length = gs.length := by
  induction gs generalizing t with
  | nil => rfl
  | cons g gs ih => simp [individuals, ih]

theorem trAtomic_print (a : AtomicF) :
    " & ".intercalate ((trAtomic a).map TAtom.print) = tptpAtomic a := by
  cases a with
  | tru => rfl
  | fls => rfl
  | atom a =>
    simp only [trAtomic, List.map_cons, List.map_nil, tptpAtomic, tptpAtom, TAtom.print, List.map_map]
    have : (TGen.print ∘ trG) = tptpG := funext trG_print
    rw [String.intercalate_singleton, this]
    simp
  | cmp t gs =>
    simp only [trAtomic, tptpAtomic, List.map_map]
    congr 1
    apply List.map_congr_left
    intro ⟨l, r, rhs⟩ _
    exact trIndividual_print l r rhs

theorem tr_mandatory (F : Formula) : (tr F).mandatory = tptpMandatory F := by
  cases F with
  | atomic a =>
    cases a <;> simp [tr, trAtomic, TForm.mandatory, tptpMandatory, individuals_length]
  | not _ | bin _ _ _ | quant _ _ _ => rfl

theorem tr_prec (F : Formula) : (tr F).prec = tptpPrec F := by
  cases F <;> rfl

/-- printing the TFF tree of a formula is the text model of the Rust printer -/
theorem print_tr (F : Formula) : (tr F).print = tptpFormula F := by
  induction F with
  | atomic a => simp only [tr, TForm.print, tptpFormula]; exact trAtomic_print a
  | not f ih => simp only [tr, TForm.print, tptpFormula, ih, tr_mandatory, tr_prec]
  | bin c l r ihl ihr => simp only [tr, TForm.print, tptpFormula, ihl, ihr, tr_mandatory, tr_prec]
  | quant q vs f ih => simp only [tr, TForm.print, tptpFormula, ih]

/-! ## meaning in the standard structure -/

theorem trI_eval (I : Interp) (ρ : Asg) (t : ITerm) :
    (trI t).eval (stdStruct I) (stdAsg I ρ) = t.eval I.fc ρ := by
  induction t with
  | num n =>
    by_cases h : n < 0
    · simp only [trI, h, if_true, TInt.eval, ITerm.eval]; omega
    · simp only [trI, h, if_false, TInt.eval, ITerm.eval]; omega
  | var v => rfl
  | fc c => rfl
  | neg t ih => simp [trI, TInt.eval, ITerm.eval, ih]
  | bin op l r ihl ihr => simp [trI, TInt.eval, ITerm.eval, ihl, ihr]

theorem trS_eval (I : Interp) (ρ : Asg) (t : STerm) :
    (trS t).eval (stdStruct I) (stdAsg I ρ) = t.eval I.fc ρ := by
  cases t <;> rfl

theorem trG_eval (I : Interp) (ρ : Asg) (t : GTerm) :
    (trG t).eval (stdStruct I) (stdAsg I ρ) = t.eval I.fc ρ := by
  cases t with
  | inf | sup | fc _ | var _ => rfl
  | int t => simp only [trG, TGen.eval, GTerm.eval, trI_eval]; rfl
  | symb t => simp only [trG, TGen.eval, GTerm.eval, trS_eval]; rfl

theorem holds_num (r : Rel) (a b : Int) : r.holds (.num a) (.num b) ↔ r.holdsInt a b := by
  cases r <;> simp [Rel.holds, Rel.holdsInt, Dom.lt, Dom.le]

theorem relG_std (I : Interp) (θ : TAsg (stdStruct I)) (r : Rel) (l rr : TGen) :
    (TAtom.relG r l rr).sat (stdStruct I) θ ↔ r.holds (l.eval (stdStruct I) θ) (rr.eval (stdStruct I) θ) := by
  cases r <;> simp [TAtom.sat, Rel.holds, stdStruct]

theorem trIndividual_sat (I : Interp) (ρ : Asg) (l : GTerm) (r : Rel) (rhs : GTerm) :
    (trIndividual l r rhs).sat (stdStruct I) (stdAsg I ρ) ↔ r.holds (l.eval I.fc ρ) (rhs.eval I.fc ρ) := by
  have hG : ∀ (a b : GTerm), (TAtom.relG r (trG a) (trG b)).sat (stdStruct I) (stdAsg I ρ) ↔
      r.holds (a.eval I.fc ρ) (b.eval I.fc ρ) := by
    intro a b; rw [relG_std, trG_eval, trG_eval]
  cases l with
  | int a =>
    cases rhs with
    | int b =>
      simp only [trIndividual, TAtom.sat, trI_eval, GTerm.eval]
      exact (holds_num r _ _).symm
    | inf | sup | fc _ | var _ | symb _ => exact hG _ _
  | symb a =>
    cases rhs with
    | symb b =>
      simp only [trIndividual]
      split
      · rename_i h
        have e1 := trS_eval I ρ a
        have e2 := trS_eval I ρ b
        rcases h with rfl | rfl
        · simp only [TAtom.sat, GTerm.eval, Rel.holds]
          rw [e1, e2]
          exact ⟨fun h => by rw [h], fun h => by injection h⟩
        · simp only [TAtom.sat, GTerm.eval, Rel.holds]
          rw [e1, e2]
          exact ⟨fun h e => h (by injection e), fun h e => h (by rw [e])⟩
      · exact hG _ _
    | inf | sup | fc _ | var _ | int _ => exact hG _ _
  | inf | sup | fc _ | var _ => exact hG _ _

theorem chain_sat (I : Interp) (ρ : Asg) : ∀ (gs : List Guard) (t : GTerm),
    (∀ a ∈ (individuals t gs).map (fun (p : GTerm × Rel × GTerm) => trIndividual p.1 p.2.1 p.2.2),
        a.sat (stdStruct I) (stdAsg I ρ)) ↔
      cmpChain I.fc ρ (t.eval I.fc ρ) gs := by
  intro gs
  induction gs with
  | nil => intro t; simp [individuals, cmpChain]
  | cons g gs ih =>
    intro t
    simp only [individuals, List.map_cons, List.forall_mem_cons, cmpChain]
    rw [ih g.term, trIndividual_sat]

theorem trAtomic_sat (I : Interp) (ρ : Asg) (a : AtomicF) :
    (∀ x ∈ trAtomic a, x.sat (stdStruct I) (stdAsg I ρ)) ↔ a.sat I.pred I.fc ρ := by
  cases a with
  | tru => simp [trAtomic, TAtom.sat, AtomicF.sat]
  | fls => simp [trAtomic, TAtom.sat, AtomicF.sat]
  | atom a =>
    simp only [trAtomic, List.forall_mem_cons, List.not_mem_nil, false_imp_iff, implies_true,
      and_true, TAtom.sat, AtomicF.sat, List.map_map]
    have : (TGen.eval (stdStruct I) (stdAsg I ρ) ∘ trG) = GTerm.eval I.fc ρ := funext (trG_eval I ρ)
    rw [this]; rfl
  | cmp t gs => exact chain_sat I ρ gs t

/-- typed and untyped binding agree -/
theorem stdAsg_set_general (I : Interp) (ρ : Asg) (x : String) (d : Dom) :
    stdAsg I (ρ.set ⟨x, .general⟩ d) = (stdAsg I ρ).setG x d := by
  unfold stdAsg TAsg.setG
  congr 1
  · funext y; by_cases h : y = x <;> simp [Asg.set, h]
  · funext y; simp [Asg.set]
  · funext y; simp [Asg.set]

theorem stdAsg_set_integer (I : Interp) (ρ : Asg) (x : String) (n : Int) :
    stdAsg I (ρ.set ⟨x, .integer⟩ (.num n)) = (stdAsg I ρ).setI x n := by
  unfold stdAsg TAsg.setI
  congr 1
  · funext y; simp [Asg.set]
  · funext y; by_cases h : y = x <;> simp [Asg.set, h, Dom.toInt]
  · funext y; simp [Asg.set]

theorem stdAsg_set_symbol (I : Interp) (ρ : Asg) (x : String) (s : String) :
    stdAsg I (ρ.set ⟨x, .symbol⟩ (.sym s)) = (stdAsg I ρ).setS x s := by
  unfold stdAsg TAsg.setS
  congr 1
  · funext y; simp [Asg.set]
  · funext y; simp [Asg.set]
  · funext y; by_cases h : y = x <;> simp [Asg.set, h, Dom.toStr]

theorem tbindAll_std (I : Interp) (vs : List Var) (P : Asg → Prop) (Q : TAsg (stdStruct I) → Prop)
    (h : ∀ ρ, Q (stdAsg I ρ) ↔ P ρ) : ∀ ρ, tbindAll (stdStruct I) vs Q (stdAsg I ρ) ↔ bindAll vs P ρ := by
  induction vs with
  | nil => exact h
  | cons v vs ih =>
    intro ρ
    obtain ⟨x, s⟩ := v
    cases s with
    | general =>
      simp only [tbindAll, bindAll]
      constructor
      · intro H d _
        have := H d
        rw [← stdAsg_set_general I ρ x d] at this
        exact (ih _).mp this
      · intro H (d : Dom)
        have := (ih _).mpr (H d trivial)
        rw [stdAsg_set_general I ρ x d] at this
        exact this
    | integer =>
      simp only [tbindAll, bindAll]
      constructor
      · intro H d hd
        obtain ⟨n, rfl⟩ := Dom.inSort_integer.mp hd
        have := H n
        rw [← stdAsg_set_integer I ρ x n] at this
        exact (ih _).mp this
      · intro H n
        have := (ih _).mpr (H (.num n) trivial)
        rw [stdAsg_set_integer I ρ x n] at this
        exact this
    | symbol =>
      simp only [tbindAll, bindAll]
      constructor
      · intro H d hd
        obtain ⟨n, rfl⟩ := Dom.inSort_symbol.mp hd
        have := H n
        rw [← stdAsg_set_symbol I ρ x n] at this
        exact (ih _).mp this
      · intro H (n : String)
        have := (ih _).mpr (H (.sym n) trivial)
        rw [stdAsg_set_symbol I ρ x n] at this
        exact this

theorem tbindEx_std (I : Interp) (vs : List Var) (P : Asg → Prop) (Q : TAsg (stdStruct I) → Prop)
    (h : ∀ ρ, Q (stdAsg I ρ) ↔ P ρ) : ∀ ρ, tbindEx (stdStruct I) vs Q (stdAsg I ρ) ↔ bindEx vs P ρ := by
  induction vs with
  | nil => exact h
  | cons v vs ih =>
    intro ρ
    obtain ⟨x, s⟩ := v
    cases s with
    | general =>
      simp only [tbindEx, bindEx]
      constructor
      · rintro ⟨(d : Dom), H⟩
        rw [← stdAsg_set_general I ρ x d] at H
        exact ⟨d, trivial, (ih _).mp H⟩
      · rintro ⟨d, _, H⟩
        have := (ih _).mpr H
        rw [stdAsg_set_general I ρ x d] at this
        exact ⟨d, this⟩
    | integer =>
      simp only [tbindEx, bindEx]
      constructor
      · rintro ⟨n, H⟩
        rw [← stdAsg_set_integer I ρ x n] at H
        exact ⟨.num n, trivial, (ih _).mp H⟩
      · rintro ⟨d, hd, H⟩
        obtain ⟨n, rfl⟩ := Dom.inSort_integer.mp hd
        have := (ih _).mpr H
        rw [stdAsg_set_integer I ρ x n] at this
        exact ⟨n, this⟩
    | symbol =>
      simp only [tbindEx, bindEx]
      constructor
      · rintro ⟨(n : String), H⟩
        rw [← stdAsg_set_symbol I ρ x n] at H
        exact ⟨.sym n, trivial, (ih _).mp H⟩
      · rintro ⟨d, hd, H⟩
        obtain ⟨n, rfl⟩ := Dom.inSort_symbol.mp hd
        have := (ih _).mpr H
        rw [stdAsg_set_symbol I ρ x n] at this
        exact ⟨n, this⟩

/-- **tr_sem**: in the standard structure, the TFF tree of a formula holds under the typed reading
    of an assignment exactly when the formula holds classically under that assignment. -/
theorem tr_sem (I : Interp) (F : Formula) : ∀ ρ : Asg,
    (tr F).sat (stdStruct I) (stdAsg I ρ) ↔ sat I F ρ := by
  induction F with
  | atomic a => intro ρ; simp only [tr, TForm.sat, sat]; exact trAtomic_sat I ρ a
  | not f ih => intro ρ; simp only [tr, TForm.sat, sat, ih]
  | bin c l r ihl ihr => intro ρ; cases c <;> simp only [tr, TForm.sat, sat, ihl, ihr]
  | quant q vs f ih =>
    intro ρ
    cases q with
    | all => simp only [tr, TForm.sat, sat]; exact tbindAll_std I vs _ _ ih ρ
    | ex => simp only [tr, TForm.sat, sat]; exact tbindEx_std I vs _ _ ih ρ

end Anthem
