/-
  C09: typing of the TFF trees anthem emits, against the declarations of the problem they belong to.
-/
import AnthemModel.Proofs.TffSem
import AnthemModel.Proofs.Agree
namespace Anthem

/-- what a problem declares, before identifiers are mangled: predicates (name/arity, all arguments
    of type `general`), symbolic constants (type `symbol`) and placeholders with their sort -/
structure TSig where
  preds : List Pred
  symbols : List String
  phs : List FnConst

def TInt.WT (S : TSig) (ctx : Var → Prop) : TInt → Prop
  | .num _ => True
  | .var x => ctx ⟨x, .integer⟩
  | .ph c => (⟨c, .integer⟩ : FnConst) ∈ S.phs
  | .uminus t => t.WT S ctx
  | .bin _ l r => l.WT S ctx ∧ r.WT S ctx

def TSym.WT (S : TSig) (ctx : Var → Prop) : TSym → Prop
  | .sym s => s ∈ S.symbols
  | .ph c => (⟨c, .symbol⟩ : FnConst) ∈ S.phs
  | .var x => ctx ⟨x, .symbol⟩

def TGen.WT (S : TSig) (ctx : Var → Prop) : TGen → Prop
  | .inf | .sup => True
  | .ph c => (⟨c, .general⟩ : FnConst) ∈ S.phs
  | .var x => ctx ⟨x, .general⟩
  | .ofInt t => t.WT S ctx
  | .ofSym t => t.WT S ctx

/-- an atom type-checks: predicate declared at the arity it is used at with `general` arguments;
    `$less`… take two `$int`, `=`/`!=` two terms of one sort, `p__less__`… two `general` -/
def TAtom.WT (S : TSig) (ctx : Var → Prop) : TAtom → Prop
  | .tru | .fls => True
  | .pred p args => (⟨p, args.length⟩ : Pred) ∈ S.preds ∧ ∀ t ∈ args, t.WT S ctx
  | .relI _ l r => l.WT S ctx ∧ r.WT S ctx
  | .eqS _ l r => l.WT S ctx ∧ r.WT S ctx
  | .relG _ l r => l.WT S ctx ∧ r.WT S ctx

/-- every variable occurrence is in the scope of a quantifier binding it at the sort of the occurrence -/
def TForm.WT (S : TSig) : (Var → Prop) → TForm → Prop
  | ctx, .chain as => ∀ a ∈ as, a.WT S ctx
  | ctx, .not f => f.WT S ctx
  | ctx, .bin _ l r => l.WT S ctx ∧ r.WT S ctx
  | ctx, .quant _ vs f => f.WT S (fun v => v ∈ vs ∨ ctx v)

/-- the declarations a formula needs -/
def Formula.Declared (S : TSig) (F : Formula) : Prop :=
  (∀ q ∈ F.preds, q ∈ S.preds) ∧ (∀ s ∈ F.symbols, s ∈ S.symbols) ∧ (∀ c ∈ F.fcs, c ∈ S.phs)

theorem trI_WT (S : TSig) (ctx : Var → Prop) : ∀ t : ITerm, (∀ v ∈ t.vars, ctx v) → (∀ c ∈ t.fcs, c ∈ S.phs) →
    (trI t).WT S ctx := by
  intro t
  induction t with
  | num n => intro _ _; simp only [trI]; split <;> trivial
  | var x => intro h _; exact h _ (by simp [ITerm.vars])
  | fc c => intro _ h; exact h _ (by simp [ITerm.fcs])
  | neg t ih => intro h1 h2; exact ih h1 h2
  | bin op l r ihl ihr =>
    intro h1 h2
    exact ⟨ihl (fun v hv => h1 v (by simp [ITerm.vars, mem_ext, hv])) (fun c hc => h2 c (by simp [ITerm.fcs, mem_ext, hc])),
      ihr (fun v hv => h1 v (by simp [ITerm.vars, mem_ext, hv])) (fun c hc => h2 c (by simp [ITerm.fcs, mem_ext, hc]))⟩

/-- the variables of a term are in scope and its constants are declared -/
def GTermOK (S : TSig) (ctx : Var → Prop) (t : GTerm) : Prop :=
  (∀ v ∈ t.vars, ctx v) ∧ (∀ s ∈ t.symbols, s ∈ S.symbols) ∧ (∀ c ∈ t.fcs, c ∈ S.phs)

theorem trS_WT (S : TSig) (ctx : Var → Prop) (t : STerm) (h : GTermOK S ctx (.symb t)) : (trS t).WT S ctx := by
  cases t with
  | sym s => exact h.2.1 s (by simp [GTerm.symbols])
  | fc c => exact h.2.2 _ (by simp [GTerm.fcs, STerm.fcs])
  | var x => exact h.1 _ (by simp [GTerm.vars, STerm.vars])

theorem trG_WT (S : TSig) (ctx : Var → Prop) (t : GTerm) (h : GTermOK S ctx t) : (trG t).WT S ctx := by
  cases t with
  | inf | sup => trivial
  | fc c => exact h.2.2 _ (by simp [GTerm.fcs])
  | var x => exact h.1 _ (by simp [GTerm.vars])
  | int t => exact trI_WT S ctx t h.1 h.2.2
  | symb t => exact trS_WT S ctx t h

theorem trIndividual_WT (S : TSig) (ctx : Var → Prop) (l : GTerm) (r : Rel) (rhs : GTerm)
    (hl : GTermOK S ctx l) (hr : GTermOK S ctx rhs) : (trIndividual l r rhs).WT S ctx := by
  have hG : (TAtom.relG r (trG l) (trG rhs)).WT S ctx := ⟨trG_WT S ctx l hl, trG_WT S ctx rhs hr⟩
  cases l with
  | int a =>
    cases rhs with
    | int b => exact ⟨trI_WT S ctx a hl.1 hl.2.2, trI_WT S ctx b hr.1 hr.2.2⟩
    | inf | sup | fc _ | var _ | symb _ => exact hG
  | symb a =>
    cases rhs with
    | symb b =>
      simp only [trIndividual]
      split
      · exact ⟨trS_WT S ctx a hl, trS_WT S ctx b hr⟩
      · exact hG
    | inf | sup | fc _ | var _ | int _ => exact hG
  | inf | sup | fc _ | var _ => exact hG

theorem mem_atom_lists {α} [DecidableEq α] (f : GTerm → List α) (args : List GTerm) (x : α) :
    x ∈ args.foldl (fun acc t => ext acc (f t)) [] ↔ ∃ t ∈ args, x ∈ f t := by
  rw [mem_foldl_ext]; simp

theorem mem_cmp_lists {α} [DecidableEq α] (f : GTerm → List α) (t : GTerm) (gs : List Guard) (x : α) :
    x ∈ gs.foldl (fun acc g => ext acc (f g.term)) (f t) ↔ x ∈ f t ∨ ∃ g ∈ gs, x ∈ f g.term := by
  rw [mem_foldl_ext]

theorem individuals_OK (S : TSig) (ctx : Var → Prop) : ∀ (gs : List Guard) (t : GTerm),
    GTermOK S ctx t → (∀ g ∈ gs, GTermOK S ctx g.term) →
    ∀ p ∈ individuals t gs, GTermOK S ctx p.1 ∧ GTermOK S ctx p.2.2 := by
  intro gs
  induction gs with
  | nil => intro t _ _ p hp; simp [individuals] at hp
  | cons g gs ih =>
    intro t ht hgs p hp
    simp only [individuals, List.mem_cons] at hp
    rcases hp with rfl | hp
    · exact ⟨ht, hgs g List.mem_cons_self⟩
    · exact ih g.term (hgs g List.mem_cons_self) (fun g' hg' => hgs g' (List.mem_cons_of_mem _ hg')) p hp

theorem trAtomic_WT (S : TSig) (ctx : Var → Prop) (a : AtomicF) (hv : ∀ v ∈ a.vars, ctx v)
    (hp : ∀ q ∈ a.preds, q ∈ S.preds) (hs : ∀ s ∈ a.symbols, s ∈ S.symbols) (hc : ∀ c ∈ a.fcs, c ∈ S.phs) :
    ∀ x ∈ trAtomic a, x.WT S ctx := by
  cases a with
  | tru => intro x hx; simp only [trAtomic, List.mem_singleton] at hx; subst hx; trivial
  | fls => intro x hx; simp only [trAtomic, List.mem_singleton] at hx; subst hx; trivial
  | atom a =>
    intro x hx
    simp only [trAtomic, List.mem_singleton] at hx
    subst hx
    refine ⟨?_, ?_⟩
    · rw [List.length_map]; exact hp _ (by simp [AtomicF.preds, Anthem.Atom.predicate])
    · intro t ht
      obtain ⟨t0, ht0, rfl⟩ := List.mem_map.mp ht
      exact trG_WT S ctx t0
        ⟨fun v hv' => hv v ((mem_atom_lists GTerm.vars a.args v).mpr ⟨t0, ht0, hv'⟩),
         fun s hs' => hs s ((mem_atom_lists GTerm.symbols a.args s).mpr ⟨t0, ht0, hs'⟩),
         fun c hc' => hc c ((mem_atom_lists GTerm.fcs a.args c).mpr ⟨t0, ht0, hc'⟩)⟩
  | cmp t gs =>
    intro x hx
    simp only [trAtomic, List.mem_map] at hx
    obtain ⟨p, hp', rfl⟩ := hx
    have ht : GTermOK S ctx t :=
      ⟨fun v hv' => hv v ((mem_cmp_lists GTerm.vars t gs v).mpr (Or.inl hv')),
       fun s hs' => hs s ((mem_cmp_lists GTerm.symbols t gs s).mpr (Or.inl hs')),
       fun c hc' => hc c ((mem_cmp_lists GTerm.fcs t gs c).mpr (Or.inl hc'))⟩
    have hgs : ∀ g ∈ gs, GTermOK S ctx g.term := fun g hg =>
      ⟨fun v hv' => hv v ((mem_cmp_lists GTerm.vars t gs v).mpr (Or.inr ⟨g, hg, hv'⟩)),
       fun s hs' => hs s ((mem_cmp_lists GTerm.symbols t gs s).mpr (Or.inr ⟨g, hg, hs'⟩)),
       fun c hc' => hc c ((mem_cmp_lists GTerm.fcs t gs c).mpr (Or.inr ⟨g, hg, hc'⟩))⟩
    obtain ⟨h1, h2⟩ := individuals_OK S ctx gs t ht hgs p hp'
    exact trIndividual_WT S ctx p.1 p.2.1 p.2.2 h1 h2

/-- **Typing of renderings**: the TFF tree of a formula type-checks against any declarations that
    cover the predicates, symbols and placeholders occurring in it, in any context that binds its
    free variables. -/
theorem tr_WT (S : TSig) : ∀ (F : Formula) (ctx : Var → Prop), (∀ v, F.FV v → ctx v) → F.Declared S →
    (tr F).WT S ctx := by
  intro F
  induction F with
  | atomic a =>
    intro ctx hfv hd
    exact trAtomic_WT S ctx a (fun v hv => hfv v hv) hd.1 hd.2.1 hd.2.2
  | not f ih => intro ctx hfv hd; exact ih ctx hfv hd
  | bin c l r ihl ihr =>
    intro ctx hfv hd
    exact ⟨ihl ctx (fun v hv => hfv v (Or.inl hv))
        ⟨fun q hq => hd.1 q (by simp [Formula.preds, mem_ext, hq]), fun s hs => hd.2.1 s (by simp [Formula.symbols, mem_ext, hs]),
         fun c hc => hd.2.2 c (by simp [Formula.fcs, mem_ext, hc])⟩,
      ihr ctx (fun v hv => hfv v (Or.inr hv))
        ⟨fun q hq => hd.1 q (by simp [Formula.preds, mem_ext, hq]), fun s hs => hd.2.1 s (by simp [Formula.symbols, mem_ext, hs]),
         fun c hc => hd.2.2 c (by simp [Formula.fcs, mem_ext, hc])⟩⟩
  | quant q vs f ih =>
    intro ctx hfv hd
    refine ih _ (fun v hv => ?_) hd
    by_cases hm : v ∈ vs
    · exact Or.inl hm
    · exact Or.inr (hfv v ⟨hv, hm⟩)

end Anthem
