/-
  C01 key lemma: `val t z` denotes the value set of `t` (DESIGN.md 6/C01 step 2).

  The fresh variables introduced by `val` are *integer*-sorted while the variables of a
  mini-gringo term are *general*-sorted, so the inner binders can never capture a program
  variable; the only freshness the proof needs is collected in `ValFreshOK` (the names chosen at
  one node are pairwise distinct and differ from an integer-sorted output variable).
-/
import AnthemModel.Semantics.Asp
import AnthemModel.Model.TauStar
import AnthemModel.Proofs.Agree
namespace Anthem
open Asp

/-- substitution read off an assignment: program variables are the general-sorted ones -/
def σOf (ρ : Asg) : Subst := fun x => ρ ⟨x, .general⟩

/-- integer value of the integer-sorted variable named `n` -/
def ival (ρ : Asg) (n : String) : Int := (ρ ⟨n, .integer⟩).toInt

/-- value of the output variable of `val` -/
def zval (ρ : Asg) (z : Var) : Dom :=
  match z.sort with
  | .general => ρ z
  | .integer => .num (ρ z).toInt
  | .symbol => .sym (ρ z).toStr

theorem zval_int (ρ : Asg) (n : String) : zval ρ ⟨n, .integer⟩ = .num (ival ρ n) := rfl

theorem toTerm_eval (fc : FcI) (ρ : Asg) (z : Var) : z.toTerm.eval fc ρ = zval ρ z := by
  obtain ⟨n, s⟩ := z
  cases s <;> simp [Var.toTerm, GTerm.eval, ITerm.eval, STerm.eval, zval]

theorem eval_ivar (fc : FcI) (ρ : Asg) (n : String) :
    (GTerm.int (.var n)).eval fc ρ = .num (ival ρ n) := rfl
theorem eval_inum (fc : FcI) (ρ : Asg) (k : Int) : (GTerm.int (.num k)).eval fc ρ = .num k := rfl
theorem eval_ibin (fc : FcI) (ρ : Asg) (op : IOp) (i j : String) :
    (GTerm.int (.bin op (.var i) (.var j))).eval fc ρ = .num (op.eval (ival ρ i) (ival ρ j)) := rfl
theorem eval_idiv (fc : FcI) (ρ : Asg) (j q r : String) :
    (GTerm.int (.bin .add (.bin .mul (.var j) (.var q)) (.var r))).eval fc ρ =
      .num (ival ρ j * ival ρ q + ival ρ r) := rfl

theorem ht_cmp1 (M : HTI) (w : World) (ρ : Asg) (l : GTerm) (r : Rel) (t : GTerm) :
    ht M (cmp1 l r t) w ρ ↔ r.holds (l.eval M.fc ρ) (t.eval M.fc ρ) := by
  simp [cmp1, ht, AtomicF.sat, cmpChain]

theorem preToGTerm_eval (fc : FcI) (ρ : Asg) (p : Pre) : (preToGTerm p).eval fc ρ = p.toDom := by
  cases p <;> rfl

/-! ## assignments updated on integer-sorted variables -/

def setInts (ρ : Asg) : List (String × Int) → Asg
  | [] => ρ
  | (n, a) :: rest => setInts (ρ.set ⟨n, .integer⟩ (.num a)) rest

theorem σOf_setInts (ρ : Asg) (l : List (String × Int)) : σOf (setInts ρ l) = σOf ρ := by
  induction l generalizing ρ with
  | nil => rfl
  | cons p l ih =>
    obtain ⟨n, a⟩ := p
    rw [setInts, ih]
    funext x
    exact Asg.set_other _ _ (by intro e; injection e with _ e2; cases e2)

theorem setInts_other (ρ : Asg) (l : List (String × Int)) (v : Var)
    (h : ∀ p ∈ l, v ≠ ⟨p.1, .integer⟩) : setInts ρ l v = ρ v := by
  induction l generalizing ρ with
  | nil => rfl
  | cons p l ih =>
    obtain ⟨n, a⟩ := p
    rw [setInts, ih _ (fun p hp => h p (List.mem_cons_of_mem _ hp))]
    exact Asg.set_other _ _ (h (n, a) List.mem_cons_self)

theorem zval_setInts_other (ρ : Asg) (l : List (String × Int)) (z : Var)
    (h : z.sort = .integer → ∀ p ∈ l, z.name ≠ p.1) : zval (setInts ρ l) z = zval ρ z := by
  have : setInts ρ l z = ρ z := setInts_other ρ l z (fun p hp e => by
    subst e; exact h rfl p hp rfl)
  simp only [zval, this]

theorem ival_setInts (ρ : Asg) (l : List (String × Int)) (n : String) (a : Int)
    (hn : (l.map (·.1)).Nodup) (hm : (n, a) ∈ l) : ival (setInts ρ l) n = a := by
  induction l generalizing ρ with
  | nil => cases hm
  | cons p l ih =>
    obtain ⟨m, b⟩ := p
    simp only [List.map_cons, List.nodup_cons] at hn
    rcases List.mem_cons.mp hm with e | hm'
    · injection e with e1 e2
      subst e1; subst e2
      simp only [setInts, ival]
      rw [setInts_other _ l _ (fun p hp e => by
        injection e with e1
        exact hn.1 (List.mem_map.mpr ⟨p, hp, e1.symm⟩))]
      simp [Dom.toInt]
    · exact ih _ hn.2 hm'

/-- existential over an integer-sorted variable = existential over `Int` -/
theorem bindEx_int (n : String) (vs : List Var) (P : Asg → Prop) (ρ : Asg) :
    bindEx (⟨n, .integer⟩ :: vs) P ρ ↔ ∃ a : Int, bindEx vs P (ρ.set ⟨n, .integer⟩ (.num a)) := by
  simp only [bindEx]
  constructor
  · rintro ⟨d, hd, h⟩
    obtain ⟨a, rfl⟩ := Dom.inSort_integer.mp hd
    exact ⟨a, h⟩
  · rintro ⟨a, h⟩; exact ⟨.num a, trivial, h⟩

theorem bindEx_int2 (i j : String) (P : Asg → Prop) (ρ : Asg) :
    bindEx [⟨i, .integer⟩, ⟨j, .integer⟩] P ρ ↔ ∃ a b : Int, P (setInts ρ [(i, a), (j, b)]) := by
  simp only [bindEx_int]; rfl

theorem bindEx_int3 (i j k : String) (P : Asg → Prop) (ρ : Asg) :
    bindEx [⟨i, .integer⟩, ⟨j, .integer⟩, ⟨k, .integer⟩] P ρ ↔
      ∃ a b c : Int, P (setInts ρ [(i, a), (j, b), (k, c)]) := by
  simp only [bindEx_int]; rfl

theorem bindEx_int4 (i j q r : String) (P : Asg → Prop) (ρ : Asg) :
    bindEx [⟨i, .integer⟩, ⟨j, .integer⟩, ⟨q, .integer⟩, ⟨r, .integer⟩] P ρ ↔
      ∃ a b c d : Int, P (setInts ρ [(i, a), (j, b), (q, c), (r, d)]) := by
  simp only [bindEx_int]; rfl

/-! ## semantics of the three formula constructors -/

/-- what a sub-translation `val t' ⟨n, integer⟩` is assumed to mean -/
def Means (M : HTI) (w : World) (F : Formula) (n : String) (V : Subst → Dom → Prop) : Prop :=
  ∀ ρ : Asg, ht M F w ρ ↔ V (σOf ρ) (.num (ival ρ n))

theorem totalFunction_sem (M : HTI) (w : World) (vi vj : Formula) (op : IOp) (i j : String)
    (z : Var) (VI VJ : Subst → Dom → Prop) (hi : Means M w vi i VI) (hj : Means M w vj j VJ)
    (hij : i ≠ j) (hz : z.sort = .integer → z.name ≠ i ∧ z.name ≠ j) (ρ : Asg) :
    ht M (totalFunction vi vj op i j z) w ρ ↔
      ∃ a b : Int, VI (σOf ρ) (.num a) ∧ VJ (σOf ρ) (.num b) ∧ zval ρ z = .num (op.eval a b) := by
  simp only [totalFunction, ht, bindEx_int2]
  refine exists_congr fun a => exists_congr fun b => ?_
  have nd : ([(i, a), (j, b)].map (·.1)).Nodup := by simp [hij]
  have ei := ival_setInts ρ [(i, a), (j, b)] i a nd (by simp)
  have ej := ival_setInts ρ [(i, a), (j, b)] j b nd (by simp)
  have ez := zval_setInts_other ρ [(i, a), (j, b)] z (fun h p hp => by
    simp only [List.mem_cons, List.mem_nil_iff, or_false] at hp
    rcases hp with rfl | rfl
    · exact (hz h).1
    · exact (hz h).2)
  rw [ht_cmp1, hi, hj, toTerm_eval, eval_ibin, σOf_setInts, ei, ej, ez]
  simp only [Rel.holds]
  exact ⟨fun ⟨⟨h1, h2⟩, h3⟩ => ⟨h2, h3, h1⟩, fun ⟨h2, h3, h1⟩ => ⟨⟨h1, h2⟩, h3⟩⟩

theorem num_le_num (a b : Int) : Dom.le (.num a) (.num b) ↔ a ≤ b := by simp [Dom.le]
theorem num_lt_num (a b : Int) : Dom.lt (.num a) (.num b) ↔ a < b := by
  simp [Dom.lt, Dom.le]

theorem intervalFormula_sem (M : HTI) (w : World) (vi vj : Formula) (i j k : String)
    (z : Var) (VI VJ : Subst → Dom → Prop) (hi : Means M w vi i VI) (hj : Means M w vj j VJ)
    (hij : i ≠ j) (hki : k ≠ i) (hkj : k ≠ j)
    (hz : z.sort = .integer → z.name ≠ i ∧ z.name ≠ j ∧ z.name ≠ k) (ρ : Asg) :
    ht M (intervalFormula vi vj i j k z) w ρ ↔
      ∃ a b : Int, VI (σOf ρ) (.num a) ∧ VJ (σOf ρ) (.num b) ∧
        ∃ c : Int, a ≤ c ∧ c ≤ b ∧ zval ρ z = .num c := by
  simp only [intervalFormula, ht, bindEx_int3]
  refine exists_congr fun a => exists_congr fun b => ?_
  constructor
  · rintro ⟨c, ⟨⟨h1, h2⟩, h3⟩, h4⟩
    have nd : ([(i, a), (j, b), (k, c)].map (·.1)).Nodup := by
      simp [hij, hki.symm, hkj.symm]
    have ei := ival_setInts ρ [(i, a), (j, b), (k, c)] i a nd (by simp)
    have ej := ival_setInts ρ [(i, a), (j, b), (k, c)] j b nd (by simp)
    have ek := ival_setInts ρ [(i, a), (j, b), (k, c)] k c nd (by simp)
    have ez := zval_setInts_other ρ [(i, a), (j, b), (k, c)] z (fun h p hp => by
      simp only [List.mem_cons, List.mem_nil_iff, or_false] at hp
      rcases hp with rfl | rfl | rfl
      · exact (hz h).1
      · exact (hz h).2.1
      · exact (hz h).2.2)
    rw [hi, σOf_setInts, ei] at h1
    rw [hj, σOf_setInts, ej] at h2
    rw [ht_cmp1, toTerm_eval, eval_ivar, ek, ez] at h3
    simp only [AtomicF.sat, cmpChain, eval_ivar, ei, ej, ek, Rel.holds, num_le_num,
      and_true] at h4
    exact ⟨h1, h2, c, h4.1, h4.2, h3⟩
  · rintro ⟨h1, h2, c, hc1, hc2, h3⟩
    refine ⟨c, ?_⟩
    have nd : ([(i, a), (j, b), (k, c)].map (·.1)).Nodup := by
      simp [hij, hki.symm, hkj.symm]
    have ei := ival_setInts ρ [(i, a), (j, b), (k, c)] i a nd (by simp)
    have ej := ival_setInts ρ [(i, a), (j, b), (k, c)] j b nd (by simp)
    have ek := ival_setInts ρ [(i, a), (j, b), (k, c)] k c nd (by simp)
    have ez := zval_setInts_other ρ [(i, a), (j, b), (k, c)] z (fun h p hp => by
      simp only [List.mem_cons, List.mem_nil_iff, or_false] at hp
      rcases hp with rfl | rfl | rfl
      · exact (hz h).1
      · exact (hz h).2.1
      · exact (hz h).2.2)
    refine ⟨⟨⟨?_, ?_⟩, ?_⟩, ?_⟩
    · rw [hi, σOf_setInts, ei]; exact h1
    · rw [hj, σOf_setInts, ej]; exact h2
    · rw [ht_cmp1, toTerm_eval, eval_ivar, ek, ez]; exact h3
    · simp only [AtomicF.sat, cmpChain, eval_ivar, ei, ej, ek, Rel.holds, num_le_num,
        and_true]
      exact ⟨hc1, hc2⟩

def qrNames (vi vj : Formula) : String × String :=
  let taken := (vi.vars.map Var.display) ++ (vj.vars.map Var.display)
  ((chooseFresh taken "Q" 1).headD "Q", (chooseFresh taken "R" 1).headD "R")

theorem partialFunction_sem (M : HTI) (w : World) (vi vj : Formula) (useQ : Bool)
    (i j q r : String) (z : Var) (VI VJ : Subst → Dom → Prop)
    (hq : q = (qrNames vi vj).1) (hr : r = (qrNames vi vj).2)
    (hi : Means M w vi i VI) (hj : Means M w vj j VJ)
    (hij : i ≠ j) (hqi : q ≠ i) (hqj : q ≠ j) (hri : r ≠ i) (hrj : r ≠ j) (hqr : q ≠ r)
    (hz : z.sort = .integer → z.name ≠ i ∧ z.name ≠ j ∧ z.name ≠ q ∧ z.name ≠ r) (ρ : Asg) :
    ht M (partialFunction vi vj useQ i j z) w ρ ↔
      ∃ a b : Int, VI (σOf ρ) (.num a) ∧ VJ (σOf ρ) (.num b) ∧ 0 < b ∧
        zval ρ z = .num (if useQ then a / b else a % b) := by
  have hq' : (chooseFresh (vi.vars.map Var.display ++ vj.vars.map Var.display) "Q" 1).headD "Q" = q := by
    rw [hq]; rfl
  have hr' : (chooseFresh (vi.vars.map Var.display ++ vj.vars.map Var.display) "R" 1).headD "R" = r := by
    rw [hr]; rfl
  simp only [partialFunction, hq', hr', ht, bindEx_int4]
  refine exists_congr fun a => exists_congr fun b => ?_
  have facts : ∀ c d : Int,
      let ρ' := setInts ρ [(i, a), (j, b), (q, c), (r, d)]
      ival ρ' i = a ∧ ival ρ' j = b ∧ ival ρ' q = c ∧ ival ρ' r = d ∧ zval ρ' z = zval ρ z ∧
        σOf ρ' = σOf ρ := by
    intro c d
    have nd : ([(i, a), (j, b), (q, c), (r, d)].map (·.1)).Nodup := by
      simp [hij, hqi.symm, hqj.symm, hri.symm, hrj.symm, hqr]
    refine ⟨ival_setInts _ _ _ _ nd (by simp), ival_setInts _ _ _ _ nd (by simp),
      ival_setInts _ _ _ _ nd (by simp), ival_setInts _ _ _ _ nd (by simp), ?_, σOf_setInts _ _⟩
    exact zval_setInts_other _ _ z (fun h p hp => by
      simp only [List.mem_cons, List.mem_nil_iff, or_false] at hp
      rcases hp with rfl | rfl | rfl | rfl
      · exact (hz h).1
      · exact (hz h).2.1
      · exact (hz h).2.2.1
      · exact (hz h).2.2.2)
  constructor
  · rintro ⟨c, d, ⟨⟨h1, h2, h3⟩, ⟨h4, h5⟩, h6⟩, h7⟩
    obtain ⟨ei, ej, eq, er, ez, eσ⟩ := facts c d
    rw [ht_cmp1, eval_ivar, eval_idiv, ei, ej, eq, er] at h1
    rw [hi, eσ, ei] at h2
    rw [hj, eσ, ej] at h3
    rw [ht_cmp1, eval_ivar, eval_inum, ej] at h4
    rw [ht_cmp1, eval_ivar, eval_inum, er] at h5
    rw [ht_cmp1, eval_ivar, eval_ivar, er, ej] at h6
    simp only [Rel.holds, Dom.num.injEq, num_le_num, num_lt_num] at h1 h4 h5 h6
    have hb : 0 < b := by omega
    have hu := (Int.ediv_emod_unique (a := a) (b := b) (r := d) (q := c) hb).mpr
      ⟨by omega, h5, h6⟩
    refine ⟨h2, h3, hb, ?_⟩
    cases useQ
    · simp only [Bool.false_eq_true, if_false] at h7 ⊢
      rw [ht_cmp1, toTerm_eval, eval_ivar, er, ez] at h7
      simp only [Rel.holds] at h7
      rw [h7, hu.2]
    · simp only [if_true] at h7 ⊢
      rw [ht_cmp1, toTerm_eval, eval_ivar, eq, ez] at h7
      simp only [Rel.holds] at h7
      rw [h7, hu.1]
  · rintro ⟨h2, h3, hb, h7⟩
    refine ⟨a / b, a % b, ?_⟩
    obtain ⟨ei, ej, eq, er, ez, eσ⟩ := facts (a / b) (a % b)
    refine ⟨⟨⟨?_, ?_, ?_⟩, ⟨?_, ?_⟩, ?_⟩, ?_⟩
    · rw [ht_cmp1, eval_ivar, eval_idiv, ei, ej, eq, er]
      simp only [Rel.holds, Dom.num.injEq]
      exact (Int.mul_ediv_add_emod a b).symm
    · rw [hi, eσ, ei]; exact h2
    · rw [hj, eσ, ej]; exact h3
    · rw [ht_cmp1, eval_ivar, eval_inum, ej]
      simp only [Rel.holds, ne_eq, Dom.num.injEq]; omega
    · rw [ht_cmp1, eval_ivar, eval_inum, er]
      simp only [Rel.holds, num_le_num]
      exact Int.emod_nonneg a (by omega)
    · rw [ht_cmp1, eval_ivar, eval_ivar, er, ej]
      simp only [Rel.holds, num_lt_num]
      exact Int.emod_lt_of_pos a hb
    · cases useQ
      · simp only [Bool.false_eq_true, if_false] at h7 ⊢
        rw [ht_cmp1, toTerm_eval, eval_ivar, er, ez]
        exact h7
      · simp only [if_true] at h7 ⊢
        rw [ht_cmp1, toTerm_eval, eval_ivar, eq, ez]
        exact h7

/-! ## freshness facts used, and the main lemma -/

/-- names chosen at one `val` node -/
def valNames (tv : List String) (z : Var) : String × String × String :=
  let taken := tv ++ [z.name]
  ((chooseFresh taken "I" 1).headD "I", (chooseFresh taken "J" 1).headD "J",
   (chooseFresh taken "K" 1).headD "K")

/-- The freshness facts the correctness proof uses, node by node (decidable). -/
def ValFreshOK : Term → Var → Prop
  | .pre _, _ => True
  | .var _, _ => True
  | .neg a, z =>
    let n := valNames a.vars z
    n.1 ≠ n.2.1 ∧ (z.sort = .integer → z.name ≠ n.1 ∧ z.name ≠ n.2.1) ∧
      ValFreshOK a ⟨n.2.1, .integer⟩
  | .bin op l r, z =>
    let n := valNames (ext l.vars r.vars) z
    let qr := qrNames (val l ⟨n.1, .integer⟩) (val r ⟨n.2.1, .integer⟩)
    n.1 ≠ n.2.1 ∧ (z.sort = .integer → z.name ≠ n.1 ∧ z.name ≠ n.2.1) ∧
    (op = .interval → n.2.2 ≠ n.1 ∧ n.2.2 ≠ n.2.1 ∧ (z.sort = .integer → z.name ≠ n.2.2)) ∧
    ((op = .div ∨ op = .mod) → qr.1 ≠ n.1 ∧ qr.1 ≠ n.2.1 ∧ qr.2 ≠ n.1 ∧ qr.2 ≠ n.2.1 ∧
      qr.1 ≠ qr.2 ∧ (z.sort = .integer → z.name ≠ qr.1 ∧ z.name ≠ qr.2)) ∧
    ValFreshOK l ⟨n.1, .integer⟩ ∧ ValFreshOK r ⟨n.2.1, .integer⟩

/-- **`val` is correct**: `val t z` holds under `ρ` iff the value of `z` is a value of `t`. -/
theorem val_correct (M : HTI) (w : World) :
    ∀ (t : Term) (z : Var), ValFreshOK t z → ∀ ρ : Asg,
      ht M (val t z) w ρ ↔ vals (σOf ρ) t (zval ρ z) := by
  intro t
  induction t with
  | pre p =>
    intro z _ ρ
    simp only [val, ht_cmp1, Rel.holds, toTerm_eval, preToGTerm_eval, vals]
  | var x =>
    intro z _ ρ
    simp only [val, ht_cmp1, Rel.holds, toTerm_eval, vals]
    rfl
  | neg a ih =>
    intro z hf ρ
    obtain ⟨hij, hz, hfa⟩ := hf
    have hi : Means M w (cmp1 (.int (.var (valNames a.vars z).1)) .eq (.int (.num 0)))
        (valNames a.vars z).1 (fun _ d => d = .num 0) := by
      intro ρ'; rw [ht_cmp1, eval_ivar, eval_inum]; rfl
    have hj : Means M w (val a ⟨(valNames a.vars z).2.1, .integer⟩) (valNames a.vars z).2.1
        (fun σ d => vals σ a d) := fun ρ' => by rw [ih _ hfa ρ', zval_int]
    have := totalFunction_sem M w _ _ .sub _ _ z _ _ hi hj hij hz ρ
    simp only [val, vals]
    refine this.trans ?_
    constructor
    · rintro ⟨a', b', h1, h2, h3⟩
      injection h1 with h1; subst h1
      exact ⟨b', h2, h3⟩
    · rintro ⟨n, h2, h3⟩; exact ⟨0, n, rfl, h2, h3⟩
  | bin op l r ihl ihr =>
    intro z hf ρ
    obtain ⟨hij, hz, hk, hqr, hfl, hfr⟩ := hf
    have hi : Means M w (val l ⟨(valNames (ext l.vars r.vars) z).1, .integer⟩) _
        (fun σ d => vals σ l d) := fun ρ' => by rw [ihl _ hfl ρ', zval_int]
    have hj : Means M w (val r ⟨(valNames (ext l.vars r.vars) z).2.1, .integer⟩) _
        (fun σ d => vals σ r d) := fun ρ' => by rw [ihr _ hfr ρ', zval_int]
    cases op with
    | add =>
      simp only [val, vals]
      exact totalFunction_sem M w _ _ .add _ _ z _ _ hi hj hij hz ρ
    | sub =>
      simp only [val, vals]
      exact totalFunction_sem M w _ _ .sub _ _ z _ _ hi hj hij hz ρ
    | mul =>
      simp only [val, vals]
      exact totalFunction_sem M w _ _ .mul _ _ z _ _ hi hj hij hz ρ
    | div =>
      obtain ⟨h1, h2, h3, h4, h5, h6⟩ := hqr (Or.inl rfl)
      simp only [val, vals]
      exact partialFunction_sem M w _ _ true _ _ _ _ z _ _ rfl rfl hi hj hij h1 h2 h3 h4 h5
        (fun h => ⟨(hz h).1, (hz h).2, (h6 h).1, (h6 h).2⟩) ρ
    | mod =>
      obtain ⟨h1, h2, h3, h4, h5, h6⟩ := hqr (Or.inr rfl)
      simp only [val, vals]
      exact partialFunction_sem M w _ _ false _ _ _ _ z _ _ rfl rfl hi hj hij h1 h2 h3 h4 h5
        (fun h => ⟨(hz h).1, (hz h).2, (h6 h).1, (h6 h).2⟩) ρ
    | interval =>
      obtain ⟨h1, h2, h3⟩ := hk rfl
      simp only [val, vals]
      exact intervalFormula_sem M w _ _ _ _ _ z _ _ hi hj hij h1 h2
        (fun h => ⟨(hz h).1, (hz h).2, h3 h⟩) ρ

end Anthem
