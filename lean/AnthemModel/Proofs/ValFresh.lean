/-
  The freshness premise of `val_correct` holds for every term as soon as the output variable is
  general-sorted, or integer-sorted with a name the translator itself chose (`I…` / `J…`): the names
  chosen with variants "I", "J", "K", "Q", "R" begin with their variant (so names of different
  variants differ) and are not among the taken names (`chooseFresh_one`).
-/
import AnthemModel.Proofs.ValCorrect
import AnthemModel.Proofs.ChooseFresh
namespace Anthem
open Asp

def headChar (s : String) : Option Char := s.toList.head?

theorem searchName_form (variant : String) (taken fresh : List String) :
    ∀ (fuel m : Nat), ∃ j : Nat, searchName variant taken fresh fuel m = variant ++ toString j := by
  intro fuel
  induction fuel with
  | zero => intro m; exact ⟨m, rfl⟩
  | succ fuel ih =>
    intro m
    simp only [searchName]
    split
    · exact ih (m + 1)
    · exact ⟨m, rfl⟩

/-- the name chosen for arity 1 is the variant or the variant followed by a number -/
theorem chooseFresh_one_form (taken : List String) (variant : String) :
    (chooseFresh taken variant 1).headD variant = variant ∨
      ∃ j : Nat, (chooseFresh taken variant 1).headD variant = variant ++ toString j := by
  unfold chooseFresh
  simp only [Nat.lt_irrefl, if_false]
  split
  · right
    simp only [List.range'_one, chooseFreshLoop, List.nil_append, List.headD_cons]
    exact searchName_form variant taken [] _ 1
  · left
    simp [chooseFreshLoop]

theorem headChar_append_of_nonempty (c : Char) (s t : String) (h : headChar s = some c) :
    headChar (s ++ t) = some c := by
  unfold headChar at *
  rw [String.toList_append]
  cases hs : s.toList with
  | nil => rw [hs] at h; cases h
  | cons a as => rw [hs] at h; simpa using h

theorem chooseFresh_one_head (taken : List String) (variant : String) (c : Char)
    (h : headChar variant = some c) :
    headChar ((chooseFresh taken variant 1).headD variant) = some c := by
  rcases chooseFresh_one_form taken variant with e | ⟨j, e⟩
  · rw [e]; exact h
  · rw [e]; exact headChar_append_of_nonempty c _ _ h

theorem ne_of_headChar {s t : String} {c d : Char} (hs : headChar s = some c) (ht : headChar t = some d)
    (hcd : c ≠ d) : s ≠ t := by
  intro e; subst e; rw [hs] at ht; injection ht with ht; exact hcd ht

/-- an output variable the translator may pass to `val` -/
def GoodZ (z : Var) : Prop :=
  z.sort = .integer → headChar z.name = some 'I' ∨ headChar z.name = some 'J'

theorem goodZ_general (n : String) : GoodZ ⟨n, .general⟩ := fun h => by cases h

theorem valNames_heads (tv : List String) (z : Var) :
    headChar (valNames tv z).1 = some 'I' ∧ headChar (valNames tv z).2.1 = some 'J' ∧
      headChar (valNames tv z).2.2 = some 'K' :=
  ⟨chooseFresh_one_head _ "I" 'I' rfl, chooseFresh_one_head _ "J" 'J' rfl,
   chooseFresh_one_head _ "K" 'K' rfl⟩

theorem valNames_not_z (tv : List String) (z : Var) :
    z.name ≠ (valNames tv z).1 ∧ z.name ≠ (valNames tv z).2.1 ∧ z.name ≠ (valNames tv z).2.2 := by
  have hz : z.name ∈ tv ++ [z.name] := by simp
  refine ⟨fun e => ?_, fun e => ?_, fun e => ?_⟩
  · exact chooseFresh_one (tv ++ [z.name]) "I" (show (valNames tv z).1 ∈ _ from e ▸ hz)
  · exact chooseFresh_one (tv ++ [z.name]) "J" (show (valNames tv z).2.1 ∈ _ from e ▸ hz)
  · exact chooseFresh_one (tv ++ [z.name]) "K" (show (valNames tv z).2.2 ∈ _ from e ▸ hz)

theorem qrNames_heads (vi vj : Formula) :
    headChar (qrNames vi vj).1 = some 'Q' ∧ headChar (qrNames vi vj).2 = some 'R' :=
  ⟨chooseFresh_one_head _ "Q" 'Q' rfl, chooseFresh_one_head _ "R" 'R' rfl⟩

/-- **The freshness premise always holds** for the output variables the translator uses. -/
theorem valFreshOK_of_goodZ : ∀ (t : Term) (z : Var), GoodZ z → ValFreshOK t z := by
  intro t
  induction t with
  | pre _ => intro _ _; trivial
  | var _ => intro _ _; trivial
  | neg a ih =>
    intro z hz
    obtain ⟨hI, hJ, _⟩ := valNames_heads a.vars z
    obtain ⟨n1, n2, _⟩ := valNames_not_z a.vars z
    exact ⟨ne_of_headChar hI hJ (by decide), fun _ => ⟨n1, n2⟩, ih _ (fun _ => Or.inr hJ)⟩
  | bin op l r ihl ihr =>
    intro z hz
    obtain ⟨hI, hJ, hK⟩ := valNames_heads (ext l.vars r.vars) z
    obtain ⟨n1, n2, n3⟩ := valNames_not_z (ext l.vars r.vars) z
    obtain ⟨hQ, hR⟩ := qrNames_heads (val l ⟨(valNames (ext l.vars r.vars) z).1, .integer⟩)
      (val r ⟨(valNames (ext l.vars r.vars) z).2.1, .integer⟩)
    refine ⟨ne_of_headChar hI hJ (by decide), fun _ => ⟨n1, n2⟩,
      fun _ => ⟨ne_of_headChar hK hI (by decide), ne_of_headChar hK hJ (by decide), fun _ => n3⟩,
      fun _ => ⟨ne_of_headChar hQ hI (by decide), ne_of_headChar hQ hJ (by decide),
        ne_of_headChar hR hI (by decide), ne_of_headChar hR hJ (by decide),
        ne_of_headChar hQ hR (by decide), fun hs => ?_⟩,
      ihl _ (fun _ => Or.inl hI), ihr _ (fun _ => Or.inr hJ)⟩
    rcases hz hs with h | h
    · exact ⟨ne_of_headChar h hQ (by decide), ne_of_headChar h hR (by decide)⟩
    · exact ⟨ne_of_headChar h hQ (by decide), ne_of_headChar h hR (by decide)⟩

/-- `val` is correct for every term and every general-sorted output variable, unconditionally. -/
theorem val_correct_general (M : HTI) (w : World) (t : Term) (zn : String) (ρ : Asg) :
    ht M (val t ⟨zn, .general⟩) w ρ ↔ vals (σOf ρ) t (ρ ⟨zn, .general⟩) :=
  val_correct M w t ⟨zn, .general⟩ (valFreshOK_of_goodZ t _ (goodZ_general zn)) ρ

end Anthem
