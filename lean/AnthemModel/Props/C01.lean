/-
  C01 — the tau* theory has exactly the program's HT models.

  Status: the key lemma (`val` denotes the value set of a term, for every operator including
  partial division/modulo and intervals) is proved. The statement at full strength
  (`TauStarCorrect`) is kept visible; the rule level is in Proofs/TauStarRules when present.
-/
import AnthemModel.Proofs.ValCorrect
namespace Anthem.C01
open Asp

/-- The property at full strength: an HT interpretation satisfies every formula of `tauStar Π`
    (at world `w`, under any assignment) iff it satisfies every rule of `Π` in the reference
    semantics. -/
def TauStarCorrect : Prop :=
  ∀ (P : Program), globalsPanic P = false → ∀ (M : HTI), M.Sub → ∀ (w : World) (ρ : Asg),
    (∀ F ∈ tauStar P, ht M F w ρ) ↔ progSat M w P

/-- **Key lemma (all term operators).** `val t z` holds iff the value of `z` is one of the
    values of `t` — including multi-valued intervals, partial division and modulo, and arithmetic
    that is undefined on non-integers. `ValFreshOK` collects the (decidable) freshness facts about
    the names `I, J, K, Q, R` chosen by the translator. -/
theorem val_denotes_values (M : HTI) (w : World) (t : Term) (z : Var) (hf : ValFreshOK t z)
    (ρ : Asg) : ht M (val t z) w ρ ↔ vals (σOf ρ) t (zval ρ z) :=
  val_correct M w t z hf ρ

/-- Division really is partial: `1/0` has no value, so `val (1/0) Z` is unsatisfiable. -/
theorem division_by_zero_has_no_value (σ : Subst) (d : Dom) :
    ¬ vals σ (.bin .div (.pre (.num 1)) (.pre (.num 0))) d := by
  simp [vals, Pre.toDom]

/-- Arithmetic on a symbol has no value. -/
theorem symbol_plus_one_has_no_value (σ : Subst) (d : Dom) :
    ¬ vals σ (.bin .add (.pre (.sym "a")) (.pre (.num 1))) d := by
  simp [vals, Pre.toDom]

/-- An interval is multi-valued. -/
theorem interval_values (σ : Subst) (k : Int) :
    vals σ (.bin .interval (.pre (.num 1)) (.pre (.num 3))) (.num k) ↔ 1 ≤ k ∧ k ≤ 3 := by
  simp [vals, Pre.toDom]

/-- Non-vacuity: the freshness facts hold on adversarial names (`X/2` with output `I`;
    `(I + J) \ Q` with output `Z`), checked by kernel evaluation. -/
example : ValFreshOK (.bin .div (.var "X") (.pre (.num 2))) ⟨"I", .integer⟩ := by
  simp [ValFreshOK, valNames, qrNames]; decide
example : ValFreshOK (.bin .mod (.bin .add (.var "I") (.var "J")) (.var "Q")) ⟨"Z", .general⟩ := by
  simp [ValFreshOK, valNames, qrNames]; decide

end Anthem.C01
