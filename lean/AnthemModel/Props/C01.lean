/-
  C01 — the tau* theory has exactly the program's HT models.

  Status: proved at full strength (`tau_star_correct`): term level (`val` denotes the value set of a
  term, for every operator including partial division/modulo and intervals; the freshness of the
  names `I, J, K, Q, R` is proved, not assumed), body atoms (`tau_b`, fresh `Z` names by
  pigeonhole), rules (all three head kinds, global head variables `V<n>` fresh for the whole
  program) and programs, at both worlds of every HT interpretation. The only hypothesis is that the
  index arithmetic of the global variables does not overflow (`globalsPanic = false`; the overflow
  itself is the C16 known finding).
-/
import AnthemModel.Proofs.TauStarRules
namespace Anthem.C01
open Asp

/-- The property at full strength: an HT interpretation satisfies every formula of `tauStar Π`
    (at world `w`, under any assignment) iff it satisfies every rule of `Π` in the reference
    semantics. -/
def TauStarCorrect : Prop :=
  ∀ (P : Program), globalsPanic P = false → ∀ (M : HTI), M.Sub → ∀ (w : World) (ρ : Asg),
    (∀ F ∈ tauStar P, ht M F w ρ) ↔ progSat M w P

/-- **C01.** For every program whose global-variable indices do not overflow, every HT
    interpretation (no relation between `H` and `T` is even needed), world and assignment. -/
theorem tau_star_correct : TauStarCorrect :=
  fun P hp M _ w ρ => tauStar_correct P hp M w ρ

/-- **C01 with no hypothesis at all** (since the repair of the global-index overflow the fresh head
    variables are fresh for every program, `C16.fresh_globals_always_fresh`): for EVERY program, every HT
    interpretation, world and assignment, the interpretation satisfies every formula of `tau*(P)` iff it
    satisfies every rule of `P` in the reference semantics. -/
theorem tau_star_correct_every_program (P : Program) (M : HTI) (w : World) (ρ : Asg) :
    (∀ F ∈ tauStar P, ht M F w ρ) ↔ progSat M w P :=
  tauStar_correct P rfl M w ρ

/-- Stable models (with input predicates) are exactly the equilibrium models of the tau* theory:
    the reference notion `Stable` can be read entirely through `tauStar`. -/
theorem stable_iff_equilibrium (P : Program) (hp : globalsPanic P = false) (ins : List Pred)
    (T : PredI) (fc : FcI) (ρ : Asg) :
    Stable P ins T fc ↔
      ((∀ F ∈ tauStar P, ht ⟨T, T, fc⟩ F .there ρ) ∧
        ∀ H : PredI, (∀ q a, H q a → T q a) →
          (∀ q a, (⟨q, a.length⟩ : Pred) ∈ ins → (H q a ↔ T q a)) →
          (∀ F ∈ tauStar P, ht ⟨H, T, fc⟩ F .here ρ) → ∀ q a, T q a → H q a) := by
  unfold Stable
  rw [tauStar_correct P hp ⟨T, T, fc⟩ .there ρ]
  refine and_congr_right fun _ => forall_congr' fun H => imp_congr_right fun _ =>
    imp_congr_right fun _ => ?_
  rw [tauStar_correct P hp ⟨H, T, fc⟩ .here ρ]

/-- The term level without any premise, for the output variables the translator uses. -/
theorem val_denotes_values_general (M : HTI) (w : World) (t : Term) (z : String) (ρ : Asg) :
    ht M (val t ⟨z, .general⟩) w ρ ↔ vals (σOf ρ) t (ρ ⟨z, .general⟩) :=
  val_correct_general M w t z ρ

/-- Body atoms: `tau_b` means "some value tuple is in the extent" / "some pair of values is related". -/
theorem tau_b_correct (M : HTI) (w : World) (f : BodyAtom) (ρ : Asg) :
    ht M (tauB f) w ρ ↔ bodyAtomSat M w (σOf ρ) f := tauB_sem M w f ρ

/-- Non-vacuity of the hypothesis and of the statement: a program with an interval in the head, a
    partial operation and a choice rule does not overflow, and its translation has three formulas. -/
example : globalsPanic [⟨.basic ⟨"p", [.bin .interval (.pre (.num 1)) (.var "N")]⟩, [.lit ⟨.pos, ⟨"q", [.var "N"]⟩⟩]⟩,
    ⟨.choice ⟨"q", [.bin .div (.var "X") (.pre (.num 2))]⟩, [.lit ⟨.neg, ⟨"p", [.var "X"]⟩⟩]⟩,
    ⟨.falsity, [.cmp .lt (.var "V1") (.pre (.num 0))]⟩] = false := by decide

/-- **Key lemma (all term operators).** `val t z` holds iff the value of `z` is one of the
    values of `t` — including multi-valued intervals, partial division and modulo, and arithmetic
    that is undefined on non-integers. `ValFreshOK` collects the (decidable) freshness facts about
    the names `I, J, K, Q, R` chosen by the translator. -/
theorem val_denotes_values (M : HTI) (w : World) (t : Term) (z : Var) (hf : ValFreshOK t z)
    (ρ : Asg) : ht M (val t z) w ρ ↔ vals (σOf ρ) t (zval ρ z) :=
  val_correct M w t z hf ρ

/-- Division really is partial: `1/0` has no value, so `val (1/0) Z` is unsatisfiable. -/
theorem division_by_zero_has_no_value (σ : Subst) (d : Dom) :
    ¬ vals σ (.bin .div (.pre (.num 1)) (.pre (.num 0))) d := by
  simp [vals, Pre.toDom]

/-- Arithmetic on a symbol has no value. -/
theorem symbol_plus_one_has_no_value (σ : Subst) (d : Dom) :
    ¬ vals σ (.bin .add (.pre (.sym "a")) (.pre (.num 1))) d := by
  simp [vals, Pre.toDom]

/-- An interval is multi-valued. -/
theorem interval_values (σ : Subst) (k : Int) :
    vals σ (.bin .interval (.pre (.num 1)) (.pre (.num 3))) (.num k) ↔ 1 ≤ k ∧ k ≤ 3 := by
  simp [vals, Pre.toDom]

/-- Non-vacuity: the freshness facts hold on adversarial names (`X/2` with output `I`;
    `(I + J) \ Q` with output `Z`), checked by kernel evaluation. -/
example : ValFreshOK (.bin .div (.var "X") (.pre (.num 2))) ⟨"I", .integer⟩ := by
  simp [ValFreshOK, valNames, qrNames]; decide
example : ValFreshOK (.bin .mod (.bin .add (.var "I") (.var "J")) (.var "Q")) ⟨"Z", .general⟩ := by
  simp [ValFreshOK, valNames, qrNames]; decide

end Anthem.C01
