/-
  C02 — external-equivalence obligations are refuted exactly by behavioural differences.
  Status (partial). Proved here about the model of the whole pipeline:
  * the roles the emitted problems give to the two sides (premises of a direction are axioms,
    the other side's public definitions and constraints are the conjectures), via the
    decomposition theorems of C19;
  * the two defects that made the property FALSE on the unchanged tree were repaired:
    clashing private predicate names were renamed onto each other (`fix:` 06d5e1b; now
    `private_renaming_fresh`, `one_interpretation_carries_both_readings`, `rename_clash_now_separated`),
    and an output predicate absent from one program got no completed definition, the forward
    direction emitted no problem at all (`fix:` 82641ae); it is now completed to false
    (`missing_output_now_refutable`), and the theorems carry the matching clause `OutputsEmpty`.
  * `external_refutes_programs` (restricted form of the model-theoretic statement): for a task that
    compares two programs, without placeholders and without a proof outline, tightness not
    bypassed, every flag combination: some emitted problem is refuted by a classical
    interpretation iff it satisfies the user-guide assumptions and, in a requested direction, is a
    stable model of one program (on that program's vocabulary, with its own input facts) and
    satisfies the completed definitions of the other program's private predicates without being
    a stable model of that program. Composes C04 (`completion_tight`), C07 (classic portfolio),
    C19 (eq-break, decompositions), the renaming of clashing private predicates and the assembly.
  * `cannot_produce_public_part`: for the program side of such a task with simplification off, an
    interpretation that satisfies the private definitions is *not* a stable model of the program
    iff *no* stable model of the program has the same extents of the non-private predicates - the
    wording of the property. Rests on the uniqueness of the private extents without private
    recursion (`private_extents_unique`).
  * `external_refutes_specification`: the same for a task that compares a *specification*
    (annotated formulas with any role/direction annotation the task accepts) with a program: some
    emitted problem is refuted iff the interpretation satisfies the user-guide assumptions, the
    specification's universal assumptions and the program's private definitions and either
    (forward) satisfies the specification's forward premises without being a stable model of the
    program, or (backward) is a stable model of the program and falsifies a universal/backward
    `spec` formula. (A backward-annotated *assumption* of the specification is dropped by the
    code - visible in the statement.)
  * `external_refutes_programs_with_placeholders`, `external_refutes_specification_with_placeholders`:
    both statements for user guides that declare placeholders (`input: n -> integer.`). A program with
    placeholders is read as the reference semantics prescribes - every placeholder is replaced by the
    precomputed term the interpretation assigns to it (`Program.substSym (phNu m J.fc)`: the value of
    the function constant `n$i`, `n$g`, `n$s` that `replace_placeholders` substitutes). Rests on
    `tauStar_substSym`, `completion_substSym` (tau* and completion commute with the substitution of
    closed terms for symbolic constants) and `sat_substSym_congr` (only the values matter).
  * `external_sound_with_outline`: for EVERY accepted task (placeholders, proof outline with lemmas,
    inductive lemmas and definitions of any direction): if none of the emitted problems - outline
    problems and final problems - has a countermodel, then no interpretation satisfying the user-guide
    assumptions witnesses a difference in a requested direction ("if every emitted problem is a theorem
    the claimed relation holds"). With an outline the converse is not claimed (a false lemma has a
    countermodel although the programs may agree). Rests on `Outline.assembled_outline_sound` - an
    accepted outline does not change what is claimed: validity of the problems with the outline
    implies validity of the problems without it - via C13 `outline_sound` and
    `proofOutlineFrom_defsExt` (accepted definitions can be made true by re-interpreting only the
    predicates they define).
-/
import AnthemModel.Model.External
import AnthemModel.Props.C19
import AnthemModel.Proofs.ExternalSem
import AnthemModel.Proofs.ExternalSemSpec
import AnthemModel.Proofs.ExternalSemPh
import AnthemModel.Proofs.ExternalOutlineTask
import AnthemModel.Proofs.PrivateUnique
import AnthemModel.Proofs.RenameFresh
import AnthemModel.Proofs.ExternalProgramLevel
namespace Anthem.C02
open Asp

/-- the program side produces `J`: `J`, read on the program's vocabulary (clashing private predicates
    through their `_p` copies) with the placeholders replaced by the values `J` gives them, is a stable
    model of the program with `J`'s input facts, and the output predicates the program does not mention
    are empty -/
def ProducesR (t : ExternalTask) (J : Interp) : Prop :=
  Stable (t.program.substSym (phNu t.phMap J.fc)) t.userGuide.inputs
    (restrictTo (ext t.program.preds t.userGuide.inputs)
      (renamedInterp t.clashMap J.pred)) J.fc ∧
  OutputsEmpty t t.program (renamedInterp t.clashMap J.pred)

/-- the same for a specification program `PL` -/
def ProducesL (t : ExternalTask) (PL : Program) (J : Interp) : Prop :=
  Stable (PL.substSym (phNu t.phMap J.fc)) t.userGuide.inputs (restrictTo (ext PL.preds t.userGuide.inputs) J.pred) J.fc ∧
  OutputsEmpty t PL J.pred

/-- without placeholders the programs are read as they are -/
theorem no_placeholders (t : ExternalTask) (hph : t.userGuide.placeholders = []) (fc : FcI) (p : Program) :
    p.substSym (phNu t.phMap fc) = p := by
  rw [phMap_nil t hph, phNu_nil]; exact Program.substSym_id p

/-- **C02, specification against program** (no placeholders, no proof outline, tightness not
    bypassed; every direction, decomposition, simplify and eq-break setting; every role/direction
    annotation of the specification that the task accepts). -/
theorem external_refutes_specification (t : ExternalTask) (S : Specification) (hspec : t.specification = .inr S)
    (hph : t.userGuide.placeholders = []) (hpo : t.proofOutline = []) (hbyp : t.bypassTightness = false)
    (fuel : Nat) (ps : List Problem) (h : externalProblems t fuel = .ok ps) :
    ∃ ΓR, theoryTranslate t [] fuel t.program = .ok ΓR ∧
      (NoSymbolConflictSpec t S ΓR → ∀ (J : Interp) (ρ : Asg),
        ((∃ P ∈ ps, Refutes J ρ P) ↔
          (∀ a ∈ t.userGuide.formulas, a.role = .assumption → sat J a.formula ρ) ∧
          (∀ a ∈ S, lStable a = true → sat J a.formula ρ) ∧
          (∀ a ∈ rightSide t ΓR, a.role = .assumption → sat J a.formula ρ) ∧
          (((t.direction = .universal ∨ t.direction = .forward) ∧
              (∀ a ∈ S, lFwdPrem a = true → sat J a.formula ρ) ∧ ¬ ProducesR t J) ∨
           ((t.direction = .universal ∨ t.direction = .backward) ∧
              ProducesR t J ∧ ∃ a ∈ S, lBwdConc a = true ∧ ¬ sat J a.formula ρ)))) := by
  obtain ⟨ΓR, hR, hmain⟩ := Anthem.external_refutes_spec t S hspec hph hpo hbyp fuel ps h
  refine ⟨ΓR, hR, fun hnc J ρ => ?_⟩
  have := hmain hnc J ρ
  unfold ProducesR
  rw [no_placeholders t hph]
  exact this

/-- **C02, program against program** (placeholders of any sort allowed; no proof outline, tightness not
    bypassed; every direction, decomposition, simplify and eq-break setting). Some emitted problem is
    refuted by a classical interpretation `J` iff `J` satisfies the user-guide assumptions and, in a
    requested direction, one program produces `J` (stable model on that program's vocabulary with `J`'s
    input facts and placeholder values, absent output predicates empty), `J` satisfies the completed
    definitions of the other program's private predicates, and the other program does not produce `J`.
    `t.phMap` is the placeholder map, `phNu t.phMap J.fc s` the precomputed term `J` assigns to the
    symbolic constant `s` (`s` itself when it is no placeholder: `no_placeholders`). -/
theorem external_refutes_programs (t : ExternalTask) (PL : Program)
    (hspec : t.specification = .inl PL) (hpo : t.proofOutline = []) (hbyp : t.bypassTightness = false)
    (fuel : Nat) (ps : List Problem) (h : externalProblems t fuel = .ok ps) :
    ∃ ΓL ΓR, theoryTranslate t t.phMap fuel PL = .ok ΓL ∧ theoryTranslate t t.phMap fuel t.program = .ok ΓR ∧
      (NoSymbolConflictGen (assembledGen t (leftSide t ΓL) t.ugAss ΓR) → ∀ (J : Interp) (ρ : Asg),
        ((∃ P ∈ ps, Refutes J ρ P) ↔
          (∀ a ∈ t.userGuide.formulas, a.role = .assumption → sat J (a.formula.replacePlaceholders t.phMap) ρ) ∧
          (((t.direction = .universal ∨ t.direction = .forward) ∧
              ProducesL t PL J ∧ (∀ a ∈ rightSide t ΓR, a.role = .assumption → sat J a.formula ρ) ∧ ¬ ProducesR t J) ∨
           ((t.direction = .universal ∨ t.direction = .backward) ∧
              ProducesR t J ∧ (∀ a ∈ leftSide t ΓL, a.role = .assumption → sat J a.formula ρ) ∧ ¬ ProducesL t PL J)))) :=
  Anthem.external_refutes_programs_ph t PL hspec hpo hbyp fuel ps h

/-- **C02 with placeholders, specification against program.** -/
theorem external_refutes_specification_with_placeholders (t : ExternalTask) (S : Specification)
    (hspec : t.specification = .inr S) (hpo : t.proofOutline = []) (hbyp : t.bypassTightness = false)
    (fuel : Nat) (ps : List Problem) (h : externalProblems t fuel = .ok ps) :
    ∃ ΓR, theoryTranslate t t.phMap fuel t.program = .ok ΓR ∧
      (NoSymbolConflictGen (assembledGen t (S.map (SAnn.replacePlaceholders t.phMap)) t.ugAss ΓR) →
        ∀ (J : Interp) (ρ : Asg),
        ((∃ P ∈ ps, Refutes J ρ P) ↔
          (∀ a ∈ t.userGuide.formulas, a.role = .assumption → sat J (a.formula.replacePlaceholders t.phMap) ρ) ∧
          (∀ a ∈ S, lStable a = true → sat J (a.formula.replacePlaceholders t.phMap) ρ) ∧
          (∀ a ∈ rightSide t ΓR, a.role = .assumption → sat J a.formula ρ) ∧
          (((t.direction = .universal ∨ t.direction = .forward) ∧
              (∀ a ∈ S, lFwdPrem a = true → sat J (a.formula.replacePlaceholders t.phMap) ρ) ∧ ¬ ProducesR t J) ∨
           ((t.direction = .universal ∨ t.direction = .backward) ∧
              ProducesR t J ∧ ∃ a ∈ S, lBwdConc a = true ∧ ¬ sat J (a.formula.replacePlaceholders t.phMap) ρ)))) :=
  Anthem.external_refutes_spec_ph t S hspec hpo hbyp fuel ps h

/-- what the placeholder reading does: an integer placeholder `n` stands for the numeral that is the
    value of `n$i`, a symbol that is no placeholder stands for itself; tau* of the program with the
    values substituted is tau* of the program with the matching closed terms substituted -/
theorem placeholder_reading (fc : FcI) :
    phNu [("n", .integer)] fc "n" = .num (fc "n" .integer).toInt ∧ phNu [("n", .integer)] fc "a" = .sym "a" :=
  ⟨rfl, rfl⟩

theorem tau_star_commutes_with_placeholder_values (ν : String → Pre) (p : Program) :
    tauStar (p.substSym ν) = (tauStar p).map (Formula.substSym (thetaOf ν)) := tauStar_substSym ν p

/-- **C02, soundness for every accepted task** (placeholders and proof outline included). `left` is
    the specification side as it enters the problems (the control-translated theory of a
    specification program, or the specification's formulas with placeholders replaced); the
    conclusion is the negation of the difference-witness condition of the theorems above. -/
theorem external_sound_with_outline (t : ExternalTask) (hbyp : t.bypassTightness = false) (fuel : Nat)
    (ps : List Problem) (h : externalProblems t fuel = .ok ps) :
    ∃ (left : List SAnn) (ΓR : Theory) (po : ProofOutline),
      (match t.specification with
        | .inl PL => ∃ ΓL, theoryTranslate t t.phMap fuel PL = .ok ΓL ∧ left = controlTranslate t.userGuide.publicPreds ΓL
        | .inr S => left = S.map (SAnn.replacePlaceholders t.phMap)) ∧
      theoryTranslate t t.phMap fuel t.program = .ok ΓR ∧
      (Outline.NoConflictAll (assembledGen t left t.ugAss ΓR) ((rightSide t ΓR).filter isSpec)
          (left.filter lBwdConc) t.breakEq po →
        (∀ P ∈ ps, ∀ J ρ, ¬ Refutes J ρ P) →
        ∀ (J : Interp) (ρ : Asg),
          ¬ ((∀ a ∈ t.ugAss, sat J a.formula ρ) ∧
            (∀ a ∈ left, lStable a = true → sat J a.formula ρ) ∧
            (∀ a ∈ rightSide t ΓR, a.role = .assumption → sat J a.formula ρ) ∧
            (((t.direction = .universal ∨ t.direction = .forward) ∧
                (∀ a ∈ left, lFwdPrem a = true → sat J a.formula ρ) ∧ ¬ ProducesR t J) ∨
             ((t.direction = .universal ∨ t.direction = .backward) ∧
                ProducesR t J ∧ ∃ a ∈ left, lBwdConc a = true ∧ ¬ sat J a.formula ρ)))) :=
  Outline.external_outline_sound t hbyp fuel ps h

/-- which annotated formulas of a specification play which part (read off `assemble`) -/
theorem specification_roles (a : SAnn) :
    (lStable a = true ↔ a.role = .assumption ∧ a.direction = .universal) ∧
    (lFwdPrem a = true ↔ (a.role = .assumption ∧ a.direction = .forward) ∨
      (a.role = .spec ∧ (a.direction = .universal ∨ a.direction = .forward))) ∧
    (lBwdConc a = true ↔ a.role = .spec ∧ (a.direction = .universal ∨ a.direction = .backward)) := by
  simp [lStable, lFwdPrem, lBwdConc]

/-- **"…whose public part the other side cannot produce."** The last clause of
    `external_refutes_programs` for the program side, simplification off: given the private
    definitions (third clause), not being a stable model of the program is the same as no stable
    model of the program sharing the extents of the non-private predicates. -/
theorem cannot_produce_public_part (t : ExternalTask) (fuel : Nat) (ΓR : Theory) (hsimp : t.simplify = false)
    (hbyp : t.bypassTightness = false) (hpre : precheck t = none)
    (hR : theoryTranslate t [] fuel t.program = .ok ΓR) (J : Interp) (ρ : Asg)
    (hpriv : ∀ a ∈ rightSide t ΓR, a.role = .assumption → sat J a.formula ρ) :
    (¬ Stable t.program t.userGuide.inputs (restrictTo (ext t.program.preds t.userGuide.inputs)
        (renamedInterp t.clashMap J.pred)) J.fc) ↔
      ¬ ∃ T' : PredI, Stable t.program t.userGuide.inputs T' J.fc ∧
        ∀ (q : String) (ds : List Dom), (⟨q, ds.length⟩ : Pred) ∉ t.progPrivate →
          (T' q ds ↔ restrictTo (ext t.program.preds t.userGuide.inputs)
            (renamedInterp t.clashMap J.pred) q ds) := by
  obtain ⟨Γ, hΓ, hdefs⟩ := rightSide_private_defs t fuel ΓR hsimp hR J ρ hpriv
  have hp : globalsPanic t.program = false := (theoryTranslate_ok t fuel t.program ΓR hR).1
  -- applicability facts from the checks
  have hperr : programError t t.program t.progPrivate = none := by
    cases hP : programError t t.program t.progPrivate with
    | none => rfl
    | some e =>
      exfalso
      unfold precheck at hpre
      simp only [hP] at hpre
      split at hpre
      · cases hpre
      · split at hpre <;> cases hpre
  obtain ⟨htR, hrec, hinsR⟩ := C11.programError_none hperr
  have htR' : isTight t.program = true := htR.resolve_right (by simp [hbyp])
  have hsub : ∀ q ∈ t.progPrivate, q ∈ t.program.preds ∧ q ∉ t.userGuide.inputs := by
    intro q hq
    unfold ExternalTask.progPrivate at hq
    simp only [List.mem_filter, decide_eq_true_eq] at hq
    refine ⟨hq.1, fun hin => hq.2 ?_⟩
    unfold UserGuide.publicPreds
    exact mem_ext.mpr (Or.inl hin)
  exact not_congr (stable_iff_some_stable_same_public t.program t.userGuide.inputs t.progPrivate htR' hp hinsR hrec hsub
    Γ hΓ _ J.fc ρ hdefs)

/-- number of emitted problems for a task (0 when refused) -/
def emitted (t : ExternalTask) (fuel : Nat) : Nat :=
  match externalProblems t fuel with
  | .ok ps => ps.length
  | _ => 0

/-- the task `output: p/1.`, specification program `p(1).`, program `r.` -/
def missingOutputTask (dir : Direction) : ExternalTask :=
  { specification := .inl [⟨.basic ⟨"p", [.pre (.num 1)]⟩, []⟩]
    program := [⟨.basic ⟨"r", []⟩, []⟩]
    userGuide := [.output ⟨"p", 1⟩]
    proofOutline := []
    decomposition := .sequential, direction := dir, rep := .tauStar
    bypassTightness := false, simplify := false, breakEq := false }

/-- **Repaired defect (fix 82641ae).** The left program derives `p(1)`, the right one never derives
    any `p` atom, so they differ on the output predicate. Before the repair the forward direction
    emitted *no problem at all* (vacuous success), because `p/1` does not occur in the right program
    and received no completed definition; now `p/1` is completed to false on that side and the
    forward direction has `forall V1 (p(V1) <-> #false)` as its conjecture (one problem; two with eq-break). -/
theorem missing_output_now_refutable : emitted (missingOutputTask .forward) 8 = 1 := by
  decide

/-- the task with private `q/1` on the left and private `q/1`, `q_p/1` on the right -/
def renameClashTask : ExternalTask :=
  { specification := .inl [⟨.basic ⟨"q", [.pre (.num 1)]⟩, []⟩,
      ⟨.basic ⟨"out", [.var "X"]⟩, [.lit ⟨.pos, ⟨"q", [.var "X"]⟩⟩]⟩]
    program := [⟨.basic ⟨"q", [.pre (.num 1)]⟩, []⟩, ⟨.basic ⟨"q_p", [.pre (.num 2)]⟩, []⟩,
      ⟨.basic ⟨"out", [.var "X"]⟩, [.lit ⟨.pos, ⟨"q", [.var "X"]⟩⟩]⟩]
    userGuide := [.output ⟨"out", 1⟩]
    proofOutline := []
    decomposition := .sequential, direction := .backward, rep := .tauStar
    bypassTightness := false, simplify := false, breakEq := false }

/-- names of the predicates defined by the axioms of the first backward problem -/
def definedInFirstProblem (t : ExternalTask) : List String :=
  match externalProblems t 8 with
  | .ok (p :: _) => p.axioms.filterMap fun a => (headPredicate a.formula).map (·.symbol)
  | _ => []

/-- **Repaired defect (rename clash).** The right program's private `q/1` (renamed because the left
    side has a private `q/1` too) and its own private `q_p/1` used to end up under one name: the
    backward problem contained *two* completed definitions of `q_p` as axioms (`q_p(V) <-> V = 1` and
    `q_p(V) <-> V = 2`), contradictory premises. Now `q/1` is renamed to the free name `q_p1/1`. -/
theorem rename_clash_now_separated :
    (definedInFirstProblem renameClashTask).count "q_p" = 1 ∧
    (definedInFirstProblem renameClashTask).count "q_p1" = 1 := by decide

/-- **The names chosen for clashing private predicates are free**: none is a predicate of the task
    (public or private on either side), no two renamed predicates share a name, and exactly the
    private predicates common to both sides are renamed. -/
theorem private_renaming_fresh (t : ExternalTask) :
    (∀ x ∈ t.clashMap, renamedPred x.1 x.2 ∉ t.occupied) ∧
    (t.clashMap.Pairwise fun x y => renamedPred x.1 x.2 ≠ renamedPred y.1 y.2) ∧
    t.clashMap.map (·.1) = t.specPrivate.filter (· ∈ t.progPrivate) :=
  ⟨clashMap_fresh t, clashMap_injective t, clashMap_keys t⟩

/-- **One interpretation carries both readings**: extents `TL` for the specification side and `TR`
    for the program side that agree on the public predicates are both read off one family `T` of
    extents - `T` itself on the specification side's vocabulary, `T` through the renaming
    (`renamedInterp`, the reading used in `ProducesR`) on the program side's. So the refutation
    conditions of `external_refutes_programs` really speak about independent private extents of the two
    sides. -/
theorem one_interpretation_carries_both_readings (t : ExternalTask) (TL TR : PredI)
    (hagree : ∀ (q : String) (a : List Dom), (⟨q, a.length⟩ : Pred) ∈ t.userGuide.publicPreds → (TL q a ↔ TR q a)) :
    ∃ T : PredI,
      (∀ (q : String) (a : List Dom), (⟨q, a.length⟩ : Pred) ∈ ext t.userGuide.publicPreds t.specPrivate →
        (T q a ↔ TL q a)) ∧
      (∀ (q : String) (a : List Dom), (⟨q, a.length⟩ : Pred) ∈ ext t.userGuide.publicPreds t.progPrivate →
        (renamedInterp t.clashMap T q a ↔ TR q a)) :=
  joint_reading t TL TR hagree

/-- **Private extents always exist**: without private recursion (which the task checks), whatever
    the extents of the other predicates, the private predicates have extents that satisfy all their
    completed definitions (and by `private_extents_unique` exactly one such family on the program's
    vocabulary). So the private definitions that an emitted problem takes as axioms never make it
    vacuous. -/
theorem private_definitions_satisfiable (P : Asp.Program) (priv : List Pred)
    (hrec : hasPrivateRecursion P priv = false) (T0 : PredI) (fc : FcI) :
    ∃ T : PredI,
      (∀ (q : String) (ds : List Dom), (⟨q, ds.length⟩ : Pred) ∉ priv → (T q ds ↔ T0 q ds)) ∧
      ∀ q ∈ priv, DefHolds P T fc q.symbol q.arity :=
  private_extents_exist P priv hrec T0 fc

/-- **Simplification never changes what a formula of a completed theory is to `control_translate`**:
    a completed definition keeps its head predicate (so it stays the definition of that public or private
    predicate), and a constraint - whose body has no implication or equivalence - never acquires one.
    Without this a private definition could silently become a conjecture, or a constraint an assumption,
    when simplification is on. -/
theorem definitions_keep_their_role_under_simplification (P : Asp.Program) (ins : List Pred)
    (hp : globalsPanic P = false) (Γ : Theory) (hΓ : completion (tauStar P) ins = some Γ)
    (F : Formula) (hF : F ∈ Γ) (fuel : Nat) :
    headPredicate (simplifyWith .classic .fixpoint fuel F).1 = headPredicate F :=
  headPredicate_simplify_completion P ins hp Γ hΓ F hF fuel

/-- **"Hence if every emitted problem is a theorem the claimed relation holds"** - the property's
    conclusion stated about the two programs alone, with no interpretation of the emitted problems left
    in the statement (program against program, placeholders of any sort allowed, no proof outline, tightness
    not bypassed; every simplification, decomposition and eq-break setting; `hnc`: the decidable side
    condition that `rename_conflicting_symbols` is the identity). Programs with placeholders are read with
    the values `fc` gives to the placeholders (`p.substSym (phNu t.phMap fc)`, `placeholder_reading`).
    If no interpretation refutes an emitted problem, then
    * forward: every stable model of the specification program whose input facts and constants satisfy
      the user-guide assumptions has the same public part (extents of the input and output predicates)
      as some stable model of the program, and
    * backward: the same with the two programs exchanged.
    Rests on `external_refutes_programs`, `private_definitions_satisfiable`,
    `one_interpretation_carries_both_readings` (which needs the repaired private renaming) and, for
    simplified theories, `definitions_keep_their_role_under_simplification`. -/
theorem valid_problems_imply_external_equivalence (t : ExternalTask) (PL : Asp.Program)
    (hspec : t.specification = .inl PL) (hpo : t.proofOutline = [])
    (hbyp : t.bypassTightness = false)
    (fuel : Nat) (ps : List Problem) (h : externalProblems t fuel = .ok ps)
    (hnc : ∀ ΓL ΓR, theoryTranslate t t.phMap fuel PL = .ok ΓL → theoryTranslate t t.phMap fuel t.program = .ok ΓR →
      NoSymbolConflictGen (assembledGen t (leftSide t ΓL) t.ugAss ΓR))
    (hvalid : ∀ (J : Interp) (ρ : Asg), ¬ ∃ P ∈ ps, Refutes J ρ P) :
    ((t.direction = .universal ∨ t.direction = .forward) →
      ∀ (TL : PredI) (fc : FcI) (ρ : Asg),
        (∀ a ∈ t.userGuide.formulas, a.role = .assumption → sat ⟨TL, fc⟩ (a.formula.replacePlaceholders t.phMap) ρ) →
        Stable (PL.substSym (phNu t.phMap fc)) t.userGuide.inputs TL fc →
        ∃ TR : PredI, Stable (t.program.substSym (phNu t.phMap fc)) t.userGuide.inputs TR fc ∧
          ∀ (q : String) (ds : List Dom), (⟨q, ds.length⟩ : Pred) ∈ t.userGuide.publicPreds → (TR q ds ↔ TL q ds)) ∧
    ((t.direction = .universal ∨ t.direction = .backward) →
      ∀ (TR : PredI) (fc : FcI) (ρ : Asg),
        (∀ a ∈ t.userGuide.formulas, a.role = .assumption → sat ⟨TR, fc⟩ (a.formula.replacePlaceholders t.phMap) ρ) →
        Stable (t.program.substSym (phNu t.phMap fc)) t.userGuide.inputs TR fc →
        ∃ TL : PredI, Stable (PL.substSym (phNu t.phMap fc)) t.userGuide.inputs TL fc ∧
          ∀ (q : String) (ds : List Dom), (⟨q, ds.length⟩ : Pred) ∈ t.userGuide.publicPreds → (TL q ds ↔ TR q ds)) :=
  ⟨fun hdir => external_forward_sound_programs t PL hspec hpo hbyp fuel ps h hdir hnc hvalid,
   fun hdir => external_backward_sound_programs t PL hspec hpo hbyp fuel ps h hdir hnc hvalid⟩

/-- **The same conclusion for a specification** (specification against program, placeholders of any sort
    allowed, no proof outline, tightness not bypassed; simplification on or off): if no interpretation refutes
    an emitted problem, then
    * backward: every stable model `TR` of the program, together with any extents
      `TL` on the specification's vocabulary that agree with it on the public predicates and satisfy the
      user-guide assumptions and the specification's universal assumptions, satisfies every universal or
      backward `spec` formula - the program meets the specification;
    * forward: every `TL` that satisfies the user-guide assumptions, the specification's
      assumptions and its universal or forward `spec` formulas has the public part of some stable model of
      the program - the specification admits only behaviours of the program. -/
theorem valid_problems_imply_specification_met (t : ExternalTask) (S : Specification)
    (hspec : t.specification = .inr S) (hpo : t.proofOutline = [])
    (hbyp : t.bypassTightness = false)
    (fuel : Nat) (ps : List Problem) (h : externalProblems t fuel = .ok ps)
    (hnc : ∀ ΓR, theoryTranslate t t.phMap fuel t.program = .ok ΓR →
      NoSymbolConflictGen (assembledGen t (S.map (SAnn.replacePlaceholders t.phMap)) t.ugAss ΓR))
    (hvalid : ∀ (J : Interp) (ρ : Asg), ¬ ∃ P ∈ ps, Refutes J ρ P) :
    ((t.direction = .universal ∨ t.direction = .backward) →
      ∀ (TL TR : PredI) (fc : FcI) (ρ : Asg),
        (∀ (q : String) (ds : List Dom), (⟨q, ds.length⟩ : Pred) ∈ t.userGuide.publicPreds → (TL q ds ↔ TR q ds)) →
        Stable (t.program.substSym (phNu t.phMap fc)) t.userGuide.inputs TR fc →
        (∀ a ∈ t.userGuide.formulas, a.role = .assumption → sat ⟨TL, fc⟩ (a.formula.replacePlaceholders t.phMap) ρ) →
        (∀ a ∈ S, lStable a = true → sat ⟨TL, fc⟩ (a.formula.replacePlaceholders t.phMap) ρ) →
        ∀ a ∈ S, lBwdConc a = true → sat ⟨TL, fc⟩ (a.formula.replacePlaceholders t.phMap) ρ) ∧
    ((t.direction = .universal ∨ t.direction = .forward) →
      ∀ (TL : PredI) (fc : FcI) (ρ : Asg),
        (∀ a ∈ t.userGuide.formulas, a.role = .assumption → sat ⟨TL, fc⟩ (a.formula.replacePlaceholders t.phMap) ρ) →
        (∀ a ∈ S, lStable a = true → sat ⟨TL, fc⟩ (a.formula.replacePlaceholders t.phMap) ρ) →
        (∀ a ∈ S, lFwdPrem a = true → sat ⟨TL, fc⟩ (a.formula.replacePlaceholders t.phMap) ρ) →
        ∃ TR : PredI, Stable (t.program.substSym (phNu t.phMap fc)) t.userGuide.inputs TR fc ∧
          ∀ (q : String) (ds : List Dom), (⟨q, ds.length⟩ : Pred) ∈ t.userGuide.publicPreds → (TR q ds ↔ TL q ds)) :=
  ⟨fun hdir => external_backward_sound_specification t S hspec hpo hbyp fuel ps h hdir hnc hvalid,
   fun hdir => external_forward_sound_specification t S hspec hpo hbyp fuel ps h hdir hnc hvalid⟩

/-- **C02, soundness for every accepted task, with NO side condition** (placeholders, simplification and
    proof outline included): if none of the emitted problems has a countermodel, no interpretation that
    satisfies the user-guide assumptions is a difference witness. `rename_conflicting_symbols` needs no
    hypothesis any more: since fix 611037e it renames propositional predicates to free names, and an emitted
    problem has a countermodel as soon as the problem before the renaming has one (`valid_family`). -/
theorem external_sound_no_side_condition (t : ExternalTask) (hbyp : t.bypassTightness = false) (fuel : Nat)
    (ps : List Problem) (h : externalProblems t fuel = .ok ps) :
    ∃ (left : List SAnn) (ΓR : Theory),
      (match t.specification with
        | .inl PL => ∃ ΓL, theoryTranslate t t.phMap fuel PL = .ok ΓL ∧ left = controlTranslate t.userGuide.publicPreds ΓL
        | .inr S => left = S.map (SAnn.replacePlaceholders t.phMap)) ∧
      theoryTranslate t t.phMap fuel t.program = .ok ΓR ∧
      ((∀ P ∈ ps, ∀ J ρ, ¬ Refutes J ρ P) →
        ∀ (J : Interp) (ρ : Asg),
          ¬ ((∀ a ∈ t.ugAss, sat J a.formula ρ) ∧
            (∀ a ∈ left, lStable a = true → sat J a.formula ρ) ∧
            (∀ a ∈ rightSide t ΓR, a.role = .assumption → sat J a.formula ρ) ∧
            (((t.direction = .universal ∨ t.direction = .forward) ∧
                (∀ a ∈ left, lFwdPrem a = true → sat J a.formula ρ) ∧ ¬ ProducesR t J) ∨
             ((t.direction = .universal ∨ t.direction = .backward) ∧
                ProducesR t J ∧ ∃ a ∈ left, lBwdConc a = true ∧ ¬ sat J a.formula ρ)))) :=
  Outline.external_outline_sound_valid t hbyp fuel ps h

/-- an emitted problem (after `rename_conflicting_symbols`) has a countermodel as soon as the parts it was
    assembled from can be refuted: validity of what anthem emits implies validity of what it means -/
theorem renaming_is_irrelevant_for_validity (name : String) (parts : List (List AnnF)) (d : Decomposition)
    (hvalid : ∀ P ∈ (mkProblem name parts).decompose d, ∀ J ρ, ¬ Refutes J ρ P) :
    ∀ (J : Interp) (ρ : Asg), ¬ SemRef J ρ parts :=
  valid_family name parts d hvalid

/-- **The conclusion of C02 for every accepted program-vs-program task - the whole statement, no side
    condition.** Placeholders of any sort, simplification on or off, any decomposition and eq-break setting,
    proof outlines with lemmas, inductive lemmas and definitions; only tightness must not be bypassed.
    If NO emitted problem - outline problems and final problems - has a countermodel (in particular if
    every emitted problem is a theorem), then in each requested direction every stable model of one
    program, for input facts and constants that satisfy the user-guide assumptions, has the same public
    part (extents of the input and output predicates) as some stable model of the other program.
    (With an outline only this direction can hold: a false lemma has a countermodel although the programs
    are equivalent; without an outline `external_refutes_programs` gives the converse.) -/
theorem every_accepted_program_task_sound (t : ExternalTask) (PL : Asp.Program)
    (hspec : t.specification = .inl PL) (hbyp : t.bypassTightness = false)
    (fuel : Nat) (ps : List Problem) (h : externalProblems t fuel = .ok ps)
    (hvalid : ∀ P ∈ ps, ∀ J ρ, ¬ Refutes J ρ P) :
    ((t.direction = .universal ∨ t.direction = .forward) →
      ∀ (TL : PredI) (fc : FcI) (ρ : Asg),
        (∀ a ∈ t.userGuide.formulas, a.role = .assumption → sat ⟨TL, fc⟩ (a.formula.replacePlaceholders t.phMap) ρ) →
        Stable (PL.substSym (phNu t.phMap fc)) t.userGuide.inputs TL fc →
        ∃ TR : PredI, Stable (t.program.substSym (phNu t.phMap fc)) t.userGuide.inputs TR fc ∧
          ∀ (q : String) (ds : List Dom), (⟨q, ds.length⟩ : Pred) ∈ t.userGuide.publicPreds → (TR q ds ↔ TL q ds)) ∧
    ((t.direction = .universal ∨ t.direction = .backward) →
      ∀ (TR : PredI) (fc : FcI) (ρ : Asg),
        (∀ a ∈ t.userGuide.formulas, a.role = .assumption → sat ⟨TR, fc⟩ (a.formula.replacePlaceholders t.phMap) ρ) →
        Stable (t.program.substSym (phNu t.phMap fc)) t.userGuide.inputs TR fc →
        ∃ TL : PredI, Stable (PL.substSym (phNu t.phMap fc)) t.userGuide.inputs TL fc ∧
          ∀ (q : String) (ds : List Dom), (⟨q, ds.length⟩ : Pred) ∈ t.userGuide.publicPreds → (TL q ds ↔ TR q ds)) :=
  programs_equivalent_of_valid_problems t PL hspec hbyp fuel ps h hvalid

/-- **The conclusion of C02 for every accepted specification-vs-program task, no side condition.** -/
theorem every_accepted_specification_task_sound (t : ExternalTask) (S : Specification)
    (hspec : t.specification = .inr S) (hbyp : t.bypassTightness = false)
    (fuel : Nat) (ps : List Problem) (h : externalProblems t fuel = .ok ps)
    (hvalid : ∀ P ∈ ps, ∀ J ρ, ¬ Refutes J ρ P) :
    ((t.direction = .universal ∨ t.direction = .backward) →
      ∀ (TL TR : PredI) (fc : FcI) (ρ : Asg),
        (∀ (q : String) (ds : List Dom), (⟨q, ds.length⟩ : Pred) ∈ t.userGuide.publicPreds → (TL q ds ↔ TR q ds)) →
        Stable (t.program.substSym (phNu t.phMap fc)) t.userGuide.inputs TR fc →
        (∀ a ∈ t.userGuide.formulas, a.role = .assumption → sat ⟨TL, fc⟩ (a.formula.replacePlaceholders t.phMap) ρ) →
        (∀ a ∈ S, lStable a = true → sat ⟨TL, fc⟩ (a.formula.replacePlaceholders t.phMap) ρ) →
        ∀ a ∈ S, lBwdConc a = true → sat ⟨TL, fc⟩ (a.formula.replacePlaceholders t.phMap) ρ) ∧
    ((t.direction = .universal ∨ t.direction = .forward) →
      ∀ (TL : PredI) (fc : FcI) (ρ : Asg),
        (∀ a ∈ t.userGuide.formulas, a.role = .assumption → sat ⟨TL, fc⟩ (a.formula.replacePlaceholders t.phMap) ρ) →
        (∀ a ∈ S, lStable a = true → sat ⟨TL, fc⟩ (a.formula.replacePlaceholders t.phMap) ρ) →
        (∀ a ∈ S, lFwdPrem a = true → sat ⟨TL, fc⟩ (a.formula.replacePlaceholders t.phMap) ρ) →
        ∃ TR : PredI, Stable (t.program.substSym (phNu t.phMap fc)) t.userGuide.inputs TR fc ∧
          ∀ (q : String) (ds : List Dom), (⟨q, ds.length⟩ : Pred) ∈ t.userGuide.publicPreds → (TR q ds ↔ TL q ds)) :=
  specification_met_of_valid_problems t S hspec hbyp fuel ps h hvalid

/-- Non-vacuity of the hypotheses of `valid_problems_imply_external_equivalence`: the task that compares
    `p(X) :- q(X).` with itself (input `q/1`, `p/1` private on both sides, no output) is accepted and
    emits no problem at all, so "no emitted problem is refuted" holds, and the theorem applies:
    every stable model of the program has the public part of a stable model of the program. -/
def sameTask : ExternalTask :=
  { specification := .inl [⟨.basic ⟨"p", [.var "X"]⟩, [.lit ⟨.pos, ⟨"q", [.var "X"]⟩⟩]⟩]
    program := [⟨.basic ⟨"p", [.var "X"]⟩, [.lit ⟨.pos, ⟨"q", [.var "X"]⟩⟩]⟩]
    userGuide := [.input ⟨"q", 1⟩]
    proofOutline := []
    decomposition := .sequential, direction := .universal, rep := .tauStar
    bypassTightness := false, simplify := false, breakEq := false }

example : (match externalProblems sameTask 8 with | .ok ps => ps.length == 0 | _ => false) = true := by decide

example (ps : List Problem) (h : externalProblems sameTask 8 = .ok ps) :
    ∀ (J : Interp) (ρ : Asg), ¬ ∃ P ∈ ps, Refutes J ρ P := by
  have hd : (match externalProblems sameTask 8 with | .ok ps => ps.length == 0 | _ => false) = true := by decide
  rw [h] at hd
  have : ps = [] := List.eq_nil_of_length_eq_zero (by simpa using hd)
  subst this
  intro J ρ ⟨P, hP, _⟩
  cases hP

/-- Whatever the decomposition, the problems of the final family of a direction are refuted by the
    interpretations that satisfy all premises and falsify some conclusion (C19 applied to the
    assembled problem). -/
theorem final_family_refutes (J : Interp) (ρ : Asg) (name : String) (parts : List (List AnnF))
    (d : Decomposition) :
    (∃ P ∈ (mkProblem name parts).decompose d, Refutes J ρ P) ↔
      (∀ a ∈ (mkProblem name parts).axioms, sat J a.formula ρ) ∧
        ∃ c ∈ (mkProblem name parts).conjectures, ¬ sat J c.formula ρ := by
  cases d
  · exact C19.independent_refutes J ρ _
  · exact C19.sequential_refutes J ρ _

/-- Non-vacuity of the hypotheses of `external_refutes_programs`: a concrete task (input `q/1`,
    output `p/1`, `p(X) :- q(X).` against `p(X) :- q(X), not not q(X).`) is accepted, yields two
    problems, and `rename_conflicting_symbols` leaves its assembled problems unchanged
    (kernel-evaluated). -/
def exampleTask : ExternalTask :=
  { specification := .inl [⟨.basic ⟨"p", [.var "X"]⟩, [.lit ⟨.pos, ⟨"q", [.var "X"]⟩⟩]⟩]
    program := [⟨.basic ⟨"p", [.var "X"]⟩, [.lit ⟨.pos, ⟨"q", [.var "X"]⟩⟩, .lit ⟨.negneg, ⟨"q", [.var "X"]⟩⟩]⟩]
    userGuide := [.input ⟨"q", 1⟩, .output ⟨"p", 1⟩]
    proofOutline := []
    decomposition := .sequential, direction := .universal, rep := .tauStar
    bypassTightness := false, simplify := false, breakEq := false }

example : (match externalProblems exampleTask 8 with | .ok ps => ps.length | _ => 0) = 2 := by decide

example : ∀ ΓL ΓR, theoryTranslate exampleTask [] 8 [⟨.basic ⟨"p", [.var "X"]⟩, [.lit ⟨.pos, ⟨"q", [.var "X"]⟩⟩]⟩] = .ok ΓL →
    theoryTranslate exampleTask [] 8 exampleTask.program = .ok ΓR → NoSymbolConflictExt exampleTask ΓL ΓR := by
  intro ΓL ΓR hL hR
  injection hL with hL; injection hR with hR
  subst hL; subst hR
  unfold NoSymbolConflictExt
  decide

/-- Non-vacuity of `external_refutes_specification`: the specification
    `assumption: forall X (q(X) -> X > 0). spec(forward): forall X (p(X) -> q(X)). spec: forall X (q(X) -> p(X)).`
    against `p(X) :- q(X).` (input `q/1`, output `p/1`) is accepted and yields two problems (one per direction); `rename_conflicting_symbols` leaves the assembled problems unchanged. -/
def exampleSpecTask : ExternalTask :=
  { specification := .inr [
      ⟨.assumption, .universal, "", .quant .all [⟨"X", .general⟩] (.bin .imp (.atomic (.atom ⟨"q", [.var "X"]⟩))
        (.atomic (.cmp (.var "X") [⟨.gt, .int (.num 0)⟩])))⟩,
      ⟨.spec, .forward, "", .quant .all [⟨"X", .general⟩] (.bin .imp (.atomic (.atom ⟨"p", [.var "X"]⟩)) (.atomic (.atom ⟨"q", [.var "X"]⟩)))⟩,
      ⟨.spec, .universal, "", .quant .all [⟨"X", .general⟩] (.bin .imp (.atomic (.atom ⟨"q", [.var "X"]⟩)) (.atomic (.atom ⟨"p", [.var "X"]⟩)))⟩]
    program := [⟨.basic ⟨"p", [.var "X"]⟩, [.lit ⟨.pos, ⟨"q", [.var "X"]⟩⟩]⟩]
    userGuide := [.input ⟨"q", 1⟩, .output ⟨"p", 1⟩]
    proofOutline := []
    decomposition := .sequential, direction := .universal, rep := .tauStar
    bypassTightness := false, simplify := false, breakEq := false }

example : (match externalProblems exampleSpecTask 8 with | .ok ps => ps.length | _ => 0) = 2 := by decide

example : ∀ ΓR, theoryTranslate exampleSpecTask [] 8 exampleSpecTask.program = .ok ΓR →
    NoSymbolConflictSpec exampleSpecTask
      (match exampleSpecTask.specification with | .inr S => S | .inl _ => []) ΓR := by
  intro ΓR hR
  injection hR with hR
  subst hR
  unfold NoSymbolConflictSpec
  decide

/-- Non-vacuity of the placeholder theorems: `input: n -> integer. input: q/1. output: p/1.` with
    `p(X) :- q(X), X < n.` against `p(X) :- q(X), not X >= n.` is accepted and yields two problems. -/
def examplePlaceholderTask : ExternalTask :=
  { specification := .inl [⟨.basic ⟨"p", [.var "X"]⟩, [.lit ⟨.pos, ⟨"q", [.var "X"]⟩⟩, .cmp .lt (.var "X") (.pre (.sym "n"))]⟩]
    program := [⟨.basic ⟨"p", [.var "X"]⟩, [.lit ⟨.pos, ⟨"q", [.var "X"]⟩⟩, .cmp .lt (.var "X") (.pre (.sym "n")),
      .lit ⟨.negneg, ⟨"q", [.var "X"]⟩⟩]⟩]
    userGuide := [.placeholder "n" .integer, .input ⟨"q", 1⟩, .output ⟨"p", 1⟩]
    proofOutline := []
    decomposition := .sequential, direction := .universal, rep := .tauStar
    bypassTightness := false, simplify := false, breakEq := false }

example : (match externalProblems examplePlaceholderTask 8 with | .ok ps => ps.length | _ => 0) = 2 := by decide

example : examplePlaceholderTask.phMap = [("n", .integer)] := by decide

end Anthem.C02
