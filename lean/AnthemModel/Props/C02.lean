/-
  C02 — external-equivalence obligations are refuted exactly by behavioural differences.
  Status (partial). Proved here about the model of the whole pipeline:
  * the roles the emitted problems give to the two sides (premises of a direction are axioms,
    the other side's public definitions and constraints are the conjectures), via the
    decomposition theorems of C19;
  * two kernel-checked counterexamples showing that the property is FALSE on the unchanged tree
    (known findings): an output predicate absent from one program gets no completed definition
    (forward direction emits no problem at all), and clashing private predicate names are renamed
    onto each other.
  The model-theoretic statement `ExternalRefutes` needs C04 (completion) and is not proved.
-/
import AnthemModel.Model.External
import AnthemModel.Props.C19
namespace Anthem.C02
open Asp

/-- number of emitted problems for a task (0 when refused) -/
def emitted (t : ExternalTask) (fuel : Nat) : Nat :=
  match externalProblems t fuel with
  | .ok ps => ps.length
  | _ => 0

/-- the task `output: p/1.`, specification program `p(1).`, program `r.` -/
def missingOutputTask (dir : Direction) : ExternalTask :=
  { specification := .inl [⟨.basic ⟨"p", [.pre (.num 1)]⟩, []⟩]
    program := [⟨.basic ⟨"r", []⟩, []⟩]
    userGuide := [.output ⟨"p", 1⟩]
    proofOutline := []
    decomposition := .sequential, direction := dir, rep := .tauStar
    bypassTightness := false, simplify := false, breakEq := false }

/-- **Counterexample 1 (known finding).** The left program derives `p(1)`, the right one never
    derives any `p` atom, so they differ on the output predicate — but the forward direction emits
    *no problem at all* (nothing to prove, vacuous success), because `p/1` does not occur in the
    right program and therefore receives no completed definition. -/
theorem external_counterexample_missing_output : emitted (missingOutputTask .forward) 8 = 0 := by
  decide

/-- the task with private `q/1` on the left and private `q/1`, `q_p/1` on the right -/
def renameClashTask : ExternalTask :=
  { specification := .inl [⟨.basic ⟨"q", [.pre (.num 1)]⟩, []⟩,
      ⟨.basic ⟨"out", [.var "X"]⟩, [.lit ⟨.pos, ⟨"q", [.var "X"]⟩⟩]⟩]
    program := [⟨.basic ⟨"q", [.pre (.num 1)]⟩, []⟩, ⟨.basic ⟨"q_p", [.pre (.num 2)]⟩, []⟩,
      ⟨.basic ⟨"out", [.var "X"]⟩, [.lit ⟨.pos, ⟨"q", [.var "X"]⟩⟩]⟩]
    userGuide := [.output ⟨"out", 1⟩]
    proofOutline := []
    decomposition := .sequential, direction := .backward, rep := .tauStar
    bypassTightness := false, simplify := false, breakEq := false }

/-- names of the predicates defined by the axioms of the first backward problem -/
def definedInFirstProblem (t : ExternalTask) : List String :=
  match externalProblems t 8 with
  | .ok (p :: _) => p.axioms.filterMap fun a => (headPredicate a.formula).map (·.symbol)
  | _ => []

/-- **Counterexample 2 (known finding).** The right program's private `q/1` (renamed because the
    left side has a private `q/1` too) and its own private `q_p/1` end up under one name: the
    backward problem contains *two* completed definitions of `q_p` as axioms (`q_p(V) <-> V = 1`
    and `q_p(V) <-> V = 2`), i.e. contradictory premises. -/
theorem external_counterexample_rename :
    (definedInFirstProblem renameClashTask).count "q_p" = 2 := by decide

/-- Whatever the decomposition, the problems of the final family of a direction are refuted by the
    interpretations that satisfy all premises and falsify some conclusion (C19 applied to the
    assembled problem). -/
theorem final_family_refutes (J : Interp) (ρ : Asg) (name : String) (parts : List (List AnnF))
    (d : Decomposition) :
    (∃ P ∈ (mkProblem name parts).decompose d, Refutes J ρ P) ↔
      (∀ a ∈ (mkProblem name parts).axioms, sat J a.formula ρ) ∧
        ∃ c ∈ (mkProblem name parts).conjectures, ¬ sat J c.formula ρ := by
  cases d
  · exact C19.independent_refutes J ρ _
  · exact C19.sequential_refutes J ρ _

end Anthem.C02
