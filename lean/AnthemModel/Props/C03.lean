/-
  C03 — strong-equivalence obligations are refuted exactly by HT-distinguishing pairs.
  Proved here (the gamma / decomposition core): for the problem anthem assembles in one
  direction — transition axioms and gamma(left) as axioms, gamma(right) as conjectures — and
  either decomposition, some emitted problem is refuted by the merged classical interpretation
  iff the transition axioms hold, (H,T) satisfies every left formula and falsifies some right
  formula. What remains for the full statement (`StrongRefutes`) is the translation step
  (C01/C08), simplification (C07) and symbol renaming; those are tied by correspondence.
-/
import AnthemModel.Props.C05
import AnthemModel.Props.C19
import AnthemModel.Model.Strong
import AnthemModel.Proofs.StrongSem
import AnthemModel.Proofs.PropRename
import AnthemModel.Proofs.StrongValid
namespace Anthem.C03
open Asp

theorem enumerateFrom_map_snd (t : Theory) (k : Nat) :
    (Problem.addTheory.enumerateFrom k t).map (·.2) = t := by
  induction t generalizing k with
  | nil => rfl
  | cons f fs ih => simp [Problem.addTheory.enumerateFrom, ih]

def newFormulas (t : Theory) (pre : String) (role : PRole) : List AnnF :=
  (Problem.addTheory.enumerateFrom 0 t).map fun (i, f) => ⟨pre ++ toString i, role, f⟩

theorem addTheory_formulas (p : Problem) (t : Theory) (pre : String) (role : PRole) :
    (p.addTheory t pre role).formulas = p.formulas ++ newFormulas t pre role := rfl

theorem newFormulas_role (t : Theory) (pre : String) (role : PRole) :
    ∀ a ∈ newFormulas t pre role, a.role = role := by
  intro a ha
  simp only [newFormulas, List.mem_map, Prod.exists] at ha
  obtain ⟨i, f, _, rfl⟩ := ha
  rfl

theorem newFormulas_formulas (t : Theory) (pre : String) (role : PRole) :
    (newFormulas t pre role).map (·.formula) = t := by
  simp only [newFormulas, List.map_map]
  exact enumerateFrom_map_snd t 0

theorem filter_all {α} (p : α → Bool) (l : List α) (h : ∀ a ∈ l, p a = true) : l.filter p = l :=
  List.filter_eq_self.mpr h

theorem filter_none {α} (p : α → Bool) (l : List α) (h : ∀ a ∈ l, p a = false) : l.filter p = [] :=
  List.filter_eq_nil_iff.mpr (fun a ha => by simp [h a ha])

theorem addTheory_axioms_axiom (p : Problem) (t : Theory) (pre : String) :
    (p.addTheory t pre .axiom).axioms.map (·.formula) = p.axioms.map (·.formula) ++ t := by
  simp only [Problem.axioms, addTheory_formulas, List.filter_append, List.map_append]
  rw [filter_all _ (newFormulas t pre .axiom) (fun a ha => by simp [newFormulas_role t pre _ a ha]),
    newFormulas_formulas]

theorem addTheory_axioms_conj (p : Problem) (t : Theory) (pre : String) :
    (p.addTheory t pre .conjecture).axioms = p.axioms := by
  simp only [Problem.axioms, addTheory_formulas, List.filter_append]
  rw [filter_none _ (newFormulas t pre .conjecture) (fun a ha => by simp [newFormulas_role t pre _ a ha])]
  simp

theorem addTheory_conj_axiom (p : Problem) (t : Theory) (pre : String) :
    (p.addTheory t pre .axiom).conjectures = p.conjectures := by
  simp only [Problem.conjectures, addTheory_formulas, List.filter_append]
  rw [filter_none _ (newFormulas t pre .axiom) (fun a ha => by simp [newFormulas_role t pre _ a ha])]
  simp

theorem addTheory_conj_conj (p : Problem) (t : Theory) (pre : String) :
    (p.addTheory t pre .conjecture).conjectures.map (·.formula) =
      p.conjectures.map (·.formula) ++ t := by
  simp only [Problem.conjectures, addTheory_formulas, List.filter_append, List.map_append]
  rw [filter_all _ (newFormulas t pre .conjecture) (fun a ha => by simp [newFormulas_role t pre _ a ha]),
    newFormulas_formulas]

/-- the problem of one direction before symbol renaming and unique naming -/
def coreProblem (name : String) (tr ax cj : Theory) : Problem :=
  (((⟨name, []⟩ : Problem).addTheory tr "transition_axiom_" .axiom).addTheory ax "left_" .axiom).addTheory
    cj "right_" .conjecture

theorem coreProblem_axioms (name : String) (tr ax cj : Theory) :
    (coreProblem name tr ax cj).axioms.map (·.formula) = tr ++ ax := by
  unfold coreProblem
  rw [addTheory_axioms_conj, addTheory_axioms_axiom, addTheory_axioms_axiom]
  simp [Problem.axioms]

theorem coreProblem_conjectures (name : String) (tr ax cj : Theory) :
    (coreProblem name tr ax cj).conjectures.map (·.formula) = cj := by
  unfold coreProblem
  rw [addTheory_conj_conj, addTheory_conj_axiom, addTheory_conj_axiom]
  simp [Problem.conjectures]

theorem forall_mem_map_formula (J : Interp) (ρ : Asg) (l : List AnnF) :
    (∀ a ∈ l, sat J a.formula ρ) ↔ ∀ F ∈ l.map (·.formula), sat J F ρ := by simp

theorem exists_mem_map_formula (J : Interp) (ρ : Asg) (l : List AnnF) :
    (∃ a ∈ l, ¬ sat J a.formula ρ) ↔ ∃ F ∈ l.map (·.formula), ¬ sat J F ρ := by
  simp only [List.mem_map]
  constructor
  · rintro ⟨a, ha, h⟩; exact ⟨a.formula, ⟨a, ha, rfl⟩, h⟩
  · rintro ⟨F, ⟨a, ha, rfl⟩, h⟩; exact ⟨a, ha, h⟩

/-- **Core of C03.** `J` merges the HT interpretation `M = (H,T)` (h-copies from `H`, t-copies
    from `T`). For either decomposition, some problem of the direction `left ⊢ right` is refuted
    by `J` iff the transition axioms hold in `J`, `(H,T)` satisfies every formula of `L` at world
    `here` and fails some formula of `R`. -/
theorem gamma_direction_refutes {J : Interp} {M : HTI} (hm : C05.Merges J M) (ρ : Asg)
    (name : String) (tr L R : Theory) (d : Decomposition) :
    (∃ P ∈ (coreProblem name tr (gammaTheory L) (gammaTheory R)).decompose d, Refutes J ρ P) ↔
      (∀ F ∈ tr, sat J F ρ) ∧ (∀ F ∈ L, ht M F .here ρ) ∧ ∃ G ∈ R, ¬ ht M G .here ρ := by
  have key : (∃ P ∈ (coreProblem name tr (gammaTheory L) (gammaTheory R)).decompose d, Refutes J ρ P) ↔
      (∀ a ∈ (coreProblem name tr (gammaTheory L) (gammaTheory R)).axioms, sat J a.formula ρ) ∧
      ∃ c ∈ (coreProblem name tr (gammaTheory L) (gammaTheory R)).conjectures, ¬ sat J c.formula ρ := by
    cases d
    · exact C19.independent_refutes J ρ _
    · exact C19.sequential_refutes J ρ _
  rw [key, forall_mem_map_formula, exists_mem_map_formula, coreProblem_axioms,
    coreProblem_conjectures]
  simp only [gammaTheory, List.mem_append, List.mem_map]
  constructor
  · rintro ⟨h1, G', ⟨G, hG, rfl⟩, h2⟩
    refine ⟨fun F hF => h1 F (Or.inl hF), fun F hF => ?_, G, hG, ?_⟩
    · exact (C05.gamma_correct hm F ρ).mpr (h1 _ (Or.inr ⟨F, hF, rfl⟩))
    · exact fun h => h2 ((C05.gamma_correct hm G ρ).mp h)
  · rintro ⟨h1, h2, G, hG, h3⟩
    refine ⟨?_, gamma G, ⟨G, hG, rfl⟩, fun h => h3 ((C05.gamma_correct hm G ρ).mpr h)⟩
    rintro F (hF | ⟨F', hF', rfl⟩)
    · exact h1 F hF
    · exact (C05.gamma_correct hm F' ρ).mp (h2 F' hF')

/-- **C03, both representations and every flag combination.** Some emitted problem is refuted
    by the classical interpretation that merges `(H,T)` iff the h-extents are included in the
    t-extents (on the programs' predicates) and `(H,T)` satisfies one program but not the other, in a
    direction the task asks for. Hypotheses: the pass bound sufficed (`strongProblems … = some ps`),
    no usize overflow of the global variables, `rename_conflicting_symbols` is the identity on the
    assembled problems (`NoSymbolConflict`; otherwise the statement is about renamed constants),
    and - only when simplification is on or the mu representation is used - `H ⊆ T` everywhere
    (the HT portfolio and the natural translation are HT-equivalences for such interpretations; for `H ⊄ T` on a program predicate the left side is
    false by the transition axioms alone, see `strong_refutes_needs_sub`). -/
theorem strong_refutes (t : StrongTask) (fuel : Nat) (ps : List Problem)
    (h : strongProblems t fuel = some ps)
    (hpl : globalsPanic t.left = false) (hpr : globalsPanic t.right = false)
    (hnc : NoSymbolConflict t fuel)
    {J : Interp} {M : HTI} (hm : C05.Merges J M)
    (hsub : (t.simplify = true ∨ t.rep = .mu) → M.Sub) (ρ : Asg) :
    (∃ P ∈ ps, Refutes J ρ P) ↔
      SubOn M (ext t.left.preds t.right.preds) ∧
      (((t.direction = .universal ∨ t.direction = .forward) ∧
          progSat M .here t.left ∧ ¬ progSat M .here t.right) ∨
       ((t.direction = .universal ∨ t.direction = .backward) ∧
          progSat M .here t.right ∧ ¬ progSat M .here t.left)) :=
  Anthem.strong_refutes t fuel ps h hpl hpr hnc hm hsub ρ

/-- Without any hypothesis on `(H,T)`, representation or flags: an interpretation whose h-extents
    are not included in its t-extents (on a predicate of the programs) refutes no emitted problem. -/
theorem strong_refutes_needs_sub (t : StrongTask) (fuel : Nat) (ps : List Problem)
    (h : strongProblems t fuel = some ps) (hnc : NoSymbolConflict t fuel)
    {J : Interp} {M : HTI} (hm : C05.Merges J M) (ρ : Asg)
    (hns : ¬ SubOn M (ext t.left.preds t.right.preds)) : ¬ ∃ P ∈ ps, Refutes J ρ P :=
  fun href => hns (strong_refuted_subOn t fuel ps h hnc hm ρ href)

/-- Hence: all emitted problems of a universal task are free of standard countermodels exactly when
    the two programs have the same here-and-there models, i.e. are strongly equivalent. -/
theorem strongly_equivalent_iff (t : StrongTask)
    (hdir : t.direction = .universal) (fuel : Nat) (ps : List Problem)
    (h : strongProblems t fuel = some ps)
    (hpl : globalsPanic t.left = false) (hpr : globalsPanic t.right = false)
    (hnc : NoSymbolConflict t fuel) :
    (∀ (J : Interp) (M : HTI), C05.Merges J M → M.Sub → ∀ ρ : Asg, ¬ ∃ P ∈ ps, Refutes J ρ P) ↔
      (∀ M : HTI, M.Sub → (progSat M .here t.left ↔ progSat M .here t.right)) := by
  constructor
  · intro hall M hs
    obtain ⟨J, hm⟩ := C05.merge_exists M
    have hno := hall J M hm hs (fun _ => .inf)
    rw [strong_refutes t fuel ps h hpl hpr hnc hm (fun _ => hs)] at hno
    have hsubon : SubOn M (ext t.left.preds t.right.preds) := fun p _ ds _ hh => hs _ _ hh
    constructor
    · intro hL
      exact Classical.byContradiction fun hR => hno ⟨hsubon, Or.inl ⟨Or.inl hdir, hL, hR⟩⟩
    · intro hR
      exact Classical.byContradiction fun hL => hno ⟨hsubon, Or.inr ⟨Or.inl hdir, hR, hL⟩⟩
  · intro hall J M hm hs ρ href
    rw [strong_refutes t fuel ps h hpl hpr hnc hm (fun _ => hs)] at href
    obtain ⟨_, ⟨_, hL, hR⟩ | ⟨_, hR, hL⟩⟩ := href
    · exact hR ((hall M hs).mp hL)
    · exact hL ((hall M hs).mpr hR)

/-- **C03 without the side condition** (since the repair of the symbol-order defect,
    `rename_conflicting_symbols` renames the clashing *propositional predicate* and leaves symbolic
    constants - and hence their order - alone). For the two processed theories of the task: some emitted
    problem is refuted by the classical interpretation `J` iff, in a requested direction, the
    here-and-there interpretation merged by `J` *read through the renaming of that direction's problem*
    (`propReading`: a renamed h- or t-copy of a propositional predicate is read at its new name) has
    `H ⊆ T` on the programs' predicates and satisfies one program but not the other. -/
theorem strong_refutes_with_renaming (t : StrongTask) (fuel : Nat) (ps : List Problem)
    (h : strongProblems t fuel = some ps)
    (hpl : globalsPanic t.left = false) (hpr : globalsPanic t.right = false) :
    ∃ l r, processTheory t fuel t.left = some l ∧ processTheory t fuel t.right = some r ∧
      ∀ (J : Interp) (MF MB : HTI),
        C05.Merges ⟨propReading (directionProblem0 "forward" (transitionAxioms t) l r "left_" "right_").propRenaming
          J.pred, J.fc⟩ MF →
        C05.Merges ⟨propReading (directionProblem0 "backward" (transitionAxioms t) r l "right_" "left_").propRenaming
          J.pred, J.fc⟩ MB →
        ((t.simplify = true ∨ t.rep = .mu) → MF.Sub ∧ MB.Sub) → ∀ ρ : Asg,
        ((∃ P ∈ ps, Refutes J ρ P) ↔
          ((t.direction = .universal ∨ t.direction = .forward) ∧
              SubOn MF (ext t.left.preds t.right.preds) ∧
              progSat MF .here t.left ∧ ¬ progSat MF .here t.right) ∨
          ((t.direction = .universal ∨ t.direction = .backward) ∧
              SubOn MB (ext t.left.preds t.right.preds) ∧
              progSat MB .here t.right ∧ ¬ progSat MB .here t.left)) :=
  strong_refutes_renamed t fuel ps h hpl hpr

/-- **"Hence all problems are theorems exactly when the programs are strongly equivalent" - the soundness
    half with no side condition**: for a universal task (either representation, every flag combination),
    if NO emitted problem has a countermodel, then every here-and-there interpretation with `H ⊆ T`
    satisfies the left program iff it satisfies the right one. (`rename_conflicting_symbols` needs no
    hypothesis: `reading_surjective`.) -/
theorem strong_equivalence_sound_no_side_condition (t : StrongTask) (hdir : t.direction = .universal) (fuel : Nat)
    (ps : List Problem) (h : strongProblems t fuel = some ps)
    (hvalid : ∀ P ∈ ps, ∀ J ρ, ¬ Refutes J ρ P) :
    ∀ M : HTI, M.Sub → (progSat M .here t.left ↔ progSat M .here t.right) :=
  strong_valid_implies_equivalent t hdir fuel ps h hvalid

/-- **the completeness half with renaming**: if the programs have the same here-and-there models, no
    interpretation whose readings (through the renamings of the two directions) merge interpretations with
    `H ⊆ T` refutes an emitted problem. -/
theorem strong_equivalence_complete_with_renaming (t : StrongTask) (fuel : Nat) (ps : List Problem)
    (h : strongProblems t fuel = some ps)
    (hequiv : ∀ M : HTI, M.Sub → (progSat M .here t.left ↔ progSat M .here t.right)) :
    ∃ l r, processTheory t fuel t.left = some l ∧ processTheory t fuel t.right = some r ∧
      ∀ (J : Interp) (MF MB : HTI),
        C05.Merges ⟨propReading (directionProblem0 "forward" (transitionAxioms t) l r "left_" "right_").propRenaming
          J.pred, J.fc⟩ MF →
        C05.Merges ⟨propReading (directionProblem0 "backward" (transitionAxioms t) r l "right_" "left_").propRenaming
          J.pred, J.fc⟩ MB →
        MF.Sub → MB.Sub → ∀ ρ : Asg, ¬ ∃ P ∈ ps, Refutes J ρ P := by
  obtain ⟨l, r, hl, hr, hmain⟩ := strong_refutes_renamed t fuel ps h rfl rfl
  refine ⟨l, r, hl, hr, fun J MF MB hmF hmB hsF hsB ρ href => ?_⟩
  rcases (hmain J MF MB hmF hmB (fun _ => ⟨hsF, hsB⟩) ρ).mp href with ⟨_, _, hL, hR⟩ | ⟨_, _, hR, hL⟩
  · exact hR ((hequiv MF hsF).mp hL)
  · exact hL ((hequiv MB hsB).mpr hR)

/-- the names given to clashing propositional predicates are free (no symbolic constant, predicate symbol
    or placeholder of the problem has them) and pairwise different, so reading an interpretation through
    the renaming loses nothing -/
theorem clashing_predicates_get_free_names (p : Problem) :
    (∀ x ∈ p.propRenaming, x.2 ∉ p.occupiedNames) ∧ p.propRenaming.Pairwise fun x y => x.2 ≠ y.2 :=
  propRenaming_fresh p

/-- the problems of a task, as `(name, symbolic constants, predicate names)` -/
def problemNames (t : StrongTask) : Option (List (String × List String × List String)) :=
  (strongProblems t 8).map fun ps => ps.map fun p => (p.name, p.symbols, p.preds.map (·.symbol))

/-- **Repaired defect (symbol order).** For `p. q :- tp_ < tp.` against `p. q.` the constant `tp` collides
    with the t-copy of `p/0`. It used to be renamed `tp__s` - but `tp < tp_` whereas `tp_ < tp__s`, so the
    emitted problems spoke about another order than the programs and every problem was valid although the
    programs are not strongly equivalent. Now the predicate is renamed (`tp_p`) and the constants `tp_`,
    `tp` keep their names. -/
theorem rename_keeps_symbols_witness :
    problemNames ⟨[⟨.basic ⟨"p", []⟩, []⟩, ⟨.basic ⟨"q", []⟩, [.cmp .lt (.pre (.sym "tp_")) (.pre (.sym "tp"))]⟩],
      [⟨.basic ⟨"p", []⟩, []⟩, ⟨.basic ⟨"q", []⟩, []⟩], .sequential, .forward, .tauStar, false, false⟩ =
      some [("forward_0", ["tp_", "tp"], ["hp", "tp_p", "hq", "tq"]),
            ("forward_1", ["tp_", "tp"], ["hp", "tp_p", "hq", "tq"])] := by decide

/-- Non-vacuity of the hypotheses: a task with a symbolic constant and variables satisfies
    `NoSymbolConflict` and the pass bound (kernel-evaluated). -/
example : NoSymbolConflict ⟨[⟨.basic ⟨"p", [.pre (.sym "a")]⟩, []⟩],
    [⟨.basic ⟨"p", [.var "X"]⟩, [.lit ⟨.pos, ⟨"q", [.var "X"]⟩⟩]⟩],
    .sequential, .universal, .tauStar, false, false⟩ 8 := by
  intro l r hl hr
  injection hl with hl; injection hr with hr
  subst hl; subst hr
  decide

/-- Non-vacuity: the model really emits a forward and a backward family for a universal task. -/
example : ((strongProblems ⟨[⟨.basic ⟨"p", []⟩, []⟩], [⟨.basic ⟨"p", []⟩, [.lit ⟨.pos, ⟨"q", []⟩⟩]⟩],
    .sequential, .universal, .tauStar, false, false⟩ 8).map (·.map (·.name))) =
    some ["forward_0", "backward_0"] := by decide

end Anthem.C03
