/-
  C04 — completion of a tight program's theory has exactly its stable models.
  Status: proved at full strength (`completion_tight : CompletionTight`). Layers: (1) the refusal
  half (`completion_refuses`: whatever `completion` accepts is completable in the sense of the
  independent specification `Completable`, predicates never get two heads); (2) Fages' theorem at
  the level of the reference semantics (`tight_stable_iff_supported`, with input predicates;
  tightness is exact by C11) and its tau* reading; (3) the formula level (Proofs/CompletionSem.lean):
  tau* formulas are closed and split into constraints and partial definitions with pairwise distinct
  variable heads, the grouping by head atom, empty definitions for predicates without rules, no head
  mismatch, inputs left open, and the meaning of each completed definition
  `forall V (p(V) <-> exists U body_1 or ...)` in terms of the reference semantics.
-/
import AnthemModel.Model.Completion
import AnthemModel.Model.Analyze
import AnthemModel.Model.TauStar
import AnthemModel.Semantics.Asp
import AnthemModel.Proofs.Fages
import AnthemModel.Proofs.CompletionSem
namespace Anthem.C04
open Asp

/-- The model-theoretic statement at full strength. -/
def CompletionTight : Prop :=
  ∀ (P : Program) (ins : List Pred), isTight P = true → globalsPanic P = false →
    (∀ q ∈ ins, q ∉ P.headPreds) →
    ∃ Γ, completion (tauStar P) ins = some Γ ∧
      ∀ (T : PredI) (fc : FcI) (ρ : Asg),
        (∀ q a, T q a → (⟨q, a.length⟩ : Pred) ∈ ext P.preds ins) →
        ((∀ F ∈ Γ, sat ⟨T, fc⟩ F ρ) ↔ Stable P ins T fc)

/-- **C04, reference level** (Fages): for a program that `is_tight` accepts, and any input
    predicates, the stable models are exactly the classical models in which every true atom of a
    non-input predicate is produced by a rule with a true body. The direction "stable ⇒ supported"
    holds for every program; tightness (no predicate depends positively on itself - `tight_iff_acyclic`)
    is what makes "supported ⇒ stable" true. -/
theorem tight_stable_iff_supported (P : Program) (htight : isTight P = true) (ins : List Pred)
    (T : PredI) (fc : FcI) :
    Stable P ins T fc ↔ progSat ⟨T, T, fc⟩ .there P ∧ Supported P ins T fc :=
  Anthem.tight_stable_iff_supported P htight ins T fc

/-- … read through the tau* theory (C01): the equilibrium models of `tau_star(Π)` with inputs are
    the supported models. -/
theorem tight_equilibrium_iff_supported (P : Program) (htight : isTight P = true)
    (hp : globalsPanic P = false) (ins : List Pred) (T : PredI) (fc : FcI) (ρ : Asg) :
    ((∀ F ∈ tauStar P, ht ⟨T, T, fc⟩ F .there ρ) ∧
        ∀ H : PredI, (∀ q a, H q a → T q a) →
          (∀ q a, (⟨q, a.length⟩ : Pred) ∈ ins → (H q a ↔ T q a)) →
          (∀ F ∈ tauStar P, ht ⟨H, T, fc⟩ F .here ρ) → ∀ q a, T q a → H q a) ↔
      (progSat ⟨T, T, fc⟩ .there P ∧ Supported P ins T fc) := by
  rw [← Anthem.tight_stable_iff_supported P htight ins T fc]
  unfold Stable
  rw [tauStar_correct P hp ⟨T, T, fc⟩ .there ρ]
  refine and_congr_right fun _ => forall_congr' fun H => imp_congr_right fun _ =>
    imp_congr_right fun _ => ?_
  rw [tauStar_correct P hp ⟨H, T, fc⟩ .here ρ]

/-- Tightness matters: `p :- p.` has the supported model `{p}` which is not stable. -/
theorem non_tight_counterexample :
    let P : Program := [⟨.basic ⟨"p", []⟩, [.lit ⟨.pos, ⟨"p", []⟩⟩]⟩]
    let T : PredI := fun q ds => q = "p" ∧ ds = []
    isTight P = false ∧ (progSat ⟨T, T, fun _ _ => .inf⟩ .there P ∧ Supported P [] T (fun _ _ => .inf)) ∧
      ¬ Stable P [] T (fun _ _ => .inf) := by
  intro P T
  refine ⟨by decide, ⟨?_, ?_⟩, ?_⟩
  · intro r hr σ
    simp only [P, List.mem_singleton] at hr
    subst hr
    refine ⟨fun _ ds hv => ?_, fun _ ds hv => ?_⟩ <;>
      (cases ds <;> simp [valsList] at hv ⊢ <;> exact ⟨rfl, rfl⟩)
  · intro q ds hT _
    obtain ⟨rfl, rfl⟩ := hT
    refine ⟨_, List.mem_singleton.mpr rfl, ⟨"p", []⟩, Or.inl rfl, rfl, fun _ => .inf, trivial, ?_⟩
    intro f hf
    simp only [List.mem_singleton] at hf
    subst hf
    exact ⟨[], trivial, rfl, rfl⟩
  · intro hst
    have := hst.2 (fun _ _ => False) (fun _ _ h => h.elim) (fun _ _ h => by cases h) ?_ "p" [] ⟨rfl, rfl⟩
    · exact this
    · intro r hr σ
      simp only [P, List.mem_singleton] at hr
      subst hr
      refine ⟨fun hb => ?_, fun _ ds hv => ?_⟩
      · have := hb _ List.mem_cons_self
        obtain ⟨ds, _, h⟩ := this
        exact h.elim
      · cases ds <;> simp [valsList] at hv ⊢ <;> exact ⟨rfl, rfl⟩

/-- **C04.** For every program that `is_tight` accepts (and whose global-variable indices do not
    overflow) and every set of input predicates that do not occur in rule heads: `completion`
    accepts the tau* theory, and a classical interpretation over the program's signature satisfies
    all completed definitions and constraints iff it is a stable model of the program with its own
    input facts. -/
theorem completion_tight : CompletionTight :=
  fun P ins htight hp hins => Anthem.completion_tight P ins htight hp hins

/-- Independent specification of a completable formula: closed; after at most one universal
    quantifier an implication (either direction) whose consequent is `#false` or an atom whose
    arguments are pairwise distinct variables. -/
def CompletableBody : Formula → Prop
  | .bin .imp _ g | .bin .rimp g _ =>
    g = .fls ∨ ∃ a : Atom, g = .atomic (.atom a) ∧ (∀ t ∈ a.args, t.asVar?.isSome) ∧
      (a.args.map GTerm.asVar?).Nodup
  | _ => False

def Completable (f : Formula) : Prop :=
  f.fv = [] ∧ (match f with
    | .quant .all _ g => CompletableBody g
    | g => CompletableBody g)

theorem allUnique_iff_nodup {α} [DecidableEq α] (l : List α) : allUnique l = true ↔ l.Nodup := by
  induction l with
  | nil => simp [allUnique]
  | cons x xs ih => simp [allUnique, ih]

theorem splitImplication_some (f : Formula) (c : Component) (h : splitImplication f = some c) :
    CompletableBody f := by
  unfold splitImplication at h
  have go : ∀ (f' g : Formula),
      (match g with
        | .atomic .fls => some (Component.constraint f)
        | .atomic (.atom a) =>
          let vs := a.args.map GTerm.asVar?
          if vs.contains none || !allUnique vs then none else some (.partialDef f' a)
        | _ => none) = some c →
      (g = .fls ∨ ∃ a : Atom, g = .atomic (.atom a) ∧ (∀ t ∈ a.args, t.asVar?.isSome) ∧
        (a.args.map GTerm.asVar?).Nodup) := by
    intro f' g hg
    split at hg
    · exact Or.inl rfl
    · rename_i a
      right
      refine ⟨a, rfl, ?_⟩
      simp only at hg
      split at hg
      · cases hg
      · rename_i hcond
        simp only [Bool.or_eq_true, Bool.not_eq_true', not_or, Bool.not_eq_false] at hcond
        refine ⟨?_, (allUnique_iff_nodup _).mp hcond.2⟩
        intro t ht
        cases hv : t.asVar? with
        | some _ => rfl
        | none =>
          exfalso
          apply hcond.1
          simp only [List.contains_iff_mem, List.mem_map]
          exact ⟨t, ht, hv⟩
    · cases hg
  split at h
  · exact go _ _ h
  · exact go _ _ h
  · cases h

theorem split_some (f : Formula) (c : Component) (h : split f = some c) : Completable f := by
  unfold split at h
  split at h
  · cases h
  · rename_i hfv
    have hclosed : f.fv = [] := by
      cases hf : f.fv with
      | nil => rfl
      | cons a l => simp [hf] at hfv
    refine ⟨hclosed, ?_⟩
    cases f with
    | quant q vs g' =>
      cases q with
      | all => exact splitImplication_some _ c h
      | ex => exact splitImplication_some _ c h
    | atomic _ => exact splitImplication_some _ c h
    | not _ => exact splitImplication_some _ c h
    | bin _ _ _ => exact splitImplication_some _ c h

theorem components_some (t : Theory) :
    ∀ (acc r : Definitions × List Formula),
      t.foldlM (fun (acc : Definitions × List Formula) formula =>
        match split formula with
        | none => none
        | some (.constraint c) => some (acc.1, acc.2 ++ [c])
        | some (.partialDef f a) => some (acc.1.push a f, acc.2)) acc = some r →
      ∀ f ∈ t, Completable f := by
  induction t with
  | nil => intro _ _ _ f hf; cases hf
  | cons g gs ih =>
    intro acc r h f hf
    simp only [List.foldlM_cons] at h
    cases hs : split g with
    | none => simp [hs] at h
    | some c =>
      rcases List.mem_cons.mp hf with rfl | hf'
      · exact split_some _ c hs
      · cases c with
        | constraint c' => simp only [hs] at h; exact ih _ r h f hf'
        | partialDef f' a => simp only [hs] at h; exact ih _ r h f hf'

/-- **Refusal.** Whatever `completion` accepts is completable: a theory containing a formula with
    free variables, a non-implication, or a head with non-variable or repeated arguments is
    refused rather than silently mis-built. -/
theorem completion_refuses (t : Theory) (ins : List Pred) (Γ : Theory)
    (h : completion t ins = some Γ) : ∀ f ∈ t, Completable f := by
  unfold completion at h
  cases hc : components t with
  | none => simp [hc] at h
  | some r =>
    unfold components at hc
    exact components_some t _ r hc

/-- Non-vacuity: a completable and a non-completable formula (kernel-evaluated). -/
example : (split (.quant .all [⟨"X", .general⟩]
    (.bin .imp (.atomic (.atom ⟨"q", [.var "X"]⟩)) (.atomic (.atom ⟨"p", [.var "X"]⟩))))).isSome = true := by
  decide
example : completion [.bin .imp .tru (.atomic (.atom ⟨"p", [.int (.num 1)]⟩))] [] = none := by decide
example : completion [.quant .all [⟨"X", .general⟩]
    (.bin .imp .tru (.atomic (.atom ⟨"p", [.var "X", .var "X"]⟩)))] [] = none := by decide

end Anthem.C04
