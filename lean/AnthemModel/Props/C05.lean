/-
  C05 — gamma reduces here-and-there satisfaction to classical satisfaction.
  Only property theorems, their non-vacuity examples and direct helper lemmas live here.
-/
import AnthemModel.Semantics.Fol
import AnthemModel.Model.Gamma
namespace Anthem.C05

/-- `J` gives each predicate's h-copy the extent it has in `H`, its t-copy the extent in `T`. -/
structure Merges (J : Interp) (M : HTI) : Prop where
  h : ∀ p a, J.pred ("h" ++ p) a ↔ M.h p a
  t : ∀ p a, J.pred ("t" ++ p) a ↔ M.t p a
  fc : J.fc = M.fc

theorem sat_prepend_h {J : Interp} {M : HTI} (hm : Merges J M) :
    ∀ (F : Formula) (ρ : Asg), sat J (prependPred "h" F) ρ ↔ sat ⟨M.h, M.fc⟩ F ρ := by
  intro F
  induction F with
  | atomic a =>
    intro ρ; cases a <;> simp [prependPred, sat, AtomicF.sat, hm.fc]
    exact hm.h _ _
  | not f ih => intro ρ; simp [prependPred, sat, ih]
  | bin c l r ihl ihr => intro ρ; cases c <;> simp [prependPred, sat, ihl, ihr]
  | quant q vs f ih =>
    intro ρ
    cases q <;> simp only [prependPred, sat]
    · exact bindAll_congr ih ρ
    · exact bindEx_congr ih ρ

theorem sat_prepend_t {J : Interp} {M : HTI} (hm : Merges J M) :
    ∀ (F : Formula) (ρ : Asg), sat J (prependPred "t" F) ρ ↔ sat ⟨M.t, M.fc⟩ F ρ := by
  intro F
  induction F with
  | atomic a =>
    intro ρ; cases a <;> simp [prependPred, sat, AtomicF.sat, hm.fc]
    exact hm.t _ _
  | not f ih => intro ρ; simp [prependPred, sat, ih]
  | bin c l r ihl ihr => intro ρ; cases c <;> simp [prependPred, sat, ihl, ihr]
  | quant q vs f ih =>
    intro ρ
    cases q <;> simp only [prependPred, sat]
    · exact bindAll_congr ih ρ
    · exact bindEx_congr ih ρ

/-- The t-copy of a formula is classically true in the merged interpretation iff the formula
    holds at world `there`. -/
theorem there_correct {J : Interp} {M : HTI} (hm : Merges J M) (F : Formula) (ρ : Asg) :
    ht M F .there ρ ↔ sat J F.there ρ := by
  rw [ht_there_eq_sat, Formula.there, sat_prepend_t hm]

/-- **C05, first sentence.** For every formula, every HT interpretation `(H,T)` (the hypothesis
    `H ⊆ T` is not even needed for the equivalence), every merged classical interpretation and
    every assignment: `(H,T), here ⊨ F ↔ J ⊨ gamma F`. -/
theorem gamma_correct {J : Interp} {M : HTI} (hm : Merges J M) :
    ∀ (F : Formula) (ρ : Asg), ht M F .here ρ ↔ sat J (gamma F) ρ := by
  intro F
  induction F with
  | atomic a =>
    intro ρ
    cases a <;> simp [gamma, Formula.here, prependPred, ht, sat, AtomicF.sat, HTI.at, hm.fc]
    exact (hm.h _ _).symm
  | not f _ =>
    intro ρ
    simp only [gamma, ht, sat]
    exact not_congr (there_correct hm f ρ)
  | bin c l r ihl ihr =>
    intro ρ
    cases c <;> simp only [gamma, ht, sat, ihl, ihr, there_correct hm]
    exact ⟨fun ⟨⟨a, b⟩, ⟨c, d⟩⟩ => ⟨⟨a, c⟩, ⟨b, d⟩⟩, fun ⟨⟨a, c⟩, ⟨b, d⟩⟩ => ⟨⟨a, b⟩, ⟨c, d⟩⟩⟩
  | quant q vs f ih =>
    intro ρ
    cases q <;> simp only [gamma, ht, sat]
    · exact bindAll_congr ih ρ
    · exact bindEx_congr ih ρ

/-- **C05, second sentence.** Distinct predicates receive distinct h- and t-copies: the map
    `(w, p) ↦ w ++ p` is injective on `{"h","t"} × String`. -/
theorem prefix_injective {w₁ w₂ p₁ p₂ : String}
    (h₁ : w₁ = "h" ∨ w₁ = "t") (h₂ : w₂ = "h" ∨ w₂ = "t") (e : w₁ ++ p₁ = w₂ ++ p₂) :
    w₁ = w₂ ∧ p₁ = p₂ := by
  have key : ∀ (a b : Char) (p q : String),
      String.singleton a ++ p = String.singleton b ++ q → a = b ∧ p = q := by
    intro a b p q h
    have := congrArg String.toList h
    simp [String.toList_append] at this
    exact ⟨this.1, String.toList_inj.mp this.2⟩
  rcases h₁ with rfl | rfl <;> rcases h₂ with rfl | rfl
  · exact ⟨rfl, (key 'h' 'h' p₁ p₂ e).2⟩
  · exact absurd (key 'h' 't' p₁ p₂ e).1 (by decide)
  · exact absurd (key 't' 'h' p₁ p₂ e).1 (by decide)
  · exact ⟨rfl, (key 't' 't' p₁ p₂ e).2⟩

/-- Well-definedness: for every HT interpretation a merged classical interpretation exists,
    so `gamma_correct` is never vacuous. -/
theorem merge_exists (M : HTI) : ∃ J : Interp, Merges J M := by
  refine ⟨⟨fun s a => (∃ p, s = "h" ++ p ∧ M.h p a) ∨ (∃ p, s = "t" ++ p ∧ M.t p a), M.fc⟩, ?_, ?_, rfl⟩
  · intro p a
    constructor
    · rintro (⟨q, e, h⟩ | ⟨q, e, _⟩)
      · rw [(prefix_injective (Or.inl rfl) (Or.inl rfl) e).2]; exact h
      · exact absurd (prefix_injective (Or.inl rfl) (Or.inr rfl) e).1 (by decide)
    · exact fun h => Or.inl ⟨p, rfl, h⟩
  · intro p a
    constructor
    · rintro (⟨q, e, _⟩ | ⟨q, e, h⟩)
      · exact absurd (prefix_injective (Or.inr rfl) (Or.inl rfl) e).1 (by decide)
      · rw [(prefix_injective (Or.inr rfl) (Or.inr rfl) e).2]; exact h
    · exact fun h => Or.inr ⟨p, rfl, h⟩

/-- Non-vacuity / sanity: on `p -> not q` the translation is the documented one. -/
example : gamma (.bin .imp (.atomic (.atom ⟨"p", []⟩)) (.not (.atomic (.atom ⟨"q", []⟩)))) =
    .bin .and (.bin .imp (.atomic (.atom ⟨"hp", []⟩)) (.not (.atomic (.atom ⟨"tq", []⟩))))
              (.bin .imp (.atomic (.atom ⟨"tp", []⟩)) (.not (.atomic (.atom ⟨"tq", []⟩)))) := by
  decide

end Anthem.C05
