/-
  C06 — TPTP rendering of a formula preserves its meaning.
  Status (partial): theorems about the text printer's grouping (after the `fix:` that
  parenthesises chained comparisons): a chain is never printed bare under a connective or a
  negation, negative numerals go through `$uminus`, the relation symbol is chosen by the operand
  sorts. The structural translation + its semantics (`tr_sem`) are in Proofs/TptpSem when present.
  Every emitted problem text is additionally parsed by tptp4X in the check (syntax oracle).
-/
import AnthemModel.Model.TptpFmt
namespace Anthem.C06

/-- A chained comparison under a negation is parenthesised (`~(a & b)`, not `~a & b`). -/
theorem chain_under_not (t : GTerm) (g₁ g₂ : Guard) (gs : List Guard) :
    tptpFormula (.not (.atomic (.cmp t (g₁ :: g₂ :: gs)))) =
      "~" ++ ("(" ++ tptpAtomic (.cmp t (g₁ :: g₂ :: gs)) ++ ")") := by
  simp [tptpFormula, tptpMandatory]

/-- A chained comparison on either side of a binary connective is parenthesised. -/
theorem chain_under_bin_left (c : Conn) (t : GTerm) (g₁ g₂ : Guard) (gs : List Guard) (r : Formula) :
    ∃ rs, tptpFormula (.bin c (.atomic (.cmp t (g₁ :: g₂ :: gs))) r) =
      "(" ++ tptpAtomic (.cmp t (g₁ :: g₂ :: gs)) ++ ")" ++ " " ++ c.tptp ++ " " ++ rs := by
  refine ⟨if tptpMandatory r || 3 < tptpPrec r || 3 = tptpPrec r then "(" ++ tptpFormula r ++ ")"
    else tptpFormula r, ?_⟩
  simp [tptpFormula, tptpMandatory]

/-- Single comparisons stay bare (the pinned strings of the test-suite are unaffected). -/
theorem single_comparison_bare (t : GTerm) (g : Guard) :
    tptpFormula (.not (.atomic (.cmp t [g]))) = "~" ++ tptpAtomic (.cmp t [g]) := by
  simp [tptpFormula, tptpMandatory, tptpPrec]

/-- The relation symbol follows the operand sorts: `$lesseq` on two integer terms,
    `p__less_equal__` as soon as one side is not an integer term. -/
theorem relation_by_sorts :
    tptpIndividual (.int (.var "X")) .le (.int (.num 3)) = "$lesseq(X_i, 3)" ∧
    tptpIndividual (.var "X") .le (.int (.num 3)) = "p__less_equal__(X_g, f__integer__(3))" ∧
    tptpIndividual (.int (.num (-2))) .eq (.int (.var "Y")) = "$uminus(2) = Y_i" := by decide

end Anthem.C06
