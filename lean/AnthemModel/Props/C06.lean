/-
  C06 — TPTP rendering of a formula preserves its meaning.
  Proved: the text the printer emits is the rendering of a TFF syntax tree `tr F` (`rendering_is_a_tree`),
  that tree has, in the standard structure induced by an interpretation, exactly the classical
  meaning of `F` under every assignment (`rendering_preserves_meaning`), and consequently an
  entailment between renderings that holds in *all* TFF structures (what a prover establishes)
  holds between the source formulas in all standard interpretations (`entailment_transfers`).
  Plus the grouping facts about the text printer (after the `fix:` that parenthesises chained
  comparisons). What is not proved: that a TPTP reader reads the text `TForm.print t` back as `t`
  (TPTP's grammar is not formalised); this is checked on every run by reading every rendered text
  back with the reader of Model/TffParse.lean (TPTP precedence rules) and comparing with `tr F`,
  and by tptp4X on every emitted problem.
-/
import AnthemModel.Proofs.TffSem
import AnthemModel.Props.C12
namespace Anthem.C06

/-- The text model of the Rust printer is the rendering of the TFF tree `tr F`. -/
theorem rendering_is_a_tree (F : Formula) : tptpFormula F = (tr F).print := (print_tr F).symm

/-- **C06**: in the standard structure of an interpretation `I`, the TFF tree of `F` holds under
    the typed reading of an assignment iff `F` holds classically in `I` under that assignment —
    for every formula (chains of any length, mixed-sort comparisons, negative numerals,
    placeholders of each sort, every connective and binder list). -/
theorem rendering_preserves_meaning (I : Interp) (F : Formula) (ρ : Asg) :
    (tr F).sat (stdStruct I) (stdAsg I ρ) ↔ sat I F ρ := tr_sem I F ρ

/-- What a prover establishes transfers: if in every TFF structure and assignment the renderings of
    the axioms entail the rendering of the conjecture, then in every standard interpretation the
    axioms entail the conjecture. -/
theorem entailment_transfers (axioms : List Formula) (conjecture : Formula)
    (h : ∀ (M : TStruct) (θ : TAsg M), (∀ a ∈ axioms, (tr a).sat M θ) → (tr conjecture).sat M θ)
    (I : Interp) (ρ : Asg) (hax : ∀ a ∈ axioms, sat I a ρ) : sat I conjecture ρ :=
  (tr_sem I conjecture ρ).mp
    (h (stdStruct I) (stdAsg I ρ) fun a ha => (tr_sem I a ρ).mpr (hax a ha))

/-- The same with the axioms anthem adds on its own: a prover may use the preamble and the
    `symbol_order` axioms, because every standard structure satisfies them (C12). -/
theorem entailment_transfers_with_preamble (syms : List String) (hnd : syms.Nodup)
    (axioms : List Formula) (conjecture : Formula)
    (h : ∀ (M : TStruct) (θ : TAsg M), Preamble M → SymbolOrder M syms →
      (∀ a ∈ axioms, (tr a).sat M θ) → (tr conjecture).sat M θ)
    (I : Interp) (ρ : Asg) (hax : ∀ a ∈ axioms, sat I a ρ) : sat I conjecture ρ :=
  (tr_sem I conjecture ρ).mp
    (h (stdStruct I) (stdAsg I ρ) (C12.std_satisfies_preamble I)
      (C12.std_satisfies_symbol_order I syms hnd) fun a ha => (tr_sem I a ρ).mpr (hax a ha))

/-- Non-vacuity: a chained, mixed-sort comparison with a negative numeral under a quantifier. -/
example : tptpFormula (.quant .ex [⟨"N", .integer⟩]
    (.atomic (.cmp (.int (.num (-1))) [⟨.le, .int (.var "N")⟩, ⟨.lt, .var "X"⟩]))) =
    "?[N_i: $int]: ($lesseq($uminus(1), N_i) & p__less__(f__integer__(N_i), X_g))" := by decide

/-- A chained comparison under a negation is parenthesised (`~(a & b)`, not `~a & b`). -/
theorem chain_under_not (t : GTerm) (g₁ g₂ : Guard) (gs : List Guard) :
    tptpFormula (.not (.atomic (.cmp t (g₁ :: g₂ :: gs)))) =
      "~" ++ ("(" ++ tptpAtomic (.cmp t (g₁ :: g₂ :: gs)) ++ ")") := by
  simp [tptpFormula, tptpMandatory]

/-- A chained comparison on either side of a binary connective is parenthesised. -/
theorem chain_under_bin_left (c : Conn) (t : GTerm) (g₁ g₂ : Guard) (gs : List Guard) (r : Formula) :
    ∃ rs, tptpFormula (.bin c (.atomic (.cmp t (g₁ :: g₂ :: gs))) r) =
      "(" ++ tptpAtomic (.cmp t (g₁ :: g₂ :: gs)) ++ ")" ++ " " ++ c.tptp ++ " " ++ rs := by
  refine ⟨if tptpMandatory r || 3 < tptpPrec r || 3 = tptpPrec r then "(" ++ tptpFormula r ++ ")"
    else tptpFormula r, ?_⟩
  simp [tptpFormula, tptpMandatory]

/-- Single comparisons stay bare (the pinned strings of the test-suite are unaffected). -/
theorem single_comparison_bare (t : GTerm) (g : Guard) :
    tptpFormula (.not (.atomic (.cmp t [g]))) = "~" ++ tptpAtomic (.cmp t [g]) := by
  simp [tptpFormula, tptpMandatory, tptpPrec]

/-- The relation symbol follows the operand sorts: `$lesseq` on two integer terms,
    `p__less_equal__` as soon as one side is not an integer term. -/
theorem relation_by_sorts :
    tptpIndividual (.int (.var "X")) .le (.int (.num 3)) = "$lesseq(X_i, 3)" ∧
    tptpIndividual (.var "X") .le (.int (.num 3)) = "p__less_equal__(X_g, f__integer__(3))" ∧
    tptpIndividual (.int (.num (-2))) .eq (.int (.var "Y")) = "$uminus(2) = Y_i" := by decide

end Anthem.C06
