/-
  C07 — simplification portfolios preserve the meaning of every formula.
  Property theorems only; helper lemmas live in Proofs/.
-/
import AnthemModel.Proofs.RewritesBasic
import AnthemModel.Proofs.RewritesQuant
import AnthemModel.Proofs.RewritesClassic
import AnthemModel.Proofs.RewritesFV
namespace Anthem.C07

/-- Every rewrite of the `INTUITIONISTIC` array is an HT-equivalence. -/
theorem intuitionistic_rewrites_sound :
    ∀ r ∈ intuitionistic, ∀ F, HTEquiv (r F) F := by
  intro r hr
  simp only [intuitionistic, List.mem_cons, List.mem_nil_iff, or_false] at hr
  rcases hr with rfl | rfl | rfl | rfl | rfl | rfl | rfl | rfl | rfl | rfl
  · exact evaluateComparisons_htEquiv
  · exact applyNegationDefinitionInverse_htEquiv
  · exact applyReverseImplicationDefinition_htEquiv
  · exact applyEquivalenceDefinitionInverse_htEquiv
  · exact removeIdentities_htEquiv
  · exact removeAnnihilations_htEquiv
  · exact removeIdempotences_htEquiv
  · exact removeOrphanedVariables_htEquiv
  · exact removeEmptyQuantifications_htEquiv
  · exact joinNestedQuantifiers_htEquiv

/-- Strategy layer: whatever the strategy and the pass bound, a portfolio whose composed
    operation preserves HT meaning returns an HT-equivalent formula. -/
theorem strategy_htEquiv {p : Portfolio} (hp : ∀ r ∈ p.rewrites, ∀ F, HTEquiv (r F) F)
    (s : Strategy) (fuel : Nat) (F : Formula) : HTEquiv (simplifyWith p s fuel F).1 F := by
  have hop := compose_htEquiv hp
  cases s <;> simp only [simplifyWith]
  · exact hop F
  · exact applyPost_htEquiv hop F
  · exact applyFixpointFuel_htEquiv hop fuel F

theorem strategy_classEquiv {p : Portfolio} (hp : ∀ r ∈ p.rewrites, ∀ F, ClassEquiv (r F) F)
    (s : Strategy) (fuel : Nat) (F : Formula) : ClassEquiv (simplifyWith p s fuel F).1 F := by
  have hop := compose_classEquiv hp
  cases s <;> simp only [simplifyWith]
  · exact hop F
  · exact applyPost_classEquiv hop F
  · exact applyFixpointFuel_classEquiv hop fuel F

/-- **C07 for the intuitionistic portfolio**: every strategy, every pass bound, every formula,
    every HT interpretation (H ⊆ T), both worlds, every assignment. -/
theorem portfolio_sound_intuitionistic (s : Strategy) (fuel : Nat) (F : Formula) :
    HTEquiv (simplifyWith .intuitionistic s fuel F).1 F :=
  strategy_htEquiv (p := .intuitionistic) intuitionistic_rewrites_sound s fuel F

/-- **C07 for the ht portfolio** (`INTUITIONISTIC ++ HT`, and `HT` is empty in the source). -/
theorem portfolio_sound_ht (s : Strategy) (fuel : Nat) (F : Formula) :
    HTEquiv (simplifyWith .ht s fuel F).1 F := by
  refine strategy_htEquiv (p := .ht) ?_ s fuel F
  intro r hr
  simp only [Portfolio.rewrites, htPortfolio, List.append_nil] at hr
  exact intuitionistic_rewrites_sound r hr

/-- **C07 for the classic portfolio, relative form**: the concatenation
    `INTUITIONISTIC ++ HT ++ CLASSIC` preserves classical meaning as soon as each `CLASSIC`
    rewrite does. (The unconditional statement needs the four classic rewrites below; see
    `portfolio_sound_classic` when present.) -/
theorem portfolio_sound_classic_of
    (hc : ∀ r ∈ classic, ∀ F, ClassEquiv (r F) F)
    (s : Strategy) (fuel : Nat) (F : Formula) :
    ClassEquiv (simplifyWith .classic s fuel F).1 F := by
  refine strategy_classEquiv (p := .classic) ?_ s fuel F
  intro r hr
  simp only [Portfolio.rewrites, htPortfolio, List.append_nil, List.mem_append] at hr
  rcases hr with hr | hr
  · exact fun F => (intuitionistic_rewrites_sound r hr F).toClass
  · exact hc r hr

/-- `remove_double_negation` is a classical equivalence (it is *not* an HT-equivalence, which is
    why it lives in the classic portfolio). -/
theorem removeDoubleNegation_sound (F : Formula) : ClassEquiv (removeDoubleNegation F) F :=
  removeDoubleNegation_classEquiv F

/-- `extend_quantifier_scope` preserves HT meaning (all four shapes, both quantifiers), hence
    classical meaning. -/
theorem extendQuantifierScope_sound (F : Formula) : ClassEquiv (extendQuantifierScope F) F :=
  (extendQuantifierScope_htEquiv F).toClass

/-- `substitute_defined_variables` preserves classical meaning (it rests on the substitution
    lemma C17 and on the soundness of `find_definition`: the body entails `X = t`, `t` does not
    mention `X` and has `X`'s sort). -/
theorem substituteDefinedVariables_sound (F : Formula) :
    ClassEquiv (substituteDefinedVariables F) F :=
  substituteDefinedVariables_classEquiv F

/-- `restrict_quantifier_domain` preserves classical meaning (both forms; rests on C17, on the
    freshness of `choose_fresh_variable_names`, and on the inner equation `I$i = Z` forcing the
    not-rebound general variable `Z` to an integer; needs the repair fix: 8154c20). -/
theorem restrictQuantifierDomain_sound (F : Formula) : ClassEquiv (restrictQuantifierDomain F) F :=
  restrictQuantifierDomain_classEquiv F

/-- `simplify_transitive_equality` preserves classical meaning (needs the repair fix: f1b4fb0:
    only one copy of a duplicated non-reflexive equation is dropped). -/
theorem simplifyTransitiveEquality_sound (F : Formula) :
    ClassEquiv (simplifyTransitiveEquality F) F :=
  simplifyTransitiveEquality_classEquiv F

/-- **C07 for the classic portfolio, unconditional**: every rewrite of
    `INTUITIONISTIC ++ HT ++ CLASSIC`, under every strategy and any number of passes, preserves
    classical satisfaction in every interpretation under every assignment. -/
theorem portfolio_sound_classic (s : Strategy) (fuel : Nat) (F : Formula) :
    ClassEquiv (simplifyWith .classic s fuel F).1 F := by
  refine portfolio_sound_classic_of ?_ s fuel F
  intro r hr
  simp only [classic, List.mem_cons, List.mem_nil_iff, or_false] at hr
  rcases hr with rfl | rfl | rfl | rfl | rfl
  · exact removeDoubleNegation_classEquiv
  · exact substituteDefinedVariables_classEquiv
  · exact restrictQuantifierDomain_classEquiv
  · exact extendQuantifierScope_sound
  · exact simplifyTransitiveEquality_classEquiv

/-- Every one of the fifteen rewrites is free-variable non-increasing. -/
theorem rewrites_no_new_free_variables :
    ∀ r ∈ intuitionistic ++ htPortfolio ++ classic, ∀ F, FVLe (r F) F := by
  intro r hr
  simp only [intuitionistic, htPortfolio, classic, List.append_nil, List.mem_append, List.mem_cons,
    List.mem_nil_iff, or_false] at hr
  rcases hr with (rfl | rfl | rfl | rfl | rfl | rfl | rfl | rfl | rfl | rfl) | (rfl | rfl | rfl | rfl | rfl)
  · exact evaluateComparisons_FVLe
  · exact applyNegationDefinitionInverse_FVLe
  · exact applyReverseImplicationDefinition_FVLe
  · exact applyEquivalenceDefinitionInverse_FVLe
  · exact removeIdentities_FVLe
  · exact removeAnnihilations_FVLe
  · exact removeIdempotences_FVLe
  · exact removeOrphanedVariables_FVLe
  · exact removeEmptyQuantifications_FVLe
  · exact joinNestedQuantifiers_FVLe
  · exact removeDoubleNegation_FVLe
  · exact substituteDefinedVariables_FVLe
  · exact restrictQuantifierDomain_FVLe
  · exact extendQuantifierScope_FVLe
  · exact simplifyTransitiveEquality_FVLe

/-- **C07, second claim**: whatever the portfolio, strategy and pass bound, the result has no free
    variable that the input did not have. -/
theorem portfolio_no_new_free_variables (p : Portfolio) (s : Strategy) (fuel : Nat) (F : Formula) :
    ∀ v, (simplifyWith p s fuel F).1.FV v → F.FV v := by
  have hop : ∀ G, FVLe (compose p.rewrites G) G := by
    apply compose_FVLe
    intro r hr
    apply rewrites_no_new_free_variables r
    cases p <;> simp only [Portfolio.rewrites] at hr <;> simp only [List.mem_append] at hr ⊢
    · exact Or.inl (Or.inl hr)
    · exact Or.inl hr
    · exact hr
  unfold simplifyWith
  cases s with
  | shallow => exact hop F
  | recursive => exact applyPost_FVLe hop F
  | fixpoint => exact applyFixpointFuel_FVLe hop fuel F

/-- Non-vacuity: the portfolio really rewrites something (`p and #true` becomes `p`). -/
example : (simplifyWith .intuitionistic .fixpoint 8
    (.bin .and (.atomic (.atom ⟨"p", []⟩)) (.atomic .tru))).1 = .atomic (.atom ⟨"p", []⟩) := by
  decide

end Anthem.C07
