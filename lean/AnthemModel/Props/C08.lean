/-
  C08 — natural and mu translations agree with tau*.
  Status: proved. `natural_correct`: every formula the natural translation prints for a rule holds
  in an HT interpretation (H ⊆ T, any world, any assignment) iff the rule is satisfied in the
  reference semantics - hence iff the rule's tau* formula holds (`natural_equiv_tau_star`,
  `mu_equiv_tau_star`: formula by formula). `mu` is total. The integer-sorted variables are sound
  because an instance in which such a variable has a non-integer value holds vacuously
  (`ruleInst_vacuous`). The fresh interval variables `N<i>` are proved fresh (`headFreshOK`).
-/
import AnthemModel.Model.Natural
import AnthemModel.Semantics.Asp
import AnthemModel.Proofs.NaturalFresh
namespace Anthem.C08
open Asp

/-- The property at full strength for one rule. -/
def NaturalCorrect : Prop :=
  ∀ (r : Rule) (F : Formula), naturalRule r = some F →
    ∀ (M : HTI), M.Sub → ∀ (w : World) (ρ : Asg), ht M F w ρ ↔ ruleSat M w r

/-- **C08, natural.** -/
theorem natural_correct : NaturalCorrect :=
  fun r F h M hs w ρ => naturalRule_sem M hs w r F h (fun a _ => headFreshOK a) ρ

/-- Each formula `translate --with natural` prints is HT-equivalent to the tau* formula of the same
    rule (with any admissible choice of global variables, in particular the program's). -/
theorem natural_equiv_tau_star (r : Rule) (F : Formula) (h : naturalRule r = some F)
    (globals : List String) (hn : globals.Nodup) (hfresh : ∀ g ∈ globals, g ∉ r.vars)
    (hlen : r.head.arity ≤ globals.length) :
    HTEquiv F (tauStarRule r globals) := fun M hs w ρ =>
  (natural_correct r F h M hs w ρ).trans (tauStarRule_sem M w r globals hn hfresh hlen ρ).symm

/-- **C08, mu**: formula by formula, `mu(Π)` and `tau_star(Π)` are HT-equivalent. -/
theorem mu_equiv_tau_star (P : Program) (hp : globalsPanic P = false) (i : Nat) (hi : i < P.length) :
    HTEquiv ((mu P)[i]'(by simpa [mu] using hi)) ((tauStar P)[i]'(by simpa [tauStar] using hi)) := by
  intro M hs w ρ
  obtain ⟨hn, hfresh, hlen⟩ := chooseFreshGlobals_spec P hp
  have hr : P[i] ∈ P := List.getElem_mem hi
  have htau : ht M ((tauStar P)[i]'(by simpa [tauStar] using hi)) w ρ ↔ ruleSat M w P[i] := by
    simp only [tauStar, List.getElem_map]
    exact tauStarRule_sem M w P[i] _ hn (fun g hg hx => hfresh g hg (rule_vars_subset P _ hr g hx))
      (by rw [hlen]; exact arity_le_maxHeadArity P _ hr) ρ
  rw [htau]
  simp only [mu, List.getElem_map]
  cases hnat : naturalRule P[i] with
  | some F => simp only [hnat]; exact natural_correct P[i] F hnat M hs w ρ
  | none =>
    simp only [hnat]
    exact tauStarRule_sem M w P[i] _ hn (fun g hg hx => hfresh g hg (rule_vars_subset P _ hr g hx))
      (by rw [hlen]; exact arity_le_maxHeadArity P _ hr) ρ

/-- … and as theories: `mu(Π)` has exactly the HT models of `Π`. -/
theorem mu_correct (P : Program) (hp : globalsPanic P = false) (M : HTI) (hs : M.Sub) (w : World) (ρ : Asg) :
    (∀ F ∈ mu P, ht M F w ρ) ↔ progSat M w P := by
  obtain ⟨hn, hfresh, hlen⟩ := chooseFreshGlobals_spec P hp
  unfold mu progSat
  simp only [List.mem_map, forall_exists_index, and_imp, forall_apply_eq_imp_iff₂]
  refine forall_congr' fun r => imp_congr_right fun hr => ?_
  cases hnat : naturalRule r with
  | some F => simp only [hnat]; exact natural_correct r F hnat M hs w ρ
  | none =>
    simp only [hnat]
    exact tauStarRule_sem M w r _ hn (fun g hg hx => hfresh g hg (rule_vars_subset P r hr g hx))
      (by rw [hlen]; exact arity_le_maxHeadArity P r hr) ρ

/-- Non-vacuity: natural accepts a rule with an interval in the head, arithmetic in the body and an
    `=`-interval comparison, and introduces the integer variables (kernel-evaluated). -/
example : (naturalRule ⟨.basic ⟨"p", [.bin .interval (.pre (.num 1)) (.var "N"), .var "X"]⟩,
    [.lit ⟨.pos, ⟨"q", [.bin .add (.var "X") (.pre (.num 1))]⟩⟩, .cmp .eq (.var "Y") (.bin .interval (.pre (.num 0)) (.var "N"))]⟩).isSome = true := by
  decide

/-- `mu` never fails and yields one formula per rule. -/
theorem mu_total (p : Program) : (mu p).length = p.length := by
  simp [mu]

/-- A rule the natural translation accepts is translated naturally by `mu` … -/
theorem mu_rule_natural (p : Program) (i : Nat) (h : i < p.length) (f : Formula)
    (hn : naturalRule p[i] = some f) : (mu p)[i]'(by simpa [mu] using h) = f := by
  simp only [mu, List.getElem_map, hn]

/-- … and any other rule gets its tau* translation with the program-wide globals. -/
theorem mu_rule_fallback (p : Program) (i : Nat) (h : i < p.length)
    (hn : naturalRule p[i] = none) :
    (mu p)[i]'(by simpa [mu] using h) = tauStarRule p[i] (chooseFreshGlobals p) := by
  simp only [mu, List.getElem_map, hn]

/-- `natural` accepts a program iff it accepts every rule; `is_regular` is exactly that. -/
theorem regular_iff (p : Program) : isRegular p = true ↔ ∀ r ∈ p, (naturalRule r).isSome = true := by
  unfold isRegular natural
  induction p with
  | nil => simp
  | cons r rs ih =>
    simp only [List.mapM_cons, List.mem_cons, forall_eq_or_imp]
    cases h : naturalRule r with
    | none => simp
    | some f =>
      cases h' : List.mapM naturalRule rs with
      | none => simp [h'] at ih ⊢; exact ih
      | some fs => simp [h'] at ih ⊢; exact ih

/-- On a program that `natural` accepts, `mu` and `natural` print the same theory. -/
theorem mu_eq_natural (p : Program) (t : Theory) (h : natural p = some t) : mu p = t := by
  unfold natural at h
  unfold mu
  induction p generalizing t with
  | nil => simp at h; simp [h]
  | cons r rs ih =>
    simp only [List.mapM_cons] at h
    cases hr : naturalRule r with
    | none => simp [hr] at h
    | some f =>
      cases hrs : List.mapM naturalRule rs with
      | none => simp [hr, hrs] at h
      | some fs =>
        simp [hr, hrs] at h
        subst h
        have := ih fs hrs
        simp only [List.map_cons, hr]
        congr 1
        -- the globals are only used on rules natural rejects, and there are none in `rs`
        have key : ∀ g, rs.map (fun r => match naturalRule r with | some f => f | none => tauStarRule r g) = fs := by
          intro g
          clear ih this
          induction rs generalizing fs with
          | nil => simp at hrs; simp [hrs]
          | cons r' rs' ih' =>
            simp only [List.mapM_cons] at hrs
            cases hr' : naturalRule r' with
            | none => simp [hr'] at hrs
            | some f' =>
              cases hrs' : List.mapM naturalRule rs' with
              | none => simp [hr', hrs'] at hrs
              | some fs' =>
                simp [hr', hrs'] at hrs
                subst hrs
                simp [hr', ih' fs' hrs']
        exact key _

/-- Non-vacuity: an irregular rule (division) falls back to tau*, a regular one does not. -/
example : naturalRule ⟨.basic ⟨"p", [.bin .div (.var "X") (.pre (.num 2))]⟩, []⟩ = none := by decide
example : (naturalRule ⟨.basic ⟨"p", [.bin .add (.var "X") (.pre (.num 2))]⟩, []⟩).isSome = true := by
  decide

end Anthem.C08
