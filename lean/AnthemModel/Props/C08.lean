/-
  C08 — natural and mu translations agree with tau*.
  Status (partial): structural theorems about `mu`/`natural` (totality of mu, per-rule fallback,
  regularity = acceptance by natural); the semantic theorem `natural_correct` is stated as
  `NaturalCorrect` and not yet proved; the tie is the exact-output correspondence.
-/
import AnthemModel.Model.Natural
import AnthemModel.Semantics.Asp
namespace Anthem.C08
open Asp

/-- The property at full strength for one rule. -/
def NaturalCorrect : Prop :=
  ∀ (r : Rule) (F : Formula), naturalRule r = some F →
    ∀ (M : HTI), M.Sub → ∀ (w : World) (ρ : Asg), ht M F w ρ ↔ ruleSat M w r

/-- `mu` never fails and yields one formula per rule. -/
theorem mu_total (p : Program) : (mu p).length = p.length := by
  simp [mu]

/-- A rule the natural translation accepts is translated naturally by `mu` … -/
theorem mu_rule_natural (p : Program) (i : Nat) (h : i < p.length) (f : Formula)
    (hn : naturalRule p[i] = some f) : (mu p)[i]'(by simpa [mu] using h) = f := by
  simp only [mu, List.getElem_map, hn]

/-- … and any other rule gets its tau* translation with the program-wide globals. -/
theorem mu_rule_fallback (p : Program) (i : Nat) (h : i < p.length)
    (hn : naturalRule p[i] = none) :
    (mu p)[i]'(by simpa [mu] using h) = tauStarRule p[i] (chooseFreshGlobals p) := by
  simp only [mu, List.getElem_map, hn]

/-- `natural` accepts a program iff it accepts every rule; `is_regular` is exactly that. -/
theorem regular_iff (p : Program) : isRegular p = true ↔ ∀ r ∈ p, (naturalRule r).isSome = true := by
  unfold isRegular natural
  induction p with
  | nil => simp
  | cons r rs ih =>
    simp only [List.mapM_cons, List.mem_cons, forall_eq_or_imp]
    cases h : naturalRule r with
    | none => simp
    | some f =>
      cases h' : List.mapM naturalRule rs with
      | none => simp [h'] at ih ⊢; exact ih
      | some fs => simp [h'] at ih ⊢; exact ih

/-- On a program that `natural` accepts, `mu` and `natural` print the same theory. -/
theorem mu_eq_natural (p : Program) (t : Theory) (h : natural p = some t) : mu p = t := by
  unfold natural at h
  unfold mu
  induction p generalizing t with
  | nil => simp at h; simp [h]
  | cons r rs ih =>
    simp only [List.mapM_cons] at h
    cases hr : naturalRule r with
    | none => simp [hr] at h
    | some f =>
      cases hrs : List.mapM naturalRule rs with
      | none => simp [hr, hrs] at h
      | some fs =>
        simp [hr, hrs] at h
        subst h
        have := ih fs hrs
        simp only [List.map_cons, hr]
        congr 1
        -- the globals are only used on rules natural rejects, and there are none in `rs`
        have key : ∀ g, rs.map (fun r => match naturalRule r with | some f => f | none => tauStarRule r g) = fs := by
          intro g
          clear ih this
          induction rs generalizing fs with
          | nil => simp at hrs; simp [hrs]
          | cons r' rs' ih' =>
            simp only [List.mapM_cons] at hrs
            cases hr' : naturalRule r' with
            | none => simp [hr'] at hrs
            | some f' =>
              cases hrs' : List.mapM naturalRule rs' with
              | none => simp [hr', hrs'] at hrs
              | some fs' =>
                simp [hr', hrs'] at hrs
                subst hrs
                simp [hr', ih' fs' hrs']
        exact key _

/-- Non-vacuity: an irregular rule (division) falls back to tau*, a regular one does not. -/
example : naturalRule ⟨.basic ⟨"p", [.bin .div (.var "X") (.pre (.num 2))]⟩, []⟩ = none := by decide
example : (naturalRule ⟨.basic ⟨"p", [.bin .add (.var "X") (.pre (.num 2))]⟩, []⟩).isSome = true := by
  decide

end Anthem.C08
