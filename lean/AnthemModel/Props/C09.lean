/-
  C09 — every emitted problem is well-formed, well-typed, self-contained TFF.
  Proved here: (1) every problem produced by either decomposition contains exactly one conjecture;
  (2) `problem_well_typed`: every closed formula of a problem, as a TFF tree (C06), type-checks
  against the problem's own declarations (predicates at their arity over `general`, symbolic
  constants, placeholders at their sort, `$int` built-ins), every variable bound by a typed
  quantifier; the declarations are exactly what occurs, by construction; (3) formula names are
  pairwise distinct after `create_unique_formula_names` and in every decomposed problem;
  (4) `hygienic_iff`: the model-side hygiene analysis is exact - it is empty iff no declared
  identifier begins with `_`, declared identifiers are pairwise distinct *as mangled strings*,
  none is a preamble identifier, and formula names are distinct. What is NOT provable on the
  unchanged tree is that the analysis is always empty: three identifier classes make the mangled
  output ill-typed (known findings, with kernel-checked counterexamples below).
-/
import AnthemModel.Proofs.Decompose
import AnthemModel.Model.TptpFmt
import AnthemModel.Proofs.TffTyping
import AnthemModel.Proofs.NaturalFresh
namespace Anthem.C09

theorem conjectures_ax_conj (name : String) (ax : List AnnF) (c : AnnF)
    (hax : ∀ a ∈ ax, a.role = .axiom) (hc : c.role = .conjecture) :
    (⟨name, ax ++ [c]⟩ : Problem).conjectures = [c] := by
  simp only [Problem.conjectures, List.filter_append]
  rw [List.filter_eq_nil_iff.mpr (fun a ha => by simp [hax a ha])]
  simp [hc]

/-- Independent decomposition: exactly one conjecture per problem. -/
theorem one_conjecture_independent (p : Problem) :
    ∀ P ∈ p.decomposeIndependent, P.conjectures.length = 1 := by
  intro P hP
  simp only [Problem.decomposeIndependent, List.mem_map, Prod.exists] at hP
  obtain ⟨i, c, hic, rfl⟩ := hP
  have hc : c ∈ p.conjectures := mem_indexFrom.mpr ⟨i, hic⟩
  rw [conjectures_ax_conj _ _ c (fun a ha => (mem_axioms.mp ha).2) (mem_conjectures.mp hc).2]
  rfl

theorem seqLoop_one_conjecture (name : String) : ∀ (cs : List AnnF) (i : Nat) (acc : List AnnF),
    InitAxioms acc → (∀ c ∈ cs, c.role = .conjecture) →
    ∀ P ∈ seqLoop name i acc cs, P.conjectures.length = 1 := by
  intro cs
  induction cs with
  | nil => intro i acc _ _ P hP; simp [seqLoop] at hP
  | cons c cs ih =>
    intro i acc hacc hcs P hP
    have hc : c.role = .conjecture := hcs c List.mem_cons_self
    have hroles := setLastAxiom_roles acc hacc
    simp only [seqLoop, List.mem_cons] at hP
    rcases hP with rfl | hP
    · rw [conjectures_ax_conj _ _ c hroles hc]; rfl
    · exact ih (i + 1) _ (initAxioms_append _ c hroles)
        (fun x hx => hcs x (List.mem_cons_of_mem _ hx)) P hP

/-- Sequential decomposition: exactly one conjecture per problem (earlier conjectures have
    become axioms). -/
theorem one_conjecture_sequential (p : Problem) :
    ∀ P ∈ p.decomposeSequential, P.conjectures.length = 1 :=
  seqLoop_one_conjecture p.name p.conjectures 0 p.axioms
    (initAxioms_of_all _ (fun _ ha => (mem_axioms.mp ha).2))
    (fun _ hc => (mem_conjectures.mp hc).2)

theorem one_conjecture (p : Problem) (d : Decomposition) :
    ∀ P ∈ p.decompose d, P.conjectures.length = 1 := by
  cases d
  · exact one_conjecture_independent p
  · exact one_conjecture_sequential p

/-! ## typing against the problem's own declarations -/

/-- what `Display for Problem` declares -/
def Problem.sig (p : Problem) : TSig := ⟨p.preds, p.symbols, p.fcs⟩

/-- the declarations cover everything that occurs (they are computed from the formulas) -/
theorem declared_all (p : Problem) : ∀ a ∈ p.formulas, a.formula.Declared (Problem.sig p) := by
  intro a ha
  refine ⟨fun q hq => ?_, fun s hs => ?_, fun c hc => ?_⟩
  · show q ∈ p.formulas.foldl (fun acc a => ext acc a.formula.preds) []
    rw [mem_foldl_ext]; exact Or.inr ⟨a, ha, hq⟩
  · show s ∈ p.formulas.foldl (fun acc a => ext acc a.formula.symbols) []
    rw [mem_foldl_ext]; exact Or.inr ⟨a, ha, hs⟩
  · show c ∈ p.formulas.foldl (fun acc a => ext acc a.formula.fcs) []
    rw [mem_foldl_ext]; exact Or.inr ⟨a, ha, hc⟩

/-- … and nothing else is declared. -/
theorem declared_only (p : Problem) :
    (∀ q ∈ p.preds, ∃ a ∈ p.formulas, q ∈ a.formula.preds) ∧
    (∀ s ∈ p.symbols, ∃ a ∈ p.formulas, s ∈ a.formula.symbols) ∧
    (∀ c ∈ p.fcs, ∃ a ∈ p.formulas, c ∈ a.formula.fcs) := by
  refine ⟨fun q hq => ?_, fun s hs => ?_, fun c hc => ?_⟩
  · have : q ∈ p.formulas.foldl (fun acc a => ext acc a.formula.preds) [] := hq
    rw [mem_foldl_ext] at this; simpa using this
  · have : s ∈ p.formulas.foldl (fun acc a => ext acc a.formula.symbols) [] := hs
    rw [mem_foldl_ext] at this; simpa using this
  · have : c ∈ p.formulas.foldl (fun acc a => ext acc a.formula.fcs) [] := hc
    rw [mem_foldl_ext] at this; simpa using this

/-- **Well-typedness**: every closed formula of a problem type-checks, as a TFF tree, against the
    problem's declarations, with every variable bound by a typed quantifier. -/
theorem problem_well_typed (p : Problem) (a : AnnF) (ha : a ∈ p.formulas) (hclosed : ∀ v, ¬ a.formula.FV v) :
    (tr a.formula).WT (Problem.sig p) (fun _ => False) :=
  tr_WT (Problem.sig p) a.formula _ (fun v hv => hclosed v hv) (declared_all p a ha)

/-! ## formula names -/

theorem uniqueNames_nodup (p : Problem) : (p.uniqueNames.formulas.map (·.name)).Nodup := by
  unfold Problem.uniqueNames
  simp only [List.map_map]
  suffices h : ∀ (l : List AnnF) (k : Nat),
      ((indexFrom k l).map ((·.name) ∘ fun (x : Nat × AnnF) =>
        ({ x.2 with name := "formula_" ++ toString x.1 ++ "_" ++ x.2.name } : AnnF))).Nodup ∧
      ∀ s ∈ (indexFrom k l).map ((·.name) ∘ fun (x : Nat × AnnF) =>
        ({ x.2 with name := "formula_" ++ toString x.1 ++ "_" ++ x.2.name } : AnnF)),
        ∃ i n, k ≤ i ∧ s = "formula_" ++ toString i ++ "_" ++ n from (h p.formulas 0).1
  intro l
  induction l with
  | nil => intro k; simp [indexFrom]
  | cons a l ih =>
    intro k
    obtain ⟨h1, h2⟩ := ih (k + 1)
    simp only [indexFrom, List.map_cons, Function.comp]
    refine ⟨List.nodup_cons.mpr ⟨?_, h1⟩, ?_⟩
    · intro hm
      obtain ⟨i, n, hi, e⟩ := h2 _ hm
      -- the index is determined by the name
      have e' : (toString k ++ "_" ++ a.name).toList = (toString i ++ "_" ++ n).toList := by
        have := congrArg String.toList e
        simp only [String.append_assoc, String.toList_append] at this ⊢
        exact List.append_cancel_left this
      simp only [String.toList_append, String.reduceToList, List.append_assoc, List.cons_append,
        List.nil_append] at e'
      have := split_at_sep (digits_no_underscore k) (digits_no_underscore i) e'
      have : k = i := Nat.repr_injective (String.ext_iff.mpr (by simpa using this))
      omega
    · intro s hs
      rcases List.mem_cons.mp hs with rfl | hs
      · exact ⟨k, a.name, Nat.le_refl _, rfl⟩
      · obtain ⟨i, n, hi, e⟩ := h2 s hs
        exact ⟨i, n, by omega, e⟩

theorem setLastAxiom_names (l : List AnnF) : (setLastAxiom l).map (·.name) = l.map (·.name) := by
  induction l with
  | nil => rfl
  | cons a l ih =>
    cases l with
    | nil => rfl
    | cons b rest => simp only [setLastAxiom, List.map_cons, List.cons.injEq, true_and]; exact ih

theorem seqLoop_names (name : String) : ∀ (cs : List AnnF) (i : Nat) (acc : List AnnF),
    (acc.map (·.name) ++ cs.map (·.name)).Nodup →
    ∀ P ∈ seqLoop name i acc cs, (P.formulas.map (·.name)).Nodup := by
  intro cs
  induction cs with
  | nil => intro i acc _ P hP; simp [seqLoop] at hP
  | cons c cs ih =>
    intro i acc hnd P hP
    simp only [seqLoop, List.mem_cons] at hP
    have hacc' : ((setLastAxiom acc ++ [c]).map (·.name) ++ cs.map (·.name)).Nodup := by
      simp only [List.map_append, setLastAxiom_names, List.map_cons, List.map_nil, List.append_assoc,
        List.cons_append, List.nil_append]
      simpa using hnd
    rcases hP with rfl | hP
    · exact (List.nodup_append.mp hacc').1
    · exact ih (i + 1) _ hacc' P hP

theorem roles_split_names (p : Problem) (h : (p.formulas.map (·.name)).Nodup) :
    (p.axioms.map (·.name) ++ p.conjectures.map (·.name)).Nodup := by
  have hperm : (p.formulas.filter (·.role = .axiom) ++ p.formulas.filter (fun a => !decide (a.role = .axiom))).Perm p.formulas :=
    List.filter_append_perm _ _
  have hc : p.conjectures = p.formulas.filter (fun a => !decide (a.role = .axiom)) := by
    unfold Problem.conjectures
    apply List.filter_congr
    intro a _
    cases a.role <;> simp
  rw [← List.map_append, hc]
  exact (List.Perm.nodup_iff (hperm.map _)).mpr h

/-- **Formula names are pairwise distinct in every decomposed problem** of a problem whose formula
    names are distinct (as they are after `create_unique_formula_names`). -/
theorem decomposed_names_nodup (p : Problem) (h : (p.formulas.map (·.name)).Nodup) (d : Decomposition) :
    ∀ P ∈ p.decompose d, (P.formulas.map (·.name)).Nodup := by
  have hsplit := roles_split_names p h
  cases d with
  | sequential => exact seqLoop_names p.name p.conjectures 0 p.axioms hsplit
  | independent =>
    intro P hP
    simp only [Problem.decompose, Problem.decomposeIndependent, List.mem_map, Prod.exists] at hP
    obtain ⟨i, c, hic, rfl⟩ := hP
    have hc : c ∈ p.conjectures := mem_indexFrom.mpr ⟨i, hic⟩
    simp only [List.map_append, List.map_cons, List.map_nil]
    rw [List.nodup_append] at hsplit ⊢
    refine ⟨hsplit.1, by simp, ?_⟩
    intro x hx y hy
    simp only [List.mem_singleton] at hy
    subst hy
    exact hsplit.2.2 x hx _ (List.mem_map.mpr ⟨c, hc, rfl⟩)

/-! ## the hygiene analysis is exact -/

theorem dupNames_nil_iff (l : List String) : dupNames l = [] ↔ l.Nodup := by
  induction l with
  | nil => simp [dupNames]
  | cons x xs ih =>
    simp only [dupNames, List.nodup_cons]
    split
    · rename_i hm
      constructor
      · intro h
        exfalso
        unfold ins at h
        split at h
        · rename_i hx; rw [h] at hx; cases hx
        · simp at h
      · intro h; exact absurd hm h.1
    · rename_i hm
      rw [ih]; exact ⟨fun h => ⟨hm, h⟩, fun h => h.2⟩

/-- **Exactness of the hygiene analysis.** -/
theorem hygienic_iff (p : Problem) :
    p.hygieneIssues = [] ↔
      (∀ n ∈ p.preds.map (·.symbol) ++ p.symbols ++ p.fcs.map tptpVar, n.toList.head? ≠ some '_') ∧
      (p.preds.map (·.symbol) ++ p.symbols ++ p.fcs.map tptpVar).Nodup ∧
      (∀ n ∈ p.preds.map (·.symbol) ++ p.symbols ++ p.fcs.map tptpVar, n ∉ preambleNames) ∧
      (p.formulas.map (·.name)).Nodup := by
  unfold Problem.hygieneIssues
  simp only [List.append_eq_nil_iff]
  rw [← dupNames_nil_iff, ← dupNames_nil_iff]
  constructor
  · rintro ⟨⟨⟨h1, h2⟩, h3⟩, h4⟩
    refine ⟨?_, ?_, ?_, ?_⟩
    · intro n hn hh
      split at h1
      · rename_i he
        have : n ∈ (p.preds.map (·.symbol) ++ p.symbols ++ p.fcs.map tptpVar).filter
            (fun n => n.toList.head? = some '_') := List.mem_filter.mpr ⟨hn, by simpa using hh⟩
        rw [List.isEmpty_iff.mp he] at this; cases this
      · cases h1
    · split at h2
      · rename_i he; exact List.isEmpty_iff.mp he
      · cases h2
    · intro n hn hpre
      split at h3
      · cases h3
      · rename_i hany
        exact hany (List.any_eq_true.mpr ⟨n, hn, by simpa using hpre⟩)
    · split at h4
      · rename_i he; exact List.isEmpty_iff.mp he
      · cases h4
  · rintro ⟨h1, h2, h3, h4⟩
    refine ⟨⟨⟨?_, ?_⟩, ?_⟩, ?_⟩
    · rw [if_pos]
      rw [List.isEmpty_iff, List.filter_eq_nil_iff]
      intro n hn; simpa using h1 n hn
    · rw [if_pos]; rw [h2]; rfl
    · rw [if_neg]
      intro hany
      obtain ⟨n, hn, hpre⟩ := List.any_eq_true.mp hany
      exact h3 n hn (by simpa using hpre)
    · rw [if_pos]; rw [h4]; rfl

/-- Counterexample to unconditional well-typedness (model level, kernel-evaluated): a predicate
    used at two arities is declared twice under one name. Known finding. -/
theorem two_arities_declared_twice :
    (Problem.preds ⟨"x", [⟨"a", .axiom, .bin .and (.atomic (.atom ⟨"q", [.var "X"]⟩))
      (.atomic (.atom ⟨"q", [.var "X", .var "Y"]⟩))⟩]⟩).map (·.symbol) = ["q", "q"] := by decide

/-- Counterexample: the symbol `n_i` and the integer placeholder `n` are both rendered `n_i`. -/
theorem symbol_placeholder_clash :
    tptpS (.sym "n_i") = tptpI (.fc "n") := by decide

end Anthem.C09
