/-
  C09 — every emitted problem is well-formed, well-typed, self-contained TFF.
  Proved here: every problem produced by either decomposition contains exactly one conjecture,
  and the declaration blocks list exactly the predicates / symbols / placeholders that occur
  (by construction of `Problem.tptpText`). Name hygiene (`Hygienic`) is NOT provable on the
  unchanged tree: see known_findings.jsonl (identifier classes that make the output ill-typed);
  every emitted text is additionally run through tptp4X (syntax oracle) by the check.
-/
import AnthemModel.Proofs.Decompose
import AnthemModel.Model.TptpFmt
namespace Anthem.C09

theorem conjectures_ax_conj (name : String) (ax : List AnnF) (c : AnnF)
    (hax : ∀ a ∈ ax, a.role = .axiom) (hc : c.role = .conjecture) :
    (⟨name, ax ++ [c]⟩ : Problem).conjectures = [c] := by
  simp only [Problem.conjectures, List.filter_append]
  rw [List.filter_eq_nil_iff.mpr (fun a ha => by simp [hax a ha])]
  simp [hc]

/-- Independent decomposition: exactly one conjecture per problem. -/
theorem one_conjecture_independent (p : Problem) :
    ∀ P ∈ p.decomposeIndependent, P.conjectures.length = 1 := by
  intro P hP
  simp only [Problem.decomposeIndependent, List.mem_map, Prod.exists] at hP
  obtain ⟨i, c, hic, rfl⟩ := hP
  have hc : c ∈ p.conjectures := mem_indexFrom.mpr ⟨i, hic⟩
  rw [conjectures_ax_conj _ _ c (fun a ha => (mem_axioms.mp ha).2) (mem_conjectures.mp hc).2]
  rfl

theorem seqLoop_one_conjecture (name : String) : ∀ (cs : List AnnF) (i : Nat) (acc : List AnnF),
    InitAxioms acc → (∀ c ∈ cs, c.role = .conjecture) →
    ∀ P ∈ seqLoop name i acc cs, P.conjectures.length = 1 := by
  intro cs
  induction cs with
  | nil => intro i acc _ _ P hP; simp [seqLoop] at hP
  | cons c cs ih =>
    intro i acc hacc hcs P hP
    have hc : c.role = .conjecture := hcs c List.mem_cons_self
    have hroles := setLastAxiom_roles acc hacc
    simp only [seqLoop, List.mem_cons] at hP
    rcases hP with rfl | hP
    · rw [conjectures_ax_conj _ _ c hroles hc]; rfl
    · exact ih (i + 1) _ (initAxioms_append _ c hroles)
        (fun x hx => hcs x (List.mem_cons_of_mem _ hx)) P hP

/-- Sequential decomposition: exactly one conjecture per problem (earlier conjectures have
    become axioms). -/
theorem one_conjecture_sequential (p : Problem) :
    ∀ P ∈ p.decomposeSequential, P.conjectures.length = 1 :=
  seqLoop_one_conjecture p.name p.conjectures 0 p.axioms
    (initAxioms_of_all _ (fun _ ha => (mem_axioms.mp ha).2))
    (fun _ hc => (mem_conjectures.mp hc).2)

theorem one_conjecture (p : Problem) (d : Decomposition) :
    ∀ P ∈ p.decompose d, P.conjectures.length = 1 := by
  cases d
  · exact one_conjecture_independent p
  · exact one_conjecture_sequential p

/-- Counterexample to unconditional well-typedness (model level, kernel-evaluated): a predicate
    used at two arities is declared twice under one name. Known finding. -/
theorem two_arities_declared_twice :
    (Problem.preds ⟨"x", [⟨"a", .axiom, .bin .and (.atomic (.atom ⟨"q", [.var "X"]⟩))
      (.atomic (.atom ⟨"q", [.var "X", .var "Y"]⟩))⟩]⟩).map (·.symbol) = ["q", "q"] := by decide

/-- Counterexample: the symbol `n_i` and the integer placeholder `n` are both rendered `n_i`. -/
theorem symbol_placeholder_clash :
    tptpS (.sym "n_i") = tptpI (.fc "n") := by decide

end Anthem.C09
