/-
  C10 — success is reported iff every problem is proven, under any prover schedule or fault.
  Proved for the model: the verdict is true iff every arrival is an output whose first SZS status
  line says Theorem; it is invariant under permutation of arrivals; the pool transition system
  delivers, in every maximal execution and for every number of workers, a permutation of the
  submitted jobs (each exactly once). Modelled, not verified: threadpool, mpsc, process spawning,
  pipes (see DESIGN.md 6/C10); tied by the stand-in prover exploration of the check.
-/
import AnthemModel.Model.Status
namespace Anthem.C10

/-- **Verdict.** Success iff every arrival is an output with status `Theorem`. -/
theorem verdict_iff (arrivals : List RunResult) :
    verdict arrivals = true ↔ ∀ r ∈ arrivals, ∃ s, r = .output s ∧ statusOf s = .ok .theorem := by
  simp only [verdict, List.all_eq_true]
  refine forall_congr' fun r => imp_congr_right fun _ => ?_
  cases r <;> simp [RunResult.proven]

/-- Any fault (spawn / write / wait / non-UTF-8) of any run yields failure. -/
theorem fault_fails (arrivals : List RunResult) (r : RunResult) (hr : r ∈ arrivals)
    (hf : r = .spawnError ∨ r = .writeError ∨ r = .waitError ∨ r = .utf8Error) :
    verdict arrivals = false := by
  cases h : verdict arrivals with
  | false => rfl
  | true =>
    obtain ⟨s, hs, _⟩ := (verdict_iff arrivals).mp h r hr
    rcases hf with rfl | rfl | rfl | rfl <;> cases hs

/-- Any status other than Theorem, a missing status line or an unknown word yields failure. -/
theorem non_theorem_fails (arrivals : List RunResult) (s : String) (hr : RunResult.output s ∈ arrivals)
    (hs : statusOf s ≠ .ok .theorem) : verdict arrivals = false := by
  cases h : verdict arrivals with
  | false => rfl
  | true =>
    obtain ⟨s', e, hs'⟩ := (verdict_iff arrivals).mp h _ hr
    injection e with e; subst e; exact absurd hs' hs

/-- **Order independence.** The verdict does not depend on the order in which results arrive. -/
theorem verdict_perm (a b : List RunResult) (h : a.Perm b) : verdict a = verdict b := by
  simp only [verdict]
  induction h with
  | nil => rfl
  | cons x _ ih => simp [List.all_cons, ih]
  | swap x y l => simp [List.all_cons, Bool.and_left_comm]
  | trans _ _ ih₁ ih₂ => exact ih₁.trans ih₂

/-- invariant of the pool: nothing is lost or duplicated -/
theorem pool_invariant {α : Type} (n : Nat) (s t : PoolState α) (h : PoolReach n s t) :
    (t.queue ++ t.running ++ t.received).Perm (s.queue ++ s.running ++ s.received) := by
  induction h with
  | refl => exact List.Perm.refl _
  | step _ hstep ih =>
    refine List.Perm.trans ?_ ih
    cases hstep with
    | start j q r d _ =>
      show (q ++ (r ++ [j]) ++ d).Perm ((j :: q) ++ r ++ d)
      have e : q ++ (r ++ [j]) ++ d = (q ++ r) ++ j :: d := by simp
      rw [e]
      exact List.perm_middle.trans (by simp)
    | finish r₁ j r₂ q d =>
      show (q ++ (r₁ ++ r₂) ++ (d ++ [j])).Perm (q ++ (r₁ ++ j :: r₂) ++ d)
      have e1 : q ++ (r₁ ++ r₂) ++ (d ++ [j]) = (q ++ r₁ ++ r₂ ++ d) ++ [j] := by simp
      have e2 : q ++ (r₁ ++ j :: r₂) ++ d = (q ++ r₁) ++ j :: (r₂ ++ d) := by simp
      rw [e1, e2]
      refine (List.perm_append_singleton j _).trans ?_
      refine List.Perm.trans ?_ List.perm_middle.symm
      simp

/-- **Pool completeness.** From the initial state (all jobs queued), every terminal state that can
    be reached — under any schedule, for any number `n` of workers — has received a permutation of
    the jobs: each job's result exactly once. -/
theorem pool_complete {α : Type} (n : Nat) (jobs : List α) (t : PoolState α)
    (h : PoolReach n ⟨jobs, [], []⟩ t) (ht : t.terminal) : t.received.Perm jobs := by
  have := pool_invariant n _ _ h
  obtain ⟨hq, hr⟩ := ht
  simpa [hq, hr] using this

/-- Progress: a non-terminal state with at least one worker can always take a step, so maximal
    executions end in terminal states. -/
theorem pool_progress {α : Type} (n : Nat) (hn : 0 < n) (s : PoolState α) (h : ¬ s.terminal) :
    ∃ t, PoolStep n s t := by
  obtain ⟨q, r, d⟩ := s
  cases r with
  | nil =>
    cases q with
    | nil => exact absurd ⟨rfl, rfl⟩ h
    | cons j q => exact ⟨_, .start j q [] d (by simpa using hn)⟩
  | cons j r => exact ⟨_, .finish [] j r q d⟩

/-- Each step decreases `2·|queue| + |running|`, so every execution is finite. -/
theorem pool_measure {α : Type} (n : Nat) (s t : PoolState α) (h : PoolStep n s t) :
    2 * t.queue.length + t.running.length < 2 * s.queue.length + s.running.length := by
  cases h <;> simp <;> omega

/-- Hence: success is reported iff every job's run printed `SZS status Theorem`, for every
    schedule and every number of workers. -/
theorem success_iff_all_theorem (n : Nat) (runs : List RunResult) (t : PoolState RunResult)
    (h : PoolReach n ⟨runs, [], []⟩ t) (ht : t.terminal) :
    verdict t.received = true ↔ ∀ r ∈ runs, ∃ s, r = .output s ∧ statusOf s = .ok .theorem := by
  rw [verdict_perm _ _ (pool_complete n runs t h ht), verdict_iff]

/-- The status is read from the *first* status line, and only the exact word counts
    (kernel-evaluated examples). -/
example : statusOf "% SZS status Theorem for forward_0\n% SZS status Timeout for x" = .ok .theorem := by
  decide
example : statusOf "SZS status Theorems for x" = .unknown "Theorems" := by decide
example : statusOf "SZS status  Theorem for x" = .missing := by decide
example : statusOf "SZS status CounterSatisfiable for " = .ok .counterSatisfiable := by decide

end Anthem.C10
