/-
  C11 — applicability checks are exact and enforced.
  Proved here: the cycle test used for tightness / private recursion is *sound* (a reported cycle
  is a real cycle of the dependency graph), `is_tight` depends only on the positive edges, and
  the choice-head clause of private recursion. Completeness of the cycle test (`isCyclic_complete`)
  is in Proofs/Graph when present; the external-task enforcement theorems are in Props/C02-C11
  once the task model exists. The cycle test is compared with petgraph on every generated input.
-/
import AnthemModel.Model.Analyze
import AnthemModel.Model.External
import AnthemModel.Proofs.Graph
namespace Anthem.C11
open Asp

/-- **Completeness of the cycle test** (all edge targets among the nodes): every real cycle is
    reported. Together with `isCyclic_sound`: the test is exact. -/
theorem isCyclic_complete (nodes : List Pred) (es : Edges) (htgt : ∀ e ∈ es, e.2 ∈ nodes)
    (h : ∃ v ∈ nodes, Path es v v) : isCyclic nodes es = true :=
  Anthem.isCyclic_complete nodes es htgt h

/-- **`is_tight` is exact**: a program is reported tight iff no predicate depends positively on itself. -/
theorem tight_iff_acyclic (p : Program) : isTight p = true ↔ ∀ v, ¬ Path (positiveEdges p) v v :=
  isTight_iff p

/-- What the private-recursion check is for (proved in Proofs/PrivateUnique.lean, restated in
    Props/C02 as `cannot_produce_public_part`): without private recursion the completed definitions of
    the private predicates determine their extents. -/
theorem private_recursion_is_exact (p : Program) (priv : List Pred)
    (htgt : ∀ e ∈ privateEdges p priv, e.2 ∈ p.preds.filter (· ∈ priv)) :
    isCyclic (p.preds.filter (· ∈ priv)) (privateEdges p priv) = true ↔
      ∃ v ∈ p.preds.filter (· ∈ priv), Path (privateEdges p priv) v v :=
  isCyclic_iff _ _ htgt

/-- Hence: a program reported as *not* tight really has a positive dependency cycle. -/
theorem not_tight_has_cycle (p : Program) (h : isTight p = false) :
    ∃ v ∈ p.preds, Path (positiveEdges p) v v := by
  simp only [isTight, Bool.not_eq_false'] at h
  exact isCyclic_sound _ _ h

/-- A choice rule with a private head is private recursion, whatever the graph. -/
theorem choice_private_is_recursion (p : Program) (priv : List Pred) (a : Asp.Atom)
    (body : List BodyAtom) (hr : (⟨.choice a, body⟩ : Rule) ∈ p) (ha : a.predicate ∈ priv) :
    hasPrivateRecursion p priv = true := by
  simp only [hasPrivateRecursion, Bool.or_eq_true, List.any_eq_true]
  exact Or.inl ⟨_, hr, by simpa using ha⟩

/-! ## enforcement before any obligation is emitted -/

theorem programError_none {t : ExternalTask} {p : Program} {priv : List Pred}
    (h : programError t p priv = none) :
    (isTight p = true ∨ t.bypassTightness = true) ∧ hasPrivateRecursion p priv = false ∧
      ∀ q ∈ t.userGuide.inputs, q ∉ p.headPreds := by
  unfold programError at h
  split at h
  · cases h
  · rename_i h1
    split at h
    · cases h
    · rename_i h2
      split at h
      · cases h
      · rename_i h3
        refine ⟨?_, by simpa using h2, ?_⟩
        · simp only [Bool.and_eq_true, Bool.not_eq_true', not_and, Bool.not_eq_false] at h1
          cases ht : isTight p
          · exact Or.inr (h1 ht)
          · exact Or.inl rfl
        · intro q hq hmem
          apply h3
          simp only [List.any_eq_true, decide_eq_true_eq]
          exact ⟨q, hq, hmem⟩

/-- **Enforcement.** If an external-equivalence task yields problems (for any pass bound), then
    every applicability condition holds: tau* representation, input and output declarations
    disjoint, the program tight (or `--bypass-tightness`), free of private recursion, no input
    predicate in a rule head, placeholders declared once, user-guide assumptions over input
    predicates only — and the same for a specification program, or for a specification: its
    assumptions mention no output predicate and only inputs / the program's private predicates,
    and only assumption / spec roles occur. -/
theorem external_ok_implies (t : ExternalTask) (fuel : Nat) (ps : List Problem)
    (h : externalProblems t fuel = .ok ps) :
    t.rep = .tauStar ∧ (∀ q ∈ t.userGuide.inputs, q ∉ t.userGuide.outputs) ∧
    ((isTight t.program = true ∨ t.bypassTightness = true) ∧
      hasPrivateRecursion t.program t.progPrivate = false ∧
      ∀ q ∈ t.userGuide.inputs, q ∉ t.program.headPreds) ∧
    allUnique (t.userGuide.placeholders.map (·.name)) = true ∧
    assumptionError t [] t.userGuide.formulas = none ∧
    (match t.specification with
      | .inl p => (isTight p = true ∨ t.bypassTightness = true) ∧
          hasPrivateRecursion p t.specPrivate = false ∧ ∀ q ∈ t.userGuide.inputs, q ∉ p.headPreds
      | .inr s => (∀ f ∈ s, f.role = .assumption → ∀ q ∈ f.formula.preds, q ∉ t.userGuide.outputs) ∧
          assumptionError t t.progPrivate s = none ∧
          ∀ f ∈ s, f.role = .assumption ∨ f.role = .spec) := by
  have hpre : precheck t = none := by
    unfold externalProblems at h
    cases hp : precheck t with
    | none => rfl
    | some e => simp [hp] at h
  unfold precheck at hpre
  simp only at hpre
  split at hpre
  · cases hpre
  · rename_i hrep
    split at hpre
    · cases hpre
    · rename_i hov
      split at hpre
      · cases hpre
      · rename_i hprog
        split at hpre
        · cases hpre
        · rename_i hph
          split at hpre
          · cases hpre
          · rename_i hass
            refine ⟨Classical.not_not.mp hrep, ?_, programError_none hprog, by simpa using hph, hass, ?_⟩
            · intro q hq hmem
              apply hov
              simp only [List.any_eq_true, decide_eq_true_eq]
              exact ⟨q, hq, hmem⟩
            · cases hs : t.specification with
              | inl p =>
                simp only [hs] at hpre ⊢
                exact programError_none hpre
              | inr s =>
                simp only [hs] at hpre ⊢
                split at hpre
                · cases hpre
                · rename_i hout
                  split at hpre
                  · cases hpre
                  · rename_i hass2
                    split at hpre
                    · cases hpre
                    · rename_i hroles
                      refine ⟨?_, hass2, ?_⟩
                      · intro f hf hr q hq hmem
                        apply hout
                        simp only [List.any_eq_true, Bool.and_eq_true, decide_eq_true_eq]
                        exact ⟨f, hf, hr, q, hq, hmem⟩
                      · intro f hf
                        simp only [List.any_eq_true, Bool.not_eq_true', Bool.or_eq_false_iff,
                          decide_eq_false_iff_not, not_exists, not_and] at hroles
                        have := hroles f hf
                        by_cases h1 : f.role = .assumption
                        · exact Or.inl h1
                        · exact Or.inr (Classical.not_not.mp (this h1))

/-- … and on any violated check nothing is emitted: the result is an error. -/
theorem external_err_of_precheck (t : ExternalTask) (fuel : Nat) (e : TaskError)
    (h : precheck t = some e) : externalProblems t fuel = .err e := by
  simp [externalProblems, h]

/-- Non-vacuity: negative dependencies do not count for tightness, positive ones do. -/
example : isTight [⟨.basic ⟨"a", []⟩, [.lit ⟨.neg, ⟨"a", []⟩⟩]⟩] = true := by decide
example : isTight [⟨.basic ⟨"a", []⟩, [.lit ⟨.pos, ⟨"b", []⟩⟩]⟩,
                   ⟨.basic ⟨"b", []⟩, [.lit ⟨.pos, ⟨"a", []⟩⟩]⟩] = false := by decide

end Anthem.C11
