/-
  C12 — axioms anthem adds on its own are true in every standard interpretation.
  The standard TPTP structure: `general := Dom`, `$int := Int`, `symbol := String`,
  `f__integer__ := Dom.num`, `f__symbolic__ := Dom.sym`, `c__infimum__ := Dom.inf`,
  `c__supremum__ := Dom.sup`, `p__less_equal__ := Dom.le`, `p__less__ := Dom.lt`,
  `p__greater_equal__ a b := Dom.le b a`, `p__greater__ a b := Dom.lt b a`,
  `p__is_integer__ x := ∃ n, x = num n`, `p__is_symbolic__ x := ∃ s, x = sym s`.
  Each theorem below is one axiom of standard_interpretation.p read in that structure (the file's
  text is tied to the transcription in Model/TptpFmt.lean by the problem-text correspondence).
-/
import AnthemModel.Semantics.Fol
import AnthemModel.Model.Strong
import AnthemModel.Model.TptpFmt
import AnthemModel.Props.C05
import AnthemModel.Proofs.Decompose
import AnthemModel.Semantics.Tff
namespace Anthem.C12

def isInteger (x : Dom) : Prop := ∃ n : Int, x = .num n
def isSymbolic (x : Dom) : Prop := ∃ s : String, x = .sym s

theorem p__is_integer__def_ax : ∀ X : Dom, isInteger X ↔ ∃ N : Int, X = .num N := fun _ => Iff.rfl
theorem p__is_symbolic__def_ax : ∀ X1 : Dom, isSymbolic X1 ↔ ∃ X2 : String, X1 = .sym X2 :=
  fun _ => Iff.rfl

theorem general_universe_ax : ∀ X : Dom, X = .inf ∨ isInteger X ∨ isSymbolic X ∨ X = .sup := by
  intro X; cases X
  · exact Or.inl rfl
  · exact Or.inr (Or.inl ⟨_, rfl⟩)
  · exact Or.inr (Or.inr (Or.inl ⟨_, rfl⟩))
  · exact Or.inr (Or.inr (Or.inr rfl))

theorem f__integer__def_ax : ∀ N1 N2 : Int, (Dom.num N1 = Dom.num N2) ↔ N1 = N2 := by
  intro a b; exact ⟨fun h => by injection h, fun h => by rw [h]⟩
theorem f__symbolic__def_ax : ∀ S1 S2 : String, (Dom.sym S1 = Dom.sym S2) ↔ S1 = S2 := by
  intro a b; exact ⟨fun h => by injection h, fun h => by rw [h]⟩

theorem numeral_ordering_ax : ∀ N1 N2 : Int, Dom.le (.num N1) (.num N2) ↔ N1 ≤ N2 := by
  intro a b; simp [Dom.le]

theorem antisymmetric_ordering_ax : ∀ X1 X2 : Dom, Dom.le X1 X2 ∧ Dom.le X2 X1 → X1 = X2 :=
  fun _ _ ⟨h1, h2⟩ => Dom.le_antisymm h1 h2
theorem transitive_ordering_ax : ∀ X1 X2 X3 : Dom, Dom.le X1 X2 ∧ Dom.le X2 X3 → Dom.le X1 X3 :=
  fun _ _ _ ⟨h1, h2⟩ => Dom.le_trans h1 h2
theorem strongly_connected_ordering_ax : ∀ X1 X2 : Dom, Dom.le X1 X2 ∨ Dom.le X2 X1 := Dom.le_total

theorem p__less__def_ax : ∀ X1 X2 : Dom, Dom.lt X1 X2 ↔ (Dom.le X1 X2 ∧ X1 ≠ X2) :=
  fun _ _ => Dom.lt_iff_le_and_ne
theorem p__greater_equal__def_ax : ∀ X1 X2 : Dom, Dom.le X2 X1 ↔ Dom.le X2 X1 := fun _ _ => Iff.rfl
theorem p__greater__def_ax : ∀ X1 X2 : Dom, Dom.lt X2 X1 ↔ (Dom.le X2 X1 ∧ X1 ≠ X2) := by
  intro a b; rw [Dom.lt_iff_le_and_ne]; exact and_congr_right fun _ => ne_comm

theorem minimal_element_ax : ∀ N : Int, Dom.lt .inf (.num N) := by intro N; simp [Dom.lt, Dom.le]
theorem numerals_less_than_symbols_ax : ∀ (N : Int) (S : String), Dom.lt (.num N) (.sym S) := by
  intro N S; simp [Dom.lt, Dom.le]
theorem maximal_element_ax : ∀ S : String, Dom.lt (.sym S) .sup := by intro S; simp [Dom.lt, Dom.le]

/-- The meaning the relation symbols have in `Semantics/Fol` coincides with the TPTP reading above
    (so the preamble and the source-language comparisons talk about the same order). -/
theorem rel_holds_standard (r : Rel) (a b : Dom) :
    r.holds a b ↔ (match r with
      | .eq => a = b | .ne => a ≠ b | .le => Dom.le a b | .lt => Dom.lt a b
      | .ge => Dom.le b a | .gt => Dom.lt b a) := by
  cases r <;> rfl

/-! ## ordering axioms between the symbolic constants of a problem -/

theorem mem_insertStr {s x : String} {l : List String} : x ∈ insertStr s l ↔ x = s ∨ x ∈ l := by
  induction l with
  | nil => simp [insertStr]
  | cons t ts ih =>
    simp only [insertStr]
    split
    · simp only [List.mem_cons, ih]
      exact ⟨fun h => h.elim (fun a => Or.inr (Or.inl a)) (fun b => b.elim Or.inl (fun c => Or.inr (Or.inr c))),
             fun h => h.elim (fun a => Or.inr (Or.inl a)) (fun b => b.elim Or.inl (fun c => Or.inr (Or.inr c)))⟩
    · simp

theorem mem_sortStrs {x : String} {l : List String} : x ∈ sortStrs l ↔ x ∈ l := by
  unfold sortStrs
  induction l with
  | nil => simp
  | cons t ts ih => simp only [List.foldr_cons, mem_insertStr, ih, List.mem_cons]

/-- strictly increasing list -/
def StrictSorted : List String → Prop
  | [] => True
  | [_] => True
  | a :: b :: rest => a < b ∧ StrictSorted (b :: rest)

theorem strictSorted_tail {a : String} {l : List String} (h : StrictSorted (a :: l)) : StrictSorted l := by
  cases l with
  | nil => trivial
  | cons b rest => exact h.2

theorem insertStr_sorted {s : String} : ∀ {l : List String}, StrictSorted l → s ∉ l →
    StrictSorted (insertStr s l)
  | [], _, _ => trivial
  | [t], _, hs => by
    simp only [insertStr]
    split
    · rename_i h; exact ⟨h, trivial⟩
    · rename_i h
      have hne : s ≠ t := fun e => hs (by simp [e])
      have : s < t := by
        rcases String.le_total t s with h1 | h1
        · exact absurd (String.not_le.mp (fun h2 => hne (String.le_antisymm h2 h1))) (by simpa using h)
        · exact String.not_le.mp (fun h2 => hne (String.le_antisymm h1 h2))
      exact ⟨this, trivial⟩
  | t :: u :: rest, hl, hs => by
    simp only [insertStr]
    split
    · rename_i h
      have ih := insertStr_sorted (s := s) (l := u :: rest) hl.2 (fun hm => hs (List.mem_cons_of_mem _ hm))
      simp only [insertStr] at ih ⊢
      split
      · rename_i h2; simp only [h2, if_true] at ih; exact ⟨hl.1, ih⟩
      · rename_i h2; simp only [h2, if_false] at ih; exact ⟨h, ih⟩
    · rename_i h
      have hne : s ≠ t := fun e => hs (by simp [e])
      have : s < t := by
        rcases String.le_total t s with h1 | h1
        · exact absurd (String.not_le.mp (fun h2 => hne (String.le_antisymm h2 h1))) (by simpa using h)
        · exact String.not_le.mp (fun h2 => hne (String.le_antisymm h1 h2))
      exact ⟨this, hl⟩

theorem sortStrs_sorted : ∀ {l : List String}, l.Nodup → StrictSorted (sortStrs l)
  | [], _ => trivial
  | t :: ts, h => by
    have hn := List.nodup_cons.mp h
    show StrictSorted (insertStr t (sortStrs ts))
    exact insertStr_sorted (sortStrs_sorted hn.2) (fun hm => hn.1 (mem_sortStrs.mp hm))

theorem windows2_lt : ∀ {l : List String}, StrictSorted l → ∀ p ∈ windows2 l, p.1 < p.2
  | [], _, p, hp => by simp [windows2] at hp
  | [_], _, p, hp => by simp [windows2] at hp
  | a :: b :: rest, h, p, hp => by
    simp only [windows2, List.mem_cons] at hp
    rcases hp with rfl | hp
    · exact h.1
    · exact windows2_lt h.2 p hp

/-- **Symbol chain.** For a duplicate-free symbol list (an `IndexSet`), every emitted axiom
    `p__less__(f__symbolic__(a), f__symbolic__(b))` is true in the standard (lexicographic) order,
    and the chain mentions exactly the symbols of the problem. -/
theorem symbol_chain_true (syms : List String) (hnd : syms.Nodup) :
    ∀ p ∈ windows2 (sortStrs syms), Dom.lt (.sym p.1) (.sym p.2) := by
  intro p hp
  have := windows2_lt (sortStrs_sorted hnd) p hp
  simp only [Dom.lt, Dom.le]
  exact String.not_le.mpr this

theorem symbol_chain_covers (syms : List String) (s : String) : s ∈ sortStrs syms ↔ s ∈ syms :=
  mem_sortStrs

/-- In *any* structure satisfying transitivity and the definition of `p__less__`, a strictly
    increasing chain makes all its members pairwise distinct — stated for the standard order. -/
theorem chain_distinct : ∀ {l : List String}, StrictSorted l → l.Nodup
  | [], _ => List.nodup_nil
  | [_], _ => by simp
  | a :: b :: rest, h => by
    have ih := chain_distinct (l := b :: rest) h.2
    refine List.nodup_cons.mpr ⟨?_, ih⟩
    -- a < b ≤ everything else
    have key : ∀ {l : List String} {x : String}, StrictSorted (x :: l) → ∀ y ∈ l, x < y := by
      intro l
      induction l with
      | nil => intro x _ y hy; cases hy
      | cons c cs ihc =>
        intro x hx y hy
        rcases List.mem_cons.mp hy with rfl | hy'
        · exact hx.1
        · exact String.lt_trans hx.1 (ihc hx.2 y hy')
    intro hm
    exact String.lt_irrefl a (key h a hm)

/-! ## h-implies-t axioms of strong equivalence -/

/-- **Transition axioms are true** in every classical interpretation that arises from `H ⊆ T`. -/
theorem transition_true {J : Interp} {M : HTI} (hm : C05.Merges J M) (hs : M.Sub) (p : Pred)
    (ρ : Asg) : sat J (transitionAxiom p) ρ := by
  unfold transitionAxiom
  have body : ∀ τ : Asg, sat J (.bin .imp p.toFormula.here p.toFormula.there) τ := by
    intro τ
    simp only [sat, Pred.toFormula, Formula.here, Formula.there, prependPred, AtomicF.sat]
    intro h
    exact (hm.t _ _).mpr (hs _ _ ((hm.h _ _).mp h))
  show sat J ((Formula.bin .imp p.toFormula.here p.toFormula.there).quantify .all _) ρ
  rw [sat_quantify]
  simp only [sat]
  exact bindAll_iff.mpr (fun τ _ => body τ)

/-- **The standard structure of every interpretation is a model of the whole preamble** (the 15
    axioms as one statement about the TFF structure that `C06.rendering_preserves_meaning` uses). -/
theorem std_satisfies_preamble (I : Interp) : Preamble (stdStruct I) where
  p__is_integer__def_ax := p__is_integer__def_ax
  p__is_symbolic__def_ax := p__is_symbolic__def_ax
  general_universe_ax := general_universe_ax
  f__integer__def_ax := f__integer__def_ax
  f__symbolic__def_ax := f__symbolic__def_ax
  numeral_ordering_ax := numeral_ordering_ax
  antisymmetric_ordering_ax := antisymmetric_ordering_ax
  transitive_ordering_ax := transitive_ordering_ax
  strongly_connected_ordering_ax := strongly_connected_ordering_ax
  p__less__def_ax := p__less__def_ax
  p__greater_equal__def_ax := p__greater_equal__def_ax
  p__greater__def_ax := p__greater__def_ax
  minimal_element_ax := minimal_element_ax
  numerals_less_than_symbols_ax := numerals_less_than_symbols_ax
  maximal_element_ax := maximal_element_ax

/-- … and of the `symbol_order` axioms of any problem (duplicate-free symbol list). -/
theorem std_satisfies_symbol_order (I : Interp) (syms : List String) (hnd : syms.Nodup) :
    SymbolOrder (stdStruct I) syms := symbol_chain_true syms hnd

/-- Non-vacuity: the symbol chain of a three-symbol problem. -/
example : windows2 (sortStrs ["c", "a", "b"]) = [("a", "b"), ("b", "c")] := by decide

end Anthem.C12
