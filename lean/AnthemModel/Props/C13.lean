/-
  C13 — a proof outline cannot make an unjustified claim available as an axiom.
  Proved: soundness of the induction scheme built by `inductive_lemma` (for every formula,
  including an induction variable that is also bound inside F and a negative start value);
  what an accepted definition looks like; the sequencing of outline problems (lemma i's
  obligations use only the axioms of the direction and the consequences of lemmas before i).
-/
import AnthemModel.Model.External
import AnthemModel.Proofs.SubstBasic
import AnthemModel.Proofs.Decompose
import AnthemModel.Proofs.DefinitionSem
import AnthemModel.Proofs.InductionSound
import AnthemModel.Proofs.OutlineSound
import AnthemModel.Proofs.DefinitionAccepted
import AnthemModel.Proofs.ExternalValid
namespace Anthem.C13

/-- well-sorted assignment -/
abbrev WS := Outline.WS

/-- **Soundness of the induction scheme.** `base` and `step` are exactly the two obligations
    `inductive_lemma` builds for `forall N$i … (N$i >= n -> F)`. If both are true in `J`, then `F`
    holds for every integer `z ≥ n` (under every well-sorted assignment of the other variables),
    i.e. the lemma that is later used as an axiom is true. -/
theorem induction_sound (J : Interp) (F : Formula) (v : String) (n : Int) (ρ₀ : Asg)
    (hbase : sat J (F.subst ⟨v, .integer⟩ (.int (.num n))).universalClosure ρ₀)
    (hstep : sat J (Formula.bin .imp
        (.bin .and (.atomic (.cmp (.int (.var v)) [⟨.ge, .int (.num n)⟩])) F)
        (F.subst ⟨v, .integer⟩ (.int (.bin .add (.var v) (.num 1))))).universalClosure ρ₀) :
    ∀ (τ : Asg), WS τ → ∀ z : Int, n ≤ z → sat J F (τ.set ⟨v, .integer⟩ (.num z)) :=
  Outline.induction_sound J F v n ρ₀ hbase hstep

/-- What `inductive_lemma` returns is exactly the pair of obligations used above. -/
theorem inductiveLemma_shape (vars : List Var) (v : String) (n : Int) (rhs : Formula)
    (hv : sameSet (vars.foldl ins []) rhs.fv = true) :
    inductiveLemma (.quant .all vars (.bin .imp (.atomic (.cmp (.int (.var v)) [⟨.ge, .int (.num n)⟩])) rhs)) =
      .ok ((rhs.subst ⟨v, .integer⟩ (.int (.num n))).universalClosure,
           (Formula.bin .imp (.bin .and (.atomic (.cmp (.int (.var v)) [⟨.ge, .int (.num n)⟩])) rhs)
             (rhs.subst ⟨v, .integer⟩ (.int (.bin .add (.var v) (.num 1))))).universalClosure) := by
  simp [inductiveLemma, hv]

/-- An accepted definition: a universally closed equivalence whose left side is an atom whose
    arguments are pairwise distinct variables - the same set as the (pairwise distinct) quantified
    variables -, defining a predicate that is not taken, with a right side that has no other free
    variables and mentions only taken predicates. (Distinctness of the head arguments holds since
    the repair `fix: reject a definition whose head repeats a variable`; before it
    `forall X (d(X,X) <-> in(X))` was accepted.) -/
theorem definition_accepted_implies (f : Formula) (taken : List Pred) (p : Pred)
    (h : checkDefinition f taken = .ok p) :
    ∃ (vars : List Var) (a : Atom) (rhs : Formula) (tv : List Var),
      f = .quant .all vars (.bin .iff (.atomic (.atom a)) rhs) ∧ p = a.predicate ∧ p ∉ taken ∧
      (∀ x ∈ rhs.fv, x ∈ vars.foldl ins []) ∧ (∀ q ∈ rhs.preds, q ∈ taken) ∧
      ¬ (vars.foldl ins []).length < vars.length ∧
      a.args.mapM GTerm.asVar? = some tv ∧ sameSet (vars.foldl ins []) (tv.foldl ins []) = true ∧
      tv.Nodup := Outline.definition_accepted_implies f taken p h

/-- **Accepted definitions are conservative**: whatever the interpretation, changing it on the
    defined predicate alone (same symbol and arity; everything else untouched) makes the definition
    true under every assignment. So a definition - even one that the letter of the property
    would refuse, see the two known findings - never makes a claim about the task's predicates
    available. -/
theorem definition_conservative (f : Formula) (taken : List Pred) (p : Pred)
    (h : checkDefinition f taken = .ok p) (I : Interp) :
    ∃ P' : PredI,
      (∀ q ds, ¬ (q = p.symbol ∧ ds.length = p.arity) → (P' q ds ↔ I.pred q ds)) ∧
      ∀ ρ, sat ⟨P', I.fc⟩ f ρ := Outline.definition_conservative f taken p h I

/-- A definition whose head repeats a variable is refused (`forall X (d(X,X) <-> in(X))`, accepted
    before the repair; replayed on the implementation as corpus/external.txt:repeated_head_argument). -/
theorem repeated_head_argument_refused :
    (match checkDefinition (.quant .all [⟨"X", .general⟩]
      (.bin .iff (.atomic (.atom ⟨"d", [.var "X", .var "X"]⟩)) (.atomic (.atom ⟨"in", [.var "X"]⟩))))
      [⟨"in", 1⟩] with
    | .err .definedPredicateVariableListMismatch => true | _ => false) = true := by decide

/-- **Sequencing.** The problems emitted for lemma `k` of an outline use as axioms exactly the
    axioms of the direction followed by the consequences of the lemmas before `k`. -/
theorem outline_sequencing (dirName : String) (axioms0 : List AnnF) (lemmas : List GeneralLemma) :
    outlineProblems dirName axioms0 lemmas =
      (indexFrom 0 lemmas).flatMap fun (k, l) =>
        (indexFrom 0 l.conjectures).map fun (j, c) =>
          mkProblem (dirName ++ "_outline_" ++ toString k ++ "_" ++ toString j)
            [axioms0 ++ (lemmas.take k).flatMap (·.consequences), [c]] :=
  Outline.outline_sequencing dirName axioms0 lemmas

/-- **Every lemma of an accepted outline is justified by its obligations**: what a lemma (plain or
    inductive) contributes as an axiom is true, under the same interpretation and assignment,
    whenever its obligations are; obligations carry the role conjecture, contributions the role axiom. -/
theorem accepted_outline_lemmas_justified (spec : Specification) (taken : List Pred) (m : PlaceholderMap)
    (po : ProofOutline) (h : proofOutlineFrom spec taken m = .ok po) :
    (∀ l ∈ po.forwardLemmas, Outline.GLGood l) ∧ (∀ l ∈ po.backwardLemmas, Outline.GLGood l) :=
  Outline.proofOutlineFrom_good spec taken m po h

/-- **Soundness of an outline** (the statement of the property): with the lemmas of an accepted
    outline, an interpretation that satisfies the axioms of the direction (premises and accepted
    definitions) and refutes none of the emitted outline problems satisfies every lemma that the
    outline makes available as an axiom - so no unjustified claim becomes an axiom. `hnc`: the
    symbol-renaming step is the identity on the outline problems (cf. the C03 finding). -/
theorem outline_sound (dirName : String) (axioms0 : List AnnF) (lemmas : List GeneralLemma)
    (hgood : ∀ l ∈ lemmas, Outline.GLGood l)
    (hnc : Outline.NoConflictOutline dirName axioms0 lemmas) (J : Interp) (ρ : Asg)
    (hnot : ∀ P ∈ outlineProblems dirName axioms0 lemmas, ¬ Refutes J ρ P)
    (hax : ∀ a ∈ axioms0, sat J a.formula ρ) :
    ∀ l ∈ lemmas, ∀ c ∈ l.consequences, sat J c.formula ρ :=
  Outline.outline_sound dirName axioms0 lemmas (fun l hl => (hgood l hl).1) (fun l hl => (hgood l hl).2.1) hnc J ρ hnot hax

/-- **Soundness of an outline with no side condition** (since fix 611037e `rename_conflicting_symbols`
    renames propositional predicates to free names, which does not matter for validity): if NO outline
    problem has a countermodel, every interpretation that satisfies the axioms of the direction satisfies
    every lemma that the outline makes available as an axiom. -/
theorem outline_sound_no_side_condition (dirName : String) (axioms0 : List AnnF) (lemmas : List GeneralLemma)
    (hgood : ∀ l ∈ lemmas, Outline.GLGood l)
    (hvalid : ∀ P ∈ outlineProblems dirName axioms0 lemmas, ∀ J ρ, ¬ Refutes J ρ P)
    (J : Interp) (ρ : Asg) (hax : ∀ a ∈ axioms0, sat J a.formula ρ) :
    ∀ l ∈ lemmas, ∀ c ∈ l.consequences, sat J c.formula ρ :=
  Outline.outline_sound_valid dirName axioms0 lemmas (fun l hl => (hgood l hl).1) (fun l hl => (hgood l hl).2.1)
    hvalid J ρ hax

/-- the two obligations of an inductive lemma imply the lemma itself (whatever its shape) -/
theorem inductive_lemma_justified (f base step : Formula) (h : inductiveLemma f = .ok (base, step)) (J : Interp) (ρ : Asg)
    (hb : sat J base ρ) (hs : sat J step ρ) : sat J f ρ :=
  Outline.inductiveLemma_sound f base step h J ρ hb hs

/-- **A definition introduces a predicate that occurs nowhere before it** (since fix d771171 also
    not in an earlier lemma): a definition entry is accepted only if `checkDefinition` accepts it
    against the taken predicates (the task's predicates and the earlier definitions) and its
    predicate is not among the predicates `lem` of the lemmas seen so far; it then becomes taken. -/
theorem definition_entry_is_fresh (m : PlaceholderMap) (po : ProofOutline) (taken lem : List Pred) (a : SAnn)
    (po' : ProofOutline) (taken' lem' : List Pred) (hrole : a.role = .definition)
    (h : outlineStep m (.ok (po, taken, lem)) a = .ok (po', taken', lem')) :
    ∃ p, checkDefinition (a.replacePlaceholders m).formula taken = .ok p ∧ p ∉ taken ∧ p ∉ lem ∧
      taken' = ins taken p ∧ lem' = lem := by
  unfold outlineStep at h
  have hr : (a.replacePlaceholders m).role = .definition := hrole
  simp only [hr] at h
  split at h
  · rename_i p hdef
    split at h
    · cases h
    · rename_i hnl
      obtain ⟨_, _, _, _, _, _, hnt, _⟩ := definition_accepted_implies _ taken p hdef
      refine ⟨p, hdef, ?_, hnl, ?_, ?_⟩
      · rename_i hp _; exact hp ▸ hnt
      · split at h <;> (injection h with h; injection h with _ h2; injection h2 with h2 _; exact h2.symm)
      · split at h <;> (injection h with h; injection h with _ h2; injection h2 with _ h3; exact h3.symm)
  · cases h
  · cases h
  · cases h

/-- … and every lemma entry records its predicates, so that no later definition can define them. -/
theorem lemma_entry_records_predicates (m : PlaceholderMap) (po : ProofOutline) (taken lem : List Pred) (a : SAnn)
    (po' : ProofOutline) (taken' lem' : List Pred) (hrole : a.role = .lemma ∨ a.role = .inductiveLemma)
    (h : outlineStep m (.ok (po, taken, lem)) a = .ok (po', taken', lem')) :
    taken' = taken ∧ lem' = ext lem (a.replacePlaceholders m).formula.preds := by
  unfold outlineStep at h
  have hr : (a.replacePlaceholders m).role = .lemma ∨ (a.replacePlaceholders m).role = .inductiveLemma := hrole
  rcases hr with hr | hr <;> simp only [hr] at h <;>
    (split at h
     · split at h <;> (injection h with h; injection h with _ h2; injection h2 with h2 h3; exact ⟨h2.symm, h3.symm⟩)
     · cases h
     · cases h
     · cases h)

/-- the former literal violation is now refused: `lemma: d(1). definition: forall X (d(X) <-> X = 1).` -/
theorem lemma_before_definition_refused :
    (match proofOutlineFrom
      [⟨.lemma, .universal, "", .atomic (.atom ⟨"d", [.int (.num 1)]⟩)⟩,
       ⟨.definition, .universal, "", .quant .all [⟨"X", .general⟩]
          (.bin .iff (.atomic (.atom ⟨"d", [.var "X"]⟩)) (.atomic (.cmp (.var "X") [⟨.eq, .int (.num 1)⟩])))⟩]
      [⟨"in", 1⟩] [] with
    | .err .takenPredicate => true | _ => false) = true := by decide

/-- Non-vacuity: an inductive lemma whose variable is also bound inside `F` and whose start value
    is negative is accepted and yields two obligations (kernel-evaluated). -/
example : (match inductiveLemma (.quant .all [⟨"N", .integer⟩]
    (.bin .imp (.atomic (.cmp (.int (.var "N")) [⟨.ge, .int (.num (-2))⟩]))
      (.bin .and (.atomic (.atom ⟨"p", [.int (.var "N")]⟩))
        (.quant .ex [⟨"N", .integer⟩] (.atomic (.atom ⟨"q", [.int (.var "N")]⟩)))))) with
    | .ok _ => true | _ => false) = true := by decide

end Anthem.C13
