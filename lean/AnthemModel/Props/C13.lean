/-
  C13 — a proof outline cannot make an unjustified claim available as an axiom.
  Proved: soundness of the induction scheme built by `inductive_lemma` (for every formula,
  including an induction variable that is also bound inside F and a negative start value);
  what an accepted definition looks like; the sequencing of outline problems (lemma i's
  obligations use only the axioms of the direction and the consequences of lemmas before i).
-/
import AnthemModel.Model.External
import AnthemModel.Proofs.SubstBasic
import AnthemModel.Proofs.Decompose
import AnthemModel.Proofs.DefinitionSem
namespace Anthem.C13

/-- well-sorted assignment -/
def WS (ρ : Asg) : Prop := ∀ v : Var, (ρ v).inSort v.sort

theorem WS.set {ρ : Asg} (h : WS ρ) (v : Var) (d : Dom) (hd : d.inSort v.sort) : WS (ρ.set v d) := by
  intro w
  by_cases e : w = v
  · subst e; simpa using hd
  · rw [Asg.set_other _ _ e]; exact h w

theorem allUpd_ws {L : List Var} {ρ τ : Asg} (h : WS ρ) (hτ : AllUpd L ρ τ) : WS τ := by
  intro v
  by_cases hv : v ∈ L
  · exact hτ.2 v hv
  · rw [hτ.1 v hv]; exact h v

/-- a universally closed formula that is true makes its body true under every well-sorted
    assignment -/
theorem closure_elim (J : Interp) (G : Formula) (ρ : Asg) (h : sat J G.universalClosure ρ) :
    ∀ τ : Asg, WS τ → sat J G τ := by
  intro τ hτ
  unfold Formula.universalClosure at h
  rw [sat_quantify] at h
  simp only [sat] at h
  -- instantiate the closure with the values of τ on the free variables
  let σ : Asg := fun v => if v ∈ G.fv then τ v else ρ v
  have hσ : AllUpd G.fv ρ σ := ⟨fun v hv => by simp [σ, hv], fun v hv => by simp [σ, hv, hτ v]⟩
  have := bindAll_iff.mp h σ hσ
  refine (sat_agree J G σ τ ?_).mp this
  intro v hv
  simp [σ, Formula.mem_fv.mpr hv]

/-- the only variable of `N + 1` is `N` itself, so substituting it never needs renaming -/
theorem noRename_self (v : String) : ∀ F : Formula, NoRename [⟨v, .integer⟩] ⟨v, .integer⟩ F := by
  intro F
  induction F with
  | atomic _ => trivial
  | not f ih => exact ih
  | bin c l r ihl ihr => exact ⟨ihl, ihr⟩
  | quant q vs f ih =>
    by_cases h : (⟨v, .integer⟩ : Var) ∈ vs
    · exact Or.inl h
    · refine Or.inr ⟨?_, ih⟩
      intro x hx hmem
      simp only [List.mem_singleton] at hmem
      subst hmem; exact h hx

theorem noRename_closed_term (w : Var) : ∀ F : Formula, NoRename [] w F := by
  intro F
  induction F with
  | atomic _ => trivial
  | not f ih => exact ih
  | bin c l r ihl ihr => exact ⟨ihl, ihr⟩
  | quant q vs f ih => exact Or.inr ⟨fun _ _ h => (by cases h), ih⟩

theorem sat_subst_noRename (J : Interp) (F : Formula) (v : Var) (s : GTerm)
    (hc : SortCompatible v s) (hn : NoRename s.vars v F) (ρ : Asg) :
    sat J (F.subst v s) ρ ↔ sat J F (ρ.set v (s.eval J.fc ρ)) := by
  have := ht_substFuel_noRename ⟨J.pred, J.pred, J.fc⟩ v s hc (F.depth + 1) F (Nat.le_succ _) hn .there ρ
  rwa [ht_there_eq_sat, ht_there_eq_sat] at this

/-- **Soundness of the induction scheme.** `base` and `step` are exactly the two obligations
    `inductive_lemma` builds for `forall N$i … (N$i >= n -> F)`. If both are true in `J`, then `F`
    holds for every integer `z ≥ n` (under every well-sorted assignment of the other variables),
    i.e. the lemma that is later used as an axiom is true. -/
theorem induction_sound (J : Interp) (F : Formula) (v : String) (n : Int) (ρ₀ : Asg)
    (hbase : sat J (F.subst ⟨v, .integer⟩ (.int (.num n))).universalClosure ρ₀)
    (hstep : sat J (Formula.bin .imp
        (.bin .and (.atomic (.cmp (.int (.var v)) [⟨.ge, .int (.num n)⟩])) F)
        (F.subst ⟨v, .integer⟩ (.int (.bin .add (.var v) (.num 1))))).universalClosure ρ₀) :
    ∀ (τ : Asg), WS τ → ∀ z : Int, n ≤ z → sat J F (τ.set ⟨v, .integer⟩ (.num z)) := by
  intro τ hτ z hz
  have hcI : ∀ t : ITerm, SortCompatible ⟨v, .integer⟩ (.int t) :=
    fun t => ⟨fun _ => ⟨t, rfl⟩, fun h => by cases h⟩
  obtain ⟨k, rfl⟩ := Int.le.dest hz
  clear hz
  induction k with
  | zero =>
    have h := closure_elim J _ ρ₀ hbase τ hτ
    rw [sat_subst_noRename J F ⟨v, .integer⟩ (.int (.num n)) (hcI _) (noRename_closed_term _ F)] at h
    simpa [GTerm.eval, ITerm.eval] using h
  | succ k ih =>
    have hτ' : WS (τ.set ⟨v, .integer⟩ (.num (n + k))) := hτ.set _ _ trivial
    have h := closure_elim J _ ρ₀ hstep _ hτ'
    simp only [sat, AtomicF.sat, cmpChain, and_true] at h
    have hge : Rel.holds .ge (GTerm.eval J.fc (τ.set ⟨v, .integer⟩ (.num (n + k))) (.int (.var v)))
        (GTerm.eval J.fc (τ.set ⟨v, .integer⟩ (.num (n + k))) (.int (.num n))) := by
      simp [GTerm.eval, ITerm.eval, Rel.holds, Dom.le, Dom.toInt]; omega
    have h2 := h ⟨hge, ih⟩
    rw [sat_subst_noRename J F ⟨v, .integer⟩ (.int (.bin .add (.var v) (.num 1))) (hcI _) (noRename_self v F)] at h2
    have e : ((τ.set ⟨v, .integer⟩ (.num (n + k))).set ⟨v, .integer⟩
        (GTerm.eval J.fc (τ.set ⟨v, .integer⟩ (.num (n + k))) (.int (.bin .add (.var v) (.num 1))))) =
        τ.set ⟨v, .integer⟩ (.num (n + ((k + 1 : Nat) : Int))) := by
      funext w
      by_cases hw : w = ⟨v, .integer⟩
      · subst hw
        simp only [Asg.set_same, GTerm.eval, ITerm.eval, IOp.eval, Dom.toInt]
        congr 1; omega
      · simp [Asg.set_other _ _ hw]
    rw [e] at h2
    exact h2

/-- What `inductive_lemma` returns is exactly the pair of obligations used above. -/
theorem inductiveLemma_shape (vars : List Var) (v : String) (n : Int) (rhs : Formula)
    (hv : sameSet (vars.foldl ins []) rhs.fv = true) :
    inductiveLemma (.quant .all vars (.bin .imp (.atomic (.cmp (.int (.var v)) [⟨.ge, .int (.num n)⟩])) rhs)) =
      .ok ((rhs.subst ⟨v, .integer⟩ (.int (.num n))).universalClosure,
           (Formula.bin .imp (.bin .and (.atomic (.cmp (.int (.var v)) [⟨.ge, .int (.num n)⟩])) rhs)
             (rhs.subst ⟨v, .integer⟩ (.int (.bin .add (.var v) (.num 1))))).universalClosure) := by
  simp [inductiveLemma, hv]

/-- An accepted definition: a universally closed equivalence whose left side is an atom whose
    arguments are pairwise distinct variables - the same set as the (pairwise distinct) quantified
    variables -, defining a predicate that is not taken, with a right side that has no other free
    variables and mentions only taken predicates. (Distinctness of the head arguments holds since
    the repair `fix: reject a definition whose head repeats a variable`; before it
    `forall X (d(X,X) <-> in(X))` was accepted.) -/
theorem definition_accepted_implies (f : Formula) (taken : List Pred) (p : Pred)
    (h : checkDefinition f taken = .ok p) :
    ∃ (vars : List Var) (a : Atom) (rhs : Formula) (tv : List Var),
      f = .quant .all vars (.bin .iff (.atomic (.atom a)) rhs) ∧ p = a.predicate ∧ p ∉ taken ∧
      (∀ x ∈ rhs.fv, x ∈ vars.foldl ins []) ∧ (∀ q ∈ rhs.preds, q ∈ taken) ∧
      ¬ (vars.foldl ins []).length < vars.length ∧
      a.args.mapM GTerm.asVar? = some tv ∧ sameSet (vars.foldl ins []) (tv.foldl ins []) = true ∧
      tv.Nodup := by
  unfold checkDefinition at h
  split at h
  · rename_i vars a rhs
    simp only at h
    split at h
    · cases h
    · rename_i hlen
      split at h
      · cases h
      · rename_i tv htv
        refine ⟨vars, a, rhs, tv, rfl, ?_⟩
        split at h
        · cases h
        · rename_i hsame
          split at h
          · cases h
          · rename_i htaken
            split at h
            · cases h
            · rename_i hfv
              split at h
              · cases h
              · rename_i hpreds
                injection h with h
                have hsame' : sameSet (vars.foldl ins []) (tv.foldl ins []) = true ∧ a.args.length = vars.length := by
                  simpa using hsame
                refine ⟨h.symm, h ▸ htaken, ?_, ?_, hlen, htv, hsame'.1,
                  head_args_nodup vars tv hlen hsame'.1 (by rw [mapM_asVar_length _ _ htv]; exact hsame'.2)⟩
                · intro x hx
                  simp only [List.any_eq_true, not_exists, not_and, decide_eq_true_eq] at hfv
                  exact Classical.not_not.mp (hfv x hx)
                · intro q hq
                  simp only [List.any_eq_true, not_exists, not_and, decide_eq_true_eq] at hpreds
                  exact Classical.not_not.mp (hpreds q hq)
  · cases h

/-- **Accepted definitions are conservative**: whatever the interpretation, changing it on the
    defined predicate alone (same symbol and arity; everything else untouched) makes the definition
    true under every assignment. So a definition - even one that the letter of the property
    would refuse, see the two known findings - never makes a claim about the task's predicates
    available. -/
theorem definition_conservative (f : Formula) (taken : List Pred) (p : Pred)
    (h : checkDefinition f taken = .ok p) (I : Interp) :
    ∃ P' : PredI,
      (∀ q ds, ¬ (q = p.symbol ∧ ds.length = p.arity) → (P' q ds ↔ I.pred q ds)) ∧
      ∀ ρ, sat ⟨P', I.fc⟩ f ρ := by
  obtain ⟨vars, a, rhs, tv, rfl, rfl, hnt, hfv, hpreds, _, htv, hsame, _⟩ :=
    definition_accepted_implies f taken p h
  refine ⟨definedPred I vars a rhs, fun q ds hq => definedPred_elsewhere I vars a rhs q ds hq, fun ρ => ?_⟩
  simp only [sameSet, Bool.and_eq_true, List.all_eq_true, decide_eq_true_eq] at hsame
  refine definition_conservative_core I vars a rhs tv htv (fun v => ?_) (fun x hx => ?_)
    (fun hin => hnt (hpreds _ hin)) ρ
  · constructor
    · intro hv
      have := hsame.1 v ((mem_foldl_ins vars [] v).mpr (Or.inr hv))
      rcases (mem_foldl_ins tv [] v).mp this with h0 | h0
      · cases h0
      · exact h0
    · intro hv
      have := hsame.2 v ((mem_foldl_ins tv [] v).mpr (Or.inr hv))
      rcases (mem_foldl_ins vars [] v).mp this with h0 | h0
      · cases h0
      · exact h0
  · rcases (mem_foldl_ins vars [] x).mp (hfv x hx) with h0 | h0
    · cases h0
    · exact h0

/-- A definition whose head repeats a variable is refused (`forall X (d(X,X) <-> in(X))`, accepted
    before the repair; replayed on the implementation as corpus/external.txt:repeated_head_argument). -/
theorem repeated_head_argument_refused :
    (match checkDefinition (.quant .all [⟨"X", .general⟩]
      (.bin .iff (.atomic (.atom ⟨"d", [.var "X", .var "X"]⟩)) (.atomic (.atom ⟨"in", [.var "X"]⟩))))
      [⟨"in", 1⟩] with
    | .err .definedPredicateVariableListMismatch => true | _ => false) = true := by decide

/-- **Sequencing.** The problems emitted for lemma `k` of an outline use as axioms exactly the
    axioms of the direction followed by the consequences of the lemmas before `k`. -/
theorem outline_sequencing (dirName : String) (axioms0 : List AnnF) (lemmas : List GeneralLemma) :
    outlineProblems dirName axioms0 lemmas =
      (indexFrom 0 lemmas).flatMap fun (k, l) =>
        (indexFrom 0 l.conjectures).map fun (j, c) =>
          mkProblem (dirName ++ "_outline_" ++ toString k ++ "_" ++ toString j)
            [axioms0 ++ (lemmas.take k).flatMap (·.consequences), [c]] := by
  unfold outlineProblems
  suffices h : ∀ (ls pre : List GeneralLemma) (ps : List Problem),
      (ls.foldl (fun (acc : List Problem × List AnnF × Nat) (l : GeneralLemma) =>
        (acc.1 ++ (indexFrom 0 l.conjectures).map fun (j, c) =>
            mkProblem (dirName ++ "_outline_" ++ toString acc.2.2 ++ "_" ++ toString j) [acc.2.1, [c]],
          acc.2.1 ++ l.consequences, acc.2.2 + 1))
        (ps, axioms0 ++ pre.flatMap (·.consequences), pre.length)).1 =
      ps ++ (indexFrom pre.length ls).flatMap fun (k, l) =>
        (indexFrom 0 l.conjectures).map fun (j, c) =>
          mkProblem (dirName ++ "_outline_" ++ toString k ++ "_" ++ toString j)
            [axioms0 ++ ((pre ++ ls).take k).flatMap (·.consequences), [c]] by
    have := h lemmas [] []
    simpa using this
  intro ls
  induction ls with
  | nil => intro pre ps; simp [indexFrom]
  | cons l ls ih =>
    intro pre ps
    simp only [List.foldl_cons, indexFrom, List.flatMap_cons]
    have := ih (pre ++ [l]) (ps ++ (indexFrom 0 l.conjectures).map fun (j, c) =>
      mkProblem (dirName ++ "_outline_" ++ toString pre.length ++ "_" ++ toString j)
        [axioms0 ++ pre.flatMap (·.consequences), [c]])
    simp only [List.flatMap_append, List.flatMap_cons, List.flatMap_nil, List.append_nil,
      List.length_append, List.length_cons, List.length_nil, Nat.zero_add, List.append_assoc,
      List.singleton_append] at this
    rw [← List.append_assoc axioms0] at this
    rw [this]
    simp only [List.take_left' (l₂ := l :: ls) rfl]

/-- Non-vacuity: an inductive lemma whose variable is also bound inside `F` and whose start value
    is negative is accepted and yields two obligations (kernel-evaluated). -/
example : (match inductiveLemma (.quant .all [⟨"N", .integer⟩]
    (.bin .imp (.atomic (.cmp (.int (.var "N")) [⟨.ge, .int (.num (-2))⟩]))
      (.bin .and (.atomic (.atom ⟨"p", [.int (.var "N")]⟩))
        (.quant .ex [⟨"N", .integer⟩] (.atomic (.atom ⟨"q", [.int (.var "N")]⟩)))))) with
    | .ok _ => true | _ => false) = true := by decide

end Anthem.C13
