/-
  C14 — printing a parsed program and parsing it again yields the same program.

  The printer (Model/Print) and the parser (Model/AspParse: the PEG of grammar.pest read with
  pest's rules, the tree builder of pest.rs, pest's Pratt parser) are both modelled and tied to
  the Rust code by exact correspondence (suites `print`, `asp_parse`).

  Proved here, for every program whose names have the lexical shape of the grammar and among
  which no symbolic constant or predicate symbol is `not` (`Program.WF`):
    `roundtrip`            parsing the printed text gives the program back,
    `print_parse_print`    and printing that again gives the identical text.
  The proof goes through the character level (`Proofs/AspLex` … `AspProgramRT`: every printed
  token is lexed back, white space and the look-aheads `!integer`, `!negation`, `!"."` included) and
  the pair level (`Proofs/PrattInv`: pest's Pratt algorithm inverts the printer's
  parenthesisation, for all operator nestings, unary minus on numerals vs negative numerals,
  intervals on either side).
  `accepted_text_roundtrip` states it for every accepted text, without any hypothesis: the tree of
  an accepted text always has names of the grammar's lexical shape other than `not`
  (`accepted_text_wf`).
  Repaired defect (`fix:` a1dc9d0, formerly a known finding): a symbol or predicate named `not` was
  accepted when no white space followed it (`p(not+1).`, `not :- q.`), printed with a following
  space and then rejected; `not` is no longer a name (`not_is_no_name`).
-/
import AnthemModel.Model.Print
import AnthemModel.Proofs.AspProgramRT
import AnthemModel.Proofs.AspImage
import AnthemModel.Proofs.AspImageWF
namespace Anthem.C14
open Asp

/-- **Round trip.** For every well-formed program (every operator nesting and associativity,
    unary minus on numerals, negative numerals, nested intervals, all three head kinds, empty
    bodies, constraints): the printed text is accepted and parses to the identical tree. -/
theorem roundtrip (p : Program) (h : p.WF) : parseProgram (printProgram p) = some p :=
  parseProgram_printProgram p h

/-- … and printing the re-parsed tree gives the identical text. -/
theorem print_parse_print (p : Program) (h : p.WF) :
    (parseProgram (printProgram p)).map printProgram = some (printProgram p) := by
  rw [roundtrip p h]; rfl

/-- every tree the parser builds is well-formed: names of the grammar's lexical shape, none of them
    `not` (since fix a1dc9d0) -/
theorem accepted_text_wf (text : String) (p : Program) (hp : parseProgram text = some p) : p.WF :=
  parseProgram_shapedW hp

/-- **The property, for every accepted text, no hypothesis.** If `text` is accepted with tree `p`,
    then the printed text of `p` is accepted, parses to `p`, and prints to itself. -/
theorem accepted_text_roundtrip (text : String) (p : Program) (hp : parseProgram text = some p) :
    parseProgram (printProgram p) = some p ∧
      (parseProgram (printProgram p)).map printProgram = some (printProgram p) :=
  have h := accepted_text_wf text p hp
  ⟨roundtrip p h, print_parse_print p h⟩

/-- **The round trip for the parser as it is** (grammar + range check of numerals, since the
    numeral-range fix): whatever text anthem accepts as a program, the printed tree is accepted again and
    parses to the identical tree, and prints to itself. -/
theorem accepted_text_roundtrip_checked (text : String) (p : Program) (hp : parseProgramChecked text = some p) :
    parseProgramChecked (printProgram p) = some p ∧
      (parseProgramChecked (printProgram p)).map printProgram = some (printProgram p) := by
  unfold parseProgramChecked at hp
  cases h0 : parseProgram text with
  | none => simp [h0] at hp
  | some p0 =>
    simp only [h0] at hp
    split at hp
    · rename_i hr
      injection hp with hp
      subst hp
      have hrt := (accepted_text_roundtrip text p0 h0).1
      have : parseProgramChecked (printProgram p0) = some p0 := by
        unfold parseProgramChecked
        rw [hrt]
        simp only [hr, if_true]
      exact ⟨this, by rw [this]; rfl⟩
    · cases hp

/-- the symbol lexer never returns the name `not` -/
theorem not_is_no_name {cs l r : List Char} (h : lexSymbol cs = some (l, r)) : l ≠ ['n', 'o', 't'] :=
  lexSymbol_not_not h

/-- the term level on its own: the pair sequence of a printed term is Pratt-parsed back to the term -/
theorem pratt_inverts_parenthesisation (t : Term) : pratt (flat t) = some t := pratt_flat_eq t

/-- Non-vacuity: a program with a choice rule, a constraint with empty body, a fact, negation,
    double negation, a comparison over an interval and nested arithmetic with a negative numeral and
    a unary minus meets the hypothesis (so `roundtrip` applies to it). -/
def sample : Program :=
  [⟨.choice ⟨"p", [.var "X"]⟩, [.lit ⟨.neg, ⟨"q", [.bin .sub (.var "X") (.pre (.num (-1)))]⟩⟩,
      .lit ⟨.negneg, ⟨"r", []⟩⟩, .cmp .le (.neg (.pre (.num 2))) (.bin .interval (.pre (.num 1)) (.bin .mul (.var "Y") (.pre (.sym "a"))))]⟩,
   ⟨.falsity, []⟩,
   ⟨.basic ⟨"_q1", [.pre .inf, .pre .sup]⟩, []⟩]

theorem sample_wf : sample.WF := by
  have sp : SymName "p".toList := Or.inl ⟨'p', [], rfl, by decide, by simp⟩
  have sq : SymName "q".toList := Or.inl ⟨'q', [], rfl, by decide, by simp⟩
  have sr : SymName "r".toList := Or.inl ⟨'r', [], rfl, by decide, by simp⟩
  have sa : SymName "a".toList := Or.inl ⟨'a', [], rfl, by decide, by simp⟩
  have s1 : SymName "_q1".toList := Or.inr ⟨'q', ['1'], rfl, by decide, by decide⟩
  have vx : VarName "X".toList := ⟨'X', [], rfl, by decide, by simp⟩
  have vy : VarName "Y".toList := ⟨'Y', [], rfl, by decide, by simp⟩
  intro r hr
  simp only [sample, List.mem_cons, List.mem_nil_iff, or_false] at hr
  rcases hr with rfl | rfl | rfl
  · refine ⟨⟨sp, by decide, ?_⟩, ?_⟩
    · intro t ht; simp only [List.mem_cons, List.mem_nil_iff, or_false] at ht; subst ht; exact vx
    · intro b hb
      simp only [List.mem_cons, List.mem_nil_iff, or_false] at hb
      rcases hb with rfl | rfl | rfl
      · refine ⟨sq, by decide, ?_⟩
        intro t ht; simp only [List.mem_cons, List.mem_nil_iff, or_false] at ht; subst ht
        exact ⟨vx, trivial⟩
      · exact ⟨sr, by decide, fun t ht => by cases ht⟩
      · exact ⟨trivial, trivial, vy, sa, by decide⟩
  · exact ⟨trivial, fun b hb => by cases hb⟩
  · refine ⟨⟨s1, by decide, ?_⟩, fun b hb => by cases hb⟩
    intro t ht
    simp only [List.mem_cons, List.mem_nil_iff, or_false] at ht
    rcases ht with rfl | rfl <;> trivial

example : parseProgram (printProgram sample) = some sample := roundtrip sample sample_wf

/-- `-(n)` for a positive numeral is printed with parentheses, the numeral `-n` without: the two
    trees the parser distinguishes get different texts. -/
theorem neg_of_positive_numeral (n : Int) (h : 1 ≤ n) :
    Term.print (.neg (.pre (.num n))) = "-" ++ ("(" ++ toString n ++ ")") := by
  simp [Term.print, Term.prec, parenIf, Pre.print, h]

theorem negative_numeral (n : Int) : Term.print (.pre (.num n)) = toString n := by
  simp [Term.print, Pre.print]

/-- A right operand of equal binding strength is parenthesised (all operators are parsed
    left-associative), a left operand of equal strength is not. -/
theorem right_operand_same_level (a b c : Term) :
    Term.print (.bin .sub a (.bin .add b c)) =
      parenIf (3 < a.prec) a.print ++ " - " ++ ("(" ++ Term.print (.bin .add b c) ++ ")") := by
  rw [Term.print]
  simp only [Term.prec, Op.print, parenIf, Nat.lt_irrefl, decide_false, Bool.false_or, decide_true, if_true]
  rfl

theorem left_operand_same_level (a b c : Term) :
    Term.print (.bin .sub (.bin .add a b) c) =
      Term.print (.bin .add a b) ++ " - " ++ parenIf (3 < c.prec || 3 = c.prec) c.print := by
  rw [Term.print]
  simp only [Term.prec, Op.print, parenIf, Nat.lt_irrefl, decide_false, Bool.false_eq_true, if_false]
  rfl

/-- An operand that binds weaker is always parenthesised. -/
theorem weaker_operand_parenthesised (a b c : Term) :
    Term.print (.bin .mul (.bin .add a b) c) =
      ("(" ++ Term.print (.bin .add a b) ++ ")") ++ " * " ++ parenIf (2 < c.prec || 2 = c.prec) c.print := by
  rw [Term.print]
  simp only [Term.prec, Op.print, parenIf, show (2 : Nat) < 3 from by decide, decide_true, if_true]
  rfl

/-- A constraint prints `:-` even with an empty body; a fact prints no `:-`. -/
theorem constraint_prints_neck (b : List BodyAtom) :
    Rule.print ⟨.falsity, b⟩ = " :- " ++ ", ".intercalate (b.map BodyAtom.print) ++ "." := by
  simp [Rule.print, Head.print]

theorem fact_prints_no_neck (a : Asp.Atom) : Rule.print ⟨.basic a, []⟩ = a.print ++ "." := by
  simp [Rule.print, Head.print]

/-- Why `not` must not be a name (the repaired defect): the term `not + 1` (symbol named `not`,
    formerly accepted as `not+1`) is printed with a space after `not`, which the grammar reads as a
    negation keyword. -/
theorem keyword_not_printed_with_space :
    Term.print (.bin .add (.pre (.sym "not")) (.pre (.num 1))) = "not + 1" := by decide

end Anthem.C14
