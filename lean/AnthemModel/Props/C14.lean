/-
  C14 — printing a parsed program and parsing it again yields the same program.
  Status (partial): the printer is modelled exactly (Model/Print.lean, tied by text equality);
  the pest parser is NOT modelled, so the round trip itself is established by exploration on the
  real parser (harness `roundtrip`), not by proof. Proved here: the printer facts the round trip
  hinges on — unary minus on a positive numeral is kept apart from a negative numeral, operands
  of lower binding strength are parenthesised (so the printed text determines the operator
  tree), a constraint always prints its `:-`.
  Known finding: a symbol or predicate named `not` (accepted when no white space follows it)
  is printed with a following space and then rejected.
-/
import AnthemModel.Model.Print
namespace Anthem.C14
open Asp

/-- `-(n)` for a positive numeral is printed with parentheses, the numeral `-n` without: the two
    trees the parser distinguishes get different texts. -/
theorem neg_of_positive_numeral (n : Int) (h : 1 ≤ n) :
    Term.print (.neg (.pre (.num n))) = "-" ++ ("(" ++ toString n ++ ")") := by
  simp [Term.print, Term.prec, parenIf, Pre.print, h]

theorem negative_numeral (n : Int) : Term.print (.pre (.num n)) = toString n := by
  simp [Term.print, Pre.print]

/-- A right operand of equal binding strength is parenthesised (all operators are parsed
    left-associative), a left operand of equal strength is not. -/
theorem right_operand_same_level (a b c : Term) :
    Term.print (.bin .sub a (.bin .add b c)) =
      parenIf (3 < a.prec) a.print ++ " - " ++ ("(" ++ Term.print (.bin .add b c) ++ ")") := by
  rw [Term.print]
  simp only [Term.prec, Op.print, parenIf, Nat.lt_irrefl, decide_false, Bool.false_or, decide_true, if_true]
  rfl

theorem left_operand_same_level (a b c : Term) :
    Term.print (.bin .sub (.bin .add a b) c) =
      Term.print (.bin .add a b) ++ " - " ++ parenIf (3 < c.prec || 3 = c.prec) c.print := by
  rw [Term.print]
  simp only [Term.prec, Op.print, parenIf, Nat.lt_irrefl, decide_false, Bool.false_eq_true, if_false]
  rfl

/-- An operand that binds weaker is always parenthesised. -/
theorem weaker_operand_parenthesised (a b c : Term) :
    Term.print (.bin .mul (.bin .add a b) c) =
      ("(" ++ Term.print (.bin .add a b) ++ ")") ++ " * " ++ parenIf (2 < c.prec || 2 = c.prec) c.print := by
  rw [Term.print]
  simp only [Term.prec, Op.print, parenIf, show (2 : Nat) < 3 from by decide, decide_true, if_true]
  rfl

/-- A constraint prints `:-` even with an empty body; a fact prints no `:-`. -/
theorem constraint_prints_neck (b : List BodyAtom) :
    Rule.print ⟨.falsity, b⟩ = " :- " ++ ", ".intercalate (b.map BodyAtom.print) ++ "." := by
  simp [Rule.print, Head.print]

theorem fact_prints_no_neck (a : Asp.Atom) : Rule.print ⟨.basic a, []⟩ = a.print ++ "." := by
  simp [Rule.print, Head.print]

/-- Counterexample to the unconditional round trip (known finding): the term `not + 1` (symbol
    named `not`, accepted as `not+1`) is printed with a space after `not`, which the grammar reads
    as a negation keyword. -/
theorem keyword_not_printed_with_space :
    Term.print (.bin .add (.pre (.sym "not")) (.pre (.num 1))) = "not + 1" := by decide

end Anthem.C14
