/-
  C15 — printing a parsed theory / specification / user guide re-parses to the same tree.
  Status (partial): printers modelled exactly and tied by text equality; the pest parser is not
  modelled, the round trip is explored on the real parser. Two genuine defects were repaired
  (`fix:` db0baa0 quantifier over a variable-initial atomic formula, 3af4e16 keyword word
  boundary). Proved here: the printer facts behind the first fix and the associativity /
  mandatory-parentheses rules of the mixed level `<->`, `->`, `<-`.
  Known finding: a comparison directly before `<-` (`1 < 2 <- 3 > 2` is read as `1 < 2 < -3 > 2`).
-/
import AnthemModel.Model.Print
namespace Anthem.C15

/-- text of a quantification prefix -/
def quantPrefix (q : Quant) (vs : List Var) : String :=
  (match q with | .all => "forall" | .ex => "exists") ++ String.join (vs.map fun v => " " ++ v.print) ++ " "

/-- A quantifier over an atomic formula prints parentheses exactly when the atomic formula's text
    begins with a variable (otherwise the variable list would swallow it). -/
theorem quantified_atomic (q : Quant) (vs : List Var) (a : AtomicF) :
    Formula.print (.quant q vs (.atomic a)) =
      if startsWithVariable a.print then quantPrefix q vs ++ "(" ++ a.print ++ ")"
      else quantPrefix q vs ++ a.print := by
  cases q <;> by_cases h : startsWithVariable a.print = true <;>
    simp [Formula.print, quantPrefix, h, String.append_assoc]

/-- … concretely (kernel-evaluated): the former defect and an atom, which stays bare. -/
example : Formula.print (.quant .all [⟨"X", .general⟩]
    (.atomic (.cmp (.var "Y") [⟨.eq, .int (.num 3)⟩]))) = "forall X (Y = 3)" := by decide
example : Formula.print (.quant .all [⟨"X", .general⟩] (.atomic (.atom ⟨"p", [.var "X"]⟩))) =
    "forall X p(X)" := by decide

/-- The mixed level `<->`, `->`, `<-`: operands of that level are always parenthesised;
    `and` / `or` chains are printed left-nested without and right-nested with parentheses
    (kernel-evaluated instances of the precedence rules). -/
example : Formula.print (.bin .imp (.bin .imp (.atomic (.atom ⟨"a", []⟩)) (.atomic (.atom ⟨"b", []⟩)))
    (.atomic (.atom ⟨"c", []⟩))) = "(a -> b) -> c" := by decide
example : Formula.print (.bin .imp (.atomic (.atom ⟨"a", []⟩))
    (.bin .imp (.atomic (.atom ⟨"b", []⟩)) (.atomic (.atom ⟨"c", []⟩)))) = "a -> (b -> c)" := by decide
example : Formula.print (.bin .and (.bin .and (.atomic (.atom ⟨"a", []⟩)) (.atomic (.atom ⟨"b", []⟩)))
    (.atomic (.atom ⟨"c", []⟩))) = "a and b and c" := by decide
example : Formula.print (.bin .and (.atomic (.atom ⟨"a", []⟩))
    (.bin .and (.atomic (.atom ⟨"b", []⟩)) (.atomic (.atom ⟨"c", []⟩)))) = "a and (b and c)" := by decide
example : Formula.print (.not (.bin .or (.atomic (.atom ⟨"a", []⟩)) (.not (.atomic (.atom ⟨"b", []⟩))))) =
    "not (a or not b)" := by decide

/-- Counterexample to the unconditional round trip (known finding): nothing separates a
    comparison from a following `<-`. -/
theorem comparison_before_reverse_implication :
    Formula.print (.bin .rimp (.atomic (.cmp (.int (.num 1)) [⟨.lt, .int (.num 2)⟩]))
      (.atomic (.cmp (.int (.num 3)) [⟨.gt, .int (.num 2)⟩]))) = "1 < 2 <- 3 > 2" := by decide

end Anthem.C15
