/-
  C15 — printing a parsed theory / specification / user guide re-parses to the same tree.
  Status: the printers (Model/Print) and the parser (Model/FolParse: the PEG of grammar.pest with
  pest's rules, the tree builders, both Pratt tables of pest.rs) are modelled and tied to the Rust
  code by exact correspondence (suites `print`, `fol_parse`).
  Proved here (pair level): `pratt_inverts_formula_parenthesisation` and
  `pratt_inverts_integer_term_parenthesisation` - pest's Pratt algorithm, run on the pair sequence
  of a printed formula / integer term (an operand that the printer parenthesises is one primary
  pair), returns the formula / term, for every nesting: the five connectives with the mandatory
  parentheses of the mixed level `<->`, `->`, `<-`, left-nested `and`/`or` chains, negation and
  quantifier prefixes in any operand position; plus the printer facts behind the three repaired
  defects. Not proved: the character level for the target language (that the printed tokens are
  lexed back: sort suffixes, keyword boundaries, variable lists); it is covered by the
  `fol_parse` correspondence and the round-trip exploration on the real parser.
  Three genuine defects were repaired (`fix:` db0baa0 quantifier over a variable-initial atomic
  formula, 3af4e16 keyword word boundary, d0885ee comparison after `<-`).
-/
import AnthemModel.Model.Print
import AnthemModel.Proofs.FolPrattInv
namespace Anthem.C15

/-- text of a quantification prefix -/
def quantPrefix (q : Quant) (vs : List Var) : String :=
  (match q with | .all => "forall" | .ex => "exists") ++ String.join (vs.map fun v => " " ++ v.print) ++ " "

/-- A quantifier over an atomic formula prints parentheses exactly when the atomic formula's text
    begins with a variable (otherwise the variable list would swallow it). -/
theorem quantified_atomic (q : Quant) (vs : List Var) (a : AtomicF) :
    Formula.print (.quant q vs (.atomic a)) =
      if startsWithVariable a.print then quantPrefix q vs ++ "(" ++ a.print ++ ")"
      else quantPrefix q vs ++ a.print := by
  cases q <;> by_cases h : startsWithVariable a.print = true <;>
    simp [Formula.print, quantPrefix, h, String.append_assoc]

/-- … concretely (kernel-evaluated): the former defect and an atom, which stays bare. -/
example : Formula.print (.quant .all [⟨"X", .general⟩]
    (.atomic (.cmp (.var "Y") [⟨.eq, .int (.num 3)⟩]))) = "forall X (Y = 3)" := by decide
example : Formula.print (.quant .all [⟨"X", .general⟩] (.atomic (.atom ⟨"p", [.var "X"]⟩))) =
    "forall X p(X)" := by decide

/-- The mixed level `<->`, `->`, `<-`: operands of that level are always parenthesised;
    `and` / `or` chains are printed left-nested without and right-nested with parentheses
    (kernel-evaluated instances of the precedence rules). -/
example : Formula.print (.bin .imp (.bin .imp (.atomic (.atom ⟨"a", []⟩)) (.atomic (.atom ⟨"b", []⟩)))
    (.atomic (.atom ⟨"c", []⟩))) = "(a -> b) -> c" := by decide
example : Formula.print (.bin .imp (.atomic (.atom ⟨"a", []⟩))
    (.bin .imp (.atomic (.atom ⟨"b", []⟩)) (.atomic (.atom ⟨"c", []⟩)))) = "a -> (b -> c)" := by decide
example : Formula.print (.bin .and (.bin .and (.atomic (.atom ⟨"a", []⟩)) (.atomic (.atom ⟨"b", []⟩)))
    (.atomic (.atom ⟨"c", []⟩))) = "a and b and c" := by decide
example : Formula.print (.bin .and (.atomic (.atom ⟨"a", []⟩))
    (.bin .and (.atomic (.atom ⟨"b", []⟩)) (.atomic (.atom ⟨"c", []⟩)))) = "a and (b and c)" := by decide
example : Formula.print (.not (.bin .or (.atomic (.atom ⟨"a", []⟩)) (.not (.atomic (.atom ⟨"b", []⟩))))) =
    "not (a or not b)" := by decide

/-- After the repair: a right operand of `<-` that begins with a comparison is parenthesised, so
    the text after `<-` never starts a term (`1 < 2 <- 3 > 2` used to be read as `1 < 2 < -3 > 2`). -/
theorem comparison_after_reverse_implication (l r : Formula) (h : r.beginsWithComparison = true) :
    Formula.print (.bin .rimp l r) =
      parenIf (l.mandatory || (Formula.bin .rimp l r).prec < l.prec ||
        ((Formula.bin .rimp l r).prec = l.prec && l.rightAssoc)) l.print ++ " <- " ++
        "(" ++ r.print ++ ")" := by
  rw [Formula.print]
  simp only [h, parenIf, Conn.print, Bool.and_true, Bool.true_or, decide_true, if_true,
    String.append_assoc]

example : Formula.print (.bin .rimp (.atomic (.cmp (.int (.num 1)) [⟨.lt, .int (.num 2)⟩]))
      (.atomic (.cmp (.int (.num 3)) [⟨.gt, .int (.num 2)⟩]))) = "1 < 2 <- (3 > 2)" := by decide
example : Formula.print (.bin .rimp (.atomic (.atom ⟨"p", []⟩))
      (.bin .and (.atomic (.cmp (.int (.var "X")) [⟨.gt, .int (.num 3)⟩])) (.atomic (.atom ⟨"q", []⟩)))) =
    "p <- (X$i > 3 and q)" := by decide

/-- **Pratt inversion for formulas** (pair level): for every formula, pest's Pratt parser with
    the table of pest.rs (`<->`,`->` right-, `<-` left-associative at the weakest level, then `or`,
    `and`, prefix `not`/quantification strongest) returns the formula from the pair sequence of its
    printed text. -/
theorem pratt_inverts_formula_parenthesisation (f : Formula) : Fol.fpratt (Fol.fflat f) = some f :=
  Fol.fpratt_flat_eq f

/-- **Pratt inversion for integer terms** (pair level). -/
theorem pratt_inverts_integer_term_parenthesisation (t : ITerm) : Fol.ipratt (Fol.iflat t) = some t :=
  Fol.ipratt_flat_eq t

/-- the pair sequence mirrors the printer: an operand is a single primary exactly when the printer
    parenthesises it (same conditions, read off `Formula.print`) -/
theorem fflat_paren_conditions (c : Conn) (l r : Formula) :
    Fol.parenLeft c l r = (l.mandatory || decide ((Formula.bin c l r).prec < l.prec) ||
      (decide ((Formula.bin c l r).prec = l.prec) && l.rightAssoc)) ∧
    Fol.parenRight c l r = ((decide (c = .rimp) && r.beginsWithComparison) || r.mandatory ||
      decide ((Formula.bin c l r).prec < r.prec) ||
      (decide ((Formula.bin c l r).prec = r.prec) && !(Formula.bin c l r).rightAssoc)) := ⟨rfl, rfl⟩

end Anthem.C15
