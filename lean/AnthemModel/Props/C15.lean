/-
  C15 — printing a parsed theory / specification / user guide re-parses to the same tree.
  Status: FULL for the model. The printers (Model/Print) and the parser (Model/FolParse: the PEG
  of grammar.pest with pest's rules, the tree builders, both Pratt tables of pest.rs) are modelled
  and tied to the Rust code by exact correspondence (suites `print`, `fol_parse`).
  Proved here, character level, no hypothesis on the text:
    `accepted_theory_roundtrip`, `accepted_specification_roundtrip`, `accepted_user_guide_roundtrip`:
    for every text the parser accepts, the printed tree is accepted and parses to the identical
    tree (and prints to itself: `*_print_parse_print`).
  They combine `parse*_print*` (the parser inverts the printer on every *safe* tree: names of the
  grammar's lexical shape, a guard in every comparison, a variable in every quantifier, no atomic
  formula starting with the name `not`) with `parse*_safe` (every tree in the parser's image is
  safe). Pair level: `pratt_inverts_formula_parenthesisation`,
  `pratt_inverts_integer_term_parenthesisation`.
  Four genuine defects were repaired (`fix:` db0baa0 quantifier over a variable-initial atomic
  formula, 3af4e16 keyword word boundary, d0885ee comparison after `<-`, 2ca6488 `not$i` at the
  start of a comparison - the last one found by weakening the hypothesis of the round-trip theorem
  to the parser's image and running the real parser at the point the proof excluded).
-/
import AnthemModel.Model.Print
import AnthemModel.Proofs.FolPrattInv
import AnthemModel.Proofs.FolImage3
namespace Anthem.C15

/-- text of a quantification prefix -/
def quantPrefix (q : Quant) (vs : List Var) : String :=
  (match q with | .all => "forall" | .ex => "exists") ++ String.join (vs.map fun v => " " ++ v.print) ++ " "

/-- A quantifier over an atomic formula prints parentheses exactly when the atomic formula's text
    begins with a variable (otherwise the variable list would swallow it). -/
theorem quantified_atomic (q : Quant) (vs : List Var) (a : AtomicF) :
    Formula.print (.quant q vs (.atomic a)) =
      if startsWithVariable a.print then quantPrefix q vs ++ "(" ++ a.print ++ ")"
      else quantPrefix q vs ++ a.print := by
  cases q <;> by_cases h : startsWithVariable a.print = true <;>
    simp [Formula.print, quantPrefix, h, String.append_assoc]

/-- … concretely (kernel-evaluated): the former defect and an atom, which stays bare. -/
example : Formula.print (.quant .all [⟨"X", .general⟩]
    (.atomic (.cmp (.var "Y") [⟨.eq, .int (.num 3)⟩]))) = "forall X (Y = 3)" := by decide
example : Formula.print (.quant .all [⟨"X", .general⟩] (.atomic (.atom ⟨"p", [.var "X"]⟩))) =
    "forall X p(X)" := by decide

/-- The mixed level `<->`, `->`, `<-`: operands of that level are always parenthesised;
    `and` / `or` chains are printed left-nested without and right-nested with parentheses
    (kernel-evaluated instances of the precedence rules). -/
example : Formula.print (.bin .imp (.bin .imp (.atomic (.atom ⟨"a", []⟩)) (.atomic (.atom ⟨"b", []⟩)))
    (.atomic (.atom ⟨"c", []⟩))) = "(a -> b) -> c" := by decide
example : Formula.print (.bin .imp (.atomic (.atom ⟨"a", []⟩))
    (.bin .imp (.atomic (.atom ⟨"b", []⟩)) (.atomic (.atom ⟨"c", []⟩)))) = "a -> (b -> c)" := by decide
example : Formula.print (.bin .and (.bin .and (.atomic (.atom ⟨"a", []⟩)) (.atomic (.atom ⟨"b", []⟩)))
    (.atomic (.atom ⟨"c", []⟩))) = "a and b and c" := by decide
example : Formula.print (.bin .and (.atomic (.atom ⟨"a", []⟩))
    (.bin .and (.atomic (.atom ⟨"b", []⟩)) (.atomic (.atom ⟨"c", []⟩)))) = "a and (b and c)" := by decide
example : Formula.print (.not (.bin .or (.atomic (.atom ⟨"a", []⟩)) (.not (.atomic (.atom ⟨"b", []⟩))))) =
    "not (a or not b)" := by decide

/-- After the repair: a right operand of `<-` that begins with a comparison is parenthesised, so
    the text after `<-` never starts a term (`1 < 2 <- 3 > 2` used to be read as `1 < 2 < -3 > 2`). -/
theorem comparison_after_reverse_implication (l r : Formula) (h : r.beginsWithComparison = true) :
    Formula.print (.bin .rimp l r) =
      parenIf (l.mandatory || (Formula.bin .rimp l r).prec < l.prec ||
        ((Formula.bin .rimp l r).prec = l.prec && l.rightAssoc)) l.print ++ " <- " ++
        "(" ++ r.print ++ ")" := by
  rw [Formula.print]
  simp only [h, parenIf, Conn.print, Bool.and_true, Bool.true_or, decide_true, if_true,
    String.append_assoc]

example : Formula.print (.bin .rimp (.atomic (.cmp (.int (.num 1)) [⟨.lt, .int (.num 2)⟩]))
      (.atomic (.cmp (.int (.num 3)) [⟨.gt, .int (.num 2)⟩]))) = "1 < 2 <- (3 > 2)" := by decide
example : Formula.print (.bin .rimp (.atomic (.atom ⟨"p", []⟩))
      (.bin .and (.atomic (.cmp (.int (.var "X")) [⟨.gt, .int (.num 3)⟩])) (.atomic (.atom ⟨"q", []⟩)))) =
    "p <- (X$i > 3 and q)" := by decide

/-- **Pratt inversion for formulas** (pair level): for every formula, pest's Pratt parser with
    the table of pest.rs (`<->`,`->` right-, `<-` left-associative at the weakest level, then `or`,
    `and`, prefix `not`/quantification strongest) returns the formula from the pair sequence of its
    printed text. -/
theorem pratt_inverts_formula_parenthesisation (f : Formula) : Fol.fpratt (Fol.fflat f) = some f :=
  Fol.fpratt_flat_eq f

/-- **Pratt inversion for integer terms** (pair level). -/
theorem pratt_inverts_integer_term_parenthesisation (t : ITerm) : Fol.ipratt (Fol.iflat t) = some t :=
  Fol.ipratt_flat_eq t

/-- the pair sequence mirrors the printer: an operand is a single primary exactly when the printer
    parenthesises it (same conditions, read off `Formula.print`) -/
theorem fflat_paren_conditions (c : Conn) (l r : Formula) :
    Fol.parenLeft c l r = (l.mandatory || decide ((Formula.bin c l r).prec < l.prec) ||
      (decide ((Formula.bin c l r).prec = l.prec) && l.rightAssoc)) ∧
    Fol.parenRight c l r = ((decide (c = .rimp) && r.beginsWithComparison) || r.mandatory ||
      decide ((Formula.bin c l r).prec < r.prec) ||
      (decide ((Formula.bin c l r).prec = r.prec) && !(Formula.bin c l r).rightAssoc)) := ⟨rfl, rfl⟩

/-! ## the character level -/

/-- **C15, theories.** For every text the parser accepts as a theory, the printed tree is accepted
    and parses to the identical tree. -/
theorem accepted_theory_roundtrip {text : String} {t : Theory} (h : Fol.parseTheory text = some t) :
    Fol.parseTheory (printTheory t) = some t := Fol.accepted_theory_roundtrip h

/-- **C15, specifications** (annotated formulas with role, direction and name). -/
theorem accepted_specification_roundtrip {text : String} {s : Specification}
    (h : Fol.parseSpecification text = some s) : Fol.parseSpecification (printSpecification s) = some s :=
  Fol.accepted_specification_roundtrip h

/-- **C15, user guides** (input / output predicates, placeholder declarations of each sort,
    annotated formulas). -/
theorem accepted_user_guide_roundtrip {text : String} {u : UserGuide} (h : Fol.parseUserGuide text = some u) :
    Fol.parseUserGuide (printUserGuide u) = some u := Fol.accepted_user_guide_roundtrip h

/-- **The round trips for the parsers as they are** (grammar + range check of numerals and arities, since
    the numeral-range fix). -/
theorem accepted_theory_roundtrip_checked {text : String} {t : Theory} (h : Fol.parseTheoryChecked text = some t) :
    Fol.parseTheoryChecked (printTheory t) = some t := by
  unfold Fol.parseTheoryChecked at h
  cases h0 : Fol.parseTheory text with
  | none => simp [h0] at h
  | some t0 =>
    simp only [h0] at h
    split at h
    · rename_i hr
      injection h with h
      subst h
      unfold Fol.parseTheoryChecked
      rw [accepted_theory_roundtrip h0]
      simp only [hr, if_true]
    · cases h

theorem accepted_specification_roundtrip_checked {text : String} {s : Specification}
    (h : Fol.parseSpecificationChecked text = some s) : Fol.parseSpecificationChecked (printSpecification s) = some s := by
  unfold Fol.parseSpecificationChecked at h
  cases h0 : Fol.parseSpecification text with
  | none => simp [h0] at h
  | some t0 =>
    simp only [h0] at h
    split at h
    · rename_i hr
      injection h with h
      subst h
      unfold Fol.parseSpecificationChecked
      rw [accepted_specification_roundtrip h0]
      simp only [hr, if_true]
    · cases h

theorem accepted_user_guide_roundtrip_checked {text : String} {u : UserGuide}
    (h : Fol.parseUserGuideChecked text = some u) : Fol.parseUserGuideChecked (printUserGuide u) = some u := by
  unfold Fol.parseUserGuideChecked at h
  cases h0 : Fol.parseUserGuide text with
  | none => simp [h0] at h
  | some t0 =>
    simp only [h0] at h
    split at h
    · rename_i hr
      injection h with h
      subst h
      unfold Fol.parseUserGuideChecked
      rw [accepted_user_guide_roundtrip h0]
      simp only [hr, if_true]
    · cases h

/-- … and printing the re-parsed tree gives the same text again. -/
theorem theory_print_parse_print {text : String} {t : Theory} (h : Fol.parseTheory text = some t) :
    (Fol.parseTheory (printTheory t)).map printTheory = some (printTheory t) := by
  rw [accepted_theory_roundtrip h]; rfl

theorem specification_print_parse_print {text : String} {s : Specification} (h : Fol.parseSpecification text = some s) :
    (Fol.parseSpecification (printSpecification s)).map printSpecification = some (printSpecification s) := by
  rw [accepted_specification_roundtrip h]; rfl

theorem user_guide_print_parse_print {text : String} {u : UserGuide} (h : Fol.parseUserGuide text = some u) :
    (Fol.parseUserGuide (printUserGuide u)).map printUserGuide = some (printUserGuide u) := by
  rw [accepted_user_guide_roundtrip h]; rfl

/-- The two halves: the parser inverts the printer on every safe theory … -/
theorem theory_roundtrip (t : Theory) (ht : Fol.Theory.Safe t) : Fol.parseTheory (printTheory t) = some t :=
  Fol.parseTheory_printTheory t ht

/-- … and every theory in the image of the parser is safe. -/
theorem accepted_theory_safe {text : String} {t : Theory} (h : Fol.parseTheory text = some t) : Fol.Theory.Safe t :=
  Fol.parseTheory_safe h

/-- everything the translate and simplify commands print: their output is the printed form of a
    theory whose names come from a parsed program (C14: lexical shape) and from the translation's
    own variables; for every such safe theory the text is accepted and parses to the same tree -/
theorem printed_safe_theory_is_accepted (t : Theory) (ht : Fol.Theory.Safe t) :
    ∃ t', Fol.parseTheory (printTheory t) = some t' ∧ t' = t := ⟨t, theory_roundtrip t ht, rfl⟩

/-- Non-vacuity: a theory with a quantifier over a variable-initial comparison, nested prefixes,
    a chained comparison, both associativities, sort annotations and a `<-` in front of a
    comparison is safe, so it is the parse of its own printed text and `accepted_theory_roundtrip`
    applies to that text. -/
def sample : Theory :=
  [ .quant .all [⟨"X", .general⟩, ⟨"N", .integer⟩] (.atomic (.cmp (.var "X") [⟨.eq, .int (.num 3)⟩, ⟨.lt, .int (.var "N")⟩])),
    .not (.not (.quant .ex [⟨"S", .symbol⟩] (.atomic (.atom ⟨"p", [.symb (.var "S"), .symb (.sym "a")]⟩)))),
    .bin .imp (.bin .imp (.atomic (.atom ⟨"q", []⟩)) (.atomic .tru)) (.bin .rimp (.atomic (.atom ⟨"forall", []⟩))
      (.atomic (.cmp (.int (.bin .add (.fc "not") (.num (-1)))) [⟨.ge, .inf⟩]))) ]

theorem sample_safe : Fol.Theory.Safe sample := by
  have sp : Asp.SymName "p".toList := Or.inl ⟨'p', [], rfl, by decide, by simp⟩
  have sq : Asp.SymName "q".toList := Or.inl ⟨'q', [], rfl, by decide, by simp⟩
  have sa : Asp.SymName "a".toList := Or.inl ⟨'a', [], rfl, by decide, by simp⟩
  have sf : Asp.SymName "forall".toList := Or.inl ⟨'f', ['o', 'r', 'a', 'l', 'l'], rfl, by decide, by decide⟩
  have sn : Asp.SymName "not".toList := Or.inl ⟨'n', ['o', 't'], rfl, by decide, by decide⟩
  have vx : Fol.UVName "X".toList := Or.inl ⟨'X', [], rfl, by decide, by simp⟩
  have vn : Fol.UVName "N".toList := Or.inl ⟨'N', [], rfl, by decide, by simp⟩
  have vs : Fol.UVName "S".toList := Or.inl ⟨'S', [], rfl, by decide, by simp⟩
  intro F hF
  simp only [sample, List.mem_cons, List.mem_nil_iff, or_false] at hF
  rcases hF with rfl | rfl | rfl
  · refine ⟨by simp, ?_, ⟨⟨vx, by simp, ?_⟩, trivial⟩⟩
    · intro v hv
      simp only [List.mem_cons, List.mem_nil_iff, or_false] at hv
      rcases hv with rfl | rfl
      · exact vx
      · exact vn
    · intro g hg
      simp only [List.mem_cons, List.mem_nil_iff, or_false] at hg
      rcases hg with rfl | rfl
      · trivial
      · exact vn
  · refine ⟨by simp, ?_, ⟨⟨sp, ?_⟩, (by show "p".toList ≠ ['n', 'o', 't']; decide)⟩⟩
    · intro v hv
      simp only [List.mem_cons, List.mem_nil_iff, or_false] at hv
      subst hv; exact vs
    · intro t ht
      simp only [List.mem_cons, List.mem_nil_iff, or_false] at ht
      rcases ht with rfl | rfl
      · exact vs
      · exact sa
  · refine ⟨⟨⟨⟨sq, fun t ht => by cases ht⟩, (by show "q".toList ≠ ['n', 'o', 't']; decide)⟩, ⟨trivial, trivial⟩⟩,
      ⟨⟨sf, fun t ht => by cases ht⟩, (by show "forall".toList ≠ ['n', 'o', 't']; decide)⟩, ?_⟩
    refine ⟨⟨⟨sn, trivial⟩, by simp, ?_⟩, trivial⟩
    intro g hg
    simp only [List.mem_cons, List.mem_nil_iff, or_false] at hg
    subst hg; trivial

example : Fol.parseTheory (printTheory sample) = some sample := theory_roundtrip sample sample_safe
example : Fol.parseTheory (printTheory sample) = some sample := accepted_theory_roundtrip (theory_roundtrip sample sample_safe)

end Anthem.C15
