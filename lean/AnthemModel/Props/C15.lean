/-
  C15 — printing a parsed theory / specification / user guide re-parses to the same tree.
  Status (partial): printers modelled exactly and tied by text equality; the pest parser is not
  modelled, the round trip is explored on the real parser. Two genuine defects were repaired
  (`fix:` db0baa0 quantifier over a variable-initial atomic formula, 3af4e16 keyword word
  boundary). Proved here: the printer facts behind the first fix and the associativity /
  mandatory-parentheses rules of the mixed level `<->`, `->`, `<-`.
  A third defect (text beginning with a comparison after `<-`: `p <- X$i > 3` was read as the
  comparison `p < -X$i > 3`) was repaired later (`fix:` right operand of `<-` parenthesised when it
  begins with a comparison).
-/
import AnthemModel.Model.Print
namespace Anthem.C15

/-- text of a quantification prefix -/
def quantPrefix (q : Quant) (vs : List Var) : String :=
  (match q with | .all => "forall" | .ex => "exists") ++ String.join (vs.map fun v => " " ++ v.print) ++ " "

/-- A quantifier over an atomic formula prints parentheses exactly when the atomic formula's text
    begins with a variable (otherwise the variable list would swallow it). -/
theorem quantified_atomic (q : Quant) (vs : List Var) (a : AtomicF) :
    Formula.print (.quant q vs (.atomic a)) =
      if startsWithVariable a.print then quantPrefix q vs ++ "(" ++ a.print ++ ")"
      else quantPrefix q vs ++ a.print := by
  cases q <;> by_cases h : startsWithVariable a.print = true <;>
    simp [Formula.print, quantPrefix, h, String.append_assoc]

/-- … concretely (kernel-evaluated): the former defect and an atom, which stays bare. -/
example : Formula.print (.quant .all [⟨"X", .general⟩]
    (.atomic (.cmp (.var "Y") [⟨.eq, .int (.num 3)⟩]))) = "forall X (Y = 3)" := by decide
example : Formula.print (.quant .all [⟨"X", .general⟩] (.atomic (.atom ⟨"p", [.var "X"]⟩))) =
    "forall X p(X)" := by decide

/-- The mixed level `<->`, `->`, `<-`: operands of that level are always parenthesised;
    `and` / `or` chains are printed left-nested without and right-nested with parentheses
    (kernel-evaluated instances of the precedence rules). -/
example : Formula.print (.bin .imp (.bin .imp (.atomic (.atom ⟨"a", []⟩)) (.atomic (.atom ⟨"b", []⟩)))
    (.atomic (.atom ⟨"c", []⟩))) = "(a -> b) -> c" := by decide
example : Formula.print (.bin .imp (.atomic (.atom ⟨"a", []⟩))
    (.bin .imp (.atomic (.atom ⟨"b", []⟩)) (.atomic (.atom ⟨"c", []⟩)))) = "a -> (b -> c)" := by decide
example : Formula.print (.bin .and (.bin .and (.atomic (.atom ⟨"a", []⟩)) (.atomic (.atom ⟨"b", []⟩)))
    (.atomic (.atom ⟨"c", []⟩))) = "a and b and c" := by decide
example : Formula.print (.bin .and (.atomic (.atom ⟨"a", []⟩))
    (.bin .and (.atomic (.atom ⟨"b", []⟩)) (.atomic (.atom ⟨"c", []⟩)))) = "a and (b and c)" := by decide
example : Formula.print (.not (.bin .or (.atomic (.atom ⟨"a", []⟩)) (.not (.atomic (.atom ⟨"b", []⟩))))) =
    "not (a or not b)" := by decide

/-- After the repair: a right operand of `<-` that begins with a comparison is parenthesised, so
    the text after `<-` never starts a term (`1 < 2 <- 3 > 2` used to be read as `1 < 2 < -3 > 2`). -/
theorem comparison_after_reverse_implication (l r : Formula) (h : r.beginsWithComparison = true) :
    Formula.print (.bin .rimp l r) =
      parenIf (l.mandatory || (Formula.bin .rimp l r).prec < l.prec ||
        ((Formula.bin .rimp l r).prec = l.prec && l.rightAssoc)) l.print ++ " <- " ++
        "(" ++ r.print ++ ")" := by
  rw [Formula.print]
  simp only [h, parenIf, Conn.print, Bool.and_true, Bool.true_or, decide_true, if_true,
    String.append_assoc]

example : Formula.print (.bin .rimp (.atomic (.cmp (.int (.num 1)) [⟨.lt, .int (.num 2)⟩]))
      (.atomic (.cmp (.int (.num 3)) [⟨.gt, .int (.num 2)⟩]))) = "1 < 2 <- (3 > 2)" := by decide
example : Formula.print (.bin .rimp (.atomic (.atom ⟨"p", []⟩))
      (.bin .and (.atomic (.cmp (.int (.var "X")) [⟨.gt, .int (.num 3)⟩])) (.atomic (.atom ⟨"q", []⟩)))) =
    "p <- (X$i > 3 and q)" := by decide

end Anthem.C15
