/-
  C16 — any input text leads to a result or a reported error, never a crash.
  Status (partial). Every panic site of the modelled stages is an explicit predicate of the model
  (`substPanics`, `globalsPanic`, the `Outcome.panic` results of the external pipeline). Proved:
  substitution never panics on sort-compatible arguments (the only way the translators and
  simplifiers call it); tau* / mu panic exactly on the `usize` overflow of the global-variable
  index (known finding); the TPTP printer has no panicking numeral after fix ca17dcd; an
  external task that passes the applicability checks reaches `unreachable!()` in the assembly
  for no role (after fix 3401bdf); `external_panic_only_overflow`: the whole external-equivalence
  pipeline (checks, tau*, placeholders, completion, simplification, outline, assembly) panics only on
  that overflow - in particular `expect("tau_star did not create a completable theory")` is
  unreachable (`completion_of_tau_star_exists`). NOT expressible in the model: stack depth, allocation
  failure, hangs, the pest parser's own behaviour — explored with mutated inputs through every
  CLI command by the check. Known findings: numerals / arities beyond the integer type panic in
  the parsers' tree builders; `V18446744073709551615` overflows the global index.
-/
import AnthemModel.Proofs.SubstBasic
import AnthemModel.Model.External
import AnthemModel.Model.TptpFmt
import AnthemModel.Proofs.PanicFree
import AnthemModel.Model.AspParse
import AnthemModel.Model.FolParse
namespace Anthem.C16

theorem gterm_substPanics_false (t : GTerm) (v : Var) (s : GTerm) (hc : SortCompatible v s) :
    t.substPanics v s = false := by
  cases t with
  | int it =>
    simp only [GTerm.substPanics, Bool.and_eq_false_imp, decide_eq_true_eq]
    intro h; obtain ⟨si, rfl⟩ := hc.1 h; rfl
  | symb st =>
    simp only [GTerm.substPanics, Bool.and_eq_false_imp, decide_eq_true_eq]
    intro h; obtain ⟨ss, rfl⟩ := hc.2 h; rfl
  | inf | sup | fc _ | var _ => rfl

theorem atomic_substPanics_false (a : AtomicF) (v : Var) (s : GTerm) (hc : SortCompatible v s) :
    a.substPanics v s = false := by
  cases a with
  | tru | fls => rfl
  | atom a =>
    simp only [AtomicF.substPanics, List.any_eq_false]
    intro t _; simp [gterm_substPanics_false t v s hc]
  | cmp t gs =>
    simp only [AtomicF.substPanics, Bool.or_eq_false_iff, List.any_eq_false]
    exact ⟨gterm_substPanics_false t v s hc, fun g _ => by simp [gterm_substPanics_false g.term v s hc]⟩

/-- **Substitution never panics on sort-compatible arguments**, whatever renaming happens on
    the way (for every fuel, hence for `Formula.substPanics`). -/
theorem substPanicsFuel_false (v : Var) (s : GTerm) (hc : SortCompatible v s) :
    ∀ (n : Nat) (F : Formula), F.substPanicsFuel n v s = false := by
  intro n
  induction n with
  | zero =>
    intro F
    cases F <;> simp [Formula.substPanicsFuel, atomic_substPanics_false _ v s hc]
  | succ n ih =>
    intro F
    cases F with
    | atomic a => simp [Formula.substPanicsFuel, atomic_substPanics_false a v s hc]
    | not f => simp [Formula.substPanicsFuel, ih f]
    | bin c l r => simp [Formula.substPanicsFuel, ih l, ih r]
    | quant q vs f =>
      simp only [Formula.substPanicsFuel]
      split
      · rfl
      · exact ih _

theorem substitute_panic_free (F : Formula) (v : Var) (s : GTerm) (hc : SortCompatible v s) :
    F.substPanics v s = false := substPanicsFuel_false v s hc _ F

/-- A variable substituted by a variable of its own sort (what every renaming and the
    transitive-equality rewrite do) is always compatible. -/
theorem var_for_var_compatible (v w : Var) (h : v.sort = w.sort) : SortCompatible v w.toTerm := by
  obtain ⟨vn, vs⟩ := v
  obtain ⟨wn, ws⟩ := w
  simp only at h
  subst h
  cases vs <;> simp [SortCompatible, Var.toTerm]

/-- **Repaired defect (global index).** `choose_fresh_global_variables` computed `max_taken_var + i` with a
    plain addition: `p(V18446744073709551615).` overflowed (panic in the dev profile). Now the addition is
    checked and the smallest unused indices are the fallback; the chosen names are pairwise different, no
    variable of the program is among them, and there is one per head argument - for EVERY program
    (`chooseFreshGlobals_spec` no longer needs "no overflow"). -/
theorem fresh_globals_always_fresh (p : Asp.Program) :
    (chooseFreshGlobals p).Nodup ∧ (∀ g ∈ chooseFreshGlobals p, g ∉ p.vars) ∧
      (chooseFreshGlobals p).length = maxHeadArity p :=
  chooseFreshGlobals_spec p rfl

/-- tau* and mu no longer panic on any program -/
theorem globals_never_panic (p : Asp.Program) : globalsPanic p = false := rfl

/-- the former witness: the globals of `p(V18446744073709551615, X) :- q(V1), r(V2).` are the smallest
    unused names -/
theorem globals_overflow_witness :
    chooseFreshGlobals [⟨.basic ⟨"p", [.var "V18446744073709551615", .var "X"]⟩,
      [.lit ⟨.pos, ⟨"q", [.var "V1"]⟩⟩, .lit ⟨.pos, ⟨"r", [.var "V2"]⟩⟩]⟩] = ["V3", "V4"] := by decide

/-- After fix ca17dcd the TPTP printer panics on no formula. -/
theorem tptp_panic_free (F : Formula) : F.tptpPanics = false := by
  induction F with
  | atomic a =>
    cases a <;> simp [Formula.tptpPanics, AtomicF.tptpPanics, ITerm.tptpPanics]
    · rename_i a; intro t _; cases t <;> rfl
    · rename_i t gs
      refine ⟨by cases t <;> rfl, fun g _ => by cases g.term <;> rfl⟩
  | not f ih => simpa [Formula.tptpPanics] using ih
  | bin c l r ihl ihr => simp [Formula.tptpPanics, ihl, ihr]
  | quant q vs f ih => simpa [Formula.tptpPanics] using ih

/-- the completion of a tau* theory always exists: the `expect` in `theory_translate` cannot fail -/
theorem completion_of_tau_star_exists (P : Asp.Program) (ins : List Pred) (hp : globalsPanic P = false) :
    ∃ Γ, completion (tauStar P) ins = some Γ := completion_tauStar_some P ins hp

/-- **The external-equivalence pipeline never panics**: the only panic of
    `ExternalEquivalenceTask::decompose` that was reachable - the overflow of the global-variable index of
    tau* - is repaired, and no other `expect`, `unwrap` or `unreachable!` of the pipeline, of the outline
    construction or of the assembly is reachable, for any task. -/
theorem external_never_panics (t : ExternalTask) (fuel : Nat) (s : String) :
    externalProblems t fuel ≠ .panic s := by
  intro h
  rcases externalProblems_panic t fuel s h with h1 | ⟨PL, _, h1⟩ <;> cases h1

/-- the statement as it was before the repair (a panic implies the overflow condition, now never true) -/
theorem external_panic_only_overflow (t : ExternalTask) (fuel : Nat) (s : String)
    (h : externalProblems t fuel = .panic s) :
    globalsPanic t.program = true ∨ ∃ PL, t.specification = .inl PL ∧ globalsPanic PL = true :=
  externalProblems_panic t fuel s h

/-- **Repaired defect (numeral range).** A numeral or arity beyond the integer type used to pass the
    grammar and panic in the tree builder (`ParseIntError` unwrap). Since the fix the parser refuses a text
    the grammar accepts when one of its numbers does not fit (`parseProgramChecked` etc. model
    `impl Parser for PestParser`; the outcome on such texts is compared with the implementation on every
    run): a text whose tree has a numeral out of range is refused, and nothing else changes. -/
theorem out_of_range_refused (text : String) (p : Asp.Program) (h : Asp.parseProgram text = some p) :
    Asp.parseProgramChecked text = (if p.inRange then some p else none) := by
  unfold Asp.parseProgramChecked
  rw [h]

/-- every numeral of a program the parser returns fits `isize`: the later stages never see another one -/
theorem accepted_numerals_in_range (text : String) (p : Asp.Program) (h : Asp.parseProgramChecked text = some p) :
    p.inRange = true := by
  unfold Asp.parseProgramChecked at h
  cases h0 : Asp.parseProgram text with
  | none => simp [h0] at h
  | some p0 =>
    simp only [h0] at h
    split at h
    · rename_i hr; injection h with h; subst h; exact hr
    · cases h

end Anthem.C16
